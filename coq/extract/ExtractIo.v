(* Extraction of the executable iohelp model for the correspondence check (ExtrOcamlBasic only: bool, option, unit,
   list, prod, sumbool, sumor map to OCaml types; N, Z, positive, nat stay Coq inductives). *)
Require Import Bebop.wire.IoLib Bebop.gen.IohelpGen.
Require Extraction.
Require Import ExtrOcamlBasic.
Extraction "iomodel.ml" sl_read sl_write st_read_sem st_write_sem all_slice_fns all_stream_fns ErrorReader_Read.
