(* Extraction of the import worklist and cycle-search models for the C18 correspondence check. *)
Require Import Bebop.sys.Dfs Bebop.sys.Worklist.
Require Extraction.
Require Import ExtrOcamlBasic.
From Coq Require Import ZArith.
Extraction "sysmodel.ml" work find_cycle Z.of_N.
