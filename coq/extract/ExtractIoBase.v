(* Extraction of the BASELINE iohelp model (translation of the unchanged tree), used to search for a failing input when the
   tie to the current source is broken. *)
Require Import Bebop.wire.IoLib Bebop.baseline.IohelpGen.
Require Extraction.
Require Import ExtrOcamlBasic.
Extraction "iomodel.ml" sl_read sl_write st_read_sem st_write_sem all_slice_fns all_stream_fns ErrorReader_Read.
