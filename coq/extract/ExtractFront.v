(* Extraction of the executable front-end model (tokenizer, parser, formatter, validator) for the correspondence checks. *)
Require Import Bebop.front.Tok Bebop.front.Parse Bebop.front.Fmt Bebop.front.Valid.
Require Extraction.
Require Import ExtrOcamlBasic.
Extraction "frontmodel.ml" next_results read_file format read_and_validate.
