(* Extraction of the executable wire model for the correspondence checks (ExtrOcamlBasic only). *)
Require Import Bebop.wire.Wire Bebop.wire.ByteDec Bebop.wire.StreamDec Bebop.wire.Encoders.
Require Extraction.
Require Import ExtrOcamlBasic.
Extraction "wiremodel.ml" enc genc size dec3 sdec mto senc ew0 nofault Build_cfg Build_er Build_base.
