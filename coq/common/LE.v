(* Little-endian byte layer shared by every wire model.  Bytes are [N]; encoders provably emit values < 256. *)
From Coq Require Export List NArith ZArith Lia Bool Arith.
Export ListNotations.

Definition byte := N.
Definition bytes := list byte.

Fixpoint le_enc (w : nat) (n : N) : bytes :=
  match w with O => [] | S w' => (n mod 256)%N :: le_enc w' (n / 256)%N end.
Definition le_dec (l : bytes) : N := fold_right (fun b acc => (b + 256 * acc)%N) 0%N l.

Definition bytes_ok (l : bytes) : Prop := Forall (fun b => (b < 256)%N) l.

Lemma le_enc_length w n : length (le_enc w n) = w.
Proof. revert n; induction w; intros; cbn; auto. Qed.

Lemma le_dec_enc : forall w n, (n < 256 ^ N.of_nat w)%N -> le_dec (le_enc w n) = n.
Proof.
  induction w as [|w IH]; intros n Hn.
  - cbn in *. lia.
  - cbn [le_enc le_dec fold_right]. fold (le_dec (le_enc w (n / 256)%N)).
    rewrite IH.
    + pose proof (N.div_mod n 256). lia.
    + rewrite Nat2N.inj_succ, N.pow_succ_r' in Hn.
      apply N.div_lt_upper_bound; lia.
Qed.

Lemma le_enc_bytes_ok w n : bytes_ok (le_enc w n).
Proof.
  revert n; induction w as [|w IH]; intros n; cbn [le_enc]; constructor.
  - apply N.mod_lt. lia.
  - apply IH.
Qed.

Lemma le_dec_bound l : bytes_ok l -> (le_dec l < 256 ^ N.of_nat (length l))%N.
Proof.
  induction 1 as [|b l Hb _ IH]; [cbn; lia|].
  cbn [le_dec fold_right length]. fold (le_dec l).
  rewrite Nat2N.inj_succ, N.pow_succ_r'. lia.
Qed.

Lemma le_enc_dec l : bytes_ok l -> le_enc (length l) (le_dec l) = l.
Proof.
  induction 1 as [|b l Hb _ IH]; [reflexivity|].
  cbn [le_dec fold_right length le_enc]. fold (le_dec l).
  f_equal.
  - rewrite (N.mul_comm 256), N.mod_add by lia. apply N.mod_small; exact Hb.
  - rewrite (N.mul_comm 256), N.div_add by lia. rewrite (N.div_small b) by exact Hb.
    rewrite N.add_0_l. exact IH.
Qed.

(* the encoder only looks at the value modulo 256^w *)
Lemma le_enc_mod : forall w n, le_enc w (n mod 256 ^ N.of_nat w) = le_enc w n.
Proof.
  induction w as [|w IH]; intros n; [reflexivity|].
  cbn [le_enc]. rewrite Nat2N.inj_succ, N.pow_succ_r'.
  assert (Hp : (256 ^ N.of_nat w <> 0)%N) by (apply N.pow_nonzero; lia).
  f_equal.
  - rewrite N.mod_mul_r by lia. rewrite (N.mul_comm 256), N.mod_add by lia. apply N.mod_mod; lia.
  - rewrite N.mod_mul_r by lia. rewrite (N.mul_comm 256), N.div_add by lia.
    rewrite (N.div_small (n mod 256)) by (apply N.mod_lt; lia). rewrite N.add_0_l. apply IH.
Qed.

Lemma firstn_app_len {A} (a b : list A) : firstn (length a) (a ++ b) = a.
Proof. induction a; cbn; congruence. Qed.
Lemma skipn_app_len {A} (a b : list A) : skipn (length a) (a ++ b) = b.
Proof. induction a; cbn; congruence. Qed.
Lemma firstn_le n w rest : firstn w (le_enc w n ++ rest) = le_enc w n.
Proof. rewrite <- (le_enc_length w n) at 1. apply firstn_app_len. Qed.
Lemma skipn_le n w rest : skipn w (le_enc w n ++ rest) = rest.
Proof. rewrite <- (le_enc_length w n) at 1. apply skipn_app_len. Qed.
Lemma skipn_skipn' {A} : forall a b (l : list A), skipn a (skipn b l) = skipn (b + a) l.
Proof. intros a b; induction b as [|b IH]; intros l; [reflexivity|]. destruct l; cbn; [now destruct a|apply IH]. Qed.

(* two's complement *)
Definition to_signed (w : nat) (n : N) : Z :=
  if (n <? 2 ^ (8 * N.of_nat w - 1))%N then Z.of_N n else (Z.of_N n - 2 ^ (8 * Z.of_nat w))%Z.
Definition of_signed (w : nat) (z : Z) : N := Z.to_N (z mod 2 ^ (8 * Z.of_nat w))%Z.
Definition signed_range (w : nat) (z : Z) : Prop := (- 2 ^ (8 * Z.of_nat w - 1) <= z < 2 ^ (8 * Z.of_nat w - 1))%Z.

Lemma pow256 w : (256 ^ N.of_nat w = 2 ^ (8 * N.of_nat w))%N.
Proof. change 256%N with (2 ^ 8)%N. now rewrite <- N.pow_mul_r. Qed.

Lemma of_signed_lt w z : (of_signed w z < 256 ^ N.of_nat w)%N.
Proof.
  unfold of_signed. rewrite pow256.
  assert (H : (0 < 2 ^ (8 * Z.of_nat w))%Z) by (apply Z.pow_pos_nonneg; lia).
  pose proof (Z.mod_pos_bound z _ H) as B.
  apply N2Z.inj_lt. rewrite Z2N.id by lia. rewrite N2Z.inj_pow, N2Z.inj_mul, nat_N_Z. exact (proj2 B).
Qed.

Lemma to_of_signed w z : 0 < w -> signed_range w z -> to_signed w (of_signed w z) = z.
Proof.
  intros Hw [Hlo Hhi]. unfold to_signed, of_signed.
  set (m := (2 ^ (8 * Z.of_nat w))%Z).
  assert (Hm : (0 < m)%Z) by (apply Z.pow_pos_nonneg; lia).
  assert (Hhalf : (m = 2 * 2 ^ (8 * Z.of_nat w - 1))%Z).
  { unfold m. rewrite <- Z.pow_succ_r by lia. f_equal. lia. }
  assert (E : (2 ^ (8 * N.of_nat w - 1))%N = Z.to_N (2 ^ (8 * Z.of_nat w - 1))%Z).
  { apply N2Z.inj. rewrite N2Z.inj_pow, Z2N.id by (apply Z.pow_nonneg; lia).
    f_equal. rewrite N2Z.inj_sub by lia. rewrite N2Z.inj_mul, nat_N_Z. reflexivity. }
  rewrite E.
  destruct (Z_lt_ge_dec z 0) as [Hneg|Hpos].
  - assert (Hz : (z mod m = z + m)%Z).
    { symmetry. apply Z.mod_unique with (q := (-1)%Z); lia. }
    rewrite Hz.
    destruct (N.ltb_spec (Z.to_N (z + m)) (Z.to_N (2 ^ (8 * Z.of_nat w - 1)))) as [L|L].
    + apply Z2N.inj_lt in L; lia.
    + rewrite Z2N.id by lia. lia.
  - rewrite Z.mod_small by lia.
    destruct (N.ltb_spec (Z.to_N z) (Z.to_N (2 ^ (8 * Z.of_nat w - 1)))) as [L|L].
    + apply Z2N.id; lia.
    + apply Z2N.inj_le in L; lia.
Qed.

Lemma le_enc_1 n : le_enc 1 n = [(n mod 256)%N].
Proof. reflexivity. Qed.
Lemma le_dec_1 b : le_dec [b] = b.
Proof. unfold le_dec; cbn. lia. Qed.

Arguments le_enc : simpl never.
Arguments le_dec : simpl never.
