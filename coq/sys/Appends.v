(* C14: sequences of appends onto the slices of a File received by value (what translator T5 extracts from Generate). *)
Require Import Bebop.sys.Sys.
From Coq Require Import List Arith Bool Lia.
Import ListNotations.

(* several append statements onto one slice, in order: each fits (and writes the array at hand) or moves to a fresh array *)
Fixpoint append_seq (s : slice) (ns : list nat) (fresh : nat) : list nat :=
  match ns with
  | [] => []
  | n :: r => snd (append s n fresh) ++ append_seq (fst (append s n fresh)) r (S fresh)
  end.

(* once a slice is full (cap = len) or lives in an array of this call, every write lands in an array of this call *)
Lemma append_seq_bound : forall ns s fresh f0, f0 <= fresh -> (cap s = len s \/ f0 <= base s) ->
  forall b, In b (append_seq s ns fresh) -> f0 <= b.
Proof.
  induction ns as [|n r IH]; intros s fresh f0 Hf Hs b Hb; [contradiction|].
  cbn [append_seq] in Hb. apply in_app_or in Hb. unfold append in Hb.
  destruct (Nat.eqb_spec n 0) as [->|Hn].
  - cbn [fst snd] in Hb. destruct Hb as [[]|Hb]. apply (IH s (S fresh) f0 ltac:(lia) Hs b Hb).
  - destruct (Nat.leb_spec (len s + n) (cap s)) as [Hfit|Hno]; cbn [fst snd] in Hb.
    + destruct Hs as [Hs|Hs]; [lia|]. destruct Hb as [[<-|[]]|Hb]; [exact Hs|].
      eapply IH; [| |exact Hb]; [lia|right; exact Hs].
    + destruct Hb as [[<-|[]]|Hb]; [exact Hf|].
      eapply IH; [| |exact Hb]; [lia|right; cbn [base]; exact Hf].
Qed.

(* Generate: per receiver slice, whether it is cut down to cap = len first (T5's flag) and the sizes of its appends *)
Fixpoint gen_writes_seq (flags : list bool) (ss : list slice) (nss : list (list nat)) (fresh : nat) : list nat :=
  match flags, ss, nss with
  | c :: fl, s :: ss', ns :: nss' =>
      append_seq (if c then clip s else s) ns fresh ++ gen_writes_seq fl ss' nss' (fresh + length ns)
  | _, _, _ => []
  end.

Lemma gen_writes_seq_bound : forall flags ss nss fresh f0, forallb (fun c => c) flags = true -> f0 <= fresh ->
  forall b, In b (gen_writes_seq flags ss nss fresh) -> f0 <= b.
Proof.
  induction flags as [|c fl IH]; intros [|s ss] [|ns nss] fresh f0 Ha Hf b Hb; cbn [gen_writes_seq] in Hb; try contradiction.
  cbn [forallb] in Ha. apply andb_true_iff in Ha. destruct Ha as [-> Ha].
  apply in_app_or in Hb. destruct Hb as [Hb|Hb].
  - apply (append_seq_bound ns (clip s) fresh f0 Hf ltac:(left; reflexivity) b Hb).
  - apply (IH ss nss (fresh + length ns) f0 Ha ltac:(lia) b Hb).
Qed.

(* with every flag set, no array the caller can reach is written: whatever the lengths, capacities and append sizes *)
Theorem footprint_seq flags ss nss fresh : forallb (fun c => c) flags = true -> (forall s, In s ss -> base s < fresh) ->
  forall b, In b (gen_writes_seq flags ss nss fresh) -> ~ In b (caller_arrays ss).
Proof.
  intros Ha Hf b Hb Hin. pose proof (gen_writes_seq_bound flags ss nss fresh fresh Ha (le_n _) b Hb) as Hge.
  unfold caller_arrays in Hin. apply in_map_iff in Hin. destruct Hin as (s & <- & Hs). specialize (Hf s Hs). lia.
Qed.

(* one unset flag is enough to refute it: the first append that fits writes the caller's array *)
Example footprint_seq_refuted :
  exists ss nss fresh, (forall s, In s ss -> base s < fresh) /\
    exists b, In b (gen_writes_seq [true; false] ss nss fresh) /\ In b (caller_arrays ss).
Proof.
  exists [{| base := 0; len := 1; cap := 1 |}; {| base := 1; len := 3; cap := 4 |}], [[2]; [0; 1]], 7.
  split; [intros s [<-|[<-|[]]]; cbn; lia|]. exists 1. cbn. auto.
Qed.
