(* Scratch prototype: Validate's struct-usage fixpoint (gen.go:220-254), in-place updates, arbitrary iteration orders. *)
From Coq Require Import List NArith Lia Bool Arith.
Import ListNotations.

(* struct names: any type with a decidable equality (N in the abstract statement, byte strings in front/Valid.v) *)
Section Names.
Variable name : Type.
Variable eqb : name -> name -> bool.
Hypothesis eqb_spec : forall a b, reflect (a = b) (eqb a b).
Lemma eqb_refl a : eqb a a = true.
Proof. destruct (eqb_spec a a); [reflexivity|congruence]. Qed.
Lemma name_eq_dec (a b : name) : {a = b} + {a <> b}.
Proof. destruct (eqb_spec a b); [left|right]; assumption. Qed.
Definition mem (x : name) (l : list name) : bool := existsb (eqb x) l.
Lemma mem_In x l : mem x l = true <-> In x l.
Proof.
  unfold mem. rewrite existsb_exists. split.
  - intros (y & H & E). destruct (eqb_spec x y); [now subst|discriminate].
  - intros H. exists x. split; [exact H|apply eqb_refl].
Qed.

(* structTypeUsage : struct name -> set of used type names; the key set never changes *)
Definition usage := name -> list name.
Definition upd (u : usage) (a : name) (l : list name) : usage := fun x => if eqb x a then l else u x.

(* for k, v := range usage2 { if !usage[k] { delta = true }; usage[k] = v }  --  union, reporting whether anything was new *)
Fixpoint union (l add : list name) : list name * bool :=
  match add with
  | [] => (l, false)
  | k :: r => if mem k l then union l r else let '(l', _) := union (l ++ [k]) r in (l', true)
  end.

(* the body for one ordered pair (a, b) *)
Definition relax (u : usage) (a b : name) : usage * bool :=
  if eqb a b then (u, false)
  else if mem b (u a) then let '(l, d) := union (u a) (u b) in (upd u a l, d) else (u, false).

Fixpoint inner (u : usage) (a : name) (bs : list name) : usage * bool :=
  match bs with
  | [] => (u, false)
  | b :: r => let '(u1, d1) := relax u a b in let '(u2, d2) := inner u1 a r in (u2, d1 || d2)
  end.
(* one pass: outer order [as_], and for each outer key its own inner order (Go randomises every range) *)
Fixpoint pass (u : usage) (as_ : list name) (ord : name -> list name) : usage * bool :=
  match as_ with
  | [] => (u, false)
  | a :: r => let '(u1, d1) := inner u a (ord a) in let '(u2, d2) := pass u1 r ord in (u2, d1 || d2)
  end.
(* for delta { ... }: orders may differ from pass to pass *)
Fixpoint iterate (fuel : nat) (u : usage) (outer : nat -> list name) (ord : nat -> name -> list name) : option usage :=
  match fuel with
  | O => None
  | S f => let '(u1, d) := pass u (outer f) (ord f) in if d then iterate f u1 outer ord else Some u1
  end.

(* ---------- specification: closure through struct keys ---------- *)
Section Spec.
  Variable keys : list name.
  Variable u0 : usage.
  Inductive clo : name -> name -> Prop :=
  | c0 a x : In x (u0 a) -> clo a x
  | cS a b x : In b (u0 a) -> In b keys -> a <> b -> clo b x -> clo a x.
  (* note a <> b: the code skips the pair (a, a); self-loops are already in u0 a *)

  Definition below (u : usage) := forall a x, In x (u a) -> clo a x.
  Definition above (u : usage) := forall a x, In x (u0 a) -> In x (u a).
  Definition closed (u : usage) := forall a b x, In a keys -> In b keys -> a <> b -> In b (u a) -> In x (u b) -> In x (u a).

  Lemma clo_trans_key a b x : clo a b -> In b keys -> a <> b -> clo b x -> clo a x.
  Proof.
    intros H. revert x. induction H as [a b Hb|a c b Hc Kc Nac Hcb IH]; intros x Kb Nab Hbx.
    - eapply cS; eauto.
    - destruct (name_eq_dec c b) as [->|Ncb]; [eapply cS; eauto|].
      eapply cS; eauto.
  Qed.
End Spec.

(* ---------- facts about union / relax ---------- *)
Lemma union_spec : forall add l l' d, union l add = (l', d) ->
  (forall x, In x l' <-> In x l \/ In x add) /\ (d = false -> l' = l) /\ (d = true -> length l < length l') /\ length l <= length l'.
Proof.
  induction add as [|k r IH]; intros l l' d H; cbn [union] in H.
  - injection H as <- <-. split; [|split; [|split]].
    + intros x. cbn. tauto.
    + reflexivity.
    + discriminate.
    + lia.
  - destruct (mem k l) eqn:M.
    + destruct (IH l l' d H) as (S1 & S2 & S3 & S4). split; [|split; [|split]]; auto.
      intros x. rewrite S1. cbn. split; [tauto|]. intros [Hx|[<-|Hx]]; auto. left. now apply mem_In.
    + destruct (union (l ++ [k]) r) as [l2 d2] eqn:U. injection H as <- <-.
      destruct (IH (l ++ [k]) l2 d2 U) as (S1 & S2 & S3 & S4). rewrite app_length in *. cbn [length] in *.
      split; [|split; [|split]]; try discriminate; try lia.
      intros x. rewrite S1, in_app_iff. cbn. tauto.
Qed.

Lemma nodup_snoc (l : list name) k : NoDup l -> ~ In k l -> NoDup (l ++ [k]).
Proof.
  induction 1 as [|x l Hx N IH]; intros Hk; cbn; [repeat constructor; intros []|].
  constructor; [|apply IH; intros H; apply Hk; now right].
  rewrite in_app_iff. cbn. intros [H|[<-|[]]]; [auto|apply Hk; now left].
Qed.

Lemma union_nodup : forall add l l' d, NoDup l -> union l add = (l', d) -> NoDup l'.
Proof.
  induction add as [|k r IH]; intros l l' d N H; cbn [union] in H.
  - now injection H as <- <-.
  - destruct (mem k l) eqn:M; [eauto|].
    destruct (union (l ++ [k]) r) as [l2 d2] eqn:U. injection H as <- <-.
    eapply IH; [|exact U]. apply nodup_snoc; [exact N|]. intros Hx. apply mem_In in Hx. congruence.
Qed.

Section Correct.
  Variable keys V : list name.
  Variable u0 : usage.
  Notation clo := (clo keys u0).

  Record Inv (u : usage) : Prop := {
    i_below : forall a x, In x (u a) -> clo a x;
    i_above : forall a x, In x (u0 a) -> In x (u a);
    i_nodup : forall a, NoDup (u a);
    i_incl : forall a, incl (u a) V }.

  Lemma relax_inv u a b u' d : Inv u -> In b keys -> relax u a b = (u', d) -> Inv u'.
  Proof.
    intros I Kb H. unfold relax in H. destruct (eqb_spec a b) as [->|Nab]; [now injection H as <- <-|].
    destruct (mem b (u a)) eqn:M; [|now injection H as <- <-].
    destruct (union (u a) (u b)) as [l d'] eqn:U. injection H as <- <-.
    destruct (union_spec _ _ _ _ U) as (S1 & _). apply mem_In in M.
    constructor; intros c; unfold upd; destruct (eqb_spec c a) as [->|Nca]; try apply I.
    - intros x Hx. apply S1 in Hx. destruct Hx as [Hx|Hx]; [now apply I|].
      eapply clo_trans_key; eauto; apply I; eauto.
    - intros x Hx. apply S1. left. now apply I.
    - eapply union_nodup; [apply I|exact U].
    - intros x Hx. apply S1 in Hx. destruct Hx; eapply I; eauto.
  Qed.

  Lemma relax_quiet u a b u' : relax u a b = (u', false) ->
    (forall c, u' c = u c) /\ (a <> b -> In b (u a) -> incl (u b) (u a)).
  Proof.
    unfold relax. destruct (eqb_spec a b) as [->|Nab]; [intros [= <-]; split; [reflexivity|congruence]|].
    destruct (mem b (u a)) eqn:M.
    - destruct (union (u a) (u b)) as [l d'] eqn:U. intros [= <- ->].
      destruct (union_spec _ _ _ _ U) as (S1 & S2 & _). specialize (S2 eq_refl). subst l. split.
      + intros c. unfold upd. destruct (eqb_spec c a) as [->|]; reflexivity.
      + intros _ _ x Hx. apply S1. now right.
    - intros [= <-]. split; [reflexivity|]. intros _ Hb. apply mem_In in Hb. congruence.
  Qed.

  Definition total (u : usage) : nat := fold_right (fun a acc => length (u a) + acc) 0 keys.

  Lemma total_upd u a l : length (u a) <= length l ->
    total u <= total (upd u a l) /\ (In a keys -> length (u a) < length l -> total u < total (upd u a l)).
  Proof.
    intros Hl. unfold total. induction keys as [|k ks IH]; cbn [fold_right]; [split; [lia|intros []]|].
    destruct IH as [IH1 IH2]. unfold upd at 1 3. destruct (eqb_spec k a) as [->|Nk].
    - split; [lia|]. intros _ Hlt. lia.
    - split; [lia|]. intros [->|Hin] Hlt; [congruence|]. specialize (IH2 Hin Hlt). lia.
  Qed.

  Lemma total_bound u : Inv u -> total u <= length keys * length V.
  Proof.
    intros I. unfold total. induction keys as [|k ks IHk]; [cbn; lia|].
    cbn [fold_right length Nat.mul].
    pose proof (NoDup_incl_length (i_nodup u I k) (i_incl u I k)). lia.
  Qed.

  Lemma relax_total u a b u' d : In a keys -> relax u a b = (u', d) ->
    total u <= total u' /\ (d = true -> total u < total u').
  Proof.
    intros Ka H. unfold relax in H. destruct (eqb_spec a b) as [->|Nab]; [injection H as <- <-; split; [lia|discriminate]|].
    destruct (mem b (u a)) eqn:M; [|injection H as <- <-; split; [lia|discriminate]].
    destruct (union (u a) (u b)) as [l d'] eqn:U. injection H as <- <-.
    destruct (union_spec _ _ _ _ U) as (_ & _ & S3 & S4). destruct (total_upd u a l S4) as [T1 T2]. split; [exact T1|].
    intros ->. apply T2; auto.
  Qed.

  (* inner / pass: invariant, monotone total, quiet => closed for the visited pairs *)
  Lemma inner_inv : forall bs u a u' d, Inv u -> incl bs keys -> inner u a bs = (u', d) -> Inv u'.
  Proof.
    induction bs as [|b r IH]; intros u a u' d I Hb H; cbn [inner] in H; [now injection H as <- <-|].
    destruct (relax u a b) as [u1 d1] eqn:R. destruct (inner u1 a r) as [u2 d2] eqn:N. injection H as <- <-.
    eapply IH; [|intros x Hx; apply Hb; now right|exact N]. eapply relax_inv; [exact I|apply Hb; now left|exact R].
  Qed.
  Lemma inner_total : forall bs u a u' d, In a keys -> inner u a bs = (u', d) ->
    total u <= total u' /\ (d = true -> total u < total u').
  Proof.
    induction bs as [|b r IH]; intros u a u' d Ka H; cbn [inner] in H; [injection H as <- <-; split; [lia|discriminate]|].
    destruct (relax u a b) as [u1 d1] eqn:R. destruct (inner u1 a r) as [u2 d2] eqn:N. injection H as <- <-.
    destruct (relax_total _ _ _ _ _ Ka R) as [A1 A2]. destruct (IH _ _ _ _ Ka N) as [B1 B2]. split; [lia|].
    destruct d1; cbn; [intros _; specialize (A2 eq_refl); lia|intros ->; specialize (B2 eq_refl); lia].
  Qed.
  Lemma inner_quiet : forall bs u a u', inner u a bs = (u', false) ->
    (forall c, u' c = u c) /\ (forall b, In b bs -> a <> b -> In b (u a) -> incl (u b) (u a)).
  Proof.
    induction bs as [|b r IH]; intros u a u' H; cbn [inner] in H; [injection H as <-; split; [reflexivity|intros ? []]|].
    destruct (relax u a b) as [u1 d1] eqn:R. destruct (inner u1 a r) as [u2 d2] eqn:N. injection H as <- Hd.
    apply orb_false_iff in Hd. destruct Hd as [-> ->].
    destruct (relax_quiet _ _ _ _ R) as [E1 C1]. destruct (IH _ _ _ N) as [E2 C2]. split.
    - intros c. now rewrite E2, E1.
    - intros b' [<-|Hb'] Nab Hin; [now apply C1|]. specialize (C2 b' Hb' Nab). rewrite !E1 in C2. now apply C2.
  Qed.

  Lemma pass_inv : forall as_ u ord u' d, Inv u -> (forall a, incl (ord a) keys) -> pass u as_ ord = (u', d) -> Inv u'.
  Proof.
    induction as_ as [|a r IH]; intros u ord u' d I Ho H; cbn [pass] in H; [now injection H as <- <-|].
    destruct (inner u a (ord a)) as [u1 d1] eqn:R. destruct (pass u1 r ord) as [u2 d2] eqn:N. injection H as <- <-.
    eapply IH; [|exact Ho|exact N]. eapply inner_inv; [exact I|apply Ho|exact R].
  Qed.
  Lemma pass_total : forall as_ u ord u' d, incl as_ keys -> pass u as_ ord = (u', d) ->
    total u <= total u' /\ (d = true -> total u < total u').
  Proof.
    induction as_ as [|a r IH]; intros u ord u' d Ha H; cbn [pass] in H; [injection H as <- <-; split; [lia|discriminate]|].
    destruct (inner u a (ord a)) as [u1 d1] eqn:R. destruct (pass u1 r ord) as [u2 d2] eqn:N. injection H as <- <-.
    destruct (inner_total _ _ _ _ _ (Ha a (or_introl eq_refl)) R) as [A1 A2].
    destruct (IH _ _ _ _ (fun x Hx => Ha x (or_intror Hx)) N) as [B1 B2]. split; [lia|].
    destruct d1; cbn; [intros _; specialize (A2 eq_refl); lia|intros ->; specialize (B2 eq_refl); lia].
  Qed.
  Lemma pass_quiet : forall as_ u ord u', pass u as_ ord = (u', false) ->
    (forall c, u' c = u c) /\ (forall a b, In a as_ -> In b (ord a) -> a <> b -> In b (u a) -> incl (u b) (u a)).
  Proof.
    induction as_ as [|a r IH]; intros u ord u' H; cbn [pass] in H; [injection H as <-; split; [reflexivity|intros ? ? []]|].
    destruct (inner u a (ord a)) as [u1 d1] eqn:R. destruct (pass u1 r ord) as [u2 d2] eqn:N. injection H as <- Hd.
    apply orb_false_iff in Hd. destruct Hd as [-> ->].
    destruct (inner_quiet _ _ _ _ R) as [E1 C1]. destruct (IH _ _ _ N) as [E2 C2]. split.
    - intros c. now rewrite E2, E1.
    - intros a' b [<-|Ha'] Hb Nab Hin; [now apply C1|]. specialize (C2 a' b Ha' Hb Nab). rewrite !E1 in C2. now apply C2.
  Qed.

  (* closed + above => contains the closure *)
  Lemma closed_contains u : (forall a x, In x (u0 a) -> In x (u a)) ->
    (forall a b, In a keys -> In b keys -> a <> b -> In b (u a) -> incl (u b) (u a)) ->
    forall a x, clo a x -> In a keys -> In x (u a).
  Proof.
    intros Ab Cl a x H. induction H as [a x Hx|a b x Hb Kb Nab _ IH]; intros Ka; [now apply Ab|].
    apply (Cl a b Ka Kb Nab (Ab _ _ Hb)). apply IH. exact Kb.
  Qed.

  (* ---------- the loop ---------- *)
  Variable outer : nat -> list name.
  Variable ord : nat -> name -> list name.
  Hypothesis outer_keys : forall f, incl (outer f) keys /\ incl keys (outer f).
  Hypothesis ord_keys : forall f a, incl (ord f a) keys /\ incl keys (ord f a).

  Theorem iterate_exact : forall fuel u u', Inv u -> iterate fuel u outer ord = Some u' ->
    forall a x, In a keys -> (In x (u' a) <-> clo a x).
  Proof.
    induction fuel as [|f IH]; intros u u' I H; [discriminate|]. cbn [iterate] in H.
    destruct (pass u (outer f) (ord f)) as [u1 d] eqn:P.
    assert (I1 : Inv u1) by (eapply pass_inv; [exact I|intros a; apply ord_keys|exact P]).
    destruct d; [eapply IH; eauto|]. injection H as <-.
    destruct (pass_quiet _ _ _ _ P) as [E C]. intros a x Ka. split; [apply I1|].
    intros Hc. rewrite E. eapply closed_contains; eauto; [apply I|].
    intros a' b Ka' Kb Nab Hin. apply C; auto; [apply outer_keys|apply ord_keys]; auto.
  Qed.

  Theorem iterate_terminates : forall fuel u, Inv u -> length keys * length V < fuel + total u ->
    iterate fuel u outer ord <> None.
  Proof.
    induction fuel as [|f IH]; intros u I Hf; [pose proof (total_bound u I); lia|]. cbn [iterate].
    destruct (pass u (outer f) (ord f)) as [u1 d] eqn:P.
    assert (I1 : Inv u1) by (eapply pass_inv; [exact I|intros a; apply ord_keys|exact P]).
    destruct d; [|discriminate].
    destruct (pass_total _ _ _ _ _ (proj1 (outer_keys f)) P) as [_ T]. specialize (T eq_refl).
    apply IH; [exact I1|lia].
  Qed.
End Correct.
End Names.
Print Assumptions iterate_exact.
Print Assumptions iterate_terminates.
