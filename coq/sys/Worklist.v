(* Scratch prototype: the import worklist of File.Generate (gen.go:286-343) over an abstract file system. *)
From Coq Require Import List NArith Lia Bool Arith.
Import ListNotations.

Notation pathk := N (only parsing).                    (* filepath.Join(thisDir, imp.to), cleaned: the dedup key; a NOTATION, not a definition *)
Record bfile := { pkg : N; imps : list pathk }.
Definition fsys := pathk -> option bfile.              (* None: os.Open / ReadFile fails *)
Definition mem (x : N) (l : list N) : bool := existsb (N.eqb x) l.
Lemma mem_In x l : mem x l = true <-> In x l.
Proof. unfold mem. rewrite existsb_exists. split; [intros (y & H & E); apply N.eqb_eq in E; now subst|intros H; exists x; split; [exact H|apply N.eqb_refl]]. Qed.

Inductive wres := Done (imported : list pathk) (edges : list (N * N)) | OpenError | WFuel.

(* for i := 0; i < len(imports); i++ over a slice that grows = a queue *)
Fixpoint work (fuel : nat) (fs : fsys) (queue : list (N * pathk)) (imported : list pathk) (edges : list (N * N)) : wres :=
  match fuel with
  | O => WFuel
  | S f =>
      match queue with
      | [] => Done imported edges
      | (from, p) :: q =>
          match fs p with
          | None => OpenError
          | Some bf =>
              let edges' := edges ++ [(from, pkg bf)] in
              if mem p imported then work f fs q imported edges'
              else work f fs (q ++ map (fun s => (pkg bf, s)) (imps bf)) (imported ++ [p]) edges'
          end
      end
  end.

(* ---------- termination ---------- *)
Section Term.
  Variable fs : fsys.
  Variable U : list pathk.                               (* every path that can be named; finite *)
  Hypothesis U_nodup : NoDup U.

  Definition cost (p : pathk) : nat := match fs p with Some bf => length (imps bf) | None => 0 end.
  Definition pending (imported : list pathk) : nat :=
    fold_right (fun p acc => (if mem p imported then 0 else cost p) + acc) 0 U.

  Lemma pending_add imported p : In p U -> mem p imported = false ->
    pending (imported ++ [p]) + cost p = pending imported.
  Proof.
    unfold pending. intros Hin Hm. induction U as [|u us IH]; [contradiction|]. cbn [fold_right].
    inversion U_nodup as [|? ? Hu Hus]; subst.
    assert (Hm' : forall x, mem x (imported ++ [p]) = mem x imported || N.eqb x p).
    { intros x. unfold mem. rewrite existsb_app. cbn. now rewrite orb_false_r. }
    destruct Hin as [->|Hin].
    - rewrite Hm', Hm, N.eqb_refl. cbn [orb].
      assert (E : forall l, ~ In p l -> fold_right (fun p0 acc => (if mem p0 (imported ++ [p]) then 0 else cost p0) + acc) 0 l
                                       = fold_right (fun p0 acc => (if mem p0 imported then 0 else cost p0) + acc) 0 l).
      { induction l as [|x l IHl]; intros Hn; [reflexivity|]. cbn [fold_right]. rewrite Hm'.
        destruct (N.eqb_spec x p) as [->|Hx]; [exfalso; apply Hn; now left|]. rewrite orb_false_r, IHl; [reflexivity|]. intros H; apply Hn; now right. }
      rewrite (E us Hu). lia.
    - rewrite Hm'. destruct (N.eqb_spec u p) as [->|Hx]; [contradiction|]. rewrite orb_false_r.
      specialize (IH Hus Hin). lia.
  Qed.

  Theorem work_terminates : forall fuel queue imported edges,
    (forall from p, In (from, p) queue -> In p U) -> (forall p bf s, fs p = Some bf -> In s (imps bf) -> In s U) ->
    length queue + pending imported < fuel -> work fuel fs queue imported edges <> WFuel.
  Proof.
    induction fuel as [|f IH]; intros queue imported edges HQ HU Hf; [lia|]. cbn [work].
    destruct queue as [|[from p] q]; [discriminate|]. destruct (fs p) as [bf|] eqn:Ep; [|discriminate].
    change (length ((from, p) :: q)) with (S (length q)) in Hf.
    destruct (mem p imported) eqn:M.
    - apply IH; [intros a b Hab; eapply HQ; right; exact Hab|exact HU|lia].
    - apply IH; [|exact HU|].
      + intros a b Hab. apply in_app_or in Hab. destruct Hab as [Hab|Hab]; [eapply HQ; right; exact Hab|].
        apply in_map_iff in Hab. destruct Hab as (s & [= <- <-] & Hs). eapply HU; eauto.
      + rewrite app_length, map_length. pose proof (pending_add imported p (HQ from p (or_introl eq_refl)) M) as P.
        unfold cost in P. rewrite Ep in P. lia.
  Qed.
End Term.

(* ---------- what the result is ---------- *)
Section Result.
  Variable fs : fsys.
  Definition targets (q : list (N * pathk)) : list pathk := map snd q.
  (* invariant: no duplicates; every import of an imported file is imported or still queued *)
  Definition winv (queue : list (N * pathk)) (imported : list pathk) : Prop :=
    NoDup imported /\ forall p bf s, In p imported -> fs p = Some bf -> In s (imps bf) -> In s imported \/ In s (targets queue).

  Theorem work_result : forall fuel queue imported edges final edges',
    winv queue imported -> work fuel fs queue imported edges = Done final edges' ->
    NoDup final /\ (forall p, In p imported \/ In p (targets queue) -> In p final) /\
    (forall p bf s, In p final -> fs p = Some bf -> In s (imps bf) -> In s final).
  Proof.
    induction fuel as [|f IH]; intros queue imported edges final edges' [ND CL] H; [discriminate|]. cbn [work] in H.
    destruct queue as [|[from p] q].
    - injection H as <- <-. split; [exact ND|]. split; [intros p [Hp|[]]; exact Hp|].
      intros p bf s Hp Ep Hs. destruct (CL p bf s Hp Ep Hs) as [?|[]]; auto.
    - destruct (fs p) as [bf|] eqn:Ep; [|discriminate]. destruct (mem p imported) eqn:M.
      + apply mem_In in M. destruct (IH q imported (edges ++ [(from, pkg bf)]) final edges') as (N1 & I1 & C1); [|exact H|].
        * split; [exact ND|]. intros p0 bf0 s Hp0 E0 Hs. destruct (CL p0 bf0 s Hp0 E0 Hs) as [?|[<-|?]]; auto.
        * split; [exact N1|]. split; [|exact C1]. intros p0 [Hp0|[<-|Hp0]]; auto.
      + assert (Hn : ~ In p imported) by (intros Hin; apply mem_In in Hin; congruence).
        destruct (IH (q ++ map (fun s => (pkg bf, s)) (imps bf)) (imported ++ [p]) (edges ++ [(from, pkg bf)]) final edges') as (N1 & I1 & C1); [|exact H|].
        * split.
          -- clear -ND Hn. induction ND as [|x l Hx _ IHl]; cbn; [repeat constructor; intros []|].
             constructor; [rewrite in_app_iff; cbn; intros [?|[<-|[]]]; [auto|apply Hn; now left]|apply IHl; intros ?; apply Hn; now right].
          -- intros p0 bf0 s Hp0 E0 Hs. unfold targets. rewrite map_app, map_map. cbn [snd]. rewrite map_id, !in_app_iff.
             apply in_app_or in Hp0. destruct Hp0 as [Hp0|[<-|[]]].
             ++ destruct (CL p0 bf0 s Hp0 E0 Hs) as [?|[<-|?]]; auto. left. right. now left.
             ++ rewrite Ep in E0. injection E0 as <-. right. now right.
        * split; [exact N1|]. split; [|exact C1]. intros p0 Hp0. apply I1. unfold targets. rewrite map_app, !in_app_iff.
          destruct Hp0 as [Hp0|[<-|Hp0]]; [left; now left|left; right; now left|right; now left].
  Qed.
End Result.
Print Assumptions work_terminates.
Print Assumptions work_result.
