(* Scratch prototype: internal/importgraph FindCycle (naive DFS, stack consulted, visited not) *)
From Coq Require Import List NArith Lia Bool Arith.
Import ListNotations.

Definition node := N.
Definition graph := node -> list node.      (* d.nodes[from], in insertion order *)
Definition mem (x : node) (l : list node) : bool := existsb (N.eqb x) l.
Lemma mem_In x l : mem x l = true <-> In x l.
Proof. unfold mem. rewrite existsb_exists. split; [intros (y & H & E); apply N.eqb_eq in E; now subst|intros H; exists x; split; [exact H|apply N.eqb_refl]]. Qed.

Inductive res := Found (c : node) | NotFound | Fuel.

(* findCycle(from, stack): stack[from] = {}; for to in nodes[from] { if to in stack -> cycle; recurse }; delete(stack, from) *)
Fixpoint dfs (fuel : nat) (g : graph) (from : node) (stack : list node) : res :=
  match fuel with
  | O => Fuel
  | S f =>
      (fix go (succs : list node) : res :=
         match succs with
         | [] => NotFound
         | to :: r =>
             if mem to (from :: stack) then Found to
             else match dfs f g to (from :: stack) with
                  | NotFound => go r
                  | x => x
                  end
         end) (g from)
  end.

(* paths with at least one edge *)
Inductive path (g : graph) : node -> node -> Prop :=
| p1 a b : In b (g a) -> path g a b
| pS a b c : In b (g a) -> path g b c -> path g a c.
Lemma path_trans g a b c : path g a b -> path g b c -> path g a c.
Proof. induction 1; intros; [eapply pS; eauto|eapply pS; eauto]. Qed.

(* the stack is the current DFS path, most recent first *)
Fixpoint chain (g : graph) (l : list node) : Prop :=
  match l with
  | x :: ((y :: _) as r) => In x (g y) /\ chain g r
  | _ => True
  end.
Lemma chain_reach g : forall l x y, chain g (x :: l) -> In y l -> path g y x.
Proof.
  induction l as [|z l IH]; intros x y C Hy; [contradiction|].
  cbn in C. destruct C as [E C]. destruct Hy as [->|Hy]; [now apply p1|].
  eapply path_trans; [eapply IH; eauto|now apply p1].
Qed.

(* ---------- soundness: a reported cycle is a cycle through the current path ---------- *)
Lemma dfs_sound g : forall fuel from stack c, chain g (from :: stack) ->
  dfs fuel g from stack = Found c -> path g c c /\ (c = from \/ path g from c \/ In c stack).
Proof.
  induction fuel as [|f IH]; intros from stack c C; [discriminate|]. cbn [dfs].
  assert (G : forall succs, (forall x, In x succs -> In x (g from)) ->
     (fix go (succs : list node) : res :=
         match succs with
         | [] => NotFound
         | to :: r => if mem to (from :: stack) then Found to
                      else match dfs f g to (from :: stack) with NotFound => go r | x => x end
         end) succs = Found c -> path g c c /\ (c = from \/ path g from c \/ In c stack)).
  { induction succs as [|to r IHr]; intros Hs; [discriminate|].
    destruct (mem to (from :: stack)) eqn:M.
    - intros [= <-]. apply mem_In in M. assert (E : In to (g from)) by (apply Hs; now left).
      destruct M as [<-|M].
      + split; [now apply p1|now left].
      + split; [|now right; right].
        eapply path_trans; [eapply chain_reach; [exact C|exact M]|now apply p1].
    - destruct (dfs f g to (from :: stack)) eqn:D; try discriminate.
      + intros [= <-]. assert (E : In to (g from)) by (apply Hs; now left).
        destruct (IH to (from :: stack) c0) as (P & W); [cbn; split; [exact E|exact C]|exact D|].
        split; [exact P|]. destruct W as [->|[W|[<-|W]]].
        * right; left. now apply p1.
        * right; left. eapply pS; eauto.
        * now left.
        * now right; right.
      + intros H. apply IHr; [|exact H]. intros x Hx. apply Hs. now right. }
  apply G. auto.
Qed.

(* ---------- completeness ---------- *)
Lemma go_notfound g f from stack : forall succs,
  (fix go (succs : list node) : res :=
     match succs with
     | [] => NotFound
     | to :: r => if mem to (from :: stack) then Found to
                  else match dfs f g to (from :: stack) with NotFound => go r | x => x end
     end) succs = NotFound ->
  forall to, In to succs -> mem to (from :: stack) = false /\ dfs f g to (from :: stack) = NotFound.
Proof.
  induction succs as [|t r IH]; intros H to Hin; [contradiction|].
  destruct (mem t (from :: stack)) eqn:M; [discriminate|].
  destruct (dfs f g t (from :: stack)) eqn:D; try discriminate.
  destruct Hin as [<-|Hin]; [now split|]. now apply IH.
Qed.

Lemma dfs_complete g : forall fuel from stack, dfs fuel g from stack = NotFound ->
  (forall u, path g from u -> ~ In u (from :: stack)) /\ (forall u, path g from u -> ~ path g u u).
Proof.
  induction fuel as [|f IH]; intros from stack H; [discriminate|]. cbn [dfs] in H.
  pose proof (go_notfound g f from stack (g from) H) as G.
  assert (A : forall u, path g from u -> ~ In u (from :: stack)).
  { intros u P. inversion P as [a b E|a b c E P']; subst.
    - destruct (G u E) as [M _]. intros Hin. apply mem_In in Hin. congruence.
    - destruct (G b E) as [_ D]. destruct (IH b (from :: stack) D) as [Ab _].
      intros Hin. apply (Ab u P'). now right. }
  split; [exact A|].
  intros u P. inversion P as [a b E|a b c E P']; subst.
  - destruct (G u E) as [_ D]. destruct (IH u (from :: stack) D) as [Au _].
    intros C. apply (Au u C). now left.
  - destruct (G b E) as [_ D]. destruct (IH b (from :: stack) D) as [_ Bb]. now apply Bb.
Qed.

Corollary dfs_exact g fuel from : dfs fuel g from [] <> Fuel ->
  (exists c, dfs fuel g from [] = Found c) <-> (path g from from \/ exists u, path g from u /\ path g u u).
Proof.
  intros NF. split.
  - intros [c H]. destruct (dfs_sound g fuel from [] c I H) as (P & [->|[W|[]]]); [now left|right; eauto].
  - intros C. destruct (dfs fuel g from []) eqn:D; [eauto|exfalso|congruence].
    destruct (dfs_complete g fuel from [] D) as [A B].
    destruct C as [C|(u & P & C)]; [apply (A from C); now left|exact (B u P C)].
Qed.

(* ---------- fuel adequacy over a finite universe ---------- *)
Lemma dfs_fuel g U : (forall a b, In b (g a) -> In b U) ->
  forall fuel from stack, NoDup (from :: stack) -> incl (from :: stack) U ->
    length U <= fuel + length stack -> dfs fuel g from stack <> Fuel.
Proof.
  intros HU. induction fuel as [|f IH]; intros from stack ND Inc Hf.
  - apply NoDup_incl_length in Inc; [|exact ND]. cbn in *. lia.
  - cbn [dfs]. assert (G : forall succs, (forall x, In x succs -> In x (g from)) ->
      (fix go (succs : list node) : res :=
         match succs with
         | [] => NotFound
         | to :: r => if mem to (from :: stack) then Found to
                      else match dfs f g to (from :: stack) with NotFound => go r | x => x end
         end) succs <> Fuel).
    { induction succs as [|to r IHr]; intros Hs; [discriminate|].
      destruct (mem to (from :: stack)) eqn:M; [discriminate|].
      assert (NI : ~ In to (from :: stack)) by (intros X; apply mem_In in X; congruence).
      specialize (IH to (from :: stack)).
      destruct (dfs f g to (from :: stack)) eqn:D; [discriminate| |].
      - apply IHr. intros x Hx. apply Hs. now right.
      - exfalso. apply IH; auto.
        + now constructor.
        + intros x [<-|Hx]; [eapply HU, Hs; now left|now apply Inc].
        + cbn [length]. lia. }
    apply G. auto.
Qed.



(* ---------- FindCycle: for node := range d.nodes { if visited[node] continue; findCycle(node, stack, visited, ...) } ---------- *)
(* the same search, now also returning the visited set exactly as the code updates it (visited[from] = true on entry) *)
Fixpoint dfsv (fuel : nat) (g : graph) (from : node) (stack visited : list node) : res * list node :=
  match fuel with
  | O => (Fuel, visited)
  | S f =>
      (fix go (succs : list node) (vis : list node) : res * list node :=
         match succs with
         | [] => (NotFound, vis)
         | to :: r =>
             if mem to (from :: stack) then (Found to, vis)
             else match dfsv f g to (from :: stack) vis with
                  | (NotFound, vis') => go r vis'
                  | x => x
                  end
         end) (g from) (from :: visited)
  end.

(* erasing the visited set gives back dfs *)
Lemma dfsv_dfs g : forall fuel from stack visited, fst (dfsv fuel g from stack visited) = dfs fuel g from stack.
Proof.
  induction fuel as [|f IH]; intros from stack visited; [reflexivity|]. cbn [dfsv dfs].
  generalize (from :: visited). induction (g from) as [|to r IHr]; intros vis; [reflexivity|].
  destruct (mem to (from :: stack)); [reflexivity|].
  specialize (IH to (from :: stack) vis). destruct (dfsv f g to (from :: stack) vis) as [[c| |] vis'] eqn:D; cbn [fst] in IH; rewrite <- IH; auto.
Qed.

Definition acyclic_from (g : graph) (u : node) : Prop := ~ path g u u /\ forall w, path g u w -> ~ path g w w.

(* every node a finished, unsuccessful search has newly marked is the root of an unsuccessful sub-search, hence acyclic *)
Lemma dfsv_marks g : forall fuel from stack visited vis',
  dfsv fuel g from stack visited = (NotFound, vis') ->
  (forall u, In u visited -> In u vis') /\ In from vis' /\ forall u, In u vis' -> In u visited \/ acyclic_from g u.
Proof.
  induction fuel as [|f IH]; intros from stack visited vis' H; [discriminate|].
  assert (Hroot : acyclic_from g from).
  { pose proof (dfsv_dfs g (S f) from stack visited) as E. rewrite H in E. cbn [fst] in E. symmetry in E.
    destruct (dfs_complete g (S f) from stack E) as [A B]. split; [intros C; apply (A from C); now left|exact B]. }
  cbn [dfsv] in H.
  assert (G : forall succs vis0 vis1,
     (fix go (succs : list node) (vis : list node) : res * list node :=
         match succs with
         | [] => (NotFound, vis)
         | to :: r => if mem to (from :: stack) then (Found to, vis)
                      else match dfsv f g to (from :: stack) vis with (NotFound, vis') => go r vis' | x => x end
         end) succs vis0 = (NotFound, vis1) ->
     (forall u, In u vis0 -> In u vis1) /\ forall u, In u vis1 -> In u vis0 \/ acyclic_from g u).
  { induction succs as [|to r IHr]; intros vis0 vis1 Hg.
    - injection Hg as <-. split; auto.
    - destruct (mem to (from :: stack)); [discriminate|].
      destruct (dfsv f g to (from :: stack) vis0) as [[c| |] visA] eqn:D; try discriminate.
      destruct (IH _ _ _ _ D) as (M1 & _ & K1). destruct (IHr visA vis1 Hg) as (M2 & K2). split; [auto|].
      intros u Hu. destruct (K2 u Hu) as [Hin|Hac]; [|now right]. destruct (K1 u Hin); auto. }
  destruct (G _ _ _ H) as (M & K). split; [intros u Hu; apply M; now right|]. split; [apply M; now left|].
  intros u Hu. destruct (K u Hu) as [[<-|Hin]|Hac]; auto.
Qed.

(* the outer loop, in any node order *)
Fixpoint find_cycle (fuel : nat) (g : graph) (order : list node) (visited : list node) : res :=
  match order with
  | [] => NotFound
  | n :: r =>
      if mem n visited then find_cycle fuel g r visited
      else match dfsv fuel g n [] visited with
           | (NotFound, vis') => find_cycle fuel g r vis'
           | (x, _) => x
           end
  end.

Theorem find_cycle_sound g fuel : forall order visited c, find_cycle fuel g order visited = Found c -> path g c c.
Proof.
  induction order as [|n r IH]; intros visited c H; [discriminate|]. cbn [find_cycle] in H.
  destruct (mem n visited); [eauto|].
  destruct (dfsv fuel g n [] visited) as [[c'| |] vis'] eqn:D; try discriminate; [|eauto].
  injection H as <-. pose proof (dfsv_dfs g fuel n [] visited) as E. rewrite D in E. cbn [fst] in E. symmetry in E.
  exact (proj1 (dfs_sound g fuel n [] c' I E)).
Qed.

(* skipping visited nodes is sound: if nothing is found, every node of the order starts no cycle *)
Theorem find_cycle_complete g fuel : forall order visited,
  (forall u, In u visited -> acyclic_from g u) ->
  find_cycle fuel g order visited = NotFound -> forall n, In n order -> acyclic_from g n.
Proof.
  induction order as [|n r IH]; intros visited Hv H m Hm; [contradiction|]. cbn [find_cycle] in H.
  destruct (mem n visited) eqn:M.
  - destruct Hm as [<-|Hm]; [apply Hv; now apply mem_In|eauto].
  - destruct (dfsv fuel g n [] visited) as [[c'| |] vis'] eqn:D; try discriminate.
    destruct (dfsv_marks g fuel n [] visited vis' D) as (M1 & Mn & K).
    assert (Hv' : forall u, In u vis' -> acyclic_from g u) by (intros u Hu; destruct (K u Hu); auto).
    destruct Hm as [<-|Hm]; [now apply Hv'|eapply IH; eauto].
Qed.
Print Assumptions find_cycle_complete.
