(* Scratch prototype: C14 write footprint of Generate's appends; C19 CLI step machine. *)
From Coq Require Import List Arith Bool Lia.
Import ListNotations.

(* ================= C14: append into spare capacity ================= *)
Record slice := { base : nat; len : nat; cap : nat }.     (* backing-array id, length, capacity; len <= cap *)

(* f.X = append(f.X, n elements...): in place iff there is room, else a fresh array (id [fresh]) *)
Definition append (s : slice) (n fresh : nat) : slice * list nat (* ids of backing arrays written *) :=
  if n =? 0 then (s, [])
  else if len s + n <=? cap s then ({| base := base s; len := len s + n; cap := cap s |}, [base s])
  else ({| base := fresh; len := len s + n; cap := 2 * (len s + n) |}, [fresh]).
(* slices.Clip / a fresh copy before appending: capacity = length *)
Definition clip (s : slice) : slice := {| base := base s; len := len s; cap := len s |}.

(* Generate appends the imported definitions to each of the File copy's slices (Consts, Structs, Unions, Messages, Enums) *)
Fixpoint gen_writes (clipfirst : bool) (ss : list slice) (ns : list nat) (fresh : nat) : list nat :=
  match ss, ns with
  | s :: ss', n :: ns' => snd (append (if clipfirst then clip s else s) n fresh) ++ gen_writes clipfirst ss' ns' (S fresh)
  | _, _ => []
  end.

Definition caller_arrays (ss : list slice) : list nat := map base ss.

(* with the clip, nothing the caller can reach is ever written, whatever the capacities *)
Theorem C14_footprint_fixed : forall ss ns fresh, (forall s, In s ss -> base s < fresh) ->
  forall b, In b (gen_writes true ss ns fresh) -> ~ In b (caller_arrays ss).
Proof.
  induction ss as [|s ss IH]; intros [|n ns] fresh Hf b Hb; cbn [gen_writes] in Hb; try contradiction.
  apply in_app_or in Hb. destruct Hb as [Hb|Hb].
  - unfold append, clip in Hb. cbn [len cap base] in Hb. destruct (Nat.eqb_spec n 0); [contradiction|].
    destruct (Nat.leb_spec (len s + n) (len s)); [lia|]. cbn in Hb. destruct Hb as [<-|[]].
    unfold caller_arrays. rewrite in_map_iff. intros (s' & E & Hs'). specialize (Hf s' Hs'). lia.
  - intros Hin. cbn [caller_arrays map] in Hin. destruct Hin as [E|Hin].
    + (* b = base s: every later write goes to an id >= S fresh *)
      assert (G : forall ss ns fresh, (forall s, In s ss -> base s < fresh) -> forall b, In b (gen_writes true ss ns fresh) -> fresh <= b).
      { clear. induction ss as [|s ss IH]; intros [|n ns] fresh Hf b Hb; cbn [gen_writes] in Hb; try contradiction.
        apply in_app_or in Hb. destruct Hb as [Hb|Hb].
        - unfold append, clip in Hb. cbn [len cap base] in Hb. destruct (Nat.eqb_spec n 0); [contradiction|].
          destruct (Nat.leb_spec (len s + n) (len s)); [lia|]. cbn in Hb. destruct Hb as [<-|[]]. lia.
        - specialize (IH ns (S fresh) ltac:(intros s' Hs'; specialize (Hf s' (or_intror Hs')); lia) b Hb). lia. }
      specialize (G ss ns (S fresh) ltac:(intros s' Hs'; specialize (Hf s' (or_intror Hs')); lia) b Hb).
      specialize (Hf s (or_introl eq_refl)). lia.
    + apply (IH ns (S fresh) ltac:(intros s' Hs'; specialize (Hf s' (or_intror Hs')); lia) b Hb Hin).
Qed.

(* the code today: a caller-reachable array is written exactly when some kind has 0 < appended <= cap - len *)
Example C14_footprint_refuted :
  exists ss ns fresh, (forall s, In s ss -> base s < fresh) /\ exists b, In b (gen_writes false ss ns fresh) /\ In b (caller_arrays ss).
Proof. exists [{| base := 0; len := 3; cap := 4 |}], [1], 7. split; [intros s [<-|[]]; cbn; lia|]. exists 0. cbn. auto. Qed.

(* ================= C19: the CLIs as step lists with a fault ================= *)
Inductive step := OpenIn | ParseIn | CreateOut   (* os.Create: truncates the target *)
                | GenerateToOut                  (* writes straight into the open target *)
                | GenToBuffer | CreateTemp | WriteTemp | CloseTemp
                | RenameTempToOut                (* atomic replace *).
Inductive tstate := Old | Empty | Partial | New.

(* effect on the target of completing a step / of failing inside it *)
Definition complete (s : step) (t : tstate) : tstate :=
  match s with CreateOut => Empty | GenerateToOut => New | RenameTempToOut => New | _ => t end.
Definition failing (s : step) (t : tstate) : tstate :=
  match s with GenerateToOut => Partial | CreateOut => t | _ => t end.

(* run with a fault (error return or crash) inside step number k; None = no fault *)
Fixpoint run (steps : list step) (k : option nat) (t : tstate) : tstate * bool (* failed? *) :=
  match steps with
  | [] => (t, false)
  | s :: r => match k with
              | Some O => (failing s t, true)
              | Some (S k') => run r (Some k') (complete s t)
              | None => run r None (complete s t)
              end
  end.

Definition touches (s : step) : bool := match s with CreateOut | GenerateToOut | RenameTempToOut => true | _ => false end.
(* safe: the only step that touches the target is an atomic rename, and it is the last step *)
Definition safe_order (steps : list step) : bool :=
  match rev steps with
  | RenameTempToOut :: before => forallb (fun s => negb (touches s)) before
  | _ => false
  end.

Lemma run_untouched : forall steps k t, forallb (fun s => negb (touches s)) steps = true -> fst (run steps k t) = t.
Proof.
  induction steps as [|s r IH]; intros k t H; [reflexivity|]. cbn [forallb] in H. apply andb_true_iff in H. destruct H as [Hs Hr].
  cbn [run]. destruct k as [[|k']|].
  - destruct s; cbn in *; try discriminate; reflexivity.
  - rewrite IH by exact Hr. destruct s; cbn in *; try discriminate; reflexivity.
  - rewrite IH by exact Hr. destruct s; cbn in *; try discriminate; reflexivity.
Qed.

Lemma run_app : forall a b k t, length a <= k -> run (a ++ b) (Some k) t = run b (Some (k - length a)) (fst (run a None t)).
Proof.
  induction a as [|s a IH]; intros b k t Hk; cbn [app length run]; [now rewrite Nat.sub_0_r|].
  destruct k as [|k]; [cbn in Hk; lia|]. cbn [length] in Hk. rewrite IH by lia. reflexivity.
Qed.
Lemma run_app_lt : forall a b k t, k < length a -> run (a ++ b) (Some k) t = run a (Some k) t.
Proof.
  induction a as [|s a IH]; intros b k t Hk; [cbn in Hk; lia|]. cbn [app run]. destruct k as [|k]; [reflexivity|].
  apply IH. cbn in Hk. lia.
Qed.

(* C19 on the model: with a safe order, a fault at ANY step leaves the target as it was; no fault installs the new content *)
Theorem C19_safe : forall steps, safe_order steps = true ->
  (forall k, k < length steps -> run steps (Some k) Old = (Old, true)) /\ fst (run steps None Old) = New.
Proof.
  intros steps H. unfold safe_order in H. destruct (rev steps) as [|l before] eqn:E; [discriminate|].
  destruct l; try discriminate.
  assert (Hs : steps = rev before ++ [RenameTempToOut]) by (rewrite <- (rev_involutive steps), E; reflexivity).
  assert (Hb : forallb (fun s => negb (touches s)) (rev before) = true).
  { rewrite forallb_forall in *. intros x Hx. apply H. now apply in_rev. }
  subst steps. split.
  - intros k Hk. rewrite app_length in Hk. cbn [length] in Hk.
    destruct (Nat.lt_ge_cases k (length (rev before))) as [Hlt|Hge].
    + rewrite run_app_lt by exact Hlt. pose proof (run_untouched (rev before) (Some k) Old Hb) as U.
      assert (F : forall steps k t, k < length steps -> snd (run steps (Some k) t) = true).
      { clear. induction steps as [|s r IH]; intros k t Hk; [cbn in Hk; lia|]. cbn [run]. destruct k; [reflexivity|]. apply IH. cbn in Hk. lia. }
      specialize (F (rev before) k Old Hlt). destruct (run (rev before) (Some k) Old) as [t f]. cbn in *. now subst.
    + rewrite run_app by exact Hge. rewrite (run_untouched (rev before) None Old Hb).
      replace (k - length (rev before)) with 0 by lia. reflexivity.
  - assert (A : forall a b t, fst (run (a ++ b) None t) = fst (run b None (fst (run a None t)))).
    { induction a as [|s a IH]; intros b t; [reflexivity|]. cbn [app run]. apply IH. }
    rewrite A, (run_untouched (rev before) None Old Hb). reflexivity.
Qed.

(* what translator T4 extracts from the two mains today (after the input has been opened and parsed) *)
Definition bebopc_today : list step := [OpenIn; ParseIn; CreateOut; GenerateToOut].
Definition bebopc_fixed : list step := [OpenIn; ParseIn; GenToBuffer; CreateTemp; WriteTemp; CloseTemp; RenameTempToOut].
Example today_unsafe : safe_order bebopc_today = false /\ run bebopc_today (Some 3) Old = (Partial, true) /\
                       (* a validation error is a failure of Generate before its first write: the target is already empty *)
                       fst (run [OpenIn; ParseIn; CreateOut] None Old) = Empty.
Proof. repeat split. Qed.
Example fixed_safe : safe_order bebopc_fixed = true.
Proof. reflexivity. Qed.
Print Assumptions C14_footprint_fixed.
Print Assumptions C19_safe.
