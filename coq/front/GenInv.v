(* A small framework for the inversion theorems: a schema is a sequence of ITEMS (definitions of any kind), each given by its
   tokens, what it adds to the File, its canonical text, and two step lemmas - one for the parser's top-level loop, one for
   the formatter's.  From those alone: ReadFile's result, Format's output, that the output is a fixed point of Format and is
   read back as the same File - for every sequence of items, every layout, any number of blank lines between items. *)
From Coq Require Import List NArith ZArith Bool Arith Lia.
Require Import Bebop.front.Tok Bebop.front.Parse Bebop.front.Fmt Bebop.front.TokInv Bebop.front.LexInv Bebop.front.ParseInv Bebop.front.FmtInv.
Import ListNotations.

(* it_blank: whether Format separates the item from a preceding definition by a blank line (it does not before a comment line) *)
Record item := { it_toks : list token; it_need : nat; it_fneed : nat; it_upd : file -> file; it_text : bytes; it_blank : bool }.

Definition pstep (i : item) : Prop := forall g f tail c, exists g', g <= g' /\
  top_loop (it_need i + g) f [] 0%N false false (mk (res (it_toks i) tail) c false)
  = top_loop g' (it_upd i f) [] 0%N false false (mk tail nlT false).
Definition fstep (i : item) : Prop := forall g out nl tail c, exists g', g <= g' /\
  format_loop (it_fneed i + g) out false nl (mk (res (it_toks i) tail) c false)
  = format_loop g' ((if nl && it_blank i then out ++ nlb else out) ++ it_text i) false true (mk tail nlT false).

(* an item followed by k blank lines *)
Definition el := (item * nat)%type.
Definition el_toks (e : el) : list token := it_toks (fst e) ++ repeat nlT (snd e).
Definition all_el (l : list el) : list token := flat_map el_toks l.
Definition gneed (l : list el) : nat := fold_right (fun e acc => it_need (fst e) + snd e + acc) 1 l.
Definition gfneed (l : list el) : nat := fold_right (fun e acc => it_fneed (fst e) + snd e + acc) 1 l.
Definition gfile (l : list el) (f : file) : file := fold_left (fun f e => it_upd (fst e) f) l f.
Fixpoint gcanon_acc (out : bytes) (nl : bool) (l : list el) : bytes :=
  match l with [] => out | e :: r => gcanon_acc ((if nl && it_blank (fst e) then out ++ nlb else out) ++ it_text (fst e)) true r end.

Lemma top_newlines_nl k g f tail :
  top_loop (k + g) f [] 0%N false false (mk (res (repeat nlT k) tail) nlT false) = top_loop g f [] 0%N false false (mk tail nlT false).
Proof. rewrite top_newlines. destruct k; reflexivity. Qed.
Lemma fmt_newlines_nl k g out nl tail :
  format_loop (k + g) out false nl (mk (res (repeat nlT k) tail) nlT false) = format_loop g out false nl (mk tail nlT false).
Proof. rewrite fmt_top_newlines. destruct k; reflexivity. Qed.

Theorem gen_top : forall l, Forall (fun e => pstep (fst e)) l -> forall g f tail c,
  exists s', top_loop (gneed l + g) f [] 0%N false false (mk (res (all_el l) (NF [] :: tail)) c false) = POk (gfile l f) s'.
Proof.
  induction 1 as [|[i k] l Hi _ IH]; intros g f tail c.
  - cbn [gneed fold_right all_el flat_map res map app gfile fold_left plus]. rewrite top_eof. eexists. reflexivity.
  - cbn [fst] in Hi. cbn [all_el flat_map gfile fold_left fst snd]. fold (all_el l). unfold el_toks. cbn [fst snd].
    rewrite <- app_assoc, res_app. unfold gneed at 1. cbn [fold_right fst snd]. fold (gneed l).
    destruct (Hi (k + gneed l + g) f (res (repeat nlT k ++ all_el l) (NF [] :: tail)) c) as (g' & Hg & E).
    replace (it_need i + k + gneed l + g) with (it_need i + (k + gneed l + g)) by lia. rewrite E, res_app.
    replace g' with (k + (gneed l + (g' - k - gneed l))) by lia. rewrite top_newlines_nl. apply IH.
Qed.

Theorem gen_fmt : forall l, Forall (fun e => fstep (fst e)) l -> forall g out nl tail c,
  exists s', format_loop (gfneed l + g) out false nl (mk (res (all_el l) (NF [] :: tail)) c false) = POk (gcanon_acc out nl l) s'.
Proof.
  induction 1 as [|[i k] l Hi _ IH]; intros g out nl tail c.
  - cbn [gfneed fold_right all_el flat_map res map app gcanon_acc plus]. rewrite fmt_top_eof. eexists. reflexivity.
  - cbn [fst] in Hi. cbn [all_el flat_map gcanon_acc fst snd]. fold (all_el l). unfold el_toks. cbn [fst snd].
    rewrite <- app_assoc, res_app. unfold gfneed at 1. cbn [fold_right fst snd]. fold (gfneed l).
    destruct (Hi (k + gfneed l + g) out nl (res (repeat nlT k ++ all_el l) (NF [] :: tail)) c) as (g' & Hg & E).
    replace (it_fneed i + k + gfneed l + g) with (it_fneed i + (k + gfneed l + g)) by lia. rewrite E, res_app.
    replace g' with (k + (gfneed l + (g' - k - gfneed l))) by lia. rewrite fmt_newlines_nl. apply IH.
Qed.

(* ---------- the text level ---------- *)
Record xitem := { x_lex : list lexeme; x_lay : list (bytes * lexeme) }.
Record item_ok (i : item) (x : xitem) : Prop := {
  ok_p : pstep i; ok_f : fstep i;
  ok_toks : map tok_of (x_lex x) = it_toks i;
  ok_lex : Forall lex_ok (x_lex x);
  ok_need : it_need i <= length (it_toks i) /\ it_fneed i <= length (it_toks i);
  ok_lay : map snd (x_lay x) = x_lex x;
  ok_hws : Forall (fun p => hws (fst p)) (x_lay x);
  ok_sep : forall rest, sep_ok rest -> sep_ok (x_lay x ++ rest);
  ok_render : forall t, render (x_lay x) t = it_text i ++ t
}.

Definition xel := (item * xitem * nat)%type.
Definition xe_el (e : xel) : el := (fst (fst e), snd e).
Definition xe_lex (e : xel) : list lexeme := x_lex (snd (fst e)) ++ repeat NLx (snd e).
Definition xlex (l : list xel) : list lexeme := flat_map xe_lex l.
Definition xel_ok (e : xel) : Prop := let '(i, x, _) := e in item_ok i x.

Lemma xtoks l : Forall xel_ok l -> map tok_of (xlex l) = all_el (map xe_el l).
Proof.
  induction 1 as [|[[i x] k] l H _ IH]; [reflexivity|]. cbn [xlex flat_map map all_el]. fold (xlex l). fold (all_el (map xe_el l)).
  rewrite map_app, IH. f_equal. unfold xe_lex, el_toks. cbn [xe_el fst snd]. rewrite map_app, (ok_toks _ _ H). f_equal.
  clear. induction k as [|k IHk]; [reflexivity|]. cbn [repeat map]. now rewrite IHk.
Qed.
Lemma xlex_ok l : Forall xel_ok l -> Forall lex_ok (xlex l).
Proof.
  induction 1 as [|[[i x] k] l H _ IH]; [constructor|]. cbn [xlex flat_map]. apply Forall_app. split; [|exact IH].
  unfold xe_lex. cbn [fst snd]. apply Forall_app. split; [exact (ok_lex _ _ H)|]. clear. induction k; cbn [repeat]; constructor; auto. reflexivity.
Qed.
Lemma gneed_le l : Forall xel_ok l -> gneed (map xe_el l) <= length (all_el (map xe_el l)) + 1 /\ gfneed (map xe_el l) <= length (all_el (map xe_el l)) + 1.
Proof.
  induction 1 as [|[[i x] k] l H _ [IH1 IH2]]; [cbn; lia|]. cbn [map gneed gfneed fold_right all_el flat_map].
  fold (gneed (map xe_el l)). fold (gfneed (map xe_el l)). fold (all_el (map xe_el l)).
  rewrite app_length. unfold el_toks. cbn [xe_el fst snd]. rewrite app_length, repeat_length. destruct (ok_need _ _ H). lia.
Qed.

Lemma xrun l lay tail :
  Forall xel_ok l -> map snd lay = xlex l -> Forall (fun p => hws (fst p)) lay -> sep_ok lay -> hws tail ->
  exists m, next_results (length (render lay tail) + margin)
              {| buf := {| rest := render lay tail; lastByte := None; lastRune := None; failing := false |}; errs := [] |}
            = res (all_el (map xe_el l)) (NF [] :: repeat (NF []) m) /\ length (all_el (map xe_el l)) <= length (render lay tail).
Proof.
  intros Hok Hl Hws Hsep Ht.
  assert (Hlex : Forall (fun p => hws (fst p) /\ lex_ok (snd p)) lay).
  { pose proof (xlex_ok l Hok) as H. rewrite <- Hl in H. clear -Hws H.
    induction lay as [|p lay IH]; [constructor|]. inversion Hws; subst. cbn [map] in H. inversion H; subst. constructor; [split; assumption|auto]. }
  destruct (run_inversion lay tail Hlex Hsep Ht) as (m & Hm & Hrun). unfold run in Hrun.
  assert (Htoks : map (fun p => NT (tok_of (snd p)) []) lay = map (fun t => NT t []) (all_el (map xe_el l))).
  { rewrite <- (xtoks l Hok), <- Hl, !map_map. reflexivity. }
  assert (Hcount : length lay = length (all_el (map xe_el l))).
  { apply (f_equal (@length nres)) in Htoks. now rewrite !map_length in Htoks. }
  assert (Hlen : length lay <= length (render lay tail)).
  { clear -Hlex. induction Hlex as [|[ws x] r _ _ IH]; cbn [length render]; [lia|]. rewrite !app_length. destruct x; cbn [text_of length]; lia. }
  destruct m as [|m]; [pose proof margin_ge; lia|]. exists m. rewrite Hrun, Htoks. split; [reflexivity|lia].
Qed.

Theorem gen_read l lay tail :
  Forall xel_ok l -> map snd lay = xlex l -> Forall (fun p => hws (fst p)) lay -> sep_ok lay -> hws tail ->
  exists s', read_file (render lay tail) false = POk (gfile (map xe_el l) file0) s'.
Proof.
  intros Hok Hl Hws Hsep Ht. destruct (xrun l lay tail Hok Hl Hws Hsep Ht) as (m & Hrun & Hlen).
  unfold read_file. rewrite Hrun. pose proof (proj1 (gneed_le l Hok)) as Hneed.
  set (n := length (render lay tail) + margin) in *.
  replace (2 * n + 8) with (gneed (map xe_el l) + (2 * n + 8 - gneed (map xe_el l))) by lia.
  apply gen_top. clear -Hok. induction Hok as [|[[i x] k] l H _ IH]; cbn [map]; constructor; [exact (ok_p _ _ H)|exact IH].
Qed.

Definition gcanon (l : list el) : bytes := gcanon_acc [] false l.
Theorem gen_format l lay tail :
  Forall xel_ok l -> map snd lay = xlex l -> Forall (fun p => hws (fst p)) lay -> sep_ok lay -> hws tail ->
  exists s', format (render lay tail) = POk (gcanon (map xe_el l)) s'.
Proof.
  intros Hok Hl Hws Hsep Ht. destruct (xrun l lay tail Hok Hl Hws Hsep Ht) as (m & Hrun & Hlen).
  unfold format. rewrite Hrun. pose proof (proj2 (gneed_le l Hok)) as Hneed.
  set (n := length (render lay tail) + margin) in *.
  replace (2 * n + 8) with (gfneed (map xe_el l) + (2 * n + 8 - gfneed (map xe_el l))) by lia.
  apply gen_fmt. clear -Hok. induction Hok as [|[[i x] k] l H _ IH]; cbn [map]; constructor; [exact (ok_f _ _ H)|exact IH].
Qed.

(* ---------- the canonical text is a text of the class ---------- *)
Definition blank_of (e : xel) : nat := if it_blank (fst (fst e)) then 1 else 0.
Fixpoint greblank (l : list xel) : list xel :=
  match l with
  | [] => []
  | (ix, _) :: r => match r with [] => [(ix, 0)] | e2 :: _ => (ix, blank_of e2) :: greblank r end
  end.
Definition xe_lay (e : xel) : list (bytes * lexeme) := x_lay (snd (fst e)) ++ repeat ([], NLx) (snd e).
Definition glayout (l : list xel) : list (bytes * lexeme) := flat_map xe_lay l.
Definition sep_of (e : el) : bytes := if it_blank (fst e) then nlb else [].
Fixpoint gctext (l : list el) : bytes :=
  match l with [] => [] | e :: r => it_text (fst e) ++ match r with [] => [] | e2 :: _ => sep_of e2 ++ gctext r end end.

Lemma gcanon_acc_ctext : forall l out nl, gcanon_acc out nl l = out ++ match l with [] => [] | e :: _ => (if nl then sep_of e else []) ++ gctext l end.
Proof.
  induction l as [|e r IH]; intros out nl; [cbn; now rewrite app_nil_r|].
  cbn [gcanon_acc gctext]. rewrite IH. unfold sep_of. destruct nl, (it_blank (fst e)), r; cbn [andb app]; rewrite <- ?app_assoc, ?app_nil_r; reflexivity.
Qed.
Lemma gcanon_ctext l : gcanon l = gctext l.
Proof. unfold gcanon. rewrite gcanon_acc_ctext. destruct l; reflexivity. Qed.

Lemma glayout_lex l : Forall xel_ok l -> map snd (glayout l) = xlex l.
Proof.
  induction 1 as [|[[i x] k] l H _ IH]; [reflexivity|]. cbn [glayout flat_map xlex]. fold (glayout l). fold (xlex l).
  rewrite map_app, IH. f_equal. unfold xe_lay, xe_lex. cbn [fst snd]. rewrite map_app, (ok_lay _ _ H). f_equal.
  clear. induction k as [|k IHk]; [reflexivity|]. cbn [repeat map]. now rewrite IHk.
Qed.
Lemma glayout_hws l : Forall xel_ok l -> Forall (fun p => hws (fst p)) (glayout l).
Proof.
  induction 1 as [|[[i x] k] l H _ IH]; [constructor|]. cbn [glayout flat_map]. apply Forall_app. split; [|exact IH].
  unfold xe_lay. cbn [fst snd]. apply Forall_app. split; [exact (ok_hws _ _ H)|]. clear. induction k; cbn [repeat]; constructor; auto. constructor.
Qed.
Lemma glayout_sep l : Forall xel_ok l -> sep_ok (glayout l).
Proof.
  induction 1 as [|[[i x] k] l H _ IH]; [exact I|]. cbn [glayout flat_map]. fold (glayout l). unfold xe_lay. cbn [fst snd].
  rewrite <- app_assoc. apply (ok_sep _ _ H). apply sep_ok_nls. exact IH.
Qed.

Lemma greblank_ne e l : map xe_el (greblank (e :: l)) <> [].
Proof. destruct e as [ix k]. cbn [greblank]. destruct l; discriminate. Qed.
Lemma greblank_ok l : Forall xel_ok l -> Forall xel_ok (greblank l).
Proof.
  induction 1 as [|[ix k] l H _ IH]; [constructor|]. cbn [greblank]. destruct l; [constructor; [exact H|constructor]|constructor; [exact H|exact IH]].
Qed.
Lemma greblank_head e l : exists k, greblank (e :: l) = (fst e, k) :: match l with [] => [] | _ => greblank l end.
Proof. destruct e as [ix k0]. cbn [greblank fst]. destruct l; eauto. Qed.
Lemma render_glayout : forall l, Forall xel_ok l -> render (glayout (greblank l)) [] = gctext (map xe_el (greblank l)).
Proof.
  induction 1 as [|[[i x] k] l H Hl IH]; [reflexivity|]. cbn [greblank].
  destruct l as [|e2 l2].
  - cbn [glayout flat_map app map gctext xe_el fst snd]. unfold xe_lay. cbn [fst snd repeat]. rewrite !app_nil_r, (ok_render _ _ H). now rewrite app_nil_r.
  - set (r := greblank (e2 :: l2)) in *. cbn [glayout flat_map]. fold (glayout r). unfold xe_lay at 1. cbn [fst snd].
    rewrite !render_app, (ok_render _ _ H), render_nls, IH. cbn [map gctext xe_el fst snd].
    pose proof (greblank_head e2 l2) as [k2 Er]. fold r in Er. rewrite Er. cbn [map xe_el fst snd gctext].
    unfold blank_of, sep_of, xe_el. cbn [fst snd]. destruct (it_blank (fst (fst e2))); reflexivity.
Qed.
Lemma gctext_reblank l : gctext (map xe_el (greblank l)) = gctext (map xe_el l).
Proof.
  induction l as [|[ix k] l IH]; [reflexivity|]. cbn [greblank]. destruct l as [|e2 l2]; [reflexivity|].
  set (r := greblank (e2 :: l2)) in *. cbn [map gctext xe_el fst snd]. rewrite IH.
  pose proof (greblank_head e2 l2) as [k2 Er]. fold r in Er. rewrite Er. cbn [map xe_el fst snd].
  destruct e2 as [ix2 k2']. cbn [map xe_el fst snd]. reflexivity.
Qed.
Lemma gfile_reblank : forall l f, gfile (map xe_el (greblank l)) f = gfile (map xe_el l) f.
Proof.
  induction l as [|[ix k] l IH]; intros f; [reflexivity|]. cbn [greblank]. destruct l as [|e2 l2]; [reflexivity|].
  cbn [map gfile fold_left xe_el fst snd]. apply IH.
Qed.

(* C11, C16 and C17 for every sequence of items *)
Theorem gen_laws l lay tail :
  Forall xel_ok l -> map snd lay = xlex l -> Forall (fun p => hws (fst p)) lay -> sep_ok lay -> hws tail ->
  exists y, (exists s, format (render lay tail) = POk y s) /\ y = gctext (map xe_el l) /\
            (exists s, format y = POk y s) /\
            (exists s, read_file y false = POk (gfile (map xe_el l) file0) s) /\
            (exists s, read_file (render lay tail) false = POk (gfile (map xe_el l) file0) s).
Proof.
  intros Hok Hl Hws Hsep Ht.
  exists (gctext (map xe_el l)). split; [|split; [reflexivity|]].
  - destruct (gen_format l lay tail Hok Hl Hws Hsep Ht) as [s Hs]. rewrite gcanon_ctext in Hs. eauto.
  - pose proof (greblank_ok l Hok) as Hok'. set (lc := glayout (greblank l)).
    assert (Hy : render lc [] = gctext (map xe_el l)) by (unfold lc; rewrite (render_glayout l Hok); apply gctext_reblank).
    split; [|split].
    + destruct (gen_format (greblank l) lc [] Hok' (glayout_lex _ Hok') (glayout_hws _ Hok') (glayout_sep _ Hok') ltac:(constructor)) as [s Hs].
      rewrite gcanon_ctext, gctext_reblank, Hy in Hs. eauto.
    + destruct (gen_read (greblank l) lc [] Hok' (glayout_lex _ Hok') (glayout_hws _ Hok') (glayout_sep _ Hok') ltac:(constructor)) as [s Hs].
      rewrite Hy, gfile_reblank in Hs. eauto.
    + exact (gen_read l lay tail Hok Hl Hws Hsep Ht).
Qed.

