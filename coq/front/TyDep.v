(* Deprecated message fields in the inversion theorems: a message whose fields may each be preceded by a
   [deprecated("reason")] line - one more item of the framework of GenInv.v. *)
From Coq Require Import List NArith ZArith Bool Arith Lia.
Require Import Bebop.front.Tok Bebop.front.Parse Bebop.front.Fmt Bebop.front.TokInv Bebop.front.LexInv Bebop.front.ParseInv Bebop.front.FmtInv Bebop.front.MsgInv.
Require Import Bebop.front.GenInv Bebop.front.Items Bebop.front.TyInv Bebop.front.TyMsg Bebop.front.TyItems Bebop.front.TyUnion Bebop.front.TyOpcode.
Import ListNotations.

Definition depT : token := {| kind := 9%N; concrete := [100; 101; 112; 114; 101; 99; 97; 116; 101; 100]%N |}.
Definition dep_toks (body : bytes) : list token := [osqT; depT; oparT; strT body; cparT; csqT; nlT].

(* the reason: no quote, backslash or newline - what strconv.Unquote returns unchanged *)
Definition dplain (x : byte) : bool := negb (N.eqb x 34) && negb (N.eqb x 92) && negb (N.eqb x 10).
Lemma unq_plain body : Forall (fun x => dplain x = true) body -> unq body = Some body.
Proof.
  induction 1 as [|c r Hc _ IH]; [reflexivity|]. cbn [unq]. unfold dplain in Hc.
  apply andb_true_iff in Hc. destruct Hc as [Hc H10]. apply andb_true_iff in Hc. destruct Hc as [H34 H92].
  apply negb_true_iff in H10, H34, H92. rewrite H10, H34, H92, IH. reflexivity.
Qed.
Lemma unquote_str body : Forall (fun x => dplain x = true) body -> unquote (concrete (strT body)) = body.
Proof.
  intros H. cbn [strT concrete unquote N.eqb Pos.eqb]. rewrite rev_app_distr. cbn [rev app N.eqb Pos.eqb]. rewrite rev_involutive, (unq_plain body H). reflexivity.
Qed.

(* a field with its optional deprecation *)
Definition dfield := (option bytes * tmfield)%type.
Definition dmsg (f : dfield) : bytes := match fst f with Some b => b | None => [] end.
Definition ddep (f : dfield) : bool := match fst f with Some _ => true | None => false end.
Definition dfield_toks (f : dfield) : list token := (match fst f with Some b => dep_toks b | None => [] end) ++ tmfield_toks (snd f).
Definition dfields_toks (fl : list dfield) : list token := flat_map dfield_toks fl.
Definition dfield_of (f : dfield) : N * field :=
  (tm_i (snd f), {| f_type := ft_of (tm_t (snd f)); f_name := tm_n (snd f); f_comment := []; f_tags := []; f_depmsg := dmsg f; f_dep := ddep f |}).
Definition dfuel (f : dfield) : nat := tfuel (tm_t (snd f)) + 2 + (if ddep f then 1 else 0).

Arguments parse_uint : simpl never.
Arguments has_idx : simpl never.

Ltac dstep1 :=
  cbv beta iota zeta delta [bind p_next p_haserr p_kind p_tok p_unnext ret fail kin existsb expect_any_of_next expect_next skip_eol_comments opt_newline read_deprecated conc next_cat deprecated_line
                            mk kept keep rs cur perrs];
  cbn [N.eqb Pos.eqb orb andb negb kind concrete kIdent kOpenSq kCloseSq kComma kSemi kNewline kCloseCu kOpenCu kLineC kBlockC kInt kArrow kString kOpenPar kClosePar
       arrayT mapT osqT csqT commaT idT semiT nlT closeT numT arrowT oparT cparT depT strT].
Ltac dstep := repeat progress dstep1.

(* the field itself, under any pending deprecation *)
Lemma msg_loop_tfield_gen f g fs tail dm dep :
  parse_uint false 8 (tm_ds f) = Some (tm_i f) -> tm_i f <> 0%N -> has_idx (tm_i f) fs = false -> ty_keys_ok (tm_t f) ->
  read_message_loop (S (tfuel (tm_t f) + S g)) fs [] [] dm dep (mk (res (tmfield_toks f) tail) nlT false)
  = read_message_loop (tfuel (tm_t f) + g)
      (fs ++ [(tm_i f, {| f_type := ft_of (tm_t f); f_name := tm_n f; f_comment := []; f_tags := []; f_depmsg := dm; f_dep := dep |})]) [] [] [] false (mk tail nlT false).
Proof.
  destruct f as [[ds i] [t nm]]. unfold tmfield_toks; unfold tm_ds, tm_i, tm_t, tm_n. cbn [fst snd].
  intros Hp Hz Hi Hok. apply N.eqb_neq in Hz.
  replace (ty_toks t ++ [idT nm; semiT; nlT]) with ((ty_toks t ++ [idT nm]) ++ [semiT; nlT]) by (rewrite <- app_assoc; reflexivity).
  rewrite res_app, res_app.
  match goal with |- context [res (ty_toks t ++ ?y) ?x] => set (R := res (ty_toks t ++ y) x) end.
  unfold res at 1. cbn [map app read_message_loop]. mstep. rewrite Hp. cbv beta iota. rewrite Hz, Hi. mstep.
  subst R.
  pose proof (read_type_ok t Hok (S g) (idT nm) (res [semiT; nlT] tail) arrowT (semi_not_open nm)) as Et. unfold mk in Et. rewrite Et. clear Et.
  unfold res. cbn [map app]. mstep.
  replace (tfuel t + S g) with (S (tfuel t + g)) by lia. cbn [read_message_loop]. mstep. reflexivity.
Qed.

(* the attribute line: the reason becomes the pending deprecation *)
Lemma msg_loop_dep body G fs tail : Forall (fun x => dplain x = true) body ->
  read_message_loop (S G) fs [] [] [] false (mk (res (dep_toks body) tail) nlT false)
  = read_message_loop G fs [] [] body true (mk tail nlT false).
Proof.
  intros Hb. unfold dep_toks, res. cbn [map app read_message_loop]. dstep.
  change (34%N :: body ++ [34%N]) with (concrete (strT body)). rewrite (unquote_str body Hb). reflexivity.
Qed.

Definition dfield_ok (f : dfield) : Prop := match fst f with Some b => Forall (fun x => dplain x = true) b | None => True end.
Fixpoint dmfs_ok (seen : list N) (fl : list dfield) : Prop :=
  match fl with
  | [] => True
  | f :: r => parse_uint false 8 (tm_ds (snd f)) = Some (tm_i (snd f)) /\ tm_i (snd f) <> 0%N /\ ~ In (tm_i (snd f)) seen /\ ty_keys_ok (tm_t (snd f)) /\
              dfield_ok f /\ dmfs_ok (tm_i (snd f) :: seen) r
  end.
Lemma dmfs_ok_incl : forall fl s1 s2, (forall x, In x s2 -> In x s1) -> dmfs_ok s1 fl -> dmfs_ok s2 fl.
Proof.
  induction fl as [|f fl IH]; intros s1 s2 Hs H; [exact I|]. cbn [dmfs_ok] in *. destruct H as (A & B & C & D & E & F).
  split; [exact A|]. split; [exact B|]. split; [auto|]. split; [exact D|]. split; [exact E|].
  apply (IH (tm_i (snd f) :: s1)); [|exact F]. intros x [<-|Hx]; [now left|right; auto].
Qed.

Lemma msg_loop_dfield f g fs tail :
  parse_uint false 8 (tm_ds (snd f)) = Some (tm_i (snd f)) -> tm_i (snd f) <> 0%N -> has_idx (tm_i (snd f)) fs = false -> ty_keys_ok (tm_t (snd f)) -> dfield_ok f ->
  read_message_loop (dfuel f + g) fs [] [] [] false (mk (res (dfield_toks f) tail) nlT false)
  = read_message_loop (tfuel (tm_t (snd f)) + g) (fs ++ [dfield_of f]) [] [] [] false (mk tail nlT false).
Proof.
  intros Hp Hz Hi Hk Hd. destruct f as [[b|] f0]; unfold dfuel, dfield_toks, dfield_of, dfield_ok, dmsg, ddep in *; cbn [fst snd] in *.
  - rewrite res_app. replace (tfuel (tm_t f0) + 2 + 1 + g) with (S (S (tfuel (tm_t f0) + S g))) by lia.
    rewrite (msg_loop_dep b _ fs _ Hd). apply msg_loop_tfield_gen; assumption.
  - cbn [app]. replace (tfuel (tm_t f0) + 2 + 0 + g) with (S (tfuel (tm_t f0) + S g)) by lia. apply msg_loop_tfield_gen; assumption.
Qed.

Definition dsum (fl : list dfield) : nat := fold_right (fun f acc => dfuel f + acc) 0 fl.
Definition dtsum (fl : list dfield) : nat := fold_right (fun f acc => tfuel (tm_t (snd f)) + acc) 0 fl.

Lemma msg_loop_dfields : forall fl g fs tail, dmfs_ok (map fst fs) fl ->
  read_message_loop (dsum fl + g) fs [] [] [] false (mk (res (dfields_toks fl) tail) nlT false)
  = read_message_loop (dtsum fl + g) (fs ++ map dfield_of fl) [] [] [] false (mk tail nlT false).
Proof.
  induction fl as [|f fl IH]; intros g fs tail Hok.
  - cbn [map dsum dtsum fold_right plus dfields_toks flat_map res app]. now rewrite app_nil_r.
  - cbn [dmfs_ok] in Hok. destruct Hok as (Hp & Hz & Hn & Hk & Hd & Hr).
    cbn [dfields_toks flat_map map dsum dtsum fold_right]. fold (dfields_toks fl). fold (dsum fl). fold (dtsum fl). rewrite res_app.
    replace (dfuel f + dsum fl + g) with (dfuel f + (dsum fl + g)) by lia.
    rewrite (msg_loop_dfield f _ fs _ Hp Hz (has_idx_false _ _ Hn) Hk Hd).
    replace (tfuel (tm_t (snd f)) + (dsum fl + g)) with (dsum fl + (tfuel (tm_t (snd f)) + g)) by lia.
    rewrite IH.
    + rewrite <- app_assoc. f_equal. lia.
    + rewrite map_app. cbn [map dfield_of fst].
      apply (dmfs_ok_incl fl (tm_i (snd f) :: map fst fs)); [|exact Hr]. intros x Hx. apply in_app_or in Hx. destruct Hx as [Hx|[<-|[]]]; [now right|now left].
Qed.

Definition dmessage_toks (nm : bytes) (fl : list dfield) : list token := [messageT; idT nm; openT; nlT] ++ dfields_toks fl ++ [closeT; nlT].
Definition dmessage_of (nm : bytes) (fl : list dfield) : message := {| m_name := nm; m_comment := []; m_fields := map dfield_of fl; m_opcode := 0 |}.

Lemma read_dmessage_ok nm fl g tail c : dmfs_ok [] fl ->
  read_message (dsum fl + S (S g)) (mk (res ([idT nm; openT; nlT] ++ dfields_toks fl ++ [closeT]) tail) c false)
  = POk (dmessage_of nm fl) (mk tail closeT false).
Proof.
  intros Hok. rewrite res_app, read_message_head. unfold bind. rewrite res_app.
  rewrite (msg_loop_dfields fl (S (S g)) [] _ Hok).
  replace (dtsum fl + S (S g)) with (S (S (dtsum fl + g))) by lia. rewrite msg_loop_close. reflexivity.
Qed.

Lemma top_dmessage nm fl g f tail c : dmfs_ok [] fl ->
  top_loop (S (dsum fl + S (S g))) f [] 0%N false false (mk (res (dmessage_toks nm fl) tail) c false)
  = top_loop (dsum fl + S g) (add_message f (dmessage_of nm fl)) [] 0%N false false (mk tail nlT false).
Proof.
  intros Hok. unfold dmessage_toks.
  change ([messageT; idT nm; openT; nlT] ++ dfields_toks fl ++ [closeT; nlT])
    with ([messageT] ++ ([idT nm; openT; nlT] ++ dfields_toks fl ++ [closeT] ++ [nlT])).
  rewrite res_app, top_message_head. unfold bind.
  replace ([idT nm; openT; nlT] ++ dfields_toks fl ++ [closeT] ++ [nlT])
    with (([idT nm; openT; nlT] ++ dfields_toks fl ++ [closeT]) ++ [nlT]) by (rewrite <- !app_assoc; reflexivity).
  rewrite res_app, (read_dmessage_ok nm fl g _ _ Hok). cbn [m_name m_fields dmessage_of].
  replace (dsum fl + S (S g)) with (S (dsum fl + S g)) by lia.
  rewrite top_newline. reflexivity.
Qed.

(* ---------- the formatter ---------- *)
Definition dep_text (body : bytes) : bytes :=
  tab ++ [91%N] ++ [100; 101; 112; 114; 101; 99; 97; 116; 101; 100]%N ++ [40%N] ++ (34%N :: body ++ [34%N]) ++ [41%N] ++ [93%N] ++ nlb.
Definition dfield_text (f : dfield) : bytes := (match fst f with Some b => dep_text b | None => [] end) ++ tmfield_text (snd f).
Definition dfields_text (fl : list dfield) : bytes := flat_map dfield_text fl.

Lemma fmt_dep_line body G acc tail :
  format_message_loop (S (S G)) tab acc (mk (res (dep_toks body) tail) nlT false)
  = format_message_loop G tab (acc ++ dep_text body) (mk tail nlT false).
Proof.
  unfold dep_toks, res. cbn [map app format_message_loop]. dstep. f_equal. unfold dep_text. repeat (rewrite <- app_assoc || rewrite <- app_comm_cons). reflexivity.
Qed.

Definition dffuel (f : dfield) : nat := tfuel (tm_t (snd f)) + 2 + (if ddep f then 2 else 0).
Lemma fmt_dfield f g acc tail :
  format_message_loop (dffuel f + g) tab acc (mk (res (dfield_toks f) tail) nlT false)
  = format_message_loop (tfuel (tm_t (snd f)) + g) tab (acc ++ dfield_text f) (mk tail nlT false).
Proof.
  destruct f as [[b|] f0]; unfold dffuel, dfield_toks, dfield_text, ddep; cbn [fst snd].
  - rewrite res_app. replace (tfuel (tm_t f0) + 2 + 2 + g) with (S (S (S (tfuel (tm_t f0) + S g)))) by lia.
    rewrite fmt_dep_line, fmt_tmfield, app_assoc. reflexivity.
  - cbn [app]. replace (tfuel (tm_t f0) + 2 + 0 + g) with (S (tfuel (tm_t f0) + S g)) by lia. apply fmt_tmfield.
Qed.

Definition dfsum (fl : list dfield) : nat := fold_right (fun f acc => dffuel f + acc) 0 fl.
Lemma fmt_dfields : forall fl g acc tail,
  format_message_loop (dfsum fl + g) tab acc (mk (res (dfields_toks fl) tail) nlT false)
  = format_message_loop (dtsum fl + g) tab (acc ++ dfields_text fl) (mk tail nlT false).
Proof.
  induction fl as [|f fl IH]; intros g acc tail.
  - cbn [dfsum dtsum fold_right plus dfields_toks dfields_text flat_map res map app]. now rewrite app_nil_r.
  - cbn [dfields_toks dfields_text flat_map dfsum dtsum fold_right]. fold (dfields_toks fl). fold (dfields_text fl). fold (dfsum fl). fold (dtsum fl).
    rewrite res_app. replace (dffuel f + dfsum fl + g) with (dffuel f + (dfsum fl + g)) by lia. rewrite fmt_dfield.
    replace (tfuel (tm_t (snd f)) + (dfsum fl + g)) with (dfsum fl + (tfuel (tm_t (snd f)) + g)) by lia.
    rewrite IH, <- app_assoc. f_equal. lia.
Qed.

Definition dmessage_text (nm : bytes) (fl : list dfield) : bytes :=
  [109; 101; 115; 115; 97; 103; 101]%N ++ sp ++ nm ++ sp ++ [123%N] ++ nlb ++ dfields_text fl ++ [125%N] ++ nlb.

Lemma fmt_dmessage_ok nm fl g tail :
  format_message (S (dfsum fl + S (S g))) tab (mk (res ([idT nm; openT; nlT] ++ dfields_toks fl ++ [closeT]) tail) messageT false)
  = POk (dmessage_text nm fl) (mk tail closeT false).
Proof.
  rewrite res_app, fmt_message_head, res_app, fmt_dfields.
  replace (dtsum fl + S (S g)) with (S (S (dtsum fl + g))) by lia. rewrite fmt_mclose.
  unfold dmessage_text. rewrite <- !app_assoc. reflexivity.
Qed.

Lemma fmt_top_dmessage nm fl g out nl tail c :
  format_loop (S (S (dfsum fl + S (S g)))) out false nl (mk (res (dmessage_toks nm fl) tail) c false)
  = format_loop (dfsum fl + S (S g)) ((if nl then out ++ nlb else out) ++ dmessage_text nm fl) false true (mk tail nlT false).
Proof.
  unfold dmessage_toks.
  change ([messageT; idT nm; openT; nlT] ++ dfields_toks fl ++ [closeT; nlT])
    with ([messageT] ++ ([idT nm; openT; nlT] ++ dfields_toks fl ++ [closeT] ++ [nlT])).
  rewrite res_app, fmt_top_message_head. unfold bind.
  replace ([idT nm; openT; nlT] ++ dfields_toks fl ++ [closeT] ++ [nlT])
    with (([idT nm; openT; nlT] ++ dfields_toks fl ++ [closeT]) ++ [nlT]) by (rewrite <- !app_assoc; reflexivity).
  rewrite res_app, fmt_dmessage_ok, fmt_top_newline. reflexivity.
Qed.

(* ---------- the item ---------- *)
Definition ldfield := (option bytes * tmfdef)%type.
Definition bdf (f : ldfield) : dfield := (fst f, btm (snd f)).
Definition ldfield_ok (f : ldfield) : Prop :=
  tmfdef_ok (snd f) /\ match fst f with Some b => Forall (fun x => dplain x = true) b | None => True end.
Definition kwDep : lexeme := W 100%N [101; 112; 114; 101; 99; 97; 116; 101; 100]%N.
Definition dep_lex (b : bytes) : list lexeme := [osqL; kwDep; T1 40%N kOpenPar; Str b; T1 41%N kClosePar; csqL; NLx].
Definition dfield_lex (f : ldfield) : list lexeme := (match fst f with Some b => dep_lex b | None => [] end) ++ tmfield_lex (snd f).
Definition dep_layout (b : bytes) : list (bytes * lexeme) := (tab, osqL) :: nows [kwDep; T1 40%N kOpenPar; Str b; T1 41%N kClosePar; csqL; NLx].
Definition dfield_layout (f : ldfield) : list (bytes * lexeme) := (match fst f with Some b => dep_layout b | None => [] end) ++ tmfield_layout (snd f).

Lemma dplain_plain x : dplain x = true -> plain x = true.
Proof. unfold dplain, plain. intros H. apply andb_true_iff in H. destruct H as [H _]. exact H. Qed.

Lemma df_toks f : ldfield_ok f -> map tok_of (dfield_lex f) = dfield_toks (bdf f).
Proof.
  intros [Hf Hb]. destruct f as [[b|] f0]; unfold dfield_lex, dfield_toks, bdf; cbn [fst snd] in *; rewrite map_app, (tmf_toks f0 Hf); reflexivity.
Qed.
Lemma df_lex f : ldfield_ok f -> Forall lex_ok (dfield_lex f).
Proof.
  intros [Hf Hb]. destruct f as [[b|] f0]; unfold dfield_lex; cbn [fst snd] in *; apply Forall_app; split; try exact (tmf_lex f0 Hf); [|constructor].
  unfold dep_lex. constructor; [reflexivity|]. constructor; [split; [reflexivity|repeat constructor]|]. constructor; [reflexivity|].
  constructor; [cbn [lex_ok]; eapply Forall_impl; [|exact Hb]; intros x Hx; now apply dplain_plain|].
  constructor; [reflexivity|]. constructor; [reflexivity|]. constructor; [reflexivity|constructor].
Qed.
Lemma df_lay f : map snd (dfield_layout f) = dfield_lex f.
Proof. destruct f as [[b|] f0]; unfold dfield_layout, dfield_lex; cbn [fst snd]; rewrite map_app, tmf_lay; reflexivity. Qed.
Lemma df_hws f : Forall (fun p => hws (fst p)) (dfield_layout f).
Proof.
  destruct f as [[b|] f0]; unfold dfield_layout; cbn [fst snd]; apply Forall_app; split; try apply tmf_hws; [|constructor].
  unfold dep_layout. constructor; [exact hws_tab|apply nows_hws].
Qed.
Lemma df_sep f rest : sep_ok rest -> sep_ok (dfield_layout f ++ rest).
Proof.
  intros Hr. destruct f as [[b|] f0]; unfold dfield_layout; cbn [fst snd]; rewrite <- app_assoc; [|apply tmf_sep; exact Hr].
  unfold dep_layout, nows. cbn [map app sep_ok needs_end osqL kwDep csqL NLx].
  split; [exact I|]. split; [right; exists 40%N, kOpenPar; reflexivity|]. split; [exact I|]. split; [exact I|]. split; [exact I|]. split; [exact I|].
  split; [exact I|]. apply tmf_sep. exact Hr.
Qed.
Lemma df_ren f t : render (dfield_layout f) t = dfield_text (bdf f) ++ t.
Proof.
  destruct f as [[b|] f0]; unfold dfield_layout, dfield_text, bdf; cbn [fst snd]; rewrite render_app, tmf_ren; [|reflexivity].
  unfold dep_layout, nows, dep_text. cbn [map render text_of osqL kwDep csqL NLx app]. unfold nlb, tab.
  repeat (rewrite <- app_assoc || rewrite <- app_comm_cons). reflexivity.
Qed.

Definition md_item (nm : ident) (fl : list ldfield) : item :=
  let bfl := map bdf fl in
  {| it_toks := dmessage_toks (ibytes nm) bfl; it_need := dsum bfl + 3; it_fneed := dfsum bfl + 4;
     it_upd := fun f => add_message f (dmessage_of (ibytes nm) bfl); it_text := dmessage_text (ibytes nm) bfl; it_blank := true |}.
Definition md_x (nm : ident) (fl : list ldfield) : xitem :=
  {| x_lex := [kwM; Wi nm; ocuL; NLx] ++ flat_map dfield_lex fl ++ [ccuL; NLx];
     x_lay := [([], kwM); (sp, Wi nm); (sp, ocuL); ([], NLx)] ++ flat_map dfield_layout fl ++ [([], ccuL); ([], NLx)] |}.

Lemma dsum_le fl : dsum fl <= length (dfields_toks fl) /\ dfsum fl <= length (dfields_toks fl).
Proof.
  induction fl as [|f fl [IH1 IH2]]; [cbn; lia|]. cbn [dsum dfsum fold_right dfields_toks flat_map]. fold (dsum fl). fold (dfsum fl). fold (dfields_toks fl).
  rewrite app_length. unfold dfuel, dffuel, dfield_toks, ddep. destruct f as [[b|] f0]; cbn [fst snd]; rewrite app_length; unfold tmfield_toks; cbn [app length dep_toks];
    rewrite app_length; cbn [length]; pose proof (tfuel_le (tm_t f0)); lia.
Qed.

Lemma md_item_ok nm fl : ident_ok nm -> Forall ldfield_ok fl -> dmfs_ok [] (map bdf fl) -> item_ok (md_item nm fl) (md_x nm fl).
Proof.
  intros Hn Hf Hm. constructor.
  - intros g f tail c. cbn [md_item it_need it_toks it_upd]. exists (dsum (map bdf fl) + S g). split; [lia|].
    replace (dsum (map bdf fl) + 3 + g) with (S (dsum (map bdf fl) + S (S g))) by lia. apply (top_dmessage _ _ _ _ _ _ Hm).
  - intros g out nl tail c. cbn [md_item it_fneed it_toks it_text it_blank]. rewrite andb_true_r. exists (dfsum (map bdf fl) + S (S g)). split; [lia|].
    replace (dfsum (map bdf fl) + 4 + g) with (S (S (dfsum (map bdf fl) + S (S g)))) by lia. apply fmt_top_dmessage.
  - cbn [md_x x_lex md_item it_toks]. unfold dmessage_toks. rewrite !map_app. cbn [map]. rewrite (tok_of_Wi nm Hn).
    rewrite (pf_toks dfield_lex bdf dfield_toks ldfield_ok df_toks fl Hf). reflexivity.
  - cbn [md_x x_lex]. cbn [app]. constructor; [exact kwM_ok|]. constructor; [now apply lex_ok_Wi|]. constructor; [reflexivity|]. constructor; [reflexivity|].
    apply Forall_app. split; [exact (pf_lex dfield_lex ldfield_ok df_lex fl Hf)|]. constructor; [reflexivity|]. constructor; [reflexivity|constructor].
  - cbn [md_item it_need it_fneed it_toks]. unfold dmessage_toks. rewrite !app_length. cbn [length]. fold (dfields_toks (map bdf fl)).
    destruct (dsum_le (map bdf fl)). lia.
  - cbn [md_x x_lay x_lex]. rewrite !map_app, (pf_lay dfield_lex dfield_layout df_lay). reflexivity.
  - cbn [md_x x_lay]. cbn [app]. constructor; [exact hws_nil|]. constructor; [exact hws_sp|]. constructor; [exact hws_sp|]. constructor; [exact hws_nil|].
    apply Forall_app. split; [exact (pf_hws dfield_layout df_hws fl)|]. constructor; [exact hws_nil|]. constructor; [exact hws_nil|constructor].
  - intros rest Hr. cbn [md_x x_lay]. rewrite <- !app_assoc. cbn [app sep_ok needs_end Wi kwM ocuL NLx].
    split; [left; discriminate|]. split; [left; discriminate|]. split; [exact I|]. split; [exact I|].
    apply (pf_sep dfield_layout df_sep). cbn [app sep_ok needs_end ccuL NLx]. split; [exact I|]. split; [exact I|exact Hr].
  - intros t. cbn [md_x x_lay md_item it_text]. rewrite !render_app, (pf_ren dfield_layout bdf dfield_text df_ren).
    cbn [render text_of Wi app NLx kwM ocuL ccuL]. unfold dmessage_text, dfields_text, ibytes, sp, nlb.
    repeat (rewrite <- app_assoc || rewrite <- app_comm_cons). reflexivity.
Qed.
