(* Two more definitions with documented bodies: an enum WITHOUT a declared base type (uint32) whose members carry comment lines
   and deprecations, and a READONLY struct whose fields do. *)
From Coq Require Import List NArith ZArith Bool Arith Lia.
Require Import Bebop.front.Tok Bebop.front.Parse Bebop.front.Fmt Bebop.front.TokInv Bebop.front.LexInv Bebop.front.ParseInv Bebop.front.FmtInv Bebop.front.MsgInv.
Require Import Bebop.front.GenInv Bebop.front.Items Bebop.front.TyInv Bebop.front.TyMsg Bebop.front.TyItems Bebop.front.TyUnion Bebop.front.TyUnionItem Bebop.front.TyOpcode Bebop.front.TyEnum Bebop.front.TyDep Bebop.front.TyDoc Bebop.front.TyFDoc Bebop.front.TyEDoc.
Import ListNotations.

(* ---------- enum E { ... } : members read as uint32 ---------- *)
Definition cuenum_toks (nm : bytes) (ml : list cmember) : list token := [enumT; idT nm; openT; nlT] ++ cmembers_toks ml ++ [closeT; nlT].
Definition cuenum_of (nm : bytes) (ml : list cmember) : enum_ :=
  {| e_name := nm; e_comment := []; e_opts := map (cmember_opt true) ml; e_simple := s_uint32; e_unsigned := true |}.
Lemma read_cuenum_ok nm ml g tail c : Forall (cmember_ok true 32%N) ml ->
  read_enum (cesum ml + S (S g)) false (mk (res ([idT nm; openT; nlT] ++ cmembers_toks ml ++ [closeT]) tail) c false)
  = POk (cuenum_of nm ml) (mk tail closeT false).
Proof.
  intros Hok. rewrite res_app, read_enum_head. unfold bind. rewrite res_app.
  rewrite (el_cmembers true 32%N ml (S (S g)) [] _ Hok), enum_loop_close. reflexivity.
Qed.
Lemma top_cuenum nm ml g f tail c : Forall (cmember_ok true 32%N) ml ->
  top_loop (S (cesum ml + S (S g))) f [] 0%N false false (mk (res (cuenum_toks nm ml) tail) c false)
  = top_loop (cesum ml + S g) (add_enum f (cuenum_of nm ml)) [] 0%N false false (mk tail nlT false).
Proof.
  intros Hok. unfold cuenum_toks.
  change ([enumT; idT nm; openT; nlT] ++ cmembers_toks ml ++ [closeT; nlT])
    with ([enumT] ++ ([idT nm; openT; nlT] ++ cmembers_toks ml ++ [closeT] ++ [nlT])).
  rewrite res_app, top_enum_head. unfold bind.
  replace ([idT nm; openT; nlT] ++ cmembers_toks ml ++ [closeT] ++ [nlT])
    with (([idT nm; openT; nlT] ++ cmembers_toks ml ++ [closeT]) ++ [nlT]) by (rewrite <- !app_assoc; reflexivity).
  rewrite res_app, (read_cuenum_ok nm ml g _ _ Hok). cbn [e_name e_opts e_simple e_unsigned cuenum_of].
  replace (cesum ml + S (S g)) with (S (cesum ml + S g)) by lia.
  rewrite top_newline. reflexivity.
Qed.
Definition cuenum_text (nm : bytes) (ml : list cmember) : bytes :=
  [101; 110; 117; 109]%N ++ sp ++ nm ++ sp ++ [123%N] ++ nlb ++ cmembers_text ml ++ [125%N] ++ nlb.
Lemma fmt_cuenum_ok nm ml g tail :
  format_enum (S (cefsum ml + S (S g))) (mk (res ([idT nm; openT; nlT] ++ cmembers_toks ml ++ [closeT]) tail) enumT false)
  = POk (cuenum_text nm ml) (mk tail closeT false).
Proof.
  rewrite res_app, fmt_enum_head, fmt_enum_nl, res_app, fmt_cmembers, fmt_eclose. unfold cuenum_text. rewrite <- !app_assoc. reflexivity.
Qed.
Lemma fmt_top_cuenum nm ml g out nl tail c :
  format_loop (S (S (cefsum ml + S (S g)))) out false nl (mk (res (cuenum_toks nm ml) tail) c false)
  = format_loop (cefsum ml + S (S g)) ((if nl then out ++ nlb else out) ++ cuenum_text nm ml) false true (mk tail nlT false).
Proof.
  unfold cuenum_toks.
  change ([enumT; idT nm; openT; nlT] ++ cmembers_toks ml ++ [closeT; nlT])
    with ([enumT] ++ ([idT nm; openT; nlT] ++ cmembers_toks ml ++ [closeT] ++ [nlT])).
  rewrite res_app, fmt_top_enum_head. unfold bind.
  replace ([idT nm; openT; nlT] ++ cmembers_toks ml ++ [closeT] ++ [nlT])
    with (([idT nm; openT; nlT] ++ cmembers_toks ml ++ [closeT]) ++ [nlT]) by (rewrite <- !app_assoc; reflexivity).
  rewrite res_app, fmt_cuenum_ok, fmt_top_newline. reflexivity.
Qed.
Definition cue_item (nm : ident) (ml : list cedef) : item :=
  let bml := map bce ml in
  {| it_toks := cuenum_toks (ibytes nm) bml; it_need := cesum bml + 3; it_fneed := cefsum bml + 4;
     it_upd := fun f => add_enum f (cuenum_of (ibytes nm) bml); it_text := cuenum_text (ibytes nm) bml; it_blank := true |}.
Definition cue_x (nm : ident) (ml : list cedef) : xitem :=
  {| x_lex := [kwE; Wi nm; ocuL; NLx] ++ flat_map cmember_lex ml ++ [ccuL; NLx];
     x_lay := [([], kwE); (sp, Wi nm); (sp, ocuL); ([], NLx)] ++ flat_map cmember_layout ml ++ [([], ccuL); ([], NLx)] |}.
Lemma cue_item_ok nm ml : ident_ok nm -> Forall cedef_ok ml -> Forall (cmember_ok true 32%N) (map bce ml) -> item_ok (cue_item nm ml) (cue_x nm ml).
Proof.
  intros Hn Hm He. constructor.
  - intros g f tail c. cbn [cue_item it_need it_toks it_upd]. exists (cesum (map bce ml) + S g). split; [lia|].
    replace (cesum (map bce ml) + 3 + g) with (S (cesum (map bce ml) + S (S g))) by lia. apply (top_cuenum _ _ _ _ _ _ He).
  - intros g out nl tail c. cbn [cue_item it_fneed it_toks it_text it_blank]. rewrite andb_true_r. exists (cefsum (map bce ml) + S (S g)). split; [lia|].
    replace (cefsum (map bce ml) + 4 + g) with (S (S (cefsum (map bce ml) + S (S g)))) by lia. apply fmt_top_cuenum.
  - cbn [cue_x x_lex cue_item it_toks]. unfold cuenum_toks. rewrite !map_app. cbn [map]. rewrite (tok_of_Wi nm Hn).
    rewrite (pf_toks cmember_lex bce cmember_toks _ ce_toks ml Hm). reflexivity.
  - cbn [cue_x x_lex]. cbn [app]. constructor; [cbn [lex_ok kwE]; split; [reflexivity|repeat constructor]|]. constructor; [now apply lex_ok_Wi|].
    constructor; [reflexivity|]. constructor; [reflexivity|].
    apply Forall_app. split; [exact (pf_lex cmember_lex _ ce_lex ml Hm)|]. constructor; [reflexivity|]. constructor; [reflexivity|constructor].
  - cbn [cue_item it_need it_fneed it_toks]. unfold cuenum_toks. rewrite !app_length. cbn [length]. fold (cmembers_toks (map bce ml)).
    destruct (cesum_le (map bce ml)). lia.
  - cbn [cue_x x_lay x_lex]. rewrite !map_app, (pf_lay cmember_lex cmember_layout ce_lay). reflexivity.
  - cbn [cue_x x_lay]. cbn [app]. constructor; [exact hws_nil|]. do 2 (constructor; [exact hws_sp|]). constructor; [exact hws_nil|].
    apply Forall_app. split; [exact (pf_hws cmember_layout ce_hws ml)|]. constructor; [exact hws_nil|]. constructor; [exact hws_nil|constructor].
  - intros rest Hr. cbn [cue_x x_lay]. rewrite <- !app_assoc. cbn [app sep_ok needs_end Wi kwE ocuL NLx].
    split; [left; discriminate|]. split; [left; discriminate|]. split; [exact I|]. split; [exact I|].
    apply (pf_sep cmember_layout ce_sep). cbn [app sep_ok needs_end ccuL NLx]. split; [exact I|]. split; [exact I|exact Hr].
  - intros t. cbn [cue_x x_lay cue_item it_text]. rewrite !render_app, (pf_ren cmember_layout bce cmember_text ce_ren).
    cbn [render text_of Wi app NLx kwE ocuL ccuL]. unfold cuenum_text, cmembers_text, ibytes, sp, nlb.
    repeat (rewrite <- app_assoc || rewrite <- app_comm_cons). reflexivity.
Qed.

(* ---------- readonly struct S { ... } with documented fields ---------- *)
Definition cstruct_of_ro (nm : bytes) (fl : list cfield) : struct_ :=
  {| s_name := nm; s_comment := []; s_fields := map cfield_of fl; s_opcode := 0; s_readonly := true |}.
Definition cro_text (nm : bytes) (fl : list cfield) : bytes := [114; 101; 97; 100; 111; 110; 108; 121; 32]%N ++ cstruct_text nm fl.
Lemma top_cfstruct_ro nm fl g f tail c : Forall cfield_ok fl ->
  top_loop (S (csum fl + S (S g))) f [] 0%N false false (mk (res (readonlyT :: cstruct_toks nm fl) tail) c false)
  = top_loop (csum fl + S g) (add_struct f (cstruct_of_ro nm fl)) [] 0%N false false (mk tail nlT false).
Proof.
  intros Hok. unfold cstruct_toks.
  change (readonlyT :: [structT; idT nm; openT; nlT] ++ cfields_toks fl ++ [closeT; nlT])
    with ([readonlyT; structT] ++ ([idT nm; openT; nlT] ++ cfields_toks fl ++ [closeT] ++ [nlT])).
  rewrite res_app, top_ro_head. unfold bind.
  replace ([idT nm; openT; nlT] ++ cfields_toks fl ++ [closeT] ++ [nlT])
    with (([idT nm; openT; nlT] ++ cfields_toks fl ++ [closeT]) ++ [nlT]) by (rewrite <- !app_assoc; reflexivity).
  rewrite res_app, (read_cstruct_ok nm fl g _ _ Hok). cbn [s_name s_fields cstruct_of].
  replace (csum fl + S (S g)) with (S (csum fl + S g)) by lia.
  rewrite top_newline. reflexivity.
Qed.
Lemma fmt_cstruct_ok_ro nm fl g tail :
  format_struct (S (cfsum fl + S (S g))) true tab (mk (res ([idT nm; openT; nlT] ++ cfields_toks fl ++ [closeT]) tail) structT false)
  = POk (cro_text nm fl) (mk tail closeT false).
Proof.
  rewrite res_app, fmt_struct_head_ro, res_app, fmt_cfields.
  replace (ctsum fl + S (S g)) with (S (S (ctsum fl + g))) by lia. rewrite fmt_close.
  unfold cro_text, cstruct_text. rewrite <- !app_assoc. reflexivity.
Qed.
Lemma fmt_top_cstruct_ro nm fl g out nl tail c :
  format_loop (S (S (S (cfsum fl + S (S g))))) out false nl (mk (res (readonlyT :: cstruct_toks nm fl) tail) c false)
  = format_loop (cfsum fl + S (S g)) ((if nl then out ++ nlb else out) ++ cro_text nm fl) false true (mk tail nlT false).
Proof.
  unfold cstruct_toks.
  change (readonlyT :: [structT; idT nm; openT; nlT] ++ cfields_toks fl ++ [closeT; nlT])
    with ([readonlyT; structT] ++ ([idT nm; openT; nlT] ++ cfields_toks fl ++ [closeT] ++ [nlT])).
  rewrite res_app, fmt_top_ro_head. unfold bind.
  replace ([idT nm; openT; nlT] ++ cfields_toks fl ++ [closeT] ++ [nlT])
    with (([idT nm; openT; nlT] ++ cfields_toks fl ++ [closeT]) ++ [nlT]) by (rewrite <- !app_assoc; reflexivity).
  rewrite res_app, fmt_cstruct_ok_ro, fmt_top_newline. reflexivity.
Qed.
Definition cfr_item (nm : ident) (fl : list cfdef) : item :=
  let bfl := map bcf fl in
  {| it_toks := readonlyT :: cstruct_toks (ibytes nm) bfl; it_need := csum bfl + 3; it_fneed := cfsum bfl + 5;
     it_upd := fun f => add_struct f (cstruct_of_ro (ibytes nm) bfl); it_text := cro_text (ibytes nm) bfl; it_blank := true |}.
Definition cfr_x (nm : ident) (fl : list cfdef) : xitem :=
  {| x_lex := kwRO :: x_lex (cf_x nm fl); x_lay := ([], kwRO) :: (sp, kwS) :: tl (x_lay (cf_x nm fl)) |}.
Lemma cfr_item_ok nm fl : ident_ok nm -> Forall cfdef_ok fl -> item_ok (cfr_item nm fl) (cfr_x nm fl).
Proof.
  intros Hn Hf. pose proof (cf_item_ok nm fl Hn Hf) as Hs. pose proof (ckeys_of fl Hf) as Hk. constructor.
  - intros g f tail c. cbn [cfr_item it_need it_toks it_upd]. exists (csum (map bcf fl) + S g). split; [lia|].
    replace (csum (map bcf fl) + 3 + g) with (S (csum (map bcf fl) + S (S g))) by lia. apply (top_cfstruct_ro _ _ _ _ _ _ Hk).
  - intros g out nl tail c. cbn [cfr_item it_fneed it_toks it_text it_blank]. rewrite andb_true_r. exists (cfsum (map bcf fl) + S (S g)). split; [lia|].
    replace (cfsum (map bcf fl) + 5 + g) with (S (S (S (cfsum (map bcf fl) + S (S g))))) by lia. apply fmt_top_cstruct_ro.
  - cbn [cfr_x x_lex cfr_item it_toks map]. rewrite (ok_toks _ _ Hs). reflexivity.
  - cbn [cfr_x x_lex]. constructor; [cbn [lex_ok kwRO]; split; [reflexivity|repeat constructor]|exact (ok_lex _ _ Hs)].
  - cbn [cfr_item it_need it_fneed it_toks length]. pose proof (ok_need _ _ Hs) as [H1 H2]. cbn [cf_item it_need it_fneed it_toks] in H1, H2. lia.
  - cbn [cfr_x x_lay x_lex cf_x tl app map]. pose proof (ok_lay _ _ Hs) as H. cbn [cf_x x_lay x_lex app map] in H. injection H as H. rewrite H. reflexivity.
  - cbn [cfr_x x_lay cf_x tl app]. pose proof (ok_hws _ _ Hs) as H. cbn [cf_x x_lay app] in H. inversion H; subst. constructor; [exact hws_nil|]. constructor; [exact hws_sp|assumption].
  - intros rest Hr. cbn [cfr_x x_lay cf_x tl app]. pose proof (ok_sep _ _ Hs rest Hr) as H. cbn [cf_x x_lay app] in H.
    cbn [sep_ok needs_end kwRO kwS] in H |- *. destruct H as [_ H]. split; [left; discriminate|]. split; [left; discriminate|exact H].
  - intros t. pose proof (ok_render _ _ Hs t) as H. cbn [cf_x x_lay app cf_item it_text] in H.
    cbn [cfr_x x_lay cf_x tl app cfr_item it_text]. cbn [render text_of kwS app] in H. cbn [render text_of kwRO kwS app]. rewrite H.
    unfold cro_text, sp. cbn [app]. reflexivity.
Qed.
Print Assumptions cfr_item_ok.
