(* Definitions with documented fields / members as bases of the generic decorator (front/TyDec.v): ANY sequence of `//` comment
   lines and [opcode(..)] lines before a struct or message whose fields carry their own comment lines, tags and deprecations,
   or before a typed enum whose members do - the shape of a fully documented schema. *)
From Coq Require Import List NArith ZArith Bool Arith Lia.
Require Import Bebop.front.Tok Bebop.front.Parse Bebop.front.Fmt Bebop.front.TokInv Bebop.front.LexInv Bebop.front.ParseInv Bebop.front.FmtInv Bebop.front.MsgInv.
Require Import Bebop.front.GenInv Bebop.front.Items Bebop.front.TyInv Bebop.front.TyMsg Bebop.front.TyItems Bebop.front.TyUnion Bebop.front.TyUnionItem Bebop.front.TyOpcode Bebop.front.TyEnum Bebop.front.TyDep Bebop.front.TyDoc Bebop.front.TyDec Bebop.front.TyFDoc Bebop.front.TyFDocM Bebop.front.TyEDoc.
Import ListNotations.

Definition gcstruct_of (cmt : bytes) (oc : N) (nm : bytes) (fl : list cfield) : struct_ :=
  {| s_name := nm; s_comment := cmt; s_fields := map cfield_of fl; s_opcode := oc; s_readonly := false |}.
Definition gcmessage_of (cmt : bytes) (oc : N) (nm : bytes) (fl : list cmfield) : message :=
  {| m_name := nm; m_comment := cmt; m_fields := map cmfield_of fl; m_opcode := oc |}.
Definition gcenum_of (cmt : bytes) (nm tname : bytes) (uns : bool) (ml : list cmember) : enum_ :=
  {| e_name := nm; e_comment := cmt; e_opts := map (cmember_opt uns) ml; e_simple := tname; e_unsigned := uns |}.

Definition b_cfstruct (nm : ident) (fl : list cfdef) : gbase :=
  {| gb_toks := it_toks (cf_item nm fl); gb_need := it_need (cf_item nm fl); gb_fneed := it_fneed (cf_item nm fl);
     gb_upd := fun cmt oc f => add_struct f (gcstruct_of cmt oc (ibytes nm) (map bcf fl)); gb_text := it_text (cf_item nm fl); gb_opc0 := false |}.
Lemma b_cfstruct_ok nm fl : ident_ok nm -> Forall cfdef_ok fl -> gbase_ok (b_cfstruct nm fl) (cf_x nm fl).
Proof.
  intros Hn Hf. apply (gbase_from_item (cf_item nm fl) (cf_x nm fl) (b_cfstruct nm fl) (cf_item_ok nm fl Hn Hf)); try reflexivity.
  intros cm opc g f tail c _. pose proof (ckeys_of fl Hf) as Hk. cbn [b_cfstruct gb_need gb_toks gb_upd cf_item it_need it_toks].
  exists (csum (map bcf fl) + S g). split; [lia|].
  replace (csum (map bcf fl) + 3 + g) with (S (csum (map bcf fl) + S (S g))) by lia. unfold cstruct_toks.
  change ([structT; idT (ibytes nm); openT; nlT] ++ cfields_toks (map bcf fl) ++ [closeT; nlT])
    with ([structT] ++ ([idT (ibytes nm); openT; nlT] ++ cfields_toks (map bcf fl) ++ [closeT] ++ [nlT])).
  rewrite res_app, top_struct_head_gen. unfold bind.
  replace ([idT (ibytes nm); openT; nlT] ++ cfields_toks (map bcf fl) ++ [closeT] ++ [nlT])
    with (([idT (ibytes nm); openT; nlT] ++ cfields_toks (map bcf fl) ++ [closeT]) ++ [nlT]) by (rewrite <- !app_assoc; reflexivity).
  rewrite res_app, (read_cstruct_ok (ibytes nm) (map bcf fl) g _ _ Hk). cbn [s_name s_fields cstruct_of].
  replace (csum (map bcf fl) + S (S g)) with (S (csum (map bcf fl) + S g)) by lia.
  rewrite top_newline. reflexivity.
Qed.

Definition b_cmmessage (nm : ident) (fl : list cmfdef) : gbase :=
  {| gb_toks := it_toks (cmf_item nm fl); gb_need := it_need (cmf_item nm fl); gb_fneed := it_fneed (cmf_item nm fl);
     gb_upd := fun cmt oc f => add_message f (gcmessage_of cmt oc (ibytes nm) (map bcm fl)); gb_text := it_text (cmf_item nm fl); gb_opc0 := false |}.
Lemma b_cmmessage_ok nm fl : ident_ok nm -> Forall cmfdef_ok fl -> cmfs_ok [] (map bcm fl) -> gbase_ok (b_cmmessage nm fl) (cmf_x nm fl).
Proof.
  intros Hn Hf Hm. apply (gbase_from_item (cmf_item nm fl) (cmf_x nm fl) (b_cmmessage nm fl) (cmf_item_ok nm fl Hn Hf Hm)); try reflexivity.
  intros cm opc g f tail c _. cbn [b_cmmessage gb_need gb_toks gb_upd cmf_item it_need it_toks].
  exists (cmsum (map bcm fl) + S g). split; [lia|].
  replace (cmsum (map bcm fl) + 3 + g) with (S (cmsum (map bcm fl) + S (S g))) by lia. unfold cmessage_toks.
  change ([messageT; idT (ibytes nm); openT; nlT] ++ cmfields_toks (map bcm fl) ++ [closeT; nlT])
    with ([messageT] ++ ([idT (ibytes nm); openT; nlT] ++ cmfields_toks (map bcm fl) ++ [closeT] ++ [nlT])).
  rewrite res_app, top_message_head_gen. unfold bind.
  replace ([idT (ibytes nm); openT; nlT] ++ cmfields_toks (map bcm fl) ++ [closeT] ++ [nlT])
    with (([idT (ibytes nm); openT; nlT] ++ cmfields_toks (map bcm fl) ++ [closeT]) ++ [nlT]) by (rewrite <- !app_assoc; reflexivity).
  rewrite res_app, (read_cmessage_ok (ibytes nm) (map bcm fl) g _ _ Hm). cbn [m_name m_fields cmessage_of].
  replace (cmsum (map bcm fl) + S (S g)) with (S (cmsum (map bcm fl) + S g)) by lia.
  rewrite top_newline. reflexivity.
Qed.

Definition b_cenum (nm tname : ident) (uns : bool) (ml : list cedef) : gbase :=
  {| gb_toks := it_toks (ce_item nm tname uns ml); gb_need := it_need (ce_item nm tname uns ml); gb_fneed := it_fneed (ce_item nm tname uns ml);
     gb_upd := fun cmt oc f => add_enum f (gcenum_of cmt (ibytes nm) (ibytes tname) uns (map bce ml)); gb_text := it_text (ce_item nm tname uns ml); gb_opc0 := true |}.
Lemma b_cenum_ok nm tname uns bits ml :
  ident_ok nm -> ident_ok tname -> base_ok (ibytes tname) uns bits -> Forall cedef_ok ml -> Forall (cmember_ok uns bits) (map bce ml) ->
  gbase_ok (b_cenum nm tname uns ml) (ce_x nm tname ml).
Proof.
  intros Hn Ht Hb Hm He.
  apply (gbase_from_item (ce_item nm tname uns ml) (ce_x nm tname ml) (b_cenum nm tname uns ml) (ce_item_ok nm tname uns bits ml Hn Ht Hb Hm He)); try reflexivity.
  intros cm opc g f tail c Ho. rewrite (Ho eq_refl). cbn [b_cenum gb_need gb_toks gb_upd ce_item it_need it_toks].
  exists (cesum (map bce ml) + S g). split; [lia|].
  replace (cesum (map bce ml) + 3 + g) with (S (cesum (map bce ml) + S (S g))) by lia. unfold cenum_toks.
  change ([enumT; idT (ibytes nm); colonT; idT (ibytes tname); openT; nlT] ++ cmembers_toks (map bce ml) ++ [closeT; nlT])
    with ([enumT] ++ ([idT (ibytes nm); colonT; idT (ibytes tname); openT; nlT] ++ cmembers_toks (map bce ml) ++ [closeT] ++ [nlT])).
  rewrite res_app, top_enum_head_gen. unfold bind.
  replace ([idT (ibytes nm); colonT; idT (ibytes tname); openT; nlT] ++ cmembers_toks (map bce ml) ++ [closeT] ++ [nlT])
    with (([idT (ibytes nm); colonT; idT (ibytes tname); openT; nlT] ++ cmembers_toks (map bce ml) ++ [closeT]) ++ [nlT]) by (rewrite <- !app_assoc; reflexivity).
  rewrite res_app, (read_cenum_ok (ibytes nm) (ibytes tname) uns bits (map bce ml) g _ _ Hb He). cbn [e_name e_opts e_simple e_unsigned cenum_of].
  replace (cesum (map bce ml) + S (S g)) with (S (cesum (map bce ml) + S g)) by lia.
  rewrite top_newline. reflexivity.
Qed.
Print Assumptions b_cenum_ok.

(* ... and a union whose members are documented *)
Require Import Bebop.front.TyUDoc.
Definition gcunion_of (cmt : bytes) (oc : N) (nm : bytes) (bl : list cubranch) : union_ :=
  {| un_name := nm; un_comment := cmt; un_fields := map cub_field bl; un_opcode := oc |}.
Definition b_cunion (nm : ident) (bl : list club) : gbase :=
  {| gb_toks := it_toks (cu_item nm bl); gb_need := it_need (cu_item nm bl); gb_fneed := it_fneed (cu_item nm bl);
     gb_upd := fun cmt oc f => add_union f (gcunion_of cmt oc (ibytes nm) (map bcub bl)); gb_text := it_text (cu_item nm bl); gb_opc0 := false |}.
Lemma b_cunion_ok nm bl : ident_ok nm -> Forall club_ok bl -> cubs_ok [] (map bcub bl) -> bl <> [] -> gbase_ok (b_cunion nm bl) (cu_x nm bl).
Proof.
  intros Hn Hf Hu Hne. apply (gbase_from_item (cu_item nm bl) (cu_x nm bl) (b_cunion nm bl) (cu_item_ok nm bl Hn Hf Hu Hne)); try reflexivity.
  intros cm opc g f tail c _. cbn [b_cunion gb_need gb_toks gb_upd cu_item it_need it_toks].
  exists (cusum (map bcub bl) + S (S g)). split; [lia|].
  replace (cusum (map bcub bl) + 4 + g) with (S (cusum (map bcub bl) + S (S (S g)))) by lia. unfold cunion_toks.
  change ([unionT; idT (ibytes nm); openT; nlT] ++ cubs_toks (map bcub bl) ++ [closeT; nlT])
    with ([unionT] ++ ([idT (ibytes nm); openT; nlT] ++ cubs_toks (map bcub bl) ++ [closeT] ++ [nlT])).
  rewrite res_app, top_union_head_gen. unfold bind.
  replace ([idT (ibytes nm); openT; nlT] ++ cubs_toks (map bcub bl) ++ [closeT] ++ [nlT])
    with (([idT (ibytes nm); openT; nlT] ++ cubs_toks (map bcub bl) ++ [closeT]) ++ [nlT]) by (rewrite <- !app_assoc; reflexivity).
  rewrite res_app, (read_cunion_ok (ibytes nm) (map bcub bl) (S g) _ _ Hu). cbn [un_name un_fields cunion_of].
  replace (cusum (map bcub bl) + S (S (S g))) with (S (cusum (map bcub bl) + S (S g))) by lia. rewrite top_newline. reflexivity.
Qed.

(* ... a readonly struct with documented fields, and an enum without a declared base type with documented members *)
Require Import Bebop.front.TyFVar.
Definition gcrostruct_of (cmt : bytes) (oc : N) (nm : bytes) (fl : list cfield) : struct_ :=
  {| s_name := nm; s_comment := cmt; s_fields := map cfield_of fl; s_opcode := oc; s_readonly := true |}.
Definition b_cfrostruct (nm : ident) (fl : list cfdef) : gbase :=
  {| gb_toks := it_toks (cfr_item nm fl); gb_need := it_need (cfr_item nm fl); gb_fneed := it_fneed (cfr_item nm fl);
     gb_upd := fun cmt oc f => add_struct f (gcrostruct_of cmt oc (ibytes nm) (map bcf fl)); gb_text := it_text (cfr_item nm fl); gb_opc0 := false |}.
Lemma b_cfrostruct_ok nm fl : ident_ok nm -> Forall cfdef_ok fl -> gbase_ok (b_cfrostruct nm fl) (cfr_x nm fl).
Proof.
  intros Hn Hf. apply (gbase_from_item (cfr_item nm fl) (cfr_x nm fl) (b_cfrostruct nm fl) (cfr_item_ok nm fl Hn Hf)); try reflexivity.
  intros cm opc g f tail c _. pose proof (ckeys_of fl Hf) as Hk. cbn [b_cfrostruct gb_need gb_toks gb_upd cfr_item it_need it_toks].
  exists (csum (map bcf fl) + S g). split; [lia|].
  replace (csum (map bcf fl) + 3 + g) with (S (csum (map bcf fl) + S (S g))) by lia. unfold cstruct_toks.
  change (readonlyT :: [structT; idT (ibytes nm); openT; nlT] ++ cfields_toks (map bcf fl) ++ [closeT; nlT])
    with ([readonlyT; structT] ++ ([idT (ibytes nm); openT; nlT] ++ cfields_toks (map bcf fl) ++ [closeT] ++ [nlT])).
  rewrite res_app, top_ro_head_gen. unfold bind.
  replace ([idT (ibytes nm); openT; nlT] ++ cfields_toks (map bcf fl) ++ [closeT] ++ [nlT])
    with (([idT (ibytes nm); openT; nlT] ++ cfields_toks (map bcf fl) ++ [closeT]) ++ [nlT]) by (rewrite <- !app_assoc; reflexivity).
  rewrite res_app, (read_cstruct_ok (ibytes nm) (map bcf fl) g _ _ Hk). cbn [s_name s_fields cstruct_of].
  replace (csum (map bcf fl) + S (S g)) with (S (csum (map bcf fl) + S g)) by lia.
  rewrite top_newline. reflexivity.
Qed.
Definition gcuenum_of (cmt : bytes) (nm : bytes) (ml : list cmember) : enum_ :=
  {| e_name := nm; e_comment := cmt; e_opts := map (cmember_opt true) ml; e_simple := s_uint32; e_unsigned := true |}.
Definition b_cuenum (nm : ident) (ml : list cedef) : gbase :=
  {| gb_toks := it_toks (cue_item nm ml); gb_need := it_need (cue_item nm ml); gb_fneed := it_fneed (cue_item nm ml);
     gb_upd := fun cmt oc f => add_enum f (gcuenum_of cmt (ibytes nm) (map bce ml)); gb_text := it_text (cue_item nm ml); gb_opc0 := true |}.
Lemma b_cuenum_ok nm ml : ident_ok nm -> Forall cedef_ok ml -> Forall (cmember_ok true 32%N) (map bce ml) -> gbase_ok (b_cuenum nm ml) (cue_x nm ml).
Proof.
  intros Hn Hm He. apply (gbase_from_item (cue_item nm ml) (cue_x nm ml) (b_cuenum nm ml) (cue_item_ok nm ml Hn Hm He)); try reflexivity.
  intros cm opc g f tail c Ho. rewrite (Ho eq_refl). cbn [b_cuenum gb_need gb_toks gb_upd cue_item it_need it_toks].
  exists (cesum (map bce ml) + S g). split; [lia|].
  replace (cesum (map bce ml) + 3 + g) with (S (cesum (map bce ml) + S (S g))) by lia. unfold cuenum_toks.
  change ([enumT; idT (ibytes nm); openT; nlT] ++ cmembers_toks (map bce ml) ++ [closeT; nlT])
    with ([enumT] ++ ([idT (ibytes nm); openT; nlT] ++ cmembers_toks (map bce ml) ++ [closeT] ++ [nlT])).
  rewrite res_app, top_enum_head_gen. unfold bind.
  replace ([idT (ibytes nm); openT; nlT] ++ cmembers_toks (map bce ml) ++ [closeT] ++ [nlT])
    with (([idT (ibytes nm); openT; nlT] ++ cmembers_toks (map bce ml) ++ [closeT]) ++ [nlT]) by (rewrite <- !app_assoc; reflexivity).
  rewrite res_app, (read_cuenum_ok (ibytes nm) (map bce ml) g _ _ He). cbn [e_name e_opts e_simple e_unsigned cuenum_of].
  replace (cesum (map bce ml) + S (S g)) with (S (cesum (map bce ml) + S g)) by lia.
  rewrite top_newline. reflexivity.
Qed.
