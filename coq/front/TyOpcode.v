(* The [opcode(..)] attribute in the inversion theorems: a struct or a message preceded by an opcode line - a decimal
   literal, or a four-character string read little-endian - as items of the framework of GenInv.v. *)
From Coq Require Import List NArith ZArith Bool Arith Lia.
Require Import Bebop.front.Tok Bebop.front.Parse Bebop.front.Fmt Bebop.front.TokInv Bebop.front.LexInv Bebop.front.ParseInv Bebop.front.FmtInv Bebop.front.MsgInv.
Require Import Bebop.front.GenInv Bebop.front.Items Bebop.front.TyInv Bebop.front.TyMsg Bebop.front.TyItems Bebop.front.TyUnion.
Import ListNotations.

Definition opcodeT : token := {| kind := 10%N; concrete := [111; 112; 99; 111; 100; 101]%N |}.
Definition oparT : token := {| kind := kOpenPar; concrete := [40%N] |}.
Definition cparT : token := {| kind := kClosePar; concrete := [41%N] |}.
Definition strT (body : bytes) : token := {| kind := kString; concrete := 34%N :: body ++ [34%N] |}.

(* the literal of an opcode: digits and the number they denote, or four characters *)
Inductive oplit := ONum (ds : bytes) (v : N) | OStr (a b c d : byte).
Definition ol_tok (l : oplit) : token := match l with ONum ds _ => numT ds | OStr a b c d => strT [a; b; c; d] end.
Definition ol_val (l : oplit) : N := match l with ONum _ v => v | OStr a b c d => (a + 256 * b + 65536 * c + 16777216 * d)%N end.
Definition ol_ok (l : oplit) : Prop :=
  match l with
  | ONum ds v => parse_uint true 32 ds = Some v
  | OStr a b c d => is_quote a = false /\ is_quote d = false
  end.
Definition opc_toks (l : oplit) : list token := [osqT; opcodeT; oparT; ol_tok l; cparT; csqT; nlT].

Arguments parse_uint : simpl never.

Ltac ostep1 :=
  cbv beta iota zeta delta [bind p_next p_haserr p_kind p_tok p_unnext ret fail kin existsb expect_any_of_next expect_next opt_newline read_opcode conc next_cat
                            mk kept keep rs cur perrs];
  cbn [N.eqb Pos.eqb orb andb negb kind concrete kIdent kOpenSq kCloseSq kComma kSemi kNewline kCloseCu kOpenCu kLineC kBlockC kInt kArrow kString kOpenPar kClosePar
       arrayT mapT osqT csqT commaT idT semiT nlT closeT numT arrowT structT messageT unionT openT opcodeT oparT cparT strT].
Ltac ostep := repeat progress ostep1.

Lemma trim4 a b c d : is_quote a = false -> is_quote d = false -> trim is_quote (34%N :: [a; b; c; d] ++ [34%N]) = [a; b; c; d].
Proof.
  intros Ha Hd. unfold trim. cbn [app drop_while is_quote N.eqb Pos.eqb]. rewrite Ha. cbn [rev app drop_while is_quote N.eqb Pos.eqb]. rewrite Hd. reflexivity.
Qed.

Lemma top_opcode l F f tail c : ol_ok l ->
  top_loop (S F) f [] 0%N false false (mk (res (opc_toks l) tail) c false)
  = top_loop F f [] (ol_val l) false false (mk tail nlT false).
Proof.
  intros Hok. unfold opc_toks, res. cbn [map app top_loop]. destruct l as [ds v|a b c0 d]; cbn [ol_tok ol_val ol_ok] in *.
  - ostep. rewrite Hok. ostep. reflexivity.
  - destruct Hok as [Ha Hd]. ostep. rewrite (trim4 a b c0 d Ha Hd). ostep. reflexivity.
Qed.

Lemma top_struct_head_opc F f oc tail c :
  top_loop (S F) f [] oc false false (mk (res [structT] tail) c false)
  = bind (read_struct F)
         (fun st => top_loop F (add_struct f {| s_name := s_name st; s_comment := []; s_fields := s_fields st; s_opcode := oc; s_readonly := false |})
                             [] 0%N false false) (mk tail structT false).
Proof. top_step. reflexivity. Qed.
Lemma top_message_head_opc F f oc tail c :
  top_loop (S F) f [] oc false false (mk (res [messageT] tail) c false)
  = bind (read_message F)
         (fun m => top_loop F (add_message f {| m_name := m_name m; m_comment := []; m_fields := m_fields m; m_opcode := oc |})
                            [] 0%N false false) (mk tail messageT false).
Proof. top_step_m. reflexivity. Qed.

Definition tstruct_of_opc (oc : N) (nm : bytes) (fl : list tfield) : struct_ :=
  {| s_name := nm; s_comment := []; s_fields := map tfield_of fl; s_opcode := oc; s_readonly := false |}.
Definition tmessage_of_opc (oc : N) (nm : bytes) (fl : list tmfield) : message :=
  {| m_name := nm; m_comment := []; m_fields := map tmfield_of fl; m_opcode := oc |}.

Lemma top_ostruct l nm fl g f tail c : ol_ok l -> Forall (fun f => ty_keys_ok (fst f)) fl ->
  top_loop (S (S (fsum fl + S (S g)))) f [] 0%N false false (mk (res (opc_toks l ++ tstruct_toks nm fl) tail) c false)
  = top_loop (fsum fl + S g) (add_struct f (tstruct_of_opc (ol_val l) nm fl)) [] 0%N false false (mk tail nlT false).
Proof.
  intros Hl Hok. rewrite res_app, (top_opcode l _ f _ c Hl). unfold tstruct_toks.
  change ([structT; idT nm; openT; nlT] ++ tfields_toks fl ++ [closeT; nlT])
    with ([structT] ++ ([idT nm; openT; nlT] ++ tfields_toks fl ++ [closeT] ++ [nlT])).
  rewrite res_app, top_struct_head_opc. unfold bind.
  replace ([idT nm; openT; nlT] ++ tfields_toks fl ++ [closeT] ++ [nlT])
    with (([idT nm; openT; nlT] ++ tfields_toks fl ++ [closeT]) ++ [nlT]) by (rewrite <- !app_assoc; reflexivity).
  rewrite res_app, (read_tstruct_ok nm fl g _ _ Hok). cbn [s_name s_fields tstruct_of].
  replace (fsum fl + S (S g)) with (S (fsum fl + S g)) by lia.
  rewrite top_newline. reflexivity.
Qed.
Lemma top_omessage l nm fl g f tail c : ol_ok l -> tmfs_ok [] fl ->
  top_loop (S (S (fsum (map snd fl) + S (S g)))) f [] 0%N false false (mk (res (opc_toks l ++ tmessage_toks nm fl) tail) c false)
  = top_loop (fsum (map snd fl) + S g) (add_message f (tmessage_of_opc (ol_val l) nm fl)) [] 0%N false false (mk tail nlT false).
Proof.
  intros Hl Hok. rewrite res_app, (top_opcode l _ f _ c Hl). unfold tmessage_toks.
  change ([messageT; idT nm; openT; nlT] ++ tmfields_toks fl ++ [closeT; nlT])
    with ([messageT] ++ ([idT nm; openT; nlT] ++ tmfields_toks fl ++ [closeT] ++ [nlT])).
  rewrite res_app, top_message_head_opc. unfold bind.
  replace ([idT nm; openT; nlT] ++ tmfields_toks fl ++ [closeT] ++ [nlT])
    with (([idT nm; openT; nlT] ++ tmfields_toks fl ++ [closeT]) ++ [nlT]) by (rewrite <- !app_assoc; reflexivity).
  rewrite res_app, (read_tmessage_ok nm fl g _ _ Hok). cbn [m_name m_fields tmessage_of].
  replace (fsum (map snd fl) + S (S g)) with (S (fsum (map snd fl) + S g)) by lia.
  rewrite top_newline. reflexivity.
Qed.

(* ---------- the formatter ---------- *)
Definition opc_text (l : oplit) : bytes := [91%N] ++ [111; 112; 99; 111; 100; 101]%N ++ [40%N] ++ concrete (ol_tok l) ++ [41%N] ++ [93%N] ++ nlb.

Lemma fmt_top_opcode l F out nl tail c :
  format_loop (S (S F)) out false nl (mk (res (opc_toks l) tail) c false)
  = format_loop F ((if nl then out ++ nlb else out) ++ opc_text l) false false (mk tail nlT false).
Proof.
  unfold opc_toks, res. cbn [map app format_loop]. ostep. destruct l; cbn [ol_tok]; ostep; cbn [format_loop]; ostep;
    (f_equal; unfold opc_text; cbn [ol_tok concrete numT strT]; rewrite <- ?app_assoc; reflexivity).
Qed.

(* ---------- the items ---------- *)
Inductive lol := LNum (x : idx) | LStr (a b c d : byte).
Definition bol (l : lol) : oplit := match l with LNum x => ONum (xbytes x) (xv x) | LStr a b c d => OStr a b c d end.
Definition lol_ok (l : lol) : Prop :=
  match l with
  | LNum x => idx_ok x /\ parse_uint true 32 (xbytes x) = Some (xv x)
  | LStr a b c d => Forall (fun x => plain x = true) [a; b; c; d]
  end.
Definition kwOp : lexeme := W 111%N [112; 99; 111; 100; 101]%N.
Definition opc_lex (l : lol) : list lexeme :=
  [osqL; kwOp; T1 40%N kOpenPar; match l with LNum x => Num (xc x) (xds x) | LStr a b c d => Str [a; b; c; d] end; T1 41%N kClosePar; csqL; NLx].

Lemma plain_not_quote x : plain x = true -> is_quote x = false.
Proof. unfold plain, is_quote. intros H. apply andb_true_iff in H. destruct H as [H _]. now apply negb_true_iff in H. Qed.
Lemma lol_ok_ol l : lol_ok l -> ol_ok (bol l).
Proof.
  destruct l as [x|a b c d]; cbn [lol_ok bol ol_ok]; [intros [_ H]; exact H|]. intros H.
  inversion H as [|? ? Ha H1]; subst. inversion H1 as [|? ? _ H2]; subst. inversion H2 as [|? ? _ H3]; subst. inversion H3 as [|? ? Hd _]; subst.
  split; apply plain_not_quote; assumption.
Qed.
Lemma opc_toks_tie l : lol_ok l -> map tok_of (opc_lex l) = opc_toks (bol l).
Proof. destruct l as [x|a b c d]; intros _; reflexivity. Qed.
Lemma opc_lex_ok l : lol_ok l -> Forall lex_ok (opc_lex l).
Proof.
  intros H. unfold opc_lex. constructor; [reflexivity|]. constructor; [split; [reflexivity|repeat constructor]|]. constructor; [reflexivity|].
  constructor; [destruct l as [x|a b c d]; cbn [lol_ok lex_ok] in *; [exact (proj1 H)|exact H]|].
  constructor; [reflexivity|]. constructor; [reflexivity|]. constructor; [reflexivity|constructor].
Qed.
Lemma opc_sep l rest : sep_ok rest -> sep_ok (nows (opc_lex l) ++ rest).
Proof.
  intros Hr. unfold opc_lex, nows. cbn [map app sep_ok needs_end osqL kwOp csqL NLx].
  split; [exact I|]. split; [right; exists 40%N, kOpenPar; reflexivity|]. split; [exact I|].
  split; [destruct l; cbn [needs_end]; [right; exists 41%N, kClosePar; reflexivity|exact I]|].
  split; [exact I|]. split; [exact I|]. split; [exact I|exact Hr].
Qed.
Lemma opc_ren l t : render (nows (opc_lex l)) t = opc_text (bol l) ++ t.
Proof.
  unfold opc_lex, nows, opc_text. cbn [map render text_of osqL kwOp csqL NLx app]. destruct l as [x|a b c d]; cbn [bol ol_tok concrete numT strT text_of xbytes app]; unfold nlb;
    repeat (rewrite <- app_assoc || rewrite <- app_comm_cons); reflexivity.
Qed.

Definition os_item (l : lol) (nm : ident) (fl : list tfdef) : item :=
  let bfl := map btf fl in
  {| it_toks := opc_toks (bol l) ++ tstruct_toks (ibytes nm) bfl; it_need := fsum bfl + 4; it_fneed := fsum bfl + 6;
     it_upd := fun f => add_struct f (tstruct_of_opc (ol_val (bol l)) (ibytes nm) bfl); it_text := opc_text (bol l) ++ tstruct_text (ibytes nm) bfl; it_blank := true |}.
Definition os_x (l : lol) (nm : ident) (fl : list tfdef) : xitem :=
  {| x_lex := opc_lex l ++ x_lex (st_x nm fl); x_lay := nows (opc_lex l) ++ x_lay (st_x nm fl) |}.

Lemma os_item_ok l nm fl : lol_ok l -> ident_ok nm -> Forall tfdef_ok fl -> item_ok (os_item l nm fl) (os_x l nm fl).
Proof.
  intros Hl Hn Hf. pose proof (st_item_ok nm fl Hn Hf) as Hs. pose proof (keys_of fl Hf) as Hk. pose proof (lol_ok_ol l Hl) as Ho. constructor.
  - intros g f tail c. cbn [os_item it_need it_toks it_upd]. exists (fsum (map btf fl) + S g). split; [lia|].
    replace (fsum (map btf fl) + 4 + g) with (S (S (fsum (map btf fl) + S (S g)))) by lia. apply (top_ostruct _ _ _ _ _ _ _ Ho Hk).
  - intros g out nl tail c. cbn [os_item it_fneed it_toks it_text it_blank]. rewrite andb_true_r. exists (fsum (map btf fl) + S (S g)). split; [lia|].
    replace (fsum (map btf fl) + 6 + g) with (S (S (S (S (fsum (map btf fl) + S (S g)))))) by lia.
    rewrite res_app, fmt_top_opcode, fmt_top_tstruct. rewrite app_assoc. reflexivity.
  - cbn [os_x x_lex os_item it_toks]. rewrite map_app, (opc_toks_tie l Hl). pose proof (ok_toks _ _ Hs) as H. cbn [st_item it_toks] in H. rewrite H. reflexivity.
  - cbn [os_x x_lex]. apply Forall_app. split; [exact (opc_lex_ok l Hl)|exact (ok_lex _ _ Hs)].
  - cbn [os_item it_need it_fneed it_toks]. rewrite app_length. pose proof (ok_need _ _ Hs) as [H1 H2]. cbn [st_item it_need it_fneed it_toks] in H1, H2.
    cbn [opc_toks length]. lia.
  - cbn [os_x x_lay x_lex]. rewrite map_app, nows_snd, (ok_lay _ _ Hs). reflexivity.
  - cbn [os_x x_lay]. apply Forall_app. split; [apply nows_hws|exact (ok_hws _ _ Hs)].
  - intros rest Hr. cbn [os_x x_lay]. rewrite <- app_assoc. apply opc_sep. exact (ok_sep _ _ Hs rest Hr).
  - intros t. cbn [os_x x_lay os_item it_text]. rewrite render_app, (ok_render _ _ Hs), opc_ren. cbn [st_item it_text]. now rewrite app_assoc.
Qed.

Definition om_item (l : lol) (nm : ident) (fl : list tmfdef) : item :=
  let bfl := map btm fl in
  {| it_toks := opc_toks (bol l) ++ tmessage_toks (ibytes nm) bfl; it_need := fsum (map snd bfl) + 4; it_fneed := fsum (map snd bfl) + 6;
     it_upd := fun f => add_message f (tmessage_of_opc (ol_val (bol l)) (ibytes nm) bfl); it_text := opc_text (bol l) ++ tmessage_text (ibytes nm) bfl; it_blank := true |}.
Definition om_x (l : lol) (nm : ident) (fl : list tmfdef) : xitem :=
  {| x_lex := opc_lex l ++ x_lex (mt_x nm fl); x_lay := nows (opc_lex l) ++ x_lay (mt_x nm fl) |}.

Lemma om_item_ok l nm fl : lol_ok l -> ident_ok nm -> Forall tmfdef_ok fl -> tmfs_ok [] (map btm fl) -> item_ok (om_item l nm fl) (om_x l nm fl).
Proof.
  intros Hl Hn Hf Hm. pose proof (mt_item_ok nm fl Hn Hf Hm) as Hs. pose proof (lol_ok_ol l Hl) as Ho. constructor.
  - intros g f tail c. cbn [om_item it_need it_toks it_upd]. exists (fsum (map snd (map btm fl)) + S g). split; [lia|].
    replace (fsum (map snd (map btm fl)) + 4 + g) with (S (S (fsum (map snd (map btm fl)) + S (S g)))) by lia. apply (top_omessage _ _ _ _ _ _ _ Ho Hm).
  - intros g out nl tail c. cbn [om_item it_fneed it_toks it_text it_blank]. rewrite andb_true_r. exists (fsum (map snd (map btm fl)) + S (S g)). split; [lia|].
    replace (fsum (map snd (map btm fl)) + 6 + g) with (S (S (S (S (fsum (map snd (map btm fl)) + S (S g)))))) by lia.
    rewrite res_app, fmt_top_opcode, fmt_top_tmessage. rewrite app_assoc. reflexivity.
  - cbn [om_x x_lex om_item it_toks]. rewrite map_app, (opc_toks_tie l Hl). pose proof (ok_toks _ _ Hs) as H. cbn [mt_item it_toks] in H. rewrite H. reflexivity.
  - cbn [om_x x_lex]. apply Forall_app. split; [exact (opc_lex_ok l Hl)|exact (ok_lex _ _ Hs)].
  - cbn [om_item it_need it_fneed it_toks]. rewrite app_length. pose proof (ok_need _ _ Hs) as [H1 H2]. cbn [mt_item it_need it_fneed it_toks] in H1, H2.
    cbn [opc_toks length]. lia.
  - cbn [om_x x_lay x_lex]. rewrite map_app, nows_snd, (ok_lay _ _ Hs). reflexivity.
  - cbn [om_x x_lay]. apply Forall_app. split; [apply nows_hws|exact (ok_hws _ _ Hs)].
  - intros rest Hr. cbn [om_x x_lay]. rewrite <- app_assoc. apply opc_sep. exact (ok_sep _ _ Hs rest Hr).
  - intros t. cbn [om_x x_lay om_item it_text]. rewrite render_app, (ok_render _ _ Hs), opc_ren. cbn [mt_item it_text]. now rewrite app_assoc.
Qed.
