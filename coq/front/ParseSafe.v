(* The parser model never reaches a panic: the only panics of the front end are the tokenizer's (excluded by TokSafe.v) and the
   shift evaluator's (excluded since negative counts are errors).  For EVERY input and failing-reader flag. *)
From Coq Require Import List NArith ZArith Bool Arith Lia.
Require Import Bebop.front.Tok Bebop.front.Parse Bebop.front.TokSafe.
Import ListNotations.

Definition safe_m {A} (m : M A) : Prop :=
  forall s, no_np (rs s) -> match m s with PPanic => False | POk _ s' => no_np (rs s') | _ => True end.

Lemma safe_ret {A} (a : A) : safe_m (ret a).
Proof. intros s H. exact H. Qed.
Lemma safe_fail {A} : safe_m (@fail A).
Proof. intros s H. exact I. Qed.
Lemma safe_nofuel {A} : safe_m (@nofuel A).
Proof. intros s H. exact I. Qed.
Lemma safe_bind {A B} (m : M A) (f : A -> M B) : safe_m m -> (forall a, safe_m (f a)) -> safe_m (bind m f).
Proof.
  intros Hm Hf s H. unfold bind. specialize (Hm s H). destruct (m s) as [a s'| | | |]; auto. apply (Hf a s' Hm).
Qed.
Lemma safe_p_next : safe_m p_next.
Proof.
  intros s H. unfold p_next. destruct (keep s); [exact H|]. destruct (rs s) as [|[t e|e|] r] eqn:E; cbn [rs].
  - exact I.
  - intros Hin. apply H. right. exact Hin.
  - intros Hin. apply H. right. exact Hin.
  - apply H. left. reflexivity.
Qed.
Lemma safe_p_unnext : safe_m p_unnext. Proof. intros s H. exact H. Qed.
Lemma safe_p_tok : safe_m p_tok. Proof. intros s H. exact H. Qed.
Lemma safe_p_kind : safe_m p_kind. Proof. intros s H. exact H. Qed.
Lemma safe_p_haserr : safe_m p_haserr. Proof. intros s H. exact H. Qed.

Create HintDb safe.
#[export] Hint Resolve safe_ret safe_fail safe_nofuel safe_p_next safe_p_unnext safe_p_tok safe_p_kind safe_p_haserr : safe.

Ltac sm :=
  repeat first
    [ solve [auto with safe]
    | apply safe_bind; [|intro]
    | match goal with |- safe_m (if ?c then _ else _) => destruct c end
    | match goal with |- safe_m (let '(_, _) := ?x in _) => destruct x end
    | match goal with |- safe_m (match ?x with _ => _ end) => destruct x end
    | progress cbv zeta ].

Lemma safe_expect_any_of_next ks : safe_m (expect_any_of_next ks).
Proof. unfold expect_any_of_next. sm. Qed.
#[export] Hint Resolve safe_expect_any_of_next : safe.
Lemma safe_expect_next ks : safe_m (expect_next ks).
Proof. induction ks as [|k ks IH]; cbn [expect_next]; sm. Qed.
#[export] Hint Resolve safe_expect_next : safe.
Lemma safe_opt_newline : safe_m opt_newline.
Proof. unfold opt_newline. sm. Qed.
#[export] Hint Resolve safe_opt_newline : safe.
Lemma safe_read_until_semi g acc : safe_m (read_until_semi g acc).
Proof. revert acc. induction g as [|g IH]; intros acc; cbn [read_until_semi]; sm. Qed.
#[export] Hint Resolve safe_read_until_semi : safe.

(* the evaluator never panics: a negative shift count is an error *)
Lemma eval_no_panic uns bits opts e : eval uns bits opts e <> EvPanic.
Proof.
  induction e as [t|t|e IH|op l IHl r IHr]; cbn [eval].
  - destruct (find_opt _ opts); discriminate.
  - destruct uns; [destruct (parse_uint _ _ _)|destruct (parse_int _ _ _)]; discriminate.
  - exact IH.
  - destruct (eval uns bits opts l) as [a| |]; [|discriminate|contradiction].
    destruct (eval uns bits opts r) as [b| |]; [|discriminate|contradiction].
    repeat match goal with |- context [if ?c then _ else _] => destruct c end; discriminate.
Qed.

Lemma safe_read_enum_value g prev bf uns bits : safe_m (read_enum_value g prev bf uns bits).
Proof.
  unfold read_enum_value. apply safe_bind; [auto with safe|intros _]. destruct (negb bf); [sm|].
  apply safe_bind; [auto with safe|intros toks]. destruct (parse_expr _ toks) as [e|]; [|sm].
  pose proof (eval_no_panic uns bits prev e) as H. destruct (eval uns bits prev e); [sm|sm|contradiction].
Qed.
#[export] Hint Resolve safe_read_enum_value : safe.
Lemma safe_read_deprecated : safe_m read_deprecated.
Proof. unfold read_deprecated. sm. Qed.
#[export] Hint Resolve safe_read_deprecated : safe.
Lemma safe_skip_eol g : safe_m (skip_eol_comments g).
Proof. induction g as [|g IH]; cbn [skip_eol_comments]; sm. Qed.
#[export] Hint Resolve safe_skip_eol : safe.
Lemma safe_read_enum_loop g : forall bf uns bits opts cm dm dep, safe_m (read_enum_loop g bf uns bits opts cm dm dep).
Proof. induction g as [|g IH]; intros; cbn [read_enum_loop]; sm. Qed.
#[export] Hint Resolve safe_read_enum_loop : safe.
Lemma safe_read_enum g bf : safe_m (read_enum g bf).
Proof. unfold read_enum. sm. Qed.
#[export] Hint Resolve safe_read_enum : safe.
Lemma safe_array_suffix g : forall ft, safe_m (array_suffix g ft).
Proof. induction g as [|g IH]; intros; cbn [array_suffix]; sm. Qed.
#[export] Hint Resolve safe_array_suffix : safe.
Lemma safe_read_field_type g : safe_m (read_field_type g).
Proof. induction g as [|g IH]; cbn [read_field_type]; sm. Qed.
#[export] Hint Resolve safe_read_field_type : safe.
Lemma safe_read_struct_loop g : forall fs cm tags dm dep, safe_m (read_struct_loop g fs cm tags dm dep).
Proof. induction g as [|g IH]; intros; cbn [read_struct_loop]; sm. Qed.
#[export] Hint Resolve safe_read_struct_loop : safe.
Lemma safe_read_struct g : safe_m (read_struct g).
Proof. unfold read_struct. sm. Qed.
#[export] Hint Resolve safe_read_struct : safe.
Lemma safe_read_message_loop g : forall fs cm tags dm dep, safe_m (read_message_loop g fs cm tags dm dep).
Proof. induction g as [|g IH]; intros; cbn [read_message_loop]; sm. Qed.
#[export] Hint Resolve safe_read_message_loop : safe.
Lemma safe_read_message g : safe_m (read_message g).
Proof. unfold read_message. sm. Qed.
#[export] Hint Resolve safe_read_message : safe.
Lemma safe_read_union_loop g : forall fs cm tags dm dep, safe_m (read_union_loop g fs cm tags dm dep).
Proof. induction g as [|g IH]; intros; cbn [read_union_loop]; sm. Qed.
#[export] Hint Resolve safe_read_union_loop : safe.
Lemma safe_read_union g : safe_m (read_union g).
Proof. unfold read_union. sm. Qed.
#[export] Hint Resolve safe_read_union : safe.
Lemma safe_read_const g : safe_m (read_const g).
Proof. unfold read_const. sm. Qed.
#[export] Hint Resolve safe_read_const : safe.
Lemma safe_read_opcode : safe_m read_opcode.
Proof. unfold read_opcode. sm. Qed.
#[export] Hint Resolve safe_read_opcode : safe.
Lemma safe_top_loop g : forall f cm opc ro bf, safe_m (top_loop g f cm opc ro bf).
Proof. induction g as [|g IH]; intros; cbn [top_loop]; sm. Qed.

(* ReadFile on the model: for every input, with a reader that fails or not, the result is a File, an error or (never
   observed; not excluded here) fuel exhaustion - not a panic *)
Theorem read_file_never_panics input fails : read_file input fails <> PPanic.
Proof.
  unfold read_file. intros E.
  pose proof (safe_top_loop (2 * (length input + margin) + 8)
    {| structs := []; messages := []; enums := []; unions := []; consts := []; imports := []; gopackage := [] |} [] 0%N false false) as H.
  specialize (H {| rs := next_results (length input + margin)
                      {| buf := {| rest := input; lastByte := None; lastRune := None; failing := fails |}; errs := [] |};
                   cur := tok0; keep := false; perrs := [] |}).
  cbn [rs] in H. specialize (H (next_results_no_np _ _)). rewrite E in H. exact H.
Qed.
Print Assumptions read_file_never_panics.
