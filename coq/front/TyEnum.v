(* Typed enums in the inversion theorems: `enum E : T { A = 1; ... }` for every integer base type T, members with plain
   decimal values in range (parse_uint / parse_int at T's width) - one more item of the framework of GenInv.v. *)
From Coq Require Import List NArith ZArith Bool Arith Lia.
Require Import Bebop.front.Tok Bebop.front.Parse Bebop.front.Fmt Bebop.front.TokInv Bebop.front.LexInv Bebop.front.ParseInv Bebop.front.FmtInv Bebop.front.MsgInv.
Require Import Bebop.front.GenInv Bebop.front.Items Bebop.front.TyInv Bebop.front.TyItems.
Import ListNotations.

Definition colonT : token := {| kind := kColon; concrete := [58%N] |}.

(* the base type: its name, width, signedness - as is_uint_prim / is_int_prim see it *)
Definition base_ok (tname : bytes) (uns : bool) (bits : N) : Prop :=
  if uns then is_uint_prim tname = Some bits else is_uint_prim tname = None /\ is_int_prim tname = Some bits.

Definition tem_opt (uns : bool) (m : emember) : enumopt :=
  if uns then {| o_name := fst m; o_comment := []; o_depmsg := []; o_value := 0%Z; o_uvalue := snd (snd m); o_dep := false |}
  else {| o_name := fst m; o_comment := []; o_depmsg := []; o_value := Z.of_N (snd (snd m)); o_uvalue := 0%N; o_dep := false |}.
Definition tem_ok (uns : bool) (bits : N) (m : emember) : Prop :=
  if uns then parse_uint true bits (fst (snd m)) = Some (snd (snd m)) else parse_int true bits (fst (snd m)) = Some (Z.of_N (snd (snd m))).
Definition tems_ok (uns : bool) (bits : N) (ml : list emember) : Prop := Forall (tem_ok uns bits) ml.

Arguments parse_uint : simpl never.
Arguments parse_int : simpl never.

Lemma tenum_loop_member uns bits m g opts tail :
  tem_ok uns bits m ->
  read_enum_loop (S (S g)) false uns bits opts [] [] false (mk (res (em_toks m) tail) nlT false)
  = read_enum_loop g false uns bits (opts ++ [tem_opt uns m]) [] [] false (mk tail nlT false).
Proof.
  destruct m as [nm [ds v]]. unfold em_toks, tem_opt, tem_ok, res, mk. cbn [map app fst snd]. intros Hp.
  destruct uns; cbn; unfold read_enum_value; cbn; unfold bind at 1; unfold bind at 1; unfold bind at 1; cbn; rewrite Hp; reflexivity.
Qed.

Lemma tenum_loop_members uns bits : forall ml g opts tail, tems_ok uns bits ml ->
  read_enum_loop (2 * length ml + g) false uns bits opts [] [] false (mk (res (ems_toks ml) tail) nlT false)
  = read_enum_loop g false uns bits (opts ++ map (tem_opt uns) ml) [] [] false (mk tail nlT false).
Proof.
  induction ml as [|m ml IH]; intros g opts tail Hok.
  - cbn [length Nat.mul plus ems_toks flat_map map res app]. now rewrite app_nil_r.
  - inversion Hok as [|? ? Hm Hr]; subst. cbn [ems_toks flat_map]. fold (ems_toks ml). rewrite res_app.
    replace (2 * length (m :: ml) + g) with (S (S (2 * length ml + g))) by (cbn [length]; lia).
    rewrite (tenum_loop_member uns bits m _ opts _ Hm).
    rewrite (IH _ _ _ Hr). cbn [map]. rewrite <- app_assoc. reflexivity.
Qed.

Lemma tenum_loop_close uns bits g opts tail :
  read_enum_loop (S (S g)) false uns bits opts [] [] false (mk (res [closeT] tail) nlT false) = POk opts (mk tail closeT false).
Proof. reflexivity. Qed.

Definition tenum_toks (nm tname : bytes) (ml : list emember) : list token :=
  [enumT; idT nm; colonT; idT tname; openT; nlT] ++ ems_toks ml ++ [closeT; nlT].
Definition tenum_of (nm tname : bytes) (uns : bool) (ml : list emember) : enum_ :=
  {| e_name := nm; e_comment := []; e_opts := map (tem_opt uns) ml; e_simple := tname; e_unsigned := uns |}.

Lemma read_tenum_head g nm tname uns bits tail c : base_ok tname uns bits ->
  read_enum g false (mk (res [idT nm; colonT; idT tname; openT; nlT] tail) c false)
  = bind (read_enum_loop g false uns bits [] [] [] false)
         (fun opts => ret {| e_name := nm; e_comment := []; e_opts := opts; e_simple := tname; e_unsigned := uns |}) (mk tail nlT false).
Proof.
  intros Hb. unfold read_enum, res. cbn [map app]. 
  cbv beta iota zeta delta [bind p_next p_haserr p_kind p_tok p_unnext ret fail kin existsb expect_any_of_next expect_next opt_newline mk keep rs cur perrs].
  cbn [N.eqb Pos.eqb orb andb negb kind concrete kIdent kColon kOpenCu kNewline idT colonT openT nlT].
  unfold base_ok in Hb. destruct uns.
  - rewrite Hb. cbv beta iota zeta delta [bind p_next p_haserr p_kind p_tok p_unnext ret fail mk keep rs cur perrs].
    cbn [N.eqb Pos.eqb orb andb negb kind concrete kNewline nlT]. rewrite Hb. reflexivity.
  - destruct Hb as [Hu Hi]. rewrite Hu, Hi. cbv beta iota zeta delta [bind p_next p_haserr p_kind p_tok p_unnext ret fail mk keep rs cur perrs].
    cbn [N.eqb Pos.eqb orb andb negb kind concrete kNewline nlT]. rewrite Hu, Hi. reflexivity.
Qed.

Lemma read_tenum_ok nm tname uns bits ml g tail c : base_ok tname uns bits -> tems_ok uns bits ml ->
  read_enum (2 * length ml + S (S g)) false (mk (res ([idT nm; colonT; idT tname; openT; nlT] ++ ems_toks ml ++ [closeT]) tail) c false)
  = POk (tenum_of nm tname uns ml) (mk tail closeT false).
Proof.
  intros Hb Hok. rewrite res_app, (read_tenum_head _ nm tname uns bits _ _ Hb). unfold bind. rewrite res_app.
  rewrite (tenum_loop_members uns bits ml (S (S g)) [] _ Hok), tenum_loop_close. reflexivity.
Qed.

Lemma top_tenum nm tname uns bits ml g f tail c : base_ok tname uns bits -> tems_ok uns bits ml ->
  top_loop (S (2 * length ml + S (S g))) f [] 0%N false false (mk (res (tenum_toks nm tname ml) tail) c false)
  = top_loop (2 * length ml + S g) (add_enum f (tenum_of nm tname uns ml)) [] 0%N false false (mk tail nlT false).
Proof.
  intros Hb Hok. unfold tenum_toks.
  change ([enumT; idT nm; colonT; idT tname; openT; nlT] ++ ems_toks ml ++ [closeT; nlT])
    with ([enumT] ++ ([idT nm; colonT; idT tname; openT; nlT] ++ ems_toks ml ++ [closeT] ++ [nlT])).
  rewrite res_app, top_enum_head. unfold bind.
  replace ([idT nm; colonT; idT tname; openT; nlT] ++ ems_toks ml ++ [closeT] ++ [nlT])
    with (([idT nm; colonT; idT tname; openT; nlT] ++ ems_toks ml ++ [closeT]) ++ [nlT]) by (rewrite <- !app_assoc; reflexivity).
  rewrite res_app, (read_tenum_ok nm tname uns bits ml g _ _ Hb Hok). cbn [e_name e_opts e_simple e_unsigned tenum_of].
  replace (2 * length ml + S (S g)) with (S (2 * length ml + S g)) by lia.
  rewrite top_newline. reflexivity.
Qed.

(* ---------- the formatter ---------- *)
Definition tenum_text (nm tname : bytes) (ml : list emember) : bytes :=
  [101; 110; 117; 109]%N ++ sp ++ nm ++ sp ++ [58%N] ++ sp ++ tname ++ sp ++ [123%N] ++ nlb ++ ems_text ml ++ [125%N] ++ nlb.

Lemma fmt_tenum_head g nm tname tail :
  format_enum (S g) (mk (res [idT nm; colonT; idT tname; openT; nlT] tail) enumT false)
  = format_enum_loop (S g) ((((([101; 110; 117; 109]%N ++ sp ++ nm) ++ sp ++ [58%N]) ++ sp ++ tname) ++ sp ++ [123%N]) ++ nlb) (mk (res [nlT] tail) openT false).
Proof. reflexivity. Qed.

Lemma fmt_tenum_ok nm tname ml g tail :
  format_enum (S (2 * length ml + S (S g))) (mk (res ([idT nm; colonT; idT tname; openT; nlT] ++ ems_toks ml ++ [closeT]) tail) enumT false)
  = POk (tenum_text nm tname ml) (mk tail closeT false).
Proof.
  rewrite res_app, fmt_tenum_head, fmt_enum_nl, res_app, fmt_emembers, fmt_eclose. unfold tenum_text. rewrite <- !app_assoc. reflexivity.
Qed.

Lemma fmt_top_tenum nm tname ml g out nl tail c :
  format_loop (S (S (2 * length ml + S (S g)))) out false nl (mk (res (tenum_toks nm tname ml) tail) c false)
  = format_loop (2 * length ml + S (S g)) ((if nl then out ++ nlb else out) ++ tenum_text nm tname ml) false true (mk tail nlT false).
Proof.
  unfold tenum_toks.
  change ([enumT; idT nm; colonT; idT tname; openT; nlT] ++ ems_toks ml ++ [closeT; nlT])
    with ([enumT] ++ ([idT nm; colonT; idT tname; openT; nlT] ++ ems_toks ml ++ [closeT] ++ [nlT])).
  rewrite res_app, fmt_top_enum_head. unfold bind.
  replace ([idT nm; colonT; idT tname; openT; nlT] ++ ems_toks ml ++ [closeT] ++ [nlT])
    with (([idT nm; colonT; idT tname; openT; nlT] ++ ems_toks ml ++ [closeT]) ++ [nlT]) by (rewrite <- !app_assoc; reflexivity).
  rewrite res_app, fmt_tenum_ok, fmt_top_newline. reflexivity.
Qed.

(* ---------- the item ---------- *)
Definition colonL : lexeme := T1 58%N kColon.
Definition te_item (nm tname : ident) (uns : bool) (ml : list edef) : item :=
  let bml := map bem ml in
  {| it_toks := tenum_toks (ibytes nm) (ibytes tname) bml; it_need := 2 * length bml + 3; it_fneed := 2 * length bml + 4;
     it_upd := fun f => add_enum f (tenum_of (ibytes nm) (ibytes tname) uns bml); it_text := tenum_text (ibytes nm) (ibytes tname) bml; it_blank := true |}.
Definition te_x (nm tname : ident) (ml : list edef) : xitem :=
  {| x_lex := [kwE; Wi nm; colonL; Wi tname; ocuL; NLx] ++ flat_map em_lex ml ++ [ccuL; NLx];
     x_lay := [([], kwE); (sp, Wi nm); (sp, colonL); (sp, Wi tname); (sp, ocuL); ([], NLx)] ++ flat_map em_layout ml ++ [([], ccuL); ([], NLx)] |}.

Lemma em_toks_tie m : ident_ok (fst m) /\ idx_ok (snd m) -> map tok_of (em_lex m) = em_toks (bem m).
Proof. intros [Hi Hx]. destruct m as [n x]. cbn [em_lex em_toks bem fst snd map] in *. rewrite (tok_of_Wi n Hi). reflexivity. Qed.
Lemma em_lex_ok m : ident_ok (fst m) /\ idx_ok (snd m) -> Forall lex_ok (em_lex m).
Proof. intros [Hi Hx]. destruct m as [n x]. cbn [em_lex fst snd] in *. constructor; [now apply lex_ok_Wi|]. constructor; [reflexivity|]. constructor; [exact Hx|]. repeat constructor. Qed.
Lemma em_lay m : map snd (em_layout m) = em_lex m. Proof. reflexivity. Qed.
Lemma em_hws m : Forall (fun p => hws (fst p)) (em_layout m).
Proof. unfold em_layout. constructor; [exact hws_tab|]. constructor; [exact hws_sp|]. constructor; [exact hws_sp|]. constructor; [exact hws_nil|]. constructor; [exact hws_nil|constructor]. Qed.
Lemma em_sep m rest : sep_ok rest -> sep_ok (em_layout m ++ rest).
Proof.
  intros Hr. cbn [em_layout app sep_ok needs_end Wi NLx]. split; [left; discriminate|]. split; [exact I|].
  split; [right; exists 59%N, kSemi; reflexivity|]. split; [exact I|]. split; [exact I|exact Hr].
Qed.
Lemma em_ren m t : render (em_layout m) t = em_text (bem m) ++ t.
Proof.
  cbn [em_layout render text_of Wi app fst snd NLx]. unfold em_text, bem, xbytes, ibytes. cbn [fst snd].
  repeat (rewrite <- app_assoc || rewrite <- app_comm_cons). reflexivity.
Qed.

Lemma te_item_ok nm tname uns bits ml :
  ident_ok nm -> ident_ok tname -> base_ok (ibytes tname) uns bits ->
  Forall (fun m => ident_ok (fst m) /\ idx_ok (snd m)) ml -> tems_ok uns bits (map bem ml) ->
  item_ok (te_item nm tname uns ml) (te_x nm tname ml).
Proof.
  intros Hn Ht Hb Hm He. constructor.
  - intros g f tail c. cbn [te_item it_need it_toks it_upd]. exists (2 * length (map bem ml) + S g). split; [lia|].
    replace (2 * length (map bem ml) + 3 + g) with (S (2 * length (map bem ml) + S (S g))) by lia. apply (top_tenum _ _ _ _ _ _ _ _ _ Hb He).
  - intros g out nl tail c. cbn [te_item it_fneed it_toks it_text it_blank]. rewrite andb_true_r. exists (2 * length (map bem ml) + S (S g)). split; [lia|].
    replace (2 * length (map bem ml) + 4 + g) with (S (S (2 * length (map bem ml) + S (S g)))) by lia. apply fmt_top_tenum.
  - cbn [te_x x_lex te_item it_toks]. unfold tenum_toks. rewrite !map_app. cbn [map]. rewrite (tok_of_Wi nm Hn), (tok_of_Wi tname Ht).
    rewrite (pf_toks em_lex bem em_toks _ em_toks_tie ml Hm). reflexivity.
  - cbn [te_x x_lex]. cbn [app]. constructor; [cbn [lex_ok kwE]; split; [reflexivity|repeat constructor]|]. constructor; [now apply lex_ok_Wi|].
    constructor; [reflexivity|]. constructor; [now apply lex_ok_Wi|]. constructor; [reflexivity|]. constructor; [reflexivity|].
    apply Forall_app. split; [exact (pf_lex em_lex _ em_lex_ok ml Hm)|]. constructor; [reflexivity|]. constructor; [reflexivity|constructor].
  - cbn [te_item it_need it_fneed it_toks]. unfold tenum_toks. rewrite !app_length, ems_toks_len. cbn [length]. lia.
  - cbn [te_x x_lay x_lex]. rewrite !map_app, (pf_lay em_lex em_layout em_lay). reflexivity.
  - cbn [te_x x_lay]. cbn [app]. constructor; [exact hws_nil|]. do 4 (constructor; [exact hws_sp|]). constructor; [exact hws_nil|].
    apply Forall_app. split; [exact (pf_hws em_layout em_hws ml)|]. constructor; [exact hws_nil|]. constructor; [exact hws_nil|constructor].
  - intros rest Hr. cbn [te_x x_lay]. rewrite <- !app_assoc. cbn [app sep_ok needs_end Wi kwE colonL ocuL NLx].
    split; [left; discriminate|]. split; [left; discriminate|]. split; [exact I|]. split; [left; discriminate|]. split; [exact I|]. split; [exact I|].
    apply (pf_sep em_layout em_sep). cbn [app sep_ok needs_end ccuL NLx]. split; [exact I|]. split; [exact I|exact Hr].
  - intros t. cbn [te_x x_lay te_item it_text]. rewrite !render_app, (pf_ren em_layout bem em_text em_ren).
    cbn [render text_of Wi app NLx kwE colonL ocuL ccuL]. unfold tenum_text, ems_text, ibytes, sp, nlb.
    repeat (rewrite <- app_assoc || rewrite <- app_comm_cons). reflexivity.
Qed.
