(* Scratch: C15_enum / C15_opcode number formatting via the stdlib Decimal / Hexadecimal round trips *)
From Coq Require Import List NArith ZArith Decimal Hexadecimal DecimalN HexadecimalN DecimalZ Lia.
Import ListNotations.

Definition byte := N.
(* Decimal.uint <-> ASCII digit bytes *)
Fixpoint uint_bytes (u : Decimal.uint) : list byte :=
  match u with
  | Decimal.Nil => []
  | Decimal.D0 r => 48%N :: uint_bytes r | Decimal.D1 r => 49%N :: uint_bytes r | Decimal.D2 r => 50%N :: uint_bytes r
  | Decimal.D3 r => 51%N :: uint_bytes r | Decimal.D4 r => 52%N :: uint_bytes r | Decimal.D5 r => 53%N :: uint_bytes r
  | Decimal.D6 r => 54%N :: uint_bytes r | Decimal.D7 r => 55%N :: uint_bytes r | Decimal.D8 r => 56%N :: uint_bytes r
  | Decimal.D9 r => 57%N :: uint_bytes r
  end.
Fixpoint bytes_uint (l : list byte) : option Decimal.uint :=
  match l with
  | [] => Some Decimal.Nil
  | c :: r =>
      match bytes_uint r with
      | None => None
      | Some u =>
          if N.eqb c 48 then Some (Decimal.D0 u) else if N.eqb c 49 then Some (Decimal.D1 u) else if N.eqb c 50 then Some (Decimal.D2 u)
          else if N.eqb c 51 then Some (Decimal.D3 u) else if N.eqb c 52 then Some (Decimal.D4 u) else if N.eqb c 53 then Some (Decimal.D5 u)
          else if N.eqb c 54 then Some (Decimal.D6 u) else if N.eqb c 55 then Some (Decimal.D7 u) else if N.eqb c 56 then Some (Decimal.D8 u)
          else if N.eqb c 57 then Some (Decimal.D9 u) else None
      end
  end.
Lemma bytes_uint_bytes u : bytes_uint (uint_bytes u) = Some u.
Proof. induction u; cbn [uint_bytes bytes_uint]; try reflexivity; rewrite IHu; reflexivity. Qed.

(* %d of an unsigned value, and reading a decimal literal back *)
Definition fmt_d (n : N) : list byte := uint_bytes (N.to_uint n).
Definition parse_dec (l : list byte) : option N := match bytes_uint l with Some u => Some (N.of_uint u) | None => None end.
Theorem parse_fmt_d n : parse_dec (fmt_d n) = Some n.
Proof. unfold parse_dec, fmt_d. rewrite bytes_uint_bytes. f_equal. apply DecimalN.Unsigned.of_to. Qed.

(* %d of a signed value *)
Definition fmt_dz (z : Z) : list byte := match z with Zneg p => 45%N :: fmt_d (Npos p) | _ => fmt_d (Z.to_N z) end.
Definition parse_decz (l : list byte) : option Z :=
  match l with
  | c :: r => if N.eqb c 45 then match parse_dec r with Some n => Some (- Z.of_N n)%Z | None => None end
              else match parse_dec l with Some n => Some (Z.of_N n) | None => None end
  | [] => None
  end.
Lemma uint_bytes_head u : match uint_bytes u with c :: _ => N.eqb c 45 = false | [] => True end.
Proof. destruct u; cbn; auto. Qed.
Lemma uint_bytes_nil u : uint_bytes u = [] -> u = Decimal.Nil.
Proof. destruct u; cbn; auto; discriminate. Qed.
Lemma fmt_d_nonempty n : fmt_d n <> [].
Proof.
  unfold fmt_d, N.to_uint. destruct n as [|p]; [discriminate|]. intros E. apply uint_bytes_nil in E.
  exact (DecimalPos.Unsigned.to_uint_nonnil p E).
Qed.
Theorem parse_fmt_dz z : parse_decz (fmt_dz z) = Some z.
Proof.
  destruct z as [|p|p]; unfold fmt_dz.
  - reflexivity.
  - unfold parse_decz. pose proof (uint_bytes_head (N.to_uint (Z.to_N (Z.pos p)))) as H. pose proof (fmt_d_nonempty (Z.to_N (Z.pos p))) as NE.
    fold (fmt_d (Z.to_N (Z.pos p))) in H. destruct (fmt_d (Z.to_N (Z.pos p))) as [|c r] eqn:E; [contradiction|]. rewrite H, <- E, parse_fmt_d.
    now rewrite Z2N.id.
  - unfold parse_decz. rewrite N.eqb_refl, parse_fmt_d. reflexivity.
Qed.
Print Assumptions parse_fmt_dz.

(* %x and Go's 0x literal, for opcodes *)
Fixpoint hex_bytes (u : Hexadecimal.uint) : list byte :=
  match u with
  | Hexadecimal.Nil => []
  | Hexadecimal.D0 r => 48%N :: hex_bytes r | Hexadecimal.D1 r => 49%N :: hex_bytes r | Hexadecimal.D2 r => 50%N :: hex_bytes r
  | Hexadecimal.D3 r => 51%N :: hex_bytes r | Hexadecimal.D4 r => 52%N :: hex_bytes r | Hexadecimal.D5 r => 53%N :: hex_bytes r
  | Hexadecimal.D6 r => 54%N :: hex_bytes r | Hexadecimal.D7 r => 55%N :: hex_bytes r | Hexadecimal.D8 r => 56%N :: hex_bytes r
  | Hexadecimal.D9 r => 57%N :: hex_bytes r | Hexadecimal.Da r => 97%N :: hex_bytes r | Hexadecimal.Db r => 98%N :: hex_bytes r
  | Hexadecimal.Dc r => 99%N :: hex_bytes r | Hexadecimal.Dd r => 100%N :: hex_bytes r | Hexadecimal.De r => 101%N :: hex_bytes r
  | Hexadecimal.Df r => 102%N :: hex_bytes r
  end.
Definition hexdigit (c : byte) : option (Hexadecimal.uint -> Hexadecimal.uint) :=
  if N.eqb c 48 then Some Hexadecimal.D0 else if N.eqb c 49 then Some Hexadecimal.D1 else if N.eqb c 50 then Some Hexadecimal.D2
  else if N.eqb c 51 then Some Hexadecimal.D3 else if N.eqb c 52 then Some Hexadecimal.D4 else if N.eqb c 53 then Some Hexadecimal.D5
  else if N.eqb c 54 then Some Hexadecimal.D6 else if N.eqb c 55 then Some Hexadecimal.D7 else if N.eqb c 56 then Some Hexadecimal.D8
  else if N.eqb c 57 then Some Hexadecimal.D9 else if N.eqb c 97 then Some Hexadecimal.Da else if N.eqb c 98 then Some Hexadecimal.Db
  else if N.eqb c 99 then Some Hexadecimal.Dc else if N.eqb c 100 then Some Hexadecimal.Dd else if N.eqb c 101 then Some Hexadecimal.De
  else if N.eqb c 102 then Some Hexadecimal.Df else None.
Fixpoint bytes_hex (l : list byte) : option Hexadecimal.uint :=
  match l with
  | [] => Some Hexadecimal.Nil
  | c :: r => match bytes_hex r, hexdigit c with Some u, Some d => Some (d u) | _, _ => None end
  end.
Lemma bytes_hex_bytes u : bytes_hex (hex_bytes u) = Some u.
Proof. induction u; cbn [hex_bytes bytes_hex]; try reflexivity; rewrite IHu; reflexivity. Qed.
Definition fmt_x (n : N) : list byte := hex_bytes (N.to_hex_uint n).
Definition parse_hex (l : list byte) : option N := match bytes_hex l with Some u => Some (N.of_hex_uint u) | None => None end.
Theorem parse_fmt_x n : parse_hex (fmt_x n) = Some n.
Proof. unfold parse_hex, fmt_x. rewrite bytes_hex_bytes. f_equal. apply HexadecimalN.Unsigned.of_to. Qed.
Print Assumptions parse_fmt_x.
