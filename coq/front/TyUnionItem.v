(* The union item on the text level (front/TyUnion.v has the token level): lexemes, canonical layout with the nested bodies
   indented one level deeper, and the item_ok instance. *)
From Coq Require Import List NArith ZArith Bool Arith Lia.
Require Import Bebop.front.Tok Bebop.front.Parse Bebop.front.Fmt Bebop.front.TokInv Bebop.front.LexInv Bebop.front.ParseInv Bebop.front.FmtInv Bebop.front.MsgInv.
Require Import Bebop.front.GenInv Bebop.front.Items Bebop.front.TyInv Bebop.front.TyMsg Bebop.front.TyItems Bebop.front.TyUnion.
Import ListNotations.

(* ---------- fields under any prefix ---------- *)
Definition tfield_layout_px (px : bytes) (f : tfdef) : list (bytes * lexeme) := ty_layout px (fst f) ++ [(sp, Wi (snd f)); ([], semiL); ([], NLx)].
Lemma tf_lay_px px f : map snd (tfield_layout_px px f) = tfield_lex f.
Proof. unfold tfield_layout_px, tfield_lex. now rewrite map_app, ty_layout_lex. Qed.
Lemma tf_hws_px px f : hws px -> Forall (fun p => hws (fst p)) (tfield_layout_px px f).
Proof. intros Hp. unfold tfield_layout_px. apply Forall_app. split; [apply ty_layout_hws; exact Hp|]. constructor; [exact hws_sp|]. constructor; [exact hws_nil|]. constructor; [exact hws_nil|constructor]. Qed.
Lemma tf_sep_px px f rest : sep_ok rest -> sep_ok (tfield_layout_px px f ++ rest).
Proof.
  intros Hr. unfold tfield_layout_px. rewrite <- app_assoc. apply ty_layout_sep.
  - cbn [app sep_ok needs_end Wi semiL NLx]. split; [right; exists 59%N, kSemi; reflexivity|]. split; [exact I|]. split; [exact I|exact Hr].
  - cbn [app ends]. left. discriminate.
Qed.
Lemma tf_ren_px px f t : render (tfield_layout_px px f) t = tfield_text_px px (btf f) ++ t.
Proof.
  unfold tfield_layout_px, tfield_text_px, btf. cbn [fst snd]. rewrite render_app, render_ty. cbn [render text_of Wi semiL NLx].
  unfold ibytes, nlb. repeat (rewrite <- app_assoc || rewrite <- app_comm_cons). reflexivity.
Qed.

Definition tmfield_layout_px (px : bytes) (f : tmfdef) : list (bytes * lexeme) :=
  [(px, Num (xc (fst f)) (xds (fst f))); (sp, Arrow)] ++ ty_layout sp (fst (snd f)) ++ [(sp, Wi (snd (snd f))); ([], semiL); ([], NLx)].
Lemma tmf_lay_px px f : map snd (tmfield_layout_px px f) = tmfield_lex f.
Proof. unfold tmfield_layout_px, tmfield_lex. now rewrite !map_app, ty_layout_lex. Qed.
Lemma tmf_hws_px px f : hws px -> Forall (fun p => hws (fst p)) (tmfield_layout_px px f).
Proof.
  intros Hp. unfold tmfield_layout_px. cbn [app]. constructor; [exact Hp|]. constructor; [exact hws_sp|].
  apply Forall_app. split; [apply ty_layout_hws; exact hws_sp|]. constructor; [exact hws_sp|]. constructor; [exact hws_nil|]. constructor; [exact hws_nil|constructor].
Qed.
Lemma tmf_sep_px px f rest : sep_ok rest -> sep_ok (tmfield_layout_px px f ++ rest).
Proof.
  intros Hr. unfold tmfield_layout_px. rewrite <- !app_assoc. cbn [app sep_ok needs_end]. split; [left; discriminate|]. split; [exact I|].
  apply ty_layout_sep.
  - cbn [app sep_ok needs_end Wi semiL NLx]. split; [right; exists 59%N, kSemi; reflexivity|]. split; [exact I|]. split; [exact I|exact Hr].
  - cbn [app ends]. left. discriminate.
Qed.
Lemma tmf_ren_px px f t : render (tmfield_layout_px px f) t = tmfield_text_px px (btm f) ++ t.
Proof.
  unfold tmfield_layout_px, tmfield_text_px, btm, tm_ds, tm_t, tm_n. cbn [fst snd]. rewrite !render_app. cbn [render text_of]. rewrite render_ty.
  cbn [render text_of Wi semiL NLx]. unfold xbytes, ibytes, sp. repeat (rewrite <- app_assoc || rewrite <- app_comm_cons). reflexivity.
Qed.

(* ---------- union branches ---------- *)
Inductive lub := LUs (x : idx) (nm : ident) (fl : list tfdef) | LUm (x : idx) (nm : ident) (fl : list tmfdef).
Definition bub (b : lub) : ubranch :=
  match b with
  | LUs x nm fl => UBs (xbytes x) (xv x) (ibytes nm) (map btf fl)
  | LUm x nm fl => UBm (xbytes x) (xv x) (ibytes nm) (map btm fl)
  end.
Definition lub_ok (b : lub) : Prop :=
  match b with
  | LUs x nm fl => idx_ok x /\ ident_ok nm /\ Forall tfdef_ok fl
  | LUm x nm fl => idx_ok x /\ ident_ok nm /\ Forall tmfdef_ok fl
  end.
Definition tt2 : bytes := tab ++ tab.
Definition ub_lex (b : lub) : list lexeme :=
  match b with
  | LUs x nm fl => [Num (xc x) (xds x); Arrow; kwS; Wi nm; ocuL; NLx] ++ flat_map tfield_lex fl ++ [ccuL; NLx]
  | LUm x nm fl => [Num (xc x) (xds x); Arrow; kwM; Wi nm; ocuL; NLx] ++ flat_map tmfield_lex fl ++ [ccuL; NLx]
  end.
Definition ub_layout (b : lub) : list (bytes * lexeme) :=
  match b with
  | LUs x nm fl => [(tab, Num (xc x) (xds x)); (sp, Arrow); (sp, kwS); (sp, Wi nm); (sp, ocuL); ([], NLx)] ++ flat_map (tfield_layout_px tt2) fl ++ [(tab, ccuL); ([], NLx)]
  | LUm x nm fl => [(tab, Num (xc x) (xds x)); (sp, Arrow); (sp, kwM); (sp, Wi nm); (sp, ocuL); ([], NLx)] ++ flat_map (tmfield_layout_px tt2) fl ++ [(tab, ccuL); ([], NLx)]
  end.

Lemma hws_tt2 : hws tt2. Proof. repeat constructor. Qed.

Lemma ub_toks_tie b : lub_ok b -> map tok_of (ub_lex b) = ub_toks (bub b).
Proof.
  destruct b as [x nm fl|x nm fl]; cbn [lub_ok ub_lex bub ub_toks]; intros (Hx & Hn & Hf).
  - rewrite !map_app. cbn [map]. rewrite (tok_of_Wi nm Hn), (pf_toks tfield_lex btf tfield_toks tfdef_ok tf_toks fl Hf).
    fold (tfields_toks (map btf fl)). cbn [app]. rewrite <- !app_assoc. reflexivity.
  - rewrite !map_app. cbn [map]. rewrite (tok_of_Wi nm Hn), (pf_toks tmfield_lex btm tmfield_toks tmfdef_ok tmf_toks fl Hf).
    fold (tmfields_toks (map btm fl)). cbn [app]. rewrite <- !app_assoc. reflexivity.
Qed.
Lemma ub_lex_ok b : lub_ok b -> Forall lex_ok (ub_lex b).
Proof.
  destruct b as [x nm fl|x nm fl]; cbn [lub_ok ub_lex]; intros (Hx & Hn & Hf); cbn [app].
  - constructor; [exact Hx|]. constructor; [exact I|]. constructor; [exact kw_struct_ok|]. constructor; [now apply lex_ok_Wi|]. constructor; [reflexivity|]. constructor; [reflexivity|].
    apply Forall_app. split; [exact (pf_lex tfield_lex tfdef_ok tf_lex fl Hf)|]. constructor; [reflexivity|]. constructor; [reflexivity|constructor].
  - constructor; [exact Hx|]. constructor; [exact I|]. constructor; [exact kwM_ok|]. constructor; [now apply lex_ok_Wi|]. constructor; [reflexivity|]. constructor; [reflexivity|].
    apply Forall_app. split; [exact (pf_lex tmfield_lex tmfdef_ok tmf_lex fl Hf)|]. constructor; [reflexivity|]. constructor; [reflexivity|constructor].
Qed.
Lemma ub_lay b : map snd (ub_layout b) = ub_lex b.
Proof.
  destruct b as [x nm fl|x nm fl]; cbn [ub_layout ub_lex]; rewrite !map_app.
  - rewrite (pf_lay tfield_lex (tfield_layout_px tt2) (tf_lay_px tt2)). reflexivity.
  - rewrite (pf_lay tmfield_lex (tmfield_layout_px tt2) (tmf_lay_px tt2)). reflexivity.
Qed.
Lemma ub_hws b : Forall (fun p => hws (fst p)) (ub_layout b).
Proof.
  destruct b as [x nm fl|x nm fl]; cbn [ub_layout]; cbn [app];
    (constructor; [exact hws_tab|]); do 4 (constructor; [exact hws_sp|]); (constructor; [exact hws_nil|]); apply Forall_app; split.
  - exact (pf_hws (tfield_layout_px tt2) (fun f => tf_hws_px tt2 f hws_tt2) fl).
  - constructor; [exact hws_tab|]. constructor; [exact hws_nil|constructor].
  - exact (pf_hws (tmfield_layout_px tt2) (fun f => tmf_hws_px tt2 f hws_tt2) fl).
  - constructor; [exact hws_tab|]. constructor; [exact hws_nil|constructor].
Qed.
Lemma ub_sep b rest : sep_ok rest -> sep_ok (ub_layout b ++ rest).
Proof.
  intros Hr. destruct b as [x nm fl|x nm fl]; cbn [ub_layout]; rewrite <- !app_assoc; cbn [app sep_ok needs_end Wi kwS kwM ocuL NLx].
  - split; [left; discriminate|]. split; [exact I|]. split; [left; discriminate|]. split; [left; discriminate|]. split; [exact I|]. split; [exact I|].
    apply (pf_sep (tfield_layout_px tt2) (tf_sep_px tt2)). cbn [app sep_ok needs_end ccuL NLx]. split; [exact I|]. split; [exact I|exact Hr].
  - split; [left; discriminate|]. split; [exact I|]. split; [left; discriminate|]. split; [left; discriminate|]. split; [exact I|]. split; [exact I|].
    apply (pf_sep (tmfield_layout_px tt2) (tmf_sep_px tt2)). cbn [app sep_ok needs_end ccuL NLx]. split; [exact I|]. split; [exact I|exact Hr].
Qed.
Lemma ub_ren b t : render (ub_layout b) t = ub_text (bub b) ++ t.
Proof.
  destruct b as [x nm fl|x nm fl]; cbn [ub_layout bub ub_text]; rewrite !render_app.
  - rewrite (pf_ren (tfield_layout_px tt2) btf (tfield_text_px tt2) (tf_ren_px tt2)).
    cbn [render text_of Wi app NLx kwS ocuL ccuL]. unfold tstruct_text_px, tfields_text_px, tt2, xbytes, ibytes, sp, nlb, tab. cbn [removelast app].
    repeat (rewrite <- app_assoc || rewrite <- app_comm_cons). reflexivity.
  - rewrite (pf_ren (tmfield_layout_px tt2) btm (tmfield_text_px tt2) (tmf_ren_px tt2)).
    cbn [render text_of Wi app NLx kwM ocuL ccuL]. unfold tmessage_text_px, tmfields_text_px, tt2, xbytes, ibytes, sp, nlb, tab. cbn [removelast app].
    repeat (rewrite <- app_assoc || rewrite <- app_comm_cons). reflexivity.
Qed.

(* ---------- the item ---------- *)
Definition kwU : lexeme := W 117%N [110; 105; 111; 110]%N.
Lemma kwU_ok : lex_ok kwU. Proof. split; [reflexivity|repeat constructor]. Qed.

Definition u_item (nm : ident) (bl : list lub) : item :=
  let bbl := map bub bl in
  {| it_toks := union_toks (ibytes nm) bbl; it_need := usum bbl + 4; it_fneed := ufsum bbl + 4;
     it_upd := fun f => add_union f (union_of (ibytes nm) bbl); it_text := union_text (ibytes nm) bbl; it_blank := true |}.
Definition u_x (nm : ident) (bl : list lub) : xitem :=
  {| x_lex := [kwU; Wi nm; ocuL; NLx] ++ flat_map ub_lex bl ++ [ccuL; NLx];
     x_lay := [([], kwU); (sp, Wi nm); (sp, ocuL); ([], NLx)] ++ flat_map ub_layout bl ++ [([], ccuL); ([], NLx)] |}.

Lemma ub_fuel_le b : ub_fuel b + 4 <= length (ub_toks b).
Proof.
  destruct b as [ds i nm fl|ds i nm fl]; cbn [ub_fuel ub_toks]; rewrite !app_length; cbn [length].
  - fold (tfields_toks fl). pose proof (fsum_le fl). lia.
  - pose proof (fsum_le_m fl) as H. unfold tmfields_toks, tmfield, tfield, bytes, byte in *. lia.
Qed.
Lemma usum_le bl : usum bl <= length (ubs_toks bl) /\ ufsum bl <= length (ubs_toks bl).
Proof.
  induction bl as [|b bl [IH1 IH2]]; [cbn; lia|]. cbn [usum ufsum fold_right ubs_toks flat_map]. fold (usum bl). fold (ufsum bl). fold (ubs_toks bl).
  rewrite app_length. pose proof (ub_fuel_le b). lia.
Qed.

Lemma u_item_ok nm bl : ident_ok nm -> Forall lub_ok bl -> ubs_ok [] (map bub bl) -> bl <> [] -> item_ok (u_item nm bl) (u_x nm bl).
Proof.
  intros Hn Hf Hu Hne. assert (Hne' : map bub bl <> []) by (destruct bl; [congruence|discriminate]). constructor.
  - intros g f tail c. cbn [u_item it_need it_toks it_upd]. exists (usum (map bub bl) + S (S g)). split; [lia|].
    replace (usum (map bub bl) + 4 + g) with (S (usum (map bub bl) + S (S (S g)))) by lia. apply (top_union _ _ _ _ _ _ Hu Hne').
  - intros g out nl tail c. cbn [u_item it_fneed it_toks it_text it_blank]. rewrite andb_true_r. exists (ufsum (map bub bl) + S (S g)). split; [lia|].
    replace (ufsum (map bub bl) + 4 + g) with (S (S (ufsum (map bub bl) + S (S g)))) by lia. apply (fmt_top_union _ _ _ _ _ _ _ Hne').
  - cbn [u_x x_lex u_item it_toks]. unfold union_toks. rewrite !map_app. cbn [map]. rewrite (tok_of_Wi nm Hn).
    rewrite (pf_toks ub_lex bub ub_toks lub_ok ub_toks_tie bl Hf). reflexivity.
  - cbn [u_x x_lex]. cbn [app]. constructor; [exact kwU_ok|]. constructor; [now apply lex_ok_Wi|]. constructor; [reflexivity|]. constructor; [reflexivity|].
    apply Forall_app. split; [exact (pf_lex ub_lex lub_ok ub_lex_ok bl Hf)|]. constructor; [reflexivity|]. constructor; [reflexivity|constructor].
  - cbn [u_item it_need it_fneed it_toks]. unfold union_toks. rewrite !app_length. cbn [length]. destruct (usum_le (map bub bl)). lia.
  - cbn [u_x x_lay x_lex]. rewrite !map_app, (pf_lay ub_lex ub_layout ub_lay). reflexivity.
  - cbn [u_x x_lay]. cbn [app]. constructor; [exact hws_nil|]. constructor; [exact hws_sp|]. constructor; [exact hws_sp|]. constructor; [exact hws_nil|].
    apply Forall_app. split; [exact (pf_hws ub_layout ub_hws bl)|]. constructor; [exact hws_nil|]. constructor; [exact hws_nil|constructor].
  - intros rest Hr. cbn [u_x x_lay]. rewrite <- !app_assoc. cbn [app sep_ok needs_end Wi kwU ocuL NLx].
    split; [left; discriminate|]. split; [left; discriminate|]. split; [exact I|]. split; [exact I|].
    apply (pf_sep ub_layout ub_sep). cbn [app sep_ok needs_end ccuL NLx]. split; [exact I|]. split; [exact I|exact Hr].
  - intros t. cbn [u_x x_lay u_item it_text]. rewrite !render_app, (pf_ren ub_layout bub ub_text ub_ren).
    cbn [render text_of Wi app NLx kwU ocuL ccuL]. unfold union_text, ubs_text, ibytes, sp, nlb.
    repeat (rewrite <- app_assoc || rewrite <- app_comm_cons). reflexivity.
Qed.
