(* The formatter model never reaches a panic, for EVERY input (same argument as front/ParseSafe.v: its only possible
   panic is the tokenizer's). *)
From Coq Require Import List NArith Bool Arith Lia.
Require Import Bebop.front.Tok Bebop.front.Parse Bebop.front.Fmt Bebop.front.TokSafe Bebop.front.ParseSafe.
Import ListNotations.

Lemma safe_conc : safe_m conc. Proof. intros s H. exact H. Qed.
#[export] Hint Resolve safe_conc : safe.
Lemma safe_next_cat n : forall sep acc, safe_m (next_cat n sep acc).
Proof. induction n as [|n IH]; intros; cbn [next_cat]; sm. Qed.
#[export] Hint Resolve safe_next_cat : safe.
Lemma safe_suffix_loop g : forall body, safe_m (suffix_loop g body).
Proof. induction g as [|g IH]; intros; cbn [suffix_loop]; sm. Qed.
#[export] Hint Resolve safe_suffix_loop : safe.
Lemma safe_format_type g : safe_m (format_type g).
Proof. induction g as [|g IH]; cbn [format_type]; sm. Qed.
#[export] Hint Resolve safe_format_type : safe.
Lemma safe_deprecated_line p t : safe_m (deprecated_line p t).
Proof. unfold deprecated_line. sm. Qed.
#[export] Hint Resolve safe_deprecated_line : safe.
Lemma safe_member_loop g : forall acc ao, safe_m (member_loop g acc ao).
Proof. induction g as [|g IH]; intros; cbn [member_loop]; sm. Qed.
#[export] Hint Resolve safe_member_loop : safe.
Lemma safe_format_enum_loop g : forall acc, safe_m (format_enum_loop g acc).
Proof. induction g as [|g IH]; intros; cbn [format_enum_loop]; sm. Qed.
#[export] Hint Resolve safe_format_enum_loop : safe.
Lemma safe_format_enum g : safe_m (format_enum g).
Proof. unfold format_enum. sm. Qed.
Lemma safe_format_const : safe_m format_const.
Proof. unfold format_const. sm. Qed.
#[export] Hint Resolve safe_format_enum safe_format_const : safe.
Lemma safe_format_struct_loop g : forall p acc, safe_m (format_struct_loop g p acc).
Proof. induction g as [|g IH]; intros; cbn [format_struct_loop]; sm. Qed.
#[export] Hint Resolve safe_format_struct_loop : safe.
Lemma safe_format_struct g ro p : safe_m (format_struct g ro p).
Proof. unfold format_struct. sm. Qed.
#[export] Hint Resolve safe_format_struct : safe.
Lemma safe_format_message_loop g : forall p acc, safe_m (format_message_loop g p acc).
Proof. induction g as [|g IH]; intros; cbn [format_message_loop]; sm. Qed.
#[export] Hint Resolve safe_format_message_loop : safe.
Lemma safe_format_message g p : safe_m (format_message g p).
Proof. unfold format_message. sm. Qed.
#[export] Hint Resolve safe_format_message : safe.
Lemma safe_format_union_loop g : forall p acc, safe_m (format_union_loop g p acc).
Proof. induction g as [|g IH]; intros; cbn [format_union_loop]; sm. Qed.
#[export] Hint Resolve safe_format_union_loop : safe.
Lemma safe_format_union g p : safe_m (format_union g p).
Proof. unfold format_union. sm. Qed.
#[export] Hint Resolve safe_format_union : safe.
Lemma safe_format_loop g : forall out ro nl, safe_m (format_loop g out ro nl).
Proof. induction g as [|g IH]; intros; cbn [format_loop]; sm. Qed.

Theorem format_never_panics input : format input <> PPanic.
Proof.
  unfold format. intros E.
  pose proof (safe_format_loop (2 * (length input + margin) + 8) [] false false) as H.
  specialize (H {| rs := next_results (length input + margin)
                      {| buf := {| rest := input; lastByte := None; lastRune := None; failing := false |}; errs := [] |};
                   cur := tok0; keep := false; perrs := [] |}).
  cbn [rs] in H. specialize (H (next_results_no_np _ _)). rewrite E in H. exact H.
Qed.
Print Assumptions format_never_panics.

(* ---------- the formatter model never returns an error, for EVERY input: it has no failure of its own (format.go's only
   error is the writer's) - so for every input it yields a text, unless it runs out of fuel ---------- *)
Definition noerr_m {A} (m : M A) : Prop := forall s, m s <> PErr.
Lemma ne_ret {A} (a : A) : noerr_m (ret a). Proof. intros s. discriminate. Qed.
Lemma ne_nofuel {A} : noerr_m (@nofuel A). Proof. intros s. discriminate. Qed.
Lemma ne_bind {A B} (m : M A) (f : A -> M B) : noerr_m m -> (forall a, noerr_m (f a)) -> noerr_m (bind m f).
Proof. intros Hm Hf s. unfold bind. specialize (Hm s). destruct (m s) as [a s'| | | |]; try discriminate; [apply Hf|congruence]. Qed.
Lemma ne_p_next : noerr_m p_next.
Proof. intros s. unfold p_next. destruct (keep s); [discriminate|]. destruct (rs s) as [|[t e|e|] r]; discriminate. Qed.
Lemma ne_p_unnext : noerr_m p_unnext. Proof. intros s. discriminate. Qed.
Lemma ne_p_tok : noerr_m p_tok. Proof. intros s. discriminate. Qed.
Lemma ne_p_kind : noerr_m p_kind. Proof. intros s. discriminate. Qed.
Lemma ne_conc : noerr_m conc. Proof. intros s. discriminate. Qed.
Create HintDb noerr.
#[export] Hint Resolve ne_ret ne_nofuel ne_p_next ne_p_unnext ne_p_tok ne_p_kind ne_conc : noerr.
Ltac ne :=
  repeat first
    [ solve [auto with noerr]
    | apply ne_bind; [|intro]
    | match goal with |- noerr_m (if ?c then _ else _) => destruct c end
    | match goal with |- noerr_m (match ?x with _ => _ end) => destruct x end
    | progress cbv zeta ].
Lemma ne_next_cat n : forall sep acc, noerr_m (next_cat n sep acc).
Proof. induction n as [|n IH]; intros; cbn [next_cat]; ne. Qed.
#[export] Hint Resolve ne_next_cat : noerr.
Lemma ne_suffix_loop g : forall body, noerr_m (suffix_loop g body).
Proof. induction g as [|g IH]; intros; cbn [suffix_loop]; ne. Qed.
#[export] Hint Resolve ne_suffix_loop : noerr.
Lemma ne_format_type g : noerr_m (format_type g).
Proof. induction g as [|g IH]; cbn [format_type]; ne. Qed.
#[export] Hint Resolve ne_format_type : noerr.
Lemma ne_deprecated_line p t : noerr_m (deprecated_line p t).
Proof. unfold deprecated_line. ne. Qed.
#[export] Hint Resolve ne_deprecated_line : noerr.
Lemma ne_member_loop g : forall acc ao, noerr_m (member_loop g acc ao).
Proof. induction g as [|g IH]; intros; cbn [member_loop]; ne. Qed.
#[export] Hint Resolve ne_member_loop : noerr.
Lemma ne_format_enum_loop g : forall acc, noerr_m (format_enum_loop g acc).
Proof. induction g as [|g IH]; intros; cbn [format_enum_loop]; ne. Qed.
#[export] Hint Resolve ne_format_enum_loop : noerr.
Lemma ne_format_enum g : noerr_m (format_enum g). Proof. unfold format_enum. ne. Qed.
Lemma ne_format_const : noerr_m format_const. Proof. unfold format_const. ne. Qed.
#[export] Hint Resolve ne_format_enum ne_format_const : noerr.
Lemma ne_format_struct_loop g : forall p acc, noerr_m (format_struct_loop g p acc).
Proof. induction g as [|g IH]; intros; cbn [format_struct_loop]; ne. Qed.
#[export] Hint Resolve ne_format_struct_loop : noerr.
Lemma ne_format_struct g ro p : noerr_m (format_struct g ro p). Proof. unfold format_struct. ne. Qed.
#[export] Hint Resolve ne_format_struct : noerr.
Lemma ne_format_message_loop g : forall p acc, noerr_m (format_message_loop g p acc).
Proof. induction g as [|g IH]; intros; cbn [format_message_loop]; ne. Qed.
#[export] Hint Resolve ne_format_message_loop : noerr.
Lemma ne_format_message g p : noerr_m (format_message g p). Proof. unfold format_message. ne. Qed.
#[export] Hint Resolve ne_format_message : noerr.
Lemma ne_format_union_loop g : forall p acc, noerr_m (format_union_loop g p acc).
Proof. induction g as [|g IH]; intros; cbn [format_union_loop]; ne. Qed.
#[export] Hint Resolve ne_format_union_loop : noerr.
Lemma ne_format_union g p : noerr_m (format_union g p). Proof. unfold format_union. ne. Qed.
#[export] Hint Resolve ne_format_union : noerr.
Lemma ne_format_loop g : forall out ro nl, noerr_m (format_loop g out ro nl).
Proof. induction g as [|g IH]; intros; cbn [format_loop]; ne. Qed.

Theorem format_never_errs input : format input <> PErr.
Proof. unfold format. apply ne_format_loop. Qed.
Print Assumptions format_never_errs.
