(* Whatever File ReadFile returns - for EVERY input - has well-formed indices: within each message (top-level or a union
   branch) the field indices are distinct and none is 0; within each union the branch indices are distinct.  (C13's clauses
   "duplicate message or union indices, a message index of zero": such schemas are rejected by ReadFile itself.) *)
From Coq Require Import List NArith ZArith Bool Arith Lia.
Require Import Bebop.front.Tok Bebop.front.Parse.
Import ListNotations.

Definition post {A} (m : M A) (Q : A -> Prop) : Prop := forall s, match m s with POk a _ => Q a | _ => True end.
Lemma post_ret {A} (a : A) (Q : A -> Prop) : Q a -> post (ret a) Q. Proof. intros H s. exact H. Qed.
Lemma post_fail {A} (Q : A -> Prop) : post (@fail A) Q. Proof. intros s. exact I. Qed.
Lemma post_nofuel {A} (Q : A -> Prop) : post (@nofuel A) Q. Proof. intros s. exact I. Qed.
Lemma post_panic {A} (Q : A -> Prop) : post (fun _ : pst => @PPanic A) Q. Proof. intros s. exact I. Qed.
Lemma post_bind {A B} (m : M A) (f : A -> M B) (Q : A -> Prop) (R : B -> Prop) :
  post m Q -> (forall a, Q a -> post (f a) R) -> post (bind m f) R.
Proof. intros Hm Hf s. unfold bind. specialize (Hm s). destruct (m s) as [a s'| | | |]; auto. exact (Hf a Hm s'). Qed.
Lemma post_bind_any {A B} (m : M A) (f : A -> M B) (R : B -> Prop) : (forall a, post (f a) R) -> post (bind m f) R.
Proof. intros Hf s. unfold bind. destruct (m s) as [a s'| | | |]; auto. exact (Hf a s'). Qed.

(* indices of a message body: distinct, none is 0 *)
Definition idx_wf {A} (fs : list (N * A)) : Prop := NoDup (map fst fs) /\ ~ In 0%N (map fst fs).
Lemma has_idx_false_in {A} i (fs : list (N * A)) : has_idx i fs = false -> ~ In i (map fst fs).
Proof.
  unfold has_idx. intros H Hin. apply in_map_iff in Hin. destruct Hin as (p & <- & Hp).
  assert (existsb (fun p0 : N * A => N.eqb (fst p0) (fst p)) fs = true) by (apply existsb_exists; exists p; split; [exact Hp|apply N.eqb_refl]). congruence.
Qed.
Lemma NoDup_snoc {A} (l : list A) x : NoDup l -> ~ In x l -> NoDup (l ++ [x]).
Proof.
  induction 1 as [|y l Hy Hn IH]; intros Hx; cbn [app]; [constructor; [intros []|constructor]|].
  constructor; [|apply IH; intros H; apply Hx; now right].
  intros Hin. apply in_app_or in Hin. destruct Hin as [Hin|[E|[]]]; [auto|]. apply Hx. left. congruence.
Qed.
Lemma idx_wf_snoc {A} (fs : list (N * A)) i x : idx_wf fs -> N.eqb i 0 = false -> has_idx i fs = false -> idx_wf (fs ++ [(i, x)]).
Proof.
  intros [Hn Hz] Ez Eh. apply N.eqb_neq in Ez. pose proof (has_idx_false_in i fs Eh) as Hni. unfold idx_wf. rewrite map_app. cbn [map fst]. split.
  - apply NoDup_snoc; assumption.
  - intros Hin. apply in_app_or in Hin. destruct Hin as [Hin|[E|[]]]; [auto|congruence].
Qed.

Ltac pw0 :=
  first
    [ apply post_fail | apply post_nofuel | apply post_panic
    | match goal with |- post (if ?c then _ else _) _ => destruct c eqn:? end
    | match goal with |- post (match ?x with _ => _ end) _ => destruct x eqn:? end
    | match goal with |- post (let '(_, _) := ?x in _) _ => destruct x eqn:? end
    | progress cbv zeta ].

Lemma msg_loop_wf : forall g fs cm tags dm dep, idx_wf fs -> post (read_message_loop g fs cm tags dm dep) idx_wf.
Proof.
  induction g as [|g IH]; intros fs cm tags dm dep Hw; [apply post_nofuel|]. cbn [read_message_loop].
  repeat first
    [ pw0
    | apply post_ret; exact Hw
    | apply IH; first [exact Hw | apply idx_wf_snoc; assumption]
    | apply post_bind_any; intro ].
Qed.
Lemma read_message_wf g : post (read_message g) (fun m => idx_wf (m_fields m)).
Proof.
  unfold read_message. apply post_bind_any; intros toks. apply post_bind_any; intros _.
  apply (post_bind _ _ idx_wf); [apply msg_loop_wf; split; [constructor|intros []]|]. intros fs Hf. apply post_ret. exact Hf.
Qed.

(* a union body: distinct branch indices; message branches well-formed *)
Definition ubranch_wf (p : N * ufield) : Prop := match u_msg (snd p) with Some m => idx_wf (m_fields m) | None => True end.
Definition union_wf (fs : list (N * ufield)) : Prop := NoDup (map fst fs) /\ Forall ubranch_wf fs.
Lemma union_wf_snoc fs i uf : union_wf fs -> has_idx i fs = false -> ubranch_wf (i, uf) -> union_wf (fs ++ [(i, uf)]).
Proof.
  intros [Hn Hb] Eh Hu. pose proof (has_idx_false_in i fs Eh) as Hni. unfold union_wf. rewrite map_app. cbn [map fst]. split.
  - apply NoDup_snoc; assumption.
  - apply Forall_app. split; [exact Hb|constructor; [exact Hu|constructor]].
Qed.

Lemma union_loop_wf : forall g fs cm tags dm dep, union_wf fs -> post (read_union_loop g fs cm tags dm dep) union_wf.
Proof.
  induction g as [|g IH]; intros fs cm tags dm dep Hw; [apply post_nofuel|]. cbn [read_union_loop].
  repeat first
    [ pw0
    | apply post_ret; exact Hw
    | apply IH; exact Hw
    | match goal with |- post (bind (if _ then _ else _) _) _ =>
        apply (post_bind _ _ (fun uf => ubranch_wf (0%N, uf)));
          [ match goal with |- post (if ?c then _ else _) _ => destruct c end;
            [ apply (post_bind _ _ (fun m => idx_wf (m_fields m))); [apply read_message_wf|intros m Hm; apply post_ret; exact Hm]
            | apply post_bind_any; intros st; apply post_ret; exact I ]
          | intros uf Huf ] end
    | match goal with Huf : ubranch_wf (0%N, ?uf) |- post (read_union_loop _ (_ ++ [(?i, ?uf)]) _ _ _ _) _ =>
        apply IH; apply union_wf_snoc; [exact Hw|assumption|exact Huf] end
    | apply post_bind_any; intro ].
Qed.
Lemma read_union_wf g : post (read_union g) (fun u => union_wf (un_fields u)).
Proof.
  unfold read_union. apply post_bind_any; intros toks. apply post_bind_any; intros _.
  apply (post_bind _ _ union_wf); [apply union_loop_wf; split; constructor|]. intros fs Hf. apply post_ret. exact Hf.
Qed.

(* ---------- the File ---------- *)
Definition file_wf (f : file) : Prop :=
  Forall (fun m => idx_wf (m_fields m)) (messages f) /\ Forall (fun u => union_wf (un_fields u)) (unions f).

Lemma top_loop_wf : forall g f cm opc ro bf, file_wf f -> post (top_loop g f cm opc ro bf) file_wf.
Proof.
  induction g as [|g IH]; intros f cm opc ro bf Hw; [apply post_nofuel|]. cbn [top_loop].
  repeat first
    [ pw0
    | apply post_ret; exact Hw
    | apply IH; exact Hw
    | progress cbv beta
    | match goal with |- post (bind (read_message _) _) _ =>
        apply (post_bind _ _ (fun m => idx_wf (m_fields m))); [apply read_message_wf|intros m Hm] end
    | match goal with |- post (bind (read_union _) _) _ =>
        apply (post_bind _ _ (fun u => union_wf (un_fields u))); [apply read_union_wf|intros u Hu] end
    | match goal with Hm : idx_wf (m_fields ?m) |- post (top_loop _ _ _ _ _ _) _ =>
        apply IH; destruct Hw as [W1 W2]; split; cbn [messages unions]; [apply Forall_app; split; [exact W1|constructor; [exact Hm|constructor]]|exact W2] end
    | match goal with Hu : union_wf (un_fields ?u) |- post (top_loop _ _ _ _ _ _) _ =>
        apply IH; destruct Hw as [W1 W2]; split; cbn [messages unions]; [exact W1|apply Forall_app; split; [exact W2|constructor; [exact Hu|constructor]]] end
    | apply post_bind_any; intro ].
Qed.

Theorem read_file_wf input fails f s : read_file input fails = POk f s -> file_wf f.
Proof.
  intros E. unfold read_file in E.
  pose proof (top_loop_wf (2 * (length input + margin) + 8)
    {| structs := []; messages := []; enums := []; unions := []; consts := []; imports := []; gopackage := [] |} [] 0%N false false
    ltac:(split; constructor)) as H.
  specialize (H {| rs := next_results (length input + margin)
                      {| buf := {| rest := input; lastByte := None; lastRune := None; failing := fails |}; errs := [] |};
                   cur := tok0; keep := false; perrs := [] |}).
  rewrite E in H. exact H.
Qed.
Print Assumptions read_file_wf.
