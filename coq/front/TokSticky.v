(* The tokenizer never forgets an error: every builder only appends to the error list, and Next() removes nothing but the clean
   end-of-input marker it has just recorded.  So once a result of a run carries an error, every later result does. *)
From Coq Require Import List NArith Bool Arith Lia.
Require Import Bebop.front.Tok Bebop.front.TokSafe Bebop.front.TokFuel Bebop.front.TokProgress Bebop.front.TokClean.
Import ListNotations.

Definition pre (l l1 : list ekind) : Prop := exists x, l1 = l ++ x.
Definition extk {A} (s : tstate) (r : res A) : Prop := match r with R _ s1 => pre (errs s) (errs s1) | RPanic => True end.
Lemma pre_refl l : pre l l. Proof. exists []. now rewrite app_nil_r. Qed.
Lemma pre_trans a b c : pre a b -> pre b c -> pre a c.
Proof. intros [x ->] [y ->]. exists (x ++ y). now rewrite app_assoc. Qed.
Lemma pre_add l e : pre l (l ++ [e]). Proof. now exists [e]. Qed.
Lemma extk_eq {A} s s1 (r : res A) : errs s1 = errs s -> extk s1 r -> extk s r.
Proof. unfold extk. intros E. destruct r; [rewrite E|]; auto. Qed.
Lemma rb_errs s r s1 : tr_read_byte s = (r, s1) -> errs s1 = errs s.
Proof. unfold tr_read_byte. destruct (read_byte (buf s)). intros [= _ <-]. reflexivity. Qed.
Lemma ub_errs s s2 : tr_unread_byte s = Some s2 -> errs s2 = errs s.
Proof. unfold tr_unread_byte. destruct (unread_byte (buf s)); [|discriminate]. intros [= <-]. reflexivity. Qed.
Lemma extk_add {A} s s1 e (a : A) : errs s1 = errs s -> extk s (R a (add_err s1 e)).
Proof. intros E. cbn [extk add_err errs]. rewrite E. apply pre_add. Qed.
Lemma extk_same {A} s s1 (a : A) : errs s1 = errs s -> extk s (R a s1).
Proof. intros E. cbn [extk]. rewrite E. apply pre_refl. Qed.

Ltac ex IH E :=
  repeat first
    [ exact I
    | apply (extk_add _ _ _ _ E)
    | apply (extk_same _ _ _ E)
    | apply (extk_eq _ _ _ E); apply IH
    | match goal with |- extk _ (if ?c then _ else _) => destruct c end
    | match goal with |- extk ?s (match tr_unread_byte ?s1 with _ => _ end) =>
        let U := fresh "U" in destruct (tr_unread_byte s1) eqn:U; [apply ub_errs in U; apply extk_same; rewrite U; exact E|exact I] end ].

Lemma number_loop_ext : forall g s conc k a b c d, extk s (number_loop g s conc k a b c d).
Proof.
  induction g as [|g IH]; intros s conc k a b c d; [apply extk_same; reflexivity|]. cbn [number_loop].
  destruct (tr_read_byte s) as [[x|[|]] s1] eqn:E; apply rb_errs in E; ex IH E.
Qed.
Lemma skip_ws_ext : forall g s, extk s (skip_ws g s).
Proof.
  induction g as [|g IH]; intros s; [apply extk_same; reflexivity|]. cbn [skip_ws].
  destruct (tr_read_byte s) as [[x|e] s1] eqn:E; apply rb_errs in E; ex IH E.
Qed.
Lemma block_comment_ext : forall g s conc l, extk s (block_comment g s conc l).
Proof.
  induction g as [|g IH]; intros s conc l; [apply extk_same; reflexivity|]. cbn [block_comment].
  destruct (tr_read_byte s) as [[x|[|]] s1] eqn:E; apply rb_errs in E; ex IH E.
  pose proof (skip_ws_ext (S (length (rest (buf s1)))) s1) as Hs. destruct (skip_ws _ s1); [|exact I]. cbn [extk] in *. rewrite <- E. exact Hs.
Qed.
Lemma string_lit_ext : forall g s conc e, extk s (string_lit g s conc e).
Proof.
  induction g as [|g IH]; intros s conc e; [apply extk_same; reflexivity|]. cbn [string_lit].
  destruct (tr_read_byte s) as [[x|[|]] s1] eqn:E; apply rb_errs in E; ex IH E.
Qed.
Lemma line_comment_ext s conc : extk s (line_comment s conc).
Proof.
  unfold line_comment, read_bytes_nl. destruct (split_nl (rest (buf s)) []) as [line [r|]].
  - apply extk_same. reflexivity.
  - destruct (failing (buf s)); [apply extk_add; reflexivity|apply extk_same; reflexivity].
Qed.

Lemma lift_ext {A B} s (r : res A) (f : A -> B) :
  extk s r -> extk s (match r with R t s2 => R (f t) s2 | RPanic => RPanic end).
Proof. destruct r; auto. Qed.
Lemma find_ext : forall g n s conc, extk s (find g n s conc).
Proof.
  induction g as [|g IH]; intros n s conc; [apply extk_same; reflexivity|]. cbn [find].
  destruct (tr_read_byte s) as [[x|[|]] s0] eqn:R1; apply rb_errs in R1.
  - destruct (skips n x); [apply (extk_eq _ _ _ R1); apply IH|].
    assert (D : forall b0 s0', pre (errs s) (errs s0') -> extk s
      match succ n b0 with
      | Term k => R (Some {| kind := k; concrete := conc ++ [b0] |}) s0'
      | Num => match number_loop (S (length (rest (buf s0')))) s0' (conc ++ [b0]) kInt true false false false with R t s2 => R (Some t) s2 | RPanic => RPanic end
      | Str => match string_lit (S (length (rest (buf s0')))) s0' (conc ++ [b0]) false with R t s2 => R (Some t) s2 | RPanic => RPanic end
      | LineC => match line_comment s0' (conc ++ [b0]) with R t s2 => R (Some t) s2 | RPanic => RPanic end
      | BlockC => match block_comment (S (length (rest (buf s0')))) s0' (conc ++ [b0]) 0%N with R t s2 => R (Some t) s2 | RPanic => RPanic end
      | Go n' => find g n' s0' (conc ++ [b0])
      | NoSucc => R None s0'
      end).
    { intros b0 s0' L.
      assert (T : forall A (r : res A), extk s0' r -> extk s r).
      { intros A r. destruct r; cbn [extk]; [|auto]. intros H. exact (pre_trans _ _ _ L H). }
      destruct (succ n b0).
      - exact L.
      - apply T. apply (lift_ext s0' _ Some). apply number_loop_ext.
      - apply T. apply (lift_ext s0' _ Some). apply string_lit_ext.
      - apply T. apply (lift_ext s0' _ Some). apply line_comment_ext.
      - apply T. apply (lift_ext s0' _ Some). apply block_comment_ext.
      - apply T. apply IH.
      - exact L. }
    destruct (succ n x) eqn:S1; try (specialize (D x s0); rewrite S1 in D; apply D; rewrite R1; apply pre_refl).
    destruct conc as [|c0 conc0]; [apply extk_same; exact R1|]. apply D. cbn [add_err errs]. rewrite R1. apply pre_add.
  - apply extk_add. exact R1.
  - apply extk_add. exact R1.
Qed.
Lemma next_ident_ext : forall g s conc, extk s (next_ident g s conc).
Proof.
  induction g as [|g IH]; intros s conc; [apply extk_same; reflexivity|]. cbn [next_ident].
  destruct (read_rune (buf s)) as [[c|[|]] b1].
  - destruct (is_letter c || is_digit c || N.eqb c 95).
    + apply (extk_eq s (with_buf s b1)); [reflexivity|apply IH].
    + apply extk_same. reflexivity.
  - apply extk_same. reflexivity.
  - apply extk_add. reflexivity.
Qed.

(* Next(): from a marker-free state, an error list that is not empty stays not empty *)
Theorem next_sticky s : nk s -> errs s <> [] -> match next s with R _ s1 => errs s1 <> [] | RPanic => True end.
Proof.
  intros K NE. unfold next. fold (len s).
  pose proof (find_ext (S (S (len s))) NRoot s []) as F. pose proof (find_nk (S (S (len s))) NRoot s [] K) as FK.
  destruct (find (S (S (len s))) NRoot s []) as [ot s1|] eqn:EF; [|exact I]. cbn [extk find_postk] in *.
  destruct F as [l F].
  assert (NE1 : errs s1 <> []) by (rewrite F; destruct (errs s); [congruence|discriminate]).
  destruct (last_err (errs s1)) as [[| | |]|] eqn:LE; try exact NE1.
  - (* the marker was appended by this very call: removing it gives back at least what was there *)
    destruct FK as [FK|[_ (s0 & -> & K0 & _)]]; [exfalso; apply FK; apply last_err_in; exact LE|].
    cbn [errs buf add_err] in *. rewrite removelast_last.
    destruct (errs s0) eqn:E0; [exfalso|discriminate]. unfold nk in K.
    destruct (errs s) as [|e0 es] eqn:Es; [congruence|]. cbn in F. injection F as F1 F2.
    apply K. left. symmetry. exact F1.
  - destruct ot as [t|]; [exact NE1|]. destruct (Nat.ltb _ _); [exact NE1|].
    destruct (tr_unread_byte s1) as [s2|] eqn:U; [|exact I]. apply ub_errs in U.
    destruct (read_rune (buf s2)) as [[c|[|]] b3]; try (apply add_err_ne).
    destruct (is_letter c); [|apply add_err_ne].
    pose proof (next_ident_ext (S (S (len s))) (with_buf s2 b3) [c]) as NI. destruct (next_ident _ _ _); [|exact I].
    cbn [extk with_buf errs] in NI. destruct NI as [l2 NI]. rewrite NI, U. destruct (errs s1); [congruence|discriminate].
  - destruct ot as [t|]; [exact NE1|]. destruct (Nat.ltb _ _); [exact NE1|].
    destruct (tr_unread_byte s1) as [s2|] eqn:U; [|exact I]. apply ub_errs in U.
    destruct (read_rune (buf s2)) as [[c|[|]] b3]; try (apply add_err_ne).
    destruct (is_letter c); [|apply add_err_ne].
    pose proof (next_ident_ext (S (S (len s))) (with_buf s2 b3) [c]) as NI. destruct (next_ident _ _ _); [|exact I].
    cbn [extk with_buf errs] in NI. destruct NI as [l2 NI]. rewrite NI, U. destruct (errs s1); [congruence|discriminate].
  - destruct (errs s1) as [|e1 [|e2 l1]]; [congruence|discriminate|]. exfalso. revert LE. clear. generalize (e2 :: l1). intros l. revert e1. induction l as [|y l IH]; intros e1; [discriminate|]. cbn [last_err]. destruct l; [discriminate|apply (IH y)].
Qed.

Definition dirty (x : nres) : Prop := match x with NT _ e => e <> [] | NF e => e <> [] | NP => True end.
Fixpoint sticky (l : list nres) : Prop :=
  match l with [] => True | x :: r => (dirty x -> Forall dirty r) /\ sticky r end.

Lemma dirty_from : forall n s, nk s -> errs s <> [] -> Forall dirty (next_results n s).
Proof.
  induction n as [|n IH]; intros s K NE; [constructor|]. cbn [next_results].
  pose proof (next_sticky s K NE) as S1. pose proof (next_clean s K) as C1.
  destruct (next s) as [[t|] s1|]; [| |repeat constructor]; destruct C1 as [K1 _]; (constructor; [exact S1|apply IH; assumption]).
Qed.
Theorem results_sticky : forall n s, nk s -> sticky (next_results n s).
Proof.
  induction n as [|n IH]; intros s K; [exact I|]. cbn [next_results].
  pose proof (next_clean s K) as C1.
  destruct (next s) as [[t|] s1|]; [| |cbn; split; [intros _; constructor|exact I]]; destruct C1 as [K1 _];
    (cbn [sticky dirty]; split; [intros D; apply dirty_from; assumption|apply IH; exact K1]).
Qed.
Lemma sticky_clean_before : forall p0 x r, sticky (p0 ++ x :: r) -> ~ dirty x -> Forall (fun y => ~ dirty y) p0.
Proof.
  induction p0 as [|y p0 IH]; intros x r S ND; [constructor|]. rewrite <- app_comm_cons in S. cbn [sticky] in S. destruct S as [S1 S2].
  constructor; [|exact (IH x r S2 ND)]. intros D. specialize (S1 D). rewrite Forall_app in S1. destruct S1 as [_ S1]. inversion S1; auto.
Qed.
Print Assumptions results_sticky.
