(* If ReadFile reports success then the whole input was consumed: for EVERY input, when the parser model returns a File, every
   Next() result it has not used is a `false` answer - no token was left unread.  The top-level loop returns a File only when
   Next() answers `false` with no error recorded; in the tokenizer's result list nothing but `false` follows such an answer
   (front/TokClean.v: it means no byte is left); the parser only ever moves forward through the list (the same compositional
   proof as ParseSafe.v / ParseStrict.v, for the suffix-closed predicate cc). *)
From Coq Require Import List NArith ZArith Bool Arith Lia.
Require Import Bebop.front.Tok Bebop.front.Parse Bebop.front.TokSafe Bebop.front.TokFuel Bebop.front.TokProgress Bebop.front.TokClean Bebop.front.TokSticky.
Import ListNotations.

Section Forward.
Variable P : list nres -> Prop.
Hypothesis P_tl : forall x r, P (x :: r) -> P r.

Definition done_m {A} (m : M A) : Prop :=
  forall s, P (rs s) -> match m s with POk _ s' => P (rs s') | _ => True end.

Lemma done_ret {A} (a : A) : done_m (ret a).
Proof. intros s H. exact H. Qed.
Lemma done_fail {A} : done_m (@fail A).
Proof. intros s H. exact I. Qed.
Lemma done_nofuel {A} : done_m (@nofuel A).
Proof. intros s H. exact I. Qed.
Lemma done_bind {A B} (m : M A) (f : A -> M B) : done_m m -> (forall a, done_m (f a)) -> done_m (bind m f).
Proof.
  intros Hm Hf s H. unfold bind. specialize (Hm s H). destruct (m s) as [a s'| | | |]; auto. apply (Hf a s' Hm).
Qed.
Lemma done_p_next : done_m p_next.
Proof.
  intros s H. unfold p_next. destruct (keep s); [exact H|]. destruct (rs s) as [|[t e|e|] r] eqn:E; cbn [rs]; try exact I.
  - exact (P_tl _ _ H).
  - exact (P_tl _ _ H).
Qed.
Lemma done_panic {A} : done_m (fun _ : pst => @PPanic A).
Proof. intros s H. exact I. Qed.
Lemma done_p_unnext : done_m p_unnext. Proof. intros s H. exact H. Qed.
Lemma done_p_tok : done_m p_tok. Proof. intros s H. exact H. Qed.
Lemma done_p_kind : done_m p_kind. Proof. intros s H. exact H. Qed.
Lemma done_p_haserr : done_m p_haserr. Proof. intros s H. exact H. Qed.

Create HintDb pdone.
#[local] Hint Resolve done_ret done_fail done_nofuel done_panic done_p_next done_p_unnext done_p_tok done_p_kind done_p_haserr  : pdone.

Ltac dnm :=
  repeat first
    [ solve [auto with pdone]
    | apply done_bind; [|intro]
    | match goal with |- done_m (if ?c then _ else _) => destruct c end
    | match goal with |- done_m (let '(_, _) := ?x in _) => destruct x end
    | match goal with |- done_m (match ?x with _ => _ end) => destruct x end
    | progress cbv zeta ].

Lemma done_expect_any_of_next ks : done_m (expect_any_of_next ks).
Proof. unfold expect_any_of_next. dnm. Qed.
#[local] Hint Resolve done_expect_any_of_next  : pdone.
Lemma done_expect_next ks : done_m (expect_next ks).
Proof. induction ks as [|k ks IH]; cbn [expect_next]; dnm. Qed.
#[local] Hint Resolve done_expect_next  : pdone.
Lemma done_opt_newline : done_m opt_newline.
Proof. unfold opt_newline. dnm. Qed.
#[local] Hint Resolve done_opt_newline  : pdone.
Lemma done_read_until_semi g acc : done_m (read_until_semi g acc).
Proof. revert acc. induction g as [|g IH]; intros acc; cbn [read_until_semi]; dnm. Qed.
#[local] Hint Resolve done_read_until_semi  : pdone.

Lemma done_read_enum_value g prev bf uns bits : done_m (read_enum_value g prev bf uns bits).
Proof. unfold read_enum_value. dnm. Qed.
#[local] Hint Resolve done_read_enum_value  : pdone.
Lemma done_read_deprecated : done_m read_deprecated.
Proof. unfold read_deprecated. dnm. Qed.
#[local] Hint Resolve done_read_deprecated  : pdone.
Lemma done_skip_eol g : done_m (skip_eol_comments g).
Proof. induction g as [|g IH]; cbn [skip_eol_comments]; dnm. Qed.
#[local] Hint Resolve done_skip_eol  : pdone.
Lemma done_read_enum_loop g : forall bf uns bits opts cm dm dep, done_m (read_enum_loop g bf uns bits opts cm dm dep).
Proof. induction g as [|g IH]; intros; cbn [read_enum_loop]; dnm. Qed.
#[local] Hint Resolve done_read_enum_loop  : pdone.
Lemma done_read_enum g bf : done_m (read_enum g bf).
Proof. unfold read_enum. dnm. Qed.
#[local] Hint Resolve done_read_enum  : pdone.
Lemma done_array_suffix g : forall ft, done_m (array_suffix g ft).
Proof. induction g as [|g IH]; intros; cbn [array_suffix]; dnm. Qed.
#[local] Hint Resolve done_array_suffix  : pdone.
Lemma done_read_field_type g : done_m (read_field_type g).
Proof. induction g as [|g IH]; cbn [read_field_type]; dnm. Qed.
#[local] Hint Resolve done_read_field_type  : pdone.
Lemma done_read_struct_loop g : forall fs cm tags dm dep, done_m (read_struct_loop g fs cm tags dm dep).
Proof. induction g as [|g IH]; intros; cbn [read_struct_loop]; dnm. Qed.
#[local] Hint Resolve done_read_struct_loop  : pdone.
Lemma done_read_struct g : done_m (read_struct g).
Proof. unfold read_struct. dnm. Qed.
#[local] Hint Resolve done_read_struct  : pdone.
Lemma done_read_message_loop g : forall fs cm tags dm dep, done_m (read_message_loop g fs cm tags dm dep).
Proof. induction g as [|g IH]; intros; cbn [read_message_loop]; dnm. Qed.
#[local] Hint Resolve done_read_message_loop  : pdone.
Lemma done_read_message g : done_m (read_message g).
Proof. unfold read_message. dnm. Qed.
#[local] Hint Resolve done_read_message  : pdone.
Lemma done_read_union_loop g : forall fs cm tags dm dep, done_m (read_union_loop g fs cm tags dm dep).
Proof. induction g as [|g IH]; intros; cbn [read_union_loop]; dnm. Qed.
#[local] Hint Resolve done_read_union_loop  : pdone.
Lemma done_read_union g : done_m (read_union g).
Proof. unfold read_union. dnm. Qed.
#[local] Hint Resolve done_read_union  : pdone.
Lemma done_read_const g : done_m (read_const g).
Proof. unfold read_const. dnm. Qed.
#[local] Hint Resolve done_read_const  : pdone.
Lemma done_read_opcode : done_m read_opcode.
Proof. unfold read_opcode. dnm. Qed.
#[local] Hint Resolve done_read_opcode  : pdone.
Lemma done_top_loop g : forall f cm opc ro bf, done_m (top_loop g f cm opc ro bf).
Proof. induction g as [|g IH]; intros; cbn [top_loop]; dnm. Qed.



(* ---------- computations that return a value only with nothing but `false` answers left ---------- *)
Definition oke {A} (m : M A) : Prop := forall s, P (rs s) -> match m s with POk _ s' => P (NF [] :: rs s') | _ => True end.
Lemma oke_fail {A} : oke (@fail A). Proof. intros s H. exact I. Qed.
Lemma oke_nofuel {A} : oke (@nofuel A). Proof. intros s H. exact I. Qed.
Lemma oke_bind_r {A B} (m : M A) (f : A -> M B) : done_m m -> (forall a, oke (f a)) -> oke (bind m f).
Proof. intros Hm Hf s H. unfold bind. specialize (Hm s H). destruct (m s) as [a s'| | | |]; auto. exact (Hf a s' Hm). Qed.

Ltac okt IH :=
  repeat first
    [ apply oke_fail | apply oke_nofuel | apply IH
    | apply oke_bind_r; [solve [auto with pdone]|intro]
    | match goal with |- oke (if ?c then _ else _) => destruct c end
    | match goal with |- oke (match ?x with _ => _ end) => destruct x end
    | progress cbv zeta | progress cbv beta ].

Lemma top_oke g : forall f cm opc ro bf, oke (top_loop g f cm opc ro bf).
Proof.
  induction g as [|g IH]; intros f cm opc ro bf; [apply oke_nofuel|]. cbn [top_loop]. intros s Hd.
  unfold bind at 1. unfold p_next at 1. destruct (keep s) eqn:Ek.
  - cbn [negb].
    match goal with |- match ?m ?st with _ => _ end => cut (oke m); [intros G; exact (G st Hd)|] end. okt IH.
  - destruct (rs s) as [|[t e|e|] r] eqn:Er; try exact I.
    + cbn [negb]. assert (Hr : P r) by exact (P_tl _ _ Hd).
      match goal with |- match ?m ?st with _ => _ end => cut (oke m); [intros G; exact (G st Hr)|] end. okt IH.
    + cbn [negb]. unfold bind, p_haserr. cbn [perrs]. destruct e; [|exact I]. cbn [ret rs]. exact Hd.
Qed.

End Forward.

Definition st0 (input : bytes) (fails : bool) : pst :=
  {| rs := next_results (length input + margin)
             {| buf := {| rest := input; lastByte := None; lastRune := None; failing := fails |}; errs := [] |};
     cur := tok0; keep := false; perrs := [] |}.

(* whatever suffix-closed property the precomputed result list has, it holds of `clean false :: what is left` when a File is returned *)
Lemma read_file_returns_at (P : list nres -> Prop) (P_tl : forall x r, P (x :: r) -> P r) input fails f s' :
  P (rs (st0 input fails)) -> read_file input fails = POk f s' -> P (NF [] :: rs s').
Proof.
  intros H0 E. unfold read_file in E.
  pose proof (top_oke P P_tl (2 * (length input + margin) + 8)
    {| structs := []; messages := []; enums := []; unions := []; consts := []; imports := []; gopackage := [] |} [] 0%N false false
    (st0 input fails) H0) as H.
  unfold st0 in H. rewrite E in H. exact H.
Qed.

Theorem read_file_consumes_input input fails f s' : read_file input fails = POk f s' -> Forall is_nf (rs s').
Proof.
  intros E. pose proof (read_file_returns_at cc cc_tl input fails f s') as H.
  assert (H0 : cc (rs (st0 input fails))) by (apply results_clean_closed; intros []).
  specialize (H H0 E). cbn [cc] in H. exact (proj1 H).
Qed.
Print Assumptions read_file_consumes_input.

(* ... and no error was dropped on the way: when a File is returned, the result list is  used ++ [clean false] ++ left,  where
   no result in `used` - no token the parser was given - carried a tokenizer error (an error, once recorded, stays recorded:
   front/TokSticky.v - so it would still be there at the `false` the parser returned on) and `left` holds only `false` answers *)
Definition suffix_of (l0 l : list nres) : Prop := exists p0, l0 = p0 ++ l.
Lemma suffix_tl l0 x r : suffix_of l0 (x :: r) -> suffix_of l0 r.
Proof. intros [p0 ->]. exists (p0 ++ [x]). now rewrite <- app_assoc. Qed.
Theorem read_file_no_error_dropped input fails f s' : read_file input fails = POk f s' ->
  exists used, rs (st0 input fails) = used ++ NF [] :: rs s' /\ Forall (fun y => ~ dirty y) used /\ Forall is_nf (rs s').
Proof.
  intros E.
  destruct (read_file_returns_at (suffix_of (rs (st0 input fails))) (suffix_tl _) input fails f s' (ex_intro _ [] eq_refl) E) as [used U].
  exists used. split; [exact U|]. split; [|exact (read_file_consumes_input input fails f s' E)].
  apply (sticky_clean_before used (NF []) (rs s')); [|cbn; congruence].
  rewrite <- U. apply results_sticky. intros [].
Qed.
Print Assumptions read_file_no_error_dropped.
