(* The tie between the hand-written tokenizer model (front/Tok.v) and the lexical tables of the source as translator T6
   regenerates them on every run (gen/TokTable.v: the tokenKind iota block, the keywords map, the token tree that
   newTokenTree builds, the skipped bytes).  Everything here is an obligation of the shape "the model's table IS the
   source's table", settled by computation over the finite domains involved (7 tree nodes x 256 byte values; the entries
   of the tables), plus one general lemma about keyword. *)
From Coq Require Import List NArith Bool Arith Lia.
Require Import Bebop.front.Tok Bebop.gen.TokTable.
Import ListNotations.

(* ---------- token kinds ---------- *)
Theorem kinds_tie :
  kIdent = go_tokenKindIdent /\ kInt = go_tokenKindIntegerLiteral /\ kFloat = go_tokenKindFloatLiteral /\ kString = go_tokenKindStringLiteral /\
  kOpenSq = go_tokenKindOpenSquare /\ kCloseSq = go_tokenKindCloseSquare /\ kOpenPar = go_tokenKindOpenParen /\ kClosePar = go_tokenKindCloseParen /\
  kOpenCu = go_tokenKindOpenCurly /\ kCloseCu = go_tokenKindCloseCurly /\ kSemi = go_tokenKindSemicolon /\ kComma = go_tokenKindComma /\
  kEquals = go_tokenKindEquals /\ kArrow = go_tokenKindArrow /\ kLineC = go_tokenKindLineComment /\ kBlockC = go_tokenKindBlockComment /\
  kVBar = go_tokenKindVerticalBar /\ kAmp = go_tokenKindAmpersand /\ kDCL = go_tokenKindDoubleCaretLeft /\ kDCR = go_tokenKindDoubleCaretRight /\
  kColon = go_tokenKindColon /\ kNewline = go_tokenKindNewline /\ kNegInf = go_tokenKindNegativeInf /\ kind tok0 = go_tokenKindInvalid.
Proof. repeat split; reflexivity. Qed.

(* ---------- keywords ---------- *)
Definition beqb (a b : bytes) : bool := if list_eq_dec N.eq_dec a b then true else false.
Lemma beqb_true a b : beqb a b = true <-> a = b.
Proof. unfold beqb. destruct (list_eq_dec N.eq_dec a b); split; congruence. Qed.

(* every entry of the source's map is what the model's keyword function returns, and none of them is Ident *)
Theorem keywords_sound : forall w k, In (w, k) go_keywords -> keyword w = k /\ k <> kIdent.
Proof.
  assert (H : forallb (fun e => N.eqb (keyword (fst e)) (snd e) && negb (N.eqb (snd e) kIdent)) go_keywords = true) by (vm_compute; reflexivity).
  rewrite forallb_forall in H. intros w k Hin. specialize (H (w, k) Hin). cbn [fst snd] in H.
  apply andb_true_iff in H. destruct H as [H1 H2]. apply N.eqb_eq in H1. apply negb_true_iff, N.eqb_neq in H2. split; assumption.
Qed.
(* and the model's function knows no other keyword: whatever it does not call Ident is an entry of the map *)
Theorem keywords_complete : forall c, keyword c <> kIdent -> In (c, keyword c) go_keywords.
Proof.
  intros c H.
  assert (E : existsb (fun e => beqb (fst e) c && N.eqb (snd e) (keyword c)) go_keywords = true).
  { revert H. unfold keyword.
    repeat match goal with |- context [list_eq_dec N.eq_dec c ?w] => destruct (list_eq_dec N.eq_dec c w) as [->|_]; [intros _; vm_compute; reflexivity|] end.
    intros H. exfalso. apply H. reflexivity. }
  apply existsb_exists in E. destruct E as ([w k] & Hin & E). cbn [fst snd] in E. apply andb_true_iff in E. destruct E as [E1 E2].
  apply beqb_true in E1. apply N.eqb_eq in E2. subst. exact Hin.
Qed.

(* ---------- the token tree ---------- *)
Definition nodes : list node := [NRoot; NMinus; NMinusI; NMinusIN; NGt; NLt; NSlash].
Definition path_of (n : node) : bytes :=
  match n with NRoot => [] | NMinus => [45] | NMinusI => [45; 105] | NMinusIN => [45; 105; 110] | NGt => [62] | NLt => [60] | NSlash => [47] end%N.
Fixpoint is_prefix (p q : bytes) : bool :=
  match p, q with
  | [], _ => true
  | a :: p', b :: q' => N.eqb a b && is_prefix p' q'
  | _, [] => false
  end.
Definition exact (p : bytes) : option N :=
  match filter (fun e => beqb (fst e) p) go_tree with e :: _ => Some (snd e) | [] => None end.
Definition strictly_below (p : bytes) : bool := existsb (fun e => is_prefix p (fst e) && negb (beqb (fst e) p)) go_tree.
Definition code_of (s : step) : option N :=
  match s with Term k => Some k | Num => Some 1000 | Str => Some 1001 | LineC => Some 1002 | BlockC => Some 1003 | _ => None end%N.
Definition node_eqb (a b : node) : bool :=
  match a, b with
  | NRoot, NRoot | NMinus, NMinus | NMinusI, NMinusI | NMinusIN, NMinusIN | NGt, NGt | NLt, NLt | NSlash, NSlash => true
  | _, _ => false
  end.

(* what the model does with byte b at node n is what the source's tree has at the path of n followed by b *)
Definition succ_tie (n : node) (b : byte) : bool :=
  let p := path_of n ++ [b] in
  match succ n b with
  | NoSucc => match exact p with None => negb (strictly_below p) | Some _ => false end
  | Go n' => beqb (path_of n') p && strictly_below p && match exact p with None => true | Some _ => false end
  | s => match exact p, code_of s with Some c, Some c' => N.eqb c c' && negb (strictly_below p) | _, _ => false end
  end.
Definition all_bytes : list N := map N.of_nat (seq 0 256).

Theorem tree_tie : forall n b, (b < 256)%N -> succ_tie n b = true.
Proof.
  assert (H : forallb (fun n => forallb (succ_tie n) all_bytes) nodes = true) by (vm_compute; reflexivity).
  rewrite forallb_forall in H. intros n b Hb.
  assert (Hn : In n nodes) by (destruct n; cbn; tauto).
  specialize (H n Hn). rewrite forallb_forall in H. apply H.
  unfold all_bytes. apply in_map_iff. exists (N.to_nat b). split; [apply N2Nat.id|]. apply in_seq. lia.
Qed.
(* every inner node of the source's tree is a node of the model: each proper non-empty prefix of an entry is some path_of *)
Fixpoint proper_prefixes (p : bytes) : list bytes :=
  match p with
  | [] => []
  | a :: r => match r with [] => [] | _ => [a] :: map (cons a) (proper_prefixes r) end
  end.
Theorem tree_nodes : forall e q, In e go_tree -> In q (proper_prefixes (fst e)) -> exists n, path_of n = q.
Proof.
  assert (H : forallb (fun e => forallb (fun q => existsb (fun n => beqb (path_of n) q) nodes) (proper_prefixes (fst e))) go_tree = true) by (vm_compute; reflexivity).
  rewrite forallb_forall in H. intros e q He Hq. specialize (H e He). rewrite forallb_forall in H. specialize (H q Hq).
  apply existsb_exists in H. destruct H as (n & _ & E). apply beqb_true in E. eauto.
Qed.

(* skipped bytes: at the root exactly the source's, nowhere else *)
Theorem skips_tie : forall n b, (b < 256)%N -> skips n b = match n with NRoot => existsb (N.eqb b) go_skips | _ => false end.
Proof.
  assert (H : forallb (fun n => forallb (fun b => Bool.eqb (skips n b) (match n with NRoot => existsb (N.eqb b) go_skips | _ => false end)) all_bytes) nodes = true)
    by (vm_compute; reflexivity).
  rewrite forallb_forall in H. intros n b Hb.
  assert (Hn : In n nodes) by (destruct n; cbn; tauto).
  specialize (H n Hn). rewrite forallb_forall in H. apply Bool.eqb_prop. apply H.
  unfold all_bytes. apply in_map_iff. exists (N.to_nat b). split; [apply N2Nat.id|]. apply in_seq. lia.
Qed.

(* the greedy correction of find: the first of the node's valid next bytes, sorted as strings with every digit replaced by
   "number" (nextValidBytes) - for a single byte b: [b] sorts before "number" exactly when b <= 'n' *)
Definition succ_bytes (p : bytes) : list N := filter (fun b => match exact (p ++ [b]) with Some _ => true | None => strictly_below (p ++ [b]) end) all_bytes.
Definition go_first_valid (p : bytes) : N :=
  let sb := succ_bytes p in
  let nondig := filter (fun b => negb (is_digit b)) sb in
  let hasdig := existsb is_digit sb in
  let m := fold_right N.min 256%N nondig in
  if hasdig && (110 <? m)%N then 110%N else m.
Theorem first_valid_tie : forall n, n <> NRoot -> first_valid n = go_first_valid (path_of n).
Proof. intros n Hn. destruct n; try congruence; vm_compute; reflexivity. Qed.
(* and that byte has a successor (the correction cannot index a missing entry) *)
Theorem first_valid_has_successor : forall n, n <> NRoot -> succ n (first_valid n) <> NoSucc.
Proof. intros n Hn. destruct n; try congruence; vm_compute; discriminate. Qed.

Print Assumptions tree_tie.
Print Assumptions keywords_complete.
