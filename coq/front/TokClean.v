(* A clean `false` means the input is used up: when Next() on the model answers `false` and leaves no error recorded, no byte
   is left to read - so every later answer is `false` too.  (The clean end-of-input marker is only ever recorded by the
   top-level find when a read fails with nothing pending, and Next() removes it at once: no state between two calls holds it.) *)
From Coq Require Import List NArith Bool Arith Lia.
Require Import Bebop.front.Tok Bebop.front.TokSafe Bebop.front.TokFuel Bebop.front.TokProgress.
Import ListNotations.

Definition nk (s : tstate) : Prop := ~ In KEOF (errs s).
Definition keepsk {A} (r : res A) : Prop := match r with R _ s1 => nk s1 | RPanic => True end.

Lemma rb_nk s r s1 : nk s -> tr_read_byte s = (r, s1) -> nk s1.
Proof. unfold nk, tr_read_byte. destruct (read_byte (buf s)). intros H [= _ <-]. exact H. Qed.
Lemma ub_nk s s2 : nk s -> tr_unread_byte s = Some s2 -> nk s2.
Proof. unfold nk, tr_unread_byte. destruct (unread_byte (buf s)); [|discriminate]. intros H [= <-]. exact H. Qed.
Lemma ae_nk s e : nk s -> e <> KEOF -> nk (add_err s e).
Proof. unfold nk, add_err. intros Hk He. cbn. intros Hin. apply in_app_or in Hin. destruct Hin as [Hin|[Hin|[]]]; [auto|congruence]. Qed.

Ltac kpk IH :=
  repeat first
    [ exact I
    | assumption
    | apply IH; assumption
    | apply ae_nk; [assumption|discriminate]
    | match goal with |- keepsk (if ?c then _ else _) => destruct c end
    | match goal with H : nk ?s1, E : tr_unread_byte ?s1 = Some ?s2 |- _ => pose proof (ub_nk s1 s2 H E); clear E end
    | match goal with |- keepsk (match tr_unread_byte ?s1 with _ => _ end) => destruct (tr_unread_byte s1) eqn:?Eu end
    | progress cbn [keepsk] ].

Lemma number_loop_nk : forall g s conc k a b c d, nk s -> keepsk (number_loop g s conc k a b c d).
Proof.
  induction g as [|g IH]; intros s conc k a b c d H; [exact H|]. cbn [number_loop].
  destruct (tr_read_byte s) as [[x|[|]] s1] eqn:E; pose proof (rb_nk s _ s1 H E) as H1; kpk IH.
Qed.
Lemma skip_ws_nk : forall g s, nk s -> keepsk (skip_ws g s).
Proof.
  induction g as [|g IH]; intros s H; [exact H|]. cbn [skip_ws].
  destruct (tr_read_byte s) as [[x|e] s1] eqn:E; pose proof (rb_nk s _ s1 H E) as H1; kpk IH.
Qed.
Lemma block_comment_nk : forall g s conc l, nk s -> keepsk (block_comment g s conc l).
Proof.
  induction g as [|g IH]; intros s conc l H; [exact H|]. cbn [block_comment].
  destruct (tr_read_byte s) as [[x|[|]] s1] eqn:E; pose proof (rb_nk s _ s1 H E) as H1; kpk IH.
  pose proof (skip_ws_nk (S (length (rest (buf s1)))) s1 H1) as Hs. destruct (skip_ws _ s1); [exact Hs|exact I].
Qed.
Lemma string_lit_nk : forall g s conc e, nk s -> keepsk (string_lit g s conc e).
Proof.
  induction g as [|g IH]; intros s conc e H; [exact H|]. cbn [string_lit].
  destruct (tr_read_byte s) as [[x|[|]] s1] eqn:E; pose proof (rb_nk s _ s1 H E) as H1; kpk IH.
Qed.
Lemma line_comment_nk s conc : nk s -> keepsk (line_comment s conc).
Proof.
  unfold nk, line_comment, read_bytes_nl. intros Hk. destruct (split_nl (rest (buf s)) []) as [line [r|]].
  - cbn [keepsk nk with_buf buf errs]. exact Hk.
  - destruct (failing (buf s)); cbn [keepsk]; unfold nk; cbn [with_buf buf errs add_err]; [|exact Hk].
    intros Hin. apply in_app_or in Hin. destruct Hin as [Hin|[Hin|[]]]; [auto|discriminate].
Qed.

(* find: either no marker, or it answered `no token` having just recorded the marker at the end of the input *)
Definition find_postk (r : res (option token)) : Prop :=
  match r with
  | RPanic => True
  | R ot s1 => nk s1 \/ (ot = None /\ exists s0, s1 = add_err s0 KEOF /\ nk s0 /\ len s0 = 0)
  end.
Lemma find_nk : forall g n s conc, nk s -> find_postk (find g n s conc).
Proof.
  induction g as [|g IH]; intros n s conc H; [left; exact H|]. cbn [find].
  destruct (tr_read_byte s) as [[x|[|]] s0] eqn:R1; pose proof (rb_nk s _ s0 H R1) as H0.
  - destruct (skips n x); [apply IH; exact H0|].
    assert (D : forall b0 s0', nk s0' -> find_postk
      match succ n b0 with
      | Term k => R (Some {| kind := k; concrete := conc ++ [b0] |}) s0'
      | Num => match number_loop (S (length (rest (buf s0')))) s0' (conc ++ [b0]) kInt true false false false with R t s2 => R (Some t) s2 | RPanic => RPanic end
      | Str => match string_lit (S (length (rest (buf s0')))) s0' (conc ++ [b0]) false with R t s2 => R (Some t) s2 | RPanic => RPanic end
      | LineC => match line_comment s0' (conc ++ [b0]) with R t s2 => R (Some t) s2 | RPanic => RPanic end
      | BlockC => match block_comment (S (length (rest (buf s0')))) s0' (conc ++ [b0]) 0%N with R t s2 => R (Some t) s2 | RPanic => RPanic end
      | Go n' => find g n' s0' (conc ++ [b0])
      | NoSucc => R None s0'
      end).
    { intros b0 s0' L. destruct (succ n b0).
      - left. exact L.
      - pose proof (number_loop_nk (S (length (rest (buf s0')))) s0' (conc ++ [b0]) kInt true false false false L) as Hn.
        destruct (number_loop _ _ _ _ _ _ _ _); [left; exact Hn|exact I].
      - pose proof (string_lit_nk (S (length (rest (buf s0')))) s0' (conc ++ [b0]) false L) as Hn.
        destruct (string_lit _ _ _ _); [left; exact Hn|exact I].
      - pose proof (line_comment_nk s0' (conc ++ [b0]) L) as Hn. destruct (line_comment _ _); [left; exact Hn|exact I].
      - pose proof (block_comment_nk (S (length (rest (buf s0')))) s0' (conc ++ [b0]) 0%N L) as Hn.
        destruct (block_comment _ _ _ _); [left; exact Hn|exact I].
      - apply IH. exact L.
      - left. exact L. }
    destruct (succ n x) eqn:S1; try (specialize (D x s0 H0); rewrite S1 in D; exact D).
    destruct conc as [|c0 conc0]; [left; exact H0|]. apply D. apply ae_nk; [exact H0|discriminate].
  - pose proof (read_err_nil _ _ _ R1) as Z. apply read_err_len in R1. destruct conc as [|c0 conc0].
    + right. split; [reflexivity|]. exists s0. repeat split; [exact H0|lia].
    + left. apply ae_nk; [exact H0|discriminate].
  - left. apply ae_nk; [exact H0|discriminate].
Qed.

Lemma last_err_app l e : last_err (l ++ [e]) = Some e.
Proof. induction l as [|x l IH]; [reflexivity|]. cbn [app last_err]. destruct (l ++ [e]) eqn:E; [destruct l; discriminate|exact IH]. Qed.
Lemma last_err_in l e : last_err l = Some e -> In e l.
Proof. induction l as [|x l IH]; [discriminate|]. cbn [last_err]. destruct l; [intros [= <-]; left; reflexivity|intros H; right; exact (IH H)]. Qed.
Lemma add_err_ne s e : errs (add_err s e) <> [].
Proof. unfold add_err. cbn. destruct (errs s); discriminate. Qed.
Lemma next_ident_nk : forall g s conc, nk s -> len s < g ->
  match next_ident g s conc with R ot s1 => nk s1 /\ (ot = None -> errs s1 <> []) | RPanic => True end.
Proof.
  induction g as [|g IH]; intros s conc H Hg; [lia|]. cbn [next_ident].
  destruct (read_rune (buf s)) as [[c|[|]] b1] eqn:E.
  - destruct (is_letter c || is_digit c || N.eqb c 95).
    + apply IH; [exact H|]. apply rune_len in E. lia.
    + split; [exact H|discriminate].
  - split; [exact H|discriminate].
  - split; [apply ae_nk; [exact H|discriminate]|intros _; apply add_err_ne].
Qed.

Lemma next_clean s : nk s ->
  match next s with R ot s1 => nk s1 /\ (ot = None -> errs s1 = [] -> len s1 = 0) | RPanic => True end.
Proof.
  intros H. unfold next. fold (len s).
  pose proof (find_nk (S (S (len s))) NRoot s [] H) as F. pose proof (find_le (S (S (len s))) NRoot s []) as [L1 _].
  pose proof (find_ok (S (S (len s))) NRoot s [] ltac:(unfold len; lia)) as G.
  destruct (find (S (S (len s))) NRoot s []) as [ot s1|] eqn:EF; [|exact I]. cbn [find_postk le_res find_post] in *.
  destruct G as [G _].
  destruct (last_err (errs s1)) as [[| | |]|] eqn:LE.
  1: { (* the marker is last: find has just recorded it, at the end of the input *)
    destruct F as [F|[-> (s0 & -> & K0 & Z0)]]; [exfalso; apply F; apply last_err_in; exact LE|].
    unfold add_err. cbn [buf errs]. rewrite removelast_last. split; [exact K0|intros _ _; exact Z0]. }
  1: { destruct F as [F|[_ (s0 & -> & _)]]; [|unfold add_err in LE; cbn [errs] in LE; rewrite last_err_app in LE; discriminate].
    split; [exact F|]. intros _ E0. rewrite E0 in LE. discriminate. }
  all: (destruct F as [F|[_ (s0 & -> & _)]]; [|unfold add_err in LE; cbn [errs] in LE; rewrite last_err_app in LE; discriminate]).
  all: (destruct ot as [t|]; [split; [exact F|discriminate]|]).
  all: (destruct (Nat.ltb (length (errs s)) (length (errs s1))) eqn:LT;
        [split; [exact F|]; intros _ E0; apply Nat.ltb_lt in LT; rewrite E0 in LT; cbn in LT; lia|]).
  all: (destruct (tr_unread_byte s1) as [s2|] eqn:U; [|exact I]; pose proof (ub_nk s1 s2 F U) as K2; apply unread_len in U).
  all: (destruct (read_rune (buf s2)) as [[c|[|]] b3] eqn:RR;
        [|split; [apply ae_nk; [exact K2|discriminate]|intros _ E0; exfalso; exact (add_err_ne _ _ E0)]
         |split; [apply ae_nk; [exact K2|discriminate]|intros _ E0; exfalso; exact (add_err_ne _ _ E0)]]).
  all: (destruct (is_letter c);
        [|split; [apply ae_nk; [exact K2|discriminate]|intros _ E0; exfalso; exact (add_err_ne _ _ E0)]]).
  all: (pose proof (next_ident_nk (S (S (len s))) (with_buf s2 b3) [c] K2 ltac:(apply rune_len in RR; lia)) as NI;
        destruct (next_ident _ _ _) as [o3 s3|]; [|exact I]; destruct NI as [N1 N2]; split; [exact N1|intros E1 E0; exfalso; exact (N2 E1 E0)]).
Qed.

Fixpoint cc (l : list nres) : Prop :=
  match l with
  | [] => True
  | NF [] :: r => Forall is_nf r /\ cc r
  | _ :: r => cc r
  end.
Lemma cc_tl x r : cc (x :: r) -> cc r.
Proof. destruct x as [t e|[|e0 e]|]; cbn [cc]; tauto. Qed.

(* in the list of results of a run from a marker-free state, nothing but `false` follows a clean `false` *)
Theorem results_clean_closed : forall n s, nk s -> cc (next_results n s).
Proof.
  induction n as [|n IH]; intros s H; [exact I|]. cbn [next_results].
  pose proof (next_clean s H) as P. destruct (next s) as [[t|] s1|]; [| |exact I]; destruct P as [P1 P2].
  - cbn [cc]. apply IH. exact P1.
  - destruct (errs s1) eqn:E0.
    + cbn [cc]. split; [|apply IH; exact P1]. specialize (P2 eq_refl eq_refl).
      pose proof (results_after_input n s1 0 ltac:(lia)) as R. cbn [skipn] in R. exact R.
    + cbn [cc]. apply IH. exact P1.
Qed.
Print Assumptions results_clean_closed.
