(* What acceptance by the validator model (front/Valid.v, the executable port of File.Validate that the correspondence check
   compares with the implementation) guarantees, stated declaratively: each clause is one of the error classes C13 lists. *)
From Coq Require Import List NArith ZArith Bool Arith Lia.
Require Import Bebop.front.Tok Bebop.front.Parse Bebop.front.Valid.
Import ListNotations.

Lemma beq_true a b : beq a b = true <-> a = b.
Proof. unfold beq. destruct (list_eq_dec N.eq_dec a b); split; congruence. Qed.
Lemma bmem_In x l : bmem x l = true <-> In x l.
Proof.
  unfold bmem. rewrite existsb_exists. split.
  - intros (y & Hy & E). apply beq_true in E. now subst.
  - intros H. exists x. split; [exact H|now apply beq_true].
Qed.
Lemma has_dup_NoDup l : has_dup l = false <-> NoDup l.
Proof.
  induction l as [|x r IH]; cbn [has_dup]; [split; [constructor|reflexivity]|].
  rewrite orb_false_iff, IH. split.
  - intros [Hm Hn]. constructor; [|exact Hn]. intros Hin. apply bmem_In in Hin. congruence.
  - intros H. inversion H as [|? ? Hx Hr]; subst. split; [|exact Hr].
    destruct (bmem x r) eqn:E; [apply bmem_In in E; contradiction|reflexivity].
Qed.
Lemma has_dup_n_NoDup l : has_dup_n l = false <-> NoDup l.
Proof.
  induction l as [|x r IH]; cbn [has_dup_n]; [split; [constructor|reflexivity]|].
  rewrite orb_false_iff, IH. split.
  - intros [Hm Hn]. constructor; [|exact Hn]. intros Hin.
    assert (existsb (N.eqb x) r = true) by (apply existsb_exists; exists x; split; [exact Hin|apply N.eqb_refl]). congruence.
  - intros H. inversion H as [|? ? Hx Hr]; subst. split; [|exact Hr].
    destruct (existsb (N.eqb x) r) eqn:E; [|reflexivity]. apply existsb_exists in E. destruct E as (y & Hy & E).
    apply N.eqb_eq in E. subst. contradiction.
Qed.
Lemma has_dup_z_NoDup l : has_dup_z l = false <-> NoDup l.
Proof.
  induction l as [|x r IH]; cbn [has_dup_z]; [split; [constructor|reflexivity]|].
  rewrite orb_false_iff, IH. split.
  - intros [Hm Hn]. constructor; [|exact Hn]. intros Hin.
    assert (existsb (Z.eqb x) r = true) by (apply existsb_exists; exists x; split; [exact Hin|apply Z.eqb_refl]). congruence.
  - intros H. inversion H as [|? ? Hx Hr]; subst. split; [|exact Hr].
    destruct (existsb (Z.eqb x) r) eqn:E; [|reflexivity]. apply existsb_exists in E. destruct E as (y & Hy & E).
    apply Z.eqb_eq in E. subst. contradiction.
Qed.

(* names_ok: the names are pairwise distinct, distinct from those seen before, and none is a primitive's *)
Lemma names_ok_spec : forall l seen seen', names_ok seen l = Some seen' ->
  NoDup l /\ (forall n, In n l -> ~ In n seen /\ ~ In n prims) /\ (forall n, In n seen' <-> In n l \/ In n seen).
Proof.
  induction l as [|x r IH]; intros seen seen'; cbn [names_ok].
  - intros [= <-]. split; [constructor|]. split; [intros n []|]. intros n. cbn [In]. tauto.
  - destruct (bmem x prims) eqn:Ep; [discriminate|]. destruct (bmem x seen) eqn:Es; [discriminate|].
    intros H. destruct (IH (x :: seen) seen' H) as (Hnd & Hfresh & Hseen).
    assert (Hxp : ~ In x prims) by (intros Hin; apply bmem_In in Hin; congruence).
    assert (Hxs : ~ In x seen) by (intros Hin; apply bmem_In in Hin; congruence).
    split; [|split].
    + constructor; [|exact Hnd]. intros Hin. destruct (Hfresh x Hin) as [Hc _]. apply Hc. now left.
    + intros n [<-|Hn]; [split; assumption|]. destruct (Hfresh n Hn) as [Hc Hp]. split; [|exact Hp]. intros Hin. apply Hc. now right.
    + intros n. rewrite Hseen. cbn [In]. tauto.
Qed.

(* opcodes_ok: the non-zero opcodes are pairwise distinct and distinct from those seen *)
Lemma opcodes_ok_spec : forall l seen, opcodes_ok seen l = true ->
  NoDup (filter (fun c => negb (N.eqb c 0)) l) /\ forall c, In c l -> c <> 0%N -> ~ In c seen.
Proof.
  induction l as [|c r IH]; intros seen; cbn [opcodes_ok filter].
  - intros _. split; [constructor|intros c []].
  - destruct c as [|p].
    + intros H. destruct (IH seen H) as [Hn Hs]. cbn [N.eqb negb]. split; [exact Hn|]. intros c [<-|Hc] Hz; [congruence|auto].
    + cbn [N.eqb negb]. destruct (existsb (N.eqb (N.pos p)) seen) eqn:E; [discriminate|]. intros H.
      destruct (IH (N.pos p :: seen) H) as [Hn Hs]. split.
      * constructor; [|exact Hn]. intros Hin. apply filter_In in Hin. destruct Hin as [Hin _].
        apply (Hs (N.pos p) Hin ltac:(discriminate)). now left.
      * intros c [<-|Hc] Hz.
        -- intros Hin. assert (existsb (N.eqb (N.pos p)) seen = true) by (apply existsb_exists; exists (N.pos p); split; [exact Hin|apply N.eqb_refl]). congruence.
        -- intros Hin. apply (Hs c Hc Hz). now right.
Qed.

(* a type expression only names defined types *)
Fixpoint defined (all : list bytes) (ft : ftype) : Prop :=
  match ft with
  | FArray t => defined all t
  | FMap k v => In k all /\ defined all v
  | FSimple s => In s all
  end.
Lemma type_defined_spec all ft : type_defined all ft = true <-> defined all ft.
Proof.
  induction ft as [s|k v IH|t IH]; cbn [type_defined defined].
  - apply bmem_In.
  - rewrite andb_true_iff, bmem_In, IH. tauto.
  - exact IH.
Qed.

Definition top_names (f : file) : list bytes :=
  map e_name (enums f) ++ map s_name (structs f) ++ map m_name (messages f) ++ map un_name (unions f).
Definition branch_names (f : file) : list bytes :=
  flat_map (fun u => map (fun p => uf_name (snd p)) (un_fields u)) (unions f).
Definition opcodes (f : file) : list N :=
  map s_opcode (structs f) ++ map m_opcode (messages f) ++ map un_opcode (unions f).

(* the clauses of C13 that do not involve recursion *)
Record sem_ok (f : file) : Prop := {
  ok_consts : NoDup (map c_name (consts f));                                  (* duplicate const names *)
  ok_names : NoDup (top_names f);                                             (* duplicate definition names *)
  ok_branches : NoDup (branch_names f) /\ forall n, In n (branch_names f) -> ~ In n (top_names f);
  ok_not_prim : forall n, In n (top_names f ++ branch_names f) -> ~ In n prims;     (* a definition named like a primitive *)
  ok_enum_opts : forall e, In e (enums f) -> NoDup (map o_name (e_opts e));   (* duplicate enum-option names *)
  ok_enum_vals : forall e, In e (enums f) ->                                  (* duplicate enum values *)
                   if e_unsigned e then NoDup (map o_uvalue (e_opts e)) else NoDup (map o_value (e_opts e));
  ok_struct_fields : forall s, In s (structs f) -> NoDup (map f_name (s_fields s));              (* duplicate field names *)
  ok_msg_fields : forall m, In m (messages f) -> NoDup (map (fun p => f_name (snd p)) (m_fields m));
  ok_branch_fields : forall u p, In u (unions f) -> In p (un_fields u) -> NoDup (uf_field_names (snd p));
  ok_opcodes : NoDup (filter (fun c => negb (N.eqb c 0)) (opcodes f));        (* duplicate opcodes *)
  ok_struct_types : forall s fd, In s (structs f) -> In fd (s_fields s) -> defined (top_names f ++ prims) (f_type fd);
  ok_msg_types : forall m p, In m (messages f) -> In p (m_fields m) -> defined (top_names f ++ prims) (f_type (snd p))
}.

Lemma defined_incl a b ft : (forall x, In x a -> In x b) -> defined a ft -> defined b ft.
Proof. intros H. induction ft as [s|k v IH|t IH]; cbn [defined]; [apply H|intros [? ?]; split; auto|exact IH]. Qed.

Theorem validate_gen_sound rc f : validate_gen rc f = true -> sem_ok f.
Proof.
  unfold validate_gen. rewrite andb_true_iff. intros [Hc H].
  destruct (names_ok [] _) as [custom|] eqn:En; [|discriminate].
  repeat (rewrite andb_true_iff in H; destruct H as [H ?]).
  repeat match goal with Hx : _ && _ = true |- _ => rewrite andb_true_iff in Hx; destruct Hx as [? ?] end.
  destruct (names_ok_spec _ _ _ En) as (Hnd & Hfresh & Hcustom).
  fold (top_names f) in *.
  assert (Hcust : forall n, In n custom <-> In n (top_names f)) by (intros n; rewrite Hcustom; cbn [In]; tauto).
  destruct (names_ok custom _) as [seen2|] eqn:En2; [|discriminate].
  destruct (names_ok_spec _ _ _ En2) as (Hnd2 & Hfresh2 & _). fold (branch_names f) in *.
  match goal with Ho : opcodes_ok [] _ = true |- _ => destruct (opcodes_ok_spec _ _ Ho) as [Hop _] end.
  repeat match goal with Hx : forallb _ _ = true |- _ => rewrite forallb_forall in Hx end.
  constructor.
  - apply has_dup_NoDup. now apply negb_true_iff.
  - exact Hnd.
  - split; [exact Hnd2|]. intros n Hn Ht. apply (proj1 (Hfresh2 n Hn)). now apply Hcust.
  - intros n Hn. apply in_app_or in Hn. destruct Hn as [Hn|Hn]; [exact (proj2 (Hfresh n Hn))|exact (proj2 (Hfresh2 n Hn))].
  - intros e He. match goal with Hx : forall x, In x (enums f) -> _ |- _ => specialize (Hx e He); apply andb_true_iff in Hx; destruct Hx as [Hx _] end.
    apply has_dup_NoDup. now apply negb_true_iff.
  - intros e He. match goal with Hx : forall x, In x (enums f) -> _ |- _ => specialize (Hx e He); apply andb_true_iff in Hx; destruct Hx as [_ Hx] end.
    destruct (e_unsigned e); [apply has_dup_n_NoDup|apply has_dup_z_NoDup]; now apply negb_true_iff.
  - intros s Hs. match goal with Hx : forall x, In x (structs f) -> negb _ = true |- _ => specialize (Hx s Hs) end.
    apply has_dup_NoDup. now apply negb_true_iff.
  - intros m Hm. match goal with Hx : forall x, In x (messages f) -> negb _ = true |- _ => specialize (Hx m Hm) end.
    apply has_dup_NoDup. now apply negb_true_iff.
  - intros u p Hu Hp. match goal with Hx : forall x, In x (unions f) -> forallb _ _ = true |- _ => specialize (Hx u Hu); rewrite forallb_forall in Hx; specialize (Hx p Hp) end.
    apply has_dup_NoDup. now apply negb_true_iff.
  - exact Hop.
  - intros s fd Hs Hfd. match goal with Hx : forall x, In x (structs f) -> forallb _ (s_fields x) = true |- _ => specialize (Hx s Hs); rewrite forallb_forall in Hx; specialize (Hx fd Hfd); apply type_defined_spec in Hx; eapply defined_incl; [|exact Hx] end. intros x Hx. apply in_app_or in Hx. apply in_or_app. destruct Hx; [left; now apply Hcust|now right].
  - intros m p Hm Hp. match goal with Hx : forall x, In x (messages f) -> forallb _ (m_fields x) = true |- _ => specialize (Hx m Hm); rewrite forallb_forall in Hx; specialize (Hx p Hp); apply type_defined_spec in Hx; eapply defined_incl; [|exact Hx] end. intros x Hx. apply in_app_or in Hx. apply in_or_app. destruct Hx; [left; now apply Hcust|now right].
Qed.

Theorem validate_sound f : validate f = true -> sem_ok f.
Proof. apply validate_gen_sound. Qed.
