(* Doc comments in the inversion theorems: a struct or a message preceded by one or more `//` comment lines, which become its
   comment in the File (joined by newlines); Format writes them back unchanged and puts NO blank line before them. *)
From Coq Require Import List NArith ZArith Bool Arith Lia.
Require Import Bebop.front.Tok Bebop.front.Parse Bebop.front.Fmt Bebop.front.TokInv Bebop.front.LexInv Bebop.front.ParseInv Bebop.front.FmtInv Bebop.front.MsgInv.
Require Import Bebop.front.GenInv Bebop.front.Items Bebop.front.TyInv Bebop.front.TyMsg Bebop.front.TyItems.
Import ListNotations.

Definition lcT (body : bytes) : token := {| kind := kLineC; concrete := 47%N :: 47%N :: body ++ [10%N] |}.
Definition doc_toks (cs : list bytes) : list token := map lcT cs.
(* a comment body: no line break characters *)
Definition cbody_ok (body : bytes) : Prop := Forall (fun x => is_crlf x = false) body.

Lemma drop_while_nocrlf body rest : cbody_ok body -> body <> [] -> drop_while is_crlf (body ++ rest) = body ++ rest.
Proof. intros H Hne. destruct body as [|c b]; [congruence|]. inversion H as [|? ? Hc _]; subst. cbn [app drop_while]. now rewrite Hc. Qed.
Lemma sanitize_lc body : cbody_ok body -> sanitize (lcT body) = body.
Proof.
  intros H. unfold sanitize, lcT. cbn [concrete skipn]. unfold trim.
  destruct body as [|c b].
  - reflexivity.
  - rewrite (drop_while_nocrlf (c :: b) [10%N] H ltac:(discriminate)). rewrite rev_app_distr. cbn [rev app drop_while is_crlf N.eqb Pos.eqb orb].
    assert (Hr : cbody_ok (rev (c :: b))) by (apply Forall_rev; exact H).
    assert (Hne : rev (c :: b) <> []) by (intros E; apply (f_equal (@length _)) in E; rewrite rev_length in E; discriminate).
    pose proof (drop_while_nocrlf (rev (c :: b)) [] Hr Hne) as E. rewrite !app_nil_r in E. cbn [rev] in E |- *. rewrite E.
    rewrite <- (rev_involutive (c :: b)). cbn [rev]. reflexivity.
Qed.

Ltac cstep1 :=
  cbv beta iota zeta delta [bind p_next p_haserr p_kind p_tok p_unnext ret fail mk keep rs cur perrs];
  cbn [N.eqb Pos.eqb orb andb negb kind concrete kNewline kBlockC kLineC kOpenSq lcT].
Ltac cstep := repeat progress cstep1.

Lemma top_doc body F f cm tail c : cbody_ok body ->
  top_loop (S F) f cm 0%N false false (mk (res [lcT body] tail) c false) = top_loop F f (cm ++ [body]) 0%N false false (mk tail (lcT body) false).
Proof.
  intros H. unfold res. cbn [map app top_loop]. cstep. change {| kind := 32; concrete := 47%N :: 47%N :: body ++ [10%N] |} with (lcT body).
  rewrite (sanitize_lc body H). reflexivity.
Qed.
Lemma top_docs : forall cs g f cm tail c, Forall cbody_ok cs ->
  exists c', top_loop (length cs + g) f cm 0%N false false (mk (res (doc_toks cs) tail) c false) = top_loop g f (cm ++ cs) 0%N false false (mk tail c' false).
Proof.
  induction cs as [|b cs IH]; intros g f cm tail c H.
  - exists c. cbn [length plus doc_toks map res app]. now rewrite app_nil_r.
  - inversion H as [|? ? Hb Hr]; subst. cbn [length plus doc_toks map]. change (lcT b :: map lcT cs) with ([lcT b] ++ doc_toks cs).
    rewrite res_app, (top_doc b _ f cm _ c Hb). destruct (IH g f (cm ++ [b]) tail (lcT b) Hr) as [c' E]. exists c'. rewrite E, <- app_assoc. reflexivity.
Qed.

Lemma top_struct_head_cm F f cm tail c :
  top_loop (S F) f cm 0%N false false (mk (res [structT] tail) c false)
  = bind (read_struct F)
         (fun st => top_loop F (add_struct f {| s_name := s_name st; s_comment := join_nl cm; s_fields := s_fields st; s_opcode := 0; s_readonly := false |})
                             [] 0%N false false) (mk tail structT false).
Proof. top_step. reflexivity. Qed.
Lemma top_message_head_cm F f cm tail c :
  top_loop (S F) f cm 0%N false false (mk (res [messageT] tail) c false)
  = bind (read_message F)
         (fun m => top_loop F (add_message f {| m_name := m_name m; m_comment := join_nl cm; m_fields := m_fields m; m_opcode := 0 |})
                            [] 0%N false false) (mk tail messageT false).
Proof. top_step_m. reflexivity. Qed.

Definition tstruct_of_cm (cmt : bytes) (nm : bytes) (fl : list tfield) : struct_ :=
  {| s_name := nm; s_comment := cmt; s_fields := map tfield_of fl; s_opcode := 0; s_readonly := false |}.
Definition tmessage_of_cm (cmt : bytes) (nm : bytes) (fl : list tmfield) : message :=
  {| m_name := nm; m_comment := cmt; m_fields := map tmfield_of fl; m_opcode := 0 |}.

Lemma top_cstruct cs nm fl g f tail c : Forall cbody_ok cs -> Forall (fun f => ty_keys_ok (fst f)) fl ->
  top_loop (length cs + S (fsum fl + S (S g))) f [] 0%N false false (mk (res (doc_toks cs ++ tstruct_toks nm fl) tail) c false)
  = top_loop (fsum fl + S g) (add_struct f (tstruct_of_cm (join_nl cs) nm fl)) [] 0%N false false (mk tail nlT false).
Proof.
  intros Hc Hok. rewrite res_app. destruct (top_docs cs (S (fsum fl + S (S g))) f [] (res (tstruct_toks nm fl) tail) c Hc) as [c' E]. rewrite E. cbn [app].
  unfold tstruct_toks.
  change ([structT; idT nm; openT; nlT] ++ tfields_toks fl ++ [closeT; nlT])
    with ([structT] ++ ([idT nm; openT; nlT] ++ tfields_toks fl ++ [closeT] ++ [nlT])).
  rewrite res_app, top_struct_head_cm. unfold bind.
  replace ([idT nm; openT; nlT] ++ tfields_toks fl ++ [closeT] ++ [nlT])
    with (([idT nm; openT; nlT] ++ tfields_toks fl ++ [closeT]) ++ [nlT]) by (rewrite <- !app_assoc; reflexivity).
  rewrite res_app, (read_tstruct_ok nm fl g _ _ Hok). cbn [s_name s_fields tstruct_of].
  replace (fsum fl + S (S g)) with (S (fsum fl + S g)) by lia.
  rewrite top_newline. reflexivity.
Qed.
Lemma top_cmessage cs nm fl g f tail c : Forall cbody_ok cs -> tmfs_ok [] fl ->
  top_loop (length cs + S (fsum (map snd fl) + S (S g))) f [] 0%N false false (mk (res (doc_toks cs ++ tmessage_toks nm fl) tail) c false)
  = top_loop (fsum (map snd fl) + S g) (add_message f (tmessage_of_cm (join_nl cs) nm fl)) [] 0%N false false (mk tail nlT false).
Proof.
  intros Hc Hok. rewrite res_app. destruct (top_docs cs (S (fsum (map snd fl) + S (S g))) f [] (res (tmessage_toks nm fl) tail) c Hc) as [c' E]. rewrite E. cbn [app].
  unfold tmessage_toks.
  change ([messageT; idT nm; openT; nlT] ++ tmfields_toks fl ++ [closeT; nlT])
    with ([messageT] ++ ([idT nm; openT; nlT] ++ tmfields_toks fl ++ [closeT] ++ [nlT])).
  rewrite res_app, top_message_head_cm. unfold bind.
  replace ([idT nm; openT; nlT] ++ tmfields_toks fl ++ [closeT] ++ [nlT])
    with (([idT nm; openT; nlT] ++ tmfields_toks fl ++ [closeT]) ++ [nlT]) by (rewrite <- !app_assoc; reflexivity).
  rewrite res_app, (read_tmessage_ok nm fl g _ _ Hok). cbn [m_name m_fields tmessage_of].
  replace (fsum (map snd fl) + S (S g)) with (S (fsum (map snd fl) + S g)) by lia.
  rewrite top_newline. reflexivity.
Qed.

(* ---------- the formatter: comment lines are written back as they are; no blank line before them, none after ---------- *)
Definition docs_text (cs : list bytes) : bytes := flat_map (fun b => 47%N :: 47%N :: b ++ [10%N]) cs.
Lemma fmt_top_doc body F out nl tail c :
  format_loop (S F) out false nl (mk (res [lcT body] tail) c false) = format_loop F (out ++ 47%N :: 47%N :: body ++ [10%N]) false false (mk tail (lcT body) false).
Proof. unfold res. cbn [map app format_loop]. cstep. reflexivity. Qed.
Lemma fmt_top_docs : forall cs g out nl tail c, cs <> [] ->
  exists c', format_loop (length cs + g) out false nl (mk (res (doc_toks cs) tail) c false) = format_loop g (out ++ docs_text cs) false false (mk tail c' false).
Proof.
  induction cs as [|b cs IH]; intros g out nl tail c Hne; [congruence|].
  cbn [length plus doc_toks map docs_text flat_map]. change (lcT b :: map lcT cs) with ([lcT b] ++ doc_toks cs). rewrite res_app, fmt_top_doc.
  destruct cs as [|b2 cs2].
  - exists (lcT b). cbn [length plus doc_toks map res app flat_map]. now rewrite app_nil_r.
  - destruct (IH g (out ++ 47%N :: 47%N :: b ++ [10%N]) false tail (lcT b) ltac:(discriminate)) as [c' E]. exists c'. rewrite E.
    fold (docs_text (b2 :: cs2)). rewrite <- app_assoc. reflexivity.
Qed.

(* ---------- the items ---------- *)
Definition docs_lex (cs : list bytes) : list lexeme := map LC cs.
Lemma docs_toks_tie cs : map tok_of (docs_lex cs) = doc_toks cs.
Proof. unfold docs_lex, doc_toks. rewrite map_map. reflexivity. Qed.
Lemma cbody_lex b : cbody_ok b -> lex_ok (LC b).
Proof.
  intros H. cbn [lex_ok]. eapply Forall_impl; [|exact H]. intros x Hx. unfold is_crlf in Hx. apply orb_false_iff in Hx. exact (proj2 Hx).
Qed.
Lemma docs_lex_ok cs : Forall cbody_ok cs -> Forall lex_ok (docs_lex cs).
Proof. induction 1 as [|b cs Hb _ IH]; cbn [docs_lex map]; constructor; [now apply cbody_lex|exact IH]. Qed.
Lemma docs_sep cs rest : sep_ok rest -> sep_ok (nows (docs_lex cs) ++ rest).
Proof. intros Hr. induction cs as [|b cs IH]; [exact Hr|]. cbn [docs_lex map nows app sep_ok needs_end]. split; [exact I|exact IH]. Qed.
Lemma docs_ren cs t : render (nows (docs_lex cs)) t = docs_text cs ++ t.
Proof.
  induction cs as [|b cs IH]; [reflexivity|]. cbn [docs_lex map nows render text_of docs_text flat_map app]. unfold nows, docs_lex in IH. rewrite IH.
  repeat (rewrite <- app_assoc || rewrite <- app_comm_cons). reflexivity.
Qed.

Definition cs_item (cs : list bytes) (nm : ident) (fl : list tfdef) : item :=
  let bfl := map btf fl in
  {| it_toks := doc_toks cs ++ tstruct_toks (ibytes nm) bfl; it_need := length cs + (fsum bfl + 3); it_fneed := length cs + (fsum bfl + 4);
     it_upd := fun f => add_struct f (tstruct_of_cm (join_nl cs) (ibytes nm) bfl); it_text := docs_text cs ++ tstruct_text (ibytes nm) bfl; it_blank := false |}.
Definition cs_x (cs : list bytes) (nm : ident) (fl : list tfdef) : xitem :=
  {| x_lex := docs_lex cs ++ x_lex (st_x nm fl); x_lay := nows (docs_lex cs) ++ x_lay (st_x nm fl) |}.

Lemma cs_item_ok cs nm fl : cs <> [] -> Forall cbody_ok cs -> ident_ok nm -> Forall tfdef_ok fl -> item_ok (cs_item cs nm fl) (cs_x cs nm fl).
Proof.
  intros Hne Hc Hn Hf. pose proof (st_item_ok nm fl Hn Hf) as Hs. pose proof (keys_of fl Hf) as Hk. constructor.
  - intros g f tail c. cbn [cs_item it_need it_toks it_upd]. exists (fsum (map btf fl) + S g). split; [lia|].
    replace (length cs + (fsum (map btf fl) + 3) + g) with (length cs + S (fsum (map btf fl) + S (S g))) by lia. apply (top_cstruct _ _ _ _ _ _ _ Hc Hk).
  - intros g out nl tail c. cbn [cs_item it_fneed it_toks it_text it_blank]. rewrite andb_false_r. exists (fsum (map btf fl) + S (S g)). split; [lia|].
    replace (length cs + (fsum (map btf fl) + 4) + g) with (length cs + S (S (fsum (map btf fl) + S (S g)))) by lia.
    rewrite res_app. destruct (fmt_top_docs cs (S (S (fsum (map btf fl) + S (S g)))) out nl (res (tstruct_toks (ibytes nm) (map btf fl)) tail) c Hne) as [c' E].
    rewrite E, fmt_top_tstruct, app_assoc. reflexivity.
  - cbn [cs_x x_lex cs_item it_toks]. rewrite map_app, docs_toks_tie. pose proof (ok_toks _ _ Hs) as H. cbn [st_item it_toks] in H. rewrite H. reflexivity.
  - cbn [cs_x x_lex]. apply Forall_app. split; [exact (docs_lex_ok cs Hc)|exact (ok_lex _ _ Hs)].
  - cbn [cs_item it_need it_fneed it_toks]. rewrite app_length. unfold doc_toks. rewrite map_length. pose proof (ok_need _ _ Hs) as [H1 H2]. cbn [st_item it_need it_fneed it_toks] in H1, H2. lia.
  - cbn [cs_x x_lay x_lex]. rewrite map_app, nows_snd, (ok_lay _ _ Hs). reflexivity.
  - cbn [cs_x x_lay]. apply Forall_app. split; [apply nows_hws|exact (ok_hws _ _ Hs)].
  - intros rest Hr. cbn [cs_x x_lay]. rewrite <- app_assoc. apply docs_sep. exact (ok_sep _ _ Hs rest Hr).
  - intros t. cbn [cs_x x_lay cs_item it_text]. rewrite render_app, (ok_render _ _ Hs), docs_ren. cbn [st_item it_text]. now rewrite app_assoc.
Qed.

Definition cm_item (cs : list bytes) (nm : ident) (fl : list tmfdef) : item :=
  let bfl := map btm fl in
  {| it_toks := doc_toks cs ++ tmessage_toks (ibytes nm) bfl; it_need := length cs + (fsum (map snd bfl) + 3); it_fneed := length cs + (fsum (map snd bfl) + 4);
     it_upd := fun f => add_message f (tmessage_of_cm (join_nl cs) (ibytes nm) bfl); it_text := docs_text cs ++ tmessage_text (ibytes nm) bfl; it_blank := false |}.
Definition cm_x (cs : list bytes) (nm : ident) (fl : list tmfdef) : xitem :=
  {| x_lex := docs_lex cs ++ x_lex (mt_x nm fl); x_lay := nows (docs_lex cs) ++ x_lay (mt_x nm fl) |}.

Lemma cm_item_ok cs nm fl : cs <> [] -> Forall cbody_ok cs -> ident_ok nm -> Forall tmfdef_ok fl -> tmfs_ok [] (map btm fl) -> item_ok (cm_item cs nm fl) (cm_x cs nm fl).
Proof.
  intros Hne Hc Hn Hf Hm. pose proof (mt_item_ok nm fl Hn Hf Hm) as Hs. constructor.
  - intros g f tail c. cbn [cm_item it_need it_toks it_upd]. exists (fsum (map snd (map btm fl)) + S g). split; [lia|].
    replace (length cs + (fsum (map snd (map btm fl)) + 3) + g) with (length cs + S (fsum (map snd (map btm fl)) + S (S g))) by lia. apply (top_cmessage _ _ _ _ _ _ _ Hc Hm).
  - intros g out nl tail c. cbn [cm_item it_fneed it_toks it_text it_blank]. rewrite andb_false_r. exists (fsum (map snd (map btm fl)) + S (S g)). split; [lia|].
    replace (length cs + (fsum (map snd (map btm fl)) + 4) + g) with (length cs + S (S (fsum (map snd (map btm fl)) + S (S g)))) by lia.
    rewrite res_app. destruct (fmt_top_docs cs (S (S (fsum (map snd (map btm fl)) + S (S g)))) out nl (res (tmessage_toks (ibytes nm) (map btm fl)) tail) c Hne) as [c' E].
    rewrite E, fmt_top_tmessage, app_assoc. reflexivity.
  - cbn [cm_x x_lex cm_item it_toks]. rewrite map_app, docs_toks_tie. pose proof (ok_toks _ _ Hs) as H. cbn [mt_item it_toks] in H. rewrite H. reflexivity.
  - cbn [cm_x x_lex]. apply Forall_app. split; [exact (docs_lex_ok cs Hc)|exact (ok_lex _ _ Hs)].
  - cbn [cm_item it_need it_fneed it_toks]. rewrite app_length. unfold doc_toks. rewrite map_length. pose proof (ok_need _ _ Hs) as [H1 H2]. cbn [mt_item it_need it_fneed it_toks] in H1, H2. lia.
  - cbn [cm_x x_lay x_lex]. rewrite map_app, nows_snd, (ok_lay _ _ Hs). reflexivity.
  - cbn [cm_x x_lay]. apply Forall_app. split; [apply nows_hws|exact (ok_hws _ _ Hs)].
  - intros rest Hr. cbn [cm_x x_lay]. rewrite <- app_assoc. apply docs_sep. exact (ok_sep _ _ Hs rest Hr).
  - intros t. cbn [cm_x x_lay cm_item it_text]. rewrite render_app, (ok_render _ _ Hs), docs_ren. cbn [mt_item it_text]. now rewrite app_assoc.
Qed.
