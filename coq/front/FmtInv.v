(* Formatter inversion on the core sub-language of front/ParseInv.v: whatever the horizontal whitespace and however many blank
   lines between definitions, a list of structs is formatted into ONE canonical text - which Format leaves unchanged and which
   ReadFile reads back as the same File. *)
From Coq Require Import List NArith ZArith Bool Arith Lia.
Require Import Bebop.front.Tok Bebop.front.Parse Bebop.front.Fmt Bebop.front.ParseInv.
Import ListNotations.

Definition field_text (f : bytes * bytes) : bytes := tab ++ fst f ++ sp ++ snd f ++ [59%N] ++ nlb.

(* one field: two turns of the loop (the field, then the newline after it) *)
Lemma fmt_field f g acc tail :
  format_struct_loop (S (S (S (S g)))) tab acc (mk (res (field_toks f) tail) nlT false)
  = format_struct_loop (S (S g)) tab ((acc ++ tab ++ fst f ++ sp ++ snd f ++ [59%N]) ++ nlb) (mk tail nlT false).
Proof.
  destruct f as [ty nm]. unfold field_toks, res, mk, field_text. cbn [map app fst snd].
  vm_compute. reflexivity.
Qed.

Lemma field_text_acc acc f : (acc ++ tab ++ fst f ++ sp ++ snd f ++ [59%N]) ++ nlb = acc ++ field_text f.
Proof. unfold field_text. rewrite <- !app_assoc. reflexivity. Qed.

Definition fields_text (fl : list (bytes * bytes)) : bytes := flat_map field_text fl.

Lemma fmt_fields : forall fl g acc tail,
  format_struct_loop (2 * length fl + S (S g)) tab acc (mk (res (fields_toks fl) tail) nlT false)
  = format_struct_loop (S (S g)) tab (acc ++ fields_text fl) (mk tail nlT false).
Proof.
  induction fl as [|f fl IH]; intros g acc tail.
  - cbn [length Nat.mul plus fields_toks flat_map fields_text map res app]. now rewrite app_nil_r.
  - cbn [fields_toks flat_map fields_text]. fold (fields_toks fl). fold (fields_text fl). rewrite res_app.
    replace (2 * length (f :: fl) + S (S g)) with (S (S (S (S (2 * length fl + g))))) by (cbn [length]; lia).
    rewrite fmt_field, field_text_acc.
    replace (S (S (2 * length fl + g))) with (2 * length fl + S (S g)) by lia.
    rewrite IH, <- app_assoc. reflexivity.
Qed.

Lemma fmt_close g acc tail :
  format_struct_loop (S (S g)) tab acc (mk (res [closeT] tail) nlT false) = POk (acc ++ [125%N] ++ nlb) (mk tail closeT false).
Proof. vm_compute. reflexivity. Qed.

Definition struct_text (nm : bytes) (fl : list (bytes * bytes)) : bytes :=
  [115; 116; 114; 117; 99; 116]%N ++ sp ++ nm ++ sp ++ [123%N] ++ nlb ++ fields_text fl ++ [125%N] ++ nlb.

(* format_struct, entered with the keyword as the current token: header, the newline after the brace, then the loop *)
Lemma fmt_struct_head g nm tail :
  format_struct (S g) false tab (mk (res [idT nm; openT; nlT] tail) structT false)
  = format_struct_loop g tab ((([115; 116; 114; 117; 99; 116]%N ++ sp ++ nm) ++ sp ++ [123%N]) ++ nlb) (mk tail nlT false).
Proof. vm_compute. reflexivity. Qed.

Lemma fmt_struct_ok nm fl g tail :
  format_struct (S (2 * length fl + S (S g))) false tab (mk (res ([idT nm; openT; nlT] ++ fields_toks fl ++ [closeT]) tail) structT false)
  = POk (struct_text nm fl) (mk tail closeT false).
Proof.
  rewrite res_app, fmt_struct_head, res_app, fmt_fields, fmt_close. unfold struct_text. rewrite <- !app_assoc. reflexivity.
Qed.

(* ---------- the top-level loop ---------- *)
Ltac fmt_step :=
  cbn [format_loop]; unfold res, mk; cbn [map app];
  unfold bind at 1; unfold p_next at 1; cbn [keep rs cur perrs negb];
  try (unfold bind at 1; unfold p_tok at 1; cbn [cur kind structT nlT];
       cbn [N.eqb Pos.eqb kOpenSq kLineC kBlockC andb orb negb]).

Lemma fmt_top_struct_head F out nl tail c :
  format_loop (S F) out false nl (mk (res [structT] tail) c false)
  = bind (format_struct F false tab) (fun s => format_loop F ((if nl then out ++ nlb else out) ++ s) false true) (mk tail structT false).
Proof. fmt_step. reflexivity. Qed.

Lemma fmt_top_newline g out nl tail c :
  format_loop (S g) out false nl (mk (res [nlT] tail) c false) = format_loop g out false nl (mk tail nlT false).
Proof. fmt_step. reflexivity. Qed.

Lemma fmt_top_eof g out ro nl tail c :
  format_loop (S g) out ro nl (mk (NF [] :: tail) c false) = POk out (mk tail c false).
Proof. cbn [format_loop]. unfold mk. unfold bind at 1. unfold p_next at 1. cbn [keep rs cur perrs negb]. reflexivity. Qed.

Lemma fmt_top_newlines : forall k g out nl tail c,
  format_loop (k + g) out false nl (mk (res (repeat nlT k) tail) c false)
  = format_loop g out false nl (mk tail (match k with O => c | _ => nlT end) false).
Proof.
  induction k as [|k IH]; intros g out nl tail c; [reflexivity|].
  cbn [repeat plus]. change (nlT :: repeat nlT k) with ([nlT] ++ repeat nlT k). rewrite res_app, fmt_top_newline, IH.
  destruct k; reflexivity.
Qed.

Lemma fmt_top_struct nm fl g out nl tail c :
  format_loop (S (S (2 * length fl + S (S g)))) out false nl (mk (res (struct_toks nm fl) tail) c false)
  = format_loop (2 * length fl + S (S g)) ((if nl then out ++ nlb else out) ++ struct_text nm fl) false true (mk tail nlT false).
Proof.
  unfold struct_toks.
  change ([structT; idT nm; openT; nlT] ++ fields_toks fl ++ [closeT; nlT])
    with ([structT] ++ ([idT nm; openT; nlT] ++ fields_toks fl ++ [closeT] ++ [nlT])).
  rewrite res_app, fmt_top_struct_head. unfold bind.
  replace ([idT nm; openT; nlT] ++ fields_toks fl ++ [closeT] ++ [nlT])
    with (([idT nm; openT; nlT] ++ fields_toks fl ++ [closeT]) ++ [nlT]) by (rewrite <- !app_assoc; reflexivity).
  rewrite res_app, fmt_struct_ok.
  replace (S (2 * length fl + S (S g))) with (S (2 * length fl + S (S g))) by reflexivity.
  rewrite fmt_top_newline. reflexivity.
Qed.

(* the canonical text: the structs, one blank line between them *)
Fixpoint canon_acc (out : bytes) (nl : bool) (sl : list bsdef) : bytes :=
  match sl with
  | [] => out
  | s :: r => canon_acc ((if nl then out ++ nlb else out) ++ struct_text (fst (fst s)) (snd (fst s))) true r
  end.
Definition canon (sl : list bsdef) : bytes := canon_acc [] false sl.

Definition fneed (sl : list bsdef) : nat := fold_right (fun s acc => 2 * length (snd (fst s)) + 4 + snd s + acc) 1 sl.

Theorem fmt_structs : forall sl g out nl tail c,
  exists s', format_loop (fneed sl + g) out false nl (mk (res (all_toks sl) (NF [] :: tail)) c false) = POk (canon_acc out nl sl) s'.
Proof.
  induction sl as [|[[nm fl] k] sl IH]; intros g out nl tail c.
  - cbn [fneed fold_right all_toks flat_map res map app canon_acc plus]. rewrite fmt_top_eof. eexists. reflexivity.
  - cbn [all_toks flat_map]. fold (all_toks sl). unfold def_toks at 1. cbn [fst snd].
    rewrite <- (app_assoc (struct_toks nm fl)), (res_app (struct_toks nm fl)).
    unfold fneed at 1. cbn [fold_right fst snd]. fold (fneed sl).
    replace (2 * length fl + 4 + k + fneed sl + g) with (S (S (2 * length fl + S (S (k + (fneed sl + g)))))) by lia.
    rewrite fmt_top_struct, res_app.
    replace (2 * length fl + S (S (k + (fneed sl + g)))) with (k + (fneed sl + (2 * length fl + S (S g)))) by lia.
    rewrite fmt_top_newlines. cbn [canon_acc fst snd]. apply IH.
Qed.

(* ---------- from the text ---------- *)
Require Import Bebop.front.TokInv Bebop.front.LexInv.

Lemma fneed_le sl : fneed sl <= length (all_toks sl) + 1.
Proof.
  induction sl as [|[[nm fl] k] sl IH]; [cbn; lia|]. cbn [fneed fold_right all_toks flat_map fst snd]. fold (fneed sl). fold (all_toks sl).
  rewrite app_length. unfold def_toks, struct_toks. cbn [fst snd]. rewrite !app_length, repeat_length. cbn [length].
  assert (length (fields_toks fl) = 4 * length fl).
  { induction fl as [|f fl IHf]; [reflexivity|]. cbn [fields_toks flat_map]. fold (fields_toks fl). rewrite app_length, IHf. cbn [field_toks length]. lia. }
  lia.
Qed.

(* Format on the core sub-language: ONE output for every layout of the same structs *)
Theorem format_structs : forall sl l tail,
  Forall sdef_ok sl -> map snd l = schema_lex sl ->
  Forall (fun p => hws (fst p)) l -> sep_ok l -> hws tail ->
  exists s', format (render l tail) = POk (canon (map bdef sl)) s'.
Proof.
  intros sl l tail Hok Hl Hws Hsep Ht.
  assert (Hlex : Forall (fun p => hws (fst p) /\ lex_ok (snd p)) l).
  { pose proof (schema_lex_ok sl Hok) as H. rewrite <- Hl in H. clear -Hws H.
    induction l as [|p l IH]; [constructor|]. inversion Hws; subst. cbn [map] in H. inversion H; subst. constructor; [split; assumption|auto]. }
  destruct (run_inversion l tail Hlex Hsep Ht) as (m & Hm & Hrun). unfold run in Hrun.
  unfold format. rewrite Hrun.
  assert (Htoks : map (fun p => NT (tok_of (snd p)) []) l = map (fun t => NT t []) (all_toks (map bdef sl))).
  { rewrite <- (schema_toks sl Hok), <- Hl, !map_map. reflexivity. }
  assert (Hcount : length l = length (all_toks (map bdef sl))).
  { apply (f_equal (@length nres)) in Htoks. now rewrite !map_length in Htoks. }
  rewrite Htoks.
  assert (Hlen : length l <= length (render l tail)).
  { clear -Hlex. induction Hlex as [|[ws x] r _ _ IH]; cbn [length render]; [lia|]. rewrite !app_length. destruct x; cbn [text_of length]; lia. }
  destruct m as [|m]; [pose proof margin_ge; lia|]. cbn [repeat].
  pose proof (fneed_le (map bdef sl)) as Hneed.
  set (n := length (render l tail) + margin) in *.
  replace (2 * n + 8) with (fneed (map bdef sl) + (2 * n + 8 - fneed (map bdef sl))) by lia.
  apply (fmt_structs (map bdef sl) _ [] false (repeat (NF []) m) tok0).
Qed.

(* ---------- the canonical text as a layout: Format's output is itself a text of the class ---------- *)
Fixpoint reblank (sl : list sdef) : list sdef :=
  match sl with
  | [] => []
  | (n, f, _) :: r => match r with [] => [(n, f, 0)] | _ => (n, f, 1) :: reblank r end
  end.

Definition NLx : lexeme := T1 10%N kNewline.
Definition field_layout (f : ident * ident) : list (bytes * lexeme) :=
  [(tab, Wi (fst f)); (sp, Wi (snd f)); ([], T1 59%N kSemi); ([], NLx)].
Definition struct_layout (s : sdef) : list (bytes * lexeme) :=
  [([], W 115%N [116; 114; 117; 99; 116]%N); (sp, Wi (fst (fst s))); (sp, T1 123%N kOpenCu); ([], NLx)]
  ++ flat_map field_layout (snd (fst s)) ++ [([], T1 125%N kCloseCu); ([], NLx)] ++ repeat ([], NLx) (snd s).
Definition canon_layout (sl : list sdef) : list (bytes * lexeme) := flat_map struct_layout sl.

Lemma render_app a b tail : render (a ++ b) tail = render a (render b tail).
Proof. induction a as [|[ws x] a IH]; [reflexivity|]. cbn [app render]. now rewrite IH. Qed.

Lemma layout_lex sl : map snd (canon_layout sl) = schema_lex sl.
Proof.
  induction sl as [|[[nm fl] k] sl IH]; [reflexivity|]. cbn [canon_layout flat_map schema_lex]. fold (canon_layout sl). fold (schema_lex sl).
  rewrite map_app, IH. f_equal. unfold struct_layout, struct_lex. cbn [fst snd map app]. do 4 f_equal. rewrite !map_app. f_equal.
  - induction fl as [|f fl IHf]; [reflexivity|]. cbn [flat_map]. rewrite map_app, IHf. reflexivity.
  - cbn [map app]. do 2 f_equal. induction k as [|k IHk]; [reflexivity|]. cbn [repeat map]. now rewrite IHk.
Qed.

Lemma layout_hws sl : Forall (fun p => hws (fst p)) (canon_layout sl).
Proof.
  assert (Hsp : hws sp) by (repeat constructor). assert (Htab : hws tab) by (repeat constructor). assert (Hnil : hws []) by constructor.
  induction sl as [|[[nm fl] k] sl IH]; [constructor|]. cbn [canon_layout flat_map]. apply Forall_app. split; [|exact IH].
  unfold struct_layout. cbn [fst snd app]. repeat (constructor; [assumption|]).
  apply Forall_app. split.
  - induction fl as [|f fl IHf]; [constructor|]. cbn [flat_map]. apply Forall_app. split; [|exact IHf]. repeat (constructor; [assumption|]). constructor.
  - repeat (constructor; [assumption|]). induction k as [|k IHk]; [constructor|]. cbn [repeat]. constructor; assumption.
Qed.

Lemma sep_ok_fields fl rest : sep_ok rest -> sep_ok (flat_map field_layout fl ++ rest).
Proof.
  intros Hr. induction fl as [|f fl IH]; [exact Hr|]. cbn [flat_map field_layout app sep_ok needs_end Wi].
  repeat split; auto; try (left; discriminate); try (right; eauto).
Qed.
Lemma sep_ok_nls k rest : sep_ok rest -> sep_ok (repeat ([], NLx) k ++ rest).
Proof. intros Hr. induction k as [|k IH]; [exact Hr|]. cbn [repeat app sep_ok needs_end NLx]. split; [exact I|exact IH]. Qed.
Lemma layout_sep sl : sep_ok (canon_layout sl).
Proof.
  induction sl as [|[[nm fl] k] sl IH]; [exact I|]. cbn [canon_layout flat_map]. fold (canon_layout sl).
  unfold struct_layout. cbn [fst snd]. rewrite <- !app_assoc. cbn [app sep_ok needs_end Wi].
  split; [left; discriminate|]. split; [left; discriminate|]. split; [exact I|]. split; [exact I|].
  apply sep_ok_fields. cbn [app sep_ok needs_end]. split; [exact I|]. split; [exact I|]. apply sep_ok_nls. exact IH.
Qed.

(* the canonical text, written out *)
Fixpoint ctext (sl : list bsdef) : bytes :=
  match sl with
  | [] => []
  | s :: r => struct_text (fst (fst s)) (snd (fst s)) ++ match r with [] => [] | _ => nlb ++ ctext r end
  end.
Lemma canon_acc_ctext : forall sl out nl, canon_acc out nl sl = out ++ match sl with [] => [] | _ => (if nl then nlb else []) ++ ctext sl end.
Proof.
  induction sl as [|s r IH]; intros out nl; [cbn; now rewrite app_nil_r|].
  cbn [canon_acc ctext]. rewrite IH. destruct nl, r; cbn [app]; rewrite <- ?app_assoc, ?app_nil_r; reflexivity.
Qed.
Lemma canon_ctext sl : canon sl = ctext sl.
Proof. unfold canon. rewrite canon_acc_ctext. destruct sl; reflexivity. Qed.

Lemma render_fields fl t : render (flat_map field_layout fl) t = fields_text (map (fun f => (ibytes (fst f), ibytes (snd f))) fl) ++ t.
Proof.
  induction fl as [|f fl IH]; [reflexivity|]. cbn [flat_map map fields_text]. rewrite render_app, IH.
  cbn [field_layout render text_of Wi app fst snd]. unfold field_text, ibytes. cbn [fst snd]. rewrite <- !app_assoc. reflexivity.
Qed.
Lemma render_nls k t : render (repeat ([], NLx) k) t = repeat 10%N k ++ t.
Proof. induction k as [|k IH]; [reflexivity|]. cbn [repeat render text_of NLx app]. now rewrite IH. Qed.
Lemma render_struct s t : render (struct_layout s) t
  = struct_text (ibytes (fst (fst s))) (map (fun f => (ibytes (fst f), ibytes (snd f))) (snd (fst s))) ++ repeat 10%N (snd s) ++ t.
Proof.
  destruct s as [[nm fl] k]. unfold struct_layout. cbn [fst snd]. rewrite !render_app, render_fields, render_nls.
  cbn [render text_of Wi app NLx]. unfold struct_text, ibytes, sp, nlb. rewrite <- !app_assoc. reflexivity.
Qed.

Lemma render_canon : forall sl, render (canon_layout (reblank sl)) [] = ctext (map bdef (reblank sl)).
Proof.
  induction sl as [|[[nm fl] k] sl IH]; [reflexivity|]. cbn [reblank].
  destruct sl as [|s2 sl2].
  - cbn [canon_layout flat_map app map ctext]. rewrite app_nil_r, render_struct. cbn [fst snd repeat app bdef]. now rewrite app_nil_r.
  - set (r := reblank (s2 :: sl2)) in *. cbn [canon_layout flat_map]. fold (canon_layout r). rewrite render_app, render_struct, IH.
    cbn [fst snd repeat app map ctext bdef].
    assert (Hr : map bdef r <> []) by (subst r; destruct s2 as [[? ?] ?]; cbn [reblank]; destruct sl2; discriminate).
    destruct (map bdef r) eqn:E; [congruence|]. reflexivity.
Qed.

(* neither the canonical text nor the File depend on the blank lines *)
Lemma ctext_reblank sl : ctext (map bdef (reblank sl)) = ctext (map bdef sl).
Proof.
  induction sl as [|[[nm fl] k] sl IH]; [reflexivity|]. cbn [reblank]. destruct sl as [|s2 sl2]; [reflexivity|].
  set (r := reblank (s2 :: sl2)) in *. cbn [map ctext bdef fst snd]. rewrite IH.
  assert (Hr : map bdef r <> []) by (subst r; destruct s2 as [[? ?] ?]; cbn [reblank]; destruct sl2; discriminate).
  destruct (map bdef r) eqn:E; [congruence|]. reflexivity.
Qed.
Lemma add_all_reblank : forall sl f, add_all f (map bdef (reblank sl)) = add_all f (map bdef sl).
Proof.
  induction sl as [|[[nm fl] k] sl IH]; intros f; [reflexivity|]. cbn [reblank]. destruct sl as [|s2 sl2]; [reflexivity|].
  cbn [map add_all fold_left bdef fst snd]. apply IH.
Qed.
Lemma reblank_ok sl : Forall sdef_ok sl -> Forall sdef_ok (reblank sl).
Proof.
  induction 1 as [|[[nm fl] k] sl H _ IH]; [constructor|]. cbn [reblank]. destruct sl; [constructor; [exact H|constructor]|constructor; [exact H|exact IH]].
Qed.

(* C16 and C17 on the core sub-language, for EVERY list of structs and EVERY layout of its text: Format succeeds with an
   output y that (1) depends on the structs only, (2) Format maps to itself, (3) ReadFile reads back as the File the input
   states - which is also what ReadFile makes of the input. *)
Theorem structs_format_laws : forall sl l tail,
  Forall sdef_ok sl -> map snd l = schema_lex sl ->
  Forall (fun p => hws (fst p)) l -> sep_ok l -> hws tail ->
  exists y, (exists s, format (render l tail) = POk y s) /\ y = ctext (map bdef sl) /\
            (exists s, format y = POk y s) /\
            (exists s, read_file y false = POk (file_of sl) s) /\ (exists s, read_file (render l tail) false = POk (file_of sl) s).
Proof.
  intros sl l tail Hok Hl Hws Hsep Ht.
  exists (ctext (map bdef sl)). split; [|split; [reflexivity|]].
  - destruct (format_structs sl l tail Hok Hl Hws Hsep Ht) as [s Hs]. rewrite canon_ctext in Hs. eauto.
  - pose proof (reblank_ok sl Hok) as Hok'. set (lc := canon_layout (reblank sl)).
    assert (Hy : render lc [] = ctext (map bdef sl)) by (unfold lc; rewrite render_canon; apply ctext_reblank).
    split; [|split].
    + destruct (format_structs (reblank sl) lc [] Hok' (layout_lex _) (layout_hws _) (layout_sep _) ltac:(constructor)) as [s Hs].
      rewrite canon_ctext, ctext_reblank, Hy in Hs. eauto.
    + destruct (read_structs (reblank sl) lc [] Hok' (layout_lex _) (layout_hws _) (layout_sep _) ltac:(constructor)) as [s Hs].
      rewrite Hy in Hs. unfold file_of in *. rewrite add_all_reblank in Hs. eauto.
    + exact (read_structs sl l tail Hok Hl Hws Hsep Ht).
Qed.

