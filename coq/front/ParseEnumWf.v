(* Whatever File ReadFile returns - for EVERY input - has every enum member's value inside the enum's base type, literal
   or [flags] expression alike (C13's clause "an enum value outside its base type": rejected by ReadFile itself; a flag
   expression is evaluated with wrap-around at the base type's width, so its value is in range by construction). *)
From Coq Require Import List NArith ZArith Bool Arith Lia.
Require Import Bebop.front.Tok Bebop.front.Parse Bebop.front.ParseWf.
Import ListNotations.

Definition in_range (uns : bool) (bits : N) (z : Z) : Prop :=
  if uns then (0 <= z < 2 ^ Z.of_N bits)%Z else (- 2 ^ (Z.of_N bits - 1) <= z < 2 ^ (Z.of_N bits - 1))%Z.

Lemma wrap_range uns bits z : (0 < bits)%N -> in_range uns bits (wrap uns bits z).
Proof.
  intros Hb. unfold wrap, in_range. set (m := (2 ^ Z.of_N bits)%Z).
  assert (Hm : (0 < m)%Z) by (apply Z.pow_pos_nonneg; lia).
  assert (Hh : (m = 2 * 2 ^ (Z.of_N bits - 1))%Z).
  { unfold m. replace (Z.of_N bits) with (Z.succ (Z.of_N bits - 1)) at 1 by lia. rewrite Z.pow_succ_r by lia. reflexivity. }
  pose proof (Z.mod_pos_bound z m Hm) as Hu. destruct uns; [exact Hu|].
  assert (Hd : (m / 2 = 2 ^ (Z.of_N bits - 1))%Z) by (rewrite Hh, Z.mul_comm, Z.div_mul; lia).
  destruct (Z.ltb_spec (z mod m) (m / 2)); lia.
Qed.

Lemma eval_range uns bits opts e z : (0 < bits)%N -> eval uns bits opts e = EvOk z -> in_range uns bits z.
Proof.
  intros Hb. revert z. induction e as [t|t|e IH|op l IHl r IHr]; intros z; cbn [eval].
  - destruct (find_opt _ opts); [|discriminate]. intros [= <-]. exact (wrap_range uns bits _ Hb).
  - destruct uns; [destruct (parse_uint _ _ _)|destruct (parse_int _ _ _)]; try discriminate; intros [= <-]; [exact (wrap_range true bits _ Hb)|exact (wrap_range false bits _ Hb)].
  - apply IH.
  - destruct (eval uns bits opts l) as [a| |] eqn:El; try discriminate. destruct (eval uns bits opts r) as [b| |] eqn:Er; try discriminate.
    specialize (IHl a eq_refl).
    assert (H0 : in_range uns bits 0%Z).
    { assert (0 < 2 ^ (Z.of_N bits - 1))%Z by (apply Z.pow_pos_nonneg; lia). assert (0 < 2 ^ Z.of_N bits)%Z by (apply Z.pow_pos_nonneg; lia).
      unfold in_range. destruct uns; lia. }
    destruct (N.eqb op kAmp); [intros [= <-]; exact (wrap_range uns bits _ Hb)|].
    destruct (N.eqb op kVBar); [intros [= <-]; exact (wrap_range uns bits _ Hb)|].
    destruct (b <? 0)%Z; [discriminate|].
    destruct (N.eqb op kDCL).
    { destruct (Z.of_N bits <=? b)%Z; intros [= <-]; [exact H0|exact (wrap_range uns bits _ Hb)]. }
    destruct (Z.of_N bits <=? b)%Z; [|intros [= <-]; exact (wrap_range uns bits _ Hb)].
    destruct (Z.ltb_spec a 0) as [Ha|Ha]; intros [= <-]; [|exact H0].
    (* shift right of a negative value by the whole width: -1, signed only *)
    unfold in_range in *. destruct uns; [lia|].
    assert (0 < 2 ^ (Z.of_N bits - 1))%Z by (apply Z.pow_pos_nonneg; lia). lia.
Qed.

(* a member's stored value is in the range of (uns, bits) *)
Definition opt_wf (uns : bool) (bits : N) (o : enumopt) : Prop :=
  if uns then (o_uvalue o < 2 ^ bits)%N else (- 2 ^ (Z.of_N bits - 1) <= o_value o < 2 ^ (Z.of_N bits - 1))%Z.
Definition vu_wf (uns : bool) (bits : N) (vu : Z * N) : Prop :=
  if uns then (snd vu < 2 ^ bits)%N else (- 2 ^ (Z.of_N bits - 1) <= fst vu < 2 ^ (Z.of_N bits - 1))%Z.

Lemma parse_uint_range b0 bits l n : parse_uint b0 bits l = Some n -> (n < 2 ^ bits)%N.
Proof. unfold parse_uint. destruct (parse_mag b0 l) as [m|]; [|discriminate]. destruct (N.ltb_spec m (2 ^ bits)); [intros [= <-]; assumption|discriminate]. Qed.
Lemma parse_int_range b0 bits l z : parse_int b0 bits l = Some z -> (- 2 ^ (Z.of_N bits - 1) <= z < 2 ^ (Z.of_N bits - 1))%Z.
Proof.
  unfold parse_int. destruct (match l with 45%N :: r => (true, r) | 43%N :: r => (false, r) | _ => (false, l) end) as [neg l'].
  destruct (parse_mag b0 l') as [m|]; [|discriminate]. cbv zeta.
  destruct (_ <=? _)%Z eqn:E1; [|discriminate]. destruct (_ <? _)%Z eqn:E2; [|discriminate]. cbn [andb]. intros [= <-].
  apply Z.leb_le in E1. apply Z.ltb_lt in E2. lia.
Qed.

Lemma enum_value_wf g prev bf uns bits : (0 < bits)%N -> post (read_enum_value g prev bf uns bits) (vu_wf uns bits).
Proof.
  intros Hb. unfold read_enum_value. apply post_bind_any; intros _. destruct (negb bf).
  - apply post_bind_any; intros toks. destruct toks as [|t ts]; [apply post_fail|]. destruct uns.
    + destruct (parse_uint true bits (concrete t)) as [n|] eqn:E; [|apply post_fail]. apply post_ret. exact (parse_uint_range _ _ _ _ E).
    + destruct (parse_int true bits (concrete t)) as [z|] eqn:E; [|apply post_fail]. apply post_ret. exact (parse_int_range _ _ _ _ E).
  - apply post_bind_any; intros toks. destruct (parse_expr _ toks) as [e|]; [|apply post_fail].
    destruct (eval uns bits prev e) as [z| |] eqn:E; [|apply post_fail|apply post_panic].
    pose proof (eval_range uns bits prev e z Hb E) as Hr. unfold in_range in Hr. destruct uns; apply post_ret; unfold vu_wf; cbn [fst snd]; [|exact Hr].
    apply N2Z.inj_lt. rewrite Z2N.id by lia. rewrite N2Z.inj_pow. exact (proj2 Hr).
Qed.

Lemma enum_loop_wf uns bits : (0 < bits)%N -> forall g bf opts cm dm dep, Forall (opt_wf uns bits) opts ->
  post (read_enum_loop g bf uns bits opts cm dm dep) (Forall (opt_wf uns bits)).
Proof.
  intros Hb. induction g as [|g IH]; intros bf opts cm dm dep Hw; [apply post_nofuel|]. cbn [read_enum_loop].
  repeat first
    [ pw0
    | apply post_ret; exact Hw
    | apply IH; exact Hw
    | match goal with |- post (bind (read_enum_value _ _ _ _ _) _) _ =>
        apply (post_bind _ _ (vu_wf uns bits)); [apply enum_value_wf; exact Hb|intros vu Hvu] end
    | match goal with Hvu : vu_wf uns bits ?vu |- post (read_enum_loop _ _ _ _ (_ ++ [_]) _ _ _) _ =>
        apply IH; apply Forall_app; split; [exact Hw|constructor; [|constructor]]; unfold opt_wf, vu_wf in *; destruct uns; cbn [o_uvalue o_value]; exact Hvu end
    | apply post_bind_any; intro ].
Qed.

Definition ebits (e : enum_) : N :=
  match is_uint_prim (e_simple e), is_int_prim (e_simple e) with Some b, _ => b | _, Some b => b | _, _ => 32%N end.
Definition enum_wf (e : enum_) : Prop := Forall (opt_wf (e_unsigned e) (ebits e)) (e_opts e).

Lemma uint_prim_pos s b : is_uint_prim s = Some b -> (0 < b)%N.
Proof. unfold is_uint_prim. repeat match goal with |- context [if ?c then _ else _] => destruct c end; intros [= <-]; lia. Qed.
Lemma int_prim_pos s b : is_int_prim s = Some b -> (0 < b)%N.
Proof. unfold is_int_prim. repeat match goal with |- context [if ?c then _ else _] => destruct c end; intros [= <-]; lia. Qed.

Lemma read_enum_wf g bf : post (read_enum g bf) enum_wf.
Proof.
  unfold read_enum. apply post_bind_any; intros toks. apply post_bind_any; intros _. apply post_bind_any; intros k.
  apply (post_bind _ _ (fun _ => True)); [intros s; destruct (_ s); exact I|]. intros simple _.
  apply post_bind_any; intros _.
  destruct (is_uint_prim simple) as [b|] eqn:Eu; [|destruct (is_int_prim simple) as [b|] eqn:Ei].
  - apply (post_bind _ _ (Forall (opt_wf true b))); [apply enum_loop_wf; [exact (uint_prim_pos _ _ Eu)|constructor]|].
    intros opts Ho. apply post_ret. unfold enum_wf, ebits. cbn [e_simple e_unsigned e_opts]. rewrite Eu. exact Ho.
  - apply (post_bind _ _ (Forall (opt_wf false b))); [apply enum_loop_wf; [exact (int_prim_pos _ _ Ei)|constructor]|].
    intros opts Ho. apply post_ret. unfold enum_wf, ebits. cbn [e_simple e_unsigned e_opts]. rewrite Eu, Ei. exact Ho.
  - apply (post_bind _ _ (Forall (opt_wf true 32%N))); [apply enum_loop_wf; [lia|constructor]|].
    intros opts Ho. apply post_ret. unfold enum_wf, ebits. cbn [e_simple e_unsigned e_opts]. rewrite Eu, Ei. exact Ho.
Qed.

Lemma top_loop_enums : forall g f cm opc ro bf, Forall enum_wf (enums f) -> post (top_loop g f cm opc ro bf) (fun f' => Forall enum_wf (enums f')).
Proof.
  induction g as [|g IH]; intros f cm opc ro bf Hw; [apply post_nofuel|]. cbn [top_loop].
  repeat first
    [ pw0
    | apply post_ret; exact Hw
    | apply IH; exact Hw
    | progress cbv beta
    | match goal with |- post (bind (read_enum _ _) _) _ => apply (post_bind _ _ enum_wf); [apply read_enum_wf|intros en Hen] end
    | match goal with Hen : enum_wf ?en |- post (top_loop _ _ _ _ _ _) _ =>
        apply IH; cbn [enums]; apply Forall_app; split; [exact Hw|constructor; [exact Hen|constructor]] end
    | apply post_bind_any; intro ].
Qed.

Theorem read_file_enums input fails f s : read_file input fails = POk f s -> Forall enum_wf (enums f).
Proof.
  intros E. unfold read_file in E.
  pose proof (top_loop_enums (2 * (length input + margin) + 8)
    {| structs := []; messages := []; enums := []; unions := []; consts := []; imports := []; gopackage := [] |} [] 0%N false false
    ltac:(constructor)) as H.
  specialize (H {| rs := next_results (length input + margin)
                      {| buf := {| rest := input; lastByte := None; lastRune := None; failing := fails |}; errs := [] |};
                   cur := tok0; keep := false; perrs := [] |}).
  rewrite E in H. exact H.
Qed.
Print Assumptions read_file_enums.
