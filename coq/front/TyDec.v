(* Decorated definitions: ANY sequence of `//` doc comment lines and [opcode(..)] lines in front of a definition - a generic
   construction over "bases" (definitions whose parse step is known for every pending comment list and opcode), so that
   every combination is an item of the framework of GenInv.v: the comments become the definition's comment, the last opcode
   line its opcode; Format writes the lines back, a blank line before the first one only if it is an opcode line. *)
From Coq Require Import List NArith ZArith Bool Arith Lia.
Require Import Bebop.front.Tok Bebop.front.Parse Bebop.front.Fmt Bebop.front.TokInv Bebop.front.LexInv Bebop.front.ParseInv Bebop.front.FmtInv Bebop.front.MsgInv.
Require Import Bebop.front.GenInv Bebop.front.Items Bebop.front.TyInv Bebop.front.TyMsg Bebop.front.TyItems Bebop.front.TyUnion Bebop.front.TyUnionItem.
Require Import Bebop.front.TyOpcode Bebop.front.TyEnum Bebop.front.TyDep Bebop.front.TyDoc.
Import ListNotations.

(* ---------- prefix lines ---------- *)
Inductive prefix := PDoc (body : bytes) | POpc (l : oplit).
Definition ptoks (p : prefix) : list token := match p with PDoc b => [lcT b] | POpc l => opc_toks l end.
Definition prefix_ok (p : prefix) : Prop := match p with PDoc b => cbody_ok b | POpc l => ol_ok l end.
Definition pcm (P : list prefix) (cm : list bytes) : list bytes := fold_left (fun cm p => match p with PDoc b => cm ++ [b] | POpc _ => cm end) P cm.
Definition popc (P : list prefix) (opc : N) : N := fold_left (fun o p => match p with PDoc _ => o | POpc l => ol_val l end) P opc.
Definition pfneed (p : prefix) : nat := match p with PDoc _ => 1 | POpc _ => 2 end.
Definition pfsum (P : list prefix) : nat := fold_right (fun p acc => pfneed p + acc) 0 P.
Definition ptext (p : prefix) : bytes := match p with PDoc b => 47%N :: 47%N :: b ++ [10%N] | POpc l => opc_text l end.
Definition ptexts (P : list prefix) : bytes := flat_map ptext P.
Definition blankP (P : list prefix) : bool := match P with PDoc _ :: _ => false | _ => true end.

Lemma top_opcode_gen l F f cm opc tail c : ol_ok l ->
  top_loop (S F) f cm opc false false (mk (res (opc_toks l) tail) c false) = top_loop F f cm (ol_val l) false false (mk tail nlT false).
Proof.
  intros Hok. unfold opc_toks, res. cbn [map app top_loop]. destruct l as [ds v|a b c0 d]; cbn [ol_tok ol_val ol_ok] in *.
  - ostep. rewrite Hok. ostep. reflexivity.
  - destruct Hok as [Ha Hd]. ostep. rewrite (trim4 a b c0 d Ha Hd). ostep. reflexivity.
Qed.
Lemma top_doc_gen body F f cm opc tail c : cbody_ok body ->
  top_loop (S F) f cm opc false false (mk (res [lcT body] tail) c false) = top_loop F f (cm ++ [body]) opc false false (mk tail (lcT body) false).
Proof.
  intros H. unfold res. cbn [map app top_loop]. cstep. change {| kind := 32; concrete := 47%N :: 47%N :: body ++ [10%N] |} with (lcT body).
  rewrite (sanitize_lc body H). reflexivity.
Qed.

Lemma top_prefixes : forall P g f cm opc tail c, Forall prefix_ok P ->
  exists c', top_loop (length P + g) f cm opc false false (mk (res (flat_map ptoks P) tail) c false)
           = top_loop g f (pcm P cm) (popc P opc) false false (mk tail c' false).
Proof.
  induction P as [|p P IH]; intros g f cm opc tail c H.
  - exists c. reflexivity.
  - inversion H as [|? ? Hp Hr]; subst. cbn [length plus flat_map pcm popc fold_left]. rewrite res_app. destruct p as [b|l]; cbn [ptoks prefix_ok] in *.
    + rewrite (top_doc_gen b _ f cm opc _ c Hp). apply IH. exact Hr.
    + rewrite (top_opcode_gen l _ f cm opc _ c Hp). apply IH. exact Hr.
Qed.

(* the formatter over the prefix lines: output and the pending-blank-line flag *)
Definition pstepf (st : bytes * bool) (p : prefix) : bytes * bool :=
  match p with
  | PDoc b => (fst st ++ ptext p, false)
  | POpc l => ((if snd st then fst st ++ nlb else fst st) ++ ptext p, false)
  end.
Lemma fmt_prefixes : forall P g out nl tail c,
  exists c', format_loop (pfsum P + g) out false nl (mk (res (flat_map ptoks P) tail) c false)
           = format_loop g (fst (fold_left pstepf P (out, nl))) false (snd (fold_left pstepf P (out, nl))) (mk tail c' false).
Proof.
  induction P as [|p P IH]; intros g out nl tail c.
  - exists c. reflexivity.
  - cbn [pfsum fold_right flat_map fold_left]. fold (pfsum P). rewrite res_app. destruct p as [b|l]; cbn [ptoks pfneed pstepf fst snd ptext].
    + replace (1 + pfsum P + g) with (S (pfsum P + g)) by lia. rewrite fmt_top_doc. apply IH.
    + replace (2 + pfsum P + g) with (S (S (pfsum P + g))) by lia. rewrite fmt_top_opcode. apply IH.
Qed.
Lemma pstepf_spec : forall P out nl, P <> [] ->
  fold_left pstepf P (out, nl) = ((if nl && blankP P then out ++ nlb else out) ++ ptexts P, false).
Proof.
  intros P out nl Hne. destruct P as [|p P]; [congruence|]. cbn [fold_left].
  assert (G : forall Q o, fold_left pstepf Q (o, false) = (o ++ ptexts Q, false)).
  { induction Q as [|q Q IHQ]; intros o; [cbn; now rewrite app_nil_r|]. cbn [fold_left ptexts flat_map]. fold (ptexts Q).
    destruct q; cbn [pstepf fst snd]; rewrite IHQ, <- app_assoc; reflexivity. }
  destruct p as [b|l]; cbn [pstepf fst snd blankP ptexts flat_map]; fold (ptexts P); rewrite G.
  - rewrite andb_false_r, <- app_assoc. reflexivity.
  - rewrite andb_true_r, <- app_assoc. reflexivity.
Qed.

(* ---------- bases: definitions whose steps are known under any pending comment list and opcode ---------- *)
Record gbase := { gb_toks : list token; gb_need : nat; gb_fneed : nat; gb_upd : bytes -> N -> file -> file; gb_text : bytes; gb_opc0 : bool }.
Record gbase_ok (b : gbase) (x : xitem) : Prop := {
  gb_p : forall cm opc g f tail c, (gb_opc0 b = true -> opc = 0%N) -> exists g', g <= g' /\
    top_loop (gb_need b + g) f cm opc false false (mk (res (gb_toks b) tail) c false)
    = top_loop g' (gb_upd b (join_nl cm) opc f) [] 0%N false false (mk tail nlT false);
  gb_f : forall g out nl tail c, exists g', g <= g' /\
    format_loop (gb_fneed b + g) out false nl (mk (res (gb_toks b) tail) c false)
    = format_loop g' ((if nl then out ++ nlb else out) ++ gb_text b) false true (mk tail nlT false);
  gb_toks_ok : map tok_of (x_lex x) = gb_toks b;
  gb_lex : Forall lex_ok (x_lex x);
  gb_need_ok : gb_need b <= length (gb_toks b) /\ gb_fneed b <= length (gb_toks b);
  gb_lay : map snd (x_lay x) = x_lex x;
  gb_hws : Forall (fun p => hws (fst p)) (x_lay x);
  gb_sep : forall rest, sep_ok rest -> sep_ok (x_lay x ++ rest);
  gb_render : forall t, render (x_lay x) t = gb_text b ++ t
}.

Definition dec_item (P : list prefix) (b : gbase) : item :=
  {| it_toks := flat_map ptoks P ++ gb_toks b; it_need := length P + gb_need b; it_fneed := pfsum P + gb_fneed b;
     it_upd := gb_upd b (join_nl (pcm P [])) (popc P 0%N); it_text := ptexts P ++ gb_text b; it_blank := blankP P |}.

(* the text level of the prefix lines *)
Inductive lprefix := LDoc (body : bytes) | LOpc (l : lol).
Definition bp (p : lprefix) : prefix := match p with LDoc b => PDoc b | LOpc l => POpc (bol l) end.
Definition lprefix_ok (p : lprefix) : Prop := match p with LDoc b => cbody_ok b | LOpc l => lol_ok l end.
Definition plex (p : lprefix) : list lexeme := match p with LDoc b => [LC b] | LOpc l => opc_lex l end.
Definition dec_x (P : list lprefix) (x : xitem) : xitem :=
  {| x_lex := flat_map plex P ++ x_lex x; x_lay := nows (flat_map plex P) ++ x_lay x |}.

Lemma plex_toks P : Forall lprefix_ok P -> map tok_of (flat_map plex P) = flat_map ptoks (map bp P).
Proof.
  induction 1 as [|p P Hp _ IH]; [reflexivity|]. cbn [flat_map map]. rewrite map_app, IH. f_equal.
  destruct p as [b|l]; cbn [plex bp ptoks]; [reflexivity|exact (opc_toks_tie l Hp)].
Qed.
Lemma plex_ok P : Forall lprefix_ok P -> Forall lex_ok (flat_map plex P).
Proof.
  induction 1 as [|p P Hp _ IH]; [constructor|]. cbn [flat_map]. apply Forall_app. split; [|exact IH].
  destruct p as [b|l]; cbn [plex lprefix_ok] in *; [constructor; [now apply cbody_lex|constructor]|exact (opc_lex_ok l Hp)].
Qed.
Lemma nows_app a b : nows (a ++ b) = nows a ++ nows b.
Proof. unfold nows. apply map_app. Qed.
Lemma plex_sep P rest : sep_ok rest -> sep_ok (nows (flat_map plex P) ++ rest).
Proof.
  intros Hr. induction P as [|p P IH]; [exact Hr|]. cbn [flat_map]. rewrite nows_app, <- app_assoc.
  destruct p as [b|l]; cbn [plex]; [cbn [nows map app sep_ok needs_end]; split; [exact I|exact IH]|apply opc_sep; exact IH].
Qed.
Lemma plex_ren P t : render (nows (flat_map plex P)) t = ptexts (map bp P) ++ t.
Proof.
  induction P as [|p P IH]; [reflexivity|]. cbn [flat_map map ptexts]. fold (ptexts (map bp P)). rewrite nows_app, render_app, IH.
  destruct p as [b|l]; cbn [plex bp ptext].
  - cbn [nows map render text_of]. repeat (rewrite <- app_assoc || rewrite <- app_comm_cons). reflexivity.
  - rewrite opc_ren, <- app_assoc. reflexivity.
Qed.
Lemma prefix_ok_bp P : Forall lprefix_ok P -> Forall prefix_ok (map bp P).
Proof. induction 1 as [|p P Hp _ IH]; cbn [map]; constructor; [destruct p; cbn [bp prefix_ok lprefix_ok] in *; [exact Hp|now apply lol_ok_ol]|exact IH]. Qed.
Lemma ptoks_len P : length P <= length (flat_map ptoks P) /\ pfsum P <= length (flat_map ptoks P).
Proof.
  induction P as [|p P [IH1 IH2]]; [cbn; lia|]. cbn [length pfsum fold_right flat_map]. fold (pfsum P). rewrite app_length.
  destruct p; cbn [ptoks pfneed opc_toks length]; lia.
Qed.

Theorem dec_item_ok P b x : gbase_ok b x -> Forall lprefix_ok P -> (gb_opc0 b = true -> popc (map bp P) 0%N = 0%N) ->
  item_ok (dec_item (map bp P) b) (dec_x P x).
Proof.
  intros Hb HP Ho. pose proof (prefix_ok_bp P HP) as HP'. constructor.
  - intros g f tail c. cbn [dec_item it_need it_toks it_upd]. rewrite res_app.
    destruct (top_prefixes (map bp P) (gb_need b + g) f [] 0%N (res (gb_toks b) tail) c HP') as [c' E].
    replace (length (map bp P) + gb_need b + g) with (length (map bp P) + (gb_need b + g)) by lia. rewrite E.
    exact (gb_p b x Hb (pcm (map bp P) []) (popc (map bp P) 0%N) g f tail c' Ho).
  - intros g out nl tail c. cbn [dec_item it_fneed it_toks it_text it_blank]. rewrite res_app.
    destruct (fmt_prefixes (map bp P) (gb_fneed b + g) out nl (res (gb_toks b) tail) c) as [c' E].
    replace (pfsum (map bp P) + gb_fneed b + g) with (pfsum (map bp P) + (gb_fneed b + g)) by lia. rewrite E.
    destruct (map bp P) as [|p0 P0] eqn:EP.
    + cbn [fold_left fst snd blankP ptexts flat_map app]. rewrite andb_true_r. exact (gb_f b x Hb g out nl tail c').
    + rewrite (pstepf_spec (p0 :: P0) out nl ltac:(discriminate)). cbn [fst snd].
      destruct (gb_f b x Hb g ((if nl && blankP (p0 :: P0) then out ++ nlb else out) ++ ptexts (p0 :: P0)) false tail c') as (g' & Hg & E2).
      exists g'. split; [exact Hg|]. rewrite E2, app_assoc. reflexivity.
  - cbn [dec_x x_lex dec_item it_toks]. rewrite map_app, (plex_toks P HP), (gb_toks_ok b x Hb). reflexivity.
  - cbn [dec_x x_lex]. apply Forall_app. split; [exact (plex_ok P HP)|exact (gb_lex b x Hb)].
  - cbn [dec_item it_need it_fneed it_toks]. rewrite app_length. destruct (ptoks_len (map bp P)). destruct (gb_need_ok b x Hb). lia.
  - cbn [dec_x x_lay x_lex]. rewrite map_app, nows_snd, (gb_lay b x Hb). reflexivity.
  - cbn [dec_x x_lay]. apply Forall_app. split; [apply nows_hws|exact (gb_hws b x Hb)].
  - intros rest Hr. cbn [dec_x x_lay]. rewrite <- app_assoc. apply plex_sep. exact (gb_sep b x Hb rest Hr).
  - intros t. cbn [dec_x x_lay dec_item it_text]. rewrite render_app, (gb_render b x Hb), plex_ren. now rewrite app_assoc.
Qed.

(* a base from an item of the framework plus its parse step under any pending comment list and opcode *)
Lemma gbase_from_item (i : item) (x : xitem) (b : gbase) :
  item_ok i x -> it_blank i = true -> gb_toks b = it_toks i -> gb_need b = it_need i -> gb_fneed b = it_fneed i -> gb_text b = it_text i ->
  (forall cm opc g f tail c, (gb_opc0 b = true -> opc = 0%N) -> exists g', g <= g' /\
     top_loop (gb_need b + g) f cm opc false false (mk (res (gb_toks b) tail) c false)
     = top_loop g' (gb_upd b (join_nl cm) opc f) [] 0%N false false (mk tail nlT false)) ->
  gbase_ok b x.
Proof.
  intros Hi Hbl Et En Ef Ex Hp. constructor.
  - exact Hp.
  - intros g out nl tail c. rewrite Ef, Et, Ex. pose proof (ok_f i x Hi g out nl tail c) as H. rewrite Hbl, andb_true_r in H. exact H.
  - rewrite Et. exact (ok_toks i x Hi).
  - exact (ok_lex i x Hi).
  - rewrite En, Ef, Et. exact (ok_need i x Hi).
  - exact (ok_lay i x Hi).
  - exact (ok_hws i x Hi).
  - exact (ok_sep i x Hi).
  - rewrite Ex. exact (ok_render i x Hi).
Qed.

(* ---------- the heads of the top-level loop under any pending comment list and opcode ---------- *)
Lemma top_struct_head_gen F f cm opc tail c :
  top_loop (S F) f cm opc false false (mk (res [structT] tail) c false)
  = bind (read_struct F)
         (fun st => top_loop F (add_struct f {| s_name := s_name st; s_comment := join_nl cm; s_fields := s_fields st; s_opcode := opc; s_readonly := false |})
                             [] 0%N false false) (mk tail structT false).
Proof. top_step. reflexivity. Qed.
Lemma top_message_head_gen F f cm opc tail c :
  top_loop (S F) f cm opc false false (mk (res [messageT] tail) c false)
  = bind (read_message F)
         (fun m => top_loop F (add_message f {| m_name := m_name m; m_comment := join_nl cm; m_fields := m_fields m; m_opcode := opc |})
                            [] 0%N false false) (mk tail messageT false).
Proof. top_step_m. reflexivity. Qed.
Lemma top_union_head_gen F f cm opc tail c :
  top_loop (S F) f cm opc false false (mk (res [unionT] tail) c false)
  = bind (read_union F)
         (fun u => top_loop F (add_union f {| un_name := un_name u; un_comment := join_nl cm; un_fields := un_fields u; un_opcode := opc |}) [] 0%N false false)
         (mk tail unionT false).
Proof.
  cbn [top_loop]. unfold res, mk. cbn [map app].
  unfold bind at 1. unfold p_next at 1. cbn [keep rs cur perrs negb].
  unfold bind at 1. unfold p_tok at 1. cbn [cur kind unionT].
  cbn [N.eqb Pos.eqb kNewline kBlockC kLineC kOpenSq andb orb negb]. reflexivity.
Qed.
Lemma top_ro_head_gen F f cm opc tail c :
  top_loop (S F) f cm opc false false (mk (res [readonlyT; structT] tail) c false)
  = bind (read_struct F)
         (fun st => top_loop F (add_struct f {| s_name := s_name st; s_comment := join_nl cm; s_fields := s_fields st; s_opcode := opc; s_readonly := true |})
                             [] 0%N false false) (mk tail structT false).
Proof.
  cbn [top_loop]. unfold res, mk. cbn [map app].
  unfold bind at 1. unfold p_next at 1. cbn [keep rs cur perrs negb].
  unfold bind at 1. unfold p_tok at 1. cbn [cur kind readonlyT].
  cbn [N.eqb Pos.eqb kNewline kBlockC kLineC kOpenSq andb orb negb].
  unfold bind at 1. unfold p_next at 1. cbn [keep rs cur perrs negb].
  unfold bind at 1. unfold p_kind at 1. cbn [cur kind structT N.eqb Pos.eqb]. reflexivity.
Qed.
Lemma top_enum_head_gen F f cm tail c :
  top_loop (S F) f cm 0%N false false (mk (res [enumT] tail) c false)
  = bind (read_enum F false)
         (fun en => top_loop F (add_enum f {| e_name := e_name en; e_comment := join_nl cm; e_opts := e_opts en; e_simple := e_simple en; e_unsigned := e_unsigned en |})
                             [] 0%N false false) (mk tail enumT false).
Proof.
  cbn [top_loop]. unfold res, mk. cbn [map app].
  unfold bind at 1. unfold p_next at 1. cbn [keep rs cur perrs negb].
  unfold bind at 1. unfold p_tok at 1. cbn [cur kind enumT].
  cbn [N.eqb Pos.eqb kNewline kBlockC kLineC kOpenSq andb orb negb]. reflexivity.
Qed.

(* ---------- the bases ---------- *)
Definition gstruct_of (cmt : bytes) (oc : N) (ro : bool) (nm : bytes) (fl : list tfield) : struct_ :=
  {| s_name := nm; s_comment := cmt; s_fields := map tfield_of fl; s_opcode := oc; s_readonly := ro |}.
Definition gmessage_of (cmt : bytes) (oc : N) (nm : bytes) (fl : list tmfield) : message :=
  {| m_name := nm; m_comment := cmt; m_fields := map tmfield_of fl; m_opcode := oc |}.
Definition gdmessage_of (cmt : bytes) (oc : N) (nm : bytes) (fl : list dfield) : message :=
  {| m_name := nm; m_comment := cmt; m_fields := map dfield_of fl; m_opcode := oc |}.
Definition gunion_of (cmt : bytes) (oc : N) (nm : bytes) (bl : list ubranch) : union_ :=
  {| un_name := nm; un_comment := cmt; un_fields := map ub_field bl; un_opcode := oc |}.
Definition genum_of (cmt : bytes) (nm tname : bytes) (uns : bool) (ml : list emember) : enum_ :=
  {| e_name := nm; e_comment := cmt; e_opts := map (tem_opt uns) ml; e_simple := tname; e_unsigned := uns |}.

Definition b_struct (nm : ident) (fl : list tfdef) : gbase :=
  {| gb_toks := it_toks (st_item nm fl); gb_need := it_need (st_item nm fl); gb_fneed := it_fneed (st_item nm fl);
     gb_upd := fun cmt oc f => add_struct f (gstruct_of cmt oc false (ibytes nm) (map btf fl)); gb_text := it_text (st_item nm fl); gb_opc0 := false |}.
Lemma b_struct_ok nm fl : ident_ok nm -> Forall tfdef_ok fl -> gbase_ok (b_struct nm fl) (st_x nm fl).
Proof.
  intros Hn Hf. apply (gbase_from_item (st_item nm fl) (st_x nm fl) (b_struct nm fl) (st_item_ok nm fl Hn Hf)); try reflexivity.
  intros cm opc g f tail c _. pose proof (keys_of fl Hf) as Hk. cbn [b_struct gb_need gb_toks gb_upd st_item it_need it_toks].
  exists (fsum (map btf fl) + S g). split; [lia|].
  replace (fsum (map btf fl) + 3 + g) with (S (fsum (map btf fl) + S (S g))) by lia. unfold tstruct_toks.
  change ([structT; idT (ibytes nm); openT; nlT] ++ tfields_toks (map btf fl) ++ [closeT; nlT])
    with ([structT] ++ ([idT (ibytes nm); openT; nlT] ++ tfields_toks (map btf fl) ++ [closeT] ++ [nlT])).
  rewrite res_app, top_struct_head_gen. unfold bind.
  replace ([idT (ibytes nm); openT; nlT] ++ tfields_toks (map btf fl) ++ [closeT] ++ [nlT])
    with (([idT (ibytes nm); openT; nlT] ++ tfields_toks (map btf fl) ++ [closeT]) ++ [nlT]) by (rewrite <- !app_assoc; reflexivity).
  rewrite res_app, (read_tstruct_ok (ibytes nm) (map btf fl) g _ _ Hk). cbn [s_name s_fields tstruct_of].
  replace (fsum (map btf fl) + S (S g)) with (S (fsum (map btf fl) + S g)) by lia.
  rewrite top_newline. reflexivity.
Qed.

Definition b_rostruct (nm : ident) (fl : list tfdef) : gbase :=
  {| gb_toks := it_toks (rt_item nm fl); gb_need := it_need (rt_item nm fl); gb_fneed := it_fneed (rt_item nm fl);
     gb_upd := fun cmt oc f => add_struct f (gstruct_of cmt oc true (ibytes nm) (map btf fl)); gb_text := it_text (rt_item nm fl); gb_opc0 := false |}.
Lemma b_rostruct_ok nm fl : ident_ok nm -> Forall tfdef_ok fl -> gbase_ok (b_rostruct nm fl) (rt_x nm fl).
Proof.
  intros Hn Hf. apply (gbase_from_item (rt_item nm fl) (rt_x nm fl) (b_rostruct nm fl) (rt_item_ok nm fl Hn Hf)); try reflexivity.
  intros cm opc g f tail c _. pose proof (keys_of fl Hf) as Hk. cbn [b_rostruct gb_need gb_toks gb_upd rt_item it_need it_toks].
  exists (fsum (map btf fl) + S g). split; [lia|].
  replace (fsum (map btf fl) + 3 + g) with (S (fsum (map btf fl) + S (S g))) by lia. unfold tstruct_toks.
  change (readonlyT :: [structT; idT (ibytes nm); openT; nlT] ++ tfields_toks (map btf fl) ++ [closeT; nlT])
    with ([readonlyT; structT] ++ ([idT (ibytes nm); openT; nlT] ++ tfields_toks (map btf fl) ++ [closeT] ++ [nlT])).
  rewrite res_app, top_ro_head_gen. unfold bind.
  replace ([idT (ibytes nm); openT; nlT] ++ tfields_toks (map btf fl) ++ [closeT] ++ [nlT])
    with (([idT (ibytes nm); openT; nlT] ++ tfields_toks (map btf fl) ++ [closeT]) ++ [nlT]) by (rewrite <- !app_assoc; reflexivity).
  rewrite res_app, (read_tstruct_ok (ibytes nm) (map btf fl) g _ _ Hk). cbn [s_name s_fields tstruct_of].
  replace (fsum (map btf fl) + S (S g)) with (S (fsum (map btf fl) + S g)) by lia.
  rewrite top_newline. reflexivity.
Qed.

Definition b_message (nm : ident) (fl : list tmfdef) : gbase :=
  {| gb_toks := it_toks (mt_item nm fl); gb_need := it_need (mt_item nm fl); gb_fneed := it_fneed (mt_item nm fl);
     gb_upd := fun cmt oc f => add_message f (gmessage_of cmt oc (ibytes nm) (map btm fl)); gb_text := it_text (mt_item nm fl); gb_opc0 := false |}.
Lemma b_message_ok nm fl : ident_ok nm -> Forall tmfdef_ok fl -> tmfs_ok [] (map btm fl) -> gbase_ok (b_message nm fl) (mt_x nm fl).
Proof.
  intros Hn Hf Hm. apply (gbase_from_item (mt_item nm fl) (mt_x nm fl) (b_message nm fl) (mt_item_ok nm fl Hn Hf Hm)); try reflexivity.
  intros cm opc g f tail c _. cbn [b_message gb_need gb_toks gb_upd mt_item it_need it_toks].
  exists (fsum (map snd (map btm fl)) + S g). split; [lia|].
  replace (fsum (map snd (map btm fl)) + 3 + g) with (S (fsum (map snd (map btm fl)) + S (S g))) by lia. unfold tmessage_toks.
  change ([messageT; idT (ibytes nm); openT; nlT] ++ tmfields_toks (map btm fl) ++ [closeT; nlT])
    with ([messageT] ++ ([idT (ibytes nm); openT; nlT] ++ tmfields_toks (map btm fl) ++ [closeT] ++ [nlT])).
  rewrite res_app, top_message_head_gen. unfold bind.
  replace ([idT (ibytes nm); openT; nlT] ++ tmfields_toks (map btm fl) ++ [closeT] ++ [nlT])
    with (([idT (ibytes nm); openT; nlT] ++ tmfields_toks (map btm fl) ++ [closeT]) ++ [nlT]) by (rewrite <- !app_assoc; reflexivity).
  rewrite res_app, (read_tmessage_ok (ibytes nm) (map btm fl) g _ _ Hm). cbn [m_name m_fields tmessage_of].
  replace (fsum (map snd (map btm fl)) + S (S g)) with (S (fsum (map snd (map btm fl)) + S g)) by lia.
  rewrite top_newline. reflexivity.
Qed.

Definition b_dmessage (nm : ident) (fl : list ldfield) : gbase :=
  {| gb_toks := it_toks (md_item nm fl); gb_need := it_need (md_item nm fl); gb_fneed := it_fneed (md_item nm fl);
     gb_upd := fun cmt oc f => add_message f (gdmessage_of cmt oc (ibytes nm) (map bdf fl)); gb_text := it_text (md_item nm fl); gb_opc0 := false |}.
Lemma b_dmessage_ok nm fl : ident_ok nm -> Forall ldfield_ok fl -> dmfs_ok [] (map bdf fl) -> gbase_ok (b_dmessage nm fl) (md_x nm fl).
Proof.
  intros Hn Hf Hm. apply (gbase_from_item (md_item nm fl) (md_x nm fl) (b_dmessage nm fl) (md_item_ok nm fl Hn Hf Hm)); try reflexivity.
  intros cm opc g f tail c _. cbn [b_dmessage gb_need gb_toks gb_upd md_item it_need it_toks].
  exists (dsum (map bdf fl) + S g). split; [lia|].
  replace (dsum (map bdf fl) + 3 + g) with (S (dsum (map bdf fl) + S (S g))) by lia. unfold dmessage_toks.
  change ([messageT; idT (ibytes nm); openT; nlT] ++ dfields_toks (map bdf fl) ++ [closeT; nlT])
    with ([messageT] ++ ([idT (ibytes nm); openT; nlT] ++ dfields_toks (map bdf fl) ++ [closeT] ++ [nlT])).
  rewrite res_app, top_message_head_gen. unfold bind.
  replace ([idT (ibytes nm); openT; nlT] ++ dfields_toks (map bdf fl) ++ [closeT] ++ [nlT])
    with (([idT (ibytes nm); openT; nlT] ++ dfields_toks (map bdf fl) ++ [closeT]) ++ [nlT]) by (rewrite <- !app_assoc; reflexivity).
  rewrite res_app, (read_dmessage_ok (ibytes nm) (map bdf fl) g _ _ Hm). cbn [m_name m_fields dmessage_of].
  replace (dsum (map bdf fl) + S (S g)) with (S (dsum (map bdf fl) + S g)) by lia.
  rewrite top_newline. reflexivity.
Qed.

Definition b_union (nm : ident) (bl : list lub) : gbase :=
  {| gb_toks := it_toks (u_item nm bl); gb_need := it_need (u_item nm bl); gb_fneed := it_fneed (u_item nm bl);
     gb_upd := fun cmt oc f => add_union f (gunion_of cmt oc (ibytes nm) (map bub bl)); gb_text := it_text (u_item nm bl); gb_opc0 := false |}.
Lemma b_union_ok nm bl : ident_ok nm -> Forall lub_ok bl -> ubs_ok [] (map bub bl) -> bl <> [] -> gbase_ok (b_union nm bl) (u_x nm bl).
Proof.
  intros Hn Hf Hu Hne. apply (gbase_from_item (u_item nm bl) (u_x nm bl) (b_union nm bl) (u_item_ok nm bl Hn Hf Hu Hne)); try reflexivity.
  assert (Hne' : map bub bl <> []) by (destruct bl; [congruence|discriminate]).
  intros cm opc g f tail c _. cbn [b_union gb_need gb_toks gb_upd u_item it_need it_toks].
  exists (usum (map bub bl) + S (S g)). split; [lia|].
  replace (usum (map bub bl) + 4 + g) with (S (usum (map bub bl) + S (S (S g)))) by lia. unfold union_toks.
  change ([unionT; idT (ibytes nm); openT; nlT] ++ ubs_toks (map bub bl) ++ [closeT; nlT])
    with ([unionT] ++ ([idT (ibytes nm); openT; nlT] ++ ubs_toks (map bub bl) ++ [closeT] ++ [nlT])).
  rewrite res_app, top_union_head_gen. unfold bind.
  replace ([idT (ibytes nm); openT; nlT] ++ ubs_toks (map bub bl) ++ [closeT] ++ [nlT])
    with (([idT (ibytes nm); openT; nlT] ++ ubs_toks (map bub bl) ++ [closeT]) ++ [nlT]) by (rewrite <- !app_assoc; reflexivity).
  rewrite res_app, (read_union_ok (ibytes nm) (map bub bl) (S g) _ _ Hu Hne'). cbn [un_name un_fields union_of].
  replace (usum (map bub bl) + S (S (S g))) with (S (usum (map bub bl) + S (S g))) by lia. rewrite top_newline. reflexivity.
Qed.

(* enums take no opcode: the pending opcode must be 0 (no opcode line in front) *)
Definition b_enum (nm tname : ident) (uns : bool) (ml : list edef) : gbase :=
  {| gb_toks := it_toks (te_item nm tname uns ml); gb_need := it_need (te_item nm tname uns ml); gb_fneed := it_fneed (te_item nm tname uns ml);
     gb_upd := fun cmt oc f => add_enum f (genum_of cmt (ibytes nm) (ibytes tname) uns (map bem ml)); gb_text := it_text (te_item nm tname uns ml); gb_opc0 := true |}.
Lemma b_enum_ok nm tname uns bits ml :
  ident_ok nm -> ident_ok tname -> base_ok (ibytes tname) uns bits ->
  Forall (fun m => ident_ok (fst m) /\ idx_ok (snd m)) ml -> tems_ok uns bits (map bem ml) ->
  gbase_ok (b_enum nm tname uns ml) (te_x nm tname ml).
Proof.
  intros Hn Ht Hb Hm He.
  apply (gbase_from_item (te_item nm tname uns ml) (te_x nm tname ml) (b_enum nm tname uns ml) (te_item_ok nm tname uns bits ml Hn Ht Hb Hm He)); try reflexivity.
  intros cm opc g f tail c Ho. rewrite (Ho eq_refl). cbn [b_enum gb_need gb_toks gb_upd te_item it_need it_toks].
  exists (2 * length (map bem ml) + S g). split; [lia|].
  replace (2 * length (map bem ml) + 3 + g) with (S (2 * length (map bem ml) + S (S g))) by lia. unfold tenum_toks.
  change ([enumT; idT (ibytes nm); colonT; idT (ibytes tname); openT; nlT] ++ ems_toks (map bem ml) ++ [closeT; nlT])
    with ([enumT] ++ ([idT (ibytes nm); colonT; idT (ibytes tname); openT; nlT] ++ ems_toks (map bem ml) ++ [closeT] ++ [nlT])).
  rewrite res_app, top_enum_head_gen. unfold bind.
  replace ([idT (ibytes nm); colonT; idT (ibytes tname); openT; nlT] ++ ems_toks (map bem ml) ++ [closeT] ++ [nlT])
    with (([idT (ibytes nm); colonT; idT (ibytes tname); openT; nlT] ++ ems_toks (map bem ml) ++ [closeT]) ++ [nlT]) by (rewrite <- !app_assoc; reflexivity).
  rewrite res_app, (read_tenum_ok (ibytes nm) (ibytes tname) uns bits (map bem ml) g _ _ Hb He). cbn [e_name e_opts e_simple e_unsigned tenum_of].
  replace (2 * length (map bem ml) + S (S g)) with (S (2 * length (map bem ml) + S g)) by lia.
  rewrite top_newline. reflexivity.
Qed.

(* the enum without a declared base type (uint32) *)
Definition guenum_of (cmt : bytes) (nm : bytes) (ml : list emember) : enum_ :=
  {| e_name := nm; e_comment := cmt; e_opts := map em_opt ml; e_simple := s_uint32; e_unsigned := true |}.
Definition b_uenum (nm : ident) (ml : list edef) : gbase :=
  {| gb_toks := it_toks (e_item nm ml); gb_need := it_need (e_item nm ml); gb_fneed := it_fneed (e_item nm ml);
     gb_upd := fun cmt oc f => add_enum f (guenum_of cmt (ibytes nm) (map bem ml)); gb_text := it_text (e_item nm ml); gb_opc0 := true |}.
Lemma b_uenum_ok nm ml : ident_ok nm -> Forall (fun m => ident_ok (fst m) /\ idx_ok (snd m)) ml -> ems_ok (map bem ml) -> gbase_ok (b_uenum nm ml) (e_x nm ml).
Proof.
  intros Hn Hm He. apply (gbase_from_item (e_item nm ml) (e_x nm ml) (b_uenum nm ml) (e_item_ok nm ml Hn Hm He)); try reflexivity.
  intros cm opc g f tail c Ho. rewrite (Ho eq_refl). cbn [b_uenum gb_need gb_toks gb_upd e_item it_need it_toks].
  exists (2 * length (map bem ml) + S g). split; [lia|].
  replace (2 * length (map bem ml) + 3 + g) with (S (2 * length (map bem ml) + S (S g))) by lia. unfold enum_toks.
  change ([enumT; idT (ibytes nm); openT; nlT] ++ ems_toks (map bem ml) ++ [closeT; nlT])
    with ([enumT] ++ ([idT (ibytes nm); openT; nlT] ++ ems_toks (map bem ml) ++ [closeT] ++ [nlT])).
  rewrite res_app, top_enum_head_gen. unfold bind.
  replace ([idT (ibytes nm); openT; nlT] ++ ems_toks (map bem ml) ++ [closeT] ++ [nlT])
    with (([idT (ibytes nm); openT; nlT] ++ ems_toks (map bem ml) ++ [closeT]) ++ [nlT]) by (rewrite <- !app_assoc; reflexivity).
  rewrite res_app, (read_enum_ok (ibytes nm) (map bem ml) g _ _ He). cbn [e_name e_opts e_simple e_unsigned enum_of].
  replace (2 * length (map bem ml) + S (S g)) with (S (2 * length (map bem ml) + S g)) by lia.
  rewrite top_newline. reflexivity.
Qed.
