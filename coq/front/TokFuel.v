(* The tokenizer model's fuel never decides an answer: every loop of Tok.v, given more fuel than there are bytes left to
   read, returns the same result for ANY such amount of fuel - so the fuel-exhausted branches (which return normal-looking
   values) are unreachable from `next`, which passes remaining bytes + 1 or + 2, and the model computes the function the
   unbounded Go loops compute.  (Each way around each loop follows a successful ReadByte / ReadRune, which shortens the
   input by one byte.) *)
From Coq Require Import List NArith Bool Arith Lia.
Require Import Bebop.front.Tok Bebop.front.TokSafe.
Import ListNotations.

Definition len (s : tstate) : nat := length (rest (buf s)).

Lemma read_len s b s1 : tr_read_byte s = (inl b, s1) -> len s1 < len s.
Proof. intros E. apply read_ok_lb in E. unfold len. lia. Qed.
Lemma add_err_len_rest s e : len (add_err s e) = len s.
Proof. reflexivity. Qed.

Lemma number_loop_stable : forall g g' s conc k a b c d, len s < g -> len s < g' ->
  number_loop g s conc k a b c d = number_loop g' s conc k a b c d.
Proof.
  induction g as [|g IH]; intros g' s conc k a b c d Hg Hg'; [lia|]. destruct g' as [|g']; [lia|]. cbn [number_loop].
  destruct (tr_read_byte s) as [[x|[|]] s1] eqn:E; try reflexivity. apply read_len in E.
  repeat match goal with |- (if ?c then _ else _) = (if ?c then _ else _) => destruct c end; try reflexivity; apply IH; lia.
Qed.

Lemma skip_ws_stable : forall g g' s, len s < g -> len s < g' -> skip_ws g s = skip_ws g' s.
Proof.
  induction g as [|g IH]; intros g' s Hg Hg'; [lia|]. destruct g' as [|g']; [lia|]. cbn [skip_ws].
  destruct (tr_read_byte s) as [[x|e] s1] eqn:E; try reflexivity. apply read_len in E.
  destruct (N.eqb x 10 || N.eqb x 32 || N.eqb x 13); [apply IH; lia|reflexivity].
Qed.

Lemma block_comment_stable : forall g g' s conc l, len s < g -> len s < g' -> block_comment g s conc l = block_comment g' s conc l.
Proof.
  induction g as [|g IH]; intros g' s conc l Hg Hg'; [lia|]. destruct g' as [|g']; [lia|]. cbn [block_comment].
  destruct (tr_read_byte s) as [[x|[|]] s1] eqn:E; try reflexivity. apply read_len in E.
  destruct (N.eqb l 42 && N.eqb x 47); [reflexivity|apply IH; lia].
Qed.

Lemma string_lit_stable : forall g g' s conc e, len s < g -> len s < g' -> string_lit g s conc e = string_lit g' s conc e.
Proof.
  induction g as [|g IH]; intros g' s conc e Hg Hg'; [lia|]. destruct g' as [|g']; [lia|]. cbn [string_lit].
  destruct (tr_read_byte s) as [[x|[|]] s1] eqn:E; try reflexivity. apply read_len in E.
  destruct (N.eqb x 34 && negb e); [reflexivity|apply IH; lia].
Qed.

Lemma find_stable : forall g g' n s conc, len s < g -> len s < g' -> find g n s conc = find g' n s conc.
Proof.
  induction g as [|g IH]; intros g' n s conc Hg Hg'; [lia|]. destruct g' as [|g']; [lia|]. cbn [find].
  destruct (tr_read_byte s) as [[x|[|]] s1] eqn:E; try reflexivity. apply read_len in E.
  destruct (skips n x); [apply IH; lia|].
  destruct (succ n x) eqn:S1; try reflexivity; try (apply IH; lia).
  destruct conc as [|c0 conc0]; [reflexivity|].
  destruct (succ n (first_valid n)) eqn:S2; try reflexivity. apply IH; rewrite ?add_err_len_rest; lia.
Qed.

Lemma rune_len s c b1 : read_rune (buf s) = (inl c, b1) -> len (with_buf s b1) < len s.
Proof.
  unfold read_rune, len. destruct (rest (buf s)) as [|x r] eqn:E; [discriminate|]. intros [= <- <-]. cbn. lia.
Qed.
Lemma next_ident_stable : forall g g' s conc, len s < g -> len s < g' -> next_ident g s conc = next_ident g' s conc.
Proof.
  induction g as [|g IH]; intros g' s conc Hg Hg'; [lia|]. destruct g' as [|g']; [lia|]. cbn [next_ident].
  destruct (read_rune (buf s)) as [[c|[|]] b1] eqn:E; try reflexivity. apply rune_len in E.
  destruct (is_letter c || is_digit c || N.eqb c 95); [apply IH; lia|reflexivity].
Qed.

(* Next() itself, with its fuel made a parameter: the model's `next` is next_with (remaining bytes + 2), and any larger amount
   of fuel gives the same answer *)
Definition next_with (fuel : nat) (s : tstate) : res (option token) :=
  match find fuel NRoot s [] with
  | RPanic => RPanic
  | R ot s1 =>
      match last_err (errs s1) with
      | Some KEOF => R None {| buf := buf s1; errs := removelast (errs s1) |}
      | Some KUEOF => R None s1
      | _ =>
          match ot with
          | Some t => R (Some t) s1
          | None =>
              if Nat.ltb (length (errs s)) (length (errs s1)) then R None s1 else
              match tr_unread_byte s1 with
              | None => RPanic
              | Some s2 =>
                  match read_rune (buf s2) with
                  | (inr REOF, b3) => R None (add_err (with_buf s2 b3) KUEOF)
                  | (inr RIO, b3) => R None (add_err (with_buf s2 b3) KIO)
                  | (inl c, b3) =>
                      if is_letter c then next_ident fuel (with_buf s2 b3) [c]
                      else R None (add_err (with_buf s2 b3) KOther)
                  end
              end
          end
      end
  end.
Lemma next_is_next_with s : next s = next_with (S (S (len s))) s.
Proof. reflexivity. Qed.

(* when find answers "no token", it has not lengthened the input (the builders, which may give a byte back, answer with a token) *)
Lemma read_err_len s e s1 : tr_read_byte s = (inr e, s1) -> len s1 = len s.
Proof.
  unfold tr_read_byte, read_byte, len. destruct (buf s) as [r lb lr fl]. cbn [rest]. destruct r as [|c r]; [|discriminate].
  intros [= <- <-]. reflexivity.
Qed.
Lemma find_none_len : forall g n s conc s1, find g n s conc = R None s1 -> len s1 <= len s.
Proof.
  induction g as [|g IH]; intros n s conc s1 E; [cbn in E; injection E as <-; lia|]. cbn [find] in E.
  destruct (tr_read_byte s) as [[x|[|]] s0] eqn:R1.
  - apply read_len in R1. destruct (skips n x); [apply IH in E; lia|].
    assert (D : forall b0 s0', len s0' = len s0 ->
      match succ n b0 with
      | Term k => R (Some {| kind := k; concrete := conc ++ [b0] |}) s0'
      | Num => match number_loop (S (length (rest (buf s0')))) s0' (conc ++ [b0]) kInt true false false false with R t s2 => R (Some t) s2 | RPanic => RPanic end
      | Str => match string_lit (S (length (rest (buf s0')))) s0' (conc ++ [b0]) false with R t s2 => R (Some t) s2 | RPanic => RPanic end
      | LineC => match line_comment s0' (conc ++ [b0]) with R t s2 => R (Some t) s2 | RPanic => RPanic end
      | BlockC => match block_comment (S (length (rest (buf s0')))) s0' (conc ++ [b0]) 0%N with R t s2 => R (Some t) s2 | RPanic => RPanic end
      | Go n' => find g n' s0' (conc ++ [b0])
      | NoSucc => R None s0'
      end = R None s1 -> len s1 <= len s).
    { clear E. intros b0 s0' L. destruct (succ n b0).
      - intros D; discriminate D.
      - destruct (number_loop _ _ _ _ _ _ _ _); intros D; discriminate D.
      - destruct (string_lit _ _ _ _); intros D; discriminate D.
      - destruct (line_comment _ _); intros D; discriminate D.
      - destruct (block_comment _ _ _ _); intros D; discriminate D.
      - intros D. apply IH in D. lia.
      - intros D. injection D as <-. lia. }
    destruct (succ n x) eqn:S1; try (apply (D x s0 eq_refl); rewrite S1; exact E).
    destruct conc as [|c0 conc0]; [injection E as <-; lia|]. apply (D (first_valid n) (add_err s0 KOther) eq_refl). exact E.
  - apply read_err_len in R1. injection E as <-. rewrite add_err_len_rest. lia.
  - apply read_err_len in R1. injection E as <-. rewrite add_err_len_rest. lia.
Qed.
Lemma unread_len s s2 : tr_unread_byte s = Some s2 -> len s2 = S (len s).
Proof.
  unfold tr_unread_byte, unread_byte, len. destruct (lastByte (buf s)); [|discriminate]. intros [= <-]. reflexivity.
Qed.

Theorem next_fuel_immaterial s g : S (len s) < g -> next_with g s = next s.
Proof.
  intros Hg. rewrite next_is_next_with. unfold next_with.
  rewrite (find_stable g (S (S (len s))) NRoot s []) by lia.
  destruct (find (S (S (len s))) NRoot s []) as [ot s1|] eqn:F; [|reflexivity].
  destruct (last_err (errs s1)) as [[| | |]|]; try reflexivity;
    (destruct ot as [t|]; [reflexivity|]; apply find_none_len in F;
     destruct (Nat.ltb _ _); [reflexivity|]; destruct (tr_unread_byte s1) as [s2|] eqn:U; [|reflexivity];
     apply unread_len in U; destruct (read_rune (buf s2)) as [[c|[|]] b3] eqn:RR; try reflexivity;
     apply rune_len in RR; destruct (is_letter c); [|reflexivity]; apply next_ident_stable; lia).
Qed.

(* the builders `find` starts pass remaining bytes + 1: equally immaterial *)
Theorem builders_fuel_immaterial :
  (forall g s conc k a b c d, len s < g -> number_loop g s conc k a b c d = number_loop (S (len s)) s conc k a b c d) /\
  (forall g s conc e, len s < g -> string_lit g s conc e = string_lit (S (len s)) s conc e) /\
  (forall g s conc l, len s < g -> block_comment g s conc l = block_comment (S (len s)) s conc l) /\
  (forall g s, len s < g -> skip_ws g s = skip_ws (S (len s)) s).
Proof.
  repeat split; intros.
  - apply number_loop_stable; lia.
  - apply string_lit_stable; lia.
  - apply block_comment_stable; lia.
  - apply skip_ws_stable; lia.
Qed.
Print Assumptions next_fuel_immaterial.
Print Assumptions builders_fuel_immaterial.
