(* What C16 / C17 say about the formatter model (front/Fmt.v), and the inputs on which the model - and, replayed by
   lib/front.py, the implementation - violates them.  Each witness is one of the committed known findings. *)
From Coq Require Import List NArith String Ascii.
Require Import Bebop.front.Tok Bebop.front.Parse Bebop.front.Fmt.
Import ListNotations.

(* ---- "denotes the same schema; only the attachment of doc comments may differ" ----
   Field tags are erased with the comments: they are written as doc comments of a fixed shape and follow their attachment. *)
Definition nc_field (f : field) : field :=
  {| f_type := f_type f; f_name := f_name f; f_comment := []; f_tags := []; f_depmsg := f_depmsg f; f_dep := f_dep f |}.
Definition nc_struct (s : struct_) : struct_ :=
  {| s_name := s_name s; s_comment := []; s_fields := map nc_field (s_fields s); s_opcode := s_opcode s; s_readonly := s_readonly s |}.
Definition nc_message (m : message) : message :=
  {| m_name := m_name m; m_comment := []; m_fields := map (fun p => (fst p, nc_field (snd p))) (m_fields m); m_opcode := m_opcode m |}.
Definition nc_ufield (u : ufield) : ufield :=
  {| u_msg := option_map nc_message (u_msg u); u_struct := option_map nc_struct (u_struct u); u_tags := []; u_depmsg := u_depmsg u; u_dep := u_dep u |}.
Definition nc_union (u : union_) : union_ :=
  {| un_name := un_name u; un_comment := []; un_fields := map (fun p => (fst p, nc_ufield (snd p))) (un_fields u); un_opcode := un_opcode u |}.
Definition nc_opt (o : enumopt) : enumopt :=
  {| o_name := o_name o; o_comment := []; o_depmsg := o_depmsg o; o_value := o_value o; o_uvalue := o_uvalue o; o_dep := o_dep o |}.
Definition nc_enum (e : enum_) : enum_ :=
  {| e_name := e_name e; e_comment := []; e_opts := map nc_opt (e_opts e); e_simple := e_simple e; e_unsigned := e_unsigned e |}.
Definition nc_const (c : const_) : const_ := {| c_type := c_type c; c_comment := []; c_name := c_name c; c_value := c_value c |}.
Definition nocomment (f : file) : file :=
  {| structs := map nc_struct (structs f); messages := map nc_message (messages f); enums := map nc_enum (enums f);
     unions := map nc_union (unions f); consts := map nc_const (consts f); imports := imports f; gopackage := gopackage f |}.

Definition accepted (x : bytes) (f : file) : Prop := exists s, read_file x false = POk f s.
Definition formats_to (x y : bytes) : Prop := exists s, format x = POk y s.

(* C16 on the model: an accepted text is formatted without error, into a text that is accepted and denotes the same schema *)
Definition C16_statement : Prop :=
  forall x f, accepted x f -> exists y, formats_to x y /\ exists f', accepted y f' /\ nocomment f' = nocomment f.
(* C17 on the model: formatting the formatter's output changes nothing *)
Definition C17_statement : Prop :=
  forall x f, accepted x f -> forall y, formats_to x y -> formats_to y y.

(* ---- texts ---- *)
Fixpoint b (s : string) : bytes := match s with EmptyString => [] | String a r => N_of_ascii a :: b r end.
Definition nl : string := String (ascii_of_nat 10) EmptyString.
Definition w_typed_enum : bytes := b ("enum E : uint8 { A = 1; }" ++ nl).
Definition w_array2 : bytes := b ("struct A { int32[][] grid; }" ++ nl).
Definition w_import : bytes := b ("import ""a.bop""" ++ nl ++ "struct A { int32 a; }" ++ nl).
Definition w_flags : bytes := b ("[flags]" ++ nl ++ "enum F { A = 1; B = A | 2; }" ++ nl).

(* how a witness fails C16: the formatter's output is rejected / is accepted as a different schema *)
Definition output_rejected (x : bytes) : Prop :=
  (exists f, accepted x f) /\ exists y, formats_to x y /\ read_file y false = PErr.
Definition output_differs (x : bytes) : Prop :=
  exists f, accepted x f /\ exists y, formats_to x y /\ exists f', accepted y f' /\ nocomment f' <> nocomment f.
Definition not_fixed_point (x : bytes) : Prop :=
  (exists f, accepted x f) /\ exists y, formats_to x y /\ exists z, formats_to y z /\ z <> y.

Ltac compute_ok := eexists; vm_compute; reflexivity.     (* only ever on closed terms: the witnesses are supplied first *)
Ltac run_rejected :=
  split; [eexists; compute_ok|]; eexists; split; [compute_ok|]; vm_compute; reflexivity.
Lemma typed_enum_rejected : output_rejected w_typed_enum. Proof. run_rejected. Qed.
Lemma array2_rejected : output_rejected w_array2. Proof. run_rejected. Qed.

Ltac run_differs :=
  eexists; split; [compute_ok|]; eexists; split; [compute_ok|]; eexists; split; [compute_ok|];
  let E := fresh in intro E; vm_compute in E; discriminate E.
Lemma import_dropped : output_differs w_import. Proof. run_differs. Qed.
Lemma flags_differs : output_differs w_flags. Proof. run_differs. Qed.

Lemma flags_not_fixed : not_fixed_point w_flags.
Proof.
  split; [eexists; compute_ok|]. eexists; split; [compute_ok|]. eexists; split; [compute_ok|].
  let E := fresh in intro E; vm_compute in E; discriminate E.
Qed.

Lemma POk_inj {A} (a a' : A) s s' : POk a s = POk a' s' -> a = a'.
Proof. intros H; injection H; auto. Qed.

Lemma rejected_refutes x : output_rejected x -> ~ C16_statement.
Proof.
  intros [[f Hf] (y & [s Hy] & Hr)] H. destruct (H x f Hf) as (y' & [s' Hy'] & f' & [s'' Ha] & _).
  rewrite Hy in Hy'. apply POk_inj in Hy'. subst y'. rewrite Hr in Ha. discriminate.
Qed.
Lemma differs_refutes x : output_differs x -> ~ C16_statement.
Proof.
  intros (f & Hf & y & [s Hy] & f' & [s1 Ha] & Hne) H. destruct (H x f Hf) as (y' & [s' Hy'] & f2 & [s2 Ha2] & He).
  rewrite Hy in Hy'. apply POk_inj in Hy'. subst y'. rewrite Ha in Ha2. apply POk_inj in Ha2. subst f2. exact (Hne He).
Qed.
Lemma not_fixed_refutes x : not_fixed_point x -> ~ C17_statement.
Proof.
  intros [[f Hf] (y & Hy & z & [s Hz] & Hne)] H. destruct (H x f Hf y Hy) as [s' Hyy].
  rewrite Hz in Hyy. apply POk_inj in Hyy. exact (Hne Hyy).
Qed.
