(* What C16 / C17 say about the formatter model (front/Fmt.v), and the inputs on which the model - and the implementation -
   violated them until the formatter was repaired. *)
From Coq Require Import List NArith String Ascii.
Require Import Bebop.front.Tok Bebop.front.Parse Bebop.front.Fmt.
Import ListNotations.

(* ---- "denotes the same schema; only the attachment of doc comments may differ" ----
   Field tags are erased with the comments: they are written as doc comments of a fixed shape and follow their attachment. *)
Definition nc_field (f : field) : field :=
  {| f_type := f_type f; f_name := f_name f; f_comment := []; f_tags := []; f_depmsg := f_depmsg f; f_dep := f_dep f |}.
Definition nc_struct (s : struct_) : struct_ :=
  {| s_name := s_name s; s_comment := []; s_fields := map nc_field (s_fields s); s_opcode := s_opcode s; s_readonly := s_readonly s |}.
Definition nc_message (m : message) : message :=
  {| m_name := m_name m; m_comment := []; m_fields := map (fun p => (fst p, nc_field (snd p))) (m_fields m); m_opcode := m_opcode m |}.
Definition nc_ufield (u : ufield) : ufield :=
  {| u_msg := option_map nc_message (u_msg u); u_struct := option_map nc_struct (u_struct u); u_tags := []; u_depmsg := u_depmsg u; u_dep := u_dep u |}.
Definition nc_union (u : union_) : union_ :=
  {| un_name := un_name u; un_comment := []; un_fields := map (fun p => (fst p, nc_ufield (snd p))) (un_fields u); un_opcode := un_opcode u |}.
Definition nc_opt (o : enumopt) : enumopt :=
  {| o_name := o_name o; o_comment := []; o_depmsg := o_depmsg o; o_value := o_value o; o_uvalue := o_uvalue o; o_dep := o_dep o |}.
Definition nc_enum (e : enum_) : enum_ :=
  {| e_name := e_name e; e_comment := []; e_opts := map nc_opt (e_opts e); e_simple := e_simple e; e_unsigned := e_unsigned e |}.
Definition nc_const (c : const_) : const_ := {| c_type := c_type c; c_comment := []; c_name := c_name c; c_value := c_value c |}.
Definition nocomment (f : file) : file :=
  {| structs := map nc_struct (structs f); messages := map nc_message (messages f); enums := map nc_enum (enums f);
     unions := map nc_union (unions f); consts := map nc_const (consts f); imports := imports f; gopackage := gopackage f |}.

Definition accepted (x : bytes) (f : file) : Prop := exists s, read_file x false = POk f s.
Definition formats_to (x y : bytes) : Prop := exists s, format x = POk y s.

(* C16 on the model: an accepted text is formatted without error, into a text that is accepted and denotes the same schema *)
Definition C16_statement : Prop :=
  forall x f, accepted x f -> exists y, formats_to x y /\ exists f', accepted y f' /\ nocomment f' = nocomment f.
(* C17 on the model: formatting the formatter's output changes nothing *)
Definition C17_statement : Prop :=
  forall x f, accepted x f -> forall y, formats_to x y -> formats_to y y.

(* ---- texts ---- *)
Fixpoint b (s : string) : bytes := match s with EmptyString => [] | String a r => N_of_ascii a :: b r end.
Definition nl : string := String (ascii_of_nat 10) EmptyString.
Definition w_typed_enum : bytes := b ("enum E : uint8 { A = 1; }" ++ nl).
Definition w_array2 : bytes := b ("struct A { int32[][] grid; }" ++ nl).
Definition w_import : bytes := b ("import ""a.bop""" ++ nl ++ "struct A { int32 a; }" ++ nl).
Definition w_flags : bytes := b ("[flags]" ++ nl ++ "enum F { A = 1; B = A | 2; }" ++ nl).

(* how the texts above FAILED before the formatter was repaired (/repo 5007292, dc4ca5b, 9f..: see known_findings.json,
   `fixed`): the output was rejected, or accepted as a different schema, or changed again by a second pass.  Each now
   meets the statement's conclusion; the instances are proved by computation and replayed on the implementation. *)
Definition holds16 (x : bytes) : Prop :=
  exists f, accepted x f /\ exists y, formats_to x y /\ exists f', accepted y f' /\ nocomment f' = nocomment f.
Definition holds17 (x : bytes) : Prop :=
  exists f, accepted x f /\ exists y, formats_to x y /\ formats_to y y.

Ltac compute_ok := eexists; vm_compute; reflexivity.     (* only ever on closed terms: the witnesses are supplied first *)
Ltac run16 := eexists; split; [compute_ok|]; eexists; split; [compute_ok|]; eexists; split; [compute_ok|]; vm_compute; reflexivity.
Ltac run17 := eexists; split; [compute_ok|]; eexists; split; [compute_ok|]; compute_ok.

Lemma typed_enum_16 : holds16 w_typed_enum. Proof. run16. Qed.
Lemma array2_16 : holds16 w_array2. Proof. run16. Qed.
Lemma import_16 : holds16 w_import. Proof. run16. Qed.
Lemma flags_16 : holds16 w_flags. Proof. run16. Qed.
Lemma typed_enum_17 : holds17 w_typed_enum. Proof. run17. Qed.
Lemma array2_17 : holds17 w_array2. Proof. run17. Qed.
Lemma import_17 : holds17 w_import. Proof. run17. Qed.
Lemma flags_17 : holds17 w_flags. Proof. run17. Qed.
