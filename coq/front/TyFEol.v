(* End-of-line comments in the inversion theorems: a struct field followed, on its own line, by a `// ...` comment.  ReadFile
   skips such a comment (it belongs to no definition); Format keeps it on the field's line, one space after the `;`. *)
From Coq Require Import List NArith ZArith Bool Arith Lia.
Require Import Bebop.front.Tok Bebop.front.Parse Bebop.front.Fmt Bebop.front.TokInv Bebop.front.LexInv Bebop.front.ParseInv Bebop.front.FmtInv Bebop.front.MsgInv.
Require Import Bebop.front.GenInv Bebop.front.Items Bebop.front.TyInv Bebop.front.TyMsg Bebop.front.TyItems Bebop.front.TyDoc.
Import ListNotations.

(* the field, and the comment after it if there is one (component types written out) *)
Definition efield := ((tyx * bytes) * option bytes)%type.
Definition eol_toks (e : option bytes) : list token := match e with Some b => [lcT b] | None => [nlT] end.
Definition efield_toks (f : efield) : list token := ty_toks (fst (fst f)) ++ [idT (snd (fst f)); semiT] ++ eol_toks (snd f).
Definition efields_toks (fl : list efield) : list token := flat_map efield_toks fl.
Definition efield_of (f : efield) : field := tfield_of (fst f).
Definition eol_last (e : option bytes) : token := match e with Some b => lcT b | None => nlT end.

Ltac zstep1 :=
  cbv beta iota zeta delta [bind p_next p_haserr p_kind p_tok p_unnext ret fail expect_any_of_next expect_next skip_eol_comments conc next_cat mk kept keep rs cur perrs kin existsb];
  cbn [N.eqb Pos.eqb orb andb negb kind concrete kIdent kOpenSq kCloseSq kComma kSemi kNewline kCloseCu kOpenCu kLineC kBlockC kInt kArrow
       arrayT mapT osqT csqT commaT idT semiT nlT closeT lcT].
Ltac zstep := repeat progress zstep1.

Lemma sl_efield f g fs tail c : ty_keys_ok (fst (fst f)) -> N.eqb (kind c) kCloseCu = false ->
  read_struct_loop (S (tfuel (fst (fst f)) + S g)) fs [] [] [] false (mk (res (efield_toks f) tail) c false)
  = read_struct_loop (tfuel (fst (fst f)) + (match snd f with Some _ => S g | None => g end)) (fs ++ [efield_of f]) [] [] [] false (mk tail (eol_last (snd f)) false).
Proof.
  destruct f as [[t nm] e]. unfold efield_toks, efield_of, tfield_of. cbn [fst snd]. intros Hok Hc.
  destruct (ty_toks_ne t) as (c0 & r0 & E0).
  assert (Hk0 : kin (kind c0) [kIdent; 12%N; 11%N] = true /\ N.eqb (kind c0) kNewline = false).
  { destruct t; cbn [ty_toks app] in E0; inversion E0; subst; split; reflexivity. }
  destruct Hk0 as [Hk1 Hk2].
  rewrite E0. change ((c0 :: r0) ++ [idT nm; semiT] ++ eol_toks e) with ([c0] ++ (r0 ++ [idT nm; semiT] ++ eol_toks e)). rewrite res_app.
  match goal with |- context [res (r0 ++ ?y) ?x] => set (R := res (r0 ++ y) x) end.
  unfold res at 1. cbn [map app read_struct_loop]. sstep. rewrite Hc. sstep. rewrite Hk2, Hk1. sstep.
  subst R. pose proof (read_type_kept (tfuel t + S g) c0 (res (r0 ++ [idT nm; semiT] ++ eol_toks e) tail) c0) as Ek. unfold kept in Ek. rewrite Ek. clear Ek.
  change (NT c0 [] :: res (r0 ++ [idT nm; semiT] ++ eol_toks e) tail) with (res ((c0 :: r0) ++ [idT nm] ++ ([semiT] ++ eol_toks e)) tail).
  rewrite <- E0, app_assoc, res_app.
  rewrite (read_type_ok t Hok (S g) (idT nm) (res ([semiT] ++ eol_toks e) tail) c0 (semi_not_open nm)).
  replace (tfuel t + S g) with (S (tfuel t + g)) by lia.
  destruct e as [b|]; unfold res; cbn [eol_toks eol_last map app]; zstep.
  - f_equal. lia.
  - cbn [read_struct_loop]. zstep. reflexivity.
Qed.

Definition esum (fl : list efield) : nat := fold_right (fun f acc => tfuel (fst (fst f)) + 2 + acc) 0 fl.
Definition etsum (fl : list efield) : nat := fold_right (fun f acc => tfuel (fst (fst f)) + (match snd f with Some _ => 1 | None => 0 end) + acc) 0 fl.
Lemma sl_efields : forall fl g fs tail c, Forall (fun f => ty_keys_ok (fst (fst f))) fl -> N.eqb (kind c) kCloseCu = false ->
  exists c', N.eqb (kind c') kCloseCu = false /\
    read_struct_loop (esum fl + g) fs [] [] [] false (mk (res (efields_toks fl) tail) c false)
    = read_struct_loop (etsum fl + g) (fs ++ map efield_of fl) [] [] [] false (mk tail c' false).
Proof.
  induction fl as [|f fl IH]; intros g fs tail c Hok Hc.
  - exists c. split; [exact Hc|]. cbn [esum etsum fold_right plus efields_toks flat_map map res app]. now rewrite app_nil_r.
  - inversion Hok as [|? ? Hf Hr]; subst. cbn [efields_toks flat_map esum etsum fold_right]. fold (efields_toks fl). fold (esum fl). fold (etsum fl).
    rewrite res_app.
    match goal with |- exists c', _ /\ read_struct_loop ?n _ _ _ _ _ _ = _ => replace n with (S (tfuel (fst (fst f)) + S (esum fl + g))) by lia end.
    rewrite (sl_efield f _ fs _ c Hf Hc).
    assert (Hl : N.eqb (kind (eol_last (snd f))) kCloseCu = false) by (destruct (snd f); reflexivity).
    destruct f as [[t nm] [b|]]; cbn [fst snd eol_last] in *.
    + destruct (IH (tfuel t + 1 + g) (fs ++ [efield_of (t, nm, Some b)]) tail (lcT b) Hr Hl) as (c' & Hc' & E). exists c'. split; [exact Hc'|].
      replace (tfuel t + S (esum fl + g)) with (esum fl + (tfuel t + 1 + g)) by lia. rewrite E. cbn [map]. rewrite <- app_assoc. f_equal. lia.
    + destruct (IH (tfuel t + g) (fs ++ [efield_of (t, nm, None)]) tail nlT Hr Hl) as (c' & Hc' & E). exists c'. split; [exact Hc'|].
      replace (tfuel t + (esum fl + g)) with (esum fl + (tfuel t + g)) by lia. rewrite E. cbn [map]. rewrite <- app_assoc. f_equal. lia.
Qed.
Lemma struct_loop_close_gen g fs tail c : N.eqb (kind c) kCloseCu = false ->
  read_struct_loop (S (S g)) fs [] [] [] false (mk (res [closeT] tail) c false) = POk fs (mk tail closeT false).
Proof. intros Hc. unfold res. cbn [map app read_struct_loop]. zstep. rewrite Hc. zstep. cbn [read_struct_loop]. zstep. reflexivity. Qed.

Definition estruct_toks (nm : bytes) (fl : list efield) : list token := [structT; idT nm; openT; nlT] ++ efields_toks fl ++ [closeT; nlT].
Definition estruct_of (nm : bytes) (fl : list efield) : struct_ :=
  {| s_name := nm; s_comment := []; s_fields := map efield_of fl; s_opcode := 0; s_readonly := false |}.
Lemma read_estruct_ok nm fl g tail c : Forall (fun f => ty_keys_ok (fst (fst f))) fl ->
  read_struct (esum fl + S (S g)) (mk (res ([idT nm; openT; nlT] ++ efields_toks fl ++ [closeT]) tail) c false)
  = POk (estruct_of nm fl) (mk tail closeT false).
Proof.
  intros Hok. rewrite res_app, read_struct_head. unfold bind. rewrite res_app.
  destruct (sl_efields fl (S (S g)) [] (res [closeT] tail) nlT Hok eq_refl) as (c' & Hc' & E). rewrite E.
  replace (etsum fl + S (S g)) with (S (S (etsum fl + g))) by lia. rewrite (struct_loop_close_gen _ _ _ c' Hc'). reflexivity.
Qed.
Lemma top_estruct nm fl g f tail c : Forall (fun f => ty_keys_ok (fst (fst f))) fl ->
  top_loop (S (esum fl + S (S g))) f [] 0%N false false (mk (res (estruct_toks nm fl) tail) c false)
  = top_loop (esum fl + S g) (add_struct f (estruct_of nm fl)) [] 0%N false false (mk tail nlT false).
Proof.
  intros Hok. unfold estruct_toks.
  change ([structT; idT nm; openT; nlT] ++ efields_toks fl ++ [closeT; nlT])
    with ([structT] ++ ([idT nm; openT; nlT] ++ efields_toks fl ++ [closeT] ++ [nlT])).
  rewrite res_app, top_struct_head. unfold bind.
  replace ([idT nm; openT; nlT] ++ efields_toks fl ++ [closeT] ++ [nlT])
    with (([idT nm; openT; nlT] ++ efields_toks fl ++ [closeT]) ++ [nlT]) by (rewrite <- !app_assoc; reflexivity).
  rewrite res_app, (read_estruct_ok nm fl g _ _ Hok). cbn [s_name s_fields estruct_of].
  replace (esum fl + S (S g)) with (S (esum fl + S g)) by lia.
  rewrite top_newline. reflexivity.
Qed.

(* ---------- the formatter: the comment stays on the field's line ---------- *)
Definition efield_text (f : efield) : bytes :=
  tab ++ ty_text (fst (fst f)) ++ sp ++ snd (fst f) ++ [59%N] ++ (match snd f with Some b => sp ++ 47%N :: 47%N :: b ++ [10%N] | None => nlb end).
Definition efields_text (fl : list efield) : bytes := flat_map efield_text fl.
Lemma fmt_efield f g acc tail c :
  format_struct_loop (S (tfuel (fst (fst f)) + S g)) tab acc (mk (res (efield_toks f) tail) c false)
  = format_struct_loop (tfuel (fst (fst f)) + (match snd f with Some _ => S g | None => g end)) tab (acc ++ efield_text f) (mk tail (eol_last (snd f)) false).
Proof.
  destruct f as [[t nm] e]. unfold efield_toks, efield_text. cbn [fst snd].
  destruct (ty_toks_ne t) as (c0 & r0 & E0).
  assert (Hk0 : kin (kind c0) [kIdent; 11%N; 12%N] = true /\ N.eqb (kind c0) kLineC = false /\ N.eqb (kind c0) kBlockC = false /\ N.eqb (kind c0) kOpenSq = false).
  { destruct t; cbn [ty_toks app] in E0; inversion E0; subst; repeat split; reflexivity. }
  destruct Hk0 as (Hk1 & Hk2 & Hk3 & Hk4).
  rewrite E0. change ((c0 :: r0) ++ [idT nm; semiT] ++ eol_toks e) with ([c0] ++ (r0 ++ [idT nm] ++ ([semiT] ++ eol_toks e))). rewrite res_app, app_assoc, res_app.
  match goal with |- context [res (r0 ++ ?y) ?x] => set (R := res (r0 ++ y) x) end.
  unfold res at 1. cbn [map app format_struct_loop]. gstep. rewrite Hk2, Hk3, Hk4, Hk1. gstep.
  subst R.
  pose proof (fmt_type_ok t (S g) (idT nm) (res ([semiT] ++ eol_toks e) tail) (semi_not_open nm) c0 r0 E0) as Et. unfold mk in Et. rewrite Et. clear Et.
  replace (tfuel t + S g) with (S (tfuel t + g)) by lia.
  destruct e as [b|]; unfold res; cbn [eol_toks eol_last map app]; zstep.
  - f_equal; [lia|]. repeat (rewrite <- app_assoc || rewrite <- app_comm_cons). reflexivity.
  - cbn [format_struct_loop]. zstep. f_equal. repeat (rewrite <- app_assoc || rewrite <- app_comm_cons). reflexivity.
Qed.
Lemma fmt_efields : forall fl g acc tail c,
  exists c', format_struct_loop (esum fl + g) tab acc (mk (res (efields_toks fl) tail) c false)
           = format_struct_loop (etsum fl + g) tab (acc ++ efields_text fl) (mk tail c' false).
Proof.
  induction fl as [|f fl IH]; intros g acc tail c.
  - exists c. cbn [esum etsum fold_right plus efields_toks efields_text flat_map map res app]. now rewrite app_nil_r.
  - cbn [efields_toks efields_text flat_map esum etsum fold_right]. fold (efields_toks fl). fold (efields_text fl). fold (esum fl). fold (etsum fl).
    rewrite res_app.
    match goal with |- exists c', format_struct_loop ?n _ _ _ = _ => replace n with (S (tfuel (fst (fst f)) + S (esum fl + g))) by lia end.
    rewrite fmt_efield.
    destruct f as [[t nm] [b|]]; cbn [fst snd eol_last] in *.
    + destruct (IH (tfuel t + 1 + g) (acc ++ efield_text (t, nm, Some b)) tail (lcT b)) as (c' & E). exists c'.
      replace (tfuel t + S (esum fl + g)) with (esum fl + (tfuel t + 1 + g)) by lia. rewrite E, <- app_assoc. f_equal. lia.
    + destruct (IH (tfuel t + g) (acc ++ efield_text (t, nm, None)) tail nlT) as (c' & E). exists c'.
      replace (tfuel t + (esum fl + g)) with (esum fl + (tfuel t + g)) by lia. rewrite E, <- app_assoc. f_equal. lia.
Qed.
Lemma fmt_close_gen g acc tail c :
  format_struct_loop (S (S g)) tab acc (mk (res [closeT] tail) c false) = POk (acc ++ [125%N] ++ nlb) (mk tail closeT false).
Proof. unfold res. cbn [map app format_struct_loop]. zstep. reflexivity. Qed.
Definition estruct_text (nm : bytes) (fl : list efield) : bytes :=
  [115; 116; 114; 117; 99; 116]%N ++ sp ++ nm ++ sp ++ [123%N] ++ nlb ++ efields_text fl ++ [125%N] ++ nlb.
Lemma fmt_estruct_ok nm fl g tail :
  format_struct (S (esum fl + S (S g))) false tab (mk (res ([idT nm; openT; nlT] ++ efields_toks fl ++ [closeT]) tail) structT false)
  = POk (estruct_text nm fl) (mk tail closeT false).
Proof.
  rewrite res_app, fmt_struct_head, res_app.
  destruct (fmt_efields fl (S (S g)) ((([115; 116; 114; 117; 99; 116]%N ++ sp ++ nm) ++ sp ++ [123%N]) ++ nlb) (res [closeT] tail) nlT) as (c' & E). rewrite E.
  replace (etsum fl + S (S g)) with (S (S (etsum fl + g))) by lia. rewrite fmt_close_gen.
  unfold estruct_text. rewrite <- !app_assoc. reflexivity.
Qed.
Lemma fmt_top_estruct nm fl g out nl tail c :
  format_loop (S (S (esum fl + S (S g)))) out false nl (mk (res (estruct_toks nm fl) tail) c false)
  = format_loop (esum fl + S (S g)) ((if nl then out ++ nlb else out) ++ estruct_text nm fl) false true (mk tail nlT false).
Proof.
  unfold estruct_toks.
  change ([structT; idT nm; openT; nlT] ++ efields_toks fl ++ [closeT; nlT])
    with ([structT] ++ ([idT nm; openT; nlT] ++ efields_toks fl ++ [closeT] ++ [nlT])).
  rewrite res_app, fmt_top_struct_head. unfold bind.
  replace ([idT nm; openT; nlT] ++ efields_toks fl ++ [closeT] ++ [nlT])
    with (([idT nm; openT; nlT] ++ efields_toks fl ++ [closeT]) ++ [nlT]) by (rewrite <- !app_assoc; reflexivity).
  rewrite res_app, fmt_estruct_ok. rewrite fmt_top_newline. reflexivity.
Qed.

(* ---------- the item ---------- *)
Definition efdef := (tfdef * option bytes)%type.
Definition bef (f : efdef) : efield := (btf (fst f), snd f).
Definition efdef_ok (f : efdef) : Prop := tfdef_ok (fst f) /\ match snd f with Some b => cbody_ok b | None => True end.
Definition eol_lex (e : option bytes) : list lexeme := match e with Some b => [LC b] | None => [NLx] end.
Definition eol_layout (e : option bytes) : list (bytes * lexeme) := match e with Some b => [(sp, LC b)] | None => [([], NLx)] end.
Definition efield_lex (f : efdef) : list lexeme := ty_lex (fst (fst f)) ++ [Wi (snd (fst f)); semiL] ++ eol_lex (snd f).
Definition efield_layout (f : efdef) : list (bytes * lexeme) := ty_layout tab (fst (fst f)) ++ [(sp, Wi (snd (fst f))); ([], semiL)] ++ eol_layout (snd f).

Lemma ef_toks f : efdef_ok f -> map tok_of (efield_lex f) = efield_toks (bef f).
Proof.
  intros [[Ht Hn] He]. unfold efield_lex, efield_toks, bef, btf. cbn [fst snd]. rewrite !map_app, (ty_lex_toks _ Ht). cbn [map]. rewrite (tok_of_Wi _ Hn).
  destruct (snd f); reflexivity.
Qed.
Lemma ef_lex f : efdef_ok f -> Forall lex_ok (efield_lex f).
Proof.
  intros [[Ht Hn] He]. unfold efield_lex. apply Forall_app. split; [exact (ty_lex_ok _ Ht)|]. constructor; [now apply lex_ok_Wi|]. constructor; [reflexivity|].
  destruct (snd f) as [b|]; cbn [eol_lex]; constructor; [now apply cbody_lex|constructor|reflexivity|constructor].
Qed.
Lemma ef_lay f : map snd (efield_layout f) = efield_lex f.
Proof. unfold efield_layout, efield_lex. rewrite !map_app, ty_layout_lex. destruct (snd f); reflexivity. Qed.
Lemma ef_hws f : Forall (fun p => hws (fst p)) (efield_layout f).
Proof.
  unfold efield_layout. apply Forall_app. split; [apply ty_layout_hws; exact hws_tab|]. constructor; [exact hws_sp|]. constructor; [exact hws_nil|].
  destruct (snd f); cbn [eol_layout]; constructor; [exact hws_sp|constructor|exact hws_nil|constructor].
Qed.
Lemma ef_sep f rest : sep_ok rest -> sep_ok (efield_layout f ++ rest).
Proof.
  intros Hr. unfold efield_layout. rewrite <- !app_assoc. apply ty_layout_sep.
  - cbn [app sep_ok needs_end Wi semiL]. split; [right; exists 59%N, kSemi; reflexivity|]. split; [exact I|].
    destruct (snd f); cbn [eol_layout app sep_ok needs_end NLx]; split; [exact I|exact Hr|exact I|exact Hr].
  - cbn [app ends]. left. discriminate.
Qed.
Lemma ef_ren f t : render (efield_layout f) t = efield_text (bef f) ++ t.
Proof.
  unfold efield_layout, efield_text, bef, btf. cbn [fst snd]. rewrite render_app, render_ty.
  destruct (snd f) as [b|]; cbn [eol_layout app render text_of Wi semiL NLx]; unfold ibytes, nlb, sp;
    repeat (rewrite <- app_assoc || rewrite <- app_comm_cons); reflexivity.
Qed.
Lemma esum_le fl : esum fl <= length (efields_toks fl).
Proof.
  induction fl as [|f fl IH]; [cbn; lia|]. cbn [esum fold_right efields_toks flat_map]. fold (esum fl). fold (efields_toks fl).
  rewrite app_length. unfold efield_toks. rewrite !app_length. cbn [length]. pose proof (tfuel_le (fst (fst f))). destruct (snd f); cbn [eol_toks length]; lia.
Qed.
Lemma ekeys_of fl : Forall efdef_ok fl -> Forall (fun f => ty_keys_ok (fst (fst f))) (map bef fl).
Proof. induction 1 as [|f fl [[Ht _] _] _ IH]; cbn [map]; constructor; [exact (lty_keys _ Ht)|exact IH]. Qed.

Definition ef_item (nm : ident) (fl : list efdef) : item :=
  let bfl := map bef fl in
  {| it_toks := estruct_toks (ibytes nm) bfl; it_need := esum bfl + 3; it_fneed := esum bfl + 4;
     it_upd := fun f => add_struct f (estruct_of (ibytes nm) bfl); it_text := estruct_text (ibytes nm) bfl; it_blank := true |}.
Definition ef_x (nm : ident) (fl : list efdef) : xitem :=
  {| x_lex := [kwS; Wi nm; ocuL; NLx] ++ flat_map efield_lex fl ++ [ccuL; NLx];
     x_lay := [([], kwS); (sp, Wi nm); (sp, ocuL); ([], NLx)] ++ flat_map efield_layout fl ++ [([], ccuL); ([], NLx)] |}.
Lemma ef_item_ok nm fl : ident_ok nm -> Forall efdef_ok fl -> item_ok (ef_item nm fl) (ef_x nm fl).
Proof.
  intros Hn Hf. pose proof (ekeys_of fl Hf) as Hk. constructor.
  - intros g f tail c. cbn [ef_item it_need it_toks it_upd]. exists (esum (map bef fl) + S g). split; [lia|].
    replace (esum (map bef fl) + 3 + g) with (S (esum (map bef fl) + S (S g))) by lia. apply (top_estruct _ _ _ _ _ _ Hk).
  - intros g out nl tail c. cbn [ef_item it_fneed it_toks it_text it_blank]. rewrite andb_true_r. exists (esum (map bef fl) + S (S g)). split; [lia|].
    replace (esum (map bef fl) + 4 + g) with (S (S (esum (map bef fl) + S (S g)))) by lia. apply fmt_top_estruct.
  - cbn [ef_x x_lex ef_item it_toks]. unfold estruct_toks. rewrite !map_app. cbn [map]. rewrite (tok_of_Wi nm Hn).
    rewrite (pf_toks efield_lex bef efield_toks efdef_ok ef_toks fl Hf). reflexivity.
  - cbn [ef_x x_lex]. cbn [app]. constructor; [exact kw_struct_ok|]. constructor; [now apply lex_ok_Wi|]. constructor; [reflexivity|]. constructor; [reflexivity|].
    apply Forall_app. split; [exact (pf_lex efield_lex efdef_ok ef_lex fl Hf)|]. constructor; [reflexivity|]. constructor; [reflexivity|constructor].
  - cbn [ef_item it_need it_fneed it_toks]. unfold estruct_toks. rewrite !app_length. cbn [length]. fold (efields_toks (map bef fl)).
    pose proof (esum_le (map bef fl)). lia.
  - cbn [ef_x x_lay x_lex]. rewrite !map_app, (pf_lay efield_lex efield_layout ef_lay). reflexivity.
  - cbn [ef_x x_lay]. cbn [app]. constructor; [exact hws_nil|]. constructor; [exact hws_sp|]. constructor; [exact hws_sp|]. constructor; [exact hws_nil|].
    apply Forall_app. split; [exact (pf_hws efield_layout ef_hws fl)|]. constructor; [exact hws_nil|]. constructor; [exact hws_nil|constructor].
  - intros rest Hr. cbn [ef_x x_lay]. rewrite <- !app_assoc. cbn [app sep_ok needs_end Wi kwS ocuL NLx].
    split; [left; discriminate|]. split; [left; discriminate|]. split; [exact I|]. split; [exact I|].
    apply (pf_sep efield_layout ef_sep). cbn [app sep_ok needs_end ccuL NLx]. split; [exact I|]. split; [exact I|exact Hr].
  - intros t. cbn [ef_x x_lay ef_item it_text]. rewrite !render_app, (pf_ren efield_layout bef efield_text ef_ren).
    cbn [render text_of Wi app NLx kwS ocuL ccuL]. unfold estruct_text, efields_text, ibytes, sp, nlb.
    repeat (rewrite <- app_assoc || rewrite <- app_comm_cons). reflexivity.
Qed.
Print Assumptions ef_item_ok.
