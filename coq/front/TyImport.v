(* Import lines in the inversion theorems: `import "path"` - an item Format writes back on its own line with no blank line
   before it (consecutive imports stay together), and a blank line after the last one. *)
From Coq Require Import List NArith ZArith Bool Arith Lia.
Require Import Bebop.front.Tok Bebop.front.Parse Bebop.front.Fmt Bebop.front.TokInv Bebop.front.LexInv Bebop.front.ParseInv Bebop.front.FmtInv Bebop.front.MsgInv.
Require Import Bebop.front.GenInv Bebop.front.Items Bebop.front.TyInv Bebop.front.TyItems Bebop.front.TyOpcode Bebop.front.TyDep.
Import ListNotations.

Definition importT : token := {| kind := 20%N; concrete := [105; 109; 112; 111; 114; 116]%N |}.
Definition import_toks (path : bytes) : list token := [importT; strT path; nlT].
Definition add_import (f : file) (p : bytes) : file :=
  {| structs := structs f; messages := messages f; enums := enums f; unions := unions f; consts := consts f;
     imports := imports f ++ [p]; gopackage := gopackage f |}.

Ltac istep1 :=
  cbv beta iota zeta delta [bind p_next p_haserr p_kind p_tok p_unnext ret fail expect_next conc next_cat mk keep rs cur perrs];
  cbn [N.eqb Pos.eqb orb andb negb kind concrete kNewline kBlockC kLineC kOpenSq kString importT strT nlT].
Ltac istep := repeat progress istep1.

Lemma top_import path g f tail c : Forall (fun x => dplain x = true) path ->
  top_loop (S (S g)) f [] 0%N false false (mk (res (import_toks path) tail) c false)
  = top_loop g (add_import f path) [] 0%N false false (mk tail nlT false).
Proof.
  intros Hp. unfold import_toks, res. cbn [map app top_loop]. istep.
  change (34%N :: path ++ [34%N]) with (concrete (strT path)). rewrite (unquote_str path Hp). reflexivity.
Qed.

Definition import_text (path : bytes) : bytes := [105; 109; 112; 111; 114; 116]%N ++ sp ++ (34%N :: path ++ [34%N]) ++ nlb.
Lemma fmt_top_import path g out nl tail c :
  format_loop (S (S g)) out false nl (mk (res (import_toks path) tail) c false)
  = format_loop g (out ++ import_text path) false true (mk tail nlT false).
Proof. unfold import_toks, res. cbn [map app format_loop]. istep. f_equal. Qed.

Definition kwImport : lexeme := W 105%N [109; 112; 111; 114; 116]%N.
Definition i_item (path : bytes) : item :=
  {| it_toks := import_toks path; it_need := 2; it_fneed := 2; it_upd := fun f => add_import f path; it_text := import_text path; it_blank := false |}.
Definition i_x (path : bytes) : xitem :=
  {| x_lex := [kwImport; Str path; NLx]; x_lay := [([], kwImport); (sp, Str path); ([], NLx)] |}.

Lemma i_item_ok path : Forall (fun x => dplain x = true) path -> item_ok (i_item path) (i_x path).
Proof.
  intros Hp. constructor.
  - intros g f tail c. exists g. split; [lia|]. exact (top_import path g f tail c Hp).
  - intros g out nl tail c. exists g. split; [lia|]. cbn [i_item it_fneed it_toks it_text it_blank]. rewrite andb_false_r. exact (fmt_top_import path g out nl tail c).
  - reflexivity.
  - cbn [i_x x_lex]. constructor; [split; [reflexivity|repeat constructor]|]. constructor; [|constructor; [reflexivity|constructor]].
    cbn [lex_ok]. eapply Forall_impl; [|exact Hp]. intros x Hx. now apply dplain_plain.
  - cbn [i_item it_need it_fneed it_toks import_toks length]. lia.
  - reflexivity.
  - cbn [i_x x_lay]. constructor; [exact hws_nil|]. constructor; [exact hws_sp|]. constructor; [exact hws_nil|constructor].
  - intros rest Hr. cbn [i_x x_lay app sep_ok needs_end kwImport NLx]. split; [left; discriminate|]. split; [exact I|]. split; [exact I|exact Hr].
  - intros t. cbn [i_x x_lay render text_of kwImport NLx i_item it_text]. unfold import_text, sp, nlb. repeat (rewrite <- app_assoc || rewrite <- app_comm_cons). reflexivity.
Qed.
