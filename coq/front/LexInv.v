(* Tokenizer inversion on whole texts: a sequence of words (identifiers / keywords) and single-byte terminals (newline
   included), each preceded by ANY run of horizontal whitespace (space, tab, CR - so CRLF line ends are covered), is
   tokenized into exactly that sequence, followed by clean end-of-input results only.  Hence the token stream - the only
   thing the parser model looks at - does not depend on the horizontal whitespace. *)
From Coq Require Import List NArith Bool Arith Lia.
Require Import Bebop.front.Tok Bebop.front.TokInv.
Import ListNotations.


(* ---------- more single-token lemmas: the arrow, decimal integer literals, plain string literals ---------- *)
Definition ends_word (d : byte) : bool := is_hws d || match term1 d with Some _ => true | None => false end.

Lemma next_arrow ws r lb lr : Forall (fun c => is_hws c = true) ws ->
  exists lb' lr', next (st (ws ++ 45%N :: 62%N :: r) lb lr) = R (Some {| kind := kArrow; concrete := [45%N; 62%N] |}) (st r lb' lr').
Proof.
  intros Hws. unfold next. cbn [buf rest st].
  assert (El : S (S (length (ws ++ 45%N :: 62%N :: r))) = length ws + S (S (S (S (length r))))) by (unfold byte in *; rewrite app_length; simpl length; lia).
  rewrite El.
  destruct (find_skip_ws ws (S (S (S (S (length r))))) (45%N :: 62%N :: r) lb lr Hws) as (lb1 & lr1 & ->).
  cbn [find]. unfold tr_read_byte, st. cbn [buf read_byte rest with_buf errs failing].
  change (skips NRoot 45%N) with false. change (succ NRoot 45%N) with (Go NMinus). cbn [find].
  unfold tr_read_byte. cbn [buf read_byte rest with_buf errs failing].
  change (skips NMinus 62%N) with false. change (succ NMinus 62%N) with (Term kArrow). cbn [app last_err errs].
  eexists _, _. reflexivity.
Qed.

Lemma ends_word_facts d : ends_word d = true ->
  is_digit d = false /\ N.eqb d 46 = false /\ N.eqb d 101 = false /\ N.eqb d 120 = false.
Proof.
  unfold ends_word, is_hws, term1, is_digit.
  repeat match goal with |- context [N.eqb d ?n] => destruct (N.eqb_spec d n) as [->|?]; [intros _; repeat split; reflexivity|] end.
  cbn [orb]. discriminate.
Qed.

(* the digits after the first one *)
Lemma number_loop_digits : forall ds g d r conc lb lr fl,
  Forall (fun c => is_digit c = true) ds -> ends_word d = true -> length ds < g -> (conc <> [] \/ fl = false) ->
  exists lb' lr',
    number_loop g (st (ds ++ d :: r) lb lr) conc kInt fl false false false
    = R {| kind := kInt; concrete := conc ++ ds |} (st (d :: r) lb' lr').
Proof.
  induction ds as [|c ds IH]; intros g d r conc lb lr fl H Hd Hg Hfl; (destruct g as [|g]; [cbn in Hg; lia|]).
  - destruct (ends_word_facts d Hd) as (D1 & D2 & D3 & D4).
    cbn [app number_loop]. unfold tr_read_byte, st. cbn [buf read_byte rest with_buf errs failing].
    rewrite D4, andb_false_r, D2, D1, D3. cbn [andb].
    unfold tr_unread_byte. cbn [buf unread_byte lastByte with_buf rest failing errs]. rewrite app_nil_r. eexists _, _. reflexivity.
  - inversion H as [|? ? Hc Hds]; subst.
    assert (Hc' : N.eqb c 120 = false /\ N.eqb c 46 = false).
    { unfold is_digit in Hc. apply andb_true_iff in Hc. destruct Hc as [H1 H2]. apply N.leb_le in H1. apply N.leb_le in H2.
      split; apply N.eqb_neq; lia. }
    destruct Hc' as [C1 C2].
    cbn [app number_loop]. unfold tr_read_byte, st. cbn [buf read_byte rest with_buf errs failing].
    rewrite C1, andb_false_r, C2, Hc.
    destruct (IH g d r (conc ++ [c]) (Some c) None false Hds Hd ltac:(cbn in Hg; lia) ltac:(right; reflexivity)) as (lb' & lr' & E).
    unfold st in E. unfold with_buf. cbn [errs]. rewrite E, <- app_assoc. eexists _, _. reflexivity.
Qed.

Lemma next_number c ds d ws r lb lr : is_digit c = true -> Forall (fun x => is_digit x = true) ds -> ends_word d = true ->
  Forall (fun x => is_hws x = true) ws ->
  exists lb' lr', next (st (ws ++ c :: ds ++ d :: r) lb lr) = R (Some {| kind := kInt; concrete := c :: ds |}) (st (d :: r) lb' lr').
Proof.
  intros Hc Hds Hd Hws.
  assert (Hsucc : succ NRoot c = Num /\ skips NRoot c = false).
  { unfold is_digit in Hc. pose proof Hc as Hc0. apply andb_true_iff in Hc. destruct Hc as [H1 H2]. apply N.leb_le in H1. apply N.leb_le in H2.
    unfold succ, skips.
    repeat match goal with |- context [N.eqb c ?n] => destruct (N.eqb_spec c n) as [->|?]; [exfalso; lia|] end.
    unfold is_digit. rewrite Hc0. split; reflexivity. }
  destruct Hsucc as [Hs Hn].
  unfold next. cbn [buf rest st].
  replace (S (S (length (ws ++ c :: ds ++ d :: r)))) with (length ws + S (S (S (length (ds ++ d :: r))))) by (rewrite !app_length; cbn [length]; rewrite ?app_length; cbn [length]; lia).
  destruct (find_skip_ws ws (S (S (S (length (ds ++ d :: r))))) (c :: ds ++ d :: r) lb lr Hws) as (lb1 & lr1 & ->).
  cbn [find]. unfold tr_read_byte, st. cbn [buf read_byte rest with_buf errs failing]. rewrite Hn, Hs. cbn [app].
  destruct (number_loop_digits ds (S (length (ds ++ d :: r))) d r [c] (Some c) None true Hds Hd) as (lb' & lr' & E).
  { rewrite app_length. cbn [length]. lia. } { left. discriminate. }
  unfold st in E. unfold with_buf. cbn [rest buf errs]. rewrite E. cbn [errs last_err]. eexists _, _. reflexivity.
Qed.


(* hexadecimal literals: 0x and at least one hex digit *)
Definition is_hexd (c : byte) : bool := is_digit c || is_hexl c.
Lemma ends_word_not_hexl d : ends_word d = true -> is_hexl d = false.
Proof.
  unfold ends_word, is_hws, term1, is_hexl.
  repeat match goal with |- context [N.eqb d ?n] => destruct (N.eqb_spec d n) as [->|?]; [intros _; reflexivity|] end.
  cbn [orb]. discriminate.
Qed.
Lemma hexd_facts c : is_hexd c = true -> N.eqb c 46 = false /\ (is_digit c = true \/ (is_digit c = false /\ is_hexl c = true)).
Proof.
  unfold is_hexd. intros H. split.
  - apply N.eqb_neq. intros ->. cbn in H. discriminate.
  - destruct (is_digit c); [left; reflexivity|right; split; [reflexivity|exact H]].
Qed.
Lemma number_loop_hexdigits : forall hs g d r conc lb lr iv,
  Forall (fun c => is_hexd c = true) hs -> ends_word d = true -> length hs < g -> (hs <> [] \/ iv = false) ->
  exists lb' lr',
    number_loop g (st (hs ++ d :: r) lb lr) conc kInt false true false iv
    = R {| kind := kInt; concrete := conc ++ hs |} (st (d :: r) lb' lr').
Proof.
  induction hs as [|c hs IH]; intros g d r conc lb lr iv H Hd Hg Hiv; (destruct g as [|g]; [cbn in Hg; lia|]).
  - destruct Hiv as [Hiv| ->]; [congruence|].
    destruct (ends_word_facts d Hd) as (D1 & D2 & D3 & D4). pose proof (ends_word_not_hexl d Hd) as D5.
    cbn [app number_loop]. unfold tr_read_byte, st. cbn [buf read_byte rest with_buf errs failing].
    cbn [andb]. rewrite D2, D1, D5, D3. cbn [andb].
    unfold tr_unread_byte. cbn [buf unread_byte lastByte with_buf rest failing errs]. rewrite app_nil_r. eexists _, _. reflexivity.
  - inversion H as [|? ? Hc Hds]; subst. destruct (hexd_facts c Hc) as [C2 C3].
    cbn [app number_loop]. unfold tr_read_byte, st. cbn [buf read_byte rest with_buf errs failing]. cbn [andb]. rewrite C2.
    destruct (IH g d r (conc ++ [c]) (Some c) None false Hds Hd ltac:(cbn in Hg; lia) ltac:(right; reflexivity)) as (lb' & lr' & E).
    unfold st in E. unfold with_buf. cbn [errs].
    destruct C3 as [C3|[C3 C4]]; rewrite C3; [|rewrite C4; cbn [andb]]; rewrite E, <- app_assoc; eexists _, _; reflexivity.
Qed.
Lemma number_loop_x g rest0 conc lb lr :
  number_loop (S g) (st (120%N :: rest0) lb lr) conc kInt true false false false
  = number_loop g (st rest0 (Some 120%N) None) (conc ++ [120%N]) kInt false true false true.
Proof. cbn [number_loop]. unfold tr_read_byte, st. cbn [buf read_byte rest with_buf errs failing]. reflexivity. Qed.
Lemma next_hexnumber h hs d ws r lb lr : Forall (fun x => is_hexd x = true) (h :: hs) -> ends_word d = true ->
  Forall (fun x => is_hws x = true) ws ->
  exists lb' lr', next (st (ws ++ 48%N :: 120%N :: (h :: hs) ++ d :: r) lb lr)
                  = R (Some {| kind := kInt; concrete := 48%N :: 120%N :: h :: hs |}) (st (d :: r) lb' lr').
Proof.
  intros Hh Hd Hws. unfold next. cbn [buf rest st].
  replace (S (S (length (ws ++ 48%N :: 120%N :: (h :: hs) ++ d :: r)))) with (length ws + S (S (S (S (length ((h :: hs) ++ d :: r))))))
    by (rewrite !app_length; cbn [length]; rewrite ?app_length; cbn [length]; lia).
  destruct (find_skip_ws ws (S (S (S (S (length ((h :: hs) ++ d :: r)))))) (48%N :: 120%N :: (h :: hs) ++ d :: r) lb lr Hws) as (lb1 & lr1 & ->).
  set (body := (h :: hs) ++ d :: r) in *.
  cbn [find]. unfold tr_read_byte, st. cbn [buf read_byte rest with_buf errs failing].
  change (skips NRoot 48%N) with false. change (succ NRoot 48%N) with Num. cbv beta iota zeta. cbn [rest buf with_buf length app].
  unfold with_buf. cbn [errs buf].
  pose proof (number_loop_x (S (length body)) body [48%N] (Some 48%N) None) as Ex. unfold st in Ex. unfold byte, bytes in *. rewrite Ex. clear Ex.
  destruct (number_loop_hexdigits (h :: hs) (S (length body)) d r ([48%N] ++ [120%N]) (Some 120%N) None true Hh Hd) as (lb' & lr' & E).
  { unfold body, byte, bytes in *. rewrite app_length. cbn [length]. lia. } { left. discriminate. }
  unfold st in E. unfold body, byte, bytes in *. rewrite E. cbn [errs last_err app]. eexists _, _. reflexivity.
Qed.

Definition plain (x : byte) : bool := negb (N.eqb x 34) && negb (N.eqb x 92).
Lemma string_lit_plain : forall body g r conc lb lr, Forall (fun x => plain x = true) body -> length body < g ->
  exists lb' lr',
    string_lit g (st (body ++ 34%N :: r) lb lr) conc false = R {| kind := kString; concrete := conc ++ body ++ [34%N] |} (st r lb' lr').
Proof.
  induction body as [|c body IH]; intros g r conc lb lr H Hg; (destruct g as [|g]; [cbn in Hg; lia|]).
  - cbn [app string_lit]. unfold tr_read_byte, st. cbn [buf read_byte rest with_buf errs failing].
    change (N.eqb 34 34 && negb false) with true. cbv iota. unfold with_buf. cbn [errs]. eexists _, _. reflexivity.
  - inversion H as [|? ? Hc Hb]; subst. unfold plain in Hc. apply andb_true_iff in Hc. destruct Hc as [C1 C2].
    apply negb_true_iff in C1. apply negb_true_iff in C2.
    cbn [app string_lit]. unfold tr_read_byte, st. cbn [buf read_byte rest with_buf errs failing].
    rewrite C1, C2. cbn [andb].
    destruct (IH g r (conc ++ [c]) (Some c) None Hb ltac:(cbn in Hg; lia)) as (lb' & lr' & E).
    unfold st in E. unfold with_buf. cbn [errs]. rewrite E, <- app_assoc. eexists _, _. reflexivity.
Qed.
Lemma next_string body ws r lb lr : Forall (fun x => plain x = true) body -> Forall (fun x => is_hws x = true) ws ->
  exists lb' lr', next (st (ws ++ 34%N :: body ++ 34%N :: r) lb lr)
                  = R (Some {| kind := kString; concrete := 34%N :: body ++ [34%N] |}) (st r lb' lr').
Proof.
  intros Hb Hws. unfold next. cbn [buf rest st].
  assert (El : S (S (length (ws ++ 34%N :: body ++ 34%N :: r))) = length ws + S (S (S (length (body ++ 34%N :: r)))))
    by (unfold byte in *; rewrite !app_length; simpl length; rewrite ?app_length; simpl length; lia).
  rewrite El.
  destruct (find_skip_ws ws (S (S (S (length (body ++ 34%N :: r))))) (34%N :: body ++ 34%N :: r) lb lr Hws) as (lb1 & lr1 & ->).
  cbn [find]. unfold tr_read_byte, st. cbn [buf read_byte rest with_buf errs failing].
  change (skips NRoot 34%N) with false. change (succ NRoot 34%N) with Str. cbn [app].
  destruct (string_lit_plain body (S (length (body ++ 34%N :: r))) r [34%N] (Some 34%N) None Hb) as (lb' & lr' & E).
  { unfold byte in *. rewrite app_length. simpl length. lia. }
  unfold st in E. unfold with_buf. cbn [rest buf errs]. unfold byte, bytes in *. rewrite E. cbn [errs last_err app]. eexists _, _. reflexivity.
Qed.

(* a line comment: // and the rest of the line, newline included *)
Lemma split_nl_body : forall body acc r, Forall (fun x => N.eqb x 10 = false) body ->
  split_nl (body ++ 10%N :: r) acc = (rev acc ++ body ++ [10%N], Some r).
Proof.
  induction body as [|c body IH]; intros acc r H.
  - cbn [app split_nl N.eqb Pos.eqb rev]. reflexivity.
  - inversion H as [|? ? Hc Hb]; subst. cbn [app split_nl]. rewrite Hc. refine (eq_trans (IH (c :: acc) r Hb) _). cbn [rev]. rewrite <- app_assoc. reflexivity.
Qed.
Lemma next_linec body ws r lb lr : Forall (fun x => N.eqb x 10 = false) body -> Forall (fun x => is_hws x = true) ws ->
  exists lb' lr', next (st (ws ++ 47%N :: 47%N :: body ++ 10%N :: r) lb lr)
                  = R (Some {| kind := kLineC; concrete := 47%N :: 47%N :: body ++ [10%N] |}) (st r lb' lr').
Proof.
  intros Hb Hws. unfold next. cbn [buf rest st].
  assert (El : S (S (length (ws ++ 47%N :: 47%N :: body ++ 10%N :: r))) = length ws + S (S (S (S (length (body ++ 10%N :: r))))))
    by (unfold byte in *; rewrite !app_length; simpl length; rewrite ?app_length; simpl length; lia).
  rewrite El.
  destruct (find_skip_ws ws (S (S (S (S (length (body ++ 10%N :: r)))))) (47%N :: 47%N :: body ++ 10%N :: r) lb lr Hws) as (lb1 & lr1 & ->).
  cbn [find]. unfold tr_read_byte, st. cbn [buf read_byte rest with_buf errs failing].
  change (skips NRoot 47%N) with false. change (succ NRoot 47%N) with (Go NSlash). cbn [app].
  change (skips NSlash 47%N) with false. change (succ NSlash 47%N) with LineC. cbv beta iota zeta.
  unfold line_comment, read_bytes_nl, with_buf. cbn [buf rest errs]. rewrite (split_nl_body body [] r Hb). cbn [rev app errs last_err].
  eexists _, _. reflexivity.
Qed.

Inductive lexeme := W (c : byte) (tl : bytes) | T1 (c : byte) (k : N) | Arrow | Num (c : byte) (ds : bytes) | Str (body : bytes) | LC (body : bytes).
(* an integer literal: decimal digits, or 0x and at least one hexadecimal digit *)
Definition num_ok (c : byte) (ds : bytes) : Prop :=
  is_digit c = true /\ (Forall (fun x => is_digit x = true) ds \/ (c = 48%N /\ exists h hs, ds = 120%N :: h :: hs /\ Forall (fun x => is_hexd x = true) (h :: hs))).
Definition lex_ok (l : lexeme) : Prop :=
  match l with
  | W c tl => is_letter c = true /\ Forall (fun x => is_idc x = true) tl
  | T1 c k => term1 c = Some k
  | Arrow => True
  | Num c ds => num_ok c ds
  | Str body => Forall (fun x => plain x = true) body
  | LC body => Forall (fun x => N.eqb x 10 = false) body
  end.
Definition tok_of (l : lexeme) : token :=
  match l with
  | W c tl => {| kind := keyword (c :: tl); concrete := c :: tl |}
  | T1 c k => {| kind := k; concrete := [c] |}
  | Arrow => {| kind := kArrow; concrete := [45%N; 62%N] |}
  | Num c ds => {| kind := kInt; concrete := c :: ds |}
  | Str body => {| kind := kString; concrete := 34%N :: body ++ [34%N] |}
  | LC body => {| kind := kLineC; concrete := 47%N :: 47%N :: body ++ [10%N] |}
  end.
Definition text_of (l : lexeme) : bytes :=
  match l with W c tl => c :: tl | T1 c _ => [c] | Arrow => [45%N; 62%N] | Num c ds => c :: ds | Str body => 34%N :: body ++ [34%N] | LC body => 47%N :: 47%N :: body ++ [10%N] end.
Fixpoint render (l : list (bytes * lexeme)) (tail : bytes) : bytes :=
  match l with
  | [] => tail
  | (ws, x) :: r => ws ++ text_of x ++ render r tail
  end.

Definition hws (ws : bytes) : Prop := Forall (fun c => is_hws c = true) ws.
(* a word is followed by something that ends it: whitespace, or directly a terminal; the text does not end in a word *)
Definition needs_end (x : lexeme) : bool := match x with W _ _ | Num _ _ => true | _ => false end.
Fixpoint sep_ok (l : list (bytes * lexeme)) : Prop :=
  match l with
  | [] => True
  | (_, x) :: r =>
      (if needs_end x then match r with
                           | [] => False
                           | (ws2, x2) :: _ => ws2 <> [] \/ exists c k, x2 = T1 c k
                           end
       else True) /\ sep_ok r
  end.

Lemma term1_not_idc c k : term1 c = Some k -> is_idc c = false.
Proof.
  unfold term1. repeat match goal with |- context [N.eqb c ?n] => destruct (N.eqb_spec c n) as [->|?]; [intros _; reflexivity|] end.
  discriminate.
Qed.
Lemma hws_not_idc c : is_hws c = true -> is_idc c = false.
Proof.
  unfold is_hws. intros H. apply orb_true_iff in H. destruct H as [H|H]; [apply orb_true_iff in H; destruct H as [H|H]|];
    apply N.eqb_eq in H; subst; reflexivity.
Qed.

(* end of input after trailing whitespace: a clean "no more tokens", and it stays that way *)
Lemma find_eof : forall ws g lb lr, hws ws -> length ws < g ->
  exists lb' lr', find g NRoot (st ws lb lr) [] = R None (add_err (st [] lb' lr') KEOF).
Proof.
  induction ws as [|c ws IH]; intros g lb lr H Hg; (destruct g as [|g]; [cbn in Hg; lia|]).
  - cbn [find]. unfold tr_read_byte, st. cbn [buf read_byte rest with_buf errs failing lastByte]. eexists _, _. reflexivity.
  - inversion H as [|? ? Hc Hws]; subst. cbn [find]. unfold tr_read_byte, st. cbn [buf read_byte rest with_buf errs failing].
    assert (Hs : skips NRoot c = true) by exact Hc. rewrite Hs.
    destruct (IH g (Some c) None Hws ltac:(cbn in Hg; lia)) as (lb' & lr' & E). exists lb', lr'. exact E.
Qed.
Lemma next_eof ws lb lr : hws ws -> exists lb' lr', next (st ws lb lr) = R None (st [] lb' lr').
Proof.
  intros H. unfold next. cbn [buf rest st].
  destruct (find_eof ws (S (S (length ws))) lb lr H ltac:(lia)) as (lb' & lr' & ->).
  unfold add_err, st. cbn [errs app last_err buf removelast]. eexists _, _. reflexivity.
Qed.
Lemma next_results_eof : forall m ws lb lr, hws ws -> next_results m (st ws lb lr) = repeat (NF []) m.
Proof.
  induction m as [|m IH]; intros ws lb lr H; [reflexivity|]. cbn [next_results repeat].
  destruct (next_eof ws lb lr H) as (lb' & lr' & ->). cbn [errs st]. f_equal. apply IH. constructor.
Qed.

(* the text after a word or a number starts with a byte that ends it *)
Lemma render_after_word r tail : Forall (fun p => hws (fst p) /\ lex_ok (snd p)) r ->
  match r with [] => False | (ws2, x2) :: _ => ws2 <> [] \/ exists c k, x2 = T1 c k end ->
  exists d rest, render r tail = d :: rest /\ is_idc d = false /\ ends_word d = true.
Proof.
  destruct r as [|[ws2 x2] r']; [contradiction|]. intros H Hs. inversion H as [|? ? [Hw Hx] _]; subst. cbn [fst snd] in *.
  cbn [render]. destruct ws2 as [|c ws2].
  - destruct Hs as [Hs|(c & k & ->)]; [congruence|]. cbn [text_of app]. exists c, (render r' tail). split; [reflexivity|].
    split; [exact (term1_not_idc c k Hx)|]. unfold ends_word. cbn [lex_ok] in Hx. rewrite Hx. apply orb_true_r.
  - inversion Hw as [|? ? Hc _]; subst. cbn [app]. eexists c, _. split; [reflexivity|]. split; [exact (hws_not_idc c Hc)|].
    unfold ends_word. rewrite Hc. reflexivity.
Qed.

Theorem lex_inversion : forall l tail m lb lr,
  Forall (fun p => hws (fst p) /\ lex_ok (snd p)) l -> sep_ok l -> hws tail ->
  next_results (length l + m) (st (render l tail) lb lr)
  = map (fun p => NT (tok_of (snd p)) []) l ++ repeat (NF []) m.
Proof.
  induction l as [|[ws x] r IH]; intros tail m lb lr H Hs Ht.
  - cbn [length plus render map app]. apply next_results_eof. exact Ht.
  - inversion H as [|? ? [Hw Hx] Hr]; subst. cbn [fst snd] in *. cbn [length plus next_results render map app].
    cbn [sep_ok] in Hs. destruct Hs as [Hend Hsr].
    destruct x as [c tl|c k| |c ds|body|body]; cbn [lex_ok text_of tok_of needs_end] in *.
    + destruct Hx as [Hc Htl].
      destruct (render_after_word r tail Hr Hend) as (d & rest0 & Er & Hd & _).
      rewrite Er. cbn [app].
      destruct (next_word c tl d ws rest0 lb lr Hc Htl Hd Hw) as (lb' & lr' & E).
      cbn [app] in E |- *. rewrite E. cbn [errs st]. f_equal. rewrite <- Er. apply IH; assumption.
    + cbn [app].
      destruct (next_term1 c k ws (render r tail) lb lr Hx Hw) as (lb' & lr' & E). rewrite E. cbn [errs st]. f_equal.
      apply IH; assumption.
    + cbn [app].
      destruct (next_arrow ws (render r tail) lb lr Hw) as (lb' & lr' & E). unfold byte, bytes in *. rewrite E. cbn [errs st]. f_equal.
      apply IH; assumption.
    + destruct Hx as [Hc [Hds|(-> & h & hs & -> & Hh)]].
      * destruct (render_after_word r tail Hr Hend) as (d & rest0 & Er & _ & Hd).
        rewrite Er. cbn [app].
        destruct (next_number c ds d ws rest0 lb lr Hc Hds Hd Hw) as (lb' & lr' & E).
        cbn [app] in E |- *. unfold byte, bytes in *. rewrite E. cbn [errs st]. f_equal. rewrite <- Er. apply IH; assumption.
      * destruct (render_after_word r tail Hr Hend) as (d & rest0 & Er & _ & Hd).
        rewrite Er. cbn [app].
        destruct (next_hexnumber h hs d ws rest0 lb lr Hh Hd Hw) as (lb' & lr' & E).
        cbn [app] in E |- *. unfold byte, bytes in *. rewrite E. cbn [errs st]. f_equal. rewrite <- Er. apply IH; assumption.
    + cbn [app]. rewrite <- app_assoc. cbn [app].
      destruct (next_string body ws (render r tail) lb lr Hx Hw) as (lb' & lr' & E). unfold byte, bytes in *. rewrite E. cbn [errs st]. f_equal.
      apply IH; assumption.
    + cbn [app]. rewrite <- app_assoc. cbn [app].
      destruct (next_linec body ws (render r tail) lb lr Hx Hw) as (lb' & lr' & E). unfold byte, bytes in *. rewrite E. cbn [errs st]. f_equal.
      apply IH; assumption.
Qed.

(* the tokenizer run the parser is given (Tok.run): the tokens, then clean end-of-input results *)
Corollary run_inversion l tail : Forall (fun p => hws (fst p) /\ lex_ok (snd p)) l -> sep_ok l -> hws tail ->
  exists m, length l + m = length (render l tail) + margin /\
            run (render l tail) false = map (fun p => NT (tok_of (snd p)) []) l ++ repeat (NF []) m.
Proof.
  intros H Hs Ht. unfold run.
  assert (Hlen : length l <= length (render l tail)).
  { clear Hs. induction H as [|[ws x] r _ _ IH]; cbn [length render]; [lia|]. rewrite !app_length. destruct x; cbn [text_of length]; lia. }
  remember (length (render l tail) + margin - length l) as m eqn:Em. exists m.
  assert (En : length (render l tail) + margin = length l + m) by lia. split; [lia|]. rewrite En.
  apply (lex_inversion l tail _ None None H Hs Ht).
Qed.

(* layout independence at the level the parser sees: two texts with the same lexemes and ANY horizontal whitespace
   between them give the same tokens (they differ at most in how many end-of-input results follow) *)
Corollary layout_independent l l' tail tail' :
  map snd l = map snd l' ->
  Forall (fun p => hws (fst p) /\ lex_ok (snd p)) l -> sep_ok l -> hws tail ->
  Forall (fun p => hws (fst p) /\ lex_ok (snd p)) l' -> sep_ok l' -> hws tail' ->
  exists toks m m', run (render l tail) false = toks ++ repeat (NF []) m /\ run (render l' tail') false = toks ++ repeat (NF []) m'.
Proof.
  intros E H Hs Ht H' Hs' Ht'. destruct (run_inversion l tail H Hs Ht) as (m & _ & Em). destruct (run_inversion l' tail' H' Hs' Ht') as (m' & _ & Em').
  exists (map (fun p => NT (tok_of (snd p)) []) l), m, m'. split; [exact Em|]. rewrite Em'. f_equal.
  transitivity (map (fun x => NT (tok_of x) []) (map snd l')); [symmetry; apply map_map|].
  rewrite <- E. apply map_map.
Qed.

