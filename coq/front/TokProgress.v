(* Every Next() call on the model consumes input: a call made with bytes left leaves strictly fewer, a call made at the end of
   the input answers `false` and leaves none.  (The one place where the input grows - skipFollowingWhitespace giving the last
   byte back after a failed read at the end of the input - follows the two bytes that closed a block comment.)  So the list of
   results holds at most as many tokens as the input has bytes, and after that many calls every answer is `false`. *)
From Coq Require Import List NArith Bool Arith Lia.
Require Import Bebop.front.Tok Bebop.front.TokSafe Bebop.front.TokFuel.
Import ListNotations.

Definition le_res {A} (k : nat) (r : res A) : Prop := match r with R _ s1 => len s1 <= k | RPanic => True end.

Lemma read_len_S s b s1 : tr_read_byte s = (inl b, s1) -> len s = S (len s1).
Proof.
  unfold tr_read_byte, read_byte, len. destruct (buf s) as [r lb lr fl]. cbn [rest]. destruct r as [|c r]; [discriminate|].
  intros [= <- <-]. reflexivity.
Qed.

Lemma read_err_nil s e s1 : tr_read_byte s = (inr e, s1) -> len s = 0.
Proof.
  unfold tr_read_byte, read_byte, len. destruct (buf s) as [r lb lr fl]. cbn [rest]. destruct r as [|c r]; [reflexivity|discriminate].
Qed.

Lemma number_loop_le : forall g s conc k a b c d, le_res (len s) (number_loop g s conc k a b c d).
Proof.
  induction g as [|g IH]; intros s conc k a b c d; [cbn; lia|]. cbn [number_loop].
  destruct (tr_read_byte s) as [[x|[|]] s1] eqn:E.
  - apply read_len_S in E.
    assert (IH' : forall conc k a b c d, le_res (len s) (number_loop g s1 conc k a b c d)).
    { intros. specialize (IH s1 conc0 k0 a0 b0 c0 d0). destruct (number_loop g s1 conc0 k0 a0 b0 c0 d0); cbn [le_res] in *; lia. }
    repeat match goal with |- le_res _ (if ?c then _ else _) => destruct c end; try apply IH';
      try (cbn [le_res]; rewrite ?add_err_len_rest; lia).
    destruct (tr_unread_byte s1) as [s2|] eqn:U; [|exact I]. apply unread_len in U. cbn [le_res]. lia.
  - apply read_err_len in E. destruct d; cbn [le_res]; rewrite ?add_err_len_rest; lia.
  - apply read_err_len in E. cbn [le_res]. rewrite add_err_len_rest. lia.
Qed.
Lemma string_lit_le : forall g s conc e, le_res (len s) (string_lit g s conc e).
Proof.
  induction g as [|g IH]; intros s conc e; [cbn; lia|]. cbn [string_lit].
  destruct (tr_read_byte s) as [[x|[|]] s1] eqn:E.
  - apply read_len_S in E. destruct (N.eqb x 34 && negb e); [cbn [le_res]; lia|].
    specialize (IH s1 (conc ++ [x]) (N.eqb x 92 && negb e)). destruct (string_lit g s1 _ _); cbn [le_res] in *; lia.
  - apply read_err_len in E. cbn [le_res]. rewrite add_err_len_rest. lia.
  - apply read_err_len in E. cbn [le_res]. rewrite add_err_len_rest. lia.
Qed.
Lemma split_nl_len : forall l acc line r, split_nl l acc = (line, Some r) -> length r <= length l.
Proof.
  induction l as [|c l IH]; intros acc line r E; cbn [split_nl] in E; [discriminate|].
  destruct (N.eqb c 10); [injection E as _ <-; cbn; lia|]. apply IH in E. cbn. lia.
Qed.
Lemma line_comment_le s conc : le_res (len s) (line_comment s conc).
Proof.
  unfold line_comment, read_bytes_nl. destruct (split_nl (rest (buf s)) []) as [line [r|]] eqn:E.
  - apply split_nl_len in E. cbn [le_res]. unfold len. cbn. exact E.
  - destruct (failing (buf s)); cbn [le_res]; unfold len; cbn; lia.
Qed.
Lemma skip_ws_le : forall g s, le_res (S (len s)) (skip_ws g s).
Proof.
  induction g as [|g IH]; intros s; [cbn; lia|]. cbn [skip_ws].
  destruct (tr_read_byte s) as [[x|e] s1] eqn:E.
  - apply read_len_S in E. destruct (N.eqb x 10 || N.eqb x 32 || N.eqb x 13).
    + specialize (IH s1). destruct (skip_ws g s1); cbn [le_res] in *; lia.
    + destruct (tr_unread_byte s1) as [s2|] eqn:U; [|exact I]. apply unread_len in U. cbn [le_res]. lia.
  - apply read_err_len in E. destruct (tr_unread_byte s1) as [s2|] eqn:U; [|exact I]. apply unread_len in U. cbn [le_res]. lia.
Qed.
Lemma block_comment_le : forall g s conc l, le_res (len s) (block_comment g s conc l).
Proof.
  induction g as [|g IH]; intros s conc l; [cbn; lia|]. cbn [block_comment].
  destruct (tr_read_byte s) as [[x|[|]] s1] eqn:E.
  - apply read_len_S in E. destruct (N.eqb l 42 && N.eqb x 47).
    + pose proof (skip_ws_le (S (length (rest (buf s1)))) s1) as H. destruct (skip_ws _ s1); [|exact I]. cbn [le_res] in *. lia.
    + specialize (IH s1 (conc ++ [x]) x). destruct (block_comment g s1 _ _); cbn [le_res] in *; lia.
  - apply read_err_len in E. cbn [le_res]. rewrite add_err_len_rest. lia.
  - apply read_err_len in E. cbn [le_res]. rewrite add_err_len_rest. lia.
Qed.

(* find: never longer; strictly shorter when there was a byte to read *)
Lemma find_le : forall g n s conc, le_res (len s) (find g n s conc) /\ (0 < len s -> 0 < g -> le_res (len s - 1) (find g n s conc)).
Proof.
  induction g as [|g IH]; intros n s conc; [split; [cbn; lia|lia]|]. cbn [find].
  destruct (tr_read_byte s) as [[x|[|]] s0] eqn:R1.
  - apply read_len_S in R1.
    assert (K : forall r : res (option token), le_res (len s0) r -> le_res (len s) r /\ (0 < len s -> 0 < S g -> le_res (len s - 1) r)).
    { intros r H. destruct r; cbn [le_res] in *; [|auto]. split; intros; lia. }
    destruct (skips n x); [apply K, IH|].
    assert (D : forall b0 s0', len s0' = len s0 -> le_res (len s0)
      match succ n b0 with
      | Term k => R (Some {| kind := k; concrete := conc ++ [b0] |}) s0'
      | Num => match number_loop (S (length (rest (buf s0')))) s0' (conc ++ [b0]) kInt true false false false with R t s2 => R (Some t) s2 | RPanic => RPanic end
      | Str => match string_lit (S (length (rest (buf s0')))) s0' (conc ++ [b0]) false with R t s2 => R (Some t) s2 | RPanic => RPanic end
      | LineC => match line_comment s0' (conc ++ [b0]) with R t s2 => R (Some t) s2 | RPanic => RPanic end
      | BlockC => match block_comment (S (length (rest (buf s0')))) s0' (conc ++ [b0]) 0%N with R t s2 => R (Some t) s2 | RPanic => RPanic end
      | Go n' => find g n' s0' (conc ++ [b0])
      | NoSucc => R None s0'
      end).
    { intros b0 s0' L. destruct (succ n b0).
      - cbn [le_res]. lia.
      - pose proof (number_loop_le (S (length (rest (buf s0')))) s0' (conc ++ [b0]) kInt true false false false) as H.
        destruct (number_loop _ _ _ _ _ _ _ _); cbn [le_res] in *; [lia|exact I].
      - pose proof (string_lit_le (S (length (rest (buf s0')))) s0' (conc ++ [b0]) false) as H.
        destruct (string_lit _ _ _ _); cbn [le_res] in *; [lia|exact I].
      - pose proof (line_comment_le s0' (conc ++ [b0])) as H. destruct (line_comment _ _); cbn [le_res] in *; [lia|exact I].
      - pose proof (block_comment_le (S (length (rest (buf s0')))) s0' (conc ++ [b0]) 0%N) as H.
        destruct (block_comment _ _ _ _); cbn [le_res] in *; [lia|exact I].
      - pose proof (proj1 (IH n0 s0' (conc ++ [b0]))) as H. destruct (find g n0 s0' _); cbn [le_res] in *; [lia|exact I].
      - cbn [le_res]. lia. }
    destruct (succ n x) eqn:S1; try (apply K; specialize (D x s0 eq_refl); rewrite S1 in D; exact D).
    destruct conc as [|c0 conc0]; [apply K; cbn [le_res]; lia|]. apply K. apply (D (first_valid n) (add_err s0 KOther) eq_refl).
  - pose proof (read_err_nil _ _ _ R1) as Z0. apply read_err_len in R1. split; [cbn [le_res]; rewrite add_err_len_rest; lia|]. intros H _. lia.
  - pose proof (read_err_nil _ _ _ R1) as Z0. apply read_err_len in R1. split; [cbn [le_res]; rewrite add_err_len_rest; lia|]. intros H _. lia.
Qed.

Lemma next_ident_le : forall g s conc, le_res (len s) (next_ident g s conc).
Proof.
  induction g as [|g IH]; intros s conc; [cbn; lia|]. cbn [next_ident].
  destruct (read_rune (buf s)) as [[c|[|]] b1] eqn:E.
  - assert (L : len s = S (len (with_buf s b1)) /\ (lastRune b1 <> None /\ lastByte b1 <> None)).
    { unfold read_rune, len in *. destruct (buf s) as [r lb lr fl]. cbn [rest] in *. destruct r as [|x r]; [discriminate|].
      injection E as <- <-. cbn. repeat split; discriminate. }
    destruct L as [L [L1 L2]].
    destruct (is_letter c || is_digit c || N.eqb c 95).
    + specialize (IH (with_buf s b1) (conc ++ [c])). destruct (next_ident g _ _); cbn [le_res] in *; lia.
    + cbn [le_res]. unfold len, with_buf, unread_rune in *. cbn [buf rest] in *.
      destruct (lastRune b1); [|congruence]. destruct (lastByte b1); [|congruence]. cbn [rest length]. lia.
  - cbn [le_res]. unfold len, with_buf, read_rune in *. destruct (buf s) as [r lb lr fl]. cbn [rest] in *. destruct r; [|discriminate].
    injection E as _ <-. cbn. lia.
  - cbn [le_res]. unfold len, with_buf, add_err, read_rune in *. destruct (buf s) as [r lb lr fl]. cbn [rest] in *. destruct r; [|discriminate].
    injection E as _ <-. cbn. lia.
Qed.

Theorem next_progress s :
  match next s with
  | RPanic => True
  | R ot s1 => (0 < len s -> len s1 < len s) /\ (len s = 0 -> ot = None /\ len s1 = 0)
  end.
Proof.
  unfold next. fold (len s).
  pose proof (find_le (S (S (len s))) NRoot s []) as [F1 F2].
  destruct (find (S (S (len s))) NRoot s []) as [ot s1|] eqn:F; [|exact I]. cbn [le_res] in F1, F2.
  assert (Z0 : len s = 0 -> ot = None /\ len s1 = 0 /\ length (errs s) < length (errs s1)).
  { intros Z. cbn [find] in F. destruct (tr_read_byte s) as [[x|[|]] s0] eqn:R1.
    - apply read_len_S in R1. lia.
    - pose proof (proj2 (read_err_lb _ _ _ R1)) as EE. apply read_err_len in R1. injection F as <- <-. rewrite add_err_len_rest.
      unfold add_err. cbn [errs]. rewrite app_length, EE. cbn [length]. split; [reflexivity|split; lia].
    - pose proof (proj2 (read_err_lb _ _ _ R1)) as EE. apply read_err_len in R1. injection F as <- <-. rewrite add_err_len_rest.
      unfold add_err. cbn [errs]. rewrite app_length, EE. cbn [length]. split; [reflexivity|split; lia]. }
  destruct (last_err (errs s1)) as [[| | |]|] eqn:LE.
  all: try (split; [intros H; specialize (F2 H ltac:(lia)); cbn [len buf] in *; unfold len in *; cbn [buf]; lia
                   |intros Z; destruct (Z0 Z) as [-> [Z1 _]]; split; [reflexivity|unfold len in *; cbn [buf]; exact Z1]]).
  all: destruct ot as [t|];
    [split; [intros H; specialize (F2 H ltac:(lia)); lia|intros Z; destruct (Z0 Z) as [Z1 _]; discriminate]|].
  all: destruct (Nat.ltb (length (errs s)) (length (errs s1))) eqn:LT;
    [split; [intros H; specialize (F2 H ltac:(lia)); lia|intros Z; destruct (Z0 Z) as [_ [Z1 _]]; auto]|].
  all: destruct (tr_unread_byte s1) as [s2|] eqn:U; [|exact I]; apply unread_len in U;
    assert (P : 0 < len s) by (destruct (len s) eqn:Z; [destruct (Z0 eq_refl) as [_ [_ Z2]]; apply Nat.ltb_ge in LT; lia|lia]);
    specialize (F2 P ltac:(lia));
    destruct (read_rune (buf s2)) as [[c|[|]] b3] eqn:RR.
  all: try (apply rune_len in RR; destruct (is_letter c);
            [pose proof (next_ident_le (S (S (len s))) (with_buf s2 b3) [c]) as NI; destruct (next_ident _ _ _); [|exact I]; cbn [le_res] in NI; split; [intros _; lia|lia]
            |split; [intros _|lia]; rewrite add_err_len_rest; lia]).
  all: split; [intros _|lia]; rewrite add_err_len_rest; unfold read_rune, len, with_buf in *;
       destruct (buf s2) as [r lb lr fl]; cbn [rest buf] in *; destruct r; [|discriminate]; injection RR as _ <-; cbn in *; lia.
Qed.

Fixpoint count_tok (l : list nres) : nat :=
  match l with [] => 0 | NT _ _ :: r => S (count_tok r) | _ :: r => count_tok r end.
Definition is_nf (r : nres) : Prop := match r with NF _ => True | _ => False end.

(* at most one token per input byte, whatever the number of calls *)
Theorem tokens_le_bytes : forall n s, count_tok (next_results n s) <= len s.
Proof.
  induction n as [|n IH]; intros s; [cbn; lia|]. cbn [next_results].
  pose proof (next_progress s) as P. destruct (next s) as [[t|] s1|]; [| |cbn; lia]; destruct P as [P1 P2].
  - cbn [count_tok]. specialize (IH s1). destruct (len s) eqn:Z; [destruct (P2 eq_refl) as [Q _]; discriminate|]. specialize (P1 ltac:(lia)). lia.
  - cbn [count_tok]. specialize (IH s1). destruct (len s) eqn:Z; [destruct (P2 eq_refl) as [_ Q]; lia|]. specialize (P1 ltac:(lia)). lia.
Qed.

(* once as many calls have been made as there were bytes, every further answer is `false` *)
Theorem results_after_input : forall n s k, len s <= k -> Forall is_nf (skipn k (next_results n s)).
Proof.
  induction n as [|n IH]; intros s k Hk; [rewrite skipn_nil; constructor|]. cbn [next_results].
  pose proof (next_progress s) as P. pose proof (next_never_panics s) as NP0.
  destruct (next s) as [[t|] s1|]; [| |contradiction]; destruct P as [P1 P2].
  - destruct (len s) eqn:Z; [destruct (P2 eq_refl) as [Q _]; discriminate|]. specialize (P1 ltac:(lia)).
    destruct k as [|k]; [lia|]. cbn [skipn]. apply IH. lia.
  - destruct k as [|k].
    + assert (Z : len s = 0) by lia. destruct (P2 Z) as [_ Q]. cbn [skipn]. constructor; [exact I|]. apply (IH s1 0). lia.
    + cbn [skipn]. apply IH. destruct (len s) eqn:Z; [destruct (P2 eq_refl) as [_ Q]; lia|]. specialize (P1 ltac:(lia)). lia.
Qed.

Lemma next_results_length : forall n s, length (next_results n s) = n.
Proof.
  induction n as [|n IH]; intros s; [reflexivity|]. cbn [next_results]. pose proof (next_never_panics s) as NP0.
  destruct (next s) as [[t|] s1|]; [| |contradiction]; cbn [length]; rewrite IH; reflexivity.
Qed.
Print Assumptions tokens_le_bytes.
Print Assumptions results_after_input.
