(* Instances of the framework of GenInv.v: struct and message definitions (from ParseInv / FmtInv / MsgInv), enum definitions. *)
From Coq Require Import List NArith ZArith Bool Arith Lia.
Require Import Bebop.front.Tok Bebop.front.Parse Bebop.front.Fmt Bebop.front.TokInv Bebop.front.LexInv Bebop.front.ParseInv Bebop.front.FmtInv Bebop.front.MsgInv.
Require Import Bebop.front.GenInv.
Import ListNotations.

(* ---------- structs ---------- *)
Definition s_item (nm : ident) (fl : list (ident * ident)) : item :=
  let bfl := map (fun f => (ibytes (fst f), ibytes (snd f))) fl in
  {| it_toks := struct_toks (ibytes nm) bfl; it_need := 2 * length bfl + 3; it_fneed := 2 * length bfl + 4;
     it_upd := fun f => add_struct f (struct_of (ibytes nm) bfl); it_text := struct_text (ibytes nm) bfl; it_blank := true |}.
Definition s_x (nm : ident) (fl : list (ident * ident)) : xitem :=
  {| x_lex := [kwS; Wi nm; T1 123%N kOpenCu; NLx] ++ flat_map field_lex fl ++ [T1 125%N kCloseCu; NLx];
     x_lay := [([], kwS); (sp, Wi nm); (sp, T1 123%N kOpenCu); ([], NLx)] ++ flat_map field_layout fl ++ [([], T1 125%N kCloseCu); ([], NLx)] |}.

Lemma defs_lex_S0 nm fl : defs_lex [DS nm fl 0] = x_lex (s_x nm fl).
Proof. cbn [defs_lex flat_map defn_lex repeat s_x x_lex]. rewrite !app_nil_r. reflexivity. Qed.

Lemma s_item_ok nm fl : ident_ok nm -> Forall (fun f => ident_ok (fst f) /\ ident_ok (snd f)) fl -> item_ok (s_item nm fl) (s_x nm fl).
Proof.
  intros Hn Hf. pose (d := DS nm fl 0). assert (Hd : Forall defn_ok [d]) by (constructor; [split; assumption|constructor]).
  constructor.
  - intros g f tail c. cbn [s_item it_need it_toks it_upd]. eexists. split; [|
      replace (2 * length (map (fun f0 : ident * ident => (ibytes (fst f0), ibytes (snd f0))) fl) + 3 + g)
        with (S (2 * length (map (fun f0 : ident * ident => (ibytes (fst f0), ibytes (snd f0))) fl) + S (S g))) by lia; apply top_struct]. lia.
  - intros g out nl tail c. cbn [s_item it_fneed it_toks it_text it_blank]. rewrite andb_true_r. eexists. split; [|
      replace (2 * length (map (fun f0 : ident * ident => (ibytes (fst f0), ibytes (snd f0))) fl) + 4 + g)
        with (S (S (2 * length (map (fun f0 : ident * ident => (ibytes (fst f0), ibytes (snd f0))) fl) + S (S g)))) by lia; apply fmt_top_struct]. lia.
  - pose proof (defs_toks [d] Hd) as H. unfold d in H. rewrite defs_lex_S0 in H. cbn [map dall flat_map bdn bd_toks repeat] in H. rewrite ?app_nil_r in H. exact H.
  - pose proof (defs_lex_ok [d] Hd) as H. unfold d in H. rewrite defs_lex_S0 in H. exact H.
  - cbn [s_item it_need it_fneed it_toks]. unfold struct_toks. rewrite !app_length, fields_toks_len. cbn [length]. lia.
  - pose proof (dlayout_lex [d]) as H. unfold d in H; cbn [dlayout flat_map defn_layout repeat defs_lex defn_lex] in H. rewrite ?app_nil_r in H. exact H.
  - pose proof (dlayout_hws [d]) as H. unfold d in H; cbn [dlayout flat_map defn_layout repeat] in H. rewrite ?app_nil_r in H. exact H.
  - intros rest Hr. cbn [s_x x_lay]. rewrite <- !app_assoc. cbn [app sep_ok needs_end Wi kwS].
    split; [left; discriminate|]. split; [left; discriminate|]. split; [exact I|]. split; [exact I|].
    apply sep_ok_fields. cbn [app sep_ok needs_end]. split; [exact I|]. split; [exact I|exact Hr].
  - intros t. pose proof (render_defn d t) as H. unfold d in H; cbn [defn_layout repeat bdn bd_text bd_k app] in H. rewrite ?app_nil_r in H. exact H.
Qed.

(* ---------- messages ---------- *)
Definition m_item (nm : ident) (fl : list mfdef) : item :=
  let bfl := map bmf fl in
  {| it_toks := message_toks (ibytes nm) bfl; it_need := 2 * length bfl + 3; it_fneed := 2 * length bfl + 4;
     it_upd := fun f => add_message f (message_of (ibytes nm) bfl); it_text := message_text (ibytes nm) bfl; it_blank := true |}.
Definition m_x (nm : ident) (fl : list mfdef) : xitem :=
  {| x_lex := [kwM; Wi nm; T1 123%N kOpenCu; NLx] ++ flat_map mfield_lex fl ++ [T1 125%N kCloseCu; NLx];
     x_lay := [([], kwM); (sp, Wi nm); (sp, T1 123%N kOpenCu); ([], NLx)] ++ flat_map mfield_layout fl ++ [([], T1 125%N kCloseCu); ([], NLx)] |}.

Lemma defs_lex_M0 nm fl : defs_lex [DM nm fl 0] = x_lex (m_x nm fl).
Proof. cbn [defs_lex flat_map defn_lex repeat m_x x_lex]. rewrite !app_nil_r. reflexivity. Qed.

Lemma m_item_ok nm fl : ident_ok nm ->
  Forall (fun f => idx_ok (fst f) /\ ident_ok (fst (snd f)) /\ ident_ok (snd (snd f))) fl -> mfs_ok [] (map bmf fl) ->
  item_ok (m_item nm fl) (m_x nm fl).
Proof.
  intros Hn Hf Hm. pose (d := DM nm fl 0). assert (Hd : Forall defn_ok [d]) by (constructor; [exact (conj Hn (conj Hf Hm))|constructor]).
  constructor.
  - intros g f tail c. cbn [m_item it_need it_toks it_upd]. eexists. split; [|
      replace (2 * length (map bmf fl) + 3 + g) with (S (2 * length (map bmf fl) + S (S g))) by lia; apply (top_message _ _ _ _ _ _ Hm)]. lia.
  - intros g out nl tail c. cbn [m_item it_fneed it_toks it_text it_blank]. rewrite andb_true_r. eexists. split; [|
      replace (2 * length (map bmf fl) + 4 + g) with (S (S (2 * length (map bmf fl) + S (S g)))) by lia; apply fmt_top_message]. lia.
  - pose proof (defs_toks [d] Hd) as H. unfold d in H. rewrite defs_lex_M0 in H. cbn [map dall flat_map bdn bd_toks repeat] in H. rewrite ?app_nil_r in H. exact H.
  - pose proof (defs_lex_ok [d] Hd) as H. unfold d in H. rewrite defs_lex_M0 in H. exact H.
  - cbn [m_item it_need it_fneed it_toks]. unfold message_toks. rewrite !app_length, mfields_toks_len. cbn [length]. lia.
  - pose proof (dlayout_lex [d]) as H. unfold d in H; cbn [dlayout flat_map defn_layout repeat defs_lex defn_lex] in H. rewrite ?app_nil_r in H. exact H.
  - pose proof (dlayout_hws [d]) as H. unfold d in H; cbn [dlayout flat_map defn_layout repeat] in H. rewrite ?app_nil_r in H. exact H.
  - intros rest Hr. cbn [m_x x_lay]. rewrite <- !app_assoc. cbn [app sep_ok needs_end Wi kwM].
    split; [left; discriminate|]. split; [left; discriminate|]. split; [exact I|]. split; [exact I|].
    apply sep_ok_mfields. cbn [app sep_ok needs_end]. split; [exact I|]. split; [exact I|exact Hr].
  - intros t. pose proof (render_defn d t) as H. unfold d in H; cbn [defn_layout repeat bdn bd_text bd_k app] in H. rewrite ?app_nil_r in H. exact H.
Qed.

(* ---------- enums (untyped: uint32; plain decimal values, as parse_uint reads them) ---------- *)
Definition enumT : token := {| kind := 8%N; concrete := [101; 110; 117; 109]%N |}.
Definition eqT : token := {| kind := kEquals; concrete := [61%N] |}.
Definition emember := (bytes * (bytes * N))%type.                (* name, value digits, the value they denote *)
Definition em_toks (m : emember) : list token := [idT (fst m); eqT; numT (fst (snd m)); semiT; nlT].
Definition ems_toks (ml : list emember) : list token := flat_map em_toks ml.
Definition em_opt (m : emember) : enumopt :=
  {| o_name := fst m; o_comment := []; o_depmsg := []; o_value := 0%Z; o_uvalue := snd (snd m); o_dep := false |}.
Definition ems_ok (ml : list emember) : Prop := Forall (fun m => parse_uint true 32 (fst (snd m)) = Some (snd (snd m))) ml.

Arguments parse_uint : simpl never.

Lemma enum_loop_member m g opts tail :
  parse_uint true 32 (fst (snd m)) = Some (snd (snd m)) ->
  read_enum_loop (S (S g)) false true 32%N opts [] [] false (mk (res (em_toks m) tail) nlT false)
  = read_enum_loop g false true 32%N (opts ++ [em_opt m]) [] [] false (mk tail nlT false).
Proof.
  destruct m as [nm [ds v]]. unfold em_toks, em_opt, res, mk. cbn [map app fst snd]. intros Hp.
  cbn. unfold read_enum_value. cbn. unfold bind at 1. unfold bind at 1. unfold bind at 1. cbn. rewrite Hp. reflexivity.
Qed.

Lemma enum_loop_members : forall ml g opts tail, ems_ok ml ->
  read_enum_loop (2 * length ml + g) false true 32%N opts [] [] false (mk (res (ems_toks ml) tail) nlT false)
  = read_enum_loop g false true 32%N (opts ++ map em_opt ml) [] [] false (mk tail nlT false).
Proof.
  induction ml as [|m ml IH]; intros g opts tail Hok.
  - cbn [length Nat.mul plus ems_toks flat_map map res app]. now rewrite app_nil_r.
  - inversion Hok as [|? ? Hm Hr]; subst. cbn [ems_toks flat_map]. fold (ems_toks ml). rewrite res_app.
    replace (2 * length (m :: ml) + g) with (S (S (2 * length ml + g))) by (cbn [length]; lia).
    rewrite (enum_loop_member m _ opts _ Hm).
    rewrite (IH _ _ _ Hr). cbn [map]. rewrite <- app_assoc. reflexivity.
Qed.

Lemma enum_loop_close g opts tail :
  read_enum_loop (S (S g)) false true 32%N opts [] [] false (mk (res [closeT] tail) nlT false) = POk opts (mk tail closeT false).
Proof. reflexivity. Qed.

Definition enum_toks (nm : bytes) (ml : list emember) : list token := [enumT; idT nm; openT; nlT] ++ ems_toks ml ++ [closeT; nlT].
Definition enum_of (nm : bytes) (ml : list emember) : enum_ :=
  {| e_name := nm; e_comment := []; e_opts := map em_opt ml; e_simple := s_uint32; e_unsigned := true |}.

Lemma read_enum_head g nm tail c :
  read_enum g false (mk (res [idT nm; openT; nlT] tail) c false)
  = bind (read_enum_loop g false true 32%N [] [] [] false)
         (fun opts => ret {| e_name := nm; e_comment := []; e_opts := opts; e_simple := s_uint32; e_unsigned := true |}) (mk tail nlT false).
Proof. reflexivity. Qed.

Lemma read_enum_ok nm ml g tail c : ems_ok ml ->
  read_enum (2 * length ml + S (S g)) false (mk (res ([idT nm; openT; nlT] ++ ems_toks ml ++ [closeT]) tail) c false)
  = POk (enum_of nm ml) (mk tail closeT false).
Proof.
  intros Hok. rewrite res_app, read_enum_head. unfold bind. rewrite res_app.
  rewrite (enum_loop_members ml (S (S g)) [] _ Hok), enum_loop_close. reflexivity.
Qed.

Definition add_enum (f : file) (e : enum_) : file :=
  {| structs := structs f; messages := messages f; enums := enums f ++ [e]; unions := unions f; consts := consts f;
     imports := imports f; gopackage := gopackage f |}.

Lemma top_enum_head F f tail c :
  top_loop (S F) f [] 0%N false false (mk (res [enumT] tail) c false)
  = bind (read_enum F false)
         (fun en => top_loop F (add_enum f {| e_name := e_name en; e_comment := []; e_opts := e_opts en; e_simple := e_simple en; e_unsigned := e_unsigned en |})
                             [] 0%N false false) (mk tail enumT false).
Proof.
  cbn [top_loop]. unfold res, mk. cbn [map app].
  unfold bind at 1. unfold p_next at 1. cbn [keep rs cur perrs negb].
  unfold bind at 1. unfold p_tok at 1. cbn [cur kind enumT].
  cbn [N.eqb Pos.eqb kNewline kBlockC kLineC kOpenSq andb orb negb]. reflexivity.
Qed.

Lemma top_enum nm ml g f tail c : ems_ok ml ->
  top_loop (S (2 * length ml + S (S g))) f [] 0%N false false (mk (res (enum_toks nm ml) tail) c false)
  = top_loop (2 * length ml + S g) (add_enum f (enum_of nm ml)) [] 0%N false false (mk tail nlT false).
Proof.
  intros Hok. unfold enum_toks.
  change ([enumT; idT nm; openT; nlT] ++ ems_toks ml ++ [closeT; nlT])
    with ([enumT] ++ ([idT nm; openT; nlT] ++ ems_toks ml ++ [closeT] ++ [nlT])).
  rewrite res_app, top_enum_head. unfold bind.
  replace ([idT nm; openT; nlT] ++ ems_toks ml ++ [closeT] ++ [nlT])
    with (([idT nm; openT; nlT] ++ ems_toks ml ++ [closeT]) ++ [nlT]) by (rewrite <- !app_assoc; reflexivity).
  rewrite res_app, (read_enum_ok nm ml g _ _ Hok). cbn [e_name e_opts e_simple e_unsigned enum_of].
  replace (2 * length ml + S (S g)) with (S (2 * length ml + S g)) by lia.
  rewrite top_newline. reflexivity.
Qed.

(* the formatter on an enum *)
Definition em_text (m : emember) : bytes := tab ++ fst m ++ sp ++ [61%N] ++ sp ++ fst (snd m) ++ [59%N; 10%N].
Definition ems_text (ml : list emember) : bytes := flat_map em_text ml.

Lemma fmt_emember m g acc tail :
  format_enum_loop (S (S (S (S g)))) acc (mk (res (em_toks m) tail) nlT false)
  = format_enum_loop (S (S g)) (acc ++ (((tab ++ fst m) ++ sp ++ [61%N]) ++ sp ++ fst (snd m)) ++ [59%N; 10%N]) (mk tail nlT false).
Proof.
  destruct m as [nm [ds v]]. unfold em_toks, res, mk. cbn [map app fst snd]. reflexivity.
Qed.
Lemma fmt_emembers : forall ml g acc tail,
  format_enum_loop (2 * length ml + S (S g)) acc (mk (res (ems_toks ml) tail) nlT false)
  = format_enum_loop (S (S g)) (acc ++ ems_text ml) (mk tail nlT false).
Proof.
  induction ml as [|m ml IH]; intros g acc tail.
  - cbn [length Nat.mul plus ems_toks ems_text flat_map map res app]. now rewrite app_nil_r.
  - cbn [ems_toks ems_text flat_map]. fold (ems_toks ml). fold (ems_text ml). rewrite res_app.
    replace (2 * length (m :: ml) + S (S g)) with (S (S (S (S (2 * length ml + g))))) by (cbn [length]; lia).
    rewrite fmt_emember.
    replace (S (S (2 * length ml + g))) with (2 * length ml + S (S g)) by lia.
    rewrite IH. unfold em_text. rewrite <- !app_assoc. reflexivity.
Qed.
Lemma fmt_eclose g acc tail :
  format_enum_loop (S (S g)) acc (mk (res [closeT] tail) nlT false) = POk (acc ++ [125%N] ++ nlb) (mk tail closeT false).
Proof. reflexivity. Qed.

Definition enum_text (nm : bytes) (ml : list emember) : bytes :=
  [101; 110; 117; 109]%N ++ sp ++ nm ++ sp ++ [123%N] ++ nlb ++ ems_text ml ++ [125%N] ++ nlb.

Lemma fmt_enum_head g nm tail :
  format_enum (S g) (mk (res [idT nm; openT; nlT] tail) enumT false)
  = format_enum_loop (S g) ((([101; 110; 117; 109]%N ++ sp ++ nm) ++ sp ++ [123%N]) ++ nlb) (mk (res [nlT] tail) openT false).
Proof. reflexivity. Qed.

Lemma fmt_enum_nl g acc tail c :
  format_enum_loop (S g) acc (mk (res [nlT] tail) c false) = format_enum_loop g acc (mk tail nlT false).
Proof. reflexivity. Qed.

Lemma fmt_enum_ok nm ml g tail :
  format_enum (S (2 * length ml + S (S g))) (mk (res ([idT nm; openT; nlT] ++ ems_toks ml ++ [closeT]) tail) enumT false)
  = POk (enum_text nm ml) (mk tail closeT false).
Proof.
  rewrite res_app, fmt_enum_head, fmt_enum_nl, res_app, fmt_emembers, fmt_eclose. unfold enum_text. rewrite <- !app_assoc. reflexivity.
Qed.

Lemma fmt_top_enum_head F out nl tail c :
  format_loop (S F) out false nl (mk (res [enumT] tail) c false)
  = bind (format_enum F) (fun s => format_loop F ((if nl then out ++ nlb else out) ++ s) false true) (mk tail enumT false).
Proof.
  cbn [format_loop]. unfold res, mk. cbn [map app].
  unfold bind at 1. unfold p_next at 1. cbn [keep rs cur perrs negb].
  unfold bind at 1. unfold p_tok at 1. cbn [cur kind enumT].
  cbn [N.eqb Pos.eqb kOpenSq kLineC kBlockC andb orb negb]. reflexivity.
Qed.

Lemma fmt_top_enum nm ml g out nl tail c :
  format_loop (S (S (2 * length ml + S (S g)))) out false nl (mk (res (enum_toks nm ml) tail) c false)
  = format_loop (2 * length ml + S (S g)) ((if nl then out ++ nlb else out) ++ enum_text nm ml) false true (mk tail nlT false).
Proof.
  unfold enum_toks.
  change ([enumT; idT nm; openT; nlT] ++ ems_toks ml ++ [closeT; nlT])
    with ([enumT] ++ ([idT nm; openT; nlT] ++ ems_toks ml ++ [closeT] ++ [nlT])).
  rewrite res_app, fmt_top_enum_head. unfold bind.
  replace ([idT nm; openT; nlT] ++ ems_toks ml ++ [closeT] ++ [nlT])
    with (([idT nm; openT; nlT] ++ ems_toks ml ++ [closeT]) ++ [nlT]) by (rewrite <- !app_assoc; reflexivity).
  rewrite res_app, fmt_enum_ok, fmt_top_newline. reflexivity.
Qed.

(* the enum instance *)
Definition edef := (ident * (idx))%type.                           (* member name, value literal *)
Definition bem (m : edef) : emember := (ibytes (fst m), (xbytes (snd m), xv (snd m))).
Definition kwE : lexeme := W 101%N [110; 117; 109]%N.
Definition em_lex (m : edef) : list lexeme := [Wi (fst m); T1 61%N kEquals; Num (xc (snd m)) (xds (snd m)); T1 59%N kSemi; NLx].
Definition em_layout (m : edef) : list (bytes * lexeme) :=
  [(tab, Wi (fst m)); (sp, T1 61%N kEquals); (sp, Num (xc (snd m)) (xds (snd m))); ([], T1 59%N kSemi); ([], NLx)].
Definition e_item (nm : ident) (ml : list edef) : item :=
  let bml := map bem ml in
  {| it_toks := enum_toks (ibytes nm) bml; it_need := 2 * length bml + 3; it_fneed := 2 * length bml + 4;
     it_upd := fun f => add_enum f (enum_of (ibytes nm) bml); it_text := enum_text (ibytes nm) bml; it_blank := true |}.
Definition e_x (nm : ident) (ml : list edef) : xitem :=
  {| x_lex := [kwE; Wi nm; T1 123%N kOpenCu; NLx] ++ flat_map em_lex ml ++ [T1 125%N kCloseCu; NLx];
     x_lay := [([], kwE); (sp, Wi nm); (sp, T1 123%N kOpenCu); ([], NLx)] ++ flat_map em_layout ml ++ [([], T1 125%N kCloseCu); ([], NLx)] |}.

Lemma ems_toks_len ml : length (ems_toks ml) = 5 * length ml.
Proof. induction ml as [|m ml IH]; [reflexivity|]. cbn [ems_toks flat_map]. fold (ems_toks ml). rewrite app_length, IH. cbn [em_toks length]. lia. Qed.

Lemma e_item_ok nm ml : ident_ok nm -> Forall (fun m => ident_ok (fst m) /\ idx_ok (snd m)) ml -> ems_ok (map bem ml) ->
  item_ok (e_item nm ml) (e_x nm ml).
Proof.
  intros Hn Hm He. constructor.
  - intros g f tail c. cbn [e_item it_need it_toks it_upd]. eexists. split; [|
      replace (2 * length (map bem ml) + 3 + g) with (S (2 * length (map bem ml) + S (S g))) by lia; apply (top_enum _ _ _ _ _ _ He)]. lia.
  - intros g out nl tail c. cbn [e_item it_fneed it_toks it_text it_blank]. rewrite andb_true_r. eexists. split; [|
      replace (2 * length (map bem ml) + 4 + g) with (S (S (2 * length (map bem ml) + S (S g)))) by lia; apply fmt_top_enum]. lia.
  - cbn [e_x x_lex e_item it_toks]. unfold enum_toks. cbn [map app]. rewrite (tok_of_Wi nm Hn).
    change (tok_of kwE) with enumT. change (tok_of (T1 123%N kOpenCu)) with openT. change (tok_of NLx) with nlT.
    do 4 f_equal. rewrite map_app. f_equal.
    induction Hm as [|[n x] ml [Hi Hx] _ IH]; [reflexivity|].
    cbn [flat_map map ems_toks]. fold (ems_toks (map bem ml)). rewrite map_app. inversion He; subst. rewrite IH by assumption. f_equal.
    cbn [em_lex em_toks bem fst snd map]. rewrite (tok_of_Wi n Hi). reflexivity.
  - cbn [e_x x_lex app]. constructor; [cbn [lex_ok kwE]; split; [reflexivity|repeat constructor]|]. constructor; [now apply lex_ok_Wi|].
    constructor; [reflexivity|]. constructor; [reflexivity|]. apply Forall_app. split; [|repeat constructor].
    clear He. induction Hm as [|[n x] ml [Hi Hx] _ IH]; [constructor|]. cbn [flat_map]. apply Forall_app. split; [|exact IH].
    cbn [em_lex fst snd]. constructor; [now apply lex_ok_Wi|]. constructor; [reflexivity|]. constructor; [exact Hx|]. repeat constructor.
  - cbn [e_item it_need it_fneed it_toks]. unfold enum_toks. rewrite !app_length, ems_toks_len. cbn [length]. lia.
  - cbn [e_x x_lay x_lex map app]. do 4 f_equal. rewrite map_app. f_equal.
    clear. induction ml as [|m ml IH]; [reflexivity|]. cbn [flat_map]. rewrite map_app, IH. reflexivity.
  - assert (Hsp : hws sp) by (repeat constructor). assert (Htab : hws tab) by (repeat constructor). assert (Hnil : hws []) by constructor.
    cbn [e_x x_lay app]. repeat (constructor; [assumption|]). apply Forall_app. split; [|repeat (constructor; [assumption|]); constructor].
    clear -Hsp Htab Hnil. induction ml as [|m ml IH]; [constructor|]. cbn [flat_map]. apply Forall_app. split; [|exact IH]. repeat (constructor; [assumption|]). constructor.
  - intros rest Hr. cbn [e_x x_lay]. rewrite <- !app_assoc. cbn [app sep_ok needs_end Wi kwE].
    split; [left; discriminate|]. split; [left; discriminate|]. split; [exact I|]. split; [exact I|].
    assert (G : forall r, sep_ok r -> sep_ok (flat_map em_layout ml ++ r)).
    { intros r Hr0. clear -Hr0. induction ml as [|m ml IH]; [exact Hr0|]. cbn [flat_map em_layout app sep_ok needs_end Wi].
      repeat split; auto; try (left; discriminate); try (right; eauto). }
    apply G. cbn [app sep_ok needs_end]. split; [exact I|]. split; [exact I|exact Hr].
  - intros t. cbn [e_x x_lay e_item it_text]. rewrite !render_app.
    assert (G : forall t0, render (flat_map em_layout ml) t0 = ems_text (map bem ml) ++ t0).
    { clear. induction ml as [|m ml IH]; intros t0; [reflexivity|]. cbn [flat_map map ems_text]. rewrite render_app, IH.
      cbn [em_layout render text_of Wi app fst snd]. unfold em_text, bem, xbytes, ibytes. cbn [fst snd]. rewrite <- !app_assoc. reflexivity. }
    rewrite G. cbn [render text_of Wi app NLx kwE]. unfold enum_text, ibytes, sp, nlb. rewrite <- !app_assoc. reflexivity.
Qed.

(* ---------- readonly structs: the marker belongs to the struct it precedes, and to no other ---------- *)
Definition readonlyT : token := {| kind := 5%N; concrete := [114; 101; 97; 100; 111; 110; 108; 121]%N |}.
Definition struct_of_ro (nm : bytes) (fl : list (bytes * bytes)) : struct_ :=
  {| s_name := nm; s_comment := []; s_fields := map field_of fl; s_opcode := 0; s_readonly := true |}.

Lemma top_ro_head F f tail c :
  top_loop (S F) f [] 0%N false false (mk (res [readonlyT; structT] tail) c false)
  = bind (read_struct F)
         (fun st => top_loop F (add_struct f {| s_name := s_name st; s_comment := []; s_fields := s_fields st; s_opcode := 0; s_readonly := true |})
                             [] 0%N false false) (mk tail structT false).
Proof.
  cbn [top_loop]. unfold res, mk. cbn [map app].
  unfold bind at 1. unfold p_next at 1. cbn [keep rs cur perrs negb].
  unfold bind at 1. unfold p_tok at 1. cbn [cur kind readonlyT].
  cbn [N.eqb Pos.eqb kNewline kBlockC kLineC kOpenSq andb orb negb].
  unfold bind at 1. unfold p_next at 1. cbn [keep rs cur perrs negb].
  unfold bind at 1. unfold p_kind at 1. cbn [cur kind structT N.eqb Pos.eqb]. reflexivity.
Qed.

Lemma top_struct_ro nm fl g f tail c :
  top_loop (S (2 * length fl + S (S g))) f [] 0%N false false (mk (res (readonlyT :: struct_toks nm fl) tail) c false)
  = top_loop (2 * length fl + S g) (add_struct f (struct_of_ro nm fl)) [] 0%N false false (mk tail nlT false).
Proof.
  unfold struct_toks.
  change (readonlyT :: [structT; idT nm; openT; nlT] ++ fields_toks fl ++ [closeT; nlT])
    with ([readonlyT; structT] ++ ([idT nm; openT; nlT] ++ fields_toks fl ++ [closeT] ++ [nlT])).
  rewrite res_app, top_ro_head. unfold bind.
  replace ([idT nm; openT; nlT] ++ fields_toks fl ++ [closeT] ++ [nlT])
    with (([idT nm; openT; nlT] ++ fields_toks fl ++ [closeT]) ++ [nlT]) by (rewrite <- !app_assoc; reflexivity).
  rewrite res_app, read_struct_ok. cbn [s_name s_fields struct_of].
  replace (2 * length fl + S (S g)) with (S (2 * length fl + S g)) by lia.
  rewrite top_newline. reflexivity.
Qed.

Definition ro_text (nm : bytes) (fl : list (bytes * bytes)) : bytes := [114; 101; 97; 100; 111; 110; 108; 121; 32]%N ++ struct_text nm fl.

Lemma fmt_struct_head_ro g nm tail :
  format_struct (S g) true tab (mk (res [idT nm; openT; nlT] tail) structT false)
  = format_struct_loop g tab (((([114; 101; 97; 100; 111; 110; 108; 121; 32]%N ++ [115; 116; 114; 117; 99; 116]%N) ++ sp ++ nm) ++ sp ++ [123%N]) ++ nlb) (mk tail nlT false).
Proof. vm_compute. reflexivity. Qed.

Lemma fmt_struct_ok_ro nm fl g tail :
  format_struct (S (2 * length fl + S (S g))) true tab (mk (res ([idT nm; openT; nlT] ++ fields_toks fl ++ [closeT]) tail) structT false)
  = POk (ro_text nm fl) (mk tail closeT false).
Proof.
  rewrite res_app, fmt_struct_head_ro, res_app, fmt_fields, fmt_close. unfold ro_text, struct_text. rewrite <- !app_assoc. reflexivity.
Qed.

Lemma fmt_top_ro_head F out nl tail c :
  format_loop (S (S F)) out false nl (mk (res [readonlyT; structT] tail) c false)
  = bind (format_struct F true tab) (fun s => format_loop F ((if nl then out ++ nlb else out) ++ s) false true) (mk tail structT false).
Proof.
  cbn [format_loop]. unfold res, mk. cbn [map app].
  unfold bind at 1. unfold p_next at 1. cbn [keep rs cur perrs negb].
  unfold bind at 1. unfold p_tok at 1. cbn [cur kind readonlyT].
  cbn [N.eqb Pos.eqb kOpenSq kLineC kBlockC andb orb negb].
  unfold bind at 1. unfold p_next at 1. cbn [keep rs cur perrs negb].
  unfold bind at 1. unfold p_tok at 1. cbn [cur kind structT].
  cbn [N.eqb Pos.eqb kOpenSq kLineC kBlockC andb orb negb]. reflexivity.
Qed.

Lemma fmt_top_struct_ro nm fl g out nl tail c :
  format_loop (S (S (S (2 * length fl + S (S g))))) out false nl (mk (res (readonlyT :: struct_toks nm fl) tail) c false)
  = format_loop (2 * length fl + S (S g)) ((if nl then out ++ nlb else out) ++ ro_text nm fl) false true (mk tail nlT false).
Proof.
  unfold struct_toks.
  change (readonlyT :: [structT; idT nm; openT; nlT] ++ fields_toks fl ++ [closeT; nlT])
    with ([readonlyT; structT] ++ ([idT nm; openT; nlT] ++ fields_toks fl ++ [closeT] ++ [nlT])).
  rewrite res_app, fmt_top_ro_head. unfold bind.
  replace ([idT nm; openT; nlT] ++ fields_toks fl ++ [closeT] ++ [nlT])
    with (([idT nm; openT; nlT] ++ fields_toks fl ++ [closeT]) ++ [nlT]) by (rewrite <- !app_assoc; reflexivity).
  rewrite res_app, fmt_struct_ok_ro, fmt_top_newline. reflexivity.
Qed.

Definition kwRO : lexeme := W 114%N [101; 97; 100; 111; 110; 108; 121]%N.
Definition r_item (nm : ident) (fl : list (ident * ident)) : item :=
  let bfl := map (fun f => (ibytes (fst f), ibytes (snd f))) fl in
  {| it_toks := readonlyT :: struct_toks (ibytes nm) bfl; it_need := 2 * length bfl + 3; it_fneed := 2 * length bfl + 5;
     it_upd := fun f => add_struct f (struct_of_ro (ibytes nm) bfl); it_text := ro_text (ibytes nm) bfl; it_blank := true |}.
Definition r_x (nm : ident) (fl : list (ident * ident)) : xitem :=
  {| x_lex := kwRO :: x_lex (s_x nm fl); x_lay := ([], kwRO) :: (sp, kwS) :: tl (x_lay (s_x nm fl)) |}.

Lemma r_item_ok nm fl : ident_ok nm -> Forall (fun f => ident_ok (fst f) /\ ident_ok (snd f)) fl -> item_ok (r_item nm fl) (r_x nm fl).
Proof.
  intros Hn Hf. pose proof (s_item_ok nm fl Hn Hf) as Hs. constructor.
  - intros g f tail c. cbn [r_item it_need it_toks it_upd]. eexists. split; [|
      replace (2 * length (map (fun f0 : ident * ident => (ibytes (fst f0), ibytes (snd f0))) fl) + 3 + g)
        with (S (2 * length (map (fun f0 : ident * ident => (ibytes (fst f0), ibytes (snd f0))) fl) + S (S g))) by lia; apply top_struct_ro]. lia.
  - intros g out nl tail c. cbn [r_item it_fneed it_toks it_text it_blank]. rewrite andb_true_r. eexists. split; [|
      replace (2 * length (map (fun f0 : ident * ident => (ibytes (fst f0), ibytes (snd f0))) fl) + 5 + g)
        with (S (S (S (2 * length (map (fun f0 : ident * ident => (ibytes (fst f0), ibytes (snd f0))) fl) + S (S g))))) by lia; apply fmt_top_struct_ro]. lia.
  - cbn [r_x x_lex r_item it_toks map]. rewrite (ok_toks _ _ Hs). reflexivity.
  - cbn [r_x x_lex]. constructor; [cbn [lex_ok kwRO]; split; [reflexivity|repeat constructor]|exact (ok_lex _ _ Hs)].
  - cbn [r_item it_need it_fneed it_toks length]. unfold struct_toks. rewrite !app_length, fields_toks_len. cbn [length]. lia.
  - cbn [r_x x_lay x_lex s_x tl app map]. pose proof (ok_lay _ _ Hs) as H. cbn [s_x x_lay x_lex app map] in H. injection H as H. rewrite H. reflexivity.
  - assert (Hsp : hws sp) by (repeat constructor). assert (Hnil : hws []) by constructor.
    cbn [r_x x_lay s_x tl app]. pose proof (ok_hws _ _ Hs) as H. cbn [s_x x_lay app] in H. inversion H; subst. constructor; [assumption|]. constructor; assumption.
  - intros rest Hr. cbn [r_x x_lay s_x tl app]. pose proof (ok_sep _ _ Hs rest Hr) as H. cbn [s_x x_lay app] in H.
    cbn [sep_ok needs_end kwRO kwS] in H |- *. destruct H as [_ H]. split; [left; discriminate|]. split; [left; discriminate|exact H].
  - intros t. pose proof (ok_render _ _ Hs t) as H. cbn [s_x x_lay app s_item it_text] in H.
    cbn [r_x x_lay s_x tl app r_item it_text]. cbn [render text_of kwS app] in H. cbn [render text_of kwRO kwS app]. rewrite H.
    unfold ro_text, sp. cbn [app]. reflexivity.
Qed.

