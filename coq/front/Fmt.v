(* Scratch prototype: faithful model of format.go over the Next() result list. *)
From Coq Require Import List NArith Bool Arith.
Require Import Bebop.front.Tok Bebop.front.Parse.
Import ListNotations.

Definition tab : bytes := [9%N]. Definition sp : bytes := [32%N]. Definition nlb : bytes := [10%N].
Definition conc : M bytes := fun s => POk (concrete (cur s)) s.

(* n times: sep ++ Next ++ concrete *)
Fixpoint next_cat (n : nat) (sep : bytes) (acc : bytes) : M bytes :=
  match n with
  | O => ret acc
  | S n' => p_next ;;; c <- conc ;; next_cat n' sep (acc ++ sep ++ c)
  end.

(* ...[]* *)
Fixpoint suffix_loop (g : nat) (body : bytes) : M bytes :=
  match g with
  | O => nofuel
  | S g' =>
    b <- p_next ;; k <- p_kind ;;
    if b && N.eqb k kOpenSq then p_next ;;; suffix_loop g' (body ++ [91%N; 93%N]) else p_unnext ;;; ret body
  end.

Fixpoint format_type (g : nat) : M bytes :=
  match g with
  | O => nofuel
  | S g' =>
    t <- p_tok ;;
    body <- (if N.eqb (kind t) kIdent then ret (concrete t)
             else if N.eqb (kind t) 11%N then
               b1 <- next_cat 3 [] (concrete t) ;;
               p_next ;;; v <- format_type g' ;;
               p_next ;;; c <- conc ;; ret (b1 ++ sp ++ v ++ c)
             else if N.eqb (kind t) 12%N then
               p_next ;;; c1 <- conc ;;
               p_next ;;; v <- format_type g' ;;
               p_next ;;; c2 <- conc ;; ret (concrete t ++ c1 ++ v ++ c2)
             else ret []) ;;
    suffix_loop g' body
  end.

Definition deprecated_line (prefix : bytes) (t : token) : M bytes :=
  b <- next_cat 5 [] (prefix ++ concrete t) ;; ret (b ++ nlb).

(* <ID> = <tokens up to the semicolon>; one space between tokens, none after '(' or before ')' *)
Fixpoint member_loop (g : nat) (acc : bytes) (after_open : bool) : M bytes :=
  match g with
  | O => nofuel
  | S g' =>
    b <- p_next ;; if negb b then ret acc else
    k <- p_kind ;; if N.eqb k kSemi then ret acc else
    c <- conc ;;
    member_loop g' (acc ++ (if negb after_open && negb (N.eqb k kClosePar) then sp else []) ++ c) (N.eqb k kOpenPar)
  end.

Fixpoint format_enum_loop (g : nat) (acc : bytes) : M bytes :=
  match g with
  | O => nofuel
  | S g' =>
    b <- p_next ;; if negb b then ret acc else
    t <- p_tok ;; let k := kind t in
    if N.eqb k kLineC then format_enum_loop g' (acc ++ tab ++ concrete t)
    else if N.eqb k kBlockC then format_enum_loop g' (acc ++ tab ++ concrete t ++ nlb)
    else if N.eqb k kOpenSq then d <- deprecated_line tab t ;; format_enum_loop g' (acc ++ d)
    else if N.eqb k kIdent then
      o <- member_loop g' (tab ++ concrete t) false ;; format_enum_loop g' (acc ++ o ++ [59%N; 10%N])
    else if N.eqb k kCloseCu then ret (acc ++ concrete t ++ nlb)
    else format_enum_loop g' acc
  end.
Definition format_enum (g : nat) : M bytes :=
  c <- conc ;; h <- next_cat 2 sp c ;;
  k <- p_kind ;; h' <- (if N.eqb k kColon then next_cat 2 sp h else ret h) ;;     (* enum <ID> [: <TYPE>] { *)
  format_enum_loop g (h' ++ nlb).

Definition format_const : M bytes :=
  c <- conc ;; h <- next_cat 4 sp c ;; p_next ;;; ret (h ++ [59%N]).

Definition close_line (prefix : bytes) (t : token) : bytes := removelast prefix ++ concrete t ++ nlb.

Fixpoint format_struct_loop (g : nat) (prefix : bytes) (acc : bytes) : M bytes :=
  match g with
  | O => nofuel
  | S g' =>
    b <- p_next ;; if negb b then ret acc else
    t <- p_tok ;; let k := kind t in
    if N.eqb k kLineC then format_struct_loop g' prefix (acc ++ prefix ++ concrete t)
    else if N.eqb k kBlockC then format_struct_loop g' prefix (acc ++ prefix ++ concrete t ++ nlb)
    else if N.eqb k kOpenSq then d <- deprecated_line prefix t ;; format_struct_loop g' prefix (acc ++ d)
    else if kin k [kIdent; 11%N; 12%N] then
      ty <- format_type g' ;;
      p_next ;;; nm <- conc ;;
      p_next ;;;
      p_next ;;; k2 <- p_kind ;;
      let line := acc ++ prefix ++ ty ++ sp ++ nm ++ [59%N] in
      if N.eqb k2 kLineC then c <- conc ;; format_struct_loop g' prefix (line ++ sp ++ c)
      else p_unnext ;;; format_struct_loop g' prefix (line ++ nlb)
    else if N.eqb k kCloseCu then ret (acc ++ close_line prefix t)
    else format_struct_loop g' prefix acc
  end.
Definition format_struct (g : nat) (readonly : bool) (prefix : bytes) : M bytes :=
  c <- conc ;;
  let c' := if readonly then [114;101;97;100;111;110;108;121;32]%N ++ c else c in
  h <- next_cat 2 sp c' ;; format_struct_loop g prefix (h ++ nlb).

Fixpoint format_message_loop (g : nat) (prefix : bytes) (acc : bytes) : M bytes :=
  match g with
  | O => nofuel
  | S g' =>
    b <- p_next ;; if negb b then ret acc else
    t <- p_tok ;; let k := kind t in
    if N.eqb k kLineC then format_message_loop g' prefix (acc ++ prefix ++ concrete t)
    else if N.eqb k kBlockC then format_message_loop g' prefix (acc ++ prefix ++ concrete t ++ nlb)
    else if N.eqb k kOpenSq then d <- deprecated_line prefix t ;; format_message_loop g' prefix (acc ++ d)
    else if N.eqb k kInt then
      p_next ;;; arrow <- conc ;;
      p_next ;;; ty <- format_type g' ;;
      p_next ;;; nm <- conc ;;
      p_next ;;;
      format_message_loop g' prefix (acc ++ prefix ++ concrete t ++ sp ++ arrow ++ sp ++ ty ++ sp ++ nm ++ [59%N; 10%N])
    else if N.eqb k kCloseCu then ret (acc ++ close_line prefix t)
    else format_message_loop g' prefix acc
  end.
Definition format_message (g : nat) (prefix : bytes) : M bytes :=
  c <- conc ;; h <- next_cat 2 sp c ;; format_message_loop g prefix (h ++ nlb).

Fixpoint format_union_loop (g : nat) (prefix : bytes) (acc : bytes) : M bytes :=
  match g with
  | O => nofuel
  | S g' =>
    b <- p_next ;; if negb b then ret acc else
    t <- p_tok ;; let k := kind t in
    if N.eqb k kLineC then format_union_loop g' prefix (acc ++ prefix ++ concrete t)
    else if N.eqb k kBlockC then format_union_loop g' prefix (acc ++ prefix ++ concrete t ++ nlb)
    else if N.eqb k kOpenSq then d <- deprecated_line prefix t ;; format_union_loop g' prefix (acc ++ d)
    else if N.eqb k kInt then
      p_next ;;; arrow <- conc ;;
      p_next ;;; k2 <- p_kind ;;
      let hd := acc ++ prefix ++ concrete t ++ sp ++ arrow ++ sp in
      if N.eqb k2 7%N then m <- format_message g' (prefix ++ tab) ;; format_union_loop g' prefix (hd ++ m)
      else if N.eqb k2 6%N then s <- format_struct g' false (prefix ++ tab) ;; format_union_loop g' prefix (hd ++ s)
      else format_union_loop g' prefix hd
    else if N.eqb k kCloseCu then ret (acc ++ close_line prefix t)
    else format_union_loop g' prefix acc
  end.
Definition format_union (g : nat) (prefix : bytes) : M bytes :=
  c <- conc ;; h <- next_cat 2 sp c ;; format_union_loop g prefix (h ++ nlb).

Fixpoint format_loop (g : nat) (out : bytes) (readonly nlnext : bool) : M bytes :=
  match g with
  | O => nofuel
  | S g' =>
    b <- p_next ;; if negb b then ret out else
    t <- p_tok ;; let k := kind t in
    let pre := if nlnext then out ++ nlb else out in
    if N.eqb k kOpenSq then
      p_next ;;; c1 <- conc ;; k1 <- p_kind ;;                                       (* [opcode(..)] : 5 tokens, [flags] : 2 *)
      o <- next_cat (if N.eqb k1 21%N then 1 else 4) [] (concrete t ++ c1) ;; format_loop g' (pre ++ o ++ nlb) false false
    else if N.eqb k kLineC then format_loop g' (out ++ concrete t) false false
    else if N.eqb k kBlockC then format_loop g' (out ++ concrete t ++ nlb) false false
    else if N.eqb k 5%N then format_loop g' out true nlnext
    else if N.eqb k 20%N then p_next ;;; c <- conc ;; format_loop g' (out ++ concrete t ++ sp ++ c ++ nlb) false true
    else if N.eqb k 8%N then e <- format_enum g' ;; format_loop g' (pre ++ e) false true
    else if N.eqb k 14%N then c <- format_const ;; format_loop g' (pre ++ c) false true
    else if N.eqb k 6%N then s <- format_struct g' readonly tab ;; format_loop g' (pre ++ s) false true
    else if N.eqb k 7%N then m <- format_message g' tab ;; format_loop g' (pre ++ m) false true
    else if N.eqb k 13%N then u <- format_union g' tab ;; format_loop g' (pre ++ u) false true
    else format_loop g' out false nlnext
  end.

Definition format (input : bytes) : pres bytes :=
  let n := length input + margin in
  let results := next_results n {| buf := {| rest := input; lastByte := None; lastRune := None; failing := false |}; errs := [] |} in
  format_loop (2 * n + 8) [] false false {| rs := results; cur := tok0; keep := false; perrs := [] |}.

