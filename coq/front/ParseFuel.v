(* The parser's loops never run out of fuel: for EVERY list of Next() results - whatever the tokenizer delivered, and however
   many end-of-input answers follow - every loop of the parser model stops by itself within 2 * (number of tokens) + 8
   iterations in all.  The potential  pot s = 2 * (tokens not yet delivered) + (1 if a token is being kept for re-delivery)
   strictly decreases on every path that takes a loop around: a `false` from Next() (end of input, a lexical error, a failing
   reader) leaves it unchanged and each loop leaves on it, p_unnext raises it by one only after a delivery lowered it.
   What this does not say: that the results precomputed by read_file (length input + margin of them) are enough - PEnd, asked for
   more - which stays observed-never (lib/front.py reports it as FUEL). *)
From Coq Require Import List NArith ZArith Bool Arith Lia.
Require Import Bebop.front.Tok Bebop.front.Parse.
Import ListNotations.

Fixpoint count_nt (l : list nres) : nat :=
  match l with [] => 0 | NT _ _ :: r => S (count_nt r) | _ :: r => count_nt r end.
Definition pot (s : pst) : nat := 2 * count_nt (rs s) + (if keep s then 1 else 0).

Definition wpf {A} (m : M A) (Q : A -> pst -> Prop) (s : pst) : Prop :=
  match m s with POk a s' => Q a s' | PFuel => False | _ => True end.

Lemma wpf_ret {A} (a : A) (Q : A -> pst -> Prop) s : Q a s -> wpf (ret a) Q s.
Proof. intros H. exact H. Qed.
Lemma wpf_fail {A} (Q : A -> pst -> Prop) s : wpf fail Q s.
Proof. exact I. Qed.
Lemma wpf_panic {A} (Q : A -> pst -> Prop) s : wpf (fun _ : pst => @PPanic A) Q s.
Proof. exact I. Qed.
Lemma wpf_bind {A B} (m : M A) (f : A -> M B) (Q : B -> pst -> Prop) s : wpf m (fun a s' => wpf (f a) Q s') s -> wpf (bind m f) Q s.
Proof. unfold wpf, bind. destruct (m s) as [a s'| | | |]; auto. Qed.
Lemma wpf_next (Q : bool -> pst -> Prop) s :
  (forall s', pot s' + 1 <= pot s -> Q true s') -> (forall s', pot s' <= pot s -> Q false s') -> wpf p_next Q s.
Proof.
  intros Ht Hf. unfold wpf, p_next, pot in *. destruct (keep s) eqn:K.
  - apply Ht. cbn [rs keep]. lia.
  - destruct (rs s) as [|[t e|e|] r] eqn:E; try exact I.
    + apply Ht. cbn [rs keep count_nt]. lia.
    + apply Hf. cbn [rs keep count_nt]. lia.
Qed.
Lemma wpf_unnext (Q : unit -> pst -> Prop) s : (forall s', pot s' <= pot s + 1 -> Q tt s') -> wpf p_unnext Q s.
Proof. intros H. unfold wpf, p_unnext. apply H. unfold pot. cbn [rs keep]. destruct (keep s); lia. Qed.
Lemma wpf_tok (Q : token -> pst -> Prop) s : (forall t, Q t s) -> wpf p_tok Q s.
Proof. intros H. apply H. Qed.
Lemma wpf_kind (Q : N -> pst -> Prop) s : (forall k, Q k s) -> wpf p_kind Q s.
Proof. intros H. apply H. Qed.
Lemma wpf_haserr (Q : bool -> pst -> Prop) s : (forall b, Q b s) -> wpf p_haserr Q s.
Proof. intros H. apply H. Qed.

(* the walk through a monadic body: primitives by their rules, callees by their specifications (list `callee`, extended as
   the file goes), recursive calls by the induction hypothesis IHg *)
Ltac leaf := first [ exact I | match goal with HQ : forall a s', _ -> ?Q a s' |- ?Q _ _ => apply HQ; lia end | lia ].
Ltac callee := fail.
Ltac fstep :=
  cbv beta zeta; cbn [negb];
  lazymatch goal with
  | |- wpf (bind _ _) _ _ => apply wpf_bind
  | |- wpf (ret _) _ _ => apply wpf_ret
  | |- wpf fail _ _ => exact I
  | |- wpf (fun _ => PPanic) _ _ => exact I
  | |- wpf p_next _ _ => apply wpf_next; intros ? ?
  | |- wpf p_unnext _ _ => apply wpf_unnext; intros ? ?
  | |- wpf p_tok _ _ => apply wpf_tok; intros ?
  | |- wpf p_kind _ _ => apply wpf_kind; intros ?
  | |- wpf p_haserr _ _ => apply wpf_haserr; intros ?
  | |- wpf (if ?c then _ else _) _ _ => destruct c
  | |- wpf (let '(_, _) := ?x in _) _ _ => destruct x
  | |- wpf (match ?x with _ => _ end) _ _ => destruct x
  | |- wpf _ _ _ =>
      first [ match goal with IH : forall _, _ |- _ => apply IH; [ lia .. | intros ? ? ? ] end
            | callee; [ lia .. | intros ? ? ?; cbn [length] in * ] ]
  | |- _ => leaf
  end.
Ltac fu := repeat fstep.

Lemma fu_expect_any ks s (Q : unit -> pst -> Prop) : (forall a s', pot s' + 1 <= pot s -> Q a s') -> wpf (expect_any_of_next ks) Q s.
Proof. intros HQ. unfold expect_any_of_next. fu. Qed.
Lemma fu_expect_next ks : forall s (Q : list token -> pst -> Prop), (forall a s', pot s' + length ks <= pot s -> Q a s') -> wpf (expect_next ks) Q s.
Proof.
  induction ks as [|k ks IHg]; intros s Q HQ; cbn [expect_next length] in *; fu.
Qed.
Ltac callee ::= first [ apply fu_expect_any | apply fu_expect_next ].
Lemma fu_opt_newline s (Q : unit -> pst -> Prop) : (forall a s', pot s' <= pot s + 1 -> Q a s') -> wpf opt_newline Q s.
Proof. intros HQ. unfold opt_newline. fu. Qed.
Ltac callee ::= first [ apply fu_expect_any | apply fu_expect_next | apply fu_opt_newline ].

Lemma fu_read_until_semi g : forall acc s (Q : list token -> pst -> Prop),
  pot s + 1 <= g -> (forall a s', pot s' + 1 <= pot s -> Q a s') -> wpf (read_until_semi g acc) Q s.
Proof. induction g as [|g IHg]; intros acc s Q Hg HQ; [lia|]. cbn [read_until_semi]. fu. Qed.
Ltac callee ::= first [ apply fu_expect_any | apply fu_expect_next | apply fu_opt_newline | apply fu_read_until_semi ].
Lemma fu_read_enum_value g prev bf uns bits s (Q : Z * N -> pst -> Prop) :
  pot s + 1 <= g -> (forall a s', pot s' + 1 <= pot s -> Q a s') -> wpf (read_enum_value g prev bf uns bits) Q s.
Proof. intros Hg HQ. unfold read_enum_value. fu. Qed.
Lemma fu_read_deprecated s (Q : bytes -> pst -> Prop) : (forall a s', pot s' + 4 <= pot s -> Q a s') -> wpf read_deprecated Q s.
Proof. intros HQ. unfold read_deprecated. fu. Qed.
Lemma fu_skip_eol g : forall s (Q : unit -> pst -> Prop),
  pot s + 1 <= g -> (forall a s', pot s' <= pot s -> Q a s') -> wpf (skip_eol_comments g) Q s.
Proof. induction g as [|g IHg]; intros s Q Hg HQ; [lia|]. cbn [skip_eol_comments]. fu. Qed.
Ltac callee ::= first [ apply fu_expect_any | apply fu_expect_next | apply fu_opt_newline | apply fu_read_until_semi
                      | apply fu_read_enum_value | apply fu_read_deprecated | apply fu_skip_eol ].
Lemma fu_read_enum_loop g : forall bf uns bits opts cm dm dep s (Q : list enumopt -> pst -> Prop),
  pot s + 2 <= g -> (forall a s', pot s' <= pot s -> Q a s') -> wpf (read_enum_loop g bf uns bits opts cm dm dep) Q s.
Proof. induction g as [|g IHg]; intros bf uns bits opts cm dm dep s Q Hg HQ; [lia|]. cbn [read_enum_loop]. fu. Qed.
Ltac callee ::= first [ apply fu_expect_any | apply fu_expect_next | apply fu_opt_newline | apply fu_read_until_semi
                      | apply fu_read_enum_value | apply fu_read_deprecated | apply fu_skip_eol | apply fu_read_enum_loop ].
Lemma fu_read_enum g bf s (Q : enum_ -> pst -> Prop) :
  pot s + 2 <= g -> (forall a s', pot s' + 1 <= pot s -> Q a s') -> wpf (read_enum g bf) Q s.
Proof. intros Hg HQ. unfold read_enum. fu. Qed.
Lemma fu_array_suffix g : forall ft s (Q : ftype -> pst -> Prop),
  pot s + 1 <= g -> (forall a s', pot s' <= pot s + 1 -> Q a s') -> wpf (array_suffix g ft) Q s.
Proof. induction g as [|g IHg]; intros ft s Q Hg HQ; [lia|]. cbn [array_suffix]. fu. Qed.
Ltac callee ::= first [ apply fu_expect_any | apply fu_expect_next | apply fu_opt_newline | apply fu_read_until_semi
                      | apply fu_read_enum_value | apply fu_read_deprecated | apply fu_skip_eol | apply fu_read_enum_loop
                      | apply fu_read_enum | apply fu_array_suffix ].
Lemma fu_read_field_type g : forall s (Q : ftype -> pst -> Prop),
  pot s + 1 <= g -> (forall a s', pot s' + 1 <= pot s -> Q a s') -> wpf (read_field_type g) Q s.
Proof. induction g as [|g IHg]; intros s Q Hg HQ; [lia|]. cbn [read_field_type]. fu. Qed.
Ltac callee ::= first [ apply fu_expect_any | apply fu_expect_next | apply fu_opt_newline | apply fu_read_until_semi
                      | apply fu_read_enum_value | apply fu_read_deprecated | apply fu_skip_eol | apply fu_read_enum_loop
                      | apply fu_read_enum | apply fu_array_suffix | apply fu_read_field_type ].
Lemma fu_read_struct_loop g : forall fs cm tags dm dep s (Q : list field -> pst -> Prop),
  pot s + 2 <= g -> (forall a s', pot s' <= pot s -> Q a s') -> wpf (read_struct_loop g fs cm tags dm dep) Q s.
Proof. induction g as [|g IHg]; intros fs cm tags dm dep s Q Hg HQ; [lia|]. cbn [read_struct_loop]. fu. Qed.
Lemma fu_read_message_loop g : forall fs cm tags dm dep s (Q : list (N * field) -> pst -> Prop),
  pot s + 2 <= g -> (forall a s', pot s' <= pot s -> Q a s') -> wpf (read_message_loop g fs cm tags dm dep) Q s.
Proof. induction g as [|g IHg]; intros fs cm tags dm dep s Q Hg HQ; [lia|]. cbn [read_message_loop]. fu. Qed.
Ltac callee ::= first [ apply fu_expect_any | apply fu_expect_next | apply fu_opt_newline | apply fu_read_until_semi
                      | apply fu_read_enum_value | apply fu_read_deprecated | apply fu_skip_eol | apply fu_read_enum_loop
                      | apply fu_read_enum | apply fu_array_suffix | apply fu_read_field_type | apply fu_read_struct_loop | apply fu_read_message_loop ].
Lemma fu_read_struct g s (Q : struct_ -> pst -> Prop) :
  pot s + 2 <= g -> (forall a s', pot s' + 1 <= pot s -> Q a s') -> wpf (read_struct g) Q s.
Proof. intros Hg HQ. unfold read_struct. fu. Qed.
Lemma fu_read_message g s (Q : message -> pst -> Prop) :
  pot s + 2 <= g -> (forall a s', pot s' + 1 <= pot s -> Q a s') -> wpf (read_message g) Q s.
Proof. intros Hg HQ. unfold read_message. fu. Qed.
Ltac callee ::= first [ apply fu_expect_any | apply fu_expect_next | apply fu_opt_newline | apply fu_read_until_semi
                      | apply fu_read_enum_value | apply fu_read_deprecated | apply fu_skip_eol | apply fu_read_enum_loop
                      | apply fu_read_enum | apply fu_array_suffix | apply fu_read_field_type | apply fu_read_struct_loop | apply fu_read_message_loop
                      | apply fu_read_struct | apply fu_read_message ].
Lemma fu_read_union_loop g : forall fs cm tags dm dep s (Q : list (N * ufield) -> pst -> Prop),
  pot s + 2 <= g -> (forall a s', pot s' <= pot s -> Q a s') -> wpf (read_union_loop g fs cm tags dm dep) Q s.
Proof. induction g as [|g IHg]; intros fs cm tags dm dep s Q Hg HQ; [lia|]. cbn [read_union_loop]. fu. Qed.
Ltac callee ::= first [ apply fu_expect_any | apply fu_expect_next | apply fu_opt_newline | apply fu_read_until_semi
                      | apply fu_read_enum_value | apply fu_read_deprecated | apply fu_skip_eol | apply fu_read_enum_loop
                      | apply fu_read_enum | apply fu_array_suffix | apply fu_read_field_type | apply fu_read_struct_loop | apply fu_read_message_loop
                      | apply fu_read_struct | apply fu_read_message | apply fu_read_union_loop ].
Lemma fu_read_union g s (Q : union_ -> pst -> Prop) :
  pot s + 2 <= g -> (forall a s', pot s' + 1 <= pot s -> Q a s') -> wpf (read_union g) Q s.
Proof. intros Hg HQ. unfold read_union. fu. Qed.
Lemma fu_read_const g s (Q : const_ -> pst -> Prop) :
  pot s + 2 <= g -> (forall a s', pot s' + 1 <= pot s -> Q a s') -> wpf (read_const g) Q s.
Proof. intros Hg HQ. unfold read_const. fu. Qed.
Lemma fu_read_opcode s (Q : N -> pst -> Prop) : (forall a s', pot s' + 1 <= pot s -> Q a s') -> wpf read_opcode Q s.
Proof. intros HQ. unfold read_opcode. fu. Qed.
Ltac callee ::= first [ apply fu_expect_any | apply fu_expect_next | apply fu_opt_newline | apply fu_read_until_semi
                      | apply fu_read_enum_value | apply fu_read_deprecated | apply fu_skip_eol | apply fu_read_enum_loop
                      | apply fu_read_enum | apply fu_array_suffix | apply fu_read_field_type | apply fu_read_struct_loop | apply fu_read_message_loop
                      | apply fu_read_struct | apply fu_read_message | apply fu_read_union_loop | apply fu_read_union | apply fu_read_const | apply fu_read_opcode ].
Lemma fu_top_loop g : forall f cm opc ro bf s (Q : file -> pst -> Prop),
  pot s + 2 <= g -> (forall a s', pot s' <= pot s -> Q a s') -> wpf (top_loop g f cm opc ro bf) Q s.
Proof. induction g as [|g IHg]; intros f cm opc ro bf s Q Hg HQ; [lia|]. cbn [top_loop]. fu. Qed.

Lemma count_nt_le l : count_nt l <= length l.
Proof. induction l as [|[t e|e|] r IH]; cbn [count_nt length]; lia. Qed.
Lemma next_results_len : forall n s, length (next_results n s) <= n.
Proof.
  induction n as [|n IH]; intros s; [cbn; lia|]. cbn [next_results].
  destruct (next s) as [[t|] s1|]; cbn [length]; [specialize (IH s1)|specialize (IH s1)|]; lia.
Qed.

(* for EVERY list of Next() results - any tokens, any number of `false` answers anywhere - the top-level loop started with
   2 * (number of tokens) + 2 units of fuel does not run out of it, and neither does any loop below it *)
Theorem loops_never_out_of_fuel rs0 cur0 e0 g f cm opc ro bf :
  2 * count_nt rs0 + 2 <= g -> top_loop g f cm opc ro bf {| rs := rs0; cur := cur0; keep := false; perrs := e0 |} <> PFuel.
Proof.
  intros Hg E.
  pose proof (fu_top_loop g f cm opc ro bf {| rs := rs0; cur := cur0; keep := false; perrs := e0 |} (fun _ _ => True)) as H.
  unfold wpf in H. rewrite E in H. apply H; [unfold pot; cbn [rs keep]; lia|auto].
Qed.

Theorem read_file_loops_terminate input fails : read_file input fails <> PFuel.
Proof.
  unfold read_file. apply loops_never_out_of_fuel.
  pose proof (next_results_len (length input + margin)
    {| buf := {| rest := input; lastByte := None; lastRune := None; failing := fails |}; errs := [] |}) as H1.
  pose proof (count_nt_le (next_results (length input + margin)
    {| buf := {| rest := input; lastByte := None; lastRune := None; failing := fails |}; errs := [] |})) as H2.
  lia.
Qed.
Print Assumptions read_file_loops_terminate.
