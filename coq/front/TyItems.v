(* Items (front/GenInv.v) whose fields have ANY type: struct and message definitions with identifier, array[T], map[K, V]
   and T[] types nested to any depth - on the text level, for every layout. *)
From Coq Require Import List NArith ZArith Bool Arith Lia.
Require Import Bebop.front.Tok Bebop.front.Parse Bebop.front.Fmt Bebop.front.TokInv Bebop.front.LexInv Bebop.front.ParseInv Bebop.front.FmtInv Bebop.front.MsgInv.
Require Import Bebop.front.GenInv Bebop.front.Items Bebop.front.TyInv Bebop.front.TyMsg.
Import ListNotations.

Inductive ltyx :=
| LSimple (i : ident) (n : nat)
| LArray (t : ltyx) (n : nat)
| LMap (k : ident) (v : ltyx) (n : nat).
Fixpoint bty (t : ltyx) : tyx :=
  match t with LSimple i n => TSimple (ibytes i) n | LArray t n => TArray (bty t) n | LMap k v n => TMap (ibytes k) (bty v) n end.
Fixpoint lty_ok (t : ltyx) : Prop :=
  match t with
  | LSimple i _ => ident_ok i
  | LArray t _ => lty_ok t
  | LMap k v _ => ident_ok k /\ is_primitive (ibytes k) = true /\ lty_ok v
  end.

Definition kwArr : lexeme := W 97%N [114; 114; 97; 121]%N.
Definition kwMap : lexeme := W 109%N [97; 112]%N.
Definition osqL : lexeme := T1 91%N kOpenSq.
Definition csqL : lexeme := T1 93%N kCloseSq.
Definition commaL : lexeme := T1 44%N kComma.
Fixpoint sufs_lex (n : nat) : list lexeme := match n with O => [] | S n' => osqL :: csqL :: sufs_lex n' end.
Fixpoint ty_lex (t : ltyx) : list lexeme :=
  match t with
  | LSimple i n => Wi i :: sufs_lex n
  | LArray t n => [kwArr; osqL] ++ ty_lex t ++ [csqL] ++ sufs_lex n
  | LMap k v n => [kwMap; osqL; Wi k; commaL] ++ ty_lex v ++ [csqL] ++ sufs_lex n
  end.
Definition nows (l : list lexeme) : list (bytes * lexeme) := map (fun x => ([], x)) l.
(* the canonical spacing of a type: none, except one space after the comma of a map *)
Fixpoint ty_layout (ws0 : bytes) (t : ltyx) : list (bytes * lexeme) :=
  match t with
  | LSimple i n => (ws0, Wi i) :: nows (sufs_lex n)
  | LArray t n => [(ws0, kwArr); ([], osqL)] ++ ty_layout [] t ++ [([], csqL)] ++ nows (sufs_lex n)
  | LMap k v n => [(ws0, kwMap); ([], osqL); ([], Wi k); ([], commaL)] ++ ty_layout sp v ++ [([], csqL)] ++ nows (sufs_lex n)
  end.

Lemma sufs_toks n : map tok_of (sufs_lex n) = sufs n.
Proof. induction n as [|n IH]; [reflexivity|]. cbn [sufs_lex map sufs]. now rewrite IH. Qed.
Lemma ty_lex_toks t : lty_ok t -> map tok_of (ty_lex t) = ty_toks (bty t).
Proof.
  induction t as [i n|t IH n|k v IH n]; cbn [lty_ok ty_lex bty ty_toks]; intros H.
  - cbn [map]. now rewrite (tok_of_Wi i H), sufs_toks.
  - rewrite !map_app, (IH H), sufs_toks. reflexivity.
  - destruct H as (Hk & _ & Hv). rewrite !map_app, (IH Hv), sufs_toks. cbn [map]. now rewrite (tok_of_Wi k Hk).
Qed.
Lemma sufs_lex_ok n : Forall lex_ok (sufs_lex n).
Proof. induction n as [|n IH]; [constructor|]. cbn [sufs_lex]. constructor; [reflexivity|]. constructor; [reflexivity|exact IH]. Qed.
Lemma kwArr_ok : lex_ok kwArr. Proof. split; [reflexivity|repeat constructor]. Qed.
Lemma kwMap_ok : lex_ok kwMap. Proof. split; [reflexivity|repeat constructor]. Qed.
Lemma ty_lex_ok t : lty_ok t -> Forall lex_ok (ty_lex t).
Proof.
  induction t as [i n|t IH n|k v IH n]; cbn [lty_ok ty_lex]; intros H.
  - constructor; [now apply lex_ok_Wi|apply sufs_lex_ok].
  - cbn [app]. constructor; [exact kwArr_ok|]. constructor; [reflexivity|]. apply Forall_app. split; [exact (IH H)|].
    constructor; [reflexivity|apply sufs_lex_ok].
  - destruct H as (Hk & _ & Hv). cbn [app]. constructor; [exact kwMap_ok|]. constructor; [reflexivity|]. constructor; [now apply lex_ok_Wi|].
    constructor; [reflexivity|]. apply Forall_app. split; [exact (IH Hv)|]. constructor; [reflexivity|apply sufs_lex_ok].
Qed.
Lemma nows_snd l : map snd (nows l) = l.
Proof. unfold nows. rewrite map_map. cbn [snd]. apply map_id. Qed.
Lemma ty_layout_lex : forall t ws, map snd (ty_layout ws t) = ty_lex t.
Proof.
  induction t as [i n|t IH n|k v IH n]; intros ws; cbn [ty_layout ty_lex].
  - cbn [map snd]. now rewrite nows_snd.
  - rewrite !map_app, IH, nows_snd. reflexivity.
  - rewrite !map_app, IH, nows_snd. reflexivity.
Qed.
Lemma nows_hws l : Forall (fun p : bytes * lexeme => hws (fst p)) (nows l).
Proof. unfold nows. induction l as [|x l IH]; cbn [map]; [apply Forall_nil|]. apply Forall_cons; [exact (Forall_nil _)|exact IH]. Qed.
Lemma ty_layout_hws : forall t ws, hws ws -> Forall (fun p => hws (fst p)) (ty_layout ws t).
Proof.
  assert (Hsp : hws sp) by (repeat constructor). assert (Hnil : hws []) by constructor.
  induction t as [i n|t IH n|k v IH n]; intros ws Hws; cbn [ty_layout].
  - constructor; [exact Hws|apply nows_hws].
  - cbn [app]. constructor; [exact Hws|]. constructor; [exact Hnil|]. apply Forall_app. split; [exact (IH [] Hnil)|]. constructor; [exact Hnil|apply nows_hws].
  - cbn [app]. constructor; [exact Hws|]. do 3 (constructor; [exact Hnil|]). apply Forall_app. split; [exact (IH sp Hsp)|]. constructor; [exact Hnil|apply nows_hws].
Qed.

(* what may follow a word *)
Definition ends (rest : list (bytes * lexeme)) : Prop :=
  match rest with [] => False | (ws2, x2) :: _ => ws2 <> [] \/ exists c k, x2 = T1 c k end.
Lemma sufs_sep n rest : sep_ok rest -> sep_ok (nows (sufs_lex n) ++ rest).
Proof. intros Hr. induction n as [|n IH]; [exact Hr|]. cbn [sufs_lex nows map app sep_ok needs_end osqL csqL]. split; [exact I|]. split; [exact I|exact IH]. Qed.
Lemma sufs_ends n rest : ends rest -> ends (nows (sufs_lex n) ++ rest).
Proof. intros Hr. destruct n; [exact Hr|]. cbn [sufs_lex nows map app ends]. right. exists 91%N, kOpenSq. reflexivity. Qed.
Lemma ty_layout_sep : forall t ws rest, sep_ok rest -> ends rest -> sep_ok (ty_layout ws t ++ rest).
Proof.
  induction t as [i n|t IH n|k v IH n]; intros ws rest Hr He; cbn [ty_layout].
  - cbn [app sep_ok needs_end Wi]. split; [|apply sufs_sep; exact Hr].
    pose proof (sufs_ends n rest He) as H. destruct (nows (sufs_lex n) ++ rest) as [|[ws2 x2] r]; exact H.
  - rewrite <- !app_assoc. cbn [app sep_ok needs_end kwArr osqL]. split; [right; exists 91%N, kOpenSq; reflexivity|]. split; [exact I|].
    apply IH.
    + cbn [sep_ok needs_end csqL]. split; [exact I|]. apply sufs_sep. exact Hr.
    + cbn [ends]. right. exists 93%N, kCloseSq. reflexivity.
  - rewrite <- !app_assoc. cbn [app sep_ok needs_end kwMap osqL Wi commaL]. split; [right; exists 91%N, kOpenSq; reflexivity|]. split; [exact I|].
    split; [right; exists 44%N, kComma; reflexivity|]. split; [exact I|].
    apply IH.
    + cbn [sep_ok needs_end csqL]. split; [exact I|]. apply sufs_sep. exact Hr.
    + cbn [ends]. right. exists 93%N, kCloseSq. reflexivity.
Qed.
Lemma render_sufs n rest : render (nows (sufs_lex n)) rest = sufs_text n ++ rest.
Proof. induction n as [|n IH]; [reflexivity|]. cbn [sufs_lex nows map render text_of osqL csqL sufs_text app]. unfold nows in IH. now rewrite IH. Qed.
Lemma render_ty : forall t ws rest, render (ty_layout ws t) rest = ws ++ ty_text (bty t) ++ rest.
Proof.
  induction t as [i n|t IH n|k v IH n]; intros ws rest; cbn [ty_layout bty ty_text].
  - cbn [render text_of Wi]. rewrite render_sufs. unfold ibytes. rewrite <- !app_assoc. reflexivity.
  - rewrite !render_app. cbn [render text_of kwArr osqL csqL]. rewrite IH, render_sufs. cbn [app]. rewrite <- !app_assoc. reflexivity.
  - rewrite !render_app. cbn [render text_of kwMap osqL csqL commaL Wi]. rewrite IH, render_sufs. unfold ibytes, sp. cbn [app]. repeat (rewrite <- app_assoc || rewrite <- app_comm_cons). reflexivity.
Qed.
Lemma lty_keys t : lty_ok t -> ty_keys_ok (bty t).
Proof. induction t as [i n|t IH n|k v IH n]; cbn [lty_ok bty ty_keys_ok]; intros H; [exact I|auto|]. destruct H as (_ & Hp & Hv). auto. Qed.
Lemma tfuel_le t : tfuel t <= length (ty_toks t) + 1.
Proof.
  assert (Hs : forall n, length (sufs n) = 2 * n) by (induction n as [|n IH]; [reflexivity|]; cbn [sufs length]; lia).
  induction t as [nm n|t IH n|k v IH n]; cbn [tfuel ty_toks]; rewrite ?app_length; cbn [length]; rewrite ?app_length, ?Hs; cbn [length]; lia.
Qed.

(* generic facts about per-field lists *)
Section PerField.
  Context {A B : Type} (L : A -> list lexeme) (Y : A -> list (bytes * lexeme)) (Bf : A -> B) (T : B -> list token) (X : B -> bytes) (ok : A -> Prop).
  Hypothesis Htoks : forall f, ok f -> map tok_of (L f) = T (Bf f).
  Hypothesis Hlex : forall f, ok f -> Forall lex_ok (L f).
  Hypothesis Hlay : forall f, map snd (Y f) = L f.
  Hypothesis Hhws : forall f, Forall (fun p => hws (fst p)) (Y f).
  Hypothesis Hsep : forall f rest, sep_ok rest -> sep_ok (Y f ++ rest).
  Hypothesis Hren : forall f t, render (Y f) t = X (Bf f) ++ t.
  Lemma pf_toks fl : Forall ok fl -> map tok_of (flat_map L fl) = flat_map T (map Bf fl).
  Proof. induction 1 as [|f fl H _ IH]; [reflexivity|]. cbn [flat_map map]. now rewrite map_app, IH, (Htoks f H). Qed.
  Lemma pf_lex fl : Forall ok fl -> Forall lex_ok (flat_map L fl).
  Proof. induction 1 as [|f fl H _ IH]; [constructor|]. cbn [flat_map]. apply Forall_app. split; [exact (Hlex f H)|exact IH]. Qed.
  Lemma pf_lay fl : map snd (flat_map Y fl) = flat_map L fl.
  Proof. induction fl as [|f fl IH]; [reflexivity|]. cbn [flat_map]. now rewrite map_app, IH, Hlay. Qed.
  Lemma pf_hws fl : Forall (fun p => hws (fst p)) (flat_map Y fl).
  Proof. induction fl as [|f fl IH]; [constructor|]. cbn [flat_map]. apply Forall_app. split; [apply Hhws|exact IH]. Qed.
  Lemma pf_sep fl rest : sep_ok rest -> sep_ok (flat_map Y fl ++ rest).
  Proof. intros Hr. induction fl as [|f fl IH]; [exact Hr|]. cbn [flat_map]. rewrite <- app_assoc. apply Hsep. exact IH. Qed.
  Lemma pf_ren fl t : render (flat_map Y fl) t = flat_map X (map Bf fl) ++ t.
  Proof. induction fl as [|f fl IH]; [reflexivity|]. cbn [flat_map map]. now rewrite render_app, IH, Hren, app_assoc. Qed.
End PerField.

(* ---------- struct fields ---------- *)
Definition tfdef := (ltyx * ident)%type.
Definition btf (f : tfdef) : tfield := (bty (fst f), ibytes (snd f)).
Definition tfdef_ok (f : tfdef) : Prop := lty_ok (fst f) /\ ident_ok (snd f).
Definition semiL : lexeme := T1 59%N kSemi.
Definition tfield_lex (f : tfdef) : list lexeme := ty_lex (fst f) ++ [Wi (snd f); semiL; NLx].
Definition tfield_layout (f : tfdef) : list (bytes * lexeme) := ty_layout tab (fst f) ++ [(sp, Wi (snd f)); ([], semiL); ([], NLx)].

Lemma tf_toks f : tfdef_ok f -> map tok_of (tfield_lex f) = tfield_toks (btf f).
Proof. intros [Ht Hn]. unfold tfield_lex, tfield_toks, btf. cbn [fst snd]. rewrite map_app, (ty_lex_toks _ Ht). cbn [map]. now rewrite (tok_of_Wi _ Hn). Qed.
Lemma tf_lex f : tfdef_ok f -> Forall lex_ok (tfield_lex f).
Proof. intros [Ht Hn]. unfold tfield_lex. apply Forall_app. split; [exact (ty_lex_ok _ Ht)|]. constructor; [now apply lex_ok_Wi|]. constructor; [reflexivity|]. constructor; [reflexivity|constructor]. Qed.
Lemma tf_lay f : map snd (tfield_layout f) = tfield_lex f.
Proof. unfold tfield_layout, tfield_lex. now rewrite map_app, ty_layout_lex. Qed.
Lemma hws_tab : hws tab. Proof. repeat constructor. Qed.
Lemma hws_sp : hws sp. Proof. repeat constructor. Qed.
Lemma hws_nil : hws []. Proof. constructor. Qed.
Lemma tf_hws f : Forall (fun p => hws (fst p)) (tfield_layout f).
Proof. unfold tfield_layout. apply Forall_app. split; [apply ty_layout_hws; exact hws_tab|]. constructor; [exact hws_sp|]. constructor; [exact hws_nil|]. constructor; [exact hws_nil|constructor]. Qed.
Lemma tf_sep f rest : sep_ok rest -> sep_ok (tfield_layout f ++ rest).
Proof.
  intros Hr. unfold tfield_layout. rewrite <- app_assoc. apply ty_layout_sep.
  - cbn [app sep_ok needs_end Wi semiL NLx]. split; [right; exists 59%N, kSemi; reflexivity|]. split; [exact I|]. split; [exact I|exact Hr].
  - cbn [app ends]. left. discriminate.
Qed.
Lemma tf_ren f t : render (tfield_layout f) t = tfield_text (btf f) ++ t.
Proof.
  unfold tfield_layout, tfield_text, btf. cbn [fst snd]. rewrite render_app, render_ty. cbn [render text_of Wi semiL NLx].
  unfold ibytes, nlb. repeat (rewrite <- app_assoc || rewrite <- app_comm_cons). reflexivity.
Qed.

Lemma fsum_le fl : fsum fl <= length (tfields_toks fl).
Proof.
  induction fl as [|f fl IH]; [cbn; lia|]. cbn [fsum fold_right tfields_toks flat_map]. fold (fsum fl). fold (tfields_toks fl).
  rewrite app_length. unfold tfield_toks. rewrite app_length. cbn [length]. pose proof (tfuel_le (fst f)). lia.
Qed.

Definition st_item (nm : ident) (fl : list tfdef) : item :=
  let bfl := map btf fl in
  {| it_toks := tstruct_toks (ibytes nm) bfl; it_need := fsum bfl + 3; it_fneed := fsum bfl + 4;
     it_upd := fun f => add_struct f (tstruct_of (ibytes nm) bfl); it_text := tstruct_text (ibytes nm) bfl; it_blank := true |}.
Definition ocuL : lexeme := T1 123%N kOpenCu.
Definition ccuL : lexeme := T1 125%N kCloseCu.
Definition st_x (nm : ident) (fl : list tfdef) : xitem :=
  {| x_lex := [kwS; Wi nm; ocuL; NLx] ++ flat_map tfield_lex fl ++ [ccuL; NLx];
     x_lay := [([], kwS); (sp, Wi nm); (sp, ocuL); ([], NLx)] ++ flat_map tfield_layout fl ++ [([], ccuL); ([], NLx)] |}.

Lemma keys_of fl : Forall tfdef_ok fl -> Forall (fun f => ty_keys_ok (fst f)) (map btf fl).
Proof. induction 1 as [|f fl [Ht _] _ IH]; cbn [map]; constructor; [exact (lty_keys _ Ht)|exact IH]. Qed.

Lemma st_item_ok nm fl : ident_ok nm -> Forall tfdef_ok fl -> item_ok (st_item nm fl) (st_x nm fl).
Proof.
  intros Hn Hf. pose proof (keys_of fl Hf) as Hk. constructor.
  - intros g f tail c. cbn [st_item it_need it_toks it_upd]. exists (fsum (map btf fl) + S g). split; [lia|].
    replace (fsum (map btf fl) + 3 + g) with (S (fsum (map btf fl) + S (S g))) by lia. apply (top_tstruct _ _ _ _ _ _ Hk).
  - intros g out nl tail c. cbn [st_item it_fneed it_toks it_text it_blank]. rewrite andb_true_r. exists (fsum (map btf fl) + S (S g)). split; [lia|].
    replace (fsum (map btf fl) + 4 + g) with (S (S (fsum (map btf fl) + S (S g)))) by lia. apply fmt_top_tstruct.
  - cbn [st_x x_lex st_item it_toks]. unfold tstruct_toks. rewrite !map_app. cbn [map]. rewrite (tok_of_Wi nm Hn).
    rewrite (pf_toks tfield_lex btf tfield_toks tfdef_ok tf_toks fl Hf). reflexivity.
  - cbn [st_x x_lex]. cbn [app]. constructor; [exact kw_struct_ok|]. constructor; [now apply lex_ok_Wi|]. constructor; [reflexivity|]. constructor; [reflexivity|].
    apply Forall_app. split; [exact (pf_lex tfield_lex tfdef_ok tf_lex fl Hf)|]. constructor; [reflexivity|]. constructor; [reflexivity|constructor].
  - cbn [st_item it_need it_fneed it_toks]. unfold tstruct_toks. rewrite !app_length. cbn [length]. fold (tfields_toks (map btf fl)).
    pose proof (fsum_le (map btf fl)). lia.
  - cbn [st_x x_lay x_lex]. rewrite !map_app, (pf_lay tfield_lex tfield_layout tf_lay). reflexivity.
  - cbn [st_x x_lay]. cbn [app]. constructor; [exact hws_nil|]. constructor; [exact hws_sp|]. constructor; [exact hws_sp|]. constructor; [exact hws_nil|].
    apply Forall_app. split; [exact (pf_hws tfield_layout tf_hws fl)|]. constructor; [exact hws_nil|]. constructor; [exact hws_nil|constructor].
  - intros rest Hr. cbn [st_x x_lay]. rewrite <- !app_assoc. cbn [app sep_ok needs_end Wi kwS ocuL NLx].
    split; [left; discriminate|]. split; [left; discriminate|]. split; [exact I|]. split; [exact I|].
    apply (pf_sep tfield_layout tf_sep). cbn [app sep_ok needs_end ccuL NLx]. split; [exact I|]. split; [exact I|exact Hr].
  - intros t. cbn [st_x x_lay st_item it_text]. rewrite !render_app, (pf_ren tfield_layout btf tfield_text tf_ren).
    cbn [render text_of Wi app NLx kwS ocuL ccuL]. unfold tstruct_text, tfields_text, ibytes, sp, nlb.
    repeat (rewrite <- app_assoc || rewrite <- app_comm_cons). reflexivity.
Qed.

(* ---------- message fields ---------- *)
Definition tmfdef := (idx * (ltyx * ident))%type.
Definition btm (f : tmfdef) : tmfield := (xbytes (fst f), xv (fst f), (bty (fst (snd f)), ibytes (snd (snd f)))).
Definition tmfdef_ok (f : tmfdef) : Prop := idx_ok (fst f) /\ lty_ok (fst (snd f)) /\ ident_ok (snd (snd f)).
Definition tmfield_lex (f : tmfdef) : list lexeme :=
  [Num (xc (fst f)) (xds (fst f)); Arrow] ++ ty_lex (fst (snd f)) ++ [Wi (snd (snd f)); semiL; NLx].
Definition tmfield_layout (f : tmfdef) : list (bytes * lexeme) :=
  [(tab, Num (xc (fst f)) (xds (fst f))); (sp, Arrow)] ++ ty_layout sp (fst (snd f)) ++ [(sp, Wi (snd (snd f))); ([], semiL); ([], NLx)].

Lemma tmf_toks f : tmfdef_ok f -> map tok_of (tmfield_lex f) = tmfield_toks (btm f).
Proof.
  intros (Hx & Ht & Hn). unfold tmfield_lex, tmfield_toks, btm, tm_ds, tm_t, tm_n. cbn [fst snd].
  rewrite !map_app, (ty_lex_toks _ Ht). cbn [map]. now rewrite (tok_of_Wi _ Hn).
Qed.
Lemma tmf_lex f : tmfdef_ok f -> Forall lex_ok (tmfield_lex f).
Proof.
  intros (Hx & Ht & Hn). unfold tmfield_lex. cbn [app]. constructor; [exact Hx|]. constructor; [exact I|].
  apply Forall_app. split; [exact (ty_lex_ok _ Ht)|]. constructor; [now apply lex_ok_Wi|]. constructor; [reflexivity|]. constructor; [reflexivity|constructor].
Qed.
Lemma tmf_lay f : map snd (tmfield_layout f) = tmfield_lex f.
Proof. unfold tmfield_layout, tmfield_lex. now rewrite !map_app, ty_layout_lex. Qed.
Lemma tmf_hws f : Forall (fun p => hws (fst p)) (tmfield_layout f).
Proof.
  unfold tmfield_layout. cbn [app]. constructor; [exact hws_tab|]. constructor; [exact hws_sp|].
  apply Forall_app. split; [apply ty_layout_hws; exact hws_sp|]. constructor; [exact hws_sp|]. constructor; [exact hws_nil|]. constructor; [exact hws_nil|constructor].
Qed.
Lemma tmf_sep f rest : sep_ok rest -> sep_ok (tmfield_layout f ++ rest).
Proof.
  intros Hr. unfold tmfield_layout. rewrite <- !app_assoc. cbn [app sep_ok needs_end]. split; [left; discriminate|]. split; [exact I|].
  apply ty_layout_sep.
  - cbn [app sep_ok needs_end Wi semiL NLx]. split; [right; exists 59%N, kSemi; reflexivity|]. split; [exact I|]. split; [exact I|exact Hr].
  - cbn [app ends]. left. discriminate.
Qed.
Lemma tmf_ren f t : render (tmfield_layout f) t = tmfield_text (btm f) ++ t.
Proof.
  unfold tmfield_layout, tmfield_text, btm, tm_ds, tm_t, tm_n. cbn [fst snd]. rewrite !render_app. cbn [render text_of]. rewrite render_ty.
  cbn [render text_of Wi semiL NLx]. unfold xbytes, ibytes, sp, tab. repeat (rewrite <- app_assoc || rewrite <- app_comm_cons). reflexivity.
Qed.

Lemma fsum_le_m fl : fsum (map snd fl) <= length (tmfields_toks fl).
Proof.
  induction fl as [|f fl IH]; [cbn; lia|]. cbn [map fsum fold_right tmfields_toks flat_map]. fold (fsum (map snd fl)). fold (tmfields_toks fl).
  rewrite app_length. unfold tmfield_toks. cbn [app length]. rewrite app_length. cbn [length]. pose proof (tfuel_le (fst (snd f))). unfold tm_t, tmfield, tfield, bytes, byte in *. lia.
Qed.

Definition mt_item (nm : ident) (fl : list tmfdef) : item :=
  let bfl := map btm fl in
  {| it_toks := tmessage_toks (ibytes nm) bfl; it_need := fsum (map snd bfl) + 3; it_fneed := fsum (map snd bfl) + 4;
     it_upd := fun f => add_message f (tmessage_of (ibytes nm) bfl); it_text := tmessage_text (ibytes nm) bfl; it_blank := true |}.
Definition mt_x (nm : ident) (fl : list tmfdef) : xitem :=
  {| x_lex := [kwM; Wi nm; ocuL; NLx] ++ flat_map tmfield_lex fl ++ [ccuL; NLx];
     x_lay := [([], kwM); (sp, Wi nm); (sp, ocuL); ([], NLx)] ++ flat_map tmfield_layout fl ++ [([], ccuL); ([], NLx)] |}.

Lemma mt_item_ok nm fl : ident_ok nm -> Forall tmfdef_ok fl -> tmfs_ok [] (map btm fl) -> item_ok (mt_item nm fl) (mt_x nm fl).
Proof.
  intros Hn Hf Hm. constructor.
  - intros g f tail c. cbn [mt_item it_need it_toks it_upd]. exists (fsum (map snd (map btm fl)) + S g). split; [lia|].
    replace (fsum (map snd (map btm fl)) + 3 + g) with (S (fsum (map snd (map btm fl)) + S (S g))) by lia. apply (top_tmessage _ _ _ _ _ _ Hm).
  - intros g out nl tail c. cbn [mt_item it_fneed it_toks it_text it_blank]. rewrite andb_true_r. exists (fsum (map snd (map btm fl)) + S (S g)). split; [lia|].
    replace (fsum (map snd (map btm fl)) + 4 + g) with (S (S (fsum (map snd (map btm fl)) + S (S g)))) by lia. apply fmt_top_tmessage.
  - cbn [mt_x x_lex mt_item it_toks]. unfold tmessage_toks. rewrite !map_app. cbn [map]. rewrite (tok_of_Wi nm Hn).
    rewrite (pf_toks tmfield_lex btm tmfield_toks tmfdef_ok tmf_toks fl Hf). reflexivity.
  - cbn [mt_x x_lex]. cbn [app]. constructor; [exact kwM_ok|]. constructor; [now apply lex_ok_Wi|]. constructor; [reflexivity|]. constructor; [reflexivity|].
    apply Forall_app. split; [exact (pf_lex tmfield_lex tmfdef_ok tmf_lex fl Hf)|]. constructor; [reflexivity|]. constructor; [reflexivity|constructor].
  - cbn [mt_item it_need it_fneed it_toks]. unfold tmessage_toks. rewrite !app_length. cbn [length]. fold (tmfields_toks (map btm fl)).
    pose proof (fsum_le_m (map btm fl)) as H. unfold tmfields_toks, tmfield, tfield, bytes, byte in *. lia.
  - cbn [mt_x x_lay x_lex]. rewrite !map_app, (pf_lay tmfield_lex tmfield_layout tmf_lay). reflexivity.
  - cbn [mt_x x_lay]. cbn [app]. constructor; [exact hws_nil|]. constructor; [exact hws_sp|]. constructor; [exact hws_sp|]. constructor; [exact hws_nil|].
    apply Forall_app. split; [exact (pf_hws tmfield_layout tmf_hws fl)|]. constructor; [exact hws_nil|]. constructor; [exact hws_nil|constructor].
  - intros rest Hr. cbn [mt_x x_lay]. rewrite <- !app_assoc. cbn [app sep_ok needs_end Wi kwM ocuL NLx].
    split; [left; discriminate|]. split; [left; discriminate|]. split; [exact I|]. split; [exact I|].
    apply (pf_sep tmfield_layout tmf_sep). cbn [app sep_ok needs_end ccuL NLx]. split; [exact I|]. split; [exact I|exact Hr].
  - intros t. cbn [mt_x x_lay mt_item it_text]. rewrite !render_app, (pf_ren tmfield_layout btm tmfield_text tmf_ren).
    cbn [render text_of Wi app NLx kwM ocuL ccuL]. unfold tmessage_text, tmfields_text, ibytes, sp, nlb.
    repeat (rewrite <- app_assoc || rewrite <- app_comm_cons). reflexivity.
Qed.

(* ---------- readonly structs ---------- *)
Definition tstruct_of_ro (nm : bytes) (fl : list tfield) : struct_ :=
  {| s_name := nm; s_comment := []; s_fields := map tfield_of fl; s_opcode := 0; s_readonly := true |}.
Definition tro_text (nm : bytes) (fl : list tfield) : bytes := [114; 101; 97; 100; 111; 110; 108; 121; 32]%N ++ tstruct_text nm fl.

Lemma top_tstruct_ro nm fl g f tail c : Forall (fun f => ty_keys_ok (fst f)) fl ->
  top_loop (S (fsum fl + S (S g))) f [] 0%N false false (mk (res (readonlyT :: tstruct_toks nm fl) tail) c false)
  = top_loop (fsum fl + S g) (add_struct f (tstruct_of_ro nm fl)) [] 0%N false false (mk tail nlT false).
Proof.
  intros Hok. unfold tstruct_toks.
  change (readonlyT :: [structT; idT nm; openT; nlT] ++ tfields_toks fl ++ [closeT; nlT])
    with ([readonlyT; structT] ++ ([idT nm; openT; nlT] ++ tfields_toks fl ++ [closeT] ++ [nlT])).
  rewrite res_app, top_ro_head. unfold bind.
  replace ([idT nm; openT; nlT] ++ tfields_toks fl ++ [closeT] ++ [nlT])
    with (([idT nm; openT; nlT] ++ tfields_toks fl ++ [closeT]) ++ [nlT]) by (rewrite <- !app_assoc; reflexivity).
  rewrite res_app, (read_tstruct_ok nm fl g _ _ Hok). cbn [s_name s_fields tstruct_of].
  replace (fsum fl + S (S g)) with (S (fsum fl + S g)) by lia.
  rewrite top_newline. reflexivity.
Qed.

Lemma fmt_tstruct_ok_ro nm fl g tail :
  format_struct (S (fsum fl + S (S g))) true tab (mk (res ([idT nm; openT; nlT] ++ tfields_toks fl ++ [closeT]) tail) structT false)
  = POk (tro_text nm fl) (mk tail closeT false).
Proof.
  rewrite res_app, fmt_struct_head_ro, res_app, fmt_tfields.
  replace (tsum fl + S (S g)) with (S (S (tsum fl + g))) by lia. rewrite fmt_close.
  unfold tro_text, tstruct_text. rewrite <- !app_assoc. reflexivity.
Qed.

Lemma fmt_top_tstruct_ro nm fl g out nl tail c :
  format_loop (S (S (S (fsum fl + S (S g))))) out false nl (mk (res (readonlyT :: tstruct_toks nm fl) tail) c false)
  = format_loop (fsum fl + S (S g)) ((if nl then out ++ nlb else out) ++ tro_text nm fl) false true (mk tail nlT false).
Proof.
  unfold tstruct_toks.
  change (readonlyT :: [structT; idT nm; openT; nlT] ++ tfields_toks fl ++ [closeT; nlT])
    with ([readonlyT; structT] ++ ([idT nm; openT; nlT] ++ tfields_toks fl ++ [closeT] ++ [nlT])).
  rewrite res_app, fmt_top_ro_head. unfold bind.
  replace ([idT nm; openT; nlT] ++ tfields_toks fl ++ [closeT] ++ [nlT])
    with (([idT nm; openT; nlT] ++ tfields_toks fl ++ [closeT]) ++ [nlT]) by (rewrite <- !app_assoc; reflexivity).
  rewrite res_app, fmt_tstruct_ok_ro, fmt_top_newline. reflexivity.
Qed.

Definition rt_item (nm : ident) (fl : list tfdef) : item :=
  let bfl := map btf fl in
  {| it_toks := readonlyT :: tstruct_toks (ibytes nm) bfl; it_need := fsum bfl + 3; it_fneed := fsum bfl + 5;
     it_upd := fun f => add_struct f (tstruct_of_ro (ibytes nm) bfl); it_text := tro_text (ibytes nm) bfl; it_blank := true |}.
Definition rt_x (nm : ident) (fl : list tfdef) : xitem :=
  {| x_lex := kwRO :: x_lex (st_x nm fl); x_lay := ([], kwRO) :: (sp, kwS) :: tl (x_lay (st_x nm fl)) |}.

Lemma rt_item_ok nm fl : ident_ok nm -> Forall tfdef_ok fl -> item_ok (rt_item nm fl) (rt_x nm fl).
Proof.
  intros Hn Hf. pose proof (st_item_ok nm fl Hn Hf) as Hs. pose proof (keys_of fl Hf) as Hk. constructor.
  - intros g f tail c. cbn [rt_item it_need it_toks it_upd]. exists (fsum (map btf fl) + S g). split; [lia|].
    replace (fsum (map btf fl) + 3 + g) with (S (fsum (map btf fl) + S (S g))) by lia. apply (top_tstruct_ro _ _ _ _ _ _ Hk).
  - intros g out nl tail c. cbn [rt_item it_fneed it_toks it_text it_blank]. rewrite andb_true_r. exists (fsum (map btf fl) + S (S g)). split; [lia|].
    replace (fsum (map btf fl) + 5 + g) with (S (S (S (fsum (map btf fl) + S (S g))))) by lia. apply fmt_top_tstruct_ro.
  - cbn [rt_x x_lex rt_item it_toks map]. rewrite (ok_toks _ _ Hs). reflexivity.
  - cbn [rt_x x_lex]. constructor; [cbn [lex_ok kwRO]; split; [reflexivity|repeat constructor]|exact (ok_lex _ _ Hs)].
  - cbn [rt_item it_need it_fneed it_toks length]. pose proof (ok_need _ _ Hs) as [H1 H2]. cbn [st_item it_need it_fneed it_toks] in H1, H2. lia.
  - cbn [rt_x x_lay x_lex st_x tl app map]. pose proof (ok_lay _ _ Hs) as H. cbn [st_x x_lay x_lex app map] in H. injection H as H. rewrite H. reflexivity.
  - cbn [rt_x x_lay st_x tl app]. pose proof (ok_hws _ _ Hs) as H. cbn [st_x x_lay app] in H. inversion H; subst. constructor; [exact hws_nil|]. constructor; [exact hws_sp|assumption].
  - intros rest Hr. cbn [rt_x x_lay st_x tl app]. pose proof (ok_sep _ _ Hs rest Hr) as H. cbn [st_x x_lay app] in H.
    cbn [sep_ok needs_end kwRO kwS] in H |- *. destruct H as [_ H]. split; [left; discriminate|]. split; [left; discriminate|exact H].
  - intros t. pose proof (ok_render _ _ Hs t) as H. cbn [st_x x_lay app st_item it_text] in H.
    cbn [rt_x x_lay st_x tl app rt_item it_text]. cbn [render text_of kwS app] in H. cbn [render text_of kwRO kwS app]. rewrite H.
    unfold tro_text, sp. cbn [app]. reflexivity.
Qed.
