(* Scratch prototype: faithful model of tokenize.go + token_tree.go (ASCII inputs). *)
From Coq Require Import List NArith Bool Arith.
Import ListNotations.

Definition byte := N.
Definition bytes := list byte.

(* ---------- bufio.Reader as the tokenizer sees it ---------- *)
Record bufio := { rest : bytes; lastByte : option byte; lastRune : option nat; failing : bool }.
Inductive rerr := REOF | RIO.

Definition read_byte (b : bufio) : (byte + rerr) * bufio :=
  match rest b with
  | c :: r => (inl c, {| rest := r; lastByte := Some c; lastRune := None; failing := failing b |})
  | [] => (inr (if failing b then RIO else REOF),
           {| rest := []; lastByte := lastByte b; lastRune := None; failing := failing b |})
  end.
(* None = UnreadByte returned an error (the tokenizer panics on it) *)
Definition unread_byte (b : bufio) : option bufio :=
  match lastByte b with
  | None => None
  | Some c => Some {| rest := c :: rest b; lastByte := None; lastRune := None; failing := failing b |}
  end.
Definition read_rune (b : bufio) : (byte + rerr) * bufio :=
  match rest b with
  | c :: r => (inl c, {| rest := r; lastByte := Some c; lastRune := Some 1; failing := failing b |})
  | [] => (inr (if failing b then RIO else REOF),
           {| rest := []; lastByte := lastByte b; lastRune := None; failing := failing b |})
  end.
Definition unread_rune (b : bufio) : bufio :=
  match lastRune b, lastByte b with
  | Some _, Some c => {| rest := c :: rest b; lastByte := None; lastRune := None; failing := failing b |}
  | _, _ => b
  end.
Fixpoint split_nl (l : bytes) (acc : bytes) : bytes * option bytes :=
  match l with
  | [] => (rev acc, None)
  | c :: r => if N.eqb c 10 then (rev (c :: acc), Some r) else split_nl r (c :: acc)
  end.
Definition last_opt (l : bytes) (d : option byte) : option byte :=
  match rev l with [] => d | c :: _ => Some c end.
(* ReadBytes('\n'): data, error?, state *)
Definition read_bytes_nl (b : bufio) : bytes * option rerr * bufio :=
  match split_nl (rest b) [] with
  | (line, Some r) => (line, None, {| rest := r; lastByte := last_opt line (lastByte b); lastRune := None; failing := failing b |})
  | (line, None) => (line, Some (if failing b then RIO else REOF),
                     {| rest := []; lastByte := last_opt line (lastByte b);
                        lastRune := match line with [] => lastRune b | _ => None end; failing := failing b |})
  end.

(* ---------- tokens ---------- *)
Inductive ekind := KEOF | KUEOF | KIO | KOther.
Record token := { kind : N; concrete : bytes }.
Definition tok0 := {| kind := 0; concrete := [] |}.

Record tstate := { buf : bufio; errs : list ekind }.
Definition add_err (s : tstate) (e : ekind) := {| buf := buf s; errs := errs s ++ [e] |}.
Definition with_buf (s : tstate) (b : bufio) := {| buf := b; errs := errs s |}.

Inductive res (A : Type) := R (a : A) (s : tstate) | RPanic.
Arguments R {A}. Arguments RPanic {A}.

Definition is_digit (c : byte) := (48 <=? c)%N && (c <=? 57)%N.
Definition is_hexl (c : byte) := ((97 <=? c)%N && (c <=? 102)%N) || ((65 <=? c)%N && (c <=? 70)%N).
Definition is_letter (c : byte) := ((97 <=? c)%N && (c <=? 122)%N) || ((65 <=? c)%N && (c <=? 90)%N).

Definition tr_read_byte (s : tstate) : (byte + rerr) * tstate :=
  let '(r, b) := read_byte (buf s) in (r, with_buf s b).
Definition tr_unread_byte (s : tstate) : option tstate :=
  match unread_byte (buf s) with Some b => Some (with_buf s b) | None => None end.

(* kinds (token.go iota order) *)
Definition kIdent := 1%N. Definition kInt := 2%N. Definition kFloat := 3%N. Definition kString := 4%N.
Definition kOpenSq := 22%N. Definition kCloseSq := 23%N. Definition kOpenPar := 24%N. Definition kClosePar := 25%N.
Definition kOpenCu := 26%N. Definition kCloseCu := 27%N. Definition kSemi := 28%N. Definition kComma := 29%N.
Definition kEquals := 30%N. Definition kArrow := 31%N. Definition kLineC := 32%N. Definition kBlockC := 33%N.
Definition kVBar := 34%N. Definition kAmp := 35%N. Definition kDCL := 36%N. Definition kDCR := 37%N.
Definition kColon := 38%N. Definition kNewline := 39%N. Definition kNegInf := 16%N.

Definition keyword (c : bytes) : N :=
  let eqb := fun (a b : bytes) => if list_eq_dec N.eq_dec a b then true else false in
  let s := fun (l : list N) => l in
  if eqb c (s [114;101;97;100;111;110;108;121]%N) then 5 (* readonly *)
  else if eqb c (s [115;116;114;117;99;116]%N) then 6 (* struct *)
  else if eqb c (s [109;101;115;115;97;103;101]%N) then 7 (* message *)
  else if eqb c (s [101;110;117;109]%N) then 8 (* enum *)
  else if eqb c (s [100;101;112;114;101;99;97;116;101;100]%N) then 9 (* deprecated *)
  else if eqb c (s [111;112;99;111;100;101]%N) then 10 (* opcode *)
  else if eqb c (s [109;97;112]%N) then 11 (* map *)
  else if eqb c (s [97;114;114;97;121]%N) then 12 (* array *)
  else if eqb c (s [117;110;105;111;110]%N) then 13 (* union *)
  else if eqb c (s [99;111;110;115;116]%N) then 14 (* const *)
  else if eqb c (s [105;110;102]%N) then 15 (* inf *)
  else if eqb c (s [110;97;110]%N) then 17 (* nan *)
  else if eqb c (s [116;114;117;101]%N) then 18 (* true *)
  else if eqb c (s [102;97;108;115;101]%N) then 19 (* false *)
  else if eqb c (s [105;109;112;111;114;116]%N) then 20 (* import *)
  else if eqb c (s [102;108;97;103;115]%N) then 21 (* flags *)
  else kIdent.

(* ---------- complex builders; fuel = remaining bytes + 1 ---------- *)
(* numberToken; returns the token (find reports ok=true regardless) *)
Fixpoint number_loop (g : nat) (s : tstate) (conc : bytes) (k : N) (second hex dec inval : bool) : res token :=
  match g with
  | O => R tok0 s
  | S g' =>
    match tr_read_byte s with
    | (inr REOF, s1) => if inval then R tok0 (add_err s1 KUEOF) else R {| kind := k; concrete := conc |} s1
    | (inr RIO, s1) => R tok0 (add_err s1 KIO)
    | (inl b, s1) =>
        if second && N.eqb b 120 then number_loop g' s1 (conc ++ [b]) k false true dec true
        else if N.eqb b 46 then
          if dec then R tok0 (add_err s1 KOther)
          else number_loop g' s1 (conc ++ [b]) kFloat false hex true true
        else if is_digit b then number_loop g' s1 (conc ++ [b]) k false hex dec false
        else if hex && is_hexl b then number_loop g' s1 (conc ++ [b]) k false hex dec false
        else if N.eqb b 101 then number_loop g' s1 (conc ++ [b]) k false hex dec true
        else if inval then R {| kind := k; concrete := conc ++ [0%N] |} (add_err s1 KOther)
        else match tr_unread_byte s1 with
             | Some s2 => R {| kind := k; concrete := conc |} s2
             | None => RPanic
             end
    end
  end.

Definition line_comment (s : tstate) (conc : bytes) : res token :=
  let '(line, e, b) := read_bytes_nl (buf s) in
  match e with
  | Some RIO => R tok0 (add_err (with_buf s b) KIO)
  | _ => R {| kind := kLineC; concrete := conc ++ line |} (with_buf s b)
  end.

Fixpoint skip_ws (g : nat) (s : tstate) : res unit :=
  match g with
  | O => R tt s
  | S g' =>
    match tr_read_byte s with
    | (inl b, s1) =>
        if N.eqb b 10 || N.eqb b 32 || N.eqb b 13 then skip_ws g' s1
        else match tr_unread_byte s1 with Some s2 => R tt s2 | None => RPanic end
    | (inr _, s1) =>  (* error ignored, b = 0, falls to unreadByte *)
        match tr_unread_byte s1 with Some s2 => R tt s2 | None => RPanic end
    end
  end.

Fixpoint block_comment (g : nat) (s : tstate) (conc : bytes) (lastb : byte) : res token :=
  match g with
  | O => R tok0 s
  | S g' =>
    match tr_read_byte s with
    | (inr REOF, s1) => R tok0 (add_err s1 KUEOF)
    | (inr RIO, s1) => R tok0 (add_err s1 KIO)
    | (inl b, s1) =>
        if N.eqb lastb 42 && N.eqb b 47 then
          match skip_ws (S (length (rest (buf s1)))) s1 with
          | R _ s2 => R {| kind := kBlockC; concrete := conc ++ [b] |} s2
          | RPanic => RPanic
          end
        else block_comment g' s1 (conc ++ [b]) b
    end
  end.

Fixpoint string_lit (g : nat) (s : tstate) (conc : bytes) (esc : bool) : res token :=
  match g with
  | O => R tok0 s
  | S g' =>
    match tr_read_byte s with
    | (inr REOF, s1) => R tok0 (add_err s1 KUEOF)
    | (inr RIO, s1) => R tok0 (add_err s1 KIO)
    | (inl b, s1) =>
        if N.eqb b 34 && negb esc then R {| kind := kString; concrete := conc ++ [b] |} s1
        else string_lit g' s1 (conc ++ [b]) (N.eqb b 92 && negb esc)
    end
  end.

(* ---------- the token tree ---------- *)
Inductive node := NRoot | NMinus | NMinusI | NMinusIN | NGt | NLt | NSlash.
Inductive step := Term (k : N) | Num | Str | LineC | BlockC | Go (n : node) | NoSucc.
Definition succ (n : node) (b : byte) : step :=
  match n with
  | NRoot =>
      if N.eqb b 61 then Term kEquals else if N.eqb b 91 then Term kOpenSq else if N.eqb b 93 then Term kCloseSq
      else if N.eqb b 123 then Term kOpenCu else if N.eqb b 125 then Term kCloseCu
      else if N.eqb b 40 then Term kOpenPar else if N.eqb b 41 then Term kClosePar
      else if N.eqb b 44 then Term kComma else if N.eqb b 59 then Term kSemi else if N.eqb b 10 then Term kNewline
      else if N.eqb b 124 then Term kVBar else if N.eqb b 38 then Term kAmp else if N.eqb b 58 then Term kColon
      else if N.eqb b 45 then Go NMinus else if N.eqb b 62 then Go NGt else if N.eqb b 60 then Go NLt
      else if N.eqb b 34 then Str else if N.eqb b 47 then Go NSlash
      else if is_digit b then Num else NoSucc
  | NMinus => if N.eqb b 62 then Term kArrow else if N.eqb b 105 then Go NMinusI else if is_digit b then Num else NoSucc
  | NMinusI => if N.eqb b 110 then Go NMinusIN else NoSucc
  | NMinusIN => if N.eqb b 102 then Term kNegInf else NoSucc
  | NGt => if N.eqb b 62 then Term kDCR else NoSucc
  | NLt => if N.eqb b 60 then Term kDCL else NoSucc
  | NSlash => if N.eqb b 47 then LineC else if N.eqb b 42 then BlockC else NoSucc
  end.
(* greedy correction: first of the sorted valid next bytes *)
Definition first_valid (n : node) : byte :=
  match n with NRoot => 0 | NMinus => 62 | NMinusI => 110 | NMinusIN => 102 | NGt => 62 | NLt => 60 | NSlash => 42 end%N.
Definition skips (n : node) (b : byte) : bool :=
  match n with NRoot => N.eqb b 32 || N.eqb b 9 || N.eqb b 13 | _ => false end.

(* find: Some tok = (tok, true); None = (token{}, false) *)
Fixpoint find (g : nat) (n : node) (s : tstate) (conc : bytes) : res (option token) :=
  match g with
  | O => R None s
  | S g' =>
    match tr_read_byte s with
    | (inr REOF, s1) => R None (add_err s1 (match conc with [] => KEOF | _ => KUEOF end))
    | (inr RIO, s1) => R None (add_err s1 KIO)
    | (inl b, s1) =>
        if skips n b then find g' n s1 conc else
        let dispatch := fun (b : byte) (s1 : tstate) =>
          let conc' := conc ++ [b] in
          let fuel := S (length (rest (buf s1))) in
          match succ n b with
          | Term k => R (Some {| kind := k; concrete := conc' |}) s1
          | Num => match number_loop fuel s1 conc' kInt true false false false with
                   | R t s2 => R (Some t) s2 | RPanic => RPanic end
          | Str => match string_lit fuel s1 conc' false with R t s2 => R (Some t) s2 | RPanic => RPanic end
          | LineC => match line_comment s1 conc' with R t s2 => R (Some t) s2 | RPanic => RPanic end
          | BlockC => match block_comment fuel s1 conc' 0%N with R t s2 => R (Some t) s2 | RPanic => RPanic end
          | Go n' => find g' n' s1 conc'
          | NoSucc => R None s1
          end in
        match succ n b with
        | NoSucc =>
            match conc with
            | [] => R None s1
            | _ => dispatch (first_valid n) (add_err s1 KOther)
            end
        | _ => dispatch b s1
        end
    end
  end.

Fixpoint next_ident (g : nat) (s : tstate) (conc : bytes) : res (option token) :=
  match g with
  | O => R None s
  | S g' =>
    match read_rune (buf s) with
    | (inr REOF, b1) => R (Some {| kind := keyword conc; concrete := conc |}) (with_buf s b1)
    | (inr RIO, b1) => R None (add_err (with_buf s b1) KIO)
    | (inl c, b1) =>
        if is_letter c || is_digit c || N.eqb c 95 then next_ident g' (with_buf s b1) (conc ++ [c])
        else R (Some {| kind := keyword conc; concrete := conc |}) (with_buf s (unread_rune b1))
    end
  end.

Fixpoint last_err (l : list ekind) : option ekind :=
  match l with [] => None | [e] => Some e | _ :: r => last_err r end.

(* one Next() call with keepNextToken = false: Some tok = true *)
Definition next (s : tstate) : res (option token) :=
  let fuel := S (S (length (rest (buf s)))) in
  match find fuel NRoot s [] with
  | RPanic => RPanic
  | R ot s1 =>
      match last_err (errs s1) with
      | Some KEOF => R None {| buf := buf s1; errs := removelast (errs s1) |}
      | Some KUEOF => R None s1
      | _ =>
          match ot with
          | Some t => R (Some t) s1
          | None =>
              if Nat.ltb (length (errs s)) (length (errs s1)) then R None s1 else   (* the read itself failed *)
              match tr_unread_byte s1 with
              | None => RPanic
              | Some s2 =>
                  match read_rune (buf s2) with
                  | (inr REOF, b3) => R None (add_err (with_buf s2 b3) KUEOF)
                  | (inr RIO, b3) => R None (add_err (with_buf s2 b3) KIO)
                  | (inl c, b3) =>
                      if is_letter c then next_ident fuel (with_buf s2 b3) [c]
                      else R None (add_err (with_buf s2 b3) KOther)
                  end
              end
          end
      end
  end.

Inductive nres := NT (t : token) (e : list ekind) | NF (e : list ekind) | NP.
Fixpoint next_results (n : nat) (s : tstate) : list nres :=
  match n with
  | O => []
  | S n' => match next s with
            | RPanic => [NP]
            | R (Some t) s1 => NT t (errs s1) :: next_results n' s1
            | R None s1 => NF (errs s1) :: next_results n' s1
            end
  end.

(* how many results beyond one per input byte are precomputed: front/ParseEnd.v proves that the parser never asks for more *)
Definition margin : nat := 120.
Arguments margin : simpl never.
Lemma margin_ge : 3 <= margin.
Proof. apply Nat.leb_le. reflexivity. Qed.
Definition run (input : bytes) (fails : bool) : list nres :=
  next_results (length input + margin)
    {| buf := {| rest := input; lastByte := None; lastRune := None; failing := fails |}; errs := [] |}.

