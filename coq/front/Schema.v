(* Schemas of structs, readonly structs, messages, enums and unions - field types of any shape (front/TyInv.v) - as sequences of items of
   the framework of GenInv.v: C11, C16 and C17 for every such schema and every layout. *)
From Coq Require Import List NArith ZArith Bool Arith Lia.
Require Import Bebop.front.Tok Bebop.front.Parse Bebop.front.Fmt Bebop.front.TokInv Bebop.front.LexInv Bebop.front.ParseInv Bebop.front.FmtInv Bebop.front.MsgInv.
Require Import Bebop.front.GenInv Bebop.front.Items Bebop.front.TyInv Bebop.front.TyMsg Bebop.front.TyItems Bebop.front.TyUnion Bebop.front.TyUnionItem Bebop.front.TyOpcode Bebop.front.TyEnum Bebop.front.TyDep Bebop.front.TyDoc Bebop.front.TyDec Bebop.front.TyImport Bebop.front.TyFDoc Bebop.front.TyFDocM Bebop.front.TyEDoc Bebop.front.TyFDec Bebop.front.TyFEol Bebop.front.TyFVar Bebop.front.TyUDoc.
Import ListNotations.

(* a definition that may carry doc comment lines and opcode lines in front of it, in any number and order *)
Inductive ddef :=
| BStruct (nm : ident) (fl : list tfdef)
| BRoStruct (nm : ident) (fl : list tfdef)
| BMessage (nm : ident) (fl : list tmfdef)
| BDMessage (nm : ident) (fl : list ldfield)
| BUnion (nm : ident) (bl : list lub)
| BEnum (nm tname : ident) (uns : bool) (bits : N) (ml : list edef)
| BUEnum (nm : ident) (ml : list edef)
| BFStruct (nm : ident) (fl : list cfdef)            (* fields with their own comment lines / tags / deprecations *)
| BFMessage (nm : ident) (fl : list cmfdef)
| BFEnum (nm tname : ident) (uns : bool) (bits : N) (ml : list cedef)
| BFUnion (nm : ident) (bl : list club)
| BFRoStruct (nm : ident) (fl : list cfdef)
| BFUEnum (nm : ident) (ml : list cedef).
Definition ddef_ok (b : ddef) : Prop :=
  match b with
  | BStruct nm fl | BRoStruct nm fl => ident_ok nm /\ Forall tfdef_ok fl
  | BMessage nm fl => ident_ok nm /\ Forall tmfdef_ok fl /\ tmfs_ok [] (map btm fl)
  | BDMessage nm fl => ident_ok nm /\ Forall ldfield_ok fl /\ dmfs_ok [] (map bdf fl)
  | BUnion nm bl => ident_ok nm /\ Forall lub_ok bl /\ ubs_ok [] (map bub bl) /\ bl <> []
  | BEnum nm tname uns bits ml => ident_ok nm /\ ident_ok tname /\ base_ok (ibytes tname) uns bits /\
                                  Forall (fun m => ident_ok (fst m) /\ idx_ok (snd m)) ml /\ tems_ok uns bits (map bem ml)
  | BUEnum nm ml => ident_ok nm /\ Forall (fun m => ident_ok (fst m) /\ idx_ok (snd m)) ml /\ ems_ok (map bem ml)
  | BFStruct nm fl => ident_ok nm /\ Forall cfdef_ok fl
  | BFMessage nm fl => ident_ok nm /\ Forall cmfdef_ok fl /\ cmfs_ok [] (map bcm fl)
  | BFEnum nm tname uns bits ml => ident_ok nm /\ ident_ok tname /\ base_ok (ibytes tname) uns bits /\ Forall cedef_ok ml /\ Forall (cmember_ok uns bits) (map bce ml)
  | BFUnion nm bl => ident_ok nm /\ Forall club_ok bl /\ cubs_ok [] (map bcub bl) /\ bl <> []
  | BFRoStruct nm fl => ident_ok nm /\ Forall cfdef_ok fl
  | BFUEnum nm ml => ident_ok nm /\ Forall cedef_ok ml /\ Forall (cmember_ok true 32%N) (map bce ml)
  end.
Definition ddef_base (b : ddef) : gbase :=
  match b with
  | BStruct nm fl => b_struct nm fl | BRoStruct nm fl => b_rostruct nm fl | BMessage nm fl => b_message nm fl
  | BDMessage nm fl => b_dmessage nm fl | BUnion nm bl => b_union nm bl | BEnum nm tname uns bits ml => b_enum nm tname uns ml
  | BUEnum nm ml => b_uenum nm ml
  | BFStruct nm fl => b_cfstruct nm fl | BFMessage nm fl => b_cmmessage nm fl | BFEnum nm tname uns bits ml => b_cenum nm tname uns ml
  | BFUnion nm bl => b_cunion nm bl
  | BFRoStruct nm fl => b_cfrostruct nm fl | BFUEnum nm ml => b_cuenum nm ml
  end.
Definition ddef_x (b : ddef) : xitem :=
  match b with
  | BStruct nm fl => st_x nm fl | BRoStruct nm fl => rt_x nm fl | BMessage nm fl => mt_x nm fl
  | BDMessage nm fl => md_x nm fl | BUnion nm bl => u_x nm bl | BEnum nm tname uns bits ml => te_x nm tname ml
  | BUEnum nm ml => e_x nm ml
  | BFStruct nm fl => cf_x nm fl | BFMessage nm fl => cmf_x nm fl | BFEnum nm tname uns bits ml => ce_x nm tname ml
  | BFUnion nm bl => cu_x nm bl
  | BFRoStruct nm fl => cfr_x nm fl | BFUEnum nm ml => cue_x nm ml
  end.
Lemma ddef_base_ok b : ddef_ok b -> gbase_ok (ddef_base b) (ddef_x b).
Proof.
  destruct b as [nm fl|nm fl|nm fl|nm fl|nm bl|nm tname uns bits ml|nm ml|nm fl|nm fl|nm tname uns bits ml|nm bl|nm fl|nm ml]; cbn [ddef_ok ddef_base ddef_x].
  - intros [A B]. now apply b_struct_ok.
  - intros [A B]. now apply b_rostruct_ok.
  - intros (A & B & C). now apply b_message_ok.
  - intros (A & B & C). now apply b_dmessage_ok.
  - intros (A & B & C & D). now apply b_union_ok.
  - intros (A & B & C & D & E). now apply (b_enum_ok nm tname uns bits ml).
  - intros (A & B & C). now apply b_uenum_ok.
  - intros [A B]. now apply b_cfstruct_ok.
  - intros (A & B & C). now apply b_cmmessage_ok.
  - intros (A & B & C & D & E). now apply (b_cenum_ok nm tname uns bits ml).
  - intros (A & B & C & D). now apply b_cunion_ok.
  - intros [A B]. now apply b_cfrostruct_ok.
  - intros (A & B & C). now apply b_cuenum_ok.
Qed.

Inductive sdefn :=
| SStruct (nm : ident) (fl : list tfdef) (blank : nat)
| SReadonly (nm : ident) (fl : list tfdef) (blank : nat)
| SMessage (nm : ident) (fl : list tmfdef) (blank : nat)
| SEnum (nm : ident) (ml : list edef) (blank : nat)
| SUnion (nm : ident) (bl : list lub) (blank : nat)
| SOpStruct (op : lol) (nm : ident) (fl : list tfdef) (blank : nat)
| SOpMessage (op : lol) (nm : ident) (fl : list tmfdef) (blank : nat)
| STEnum (nm tname : ident) (uns : bool) (bits : N) (ml : list edef) (blank : nat)
| SDMessage (nm : ident) (fl : list ldfield) (blank : nat)
| SDocStruct (cs : list bytes) (nm : ident) (fl : list tfdef) (blank : nat)
| SDocMessage (cs : list bytes) (nm : ident) (fl : list tmfdef) (blank : nat)
| SDec (P : list lprefix) (b : ddef) (blank : nat)
| SImport (path : bytes) (blank : nat)
| SFDocStruct (nm : ident) (fl : list cfdef) (blank : nat)    (* a struct whose fields may carry `//` doc comment lines (and tags) *)
| SFDocMessage (nm : ident) (fl : list cmfdef) (blank : nat)  (* a message whose fields may carry such lines and then a [deprecated(..)] line *)
| SFDocEnum (nm tname : ident) (uns : bool) (bits : N) (ml : list cedef) (blank : nat) (* a typed enum whose members may carry such lines *)
| SEolStruct (nm : ident) (fl : list efdef) (blank : nat)      (* a struct whose fields may be followed, on their line, by a `//` comment *)
| SFDocUEnum (nm : ident) (ml : list cedef) (blank : nat)      (* an enum without a declared base type whose members carry comment lines / deprecations *)
| SFDocRoStruct (nm : ident) (fl : list cfdef) (blank : nat)   (* a readonly struct whose fields do *)
| SFDocUnion (nm : ident) (bl : list club) (blank : nat).      (* a union whose members carry comment lines / tags / deprecations *)

Definition sdefn_ok (d : sdefn) : Prop :=
  match d with
  | SStruct nm fl _ | SReadonly nm fl _ => ident_ok nm /\ Forall tfdef_ok fl
  | SMessage nm fl _ => ident_ok nm /\ Forall tmfdef_ok fl /\ tmfs_ok [] (map btm fl)
  | SEnum nm ml _ => ident_ok nm /\ Forall (fun m => ident_ok (fst m) /\ idx_ok (snd m)) ml /\ ems_ok (map bem ml)
  | SUnion nm bl _ => ident_ok nm /\ Forall lub_ok bl /\ ubs_ok [] (map bub bl) /\ bl <> []
  | SOpStruct op nm fl _ => lol_ok op /\ ident_ok nm /\ Forall tfdef_ok fl
  | SOpMessage op nm fl _ => lol_ok op /\ ident_ok nm /\ Forall tmfdef_ok fl /\ tmfs_ok [] (map btm fl)
  | STEnum nm tname uns bits ml _ => ident_ok nm /\ ident_ok tname /\ base_ok (ibytes tname) uns bits /\
                                     Forall (fun m => ident_ok (fst m) /\ idx_ok (snd m)) ml /\ tems_ok uns bits (map bem ml)
  | SDMessage nm fl _ => ident_ok nm /\ Forall ldfield_ok fl /\ dmfs_ok [] (map bdf fl)
  | SDocStruct cs nm fl _ => cs <> [] /\ Forall cbody_ok cs /\ ident_ok nm /\ Forall tfdef_ok fl
  | SDocMessage cs nm fl _ => cs <> [] /\ Forall cbody_ok cs /\ ident_ok nm /\ Forall tmfdef_ok fl /\ tmfs_ok [] (map btm fl)
  | SDec P b _ => Forall lprefix_ok P /\ ddef_ok b /\ (gb_opc0 (ddef_base b) = true -> popc (map bp P) 0%N = 0%N)
  | SImport path _ => Forall (fun x => dplain x = true) path
  | SFDocStruct nm fl _ => ident_ok nm /\ Forall cfdef_ok fl
  | SFDocMessage nm fl _ => ident_ok nm /\ Forall cmfdef_ok fl /\ cmfs_ok [] (map bcm fl)
  | SFDocEnum nm tname uns bits ml _ => ident_ok nm /\ ident_ok tname /\ base_ok (ibytes tname) uns bits /\ Forall cedef_ok ml /\ Forall (cmember_ok uns bits) (map bce ml)
  | SEolStruct nm fl _ => ident_ok nm /\ Forall efdef_ok fl
  | SFDocUEnum nm ml _ => ident_ok nm /\ Forall cedef_ok ml /\ Forall (cmember_ok true 32%N) (map bce ml)
  | SFDocRoStruct nm fl _ => ident_ok nm /\ Forall cfdef_ok fl
  | SFDocUnion nm bl _ => ident_ok nm /\ Forall club_ok bl /\ cubs_ok [] (map bcub bl) /\ bl <> []
  end.
Definition xel_of (d : sdefn) : xel :=
  match d with
  | SStruct nm fl k => (st_item nm fl, st_x nm fl, k)
  | SReadonly nm fl k => (rt_item nm fl, rt_x nm fl, k)
  | SMessage nm fl k => (mt_item nm fl, mt_x nm fl, k)
  | SEnum nm ml k => (e_item nm ml, e_x nm ml, k)
  | SUnion nm bl k => (u_item nm bl, u_x nm bl, k)
  | SOpStruct op nm fl k => (os_item op nm fl, os_x op nm fl, k)
  | SOpMessage op nm fl k => (om_item op nm fl, om_x op nm fl, k)
  | STEnum nm tname uns bits ml k => (te_item nm tname uns ml, te_x nm tname ml, k)
  | SDMessage nm fl k => (md_item nm fl, md_x nm fl, k)
  | SDocStruct cs nm fl k => (cs_item cs nm fl, cs_x cs nm fl, k)
  | SDocMessage cs nm fl k => (cm_item cs nm fl, cm_x cs nm fl, k)
  | SDec P b k => (dec_item (map bp P) (ddef_base b), dec_x P (ddef_x b), k)
  | SImport path k => (i_item path, i_x path, k)
  | SFDocStruct nm fl k => (cf_item nm fl, cf_x nm fl, k)
  | SFDocMessage nm fl k => (cmf_item nm fl, cmf_x nm fl, k)
  | SFDocEnum nm tname uns bits ml k => (ce_item nm tname uns ml, ce_x nm tname ml, k)
  | SEolStruct nm fl k => (ef_item nm fl, ef_x nm fl, k)
  | SFDocUEnum nm ml k => (cue_item nm ml, cue_x nm ml, k)
  | SFDocRoStruct nm fl k => (cfr_item nm fl, cfr_x nm fl, k)
  | SFDocUnion nm bl k => (cu_item nm bl, cu_x nm bl, k)
  end.
Lemma xel_of_ok d : sdefn_ok d -> xel_ok (xel_of d).
Proof.
  destruct d as [nm fl k|nm fl k|nm fl k|nm ml k|nm bl k|op nm fl k|op nm fl k|nm tname uns bits ml k|nm fl k|cs nm fl k|cs nm fl k|P b k|path k|nm fl k|nm fl k|nm tname uns bits ml k|nm fl k|nm ml k|nm fl k|nm bl k]; cbn [sdefn_ok xel_of xel_ok].
  - intros [A B]. now apply st_item_ok.
  - intros [A B]. now apply rt_item_ok.
  - intros (A & B & C). now apply mt_item_ok.
  - intros (A & B & C). now apply e_item_ok.
  - intros (A & B & C & D). now apply u_item_ok.
  - intros (A & B & C). now apply os_item_ok.
  - intros (A & B & C & D). now apply om_item_ok.
  - intros (A & B & C & D & E). now apply (te_item_ok nm tname uns bits ml).
  - intros (A & B & C). now apply md_item_ok.
  - intros (A & B & C & D). now apply cs_item_ok.
  - intros (A & B & C & D & E). now apply cm_item_ok.
  - intros (A & B & C). apply dec_item_ok; [now apply ddef_base_ok|exact A|exact C].
  - intros A. now apply i_item_ok.
  - intros [A B]. now apply cf_item_ok.
  - intros (A & B & C). now apply cmf_item_ok.
  - intros (A & B & C & D & E). now apply (ce_item_ok nm tname uns bits ml).
  - intros [A B]. now apply ef_item_ok.
  - intros (A & B & C). now apply cue_item_ok.
  - intros [A B]. now apply cfr_item_ok.
  - intros (A & B & C & D). now apply cu_item_ok.
Qed.

(* the lexemes of the text, the File it states, its canonical text *)
Definition schema_lexemes (dl : list sdefn) : list lexeme := xlex (map xel_of dl).
Definition schema_file (dl : list sdefn) : file := gfile (map xe_el (map xel_of dl)) file0.
Definition schema_canon (dl : list sdefn) : bytes := gctext (map xe_el (map xel_of dl)).

Theorem schema_laws : forall dl lay tail,
  Forall sdefn_ok dl -> map snd lay = schema_lexemes dl -> Forall (fun p => hws (fst p)) lay -> sep_ok lay -> hws tail ->
  exists y, (exists s, format (render lay tail) = POk y s) /\ y = schema_canon dl /\
            (exists s, format y = POk y s) /\
            (exists s, read_file y false = POk (schema_file dl) s) /\
            (exists s, read_file (render lay tail) false = POk (schema_file dl) s).
Proof.
  intros dl lay tail Hok. apply gen_laws. clear -Hok. induction Hok as [|d dl H _ IH]; cbn [map]; constructor; [now apply xel_of_ok|exact IH].
Qed.

(* what the File is, written out: each kind of definition in source order *)
(* the comment and the opcode the prefix lines of a decorated definition give it *)
Definition dec_cmt (P : list lprefix) : bytes := join_nl (pcm (map bp P) []).
Definition dec_opc (P : list lprefix) : N := popc (map bp P) 0%N.
Definition structs_of (d : sdefn) : list struct_ :=
  match d with
  | SStruct nm fl _ => [tstruct_of (ibytes nm) (map btf fl)]
  | SReadonly nm fl _ => [tstruct_of_ro (ibytes nm) (map btf fl)]
  | SOpStruct op nm fl _ => [tstruct_of_opc (ol_val (bol op)) (ibytes nm) (map btf fl)]
  | SDocStruct cs nm fl _ => [tstruct_of_cm (join_nl cs) (ibytes nm) (map btf fl)]
  | SDec P (BStruct nm fl) _ => [gstruct_of (dec_cmt P) (dec_opc P) false (ibytes nm) (map btf fl)]
  | SDec P (BRoStruct nm fl) _ => [gstruct_of (dec_cmt P) (dec_opc P) true (ibytes nm) (map btf fl)]
  | SFDocStruct nm fl _ => [cstruct_of (ibytes nm) (map bcf fl)]
  | SDec P (BFStruct nm fl) _ => [gcstruct_of (dec_cmt P) (dec_opc P) (ibytes nm) (map bcf fl)]
  | SDec P (BFRoStruct nm fl) _ => [gcrostruct_of (dec_cmt P) (dec_opc P) (ibytes nm) (map bcf fl)]
  | SEolStruct nm fl _ => [estruct_of (ibytes nm) (map bef fl)]
  | SFDocRoStruct nm fl _ => [cstruct_of_ro (ibytes nm) (map bcf fl)]
  | _ => []
  end.
Definition messages_of (d : sdefn) : list message :=
  match d with
  | SMessage nm fl _ => [tmessage_of (ibytes nm) (map btm fl)]
  | SOpMessage op nm fl _ => [tmessage_of_opc (ol_val (bol op)) (ibytes nm) (map btm fl)]
  | SDMessage nm fl _ => [dmessage_of (ibytes nm) (map bdf fl)]
  | SDocMessage cs nm fl _ => [tmessage_of_cm (join_nl cs) (ibytes nm) (map btm fl)]
  | SDec P (BMessage nm fl) _ => [gmessage_of (dec_cmt P) (dec_opc P) (ibytes nm) (map btm fl)]
  | SDec P (BDMessage nm fl) _ => [gdmessage_of (dec_cmt P) (dec_opc P) (ibytes nm) (map bdf fl)]
  | SFDocMessage nm fl _ => [cmessage_of (ibytes nm) (map bcm fl)]
  | SDec P (BFMessage nm fl) _ => [gcmessage_of (dec_cmt P) (dec_opc P) (ibytes nm) (map bcm fl)]
  | _ => []
  end.
Definition enums_of (d : sdefn) : list enum_ :=
  match d with
  | SEnum nm ml _ => [enum_of (ibytes nm) (map bem ml)]
  | STEnum nm tname uns bits ml _ => [tenum_of (ibytes nm) (ibytes tname) uns (map bem ml)]
  | SDec P (BEnum nm tname uns bits ml) _ => [genum_of (dec_cmt P) (ibytes nm) (ibytes tname) uns (map bem ml)]
  | SDec P (BUEnum nm ml) _ => [guenum_of (dec_cmt P) (ibytes nm) (map bem ml)]
  | SFDocEnum nm tname uns bits ml _ => [cenum_of (ibytes nm) (ibytes tname) uns (map bce ml)]
  | SDec P (BFEnum nm tname uns bits ml) _ => [gcenum_of (dec_cmt P) (ibytes nm) (ibytes tname) uns (map bce ml)]
  | SDec P (BFUEnum nm ml) _ => [gcuenum_of (dec_cmt P) (ibytes nm) (map bce ml)]
  | SFDocUEnum nm ml _ => [cuenum_of (ibytes nm) (map bce ml)]
  | _ => []
  end.
Definition unions_of (d : sdefn) : list union_ :=
  match d with
  | SUnion nm bl _ => [union_of (ibytes nm) (map bub bl)]
  | SDec P (BUnion nm bl) _ => [gunion_of (dec_cmt P) (dec_opc P) (ibytes nm) (map bub bl)]
  | SFDocUnion nm bl _ => [cunion_of (ibytes nm) (map bcub bl)]
  | SDec P (BFUnion nm bl) _ => [gcunion_of (dec_cmt P) (dec_opc P) (ibytes nm) (map bcub bl)]
  | _ => []
  end.

Definition imports_of (d : sdefn) : list bytes := match d with SImport path _ => [path] | _ => [] end.

Lemma schema_file_spec dl :
  structs (schema_file dl) = flat_map structs_of dl /\
  messages (schema_file dl) = flat_map messages_of dl /\
  enums (schema_file dl) = flat_map enums_of dl /\
  unions (schema_file dl) = flat_map unions_of dl /\ consts (schema_file dl) = [] /\ imports (schema_file dl) = flat_map imports_of dl /\ gopackage (schema_file dl) = [].
Proof.
  unfold schema_file.
  assert (G : forall dl f,
    structs (gfile (map xe_el (map xel_of dl)) f) = structs f ++ flat_map structs_of dl /\
    messages (gfile (map xe_el (map xel_of dl)) f) = messages f ++ flat_map messages_of dl /\
    enums (gfile (map xe_el (map xel_of dl)) f) = enums f ++ flat_map enums_of dl /\
    unions (gfile (map xe_el (map xel_of dl)) f) = unions f ++ flat_map unions_of dl /\ consts (gfile (map xe_el (map xel_of dl)) f) = consts f /\
    imports (gfile (map xe_el (map xel_of dl)) f) = imports f ++ flat_map imports_of dl /\ gopackage (gfile (map xe_el (map xel_of dl)) f) = gopackage f).
  { clear. induction dl as [|d dl IH]; intros f; [cbn; rewrite !app_nil_r; repeat split|].
    cbn [map gfile fold_left flat_map]. destruct (IH (it_upd (fst (xe_el (xel_of d))) f)) as (A & B & C & D & E & F & G0).
    unfold gfile in *. rewrite A, B, C, D, E, F, G0.
    destruct d as [nm fl k|nm fl k|nm fl k|nm ml k|nm bl k|op nm fl k|op nm fl k|nm tname uns bits ml k|nm fl k|cs nm fl k|cs nm fl k|P [nm fl|nm fl|nm fl|nm fl|nm bl|nm tname uns bits ml|nm ml|nm fl|nm fl|nm tname uns bits ml|nm bl|nm fl|nm ml] k|path k|nm fl k|nm fl k|nm tname uns bits ml k|nm fl k|nm ml k|nm fl k|nm bl k]; cbn [xel_of xe_el fst snd b_cfrostruct b_cuenum b_cunion cu_item cue_item cfr_item ef_item b_cfstruct b_cmmessage b_cenum cf_item cmf_item ce_item st_item rt_item mt_item e_item u_item os_item om_item te_item md_item cs_item cm_item dec_item ddef_base b_struct b_rostruct b_message b_dmessage b_union b_enum b_uenum gb_upd i_item add_import imports_of it_upd add_struct add_message add_enum add_union structs messages enums unions consts imports gopackage app structs_of messages_of enums_of unions_of];
      rewrite <- ?app_assoc, ?app_nil_r; repeat split; reflexivity. }
  destruct (G dl file0) as (A & B & C & D & E & F & G0). cbn [file0 structs messages enums unions consts imports gopackage app] in *. repeat split; assumption.
Qed.
