(* Schemas of structs, readonly structs, messages, enums and unions - field types of any shape (front/TyInv.v) - as sequences of items of
   the framework of GenInv.v: C11, C16 and C17 for every such schema and every layout. *)
From Coq Require Import List NArith ZArith Bool Arith Lia.
Require Import Bebop.front.Tok Bebop.front.Parse Bebop.front.Fmt Bebop.front.TokInv Bebop.front.LexInv Bebop.front.ParseInv Bebop.front.FmtInv Bebop.front.MsgInv.
Require Import Bebop.front.GenInv Bebop.front.Items Bebop.front.TyInv Bebop.front.TyMsg Bebop.front.TyItems Bebop.front.TyUnion Bebop.front.TyUnionItem.
Import ListNotations.

Inductive sdefn :=
| SStruct (nm : ident) (fl : list tfdef) (blank : nat)
| SReadonly (nm : ident) (fl : list tfdef) (blank : nat)
| SMessage (nm : ident) (fl : list tmfdef) (blank : nat)
| SEnum (nm : ident) (ml : list edef) (blank : nat)
| SUnion (nm : ident) (bl : list lub) (blank : nat).

Definition sdefn_ok (d : sdefn) : Prop :=
  match d with
  | SStruct nm fl _ | SReadonly nm fl _ => ident_ok nm /\ Forall tfdef_ok fl
  | SMessage nm fl _ => ident_ok nm /\ Forall tmfdef_ok fl /\ tmfs_ok [] (map btm fl)
  | SEnum nm ml _ => ident_ok nm /\ Forall (fun m => ident_ok (fst m) /\ idx_ok (snd m)) ml /\ ems_ok (map bem ml)
  | SUnion nm bl _ => ident_ok nm /\ Forall lub_ok bl /\ ubs_ok [] (map bub bl) /\ bl <> []
  end.
Definition xel_of (d : sdefn) : xel :=
  match d with
  | SStruct nm fl k => (st_item nm fl, st_x nm fl, k)
  | SReadonly nm fl k => (rt_item nm fl, rt_x nm fl, k)
  | SMessage nm fl k => (mt_item nm fl, mt_x nm fl, k)
  | SEnum nm ml k => (e_item nm ml, e_x nm ml, k)
  | SUnion nm bl k => (u_item nm bl, u_x nm bl, k)
  end.
Lemma xel_of_ok d : sdefn_ok d -> xel_ok (xel_of d).
Proof.
  destruct d as [nm fl k|nm fl k|nm fl k|nm ml k|nm bl k]; cbn [sdefn_ok xel_of xel_ok].
  - intros [A B]. now apply st_item_ok.
  - intros [A B]. now apply rt_item_ok.
  - intros (A & B & C). now apply mt_item_ok.
  - intros (A & B & C). now apply e_item_ok.
  - intros (A & B & C & D). now apply u_item_ok.
Qed.

(* the lexemes of the text, the File it states, its canonical text *)
Definition schema_lexemes (dl : list sdefn) : list lexeme := xlex (map xel_of dl).
Definition schema_file (dl : list sdefn) : file := gfile (map xe_el (map xel_of dl)) file0.
Definition schema_canon (dl : list sdefn) : bytes := gctext (map xe_el (map xel_of dl)).

Theorem schema_laws : forall dl lay tail,
  Forall sdefn_ok dl -> map snd lay = schema_lexemes dl -> Forall (fun p => hws (fst p)) lay -> sep_ok lay -> hws tail ->
  exists y, (exists s, format (render lay tail) = POk y s) /\ y = schema_canon dl /\
            (exists s, format y = POk y s) /\
            (exists s, read_file y false = POk (schema_file dl) s) /\
            (exists s, read_file (render lay tail) false = POk (schema_file dl) s).
Proof.
  intros dl lay tail Hok. apply gen_laws. clear -Hok. induction Hok as [|d dl H _ IH]; cbn [map]; constructor; [now apply xel_of_ok|exact IH].
Qed.

(* what the File is, written out: each kind of definition in source order *)
Definition structs_of (d : sdefn) : list struct_ :=
  match d with
  | SStruct nm fl _ => [tstruct_of (ibytes nm) (map btf fl)]
  | SReadonly nm fl _ => [tstruct_of_ro (ibytes nm) (map btf fl)]
  | _ => []
  end.
Definition messages_of (d : sdefn) : list message := match d with SMessage nm fl _ => [tmessage_of (ibytes nm) (map btm fl)] | _ => [] end.
Definition enums_of (d : sdefn) : list enum_ := match d with SEnum nm ml _ => [enum_of (ibytes nm) (map bem ml)] | _ => [] end.
Definition unions_of (d : sdefn) : list union_ := match d with SUnion nm bl _ => [union_of (ibytes nm) (map bub bl)] | _ => [] end.

Lemma schema_file_spec dl :
  structs (schema_file dl) = flat_map structs_of dl /\
  messages (schema_file dl) = flat_map messages_of dl /\
  enums (schema_file dl) = flat_map enums_of dl /\
  unions (schema_file dl) = flat_map unions_of dl /\ consts (schema_file dl) = [] /\ imports (schema_file dl) = [] /\ gopackage (schema_file dl) = [].
Proof.
  unfold schema_file.
  assert (G : forall dl f,
    structs (gfile (map xe_el (map xel_of dl)) f) = structs f ++ flat_map structs_of dl /\
    messages (gfile (map xe_el (map xel_of dl)) f) = messages f ++ flat_map messages_of dl /\
    enums (gfile (map xe_el (map xel_of dl)) f) = enums f ++ flat_map enums_of dl /\
    unions (gfile (map xe_el (map xel_of dl)) f) = unions f ++ flat_map unions_of dl /\ consts (gfile (map xe_el (map xel_of dl)) f) = consts f /\
    imports (gfile (map xe_el (map xel_of dl)) f) = imports f /\ gopackage (gfile (map xe_el (map xel_of dl)) f) = gopackage f).
  { clear. induction dl as [|d dl IH]; intros f; [cbn; rewrite !app_nil_r; repeat split|].
    cbn [map gfile fold_left flat_map]. destruct (IH (it_upd (fst (xe_el (xel_of d))) f)) as (A & B & C & D & E & F & G0).
    unfold gfile in *. rewrite A, B, C, D, E, F, G0.
    destruct d as [nm fl k|nm fl k|nm fl k|nm ml k|nm bl k]; cbn [xel_of xe_el fst snd st_item rt_item mt_item e_item u_item it_upd add_struct add_message add_enum add_union structs messages enums unions consts imports gopackage app structs_of messages_of enums_of unions_of];
      rewrite <- ?app_assoc, ?app_nil_r; repeat split; reflexivity. }
  destruct (G dl file0) as (A & B & C & D & E & F & G0). cbn [file0 structs messages enums unions consts imports gopackage app] in *. repeat split; assumption.
Qed.
