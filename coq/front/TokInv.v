(* Scratch: tokenizer inversion lemmas on the faithful model Tok.v *)
From Coq Require Import List NArith Bool Arith Lia.
Require Import Bebop.front.Tok.
Import ListNotations.

Definition st (r : bytes) (lb : option byte) (lr : option nat) : tstate :=
  {| buf := {| rest := r; lastByte := lb; lastRune := lr; failing := false |}; errs := [] |}.

Definition is_hws (c : byte) : bool := N.eqb c 32 || N.eqb c 9 || N.eqb c 13.

(* horizontal whitespace before a token is skipped; bufio's unread bookkeeping is irrelevant across calls *)
Lemma find_skip_ws : forall ws g r lb lr, Forall (fun c => is_hws c = true) ws ->
  exists lb' lr', find (length ws + g) NRoot (st (ws ++ r) lb lr) [] = find g NRoot (st r lb' lr') [].
Proof.
  induction ws as [|c ws IH]; intros g r lb lr H; [exists lb, lr; reflexivity|].
  inversion H as [|? ? Hc Hws]; subst. cbn [length plus app find].
  unfold tr_read_byte, st. cbn [buf read_byte rest with_buf errs failing lastByte lastRune].
  assert (Hs : skips NRoot c = true) by exact Hc. rewrite Hs.
  destruct (IH g r (Some c) None Hws) as (lb' & lr' & E). exists lb', lr'. exact E.
Qed.

(* single-byte terminals *)
Definition term1 (c : byte) : option N :=
  if N.eqb c 61 then Some kEquals else if N.eqb c 91 then Some kOpenSq else if N.eqb c 93 then Some kCloseSq
  else if N.eqb c 123 then Some kOpenCu else if N.eqb c 125 then Some kCloseCu
  else if N.eqb c 40 then Some kOpenPar else if N.eqb c 41 then Some kClosePar
  else if N.eqb c 44 then Some kComma else if N.eqb c 59 then Some kSemi else if N.eqb c 10 then Some kNewline
  else if N.eqb c 124 then Some kVBar else if N.eqb c 38 then Some kAmp else if N.eqb c 58 then Some kColon else None.

Lemma succ_term1 c k : term1 c = Some k -> succ NRoot c = Term k /\ skips NRoot c = false.
Proof.
  unfold term1, succ, skips.
  repeat match goal with |- context [N.eqb c ?n] => destruct (N.eqb_spec c n) as [->|?]; [intros [= <-]; split; reflexivity|] end.
  discriminate.
Qed.

Lemma next_term1 c k ws r lb lr : term1 c = Some k -> Forall (fun c => is_hws c = true) ws ->
  exists lb' lr', next (st (ws ++ c :: r) lb lr) = R (Some {| kind := k; concrete := [c] |}) (st r lb' lr').
Proof.
  intros Hk Hws. destruct (succ_term1 c k Hk) as [Hs Hn].
  unfold next. cbn [buf rest st].
  replace (S (S (length (ws ++ c :: r)))) with (length ws + S (S (S (length r)))) by (rewrite app_length; cbn; lia).
  destruct (find_skip_ws ws (S (S (S (length r)))) (c :: r) lb lr Hws) as (lb1 & lr1 & ->).
  cbn [find]. unfold tr_read_byte, st. cbn [buf read_byte rest with_buf errs failing]. rewrite Hn, Hs.
  cbn [app last_err errs]. eexists _, _. reflexivity.
Qed.

(* identifiers and keywords: letter (letter|digit|_)* followed by a byte that is none of those *)
Definition is_idc (c : byte) : bool := is_letter c || is_digit c || N.eqb c 95.

Lemma next_ident_run : forall tl g d r conc lb lr errs0,
  Forall (fun c => is_idc c = true) tl -> is_idc d = false -> length tl < g ->
  exists lb' lr',
    next_ident g {| buf := {| rest := tl ++ d :: r; lastByte := lb; lastRune := lr; failing := false |}; errs := errs0 |} conc
    = R (Some {| kind := keyword (conc ++ tl); concrete := conc ++ tl |})
        {| buf := {| rest := d :: r; lastByte := lb'; lastRune := lr'; failing := false |}; errs := errs0 |}.
Proof.
  induction tl as [|c tl IH]; intros g d r conc lb lr errs0 H Hd Hg.
  - destruct g as [|g]; [cbn in Hg; lia|]. cbn [app next_ident buf read_rune rest with_buf failing].
    unfold is_idc in Hd. rewrite Hd. cbn [unread_rune lastRune lastByte rest failing errs]. rewrite app_nil_r.
    eexists _, _. reflexivity.
  - inversion H as [|? ? Hc Htl]; subst. destruct g as [|g]; [cbn in Hg; lia|].
    cbn [app next_ident buf read_rune rest with_buf failing]. unfold is_idc in Hc. rewrite Hc.
    destruct (IH g d r (conc ++ [c]) (Some c) (Some 1) errs0 Htl Hd ltac:(cbn in Hg; lia)) as (lb' & lr' & E).
    unfold with_buf. cbn [errs]. rewrite E, <- app_assoc. eexists _, _. reflexivity.
Qed.

Lemma next_word c tl d ws r lb lr : is_letter c = true -> Forall (fun c => is_idc c = true) tl -> is_idc d = false ->
  Forall (fun c => is_hws c = true) ws ->
  exists lb' lr', next (st (ws ++ c :: tl ++ d :: r) lb lr)
                  = R (Some {| kind := keyword (c :: tl); concrete := c :: tl |}) (st (d :: r) lb' lr').
Proof.
  intros Hc Htl Hd Hws.
  assert (Hsucc : succ NRoot c = NoSucc /\ skips NRoot c = false).
  { unfold is_letter in Hc. unfold succ, skips, is_digit.
    assert (Hr : (65 <= c <= 90 \/ 97 <= c <= 122)%N).
    { apply orb_true_iff in Hc. destruct Hc as [H|H]; apply andb_true_iff in H; destruct H as [H1 H2];
        apply N.leb_le in H1; apply N.leb_le in H2; lia. }
    repeat match goal with |- context [N.eqb c ?n] => destruct (N.eqb_spec c n) as [->|?]; [exfalso; lia|] end.
    destruct (N.leb_spec 48 c); destruct (N.leb_spec c 57); cbn [andb]; try (split; reflexivity); exfalso; lia. }
  destruct Hsucc as [Hs Hn].
  unfold next. cbn [buf rest st].
  replace (S (S (length (ws ++ c :: tl ++ d :: r)))) with (length ws + S (S (S (length (tl ++ d :: r))))) by (rewrite !app_length; cbn [length]; rewrite ?app_length; cbn [length]; lia).
  destruct (find_skip_ws ws (S (S (S (length (tl ++ d :: r))))) (c :: tl ++ d :: r) lb lr Hws) as (lb1 & lr1 & ->).
  cbn [find]. unfold tr_read_byte, st. cbn [buf read_byte rest with_buf errs failing]. rewrite Hn, Hs.
  cbn [last_err errs tr_unread_byte unread_byte buf lastByte with_buf rest read_rune failing]. rewrite Hc.
  match goal with |- context [next_ident ?g _ _] =>
    destruct (next_ident_run tl g d r [c] (Some c) (Some 1) [] Htl Hd) as (lb' & lr' & E); [rewrite app_length; cbn [length]; lia|] end.
  unfold with_buf. cbn [errs]. cbn [app] in E. rewrite E. eexists _, _. reflexivity.
Qed.
