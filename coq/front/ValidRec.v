(* The recursion clause of C13 on the executable validator model itself: Valid.v's struct-usage loop (one particular iteration
   order, lists for sets) refines the abstract loop of sys/Fix.v (any order), so its verdict is the transitive-closure verdict:
   validate accepts exactly when every other clause holds and no struct reaches itself through struct-typed usage. *)
From Coq Require Import List NArith Bool Arith Lia.
Require Import Bebop.front.Tok Bebop.front.Parse Bebop.front.Valid Bebop.front.ValidFacts.
Require Bebop.sys.Fix.
Import ListNotations.

Lemma beq_reflect a b : reflect (a = b) (beq a b).
Proof. destruct (beq a b) eqn:E; constructor; [now apply beq_true|intros H; apply beq_true in H; congruence]. Qed.
Lemma beq_refl a : beq a a = true. Proof. now apply beq_true. Qed.
Lemma beq_sym a b : beq a b = beq b a.
Proof. destruct (beq_reflect a b) as [->|N]; [now rewrite beq_refl|]. destruct (beq_reflect b a) as [->|_]; [congruence|reflexivity]. Qed.

Notation fmem := (Fix.mem bytes beq).
Notation funion := (Fix.union bytes beq).
Notation fupd := (Fix.upd bytes beq).
Notation frelax := (Fix.relax bytes beq).
Notation finner := (Fix.inner bytes beq).
Notation fpass := (Fix.pass bytes beq).
Notation fiterate := (Fix.iterate bytes beq).
Notation fclo := (Fix.clo bytes).

Definition abs (u : usage) : Fix.usage bytes := fun x => match lookup x u with Some l => l | None => [] end.

Lemma add_all_union : forall add l, add_all l add = funion l add.
Proof. induction add as [|k r IH]; intros l; [reflexivity|]. cbn [add_all Fix.union]. unfold bmem, Fix.mem. now rewrite !IH. Qed.

(* ---------- the inner loop ---------- *)
Definition stepF (u : usage) (a : bytes) :=
  (fun (acc : list bytes * bool) (kv : bytes * list bytes) =>
     let '(cur, d) := acc in
     if beq (fst kv) a then acc
     else if bmem (fst kv) cur then
            match lookup (fst kv) u with
            | Some ub => let '(cur', d') := add_all cur ub in (cur', d || d')
            | None => acc
            end
          else acc).

Lemma step_sim u a : forall rest cur d0 uf l d,
  (forall x, uf x = if beq x a then cur else abs u x) ->
  fold_left (stepF u a) rest (cur, d0) = (l, d) ->
  exists uf' d', finner uf a (map fst rest) = (uf', d') /\ (forall x, uf' x = if beq x a then l else abs u x) /\ d = d0 || d'.
Proof.
  induction rest as [|kv rest IH]; intros cur d0 uf l d J H.
  - cbn [fold_left] in H. injection H as <- <-. exists uf, false. cbn [map Fix.inner]. split; [reflexivity|]. split; [exact J|now rewrite orb_false_r].
  - cbn [fold_left map Fix.inner] in *. set (k := fst kv) in *. unfold stepF at 2 in H. fold k in H.
    assert (Ja : uf a = cur) by (rewrite J, beq_refl; reflexivity).
    unfold Fix.relax. rewrite (beq_sym a k).
    destruct (beq k a) eqn:Eka.
    + destruct (IH cur d0 uf l d J H) as (uf' & d' & E & J' & Hd). exists uf', d'. rewrite E. cbn [orb]. auto.
    + assert (Jk : uf k = abs u k) by (rewrite J, Eka; reflexivity).
      rewrite Ja. change (fmem k cur) with (bmem k cur).
      destruct (bmem k cur) eqn:Em.
      * rewrite Jk. unfold abs at 1. destruct (lookup k u) as [ub|] eqn:El.
        -- rewrite <- add_all_union. destruct (add_all cur ub) as [cur' dd] eqn:Ea.
           assert (J1 : forall x, fupd uf a cur' x = if beq x a then cur' else abs u x).
           { intros x. unfold Fix.upd. destruct (beq x a) eqn:Ex; [reflexivity|]. rewrite J, Ex. reflexivity. }
           destruct (IH cur' (d0 || dd) _ l d J1 H) as (uf' & d' & E & J' & Hd). exists uf', (dd || d'). rewrite E.
           split; [reflexivity|]. split; [exact J'|]. now rewrite Hd, orb_assoc.
        -- cbn [Fix.union].
           assert (J1 : forall x, fupd uf a cur x = if beq x a then cur else abs u x).
           { intros x. unfold Fix.upd. destruct (beq x a) eqn:Ex; [reflexivity|]. rewrite J, Ex. reflexivity. }
           destruct (IH cur d0 _ l d J1 H) as (uf' & d' & E & J' & Hd). exists uf', d'. rewrite E. cbn [orb]. auto.
      * destruct (IH cur d0 uf l d J H) as (uf' & d' & E & J' & Hd). exists uf', d'. rewrite E. cbn [orb]. auto.
Qed.

Lemma step_one_fold u a ua : step_one u a ua = fold_left (stepF u a) u (ua, false).
Proof. reflexivity. Qed.

(* ---------- association lists ---------- *)
Lemma lookup_some k u : In k (map fst u) -> exists v, lookup k u = Some v.
Proof.
  induction u as [|[k' v'] u IH]; [intros []|]. cbn [map fst In lookup]. destruct (beq_reflect k' k) as [->|N]; [eauto|].
  intros [E|Hin]; [congruence|auto].
Qed.
Lemma lookup_in k u v : lookup k u = Some v -> In (k, v) u.
Proof.
  induction u as [|[k' v'] u IH]; [discriminate|]. cbn [lookup]. destruct (beq_reflect k' k) as [->|N]; [intros [= ->]; now left|right; auto].
Qed.
Lemma lookup_nodup u kv : NoDup (map fst u) -> In kv u -> lookup (fst kv) u = Some (snd kv).
Proof.
  induction u as [|[k' v'] u IH]; [intros _ []|]. cbn [map fst]. intros Hn [<-|Hin]; inversion Hn as [|? ? Hk Hr]; subst; cbn [lookup fst snd].
  - now rewrite beq_refl.
  - destruct (beq_reflect k' (fst kv)) as [->|N]; [exfalso; apply Hk; now apply in_map|auto].
Qed.
Definition upd_l (a : bytes) (l : list bytes) (u : usage) : usage := map (fun e => if beq (fst e) a then (fst e, l) else e) u.
Lemma upd_l_keys a l u : map fst (upd_l a l u) = map fst u.
Proof. unfold upd_l. rewrite map_map. apply map_ext. intros e. destruct (beq (fst e) a); reflexivity. Qed.
Lemma lookup_upd_l a l x : forall u,
  lookup x (upd_l a l u) = match lookup x u with Some v => Some (if beq x a then l else v) | None => None end.
Proof.
  induction u as [|[k v] u IH]; [reflexivity|]. cbn [upd_l map fst lookup]. fold (upd_l a l u).
  destruct (beq k a) eqn:Eka; cbn [fst lookup]; destruct (beq_reflect k x) as [E|N]; try exact IH.
  - subst k. now rewrite Eka.
  - subst k. now rewrite Eka.
Qed.
Lemma abs_upd_l a l u x : In a (map fst u) -> abs (upd_l a l u) x = if beq x a then l else abs u x.
Proof.
  intros Hin. unfold abs. rewrite lookup_upd_l. destruct (beq_reflect x a) as [E|N].
  - subst x. destruct (lookup_some a u Hin) as [v ->]. reflexivity.
  - destruct (lookup x u); reflexivity.
Qed.

(* ---------- one pass ---------- *)
Definition passG :=
  (fun (acc : usage * bool) (kv : bytes * list bytes) =>
     let '(cur, d) := acc in
     match lookup (fst kv) cur with
     | Some ua => let '(ua', d') := step_one cur (fst kv) ua in
                  (map (fun e => if beq (fst e) (fst kv) then (fst e, ua') else e) cur, d || d')
     | None => acc
     end).

Lemma pass_sim keys : forall rest cur d0 uf cur' d,
  (forall x, abs cur x = uf x) -> map fst cur = keys -> (forall kv, In kv rest -> In (fst kv) keys) ->
  fold_left passG rest (cur, d0) = (cur', d) ->
  exists uf' d', fpass uf (map fst rest) (fun _ => keys) = (uf', d') /\ (forall x, abs cur' x = uf' x) /\ map fst cur' = keys /\ d = d0 || d'.
Proof.
  induction rest as [|kv rest IH]; intros cur d0 uf cur' d R K Hr H.
  - cbn [fold_left] in H. injection H as <- <-. exists uf, false. cbn [map Fix.pass]. repeat split; auto. now rewrite orb_false_r.
  - cbn [fold_left map Fix.pass] in *. set (a := fst kv) in *. unfold passG at 2 in H. fold a in H.
    assert (Ha : In a (map fst cur)) by (rewrite K; apply Hr; now left).
    destruct (lookup_some a cur Ha) as [ua El]. rewrite El in H.
    destruct (step_one cur a ua) as [ua' dd] eqn:Es. rewrite step_one_fold in Es.
    assert (J : forall x, uf x = if beq x a then ua else abs cur x).
    { intros x. rewrite <- R. destruct (beq_reflect x a) as [->|_]; [|reflexivity]. unfold abs. now rewrite El. }
    destruct (step_sim cur a cur ua false uf ua' dd J Es) as (uf1 & d1 & E1 & J1 & Hd1). cbn [orb] in Hd1. subst dd.
    rewrite K in E1. rewrite E1.
    assert (R1 : forall x, abs (upd_l a ua' cur) x = uf1 x) by (intros x; rewrite (abs_upd_l a ua' cur x Ha), J1; reflexivity).
    assert (K1 : map fst (upd_l a ua' cur) = keys) by (rewrite upd_l_keys; exact K).
    destruct (IH (upd_l a ua' cur) (d0 || d1) uf1 cur' d R1 K1 (fun kv0 Hk => Hr kv0 (or_intror Hk)) H) as (uf' & d' & E & R' & K' & Hd).
    exists uf', (d1 || d'). rewrite E. repeat split; auto. now rewrite Hd, orb_assoc.
Qed.

Lemma pass_u_fold u : pass_u u = fold_left passG u (u, false).
Proof. reflexivity. Qed.

(* ---------- the loop ---------- *)
Lemma iter_sim keys : forall fuel ul uf uf',
  (forall x, abs ul x = uf x) -> map fst ul = keys ->
  fiterate fuel uf (fun _ => keys) (fun _ _ => keys) = Some uf' ->
  (forall x, abs (iterate_u fuel ul) x = uf' x) /\ map fst (iterate_u fuel ul) = keys.
Proof.
  induction fuel as [|f IH]; intros ul uf uf' R K H; [discriminate|]. cbn [Fix.iterate iterate_u] in *.
  destruct (pass_u ul) as [ul1 d] eqn:Ep. rewrite pass_u_fold in Ep.
  assert (Hr : forall kv, In kv ul -> In (fst kv) keys) by (intros kv Hk; rewrite <- K; now apply in_map).
  destruct (pass_sim keys ul ul false uf ul1 d R K Hr Ep) as (uf1 & d1 & E1 & R1 & K1 & Hd). cbn [orb] in Hd. subst d1.
  rewrite K in E1. rewrite E1 in H. destruct d; [exact (IH ul1 uf1 uf' R1 K1 H)|]. injection H as <-. split; assumption.
Qed.

(* ---------- the check ---------- *)
Lemma dedup_spec l : NoDup (dedup l) /\ forall x, In x (dedup l) <-> In x l.
Proof.
  induction l as [|a l [IH1 IH2]]; [split; [constructor|reflexivity]|]. cbn [dedup fold_right]. fold (dedup l).
  destruct (bmem a (dedup l)) eqn:E.
  - split; [exact IH1|]. intros x. rewrite IH2. cbn [In]. split; [tauto|]. intros [<-|H]; [apply IH2; now apply bmem_In|exact H].
  - split.
    + constructor; [|exact IH1]. intros H. apply bmem_In in H. congruence.
    + intros x. cbn [In]. rewrite IH2. tauto.
Qed.

Definition usage0 (sts : list struct_) : usage := map (fun s => (s_name s, struct_used s)) sts.
(* the direct usage relation: the types the fields of the struct named a mention *)
Definition direct (sts : list struct_) : Fix.usage bytes := abs (usage0 sts).
Definition snames (sts : list struct_) : list bytes := map s_name sts.

Lemma usage0_keys sts : map fst (usage0 sts) = snames sts.
Proof. unfold usage0, snames. rewrite map_map. reflexivity. Qed.
Lemma direct_cases sts a : direct sts a = [] \/ exists s, In s sts /\ direct sts a = struct_used s.
Proof.
  unfold direct, abs. destruct (lookup a (usage0 sts)) as [l|] eqn:E; [|now left]. right.
  apply lookup_in in E. unfold usage0 in E. apply in_map_iff in E. destruct E as (s & [= <- <-] & Hs). eauto.
Qed.
Lemma direct_spec sts s : NoDup (snames sts) -> In s sts -> direct sts (s_name s) = struct_used s.
Proof.
  intros Hn Hs. unfold direct, abs. rewrite <- usage0_keys in Hn.
  assert (Hin : In (s_name s, struct_used s) (usage0 sts)) by (unfold usage0; apply in_map_iff; eauto).
  pose proof (lookup_nodup (usage0 sts) (s_name s, struct_used s) Hn Hin) as E. cbn [fst snd] in E. now rewrite E.
Qed.

Theorem rec_check_exact nall sts V :
  NoDup (snames sts) -> (forall s, In s sts -> incl (struct_used s) V) -> length V <= nall ->
  (rec_check nall sts = true <-> forall a, In a (snames sts) -> ~ fclo (snames sts) (direct sts) a a).
Proof.
  intros Hn Hv Hl. set (keys := snames sts). set (u0 := direct sts).
  assert (I0 : Fix.Inv bytes keys V u0 u0).
  { constructor.
    - intros a x Hx. now apply Fix.c0.
    - auto.
    - intros a. unfold u0. destruct (direct_cases sts a) as [->|(s & _ & ->)]; [constructor|apply dedup_spec].
    - intros a. unfold u0. destruct (direct_cases sts a) as [E|(s & Hs & E)]; rewrite E; [intros ? []|now apply Hv]. }
  assert (Hk : forall (f : nat), incl keys keys /\ incl keys keys) by (intros; split; apply incl_refl).
  assert (Hk2 : forall (f : nat) (a : bytes), incl keys keys /\ incl keys keys) by (intros; split; apply incl_refl).
  set (fuel := S (length (usage0 sts) * (nall + length (usage0 sts) + 2))).
  assert (Hlen : length (usage0 sts) = length keys) by (unfold usage0, keys, snames; now rewrite !map_length).
  assert (Hterm : fiterate fuel u0 (fun _ => keys) (fun _ _ => keys) <> None).
  { apply (Fix.iterate_terminates bytes beq beq_reflect keys V u0 (fun _ => keys) (fun _ _ => keys) Hk Hk2 fuel u0 I0).
    unfold fuel. rewrite Hlen. nia. }
  destruct (fiterate fuel u0 (fun _ => keys) (fun _ _ => keys)) as [uf'|] eqn:Ei; [|congruence].
  pose proof (Fix.iterate_exact bytes beq beq_reflect keys V u0 (fun _ => keys) (fun _ _ => keys) Hk Hk2 fuel u0 uf' I0 Ei) as Hex.
  destruct (iter_sim keys fuel (usage0 sts) u0 uf' (fun x => eq_refl) (usage0_keys sts) Ei) as [R K].
  unfold rec_check. fold (usage0 sts). fold fuel. set (ul := iterate_u fuel (usage0 sts)) in *.
  rewrite forallb_forall. split.
  - intros H a Ha Hc. apply (Hex a a Ha) in Hc. rewrite <- R in Hc.
    rewrite <- K in Ha. destruct (lookup_some a ul Ha) as [v Ev]. unfold abs in Hc. rewrite Ev in Hc.
    specialize (H (a, v) (lookup_in a ul v Ev)). cbn [fst snd] in H. apply negb_true_iff in H. apply bmem_In in Hc. congruence.
  - intros H kv Hkv. apply negb_true_iff. destruct (bmem (fst kv) (snd kv)) eqn:E; [|reflexivity]. exfalso.
    assert (Ha : In (fst kv) keys) by (rewrite <- K; now apply in_map).
    apply (H (fst kv) Ha). apply (Hex (fst kv) (fst kv) Ha). rewrite <- R. unfold abs.
    rewrite (lookup_nodup ul kv); [now apply bmem_In|rewrite K; exact Hn|exact Hkv].
Qed.

(* ---------- validate as a whole ---------- *)
Lemma validate_gen_split rc f :
  validate_gen rc f = validate_norec f &&
    match names_ok [] (top_names f) with Some custom => rc (length (custom ++ prims)) (structs f) | None => true end.
Proof.
  unfold validate_norec, validate_gen. fold (top_names f). destruct (names_ok [] (top_names f)) as [custom|]; [|now rewrite !andb_false_r].
  rewrite andb_true_r. rewrite !andb_assoc. reflexivity.
Qed.

Lemma used_defined all ft : defined all ft -> forall x, In x (used_types ft) -> In x all.
Proof.
  induction ft as [s|k v IH|t IH]; cbn [defined used_types].
  - intros H x [<-|[]]. exact H.
  - intros [Hk Hv] x [<-|Hx]; [exact Hk|now apply IH].
  - exact IH.
Qed.

Lemma NoDup_app_l {A} (a b : list A) : NoDup (a ++ b) -> NoDup a.
Proof. induction a as [|x a IH]; [constructor|]. cbn [app]. intros H. inversion H as [|? ? Hx Hr]; subst. constructor; [intros Hi; apply Hx, in_or_app; now left|auto]. Qed.
Lemma NoDup_app_r {A} (a b : list A) : NoDup (a ++ b) -> NoDup b.
Proof. induction a as [|x a IH]; [auto|]. cbn [app]. intros H. inversion H; subst. auto. Qed.

(* C13's recursion clause on the validator model: it accepts EXACTLY when every other clause holds and no struct reaches
   itself through the types its fields mention (transitively, through structs) *)
Theorem validate_rec f :
  validate f = true <->
  validate_norec f = true /\ forall a, In a (snames (structs f)) -> ~ fclo (snames (structs f)) (direct (structs f)) a a.
Proof.
  unfold validate. rewrite validate_gen_split, andb_true_iff.
  assert (Hmain : validate_norec f = true ->
    (match names_ok [] (top_names f) with Some custom => rec_check (length (custom ++ prims)) (structs f) | None => true end = true
     <-> forall a, In a (snames (structs f)) -> ~ fclo (snames (structs f)) (direct (structs f)) a a)).
  { intros Hn. pose proof (validate_gen_sound _ f Hn) as Hs.
    destruct (names_ok [] (top_names f)) as [custom|] eqn:En.
    - destruct (names_ok_spec _ _ _ En) as (_ & _ & Hcustom).
      apply rec_check_exact with (V := custom ++ prims); [| |lia].
      + pose proof (ok_names f Hs) as Hnd. unfold top_names in Hnd. apply NoDup_app_r in Hnd. apply NoDup_app_l in Hnd. exact Hnd.
      + intros s Hin x Hx. unfold struct_used in Hx. apply (proj1 (proj2 (dedup_spec _) x)) in Hx. apply in_flat_map in Hx. destruct Hx as (fd & Hfd & Hx).
        pose proof (used_defined _ _ (ok_struct_types f Hs s fd Hin Hfd) x Hx) as Hd.
        apply in_app_or in Hd. apply in_or_app. destruct Hd as [Hd|Hd]; [left|now right]. apply Hcustom. now left.
    - exfalso. unfold validate_norec, validate_gen in Hn. fold (top_names f) in Hn. rewrite En in Hn. now rewrite andb_false_r in Hn. }
  split.
  - intros [Hn Hr]. split; [exact Hn|]. now apply Hmain.
  - intros [Hn Hc]. split; [exact Hn|]. now apply Hmain.
Qed.
Print Assumptions validate_rec.
