(* Whatever File ReadFile returns - for EVERY input - has only PRIMITIVE map keys, at every depth of every field type of every
   struct, message and union branch (the generator has key readers / writers for primitives only). *)
From Coq Require Import List NArith ZArith Bool Arith Lia.
Require Import Bebop.front.Tok Bebop.front.Parse Bebop.front.ParseWf.
Import ListNotations.

Fixpoint keys_prim (ft : ftype) : Prop :=
  match ft with
  | FSimple _ => True
  | FArray t => keys_prim t
  | FMap k v => is_primitive k = true /\ keys_prim v
  end.

Lemma array_suffix_wf : forall g ft, keys_prim ft -> post (array_suffix g ft) keys_prim.
Proof.
  induction g as [|g IH]; intros ft Hw; [apply post_nofuel|]. cbn [array_suffix].
  repeat first [ pw0 | apply post_ret; exact Hw | apply post_ret; exact (Hw : keys_prim (FArray ft)) | apply IH; exact Hw | apply post_bind_any; intro ].
Qed.

Lemma field_type_wf : forall g, post (read_field_type g) keys_prim.
Proof.
  induction g as [|g IH]; [apply post_nofuel|]. cbn [read_field_type].
  apply post_bind_any; intros _. apply post_bind_any; intros t.
  apply (post_bind _ _ keys_prim).
  - destruct (N.eqb (kind t) 11%N).
    + apply post_bind_any; intros _. apply (post_bind _ _ keys_prim); [exact IH|]. intros kt _.
      destruct kt as [ks|?|?]; try apply post_fail. destruct (is_primitive ks) eqn:Ep; [|apply post_fail].
      apply post_bind_any; intros _. apply (post_bind _ _ keys_prim); [exact IH|]. intros vt Hv.
      apply post_bind_any; intros _. apply post_ret. split; assumption.
    + destruct (N.eqb (kind t) 12%N).
      * apply post_bind_any; intros _. apply (post_bind _ _ keys_prim); [exact IH|]. intros a Ha. apply post_bind_any; intros _. apply post_ret. exact Ha.
      * apply post_ret. exact I.
  - intros ft Hf. apply post_bind_any; intros b. destruct b; [apply array_suffix_wf; exact Hf|apply post_ret; exact Hf].
Qed.

Definition fields_wf (fs : list field) : Prop := Forall (fun f => keys_prim (f_type f)) fs.
Definition mfields_wf (fs : list (N * field)) : Prop := Forall (fun p => keys_prim (f_type (snd p))) fs.

Lemma struct_loop_twf : forall g fs cm tags dm dep, fields_wf fs -> post (read_struct_loop g fs cm tags dm dep) fields_wf.
Proof.
  induction g as [|g IH]; intros fs cm tags dm dep Hw; [apply post_nofuel|]. cbn [read_struct_loop].
  repeat first
    [ pw0 | apply post_ret; exact Hw | apply IH; exact Hw
    | match goal with |- post (bind (read_field_type _) _) _ => apply (post_bind _ _ keys_prim); [apply field_type_wf|intros ft Hft] end
    | match goal with Hft : keys_prim ?ft |- post (read_struct_loop _ (_ ++ [_]) _ _ _ _) _ =>
        apply IH; apply Forall_app; split; [exact Hw|constructor; [exact Hft|constructor]] end
    | apply post_bind_any; intro ].
Qed.
Lemma read_struct_twf g : post (read_struct g) (fun st => fields_wf (s_fields st)).
Proof.
  unfold read_struct. apply post_bind_any; intros toks. apply post_bind_any; intros _.
  apply (post_bind _ _ fields_wf); [apply struct_loop_twf; constructor|]. intros fs Hf. apply post_ret. exact Hf.
Qed.
Lemma msg_loop_twf : forall g fs cm tags dm dep, mfields_wf fs -> post (read_message_loop g fs cm tags dm dep) mfields_wf.
Proof.
  induction g as [|g IH]; intros fs cm tags dm dep Hw; [apply post_nofuel|]. cbn [read_message_loop].
  repeat first
    [ pw0 | apply post_ret; exact Hw | apply IH; exact Hw
    | match goal with |- post (bind (read_field_type _) _) _ => apply (post_bind _ _ keys_prim); [apply field_type_wf|intros ft Hft] end
    | match goal with Hft : keys_prim ?ft |- post (read_message_loop _ (_ ++ [_]) _ _ _ _) _ =>
        apply IH; apply Forall_app; split; [exact Hw|constructor; [exact Hft|constructor]] end
    | apply post_bind_any; intro ].
Qed.
Lemma read_message_twf g : post (read_message g) (fun m => mfields_wf (m_fields m)).
Proof.
  unfold read_message. apply post_bind_any; intros toks. apply post_bind_any; intros _.
  apply (post_bind _ _ mfields_wf); [apply msg_loop_twf; constructor|]. intros fs Hf. apply post_ret. exact Hf.
Qed.

Definition ubranch_twf (p : N * ufield) : Prop :=
  match u_msg (snd p) with Some m => mfields_wf (m_fields m) | None => True end /\
  match u_struct (snd p) with Some st => fields_wf (s_fields st) | None => True end.
Lemma union_loop_twf : forall g fs cm tags dm dep, Forall ubranch_twf fs -> post (read_union_loop g fs cm tags dm dep) (Forall ubranch_twf).
Proof.
  induction g as [|g IH]; intros fs cm tags dm dep Hw; [apply post_nofuel|]. cbn [read_union_loop].
  repeat first
    [ pw0 | apply post_ret; exact Hw | apply IH; exact Hw
    | match goal with |- post (bind (if _ then _ else _) _) _ =>
        apply (post_bind _ _ (fun uf => ubranch_twf (0%N, uf)));
          [ match goal with |- post (if ?c then _ else _) _ => destruct c end;
            [ apply (post_bind _ _ (fun m => mfields_wf (m_fields m))); [apply read_message_twf|intros m Hm; apply post_ret; split; [exact Hm|exact I]]
            | apply (post_bind _ _ (fun st => fields_wf (s_fields st))); [apply read_struct_twf|intros st Hst; apply post_ret; split; [exact I|exact Hst]] ]
          | intros uf Huf ] end
    | match goal with Huf : ubranch_twf (0%N, ?uf) |- post (read_union_loop _ (_ ++ [(?i, ?uf)]) _ _ _ _) _ =>
        apply IH; apply Forall_app; split; [exact Hw|constructor; [exact Huf|constructor]] end
    | apply post_bind_any; intro ].
Qed.
Lemma read_union_twf g : post (read_union g) (fun u => Forall ubranch_twf (un_fields u)).
Proof.
  unfold read_union. apply post_bind_any; intros toks. apply post_bind_any; intros _.
  apply (post_bind _ _ (Forall ubranch_twf)); [apply union_loop_twf; constructor|]. intros fs Hf. apply post_ret. exact Hf.
Qed.

Definition file_twf (f : file) : Prop :=
  Forall (fun st => fields_wf (s_fields st)) (structs f) /\ Forall (fun m => mfields_wf (m_fields m)) (messages f) /\
  Forall (fun u => Forall ubranch_twf (un_fields u)) (unions f).

Lemma top_loop_twf : forall g f cm opc ro bf, file_twf f -> post (top_loop g f cm opc ro bf) file_twf.
Proof.
  induction g as [|g IH]; intros f cm opc ro bf Hw; [apply post_nofuel|]. cbn [top_loop].
  repeat first
    [ pw0 | apply post_ret; exact Hw | apply IH; exact Hw | progress cbv beta
    | match goal with |- post (bind (read_struct _) _) _ => apply (post_bind _ _ (fun st => fields_wf (s_fields st))); [apply read_struct_twf|intros st Hst] end
    | match goal with |- post (bind (read_message _) _) _ => apply (post_bind _ _ (fun m => mfields_wf (m_fields m))); [apply read_message_twf|intros m Hm] end
    | match goal with |- post (bind (read_union _) _) _ => apply (post_bind _ _ (fun u => Forall ubranch_twf (un_fields u))); [apply read_union_twf|intros u Hu] end
    | match goal with Hst : fields_wf (s_fields ?st) |- post (top_loop _ _ _ _ _ _) _ =>
        apply IH; destruct Hw as (W1 & W2 & W3); split; [|split]; cbn [structs messages unions]; [apply Forall_app; split; [exact W1|constructor; [exact Hst|constructor]]|exact W2|exact W3] end
    | match goal with Hm : mfields_wf (m_fields ?m) |- post (top_loop _ _ _ _ _ _) _ =>
        apply IH; destruct Hw as (W1 & W2 & W3); split; [|split]; cbn [structs messages unions]; [exact W1|apply Forall_app; split; [exact W2|constructor; [exact Hm|constructor]]|exact W3] end
    | match goal with Hu : Forall ubranch_twf (un_fields ?u) |- post (top_loop _ _ _ _ _ _) _ =>
        apply IH; destruct Hw as (W1 & W2 & W3); split; [|split]; cbn [structs messages unions]; [exact W1|exact W2|apply Forall_app; split; [exact W3|constructor; [exact Hu|constructor]]] end
    | apply post_bind_any; intro ].
Qed.

Theorem read_file_twf input fails f s : read_file input fails = POk f s -> file_twf f.
Proof.
  intros E. unfold read_file in E.
  pose proof (top_loop_twf (2 * (length input + margin) + 8)
    {| structs := []; messages := []; enums := []; unions := []; consts := []; imports := []; gopackage := [] |} [] 0%N false false
    ltac:(split; [|split]; constructor)) as H.
  specialize (H {| rs := next_results (length input + margin)
                      {| buf := {| rest := input; lastByte := None; lastRune := None; failing := fails |}; errs := [] |};
                   cur := tok0; keep := false; perrs := [] |}).
  rewrite E in H. exact H.
Qed.
Print Assumptions read_file_twf.
