(* Field TYPES in the inversion theorems: identifiers, array[T], map[K, V] and any number of [] suffixes, nested to any depth.
   read_field_type and format_type on the token sequence of a type expression, whatever follows it. *)
From Coq Require Import List NArith ZArith Bool Arith Lia.
Require Import Bebop.front.Tok Bebop.front.Parse Bebop.front.Fmt Bebop.front.ParseInv.
Import ListNotations.

(* a type expression: what it is built from, and how many [] follow *)
Inductive tyx :=
| TSimple (nm : bytes) (n : nat)
| TArray (t : tyx) (n : nat)
| TMap (k : bytes) (v : tyx) (n : nat).

Definition arrayT : token := {| kind := 12%N; concrete := [97; 114; 114; 97; 121]%N |}.
Definition mapT : token := {| kind := 11%N; concrete := [109; 97; 112]%N |}.
Definition osqT : token := {| kind := kOpenSq; concrete := [91%N] |}.
Definition csqT : token := {| kind := kCloseSq; concrete := [93%N] |}.
Definition commaT : token := {| kind := kComma; concrete := [44%N] |}.

Fixpoint sufs (n : nat) : list token := match n with O => [] | S n' => osqT :: csqT :: sufs n' end.
Fixpoint ty_toks (t : tyx) : list token :=
  match t with
  | TSimple nm n => idT nm :: sufs n
  | TArray t n => [arrayT; osqT] ++ ty_toks t ++ [csqT] ++ sufs n
  | TMap k v n => [mapT; osqT; idT k; commaT] ++ ty_toks v ++ [csqT] ++ sufs n
  end.
Fixpoint wrap (n : nat) (ft : ftype) : ftype := match n with O => ft | S n' => wrap n' (FArray ft) end.
Fixpoint ft_of (t : tyx) : ftype :=
  match t with
  | TSimple nm n => wrap n (FSimple nm)
  | TArray t n => wrap n (FArray (ft_of t))
  | TMap k v n => wrap n (FMap k (ft_of v))
  end.
Fixpoint ty_keys_ok (t : tyx) : Prop :=
  match t with
  | TSimple _ _ => True
  | TArray t _ => ty_keys_ok t
  | TMap k v _ => is_primitive k = true /\ ty_keys_ok v
  end.
Fixpoint tfuel (t : tyx) : nat :=
  match t with
  | TSimple _ n => n + 2
  | TArray t n => tfuel t + n + 2
  | TMap _ v n => tfuel v + n + 3
  end.

(* the state after a peek: the next token is kept *)
Definition kept (t : token) (rs : list nres) : pst := {| rs := rs; cur := t; keep := true; perrs := [] |}.

(* the suffixes, entered with the first token after the body as the current one *)
Lemma array_suffix_ok : forall n g ft nx tail,
  N.eqb (kind nx) kOpenSq = false ->
  forall c0 r0, (c0, r0) = match sufs n ++ [nx] with t :: r => (t, r) | [] => (nx, []) end ->
  array_suffix (S n + g) ft (mk (res r0 tail) c0 false) = POk (wrap n ft) (kept nx tail).
Proof.
  induction n as [|n IH]; intros g ft nx tail Hk c0 r0 E.
  - cbn [sufs app] in E. inversion E; subst. cbn [plus array_suffix res map app].
    unfold bind at 1. unfold p_kind at 1. unfold mk at 1. cbn [cur]. rewrite Hk. reflexivity.
  - cbn [sufs app] in E. inversion E; subst. cbn [plus array_suffix].
    unfold bind at 1. unfold p_kind at 1. unfold mk at 1. cbn [cur kind osqT N.eqb kOpenSq Pos.eqb].
    cbn [res map app]. unfold mk. pose proof (IH g (FArray ft) nx tail Hk) as IH'.
    destruct (sufs n ++ [nx]) as [|t1 r1] eqn:E1; [destruct n; discriminate|].
    cbn [map app expect_next].
    unfold bind at 1. unfold bind at 1. unfold p_next at 1. cbn [keep rs cur perrs].
    unfold bind at 1. unfold p_haserr at 1. cbn [perrs negb].
    unfold bind at 1. unfold p_tok at 1. cbn [cur kind csqT N.eqb kCloseSq Pos.eqb].
    unfold bind at 1. unfold ret at 1. unfold ret at 1.
    unfold bind at 1. unfold p_next at 1. cbn [keep rs cur perrs negb].
    apply (IH' t1 r1). reflexivity.
Qed.

Ltac pstep1 :=
  cbv beta iota zeta delta [bind p_next p_haserr p_kind p_tok p_unnext ret fail kin existsb expect_any_of_next expect_next mk kept keep rs cur perrs];
  cbn [N.eqb Pos.eqb orb andb negb kind concrete kIdent kOpenSq kCloseSq kComma kSemi kNewline kCloseCu kOpenCu arrayT mapT osqT csqT commaT idT semiT nlT closeT].
Ltac pstep := repeat progress pstep1.

Lemma sufs_ne n nx : exists t1 r1, sufs n ++ [nx] = t1 :: r1.
Proof. destruct n; cbn [sufs app]; eauto. Qed.

Lemma suffix_tail n g ft nx tail c :
  N.eqb (kind nx) kOpenSq = false ->
  (b <- p_next ;; if b then array_suffix (S n + g) ft else ret ft) (mk (res (sufs n ++ [nx]) tail) c false) = POk (wrap n ft) (kept nx tail).
Proof.
  intros Hk. pose proof (array_suffix_ok n g ft nx tail Hk) as H.
  destruct (sufs_ne n nx) as (t1 & r1 & E). rewrite E in *. unfold res at 1. cbn [map app]. pstep.
  apply (H t1 r1 eq_refl).
Qed.

Lemma ty_split_arr t n nx : ty_toks (TArray t n) ++ [nx] = [arrayT; osqT] ++ (ty_toks t ++ [csqT]) ++ (sufs n ++ [nx]).
Proof. cbn [ty_toks]. rewrite <- !app_assoc. reflexivity. Qed.
Lemma ty_split_map k v n nx : ty_toks (TMap k v n) ++ [nx] = [mapT; osqT] ++ ([idT k] ++ [commaT]) ++ (ty_toks v ++ [csqT]) ++ (sufs n ++ [nx]).
Proof. cbn [ty_toks]. rewrite <- !app_assoc. reflexivity. Qed.

Lemma csq_not_open : N.eqb (kind csqT) kOpenSq = false. Proof. reflexivity. Qed.
Lemma comma_not_open : N.eqb (kind commaT) kOpenSq = false. Proof. reflexivity. Qed.

Lemma read_simple_ok nm n g nx tail c : N.eqb (kind nx) kOpenSq = false ->
  read_field_type (tfuel (TSimple nm n) + g) (mk (res (ty_toks (TSimple nm n) ++ [nx]) tail) c false) = POk (ft_of (TSimple nm n)) (kept nx tail).
Proof.
  intros Hk. cbn [tfuel ty_toks ft_of]. replace (n + 2 + g) with (S (S n + g)) by lia.
  change ((idT nm :: sufs n) ++ [nx]) with ([idT nm] ++ (sufs n ++ [nx])). rewrite res_app.
  set (R := res (sufs n ++ [nx]) tail). unfold res. cbn [map app read_field_type]. pstep.
  subst R. apply (suffix_tail n g (FSimple nm) nx tail (idT nm) Hk).
Qed.

Theorem read_type_ok : forall t, ty_keys_ok t -> forall g nx tail c, N.eqb (kind nx) kOpenSq = false ->
  read_field_type (tfuel t + g) (mk (res (ty_toks t ++ [nx]) tail) c false) = POk (ft_of t) (kept nx tail).
Proof.
  induction t as [nm n|t IH n|k v IH n]; intros Hok g nx tail c Hk.
  - apply read_simple_ok; exact Hk.
  - cbn [tfuel ft_of ty_keys_ok] in *. rewrite ty_split_arr, res_app, (res_app (ty_toks t ++ [csqT])).
    replace (tfuel t + n + 2 + g) with (S (tfuel t + (S n + g))) by lia.
    match goal with |- context [res (ty_toks t ++ [csqT]) ?x] => set (R := res (ty_toks t ++ [csqT]) x) end. unfold res at 1. cbn [map app read_field_type]. pstep.
    subst R. pose proof (IH Hok (S n + g) csqT (res (sufs n ++ [nx]) tail) osqT csq_not_open) as E; unfold mk in E; rewrite E; clear E. pstep.
    replace (tfuel t + (S n + g)) with (S n + (tfuel t + g)) by lia.
    apply (suffix_tail n _ (FArray (ft_of t)) nx tail csqT Hk).
  - cbn [tfuel ft_of ty_keys_ok] in *. destruct Hok as [Hp Hok]. rewrite ty_split_map, res_app, (res_app ([idT k] ++ [commaT])), (res_app (ty_toks v ++ [csqT])).
    replace (tfuel v + n + 3 + g) with (S (tfuel v + (S (S n) + g))) by lia.
    match goal with |- context [res ([idT k] ++ [commaT]) ?x] => set (R := res ([idT k] ++ [commaT]) x) end. unfold res at 1. cbn [map app read_field_type]. pstep.
    subst R.
    replace (tfuel v + (S (S n) + g)) with (tfuel (TSimple k 0) + (tfuel v + n + g)) at 1 by (cbn [tfuel]; lia).
    change ([idT k] ++ [commaT]) with (ty_toks (TSimple k 0) ++ [commaT]).
    pose proof (read_simple_ok k 0 (tfuel v + n + g) commaT (res (ty_toks v ++ [csqT]) (res (sufs n ++ [nx]) tail)) osqT comma_not_open) as E; unfold mk in E; rewrite E; clear E. cbn [ft_of wrap]. rewrite Hp. pstep.
    pose proof (IH Hok (S (S n) + g) csqT (res (sufs n ++ [nx]) tail) commaT csq_not_open) as E; unfold mk in E; rewrite E; clear E. pstep.
    replace (tfuel v + (S (S n) + g)) with (S n + (tfuel v + S g)) by lia.
    apply (suffix_tail n _ (FMap k (ft_of v)) nx tail csqT Hk).
Qed.

(* ---------- the formatter ---------- *)
Fixpoint sufs_text (n : nat) : bytes := match n with O => [] | S n' => [91%N; 93%N] ++ sufs_text n' end.
Fixpoint ty_text (t : tyx) : bytes :=
  match t with
  | TSimple nm n => nm ++ sufs_text n
  | TArray t n => [97; 114; 114; 97; 121]%N ++ [91%N] ++ ty_text t ++ [93%N] ++ sufs_text n
  | TMap k v n => [109; 97; 112]%N ++ [91%N] ++ k ++ [44%N] ++ sp ++ ty_text v ++ [93%N] ++ sufs_text n
  end.

Ltac fstep1 :=
  cbv beta iota zeta delta [bind p_next p_haserr p_kind p_tok p_unnext ret fail kin existsb conc next_cat mk kept keep rs cur perrs];
  cbn [N.eqb Pos.eqb orb andb negb kind concrete kIdent kOpenSq kCloseSq kComma kSemi kNewline kCloseCu kOpenCu arrayT mapT osqT csqT commaT idT semiT nlT closeT].
Ltac fstep := repeat progress fstep1.

Lemma suffix_loop_ok : forall n g body nx tail c,
  N.eqb (kind nx) kOpenSq = false ->
  suffix_loop (S n + g) body (mk (res (sufs n ++ [nx]) tail) c false) = POk (body ++ sufs_text n) (kept nx tail).
Proof.
  induction n as [|n IH]; intros g body nx tail c Hk.
  - cbn [plus sufs app suffix_loop sufs_text]. unfold res. cbn [map app]. fstep. rewrite Hk. fstep. now rewrite app_nil_r.
  - replace (S (S n) + g) with (S (S n + g)) by lia. cbn [sufs suffix_loop sufs_text]. change ((osqT :: csqT :: sufs n) ++ [nx]) with ([osqT; csqT] ++ (sufs n ++ [nx])).
    rewrite res_app. match goal with |- context [res (sufs n ++ [nx]) ?x] => set (R := res (sufs n ++ [nx]) x) end.
    unfold res. cbn [map app]. fstep. subst R.
    pose proof (IH g (body ++ [91%N; 93%N]) nx tail csqT Hk) as E. unfold mk in E. rewrite E. rewrite <- app_assoc. reflexivity.
Qed.

Lemma ty_toks_ne t : exists c0 r0, ty_toks t = c0 :: r0.
Proof. destruct t; cbn [ty_toks app]; eauto. Qed.

Theorem fmt_type_ok : forall t g nx tail, N.eqb (kind nx) kOpenSq = false ->
  forall c0 r0, ty_toks t = c0 :: r0 ->
  format_type (tfuel t + g) (mk (res (r0 ++ [nx]) tail) c0 false) = POk (ty_text t) (kept nx tail).
Proof.
  induction t as [nm n|t IH n|k v IH n]; intros g nx tail Hk c0 r0 E.
  - cbn [ty_toks] in E. inversion E; subst. cbn [tfuel ty_text]. replace (n + 2 + g) with (S (S n + g)) by lia.
    cbn [format_type]. fstep.
    pose proof (suffix_loop_ok n g nm nx tail (idT nm) Hk) as E1. unfold mk in E1. exact E1.
  - cbn [ty_toks app] in E. inversion E; subst. cbn [tfuel ty_text].
    replace (tfuel t + n + 2 + g) with (S (tfuel t + (S n + g))) by lia.
    destruct (ty_toks_ne t) as (c1 & r1 & E1). rewrite E1.
    assert (Et : (osqT :: (c1 :: r1) ++ csqT :: sufs n) ++ [nx] = [osqT; c1] ++ (r1 ++ [csqT]) ++ (sufs n ++ [nx]))
      by (cbn [app]; rewrite <- !app_assoc; reflexivity).
    rewrite Et; clear Et. rewrite res_app, (res_app (r1 ++ [csqT])).
    match goal with |- context [res (r1 ++ [csqT]) ?x] => set (R := res (r1 ++ [csqT]) x) end.
    unfold res at 1. cbn [map app format_type]. fstep. subst R.
    pose proof (IH (S n + g) csqT (res (sufs n ++ [nx]) tail) csq_not_open c1 r1 E1) as E2. unfold mk in E2. rewrite E2. clear E2. fstep.
    replace (tfuel t + (S n + g)) with (S n + (tfuel t + g)) by lia.
    pose proof (suffix_loop_ok n (tfuel t + g) ([97; 114; 114; 97; 121]%N ++ [91%N] ++ ty_text t ++ [93%N]) nx tail csqT Hk) as E3. unfold mk in E3.
    refine (eq_trans E3 _). unfold kept. f_equal. rewrite <- !app_assoc. reflexivity.
  - cbn [ty_toks app] in E. inversion E; subst. cbn [tfuel ty_text].
    replace (tfuel v + n + 3 + g) with (S (tfuel v + (S (S n) + g))) by lia.
    destruct (ty_toks_ne v) as (c1 & r1 & E1). rewrite E1.
    assert (Et : (osqT :: idT k :: commaT :: (c1 :: r1) ++ csqT :: sufs n) ++ [nx] = [osqT; idT k; commaT; c1] ++ (r1 ++ [csqT]) ++ (sufs n ++ [nx]))
      by (cbn [app]; rewrite <- !app_assoc; reflexivity).
    rewrite Et; clear Et. rewrite res_app, (res_app (r1 ++ [csqT])).
    match goal with |- context [res (r1 ++ [csqT]) ?x] => set (R := res (r1 ++ [csqT]) x) end.
    unfold res at 1. cbn [map app format_type]. fstep. subst R.
    pose proof (IH (S (S n) + g) csqT (res (sufs n ++ [nx]) tail) csq_not_open c1 r1 E1) as E2. unfold mk in E2. rewrite E2. clear E2. fstep.
    replace (tfuel v + (S (S n) + g)) with (S n + (tfuel v + S g)) by lia.
    pose proof (suffix_loop_ok n (tfuel v + S g) (((([109; 97; 112]%N ++ [] ++ [91%N]) ++ [] ++ k) ++ [] ++ [44%N]) ++ sp ++ ty_text v ++ [93%N]) nx tail csqT Hk) as E3. unfold mk in E3.
    refine (eq_trans E3 _). unfold kept. f_equal. rewrite <- !app_assoc. reflexivity.
Qed.

(* ================= struct fields of any type ================= *)
Definition tfield := (tyx * bytes)%type.
Definition tfield_toks (f : tfield) : list token := ty_toks (fst f) ++ [idT (snd f); semiT; nlT].
Definition tfields_toks (fl : list tfield) : list token := flat_map tfield_toks fl.
Definition tfield_of (f : tfield) : field :=
  {| f_type := ft_of (fst f); f_name := snd f; f_comment := []; f_tags := []; f_depmsg := []; f_dep := false |}.

Lemma read_type_kept G c0 rs c : read_field_type G (kept c0 rs) = read_field_type G (mk (NT c0 [] :: rs) c false).
Proof. destruct G as [|G]; [reflexivity|]. cbn [read_field_type]. pstep. reflexivity. Qed.

Lemma semi_not_open nm : N.eqb (kind (idT nm)) kOpenSq = false. Proof. reflexivity. Qed.

Ltac sstep1 :=
  cbv beta iota zeta delta [bind p_next p_haserr p_kind p_tok p_unnext ret fail expect_any_of_next expect_next skip_eol_comments mk kept keep rs cur perrs];
  cbn [N.eqb Pos.eqb orb andb negb kind concrete kIdent kOpenSq kCloseSq kComma kSemi kNewline kCloseCu kOpenCu kLineC kBlockC kInt kArrow
       arrayT mapT osqT csqT commaT idT semiT nlT closeT].
Ltac sstep := repeat progress sstep1.

Lemma struct_loop_tfield f g fs tail : ty_keys_ok (fst f) ->
  read_struct_loop (S (tfuel (fst f) + S g)) fs [] [] [] false (mk (res (tfield_toks f) tail) nlT false)
  = read_struct_loop (tfuel (fst f) + g) (fs ++ [tfield_of f]) [] [] [] false (mk tail nlT false).
Proof.
  destruct f as [t nm]. unfold tfield_toks, tfield_of. cbn [fst snd]. intros Hok.
  destruct (ty_toks_ne t) as (c0 & r0 & E0).
  assert (Hk0 : kin (kind c0) [kIdent; 12%N; 11%N] = true /\ N.eqb (kind c0) kNewline = false).
  { destruct t; cbn [ty_toks app] in E0; inversion E0; subst; split; reflexivity. }
  destruct Hk0 as [Hk1 Hk2].
  rewrite E0. change ((c0 :: r0) ++ [idT nm; semiT; nlT]) with ([c0] ++ (r0 ++ [idT nm; semiT; nlT])). rewrite res_app.
  match goal with |- context [res (r0 ++ ?y) ?x] => set (R := res (r0 ++ y) x) end.
  unfold res at 1. cbn [map app read_struct_loop]. sstep. rewrite Hk2, Hk1. sstep.
  subst R. pose proof (read_type_kept (tfuel t + S g) c0 (res (r0 ++ [idT nm; semiT; nlT]) tail) nlT) as Ek. unfold kept in Ek. rewrite Ek. clear Ek.
  change (NT c0 [] :: res (r0 ++ [idT nm; semiT; nlT]) tail) with (res ((c0 :: r0) ++ [idT nm] ++ [semiT; nlT]) tail).
  rewrite <- E0, app_assoc, res_app.
  rewrite (read_type_ok t Hok (S g) (idT nm) (res [semiT; nlT] tail) nlT (semi_not_open nm)).
  unfold res. cbn [map app]. sstep.
  replace (tfuel t + S g) with (S (tfuel t + g)) by lia. cbn [read_struct_loop]. sstep. reflexivity.
Qed.

Definition fsum (fl : list tfield) : nat := fold_right (fun f acc => tfuel (fst f) + 2 + acc) 0 fl.
Definition tsum (fl : list tfield) : nat := fold_right (fun f acc => tfuel (fst f) + acc) 0 fl.

Lemma struct_loop_tfields : forall fl g fs tail, Forall (fun f => ty_keys_ok (fst f)) fl ->
  read_struct_loop (fsum fl + g) fs [] [] [] false (mk (res (tfields_toks fl) tail) nlT false)
  = read_struct_loop (tsum fl + g) (fs ++ map tfield_of fl) [] [] [] false (mk tail nlT false).
Proof.
  induction fl as [|f fl IH]; intros g fs tail Hok.
  - cbn [fsum tsum fold_right plus tfields_toks flat_map map res app]. now rewrite app_nil_r.
  - inversion Hok as [|? ? Hf Hr]; subst. cbn [tfields_toks flat_map fsum tsum fold_right]. fold (tfields_toks fl). fold (fsum fl). fold (tsum fl).
    rewrite res_app.
    replace (tfuel (fst f) + 2 + fsum fl + g) with (S (tfuel (fst f) + S (fsum fl + g))) by lia.
    rewrite (struct_loop_tfield f _ fs _ Hf).
    replace (tfuel (fst f) + (fsum fl + g)) with (fsum fl + (tfuel (fst f) + g)) by lia.
    rewrite (IH _ _ _ Hr). cbn [map]. rewrite <- app_assoc. f_equal. lia.
Qed.

Definition tstruct_toks (nm : bytes) (fl : list tfield) : list token := [structT; idT nm; openT; nlT] ++ tfields_toks fl ++ [closeT; nlT].
Definition tstruct_of (nm : bytes) (fl : list tfield) : struct_ :=
  {| s_name := nm; s_comment := []; s_fields := map tfield_of fl; s_opcode := 0; s_readonly := false |}.

Lemma read_tstruct_ok nm fl g tail c : Forall (fun f => ty_keys_ok (fst f)) fl ->
  read_struct (fsum fl + S (S g)) (mk (res ([idT nm; openT; nlT] ++ tfields_toks fl ++ [closeT]) tail) c false)
  = POk (tstruct_of nm fl) (mk tail closeT false).
Proof.
  intros Hok. rewrite res_app, read_struct_head. unfold bind. rewrite res_app, (struct_loop_tfields fl _ [] _ Hok).
  replace (tsum fl + S (S g)) with (S (S (tsum fl + g))) by lia. rewrite struct_loop_close. reflexivity.
Qed.

Lemma top_tstruct nm fl g f tail c : Forall (fun f => ty_keys_ok (fst f)) fl ->
  top_loop (S (fsum fl + S (S g))) f [] 0%N false false (mk (res (tstruct_toks nm fl) tail) c false)
  = top_loop (fsum fl + S g) (add_struct f (tstruct_of nm fl)) [] 0%N false false (mk tail nlT false).
Proof.
  intros Hok. unfold tstruct_toks.
  change ([structT; idT nm; openT; nlT] ++ tfields_toks fl ++ [closeT; nlT])
    with ([structT] ++ ([idT nm; openT; nlT] ++ tfields_toks fl ++ [closeT] ++ [nlT])).
  rewrite res_app, top_struct_head. unfold bind.
  replace ([idT nm; openT; nlT] ++ tfields_toks fl ++ [closeT] ++ [nlT])
    with (([idT nm; openT; nlT] ++ tfields_toks fl ++ [closeT]) ++ [nlT]) by (rewrite <- !app_assoc; reflexivity).
  rewrite res_app, (read_tstruct_ok nm fl g _ _ Hok). cbn [s_name s_fields tstruct_of].
  replace (fsum fl + S (S g)) with (S (fsum fl + S g)) by lia.
  rewrite top_newline. reflexivity.
Qed.

(* ---------- the formatter on such a struct ---------- *)
Require Import Bebop.front.FmtInv.

Definition tfield_text (f : tfield) : bytes := tab ++ ty_text (fst f) ++ sp ++ snd f ++ [59%N] ++ nlb.
Definition tfields_text (fl : list tfield) : bytes := flat_map tfield_text fl.

Ltac gstep1 :=
  cbv beta iota zeta delta [bind p_next p_haserr p_kind p_tok p_unnext ret fail conc next_cat mk kept keep rs cur perrs];
  cbn [N.eqb Pos.eqb orb andb negb kind concrete kIdent kOpenSq kCloseSq kComma kSemi kNewline kCloseCu kOpenCu kLineC kBlockC kInt kArrow
       arrayT mapT osqT csqT commaT idT semiT nlT closeT].
Ltac gstep := repeat progress gstep1.

Lemma fmt_tfield f g acc tail :
  format_struct_loop (S (tfuel (fst f) + S g)) tab acc (mk (res (tfield_toks f) tail) nlT false)
  = format_struct_loop (tfuel (fst f) + g) tab (acc ++ tfield_text f) (mk tail nlT false).
Proof.
  destruct f as [t nm]. unfold tfield_toks, tfield_text. cbn [fst snd].
  destruct (ty_toks_ne t) as (c0 & r0 & E0).
  assert (Hk0 : kin (kind c0) [kIdent; 11%N; 12%N] = true /\ N.eqb (kind c0) kLineC = false /\ N.eqb (kind c0) kBlockC = false /\ N.eqb (kind c0) kOpenSq = false).
  { destruct t; cbn [ty_toks app] in E0; inversion E0; subst; repeat split; reflexivity. }
  destruct Hk0 as (Hk1 & Hk2 & Hk3 & Hk4).
  rewrite E0. change ((c0 :: r0) ++ [idT nm; semiT; nlT]) with ([c0] ++ (r0 ++ [idT nm] ++ [semiT; nlT])). rewrite res_app, app_assoc, res_app.
  match goal with |- context [res (r0 ++ ?y) ?x] => set (R := res (r0 ++ y) x) end.
  unfold res at 1. cbn [map app format_struct_loop]. gstep. rewrite Hk2, Hk3, Hk4, Hk1. gstep.
  subst R.
  pose proof (fmt_type_ok t (S g) (idT nm) (res [semiT; nlT] tail) (semi_not_open nm) c0 r0 E0) as Et. unfold mk in Et. rewrite Et. clear Et.
  unfold res. cbn [map app]. gstep.
  replace (tfuel t + S g) with (S (tfuel t + g)) by lia. cbn [format_struct_loop]. gstep.
  f_equal. rewrite <- !app_assoc. reflexivity.
Qed.

Lemma fmt_tfields : forall fl g acc tail,
  format_struct_loop (fsum fl + g) tab acc (mk (res (tfields_toks fl) tail) nlT false)
  = format_struct_loop (tsum fl + g) tab (acc ++ tfields_text fl) (mk tail nlT false).
Proof.
  induction fl as [|f fl IH]; intros g acc tail.
  - cbn [fsum tsum fold_right plus tfields_toks tfields_text flat_map map res app]. now rewrite app_nil_r.
  - cbn [tfields_toks tfields_text flat_map fsum tsum fold_right]. fold (tfields_toks fl). fold (tfields_text fl). fold (fsum fl). fold (tsum fl).
    rewrite res_app.
    replace (tfuel (fst f) + 2 + fsum fl + g) with (S (tfuel (fst f) + S (fsum fl + g))) by lia.
    rewrite fmt_tfield.
    replace (tfuel (fst f) + (fsum fl + g)) with (fsum fl + (tfuel (fst f) + g)) by lia.
    rewrite IH, <- app_assoc. f_equal. lia.
Qed.

Definition tstruct_text (nm : bytes) (fl : list tfield) : bytes :=
  [115; 116; 114; 117; 99; 116]%N ++ sp ++ nm ++ sp ++ [123%N] ++ nlb ++ tfields_text fl ++ [125%N] ++ nlb.

Lemma fmt_tstruct_ok nm fl g tail :
  format_struct (S (fsum fl + S (S g))) false tab (mk (res ([idT nm; openT; nlT] ++ tfields_toks fl ++ [closeT]) tail) structT false)
  = POk (tstruct_text nm fl) (mk tail closeT false).
Proof.
  rewrite res_app, fmt_struct_head, res_app, fmt_tfields.
  replace (tsum fl + S (S g)) with (S (S (tsum fl + g))) by lia. rewrite fmt_close.
  unfold tstruct_text. rewrite <- !app_assoc. reflexivity.
Qed.

Lemma fmt_top_tstruct nm fl g out nl tail c :
  format_loop (S (S (fsum fl + S (S g)))) out false nl (mk (res (tstruct_toks nm fl) tail) c false)
  = format_loop (fsum fl + S (S g)) ((if nl then out ++ nlb else out) ++ tstruct_text nm fl) false true (mk tail nlT false).
Proof.
  unfold tstruct_toks.
  change ([structT; idT nm; openT; nlT] ++ tfields_toks fl ++ [closeT; nlT])
    with ([structT] ++ ([idT nm; openT; nlT] ++ tfields_toks fl ++ [closeT] ++ [nlT])).
  rewrite res_app, fmt_top_struct_head. unfold bind.
  replace ([idT nm; openT; nlT] ++ tfields_toks fl ++ [closeT] ++ [nlT])
    with (([idT nm; openT; nlT] ++ tfields_toks fl ++ [closeT]) ++ [nlT]) by (rewrite <- !app_assoc; reflexivity).
  rewrite res_app, fmt_tstruct_ok. rewrite fmt_top_newline. reflexivity.
Qed.
