(* The tokenizer model over a FAILING reader: every Next() call that returns false leaves an error recorded, and none of
   them is the clean end-of-input marker (which Next() would remove).  With ParseStrict.v: ReadFile over a failing reader
   never returns a File. *)
From Coq Require Import List NArith Bool Arith Lia.
Require Import Bebop.front.Tok Bebop.front.TokSafe.
Import ListNotations.

(* the reader fails when its data is used up, and no clean EOF has been recorded *)
Definition fi (s : tstate) : Prop := failing (buf s) = true /\ ~ In KEOF (errs s).
Definition keeps {A} (r : res A) : Prop := match r with R _ s1 => fi s1 | RPanic => True end.

Lemma rb_fi s r s1 : fi s -> tr_read_byte s = (r, s1) -> fi s1 /\ r <> inr REOF.
Proof.
  unfold fi, tr_read_byte, read_byte. intros [Hf Hk]. destruct (rest (buf s)) as [|c rr]; intros [= <- <-]; cbn; (split; [split; assumption|]); [rewrite Hf|]; discriminate.
Qed.
Lemma ub_fi s s2 : fi s -> tr_unread_byte s = Some s2 -> fi s2.
Proof. unfold fi, tr_unread_byte, unread_byte. intros [Hf Hk]. destruct (lastByte (buf s)); [|discriminate]. intros [= <-]. cbn. split; assumption. Qed.
Lemma ae_fi s e : fi s -> e <> KEOF -> fi (add_err s e).
Proof. unfold fi, add_err. intros [Hf Hk] He. cbn. split; [exact Hf|]. intros Hin. apply in_app_or in Hin. destruct Hin as [Hin|[Hin|[]]]; [auto|congruence]. Qed.

Ltac kp IH :=
  repeat first
    [ exact I
    | assumption
    | apply IH; assumption
    | apply ae_fi; [assumption|discriminate]
    | match goal with |- keeps (if ?c then _ else _) => destruct c end
    | match goal with H : fi ?s1, E : tr_unread_byte ?s1 = Some ?s2 |- _ => pose proof (ub_fi s1 s2 H E); clear E end
    | match goal with |- keeps (match tr_unread_byte ?s1 with _ => _ end) => destruct (tr_unread_byte s1) eqn:?Eu end
    | progress cbn [keeps] ].

Lemma number_loop_fi : forall g s conc k a b c d, fi s -> keeps (number_loop g s conc k a b c d).
Proof.
  induction g as [|g IH]; intros s conc k a b c d H; [exact H|]. cbn [number_loop].
  destruct (tr_read_byte s) as [[x|[|]] s1] eqn:E; destruct (rb_fi s _ s1 H E) as [H1 Hn]; [|congruence|]; kp IH.
Qed.
Lemma skip_ws_fi : forall g s, fi s -> keeps (skip_ws g s).
Proof.
  induction g as [|g IH]; intros s H; [exact H|]. cbn [skip_ws].
  destruct (tr_read_byte s) as [[x|e] s1] eqn:E; destruct (rb_fi s _ s1 H E) as [H1 Hn]; kp IH.
Qed.
Lemma block_comment_fi : forall g s conc l, fi s -> keeps (block_comment g s conc l).
Proof.
  induction g as [|g IH]; intros s conc l H; [exact H|]. cbn [block_comment].
  destruct (tr_read_byte s) as [[x|[|]] s1] eqn:E; destruct (rb_fi s _ s1 H E) as [H1 Hn]; [|congruence|]; kp IH.
  pose proof (skip_ws_fi (S (length (rest (buf s1)))) s1 H1) as Hs. destruct (skip_ws _ s1); [exact Hs|exact I].
Qed.
Lemma string_lit_fi : forall g s conc e, fi s -> keeps (string_lit g s conc e).
Proof.
  induction g as [|g IH]; intros s conc e H; [exact H|]. cbn [string_lit].
  destruct (tr_read_byte s) as [[x|[|]] s1] eqn:E; destruct (rb_fi s _ s1 H E) as [H1 Hn]; [|congruence|]; kp IH.
Qed.

Lemma line_comment_fi s conc : fi s -> keeps (line_comment s conc).
Proof.
  unfold fi, line_comment, read_bytes_nl. intros [Hf Hk]. destruct (split_nl (rest (buf s)) []) as [line [r|]].
  - cbn [keeps fi with_buf buf errs failing]. split; assumption.
  - rewrite Hf. cbn [keeps fi with_buf buf errs failing add_err]. split; [reflexivity|].
    intros Hin. apply in_app_or in Hin. destruct Hin as [Hin|[Hin|[]]]; [auto|discriminate].
Qed.

Lemma find_fi : forall g n s conc, fi s -> keeps (find g n s conc).
Proof.
  induction g as [|g IH]; intros n s conc H; [exact H|]. cbn [find].
  destruct (tr_read_byte s) as [[x|[|]] s1] eqn:E; destruct (rb_fi s _ s1 H E) as [H1 Hn]; [|congruence|cbn [keeps]; apply ae_fi; [assumption|discriminate]].
  destruct (skips n x); [apply IH; exact H1|].
  assert (D : forall b s', fi s' ->
            keeps (let conc' := conc ++ [b] in
                   let fuel := S (length (rest (buf s'))) in
                   match succ n b with
                   | Term k => R (Some {| kind := k; concrete := conc' |}) s'
                   | Num => match number_loop fuel s' conc' kInt true false false false with R t s2 => R (Some t) s2 | RPanic => RPanic end
                   | Str => match string_lit fuel s' conc' false with R t s2 => R (Some t) s2 | RPanic => RPanic end
                   | LineC => match line_comment s' conc' with R t s2 => R (Some t) s2 | RPanic => RPanic end
                   | BlockC => match block_comment fuel s' conc' 0%N with R t s2 => R (Some t) s2 | RPanic => RPanic end
                   | Go n' => find g n' s' conc'
                   | NoSucc => R None s'
                   end)).
  { intros b s' Hs'. cbv zeta. destruct (succ n b).
    - exact Hs'.
    - pose proof (number_loop_fi (S (length (rest (buf s')))) s' (conc ++ [b]) kInt true false false false Hs') as K. destruct (number_loop _ s' _ _ _ _ _ _); [exact K|exact I].
    - pose proof (string_lit_fi (S (length (rest (buf s')))) s' (conc ++ [b]) false Hs') as K. destruct (string_lit _ s' _ _); [exact K|exact I].
    - pose proof (line_comment_fi s' (conc ++ [b]) Hs') as K. destruct (line_comment s' _); [exact K|exact I].
    - pose proof (block_comment_fi (S (length (rest (buf s')))) s' (conc ++ [b]) 0%N Hs') as K. destruct (block_comment _ s' _ _); [exact K|exact I].
    - apply IH. exact Hs'.
    - exact Hs'. }
  destruct (succ n x) eqn:Es; try (specialize (D x s1 H1); cbv zeta in D; rewrite Es in D; exact D).
  destruct conc as [|c0 conc0]; [exact H1|]. apply D. apply ae_fi; [exact H1|discriminate].
Qed.

Lemma rr_fi s r b1 : fi s -> read_rune (buf s) = (r, b1) -> fi (with_buf s b1) /\ r <> inr REOF.
Proof.
  unfold fi, read_rune. intros [Hf Hk]. destruct (rest (buf s)) as [|c rr]; intros [= <- <-]; cbn; (split; [split; assumption|]); [rewrite Hf|]; discriminate.
Qed.
Lemma ur_fi s b1 : fi (with_buf s b1) -> fi (with_buf s (unread_rune b1)).
Proof. unfold fi, unread_rune. cbn [with_buf buf errs]. intros [Hf Hk]. destruct (lastRune b1), (lastByte b1); cbn; split; assumption. Qed.

(* identifiers: the state stays in the invariant; giving up means an error was recorded (fuel permitting) *)
Lemma next_ident_fi : forall g s conc, fi s -> length (rest (buf s)) < g ->
  match next_ident g s conc with R o s1 => fi s1 /\ (o = None -> errs s1 <> []) | RPanic => True end.
Proof.
  induction g as [|g IH]; intros s conc H Hg; [lia|]. cbn [next_ident].
  destruct (read_rune (buf s)) as [[c|[|]] b1] eqn:E; destruct (rr_fi s _ b1 H E) as [H1 Hn]; [|congruence|].
  - destruct (is_letter c || is_digit c || N.eqb c 95).
    + apply IH; [exact H1|]. unfold read_rune in E. destruct (rest (buf s)) as [|c' rr]; [discriminate|]. injection E as <- <-. cbn in *. lia.
    + split; [apply ur_fi; exact H1|discriminate].
  - split; [apply ae_fi; [exact H1|discriminate]|]. intros _. unfold add_err. cbn. destruct (errs s); discriminate.
Qed.

Lemma last_err_in l e : last_err l = Some e -> In e l.
Proof. induction l as [|a [|b r] IH]; cbn [last_err]; [discriminate|intros [= <-]; now left|intros H; right; exact (IH H)]. Qed.
Lemma last_err_some l : last_err l <> None -> l <> [].
Proof. destruct l; [cbn; congruence|discriminate]. Qed.

(* one Next() call over a failing reader: the invariant is kept, and `false` comes with an error *)
Lemma add_err_ne s e : errs (add_err s e) <> [].
Proof. unfold add_err. cbn. destruct (errs s); discriminate. Qed.

Theorem next_fi s : fi s -> match next s with R o s1 => fi s1 /\ (o = None -> errs s1 <> []) | RPanic => True end.
Proof.
  intros H. unfold next.
  pose proof (find_fi (S (S (length (rest (buf s))))) NRoot s [] H) as K.
  pose proof (find_ok (S (S (length (rest (buf s))))) NRoot s [] ltac:(lia)) as P.
  destruct (find _ NRoot s []) as [ot s1|]; [|exact I]. cbn [keeps find_post] in *. destruct P as [P1 P2].
  (* what happens when find gave up without a new error: the byte is pushed back and read as a rune *)
  assert (Tail : ot = None -> length (errs s1) <= length (errs s) ->
            match (match tr_unread_byte s1 with
                   | None => RPanic
                   | Some s2 =>
                       match read_rune (buf s2) with
                       | (inr REOF, b3) => R None (add_err (with_buf s2 b3) KUEOF)
                       | (inr RIO, b3) => R None (add_err (with_buf s2 b3) KIO)
                       | (inl c, b3) => if is_letter c then next_ident (S (S (length (rest (buf s))))) (with_buf s2 b3) [c]
                                        else R None (add_err (with_buf s2 b3) KOther)
                       end
                   end) with R o s3 => fi s3 /\ (o = None -> errs s3 <> []) | RPanic => True end).
  { intros Ho Hge. destruct (P2 Ho ltac:(lia)) as [L Hlen].
    destruct (unread_lb s1 L) as (s2 & Eu & Ee2). rewrite Eu. pose proof (ub_fi s1 s2 K Eu) as K2.
    assert (Hr2 : length (rest (buf s2)) <= length (rest (buf s))).
    { unfold tr_unread_byte, unread_byte in Eu. destruct (lastByte (buf s1)); [|discriminate]. injection Eu as <-. cbn. lia. }
    destruct (read_rune (buf s2)) as [[c|[|]] b3] eqn:Er; destruct (rr_fi s2 _ b3 K2 Er) as [K3 Hn]; [|congruence|].
    - destruct (is_letter c).
      + apply next_ident_fi; [exact K3|]. unfold read_rune in Er. destruct (rest (buf s2)) as [|c' rr] eqn:E2; [discriminate|]. injection Er as <- <-. cbn in *. lia.
      + split; [apply ae_fi; [exact K3|discriminate]|]. intros _. apply add_err_ne.
    - split; [apply ae_fi; [exact K3|discriminate]|]. intros _. apply add_err_ne. }
  destruct (last_err (errs s1)) as [e|] eqn:El.
  - assert (Hne : errs s1 <> []) by (apply last_err_some; congruence).
    destruct e.
    + exfalso. apply (proj2 K). apply last_err_in. exact El.
    + split; [exact K|]. intros _. exact Hne.
    + destruct ot as [t|]; [split; [exact K|discriminate]|].
      destruct (Nat.ltb_spec (length (errs s)) (length (errs s1))) as [Hlt|Hge]; [split; [exact K|intros _; exact Hne]|]. exact (Tail eq_refl Hge).
    + destruct ot as [t|]; [split; [exact K|discriminate]|].
      destruct (Nat.ltb_spec (length (errs s)) (length (errs s1))) as [Hlt|Hge]; [split; [exact K|intros _; exact Hne]|]. exact (Tail eq_refl Hge).
  - destruct ot as [t|]; [split; [exact K|discriminate]|].
    destruct (Nat.ltb_spec (length (errs s)) (length (errs s1))) as [Hlt|Hge].
    + split; [exact K|]. intros _ E0. rewrite E0 in Hlt. cbn in Hlt. lia.
    + exact (Tail eq_refl Hge).
Qed.

(* every result of a run over a failing reader: tokens, or `false` with an error recorded - and no panic *)
Definition deadr (r : nres) : Prop := match r with NF e => e <> [] | NP => False | NT _ _ => True end.
Theorem next_results_dead : forall n s, fi s -> Forall deadr (next_results n s).
Proof.
  induction n as [|n IH]; intros s H; [constructor|]. cbn [next_results].
  pose proof (next_fi s H) as K. pose proof (next_never_panics s) as Np.
  destruct (next s) as [[t|] s1|]; [| |contradiction]; destruct K as [K1 K2]; constructor; try exact I; try (apply IH; exact K1).
  cbn [deadr]. apply K2. reflexivity.
Qed.
Print Assumptions next_results_dead.
