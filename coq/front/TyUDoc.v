(* Doc comments, tags and deprecations on UNION MEMBERS in the inversion theorems: a member `N -> struct B {..}` / `N -> message B
   {..}` preceded by `//` comment lines - the comment of the member's struct / message, and the member's tags - and then,
   optionally, by a [deprecated("reason")] line.  (With the repair 4fdef8a this holds after members whose bodies span lines
   too: a member ends at the newline after its close curly, and what follows is the next member's.) *)
From Coq Require Import List NArith ZArith Bool Arith Lia.
Require Import Bebop.front.Tok Bebop.front.Parse Bebop.front.Fmt Bebop.front.TokInv Bebop.front.LexInv Bebop.front.ParseInv Bebop.front.FmtInv Bebop.front.MsgInv.
Require Import Bebop.front.GenInv Bebop.front.Items Bebop.front.TyInv Bebop.front.TyMsg Bebop.front.TyItems Bebop.front.TyUnion Bebop.front.TyUnionItem Bebop.front.TyOpcode Bebop.front.TyEnum Bebop.front.TyDep Bebop.front.TyDoc Bebop.front.TyFDoc.
Import ListNotations.

Arguments parse_uint : simpl never.
Arguments has_idx : simpl never.

Definition cubranch := (list bytes * (option bytes * ubranch))%type.
Definition cub_toks (b : cubranch) : list token := doc_toks (fst b) ++ cdep_toks (fst (snd b)) ++ ub_toks (snd (snd b)).
Definition cubs_toks (bl : list cubranch) : list token := flat_map cub_toks bl.
Definition cub_field (b : cubranch) : N * ufield :=
  let cmt := join_nl (fst b) in let tags := tags_of (fst b) in
  let dm := match fst (snd b) with Some x => x | None => [] end in let dp := match fst (snd b) with Some _ => true | None => false end in
  match snd (snd b) with
  | UBs ds i nm fl => (i, {| u_msg := None; u_struct := Some {| s_name := nm; s_comment := cmt; s_fields := map tfield_of fl; s_opcode := 0; s_readonly := false |};
                             u_tags := tags; u_depmsg := dm; u_dep := dp |})
  | UBm ds i nm fl => (i, {| u_msg := Some {| m_name := nm; m_comment := cmt; m_fields := map tmfield_of fl; m_opcode := 0 |}; u_struct := None;
                             u_tags := tags; u_depmsg := dm; u_dep := dp |})
  end.

Ltac vstep1 :=
  cbv beta iota zeta delta [bind p_next p_haserr p_kind p_tok p_unnext ret fail kin existsb expect_any_of_next expect_next opt_newline read_deprecated skip_eol_comments conc next_cat deprecated_line
                            mk kept keep rs cur perrs];
  cbn [N.eqb Pos.eqb orb andb negb kind concrete kIdent kOpenSq kCloseSq kComma kSemi kNewline kCloseCu kOpenCu kLineC kBlockC kInt kArrow kString kOpenPar kClosePar
       arrayT mapT osqT csqT commaT idT semiT nlT closeT numT arrowT structT messageT unionT openT lcT oparT cparT depT strT].
Ltac vstep := repeat progress vstep1.

Lemma ul_doc body g fs cm tags dm dep tail c : cbody_ok body -> N.eqb (kind c) kCloseCu = false ->
  read_union_loop (S g) fs cm tags dm dep (mk (res [lcT body] tail) c false)
  = read_union_loop g fs (cm ++ [body]) (add_tag tags body) dm dep (mk tail (lcT body) false).
Proof.
  intros H Hc. unfold res. cbn [map app read_union_loop]. vstep. rewrite Hc. vstep.
  change {| kind := 32; concrete := 47%N :: 47%N :: body ++ [10%N] |} with (lcT body). rewrite (sanitize_lc body H). reflexivity.
Qed.
Lemma ul_docs : forall cs g fs cm tags tail c, Forall cbody_ok cs -> N.eqb (kind c) kCloseCu = false ->
  exists c', N.eqb (kind c') kCloseCu = false /\
    read_union_loop (length cs + g) fs cm tags [] false (mk (res (doc_toks cs) tail) c false)
    = read_union_loop g fs (cm ++ cs) (fold_left add_tag cs tags) [] false (mk tail c' false).
Proof.
  induction cs as [|b cs IH]; intros g fs cm tags tail c H Hc.
  - exists c. split; [exact Hc|]. cbn [length plus doc_toks map res app fold_left]. now rewrite app_nil_r.
  - inversion H as [|? ? Hb Hr]; subst. cbn [length plus doc_toks map fold_left]. change (lcT b :: map lcT cs) with ([lcT b] ++ doc_toks cs).
    rewrite res_app, (ul_doc b _ fs cm tags [] false _ c Hb Hc). destruct (IH g fs (cm ++ [b]) (add_tag tags b) tail (lcT b) Hr eq_refl) as (c' & Hc' & E).
    exists c'. split; [exact Hc'|]. rewrite E, <- app_assoc. reflexivity.
Qed.
Lemma ul_dep body G fs cm tags tail c : Forall (fun x => dplain x = true) body -> N.eqb (kind c) kCloseCu = false ->
  read_union_loop (S G) fs cm tags [] false (mk (res (dep_toks body) tail) c false)
  = read_union_loop G fs cm tags body true (mk tail nlT false).
Proof.
  intros Hb Hc. unfold dep_toks, res. cbn [map app read_union_loop]. vstep. rewrite Hc. vstep.
  change (34%N :: body ++ [34%N]) with (concrete (strT body)). rewrite (unquote_str body Hb). reflexivity.
Qed.

(* the member itself, with whatever is pending and whatever token was read last *)
Lemma ul_branch_gen b G g fs cm tags dm dep tail c :
  G = ub_fuel b + S (S g) -> ub_ok1 b -> has_idx (ub_i b) fs = false -> N.eqb (kind c) kCloseCu = false ->
  read_union_loop (S G) fs cm tags dm dep (mk (res (ub_toks b) tail) c false)
  = read_union_loop G
      (fs ++ [match b with
              | UBs ds i nm fl => (i, {| u_msg := None; u_struct := Some {| s_name := nm; s_comment := join_nl cm; s_fields := map tfield_of fl; s_opcode := 0; s_readonly := false |};
                                         u_tags := tags; u_depmsg := dm; u_dep := dep |})
              | UBm ds i nm fl => (i, {| u_msg := Some {| m_name := nm; m_comment := join_nl cm; m_fields := map tmfield_of fl; m_opcode := 0 |}; u_struct := None;
                                         u_tags := tags; u_depmsg := dm; u_dep := dep |})
              end]) [] [] [] false (mk tail nlT false).
Proof.
  intros HG [Hp Hf] Hi Hc.
  destruct b as [ds i nm fl|ds i nm fl]; cbn [ub_toks ub_fuel ub_i ub_ds] in *.
  - rewrite res_app, (res_app ([idT nm; openT; nlT] ++ tfields_toks fl ++ [closeT])).
    match goal with |- context [res ([idT nm; openT; nlT] ++ ?y) ?x] => set (R := res ([idT nm; openT; nlT] ++ y) x) end.
    unfold res at 1. cbn [map app read_union_loop]. ustep. rewrite Hc. ustep. rewrite Hp. cbv beta iota. rewrite Hi. ustep.
    subst R. pose proof (read_tstruct_ok' G nm fl g (res [nlT] tail) structT HG Hf) as Er. unfold mk in Er. rewrite Er. clear Er. unfold res. cbn [map app]. ustep.
    reflexivity.
  - rewrite res_app, (res_app ([idT nm; openT; nlT] ++ tmfields_toks fl ++ [closeT])).
    match goal with |- context [res ([idT nm; openT; nlT] ++ ?y) ?x] => set (R := res ([idT nm; openT; nlT] ++ y) x) end.
    unfold res at 1. cbn [map app read_union_loop]. ustep. rewrite Hc. ustep. rewrite Hp. cbv beta iota. rewrite Hi. ustep.
    subst R. pose proof (read_tmessage_ok' G nm fl g (res [nlT] tail) messageT HG Hf) as Er. unfold mk in Er. rewrite Er. clear Er. unfold res. cbn [map app]. ustep.
    reflexivity.
Qed.

Definition cub_ok1 (b : cubranch) : Prop :=
  Forall cbody_ok (fst b) /\ ub_ok1 (snd (snd b)) /\ match fst (snd b) with Some x => Forall (fun y => dplain y = true) x | None => True end.
Definition cub_fuel (b : cubranch) : nat := length (fst b) + (match fst (snd b) with Some _ => 1 | None => 0 end) + (ub_fuel (snd (snd b)) + 3).
Lemma ul_cbranch b g fs tail c : cub_ok1 b -> has_idx (ub_i (snd (snd b))) fs = false -> N.eqb (kind c) kCloseCu = false ->
  read_union_loop (cub_fuel b + g) fs [] [] [] false (mk (res (cub_toks b) tail) c false)
  = read_union_loop (ub_fuel (snd (snd b)) + S (S g)) (fs ++ [cub_field b]) [] [] [] false (mk tail nlT false).
Proof.
  destruct b as [cs [d b0]]. unfold cub_ok1, cub_fuel, cub_toks, cub_field, tags_of. cbn [fst snd]. intros (Hcs & Hb & Hd) Hi Hc.
  rewrite res_app.
  match goal with |- read_union_loop ?n _ _ _ _ _ _ = _ => replace n with (length cs + ((match d with Some _ => 1 | None => 0 end) + (ub_fuel b0 + 3 + g))) by lia end.
  destruct (ul_docs cs ((match d with Some _ => 1 | None => 0 end) + (ub_fuel b0 + 3 + g)) fs [] [] (res (cdep_toks d ++ ub_toks b0) tail) c Hcs Hc) as (c' & Hc' & E).
  rewrite E. cbn [app]. clear E.
  destruct d as [x|]; cbn [cdep_toks].
  - rewrite res_app. replace (1 + (ub_fuel b0 + 3 + g)) with (S (S (ub_fuel b0 + S (S g)))) by lia.
    rewrite (ul_dep x _ fs cs _ _ c' Hd Hc').
    rewrite (ul_branch_gen b0 _ g fs cs (fold_left add_tag cs []) x true tail nlT eq_refl Hb Hi eq_refl). destruct b0; reflexivity.
  - cbn [app]. replace (0 + (ub_fuel b0 + 3 + g)) with (S (ub_fuel b0 + S (S g))) by lia.
    rewrite (ul_branch_gen b0 _ g fs cs (fold_left add_tag cs []) [] false tail c' eq_refl Hb Hi Hc'). destruct b0; reflexivity.
Qed.

Fixpoint cubs_ok (seen : list N) (bl : list cubranch) : Prop :=
  match bl with
  | [] => True
  | b :: r => cub_ok1 b /\ ~ In (ub_i (snd (snd b))) seen /\ cubs_ok (ub_i (snd (snd b)) :: seen) r
  end.
Lemma cubs_ok_incl : forall bl s1 s2, (forall x, In x s2 -> In x s1) -> cubs_ok s1 bl -> cubs_ok s2 bl.
Proof.
  induction bl as [|b bl IH]; intros s1 s2 Hs H; [exact I|]. cbn [cubs_ok] in *. destruct H as (A & B & C).
  split; [exact A|]. split; [auto|]. apply (IH (ub_i (snd (snd b)) :: s1)); [|exact C]. intros x [<-|Hx]; [now left|right; auto].
Qed.
Definition cusum (bl : list cubranch) : nat := fold_right (fun b acc => cub_fuel b + acc) 0 bl.
Lemma cub_field_i b : fst (cub_field b) = ub_i (snd (snd b)).
Proof. destruct b as [cs [d [ds i nm fl|ds i nm fl]]]; reflexivity. Qed.
Lemma ul_cbranches : forall bl g fs tail, cubs_ok (map fst fs) bl ->
  read_union_loop (cusum bl + S (S g)) fs [] [] [] false (mk (res (cubs_toks bl ++ [closeT]) tail) nlT false)
  = POk (fs ++ map cub_field bl) (mk tail closeT false).
Proof.
  induction bl as [|b bl IH]; intros g fs tail Hok.
  - cbn [cubs_toks flat_map cusum fold_right map app plus]. rewrite app_nil_r. apply union_loop_close.
  - cbn [cubs_ok] in Hok. destruct Hok as (H1 & Hn & Hr).
    cbn [cubs_toks flat_map cusum fold_right map]. fold (cubs_toks bl). fold (cusum bl).
    assert (Hr' : cubs_ok (map fst (fs ++ [cub_field b])) bl).
    { rewrite map_app. cbn [map]. rewrite cub_field_i.
      apply (cubs_ok_incl bl (ub_i (snd (snd b)) :: map fst fs)); [|exact Hr]. intros x Hx. apply in_app_or in Hx. destruct Hx as [Hx|[<-|[]]]; [now right|now left]. }
    rewrite <- app_assoc, res_app, <- Nat.add_assoc.
    rewrite (ul_cbranch b (cusum bl + S (S g)) fs _ nlT H1 (has_idx_false _ _ Hn) eq_refl).
    replace (ub_fuel (snd (snd b)) + S (S (cusum bl + S (S g)))) with (cusum bl + S (S (ub_fuel (snd (snd b)) + S (S g)))) by lia.
    rewrite (IH _ _ _ Hr'). cbn [map]. rewrite <- app_assoc. reflexivity.
Qed.

Definition cunion_toks (nm : bytes) (bl : list cubranch) : list token := [unionT; idT nm; openT; nlT] ++ cubs_toks bl ++ [closeT; nlT].
Definition cunion_of (nm : bytes) (bl : list cubranch) : union_ := {| un_name := nm; un_comment := []; un_fields := map cub_field bl; un_opcode := 0 |}.
Lemma read_cunion_ok nm bl g tail c : cubs_ok [] bl ->
  read_union (cusum bl + S (S g)) (mk (res ([idT nm; openT; nlT] ++ cubs_toks bl ++ [closeT]) tail) c false)
  = POk (cunion_of nm bl) (mk tail closeT false).
Proof. intros Hok. rewrite res_app, read_union_head. unfold bind. rewrite (ul_cbranches bl g [] tail Hok). reflexivity. Qed.
Lemma top_cunion nm bl g f tail c : cubs_ok [] bl ->
  top_loop (S (cusum bl + S (S (S g)))) f [] 0%N false false (mk (res (cunion_toks nm bl) tail) c false)
  = top_loop (cusum bl + S (S g)) (add_union f (cunion_of nm bl)) [] 0%N false false (mk tail nlT false).
Proof.
  intros Hok. unfold cunion_toks.
  change ([unionT; idT nm; openT; nlT] ++ cubs_toks bl ++ [closeT; nlT])
    with ([unionT] ++ ([idT nm; openT; nlT] ++ cubs_toks bl ++ [closeT] ++ [nlT])).
  rewrite res_app, top_union_head. unfold bind.
  replace ([idT nm; openT; nlT] ++ cubs_toks bl ++ [closeT] ++ [nlT])
    with (([idT nm; openT; nlT] ++ cubs_toks bl ++ [closeT]) ++ [nlT]) by (rewrite <- !app_assoc; reflexivity).
  rewrite res_app, (read_cunion_ok nm bl (S g) _ _ Hok). cbn [un_name un_fields cunion_of].
  replace (cusum bl + S (S (S g))) with (S (cusum bl + S (S g))) by lia. rewrite top_newline. reflexivity.
Qed.

(* ---------- the formatter ---------- *)
Definition cub_text (b : cubranch) : bytes := fdocs_text (fst b) ++ cdep_text (fst (snd b)) ++ ub_text (snd (snd b)).
Definition cubs_text (bl : list cubranch) : bytes := flat_map cub_text bl.
Lemma fu_doc body g acc tail c :
  format_union_loop (S g) tab acc (mk (res [lcT body] tail) c false)
  = format_union_loop g tab (acc ++ tab ++ 47%N :: 47%N :: body ++ [10%N]) (mk tail (lcT body) false).
Proof. unfold res. cbn [map app format_union_loop]. vstep. reflexivity. Qed.
Lemma fu_docs : forall cs g acc tail c,
  exists c', format_union_loop (length cs + g) tab acc (mk (res (doc_toks cs) tail) c false)
           = format_union_loop g tab (acc ++ fdocs_text cs) (mk tail c' false).
Proof.
  induction cs as [|b cs IH]; intros g acc tail c.
  - exists c. cbn [length plus doc_toks map res app fdocs_text flat_map]. now rewrite app_nil_r.
  - cbn [length plus doc_toks map fdocs_text flat_map]. change (lcT b :: map lcT cs) with ([lcT b] ++ doc_toks cs). rewrite res_app, fu_doc.
    destruct (IH g (acc ++ tab ++ 47%N :: 47%N :: b ++ [10%N]) tail (lcT b)) as [c' E]. exists c'. rewrite E. fold (fdocs_text cs).
    rewrite <- !app_assoc. reflexivity.
Qed.
Lemma fu_dep_line body G acc tail c :
  format_union_loop (S (S G)) tab acc (mk (res (dep_toks body) tail) c false)
  = format_union_loop G tab (acc ++ dep_text body) (mk tail nlT false).
Proof.
  unfold dep_toks, res. cbn [map app format_union_loop]. vstep. f_equal. unfold dep_text. repeat (rewrite <- app_assoc || rewrite <- app_comm_cons). reflexivity.
Qed.
Definition cub_ffuel (b : cubranch) : nat := length (fst b) + (match fst (snd b) with Some _ => 2 | None => 0 end) + (ub_fuel (snd (snd b)) + 4).
Lemma fmt_cubranch b g acc tail c :
  format_union_loop (cub_ffuel b + g) tab acc (mk (res (cub_toks b) tail) c false)
  = format_union_loop (ub_fuel (snd (snd b)) + S (S g)) tab (acc ++ cub_text b) (mk tail nlT false).
Proof.
  destruct b as [cs [d b0]]. unfold cub_ffuel, cub_toks, cub_text. cbn [fst snd]. rewrite res_app.
  match goal with |- format_union_loop ?n _ _ _ = _ => replace n with (length cs + ((match d with Some _ => 2 | None => 0 end) + (ub_fuel b0 + 4 + g))) by lia end.
  destruct (fu_docs cs ((match d with Some _ => 2 | None => 0 end) + (ub_fuel b0 + 4 + g)) acc (res (cdep_toks d ++ ub_toks b0) tail) c) as [c' E]. rewrite E. clear E.
  destruct d as [x|]; cbn [cdep_toks cdep_text].
  - rewrite res_app. replace (2 + (ub_fuel b0 + 4 + g)) with (S (S (S (S (ub_fuel b0 + S (S g)))))) by lia.
    rewrite fu_dep_line, (fmt_ubranch b0 _ g _ _ nlT eq_refl), <- !app_assoc. reflexivity.
  - cbn [app]. replace (0 + (ub_fuel b0 + 4 + g)) with (S (S (ub_fuel b0 + S (S g)))) by lia.
    rewrite (fmt_ubranch b0 _ g _ _ c' eq_refl), <- !app_assoc. reflexivity.
Qed.
Definition cufsum (bl : list cubranch) : nat := fold_right (fun b acc => cub_ffuel b + acc) 0 bl.
Definition cursum (bl : list cubranch) : nat := fold_right (fun b acc => ub_fuel (snd (snd b)) + 2 + acc) 0 bl.
Lemma fmt_cubranches : forall bl g acc tail c,
  format_union_loop (cufsum bl + g) tab acc (mk (res (cubs_toks bl) tail) c false)
  = format_union_loop (cursum bl + g) tab (acc ++ cubs_text bl) (mk tail (match bl with [] => c | _ => nlT end) false).
Proof.
  induction bl as [|b bl IH]; intros g acc tail c.
  - cbn [cufsum cursum fold_right plus cubs_toks cubs_text flat_map res map app]. now rewrite app_nil_r.
  - cbn [cubs_toks cubs_text flat_map cufsum cursum fold_right]. fold (cubs_toks bl). fold (cubs_text bl). fold (cufsum bl). fold (cursum bl). rewrite res_app, <- Nat.add_assoc.
    rewrite (fmt_cubranch b (cufsum bl + g) acc _ c).
    replace (ub_fuel (snd (snd b)) + S (S (cufsum bl + g))) with (cufsum bl + (ub_fuel (snd (snd b)) + S (S g))) by lia.
    rewrite IH, <- app_assoc. replace (cursum bl + (ub_fuel (snd (snd b)) + S (S g))) with (ub_fuel (snd (snd b)) + 2 + cursum bl + g) by lia. destruct bl; reflexivity.
Qed.
Definition cunion_text (nm : bytes) (bl : list cubranch) : bytes :=
  [117; 110; 105; 111; 110]%N ++ sp ++ nm ++ sp ++ [123%N] ++ nlb ++ cubs_text bl ++ [125%N] ++ nlb.
Lemma fmt_cunion_ok nm bl g tail : bl <> [] ->
  format_union (S (cufsum bl + S g)) tab (mk (res ([idT nm; openT; nlT] ++ cubs_toks bl ++ [closeT]) tail) unionT false)
  = POk (cunion_text nm bl) (mk tail closeT false).
Proof.
  intros Hne. rewrite res_app, fmt_union_head, res_app, fmt_cubranches. destruct bl as [|b bl]; [congruence|].
  replace (cursum (b :: bl) + S g) with (S (cursum (b :: bl) + g)) by lia. rewrite fmt_uclose. unfold cunion_text. rewrite <- !app_assoc. reflexivity.
Qed.
Lemma fmt_top_cunion nm bl g out nl tail c : bl <> [] ->
  format_loop (S (S (cufsum bl + S (S g)))) out false nl (mk (res (cunion_toks nm bl) tail) c false)
  = format_loop (cufsum bl + S (S g)) ((if nl then out ++ nlb else out) ++ cunion_text nm bl) false true (mk tail nlT false).
Proof.
  intros Hne. unfold cunion_toks.
  change ([unionT; idT nm; openT; nlT] ++ cubs_toks bl ++ [closeT; nlT])
    with ([unionT] ++ ([idT nm; openT; nlT] ++ cubs_toks bl ++ [closeT] ++ [nlT])).
  rewrite res_app, fmt_top_union_head. unfold bind.
  replace ([idT nm; openT; nlT] ++ cubs_toks bl ++ [closeT] ++ [nlT])
    with (([idT nm; openT; nlT] ++ cubs_toks bl ++ [closeT]) ++ [nlT]) by (rewrite <- !app_assoc; reflexivity).
  rewrite res_app, (fmt_cunion_ok nm bl (S g) _ Hne).
  rewrite fmt_top_newline. reflexivity.
Qed.

(* ---------- the item ---------- *)
Definition club := (list bytes * (option bytes * lub))%type.
Definition bcub (b : club) : cubranch := (fst b, (fst (snd b), bub (snd (snd b)))).
Definition club_ok (b : club) : Prop :=
  Forall cbody_ok (fst b) /\ lub_ok (snd (snd b)) /\ match fst (snd b) with Some x => Forall (fun y => dplain y = true) x | None => True end.
Definition cub_lex (b : club) : list lexeme := docs_lex (fst b) ++ cdep_lex (fst (snd b)) ++ ub_lex (snd (snd b)).
Definition cub_layout (b : club) : list (bytes * lexeme) := fdocs_layout (fst b) ++ cdep_layout (fst (snd b)) ++ ub_layout (snd (snd b)).

Lemma cub_toks_tie b : club_ok b -> map tok_of (cub_lex b) = cub_toks (bcub b).
Proof. intros (_ & H & _). unfold cub_lex, cub_toks, bcub. cbn [fst snd]. rewrite !map_app, docs_toks_tie, cdep_toks_tie, (ub_toks_tie _ H). reflexivity. Qed.
Lemma cub_lex_ok b : club_ok b -> Forall lex_ok (cub_lex b).
Proof. intros (Hc & H & Hd). unfold cub_lex. apply Forall_app. split; [exact (docs_lex_ok _ Hc)|]. apply Forall_app. split; [exact (cdep_lex_ok _ Hd)|exact (ub_lex_ok _ H)]. Qed.
Lemma cub_lay b : map snd (cub_layout b) = cub_lex b.
Proof. unfold cub_layout, cub_lex, fdocs_layout, docs_lex. rewrite !map_app, map_map, cdep_lay, ub_lay. reflexivity. Qed.
Lemma cub_hws b : Forall (fun p => hws (fst p)) (cub_layout b).
Proof.
  unfold cub_layout. apply Forall_app. split; [|apply Forall_app; split; [apply cdep_hws|exact (ub_hws (snd (snd b)))]].
  unfold fdocs_layout. induction (fst b) as [|x cs IH]; cbn [map]; constructor; [exact hws_tab|exact IH].
Qed.
Lemma cub_sep b rest : sep_ok rest -> sep_ok (cub_layout b ++ rest).
Proof.
  intros Hr. unfold cub_layout. rewrite <- !app_assoc. unfold fdocs_layout.
  induction (fst b) as [|x cs IH]; [apply cdep_sep; exact (ub_sep (snd (snd b)) rest Hr)|]. cbn [map app sep_ok needs_end]. split; [exact I|exact IH].
Qed.
Lemma cub_ren b t : render (cub_layout b) t = cub_text (bcub b) ++ t.
Proof.
  unfold cub_layout, cub_text, bcub. cbn [fst snd]. rewrite !render_app, ub_ren, cdep_ren. unfold fdocs_layout, fdocs_text.
  induction (fst b) as [|x cs IH]; [cbn [map render flat_map app]; now rewrite <- !app_assoc|]. cbn [map render text_of flat_map app]. rewrite IH.
  repeat (rewrite <- app_assoc || rewrite <- app_comm_cons). reflexivity.
Qed.
Lemma cusum_le bl : cusum bl <= length (cubs_toks bl) /\ cufsum bl <= length (cubs_toks bl).
Proof.
  induction bl as [|b bl [IH1 IH2]]; [cbn; lia|]. cbn [cusum cufsum fold_right cubs_toks flat_map]. fold (cusum bl). fold (cufsum bl). fold (cubs_toks bl).
  rewrite app_length. destruct b as [cs [d b0]]. unfold cub_fuel, cub_ffuel, cub_toks, doc_toks. cbn [fst snd]. rewrite !app_length, map_length.
  pose proof (ub_fuel_le b0). destruct d; cbn [cdep_toks dep_toks length]; lia.
Qed.

Definition cu_item (nm : ident) (bl : list club) : item :=
  let bbl := map bcub bl in
  {| it_toks := cunion_toks (ibytes nm) bbl; it_need := cusum bbl + 4; it_fneed := cufsum bbl + 4;
     it_upd := fun f => add_union f (cunion_of (ibytes nm) bbl); it_text := cunion_text (ibytes nm) bbl; it_blank := true |}.
Definition cu_x (nm : ident) (bl : list club) : xitem :=
  {| x_lex := [kwU; Wi nm; ocuL; NLx] ++ flat_map cub_lex bl ++ [ccuL; NLx];
     x_lay := [([], kwU); (sp, Wi nm); (sp, ocuL); ([], NLx)] ++ flat_map cub_layout bl ++ [([], ccuL); ([], NLx)] |}.
Lemma cu_item_ok nm bl : ident_ok nm -> Forall club_ok bl -> cubs_ok [] (map bcub bl) -> bl <> [] -> item_ok (cu_item nm bl) (cu_x nm bl).
Proof.
  intros Hn Hf Hu Hne. assert (Hne' : map bcub bl <> []) by (destruct bl; [congruence|discriminate]). constructor.
  - intros g f tail c. cbn [cu_item it_need it_toks it_upd]. exists (cusum (map bcub bl) + S (S g)). split; [lia|].
    replace (cusum (map bcub bl) + 4 + g) with (S (cusum (map bcub bl) + S (S (S g)))) by lia. apply (top_cunion _ _ _ _ _ _ Hu).
  - intros g out nl tail c. cbn [cu_item it_fneed it_toks it_text it_blank]. rewrite andb_true_r. exists (cufsum (map bcub bl) + S (S g)). split; [lia|].
    replace (cufsum (map bcub bl) + 4 + g) with (S (S (cufsum (map bcub bl) + S (S g)))) by lia. apply (fmt_top_cunion _ _ _ _ _ _ _ Hne').
  - cbn [cu_x x_lex cu_item it_toks]. unfold cunion_toks. rewrite !map_app. cbn [map]. rewrite (tok_of_Wi nm Hn).
    rewrite (pf_toks cub_lex bcub cub_toks club_ok cub_toks_tie bl Hf). reflexivity.
  - cbn [cu_x x_lex]. cbn [app]. constructor; [exact kwU_ok|]. constructor; [now apply lex_ok_Wi|]. constructor; [reflexivity|]. constructor; [reflexivity|].
    apply Forall_app. split; [exact (pf_lex cub_lex club_ok cub_lex_ok bl Hf)|]. constructor; [reflexivity|]. constructor; [reflexivity|constructor].
  - cbn [cu_item it_need it_fneed it_toks]. unfold cunion_toks. rewrite !app_length. cbn [length]. fold (cubs_toks (map bcub bl)).
    destruct (cusum_le (map bcub bl)). lia.
  - cbn [cu_x x_lay x_lex]. rewrite !map_app, (pf_lay cub_lex cub_layout cub_lay). reflexivity.
  - cbn [cu_x x_lay]. cbn [app]. constructor; [exact hws_nil|]. constructor; [exact hws_sp|]. constructor; [exact hws_sp|]. constructor; [exact hws_nil|].
    apply Forall_app. split; [exact (pf_hws cub_layout cub_hws bl)|]. constructor; [exact hws_nil|]. constructor; [exact hws_nil|constructor].
  - intros rest Hr. cbn [cu_x x_lay]. rewrite <- !app_assoc. cbn [app sep_ok needs_end Wi kwU ocuL NLx].
    split; [left; discriminate|]. split; [left; discriminate|]. split; [exact I|]. split; [exact I|].
    apply (pf_sep cub_layout cub_sep). cbn [app sep_ok needs_end ccuL NLx]. split; [exact I|]. split; [exact I|exact Hr].
  - intros t. cbn [cu_x x_lay cu_item it_text]. rewrite !render_app, (pf_ren cub_layout bcub cub_text cub_ren).
    cbn [render text_of Wi app NLx kwU ocuL ccuL]. unfold cunion_text, cubs_text, ibytes, sp, nlb.
    repeat (rewrite <- app_assoc || rewrite <- app_comm_cons). reflexivity.
Qed.
Print Assumptions cu_item_ok.
