(* Scratch prototype: model of File.Validate (gen.go:73-257), accept/reject only. *)
From Coq Require Import List NArith ZArith Bool Arith.
Require Import Bebop.front.Tok Bebop.front.Parse.
Import ListNotations.

Definition bmem (x : bytes) (l : list bytes) : bool := existsb (beq x) l.
Fixpoint has_dup (l : list bytes) : bool :=
  match l with [] => false | x :: r => bmem x r || has_dup r end.
Fixpoint has_dup_n (l : list N) : bool :=
  match l with [] => false | x :: r => existsb (N.eqb x) r || has_dup_n r end.
Fixpoint has_dup_z (l : list Z) : bool :=
  match l with [] => false | x :: r => existsb (Z.eqb x) r || has_dup_z r end.

Definition prims : list bytes :=
  map str [[98;111;111;108]; [98;121;116;101]; [117;105;110;116;56]; [117;105;110;116;49;54]; [105;110;116;49;54];
           [117;105;110;116;51;50]; [105;110;116;51;50]; [117;105;110;116;54;52]; [105;110;116;54;52];
           [102;108;111;97;116;51;50]; [102;108;111;97;116;54;52]; [115;116;114;105;110;103]; [103;117;105;100]; [100;97;116;101]]%N.

Fixpoint type_defined (all : list bytes) (ft : ftype) : bool :=
  match ft with
  | FArray t => type_defined all t
  | FMap k v => bmem k all && type_defined all v
  | FSimple s => bmem s all
  end.

Fixpoint used_types (ft : ftype) : list bytes :=
  match ft with
  | FArray t => used_types t
  | FMap k v => k :: used_types v
  | FSimple s => [s]
  end.
(* a set, as Go's map[string]bool *)
Definition dedup (l : list bytes) : list bytes := fold_right (fun x acc => if bmem x acc then acc else x :: acc) [] l.
Definition struct_used (st : struct_) : list bytes := dedup (flat_map (fun fd => used_types (f_type fd)) (s_fields st)).

(* names are checked in the order enums, structs, messages, unions against one growing table *)
Fixpoint names_ok (seen : list bytes) (l : list bytes) : option (list bytes) :=
  match l with
  | [] => Some seen
  | n :: r => if bmem n prims then None else if bmem n seen then None else names_ok (n :: seen) r
  end.

Fixpoint opcodes_ok (seen : list N) (l : list N) : bool :=
  match l with
  | [] => true
  | 0%N :: r => opcodes_ok seen r
  | c :: r => if existsb (N.eqb c) seen then false else opcodes_ok (c :: seen) r
  end.

Definition uf_name (u : ufield) : bytes :=
  match u_msg u, u_struct u with
  | Some m, _ => m_name m
  | None, Some s => s_name s
  | None, None => []
  end.

Definition uf_field_names (u : ufield) : list bytes :=
  match u_msg u, u_struct u with
  | Some m, _ => map (fun p => f_name (snd p)) (m_fields m)
  | None, Some s => map f_name (s_fields s)
  | None, None => []
  end.

(* transitive struct usage: iterate to a fixpoint (order-independent result; proved separately) *)
Definition usage := list (bytes * list bytes).
Fixpoint lookup (n : bytes) (u : usage) : option (list bytes) :=
  match u with [] => None | (k, v) :: r => if beq k n then Some v else lookup n r end.
Fixpoint add_all (l add : list bytes) : list bytes * bool :=
  match add with
  | [] => (l, false)
  | k :: r => if bmem k l then add_all l r else let '(l', _) := add_all (l ++ [k]) r in (l', true)
  end.
Definition step_one (u : usage) (a : bytes) (ua : list bytes) : list bytes * bool :=
  fold_left (fun (acc : list bytes * bool) (kv : bytes * list bytes) =>
               let '(cur, d) := acc in
               if beq (fst kv) a then acc
               else if bmem (fst kv) cur then
                      match lookup (fst kv) u with
                      | Some ub => let '(cur', d') := add_all cur ub in (cur', d || d')
                      | None => acc
                      end
                    else acc) u (ua, false).
Definition pass_u (u : usage) : usage * bool :=
  fold_left (fun (acc : usage * bool) (kv : bytes * list bytes) =>
               let '(cur, d) := acc in
               match lookup (fst kv) cur with
               | Some ua => let '(ua', d') := step_one cur (fst kv) ua in
                            (map (fun e => if beq (fst e) (fst kv) then (fst e, ua') else e) cur, d || d')
               | None => acc
               end) u (u, false).
Fixpoint iterate_u (fuel : nat) (u : usage) : usage :=
  match fuel with
  | O => u
  | S f => let '(u', d) := pass_u u in if d then iterate_u f u' else u'
  end.

(* the recursion check: a struct whose transitive usage contains its own name; nall bounds the number of names in play *)
Definition rec_check (nall : nat) (sts : list struct_) : bool :=
  let u0 : usage := map (fun s => (s_name s, struct_used s)) sts in
  let u := iterate_u (S (length u0 * (nall + length u0 + 2))) u0 in
  forallb (fun kv => negb (bmem (fst kv) (snd kv))) u.

Definition validate_gen (rc : nat -> list struct_ -> bool) (f : file) : bool :=
  negb (has_dup (map c_name (consts f))) &&
  match names_ok [] (map e_name (enums f) ++ map s_name (structs f) ++ map m_name (messages f) ++ map un_name (unions f)) with
  | None => false
  | Some custom =>
      forallb (fun e => negb (has_dup (map o_name (e_opts e))) &&
                        (if e_unsigned e then negb (has_dup_n (map o_uvalue (e_opts e)))
                         else negb (has_dup_z (map o_value (e_opts e))))) (enums f) &&
      forallb (fun s => negb (has_dup (map f_name (s_fields s)))) (structs f) &&
      forallb (fun m => negb (has_dup (map (fun p => f_name (snd p)) (m_fields m)))) (messages f) &&
      forallb (fun u => negb (has_dup (map (fun p => uf_name (snd p)) (un_fields u)))) (unions f) &&
      opcodes_ok [] (map s_opcode (structs f) ++ map m_opcode (messages f) ++ map un_opcode (unions f)) &&
      (* union branches: their names against the primitives, the top level names and each other; their field names *)
      (match names_ok custom (flat_map (fun u => map (fun p => uf_name (snd p)) (un_fields u)) (unions f)) with Some _ => true | None => false end) &&
      forallb (fun u => forallb (fun p => negb (has_dup (uf_field_names (snd p)))) (un_fields u)) (unions f) &&
      let all := custom ++ prims in
      forallb (fun s => forallb (fun fd => type_defined all (f_type fd)) (s_fields s)) (structs f) &&
      forallb (fun m => forallb (fun p => type_defined all (f_type (snd p))) (m_fields m)) (messages f) &&
      rc (length all) (structs f)
  end.
Definition validate : file -> bool := validate_gen rec_check.
(* everything but the recursion clause *)
Definition validate_norec : file -> bool := validate_gen (fun _ _ => true).

Definition read_and_validate (input : bytes) : option bool :=
  match read_file input false with
  | POk f _ => Some (validate f)
  | _ => None
  end.

