(* Scratch prototype: faithful model of parse.go, parse_expr.go, eval_expr.go over the Next() result list. *)
From Coq Require Import List NArith ZArith Bool Arith.
Require Import Bebop.front.Tok.
Import ListNotations.

(* ---------- AST (bebop.go) ---------- *)
Record tag := { tg_key : bytes; tg_value : bytes; tg_bool : bool }.
Inductive ftype := FSimple (s : bytes) | FMap (k : bytes) (v : ftype) | FArray (t : ftype).
Record field := { f_type : ftype; f_name : bytes; f_comment : bytes; f_tags : list tag; f_depmsg : bytes; f_dep : bool }.
Record struct_ := { s_name : bytes; s_comment : bytes; s_fields : list field; s_opcode : N; s_readonly : bool }.
Record message := { m_name : bytes; m_comment : bytes; m_fields : list (N * field); m_opcode : N }.
Record ufield := { u_msg : option message; u_struct : option struct_; u_tags : list tag; u_depmsg : bytes; u_dep : bool }.
Record union_ := { un_name : bytes; un_comment : bytes; un_fields : list (N * ufield); un_opcode : N }.
Record enumopt := { o_name : bytes; o_comment : bytes; o_depmsg : bytes; o_value : Z; o_uvalue : N; o_dep : bool }.
Record enum_ := { e_name : bytes; e_comment : bytes; e_opts : list enumopt; e_simple : bytes; e_unsigned : bool }.
Record const_ := { c_type : bytes; c_comment : bytes; c_name : bytes; c_value : bytes }.
Record file := { structs : list struct_; messages : list message; enums : list enum_; unions : list union_;
                 consts : list const_; imports : list bytes; gopackage : bytes }.

(* ---------- parser state over the precomputed Next() results ---------- *)
Record pst := { rs : list nres; cur : token; keep : bool; perrs : list ekind }.
(* PFuel: a loop of the parser ran out of its fuel;  PEnd: the parser asked for more Next() results than were precomputed *)
Inductive pres (A : Type) := POk (a : A) (s : pst) | PErr | PPanic | PFuel | PEnd.
Arguments POk {A}. Arguments PErr {A}. Arguments PPanic {A}. Arguments PFuel {A}. Arguments PEnd {A}.
Definition M (A : Type) := pst -> pres A.
Definition ret {A} (a : A) : M A := fun s => POk a s.
Definition bind {A B} (m : M A) (f : A -> M B) : M B :=
  fun s => match m s with POk a s' => f a s' | PErr => PErr | PPanic => PPanic | PFuel => PFuel | PEnd => PEnd end.
Definition fail {A} : M A := fun _ => PErr.
Definition nofuel {A} : M A := fun _ => PFuel.
Notation "x <- m ;; k" := (bind m (fun x => k)) (at level 61, m at next level, right associativity).
Notation "m ;;; k" := (bind m (fun _ => k)) (at level 61, right associativity).

Definition p_next : M bool := fun s =>
  if keep s then POk true {| rs := rs s; cur := cur s; keep := false; perrs := perrs s |}
  else match rs s with
       | [] => PEnd           (* the precomputed results are used up: the run (Tok.run) was too short for this parse - never observed *)
       | NT t e :: r => POk true {| rs := r; cur := t; keep := false; perrs := e |}
       | NF e :: r => POk false {| rs := r; cur := cur s; keep := false; perrs := e |}
       | NP :: _ => PPanic
       end.
Definition p_unnext : M unit := fun s => POk tt {| rs := rs s; cur := cur s; keep := true; perrs := perrs s |}.
Definition p_tok : M token := fun s => POk (cur s) s.
Definition p_kind : M N := fun s => POk (kind (cur s)) s.
Definition p_haserr : M bool := fun s => POk (match perrs s with [] => false | _ => true end) s.

Definition kin (k : N) (ks : list N) : bool := existsb (N.eqb k) ks.

Definition expect_any_of_next (ks : list N) : M unit :=
  b <- p_next ;; e <- p_haserr ;;
  if e then fail else if negb b then fail else
  k <- p_kind ;; if kin k ks then ret tt else fail.

Fixpoint expect_next (ks : list N) : M (list token) :=
  match ks with
  | [] => ret []
  | k :: ks' =>
      b <- p_next ;; e <- p_haserr ;;
      if e then fail else if negb b then fail else
      t <- p_tok ;; if N.eqb (kind t) k then (r <- expect_next ks' ;; ret (t :: r)) else fail
  end.

Definition opt_newline : M unit :=
  p_next ;;; k <- p_kind ;; if N.eqb k kNewline then ret tt else p_unnext.

(* ---------- strings ---------- *)
Definition beq (a b : bytes) : bool := if list_eq_dec N.eq_dec a b then true else false.
Fixpoint drop_while (p : byte -> bool) (l : bytes) : bytes :=
  match l with [] => [] | c :: r => if p c then drop_while p r else l end.
Definition trim (p : byte -> bool) (l : bytes) : bytes := rev (drop_while p (rev (drop_while p l))).
Definition is_crlf (c : byte) := N.eqb c 13 || N.eqb c 10.
Definition is_quote (c : byte) := N.eqb c 34.
Fixpoint join_nl (l : list bytes) : bytes :=
  match l with [] => [] | [x] => x | x :: r => x ++ [10%N] ++ join_nl r end.
Fixpoint prefix (p l : bytes) : option bytes :=
  match p, l with
  | [], _ => Some l
  | a :: p', b :: l' => if N.eqb a b then prefix p' l' else None
  | _, [] => None
  end.
Definition suffix (p l : bytes) : option bytes :=
  match prefix (rev p) (rev l) with Some r => Some (rev r) | None => None end.

(* strconv.Unquote for double-quoted literals; None = error. Only the simple backslash escapes are modelled; others give None. *)
Fixpoint unq (l : bytes) : option bytes :=
  match l with
  | [] => Some []
  | c :: r =>
      if N.eqb c 10 then None else if N.eqb c 34 then None else
      if N.eqb c 92 then
        match r with
        | e :: r' =>
            let k := fun x => match unq r' with Some t => Some (x :: t) | None => None end in
            if N.eqb e 92 then k 92%N else if N.eqb e 34 then k 34%N else if N.eqb e 110 then k 10%N
            else if N.eqb e 116 then k 9%N else if N.eqb e 114 then k 13%N else if N.eqb e 97 then k 7%N
            else if N.eqb e 98 then k 8%N else if N.eqb e 102 then k 12%N else if N.eqb e 118 then k 11%N
            else None
        | [] => None
        end
      else match unq r with Some t => Some (c :: t) | None => None end
  end.
Definition unquote (l : bytes) : bytes :=
  match l with
  | q :: r => if N.eqb q 34 then
                match rev r with
                | q' :: m => if N.eqb q' 34 then match unq (rev m) with Some x => x | None => [] end else []
                | [] => []
                end
              else []
  | [] => []
  end.
Definition unquote_opt (l : bytes) : option bytes :=
  match l with
  | q :: r => if N.eqb q 34 then
                match rev r with
                | q' :: m => if N.eqb q' 34 then unq (rev m) else None
                | [] => None
                end
              else None
  | [] => None
  end.

(* strconv.ParseUint / ParseInt on the tokenizer's integer alphabet *)
Definition digit_val (c : byte) : option N :=
  if is_digit c then Some (c - 48)%N
  else if (97 <=? c)%N && (c <=? 102)%N then Some (c - 87)%N
  else if (65 <=? c)%N && (c <=? 70)%N then Some (c - 55)%N else None.
Fixpoint digits (base : N) (l : bytes) (acc : N) : option N :=
  match l with
  | [] => Some acc
  | c :: r => match digit_val c with
              | Some d => if (d <? base)%N then digits base r (acc * base + d)%N else None
              | None => None
              end
  end.
(* magnitude of an unsigned literal; base0 = base argument 0 *)
Definition parse_mag (base0 : bool) (l : bytes) : option N :=
  match l with
  | [] => None
  | _ =>
    if base0 then
      match l with
      | 48%N :: x :: r => if N.eqb x 120 || N.eqb x 88 then match r with [] => None | _ => digits 16 r 0 end
                          else digits 8 (x :: r) 0
      | _ => digits 10 l 0
      end
    else digits 10 l 0
  end.
Definition parse_uint (base0 : bool) (bits : N) (l : bytes) : option N :=
  match parse_mag base0 l with
  | Some n => if (n <? 2 ^ bits)%N then Some n else None
  | None => None
  end.
Definition parse_int (base0 : bool) (bits : N) (l : bytes) : option Z :=
  let '(neg, l') := match l with 45%N :: r => (true, r) | 43%N :: r => (false, r) | _ => (false, l) end in
  match parse_mag base0 l' with
  | Some n => let z := if neg then (- Z.of_N n)%Z else Z.of_N n in
              if ((- 2 ^ (Z.of_N bits - 1)) <=? z)%Z && (z <? 2 ^ (Z.of_N bits - 1))%Z then Some z else None
  | None => None
  end.

Definition str (l : list N) : bytes := l.
Definition s_uint32 := str [117;105;110;116;51;50]%N.
Definition is_uint_prim (s : bytes) : option N :=
  if beq s (str [98;121;116;101]%N) then Some 8%N else if beq s (str [117;105;110;116;56]%N) then Some 8%N
  else if beq s (str [117;105;110;116;49;54]%N) then Some 16%N else if beq s s_uint32 then Some 32%N
  else if beq s (str [117;105;110;116;54;52]%N) then Some 64%N else None.
Definition is_int_prim (s : bytes) : option N :=
  if beq s (str [105;110;116;49;54]%N) then Some 16%N else if beq s (str [105;110;116;51;50]%N) then Some 32%N
  else if beq s (str [105;110;116;54;52]%N) then Some 64%N else None.
Definition is_float_prim (s : bytes) : bool :=
  beq s (str [102;108;111;97;116;51;50]%N) || beq s (str [102;108;111;97;116;54;52]%N).
Definition s_bool := str [98;111;111;108]%N. Definition s_string := str [115;116;114;105;110;103]%N.
Definition s_guid := str [103;117;105;100]%N. Definition s_date := str [100;97;116;101]%N.
Definition is_primitive (s : bytes) : bool :=
  match is_uint_prim s, is_int_prim s with
  | Some _, _ => true | _, Some _ => true
  | _, _ => is_float_prim s || beq s s_bool || beq s s_string || beq s s_guid || beq s s_date
  end.

(* comments *)
Definition sanitize (t : token) : bytes := trim is_crlf (skipn 2 (concrete t)).
Definition block_text (t : token) : bytes := let c := skipn 2 (concrete t) in firstn (length c - 2) c.
Fixpoint cut_colon (l acc : bytes) : bytes * option bytes :=
  match l with [] => (rev acc, None) | c :: r => if N.eqb c 58 then (rev acc, Some r) else cut_colon r (c :: acc) end.
Definition parse_tag (s : bytes) : option tag :=
  match prefix (str [91;116;97;103;40]%N) s with
  | Some r => match suffix (str [41;93]%N) r with
              | Some body =>
                  match cut_colon body [] with
                  | (k, None) => Some {| tg_key := k; tg_value := []; tg_bool := true |}
                  | (k, Some v) => match unquote_opt v with
                                   | Some v' => Some {| tg_key := k; tg_value := v'; tg_bool := false |}
                                   | None => None
                                   end
                  end
              | None => None
              end
  | None => None
  end.

(* ---------- bit-flag expressions ---------- *)
Inductive expr := EId (t : token) | ENum (t : token) | EParen (e : expr) | EBin (op : N) (l r : expr).
Fixpoint paren_scan (l : list token) (need : nat) (acc : list token) : list token * list token :=
  match l with
  | [] => (rev acc, [])
  | t :: r =>
      if N.eqb (kind t) kOpenPar then paren_scan r (S need) (t :: acc)
      else if N.eqb (kind t) kClosePar then
        match need with
        | 1 => (rev acc, r)          (* tokens after the matching ')' *)
        | S n => paren_scan r n (t :: acc)
        | O => (rev acc, r)
        end
      else paren_scan r need (t :: acc)
  end.
Fixpoint parse_expr (g : nat) (toks : list token) : option expr :=
  match g with
  | O => None
  | S g' =>
    match toks with
    | [] => None
    | t :: r =>
        let cont := fun (lhs : expr) (r : list token) =>
          match r with
          | [] => Some lhs
          | op :: r' =>
              if kin (kind op) [kAmp; kVBar; kDCL; kDCR] then
                match parse_expr g' r' with Some rhs => Some (EBin (kind op) lhs rhs) | None => None end
              else None
          end in
        if N.eqb (kind t) kIdent then cont (EId t) r
        else if N.eqb (kind t) kInt then cont (ENum t) r
        else if N.eqb (kind t) kOpenPar then
          let '(inner, after) := paren_scan r 1 [] in
          match parse_expr g' inner with Some e => cont (EParen e) after | None => None end
        else None
    end
  end.

Inductive ev := EvOk (z : Z) | EvErr | EvPanic.
Definition wrap (uns : bool) (bits : N) (z : Z) : Z :=
  let m := (2 ^ Z.of_N bits)%Z in
  let u := (z mod m)%Z in
  if uns then u else if (u <? m / 2)%Z then u else (u - m)%Z.
Fixpoint find_opt (name : bytes) (opts : list enumopt) : option enumopt :=
  match opts with [] => None | o :: r => if beq (o_name o) name then Some o else find_opt name r end.
Fixpoint eval (uns : bool) (bits : N) (opts : list enumopt) (e : expr) : ev :=
  match e with
  | EId t => match find_opt (concrete t) opts with
             | Some o => EvOk (wrap uns bits (if uns then Z.of_N (o_uvalue o) else o_value o))
             | None => EvErr
             end
  | ENum t => if uns then match parse_uint true 64 (concrete t) with Some n => EvOk (wrap uns bits (Z.of_N n)) | None => EvErr end
              else match parse_int true 64 (concrete t) with Some z => EvOk (wrap uns bits z) | None => EvErr end
  | EParen e' => eval uns bits opts e'
  | EBin op l r =>
      match eval uns bits opts l with
      | EvOk a =>
          match eval uns bits opts r with
          | EvOk b =>
              if N.eqb op kAmp then EvOk (wrap uns bits (Z.land a b))
              else if N.eqb op kVBar then EvOk (wrap uns bits (Z.lor a b))
              else if (b <? 0)%Z then EvErr
              else if N.eqb op kDCL then EvOk (if (Z.of_N bits <=? b)%Z then 0%Z else wrap uns bits (Z.shiftl a b))
              else EvOk (if (Z.of_N bits <=? b)%Z then (if (a <? 0)%Z then (-1)%Z else 0%Z) else wrap uns bits (Z.shiftr a b))
          | x => x
          end
      | x => x
      end
  end.

(* ---------- record parsers ---------- *)
Fixpoint read_until_semi (g : nat) (acc : list token) : M (list token) :=
  match g with
  | O => nofuel
  | S g' => b <- p_next ;; if negb b then fail else
            t <- p_tok ;; if N.eqb (kind t) kSemi then ret (rev acc) else read_until_semi g' (t :: acc)
  end.

Definition read_enum_value (g : nat) (prev : list enumopt) (bitflags uns : bool) (bits : N) : M (Z * N) :=
  expect_next [kEquals] ;;;
  if negb bitflags then
    toks <- expect_next [kInt; kSemi] ;;
    match toks with
    | t :: _ =>
        if uns then match parse_uint true bits (concrete t) with Some n => ret (0%Z, n) | None => fail end
        else match parse_int true bits (concrete t) with Some z => ret (z, 0%N) | None => fail end
    | [] => fail
    end
  else
    toks <- read_until_semi g [] ;;
    match parse_expr (S (length toks)) toks with
    | None => fail
    | Some e => match eval uns bits prev e with
                | EvOk z => if uns then ret (0%Z, Z.to_N z) else ret (z, 0%N)
                | EvErr => fail
                | EvPanic => fun _ => PPanic
                end
    end.

Definition read_deprecated : M bytes :=
  toks <- expect_next [9%N; kOpenPar; kString; kClosePar; kCloseSq] ;;
  opt_newline ;;; ret (match toks with _ :: _ :: t :: _ => unquote (concrete t) | _ => [] end).

Fixpoint skip_eol_comments (g : nat) : M unit :=
  match g with
  | O => nofuel
  | S g' => b <- p_next ;; if negb b then ret tt else
            k <- p_kind ;; if N.eqb k kLineC then ret tt else if N.eqb k kBlockC then skip_eol_comments g' else p_unnext
  end.

Fixpoint read_enum_loop (g : nat) (bitflags uns : bool) (bits : N) (opts : list enumopt)
         (cm : list bytes) (depmsg : bytes) (dep : bool) : M (list enumopt) :=
  match g with
  | O => nofuel
  | S g' =>
    k0 <- p_kind ;; if N.eqb k0 kCloseCu then ret opts else
    b <- p_next ;; if negb b then fail else
    t <- p_tok ;; let k := kind t in
    if N.eqb k kNewline then read_enum_loop g' bitflags uns bits opts [] depmsg dep
    else if N.eqb k kIdent then
      vu <- read_enum_value g' opts bitflags uns bits ;;
      skip_eol_comments g' ;;;
      read_enum_loop g' bitflags uns bits
        (opts ++ [{| o_name := concrete t; o_comment := join_nl cm; o_depmsg := depmsg; o_value := fst vu; o_uvalue := snd vu; o_dep := dep |}])
        [] [] false
    else if N.eqb k kOpenSq then
      if dep then fail else m <- read_deprecated ;; read_enum_loop g' bitflags uns bits opts cm m true
    else if N.eqb k kBlockC then read_enum_loop g' bitflags uns bits opts (cm ++ [block_text t]) depmsg dep
    else if N.eqb k kLineC then read_enum_loop g' bitflags uns bits opts (cm ++ [sanitize t]) depmsg dep
    else read_enum_loop g' bitflags uns bits opts cm depmsg dep
  end.

Definition read_enum (g : nat) (bitflags : bool) : M enum_ :=
  toks <- expect_next [kIdent] ;;
  let name := match toks with t :: _ => concrete t | [] => [] end in
  expect_any_of_next [kColon; kOpenCu] ;;;
  k <- p_kind ;;
  simple <- (if N.eqb k kColon then
               ts <- expect_next [kIdent; kOpenCu] ;;
               match ts with
               | t :: _ => match is_uint_prim (concrete t), is_int_prim (concrete t) with
                           | None, None => fail
                           | _, _ => ret (concrete t)
                           end
               | [] => fail
               end
             else ret s_uint32) ;;
  opt_newline ;;;
  let '(bits, uns) := match is_uint_prim simple, is_int_prim simple with
                      | Some b, _ => (b, true) | _, Some b => (b, false) | _, _ => (32%N, true) end in
  opts <- read_enum_loop g bitflags uns bits [] [] [] false ;;
  ret {| e_name := name; e_comment := []; e_opts := opts; e_simple := simple; e_unsigned := uns |}.

Fixpoint array_suffix (g : nat) (ft : ftype) : M ftype :=
  match g with
  | O => nofuel
  | S g' =>
    k <- p_kind ;;
    if N.eqb k kOpenSq then
      expect_next [kCloseSq] ;;;
      b <- p_next ;; if negb b then ret (FArray ft) else array_suffix g' (FArray ft)
    else p_unnext ;;; ret ft
  end.

Fixpoint read_field_type (g : nat) : M ftype :=
  match g with
  | O => nofuel
  | S g' =>
    expect_any_of_next [kIdent; 12%N; 11%N] ;;;
    t <- p_tok ;;
    ft <- (if N.eqb (kind t) 11%N then
             expect_next [kOpenSq] ;;;
             kt <- read_field_type g' ;;
             match kt with
             | FSimple ks => if is_primitive ks then
                               expect_next [kComma] ;;; vt <- read_field_type g' ;; expect_next [kCloseSq] ;;; ret (FMap ks vt)
                             else fail
             | _ => fail
             end
           else if N.eqb (kind t) 12%N then
             expect_next [kOpenSq] ;;; at_ <- read_field_type g' ;; expect_next [kCloseSq] ;;; ret (FArray at_)
           else ret (FSimple (concrete t))) ;;
    b <- p_next ;; if b then array_suffix g' ft else ret ft
  end.

Definition add_tag (tags : list tag) (cmt : bytes) : list tag :=
  match parse_tag cmt with Some t => tags ++ [t] | None => tags end.

Fixpoint read_struct_loop (g : nat) (fs : list field) (cm : list bytes) (tags : list tag) (depmsg : bytes) (dep : bool) : M (list field) :=
  match g with
  | O => nofuel
  | S g' =>
    k0 <- p_kind ;; if N.eqb k0 kCloseCu then ret fs else
    b <- p_next ;; if negb b then fail else
    t <- p_tok ;; let k := kind t in
    if N.eqb k kNewline then read_struct_loop g' fs [] tags depmsg dep
    else if kin k [kIdent; 12%N; 11%N] then
      p_unnext ;;; ft <- read_field_type g' ;;
      toks <- expect_next [kIdent; kSemi] ;;
      let nm := match toks with x :: _ => concrete x | [] => [] end in
      skip_eol_comments g' ;;;
      read_struct_loop g' (fs ++ [{| f_type := ft; f_name := nm; f_comment := join_nl cm; f_tags := tags; f_depmsg := depmsg; f_dep := dep |}]) [] [] [] false
    else if N.eqb k kOpenSq then
      if dep then fail else m <- read_deprecated ;; read_struct_loop g' fs cm tags m true
    else if N.eqb k kBlockC then read_struct_loop g' fs (cm ++ [block_text t]) tags depmsg dep
    else if N.eqb k kLineC then let c := sanitize t in read_struct_loop g' fs (cm ++ [c]) (add_tag tags c) depmsg dep
    else read_struct_loop g' fs cm tags depmsg dep
  end.
Definition read_struct (g : nat) : M struct_ :=
  toks <- expect_next [kIdent; kOpenCu] ;;
  opt_newline ;;;
  fs <- read_struct_loop g [] [] [] [] false ;;
  ret {| s_name := match toks with t :: _ => concrete t | [] => [] end; s_comment := []; s_fields := fs; s_opcode := 0; s_readonly := false |}.

Definition has_idx {A} (i : N) (l : list (N * A)) : bool := existsb (fun p => N.eqb (fst p) i) l.

Fixpoint read_message_loop (g : nat) (fs : list (N * field)) (cm : list bytes) (tags : list tag) (depmsg : bytes) (dep : bool) : M (list (N * field)) :=
  match g with
  | O => nofuel
  | S g' =>
    k0 <- p_kind ;; if N.eqb k0 kCloseCu then ret fs else
    expect_any_of_next [kNewline; kInt; kOpenSq; kBlockC; kLineC; kCloseCu] ;;;
    t <- p_tok ;; let k := kind t in
    if N.eqb k kNewline then read_message_loop g' fs [] tags depmsg dep
    else if N.eqb k kInt then
      match parse_uint false 8 (concrete t) with
      | None => fail
      | Some i =>
          if N.eqb i 0 then fail else
          if has_idx i fs then fail else
          expect_next [kArrow] ;;; ft <- read_field_type g' ;;
          toks <- expect_next [kIdent; kSemi] ;;
          let nm := match toks with x :: _ => concrete x | [] => [] end in
          skip_eol_comments g' ;;;
          read_message_loop g' (fs ++ [(i, {| f_type := ft; f_name := nm; f_comment := join_nl cm; f_tags := tags; f_depmsg := depmsg; f_dep := dep |})]) [] [] [] false
      end
    else if N.eqb k kOpenSq then
      if dep then fail else m <- read_deprecated ;; read_message_loop g' fs cm tags m true
    else if N.eqb k kBlockC then read_message_loop g' fs (cm ++ [block_text t]) tags depmsg dep
    else if N.eqb k kLineC then let c := sanitize t in read_message_loop g' fs (cm ++ [c]) (add_tag tags c) depmsg dep
    else read_message_loop g' fs cm tags depmsg dep
  end.
Definition read_message (g : nat) : M message :=
  toks <- expect_next [kIdent; kOpenCu] ;;
  opt_newline ;;;
  fs <- read_message_loop g [] [] [] [] false ;;
  ret {| m_name := match toks with t :: _ => concrete t | [] => [] end; m_comment := []; m_fields := fs; m_opcode := 0 |}.

Fixpoint read_union_loop (g : nat) (fs : list (N * ufield)) (cm : list bytes) (tags : list tag) (depmsg : bytes) (dep : bool) : M (list (N * ufield)) :=
  match g with
  | O => nofuel
  | S g' =>
    k0 <- p_kind ;; if N.eqb k0 kCloseCu then ret fs else
    b <- p_next ;; if negb b then fail else
    t <- p_tok ;; let k := kind t in
    if N.eqb k kNewline then read_union_loop g' fs [] tags depmsg dep
    else if N.eqb k kInt then
      match parse_uint false 8 (concrete t) with
      | None => fail
      | Some i =>
          if has_idx i fs then fail else
          expect_next [kArrow] ;;;
          expect_any_of_next [7%N; 6%N] ;;;
          k2 <- p_kind ;;
          uf <- (if N.eqb k2 7%N then
                   m <- read_message g' ;;
                   ret {| u_msg := Some {| m_name := m_name m; m_comment := join_nl cm; m_fields := m_fields m; m_opcode := 0 |};
                          u_struct := None; u_tags := tags; u_depmsg := depmsg; u_dep := dep |}
                 else
                   st <- read_struct g' ;;
                   ret {| u_msg := None;
                          u_struct := Some {| s_name := s_name st; s_comment := join_nl cm; s_fields := s_fields st; s_opcode := 0; s_readonly := false |};
                          u_tags := tags; u_depmsg := depmsg; u_dep := dep |}) ;;
          b3 <- p_next ;; if negb b3 then fail else
          k3 <- p_kind ;;
          (* the member's reader may have consumed its close curly already: then this advance read what ends the curly's line *)
          (if N.eqb k3 kNewline || N.eqb k3 kLineC then ret tt else skip_eol_comments g' ;;; opt_newline) ;;;
          read_union_loop g' (fs ++ [(i, uf)]) [] [] [] false
      end
    else if N.eqb k kOpenSq then
      if dep then fail else m <- read_deprecated ;; read_union_loop g' fs cm tags m true
    else if N.eqb k kBlockC then read_union_loop g' fs (cm ++ [block_text t]) tags depmsg dep
    else if N.eqb k kLineC then let c := sanitize t in read_union_loop g' fs (cm ++ [c]) (add_tag tags c) depmsg dep
    else if kin k [6; 7; 8; 13; 14; 5; 20]%N then fail          (* a definition keyword: the union was not closed *)
    else read_union_loop g' fs cm tags depmsg dep
  end.
Definition read_union (g : nat) : M union_ :=
  toks <- expect_next [kIdent; kOpenCu] ;;
  opt_newline ;;;
  fs <- read_union_loop g [] [] [] [] false ;;
  ret {| un_name := match toks with t :: _ => concrete t | [] => [] end; un_comment := []; un_fields := fs; un_opcode := 0 |}.

Definition remove_dashes (l : bytes) : bytes := filter (fun c => negb (N.eqb c 45)) l.
Definition read_const (g : nat) : M const_ :=
  toks <- expect_next [kIdent; kIdent; kEquals] ;;
  match toks with
  | ty :: nm :: _ =>
      b <- p_next ;; if negb b then fail else
      t <- p_tok ;; let k := kind t in let cty := concrete ty in
      v <- (match is_uint_prim cty, is_int_prim cty with
            | Some _, _ | _, Some _ => if N.eqb k kInt then ret (concrete t) else fail
            | _, _ =>
              if is_float_prim cty then
                if N.eqb k 15%N then ret (str [109;97;116;104;46;73;110;102;40;49;41]%N)
                else if N.eqb k kNegInf then ret (str [109;97;116;104;46;73;110;102;40;45;49;41]%N)
                else if N.eqb k 17%N then ret (str [109;97;116;104;46;78;97;78;40;41]%N)
                else if N.eqb k kInt || N.eqb k kFloat then ret (concrete t) else fail
              else if beq cty s_guid then
                if N.eqb k kString then
                  if Nat.eqb (length (remove_dashes (trim is_quote (concrete t)))) 32 then ret (concrete t) else fail
                else fail
              else if beq cty s_string then if N.eqb k kString then ret (concrete t) else fail
              else if beq cty s_bool then if N.eqb k 18%N || N.eqb k 19%N then ret (concrete t) else fail
              else fail
            end) ;;
      expect_next [kSemi] ;;; skip_eol_comments g ;;; opt_newline ;;;
      ret {| c_type := cty; c_comment := []; c_name := concrete nm; c_value := v |}
  | _ => fail
  end.

Definition read_opcode : M N :=
  expect_next [10%N; kOpenPar] ;;;
  expect_any_of_next [kInt; kString] ;;;
  t <- p_tok ;;
  oc <- (if N.eqb (kind t) kInt then
           match parse_uint true 32 (concrete t) with Some n => ret n | None => fail end
         else match trim is_quote (concrete t) with
              | [a; b; c; d] => ret (a + 256 * b + 65536 * c + 16777216 * d)%N
              | _ => fail
              end) ;;
  expect_next [kClosePar; kCloseSq] ;;; opt_newline ;;; ret oc.

Definition s_go_package := str [103;111;95;112;97;99;107;97;103;101]%N.

Fixpoint top_loop (g : nat) (f : file) (cm : list bytes) (opc : N) (ro bf : bool) : M file :=
  match g with
  | O => nofuel
  | S g' =>
    b <- p_next ;; if negb b then (e <- p_haserr ;; if e then fail else ret f) else
    t <- p_tok ;; let k := kind t in
    let bottom := fun (f : file) (ro : bool) => top_loop g' f [] 0%N ro false in
    let do_struct := fun (ro : bool) =>
      if bf then fail else
      st <- read_struct g' ;;
      bottom {| structs := structs f ++ [{| s_name := s_name st; s_comment := join_nl cm; s_fields := s_fields st; s_opcode := opc; s_readonly := ro |}];
                messages := messages f; enums := enums f; unions := unions f; consts := consts f; imports := imports f; gopackage := gopackage f |} false in
    if N.eqb k 20%N then
      if negb (N.eqb opc 0) || bf then fail else
      toks <- expect_next [kString] ;;
      top_loop g' {| structs := structs f; messages := messages f; enums := enums f; unions := unions f; consts := consts f;
                     imports := imports f ++ [match toks with x :: _ => unquote (concrete x) | [] => [] end]; gopackage := gopackage f |} cm opc ro bf
    else if N.eqb k kNewline then top_loop g' f [] opc ro bf
    else if N.eqb k kBlockC then top_loop g' f (cm ++ [block_text t]) opc ro bf
    else if N.eqb k kLineC then top_loop g' f (cm ++ [sanitize t]) opc ro bf
    else if N.eqb k kOpenSq then
      expect_any_of_next [10%N; 21%N] ;;;
      k2 <- p_kind ;;
      if N.eqb k2 10%N then p_unnext ;;; oc <- read_opcode ;; top_loop g' f cm oc ro bf
      else expect_any_of_next [kCloseSq] ;;; opt_newline ;;; top_loop g' f cm opc ro true
    else if N.eqb k 8%N then
      if negb (N.eqb opc 0) then fail else
      en <- read_enum g' bf ;;
      bottom {| structs := structs f; messages := messages f;
                enums := enums f ++ [{| e_name := e_name en; e_comment := join_nl cm; e_opts := e_opts en; e_simple := e_simple en; e_unsigned := e_unsigned en |}];
                unions := unions f; consts := consts f; imports := imports f; gopackage := gopackage f |} ro
    else if N.eqb k 5%N then
      b2 <- p_next ;; if negb b2 then fail else
      k3 <- p_kind ;; if N.eqb k3 6%N then do_struct true else fail
    else if N.eqb k 6%N then do_struct ro
    else if N.eqb k 7%N then
      if bf then fail else
      m <- read_message g' ;;
      bottom {| structs := structs f;
                messages := messages f ++ [{| m_name := m_name m; m_comment := join_nl cm; m_fields := m_fields m; m_opcode := opc |}];
                enums := enums f; unions := unions f; consts := consts f; imports := imports f; gopackage := gopackage f |} ro
    else if N.eqb k 13%N then
      if bf then fail else
      u <- read_union g' ;;
      bottom {| structs := structs f; messages := messages f; enums := enums f;
                unions := unions f ++ [{| un_name := un_name u; un_comment := join_nl cm; un_fields := un_fields u; un_opcode := opc |}];
                consts := consts f; imports := imports f; gopackage := gopackage f |} ro
    else if N.eqb k 14%N then
      if bf then fail else if negb (N.eqb opc 0) then fail else
      c <- read_const g' ;;
      let c' := {| c_type := c_type c; c_comment := join_nl cm; c_name := c_name c; c_value := c_value c |} in
      let gp := if beq (c_name c) s_go_package && beq (c_type c) s_string then unquote (c_value c) else gopackage f in
      bottom {| structs := structs f; messages := messages f; enums := enums f; unions := unions f;
                consts := consts f ++ [c']; imports := imports f; gopackage := gp |} ro
    else bottom f ro
  end.

Definition read_file (input : bytes) (fails : bool) : pres file :=
  let n := length input + margin in
  let results := next_results n {| buf := {| rest := input; lastByte := None; lastRune := None; failing := fails |}; errs := [] |} in
  top_loop (2 * n + 8)
    {| structs := []; messages := []; enums := []; unions := []; consts := []; imports := []; gopackage := [] |}
    [] 0%N false false
    {| rs := results; cur := tok0; keep := false; perrs := [] |}.

