(* Parser inversion on a core sub-language: a list of structs with simple-typed fields, as a token stream. *)
From Coq Require Import List NArith ZArith Bool Arith Lia.
Require Import Bebop.front.Tok Bebop.front.Parse.
Import ListNotations.

Definition idT (nm : bytes) : token := {| kind := kIdent; concrete := nm |}.
Definition semiT : token := {| kind := kSemi; concrete := [59%N] |}.
Definition nlT : token := {| kind := kNewline; concrete := [10%N] |}.
Definition openT : token := {| kind := kOpenCu; concrete := [123%N] |}.
Definition closeT : token := {| kind := kCloseCu; concrete := [125%N] |}.
Definition structT : token := {| kind := 6%N; concrete := [115;116;114;117;99;116]%N |}.

Definition res (ts : list token) (tail : list nres) : list nres := map (fun t => NT t []) ts ++ tail.
Definition mk (rs : list nres) (cur : token) (keep : bool) : pst := {| rs := rs; cur := cur; keep := keep; perrs := [] |}.

Definition field_toks (f : bytes * bytes) : list token := [idT (fst f); idT (snd f); semiT; nlT].
Definition field_of (f : bytes * bytes) : field :=
  {| f_type := FSimple (fst f); f_name := snd f; f_comment := []; f_tags := []; f_depmsg := []; f_dep := false |}.

(* one field: from "at a newline, nothing kept" to the same situation after the field's four tokens *)
Lemma struct_loop_field f g fs tail :
  read_struct_loop (S (S (S (S g)))) fs [] [] [] false (mk (res (field_toks f) tail) nlT false)
  = read_struct_loop (S (S g)) (fs ++ [field_of f]) [] [] [] false (mk tail nlT false).
Proof.
  destruct f as [ty nm]. unfold field_toks, res, mk, field_of. cbn [map app fst snd].
  vm_compute. reflexivity.
Qed.

Definition fields_toks (fl : list (bytes * bytes)) : list token := flat_map field_toks fl.

Lemma res_app a b tail : res (a ++ b) tail = res a (res b tail).
Proof. unfold res. rewrite map_app, <- app_assoc. reflexivity. Qed.

(* all the fields: two units of fuel each *)
Lemma struct_loop_fields : forall fl g fs tail,
  read_struct_loop (2 * length fl + S (S g)) fs [] [] [] false (mk (res (fields_toks fl) tail) nlT false)
  = read_struct_loop (S (S g)) (fs ++ map field_of fl) [] [] [] false (mk tail nlT false).
Proof.
  induction fl as [|f fl IH]; intros g fs tail.
  - cbn [length Nat.mul plus fields_toks flat_map map res app]. now rewrite app_nil_r.
  - cbn [fields_toks flat_map]. fold (fields_toks fl). rewrite res_app.
    replace (2 * length (f :: fl) + S (S g)) with (S (S (S (S (2 * length fl + g))))) by (cbn [length]; lia).
    rewrite struct_loop_field.
    replace (S (S (2 * length fl + g))) with (2 * length fl + S (S g)) by lia.
    rewrite IH. cbn [map]. rewrite <- app_assoc. reflexivity.
Qed.

(* the closing brace ends the loop *)
Lemma struct_loop_close g fs tail :
  read_struct_loop (S (S g)) fs [] [] [] false (mk (res [closeT] tail) nlT false) = POk fs (mk tail closeT false).
Proof. vm_compute. reflexivity. Qed.

Definition struct_toks (nm : bytes) (fl : list (bytes * bytes)) : list token :=
  [structT; idT nm; openT; nlT] ++ fields_toks fl ++ [closeT; nlT].
Definition struct_of (nm : bytes) (fl : list (bytes * bytes)) : struct_ :=
  {| s_name := nm; s_comment := []; s_fields := map field_of fl; s_opcode := 0; s_readonly := false |}.

(* read_struct, entered with the keyword as the current token *)
Lemma read_struct_head g nm tail c :
  read_struct g (mk (res [idT nm; openT; nlT] tail) c false)
  = bind (read_struct_loop g [] [] [] [] false)
         (fun fs => ret {| s_name := nm; s_comment := []; s_fields := fs; s_opcode := 0; s_readonly := false |}) (mk tail nlT false).
Proof. vm_compute; reflexivity. Qed.

Lemma read_struct_ok nm fl g tail c :
  read_struct (2 * length fl + S (S g)) (mk (res ([idT nm; openT; nlT] ++ fields_toks fl ++ [closeT]) tail) c false)
  = POk (struct_of nm fl) (mk tail closeT false).
Proof.
  rewrite res_app, read_struct_head. unfold bind. rewrite res_app, struct_loop_fields, struct_loop_close. reflexivity.
Qed.

(* ---------- the top-level loop ---------- *)
Definition add_struct (f : file) (st : struct_) : file :=
  {| structs := structs f ++ [st]; messages := messages f; enums := enums f; unions := unions f; consts := consts f;
     imports := imports f; gopackage := gopackage f |}.

Ltac top_step :=
  cbn [top_loop]; unfold res, mk; cbn [map app];
  unfold bind at 1; unfold p_next at 1; cbn [keep rs cur perrs negb];
  try (unfold bind at 1; unfold p_tok at 1; cbn [cur kind structT nlT];
       cbn [N.eqb Pos.eqb kNewline kBlockC kLineC kOpenSq andb orb negb]).

Lemma top_struct_head F f tail c :
  top_loop (S F) f [] 0%N false false (mk (res [structT] tail) c false)
  = bind (read_struct F)
         (fun st => top_loop F (add_struct f {| s_name := s_name st; s_comment := []; s_fields := s_fields st; s_opcode := 0; s_readonly := false |})
                             [] 0%N false false) (mk tail structT false).
Proof. top_step. reflexivity. Qed.

Lemma top_newline g f tail c :
  top_loop (S g) f [] 0%N false false (mk (res [nlT] tail) c false) = top_loop g f [] 0%N false false (mk tail nlT false).
Proof. top_step. reflexivity. Qed.

Lemma top_eof g f tail c :
  top_loop (S g) f [] 0%N false false (mk (NF [] :: tail) c false) = POk f (mk tail c false).
Proof. cbn [top_loop]. unfold mk. unfold bind at 1. unfold p_next at 1. cbn [keep rs cur perrs negb]. reflexivity. Qed.

(* one struct definition, newline after the closing brace included *)
Lemma top_struct nm fl g f tail c :
  top_loop (S (2 * length fl + S (S g))) f [] 0%N false false (mk (res (struct_toks nm fl) tail) c false)
  = top_loop (2 * length fl + S g) (add_struct f (struct_of nm fl)) [] 0%N false false (mk tail nlT false).
Proof.
  unfold struct_toks.
  change ([structT; idT nm; openT; nlT] ++ fields_toks fl ++ [closeT; nlT])
    with ([structT] ++ ([idT nm; openT; nlT] ++ fields_toks fl ++ [closeT] ++ [nlT])).
  rewrite res_app, top_struct_head. unfold bind.
  replace ([idT nm; openT; nlT] ++ fields_toks fl ++ [closeT] ++ [nlT])
    with (([idT nm; openT; nlT] ++ fields_toks fl ++ [closeT]) ++ [nlT]) by (rewrite <- !app_assoc; reflexivity).
  rewrite res_app, read_struct_ok. cbn [s_name s_fields struct_of].
  replace (2 * length fl + S (S g)) with (S (2 * length fl + S g)) by lia.
  rewrite top_newline. reflexivity.
Qed.

(* a definition may be followed by any number of blank lines (extra newline tokens) *)
Definition bsdef := (bytes * list (bytes * bytes) * nat)%type.
Definition def_toks (s : bsdef) : list token := struct_toks (fst (fst s)) (snd (fst s)) ++ repeat nlT (snd s).
Definition need (sl : list bsdef) : nat := fold_right (fun s acc => 2 * length (snd (fst s)) + 3 + snd s + acc) 1 sl.
Definition all_toks (sl : list bsdef) : list token := flat_map def_toks sl.
Definition add_all (f : file) (sl : list bsdef) : file :=
  fold_left (fun f s => add_struct f (struct_of (fst (fst s)) (snd (fst s)))) sl f.

Lemma top_newlines : forall k g f tail c,
  top_loop (k + g) f [] 0%N false false (mk (res (repeat nlT k) tail) c false)
  = top_loop g f [] 0%N false false (mk tail (match k with O => c | _ => nlT end) false).
Proof.
  induction k as [|k IH]; intros g f tail c; [reflexivity|].
  cbn [repeat plus]. change (nlT :: repeat nlT k) with ([nlT] ++ repeat nlT k). rewrite res_app, top_newline, IH.
  destruct k; reflexivity.
Qed.

Lemma need_le sl : need sl <= length (all_toks sl) + 1.
Proof.
  induction sl as [|[[nm fl] k] sl IH]; [cbn; lia|]. cbn [need fold_right all_toks flat_map fst snd]. fold (need sl). fold (all_toks sl).
  rewrite app_length. unfold def_toks, struct_toks. cbn [fst snd]. rewrite !app_length, repeat_length. cbn [length].
  assert (length (fields_toks fl) = 4 * length fl).
  { induction fl as [|f fl IHf]; [reflexivity|]. cbn [fields_toks flat_map]. fold (fields_toks fl). rewrite app_length, IHf. cbn [field_toks length]. lia. }
  lia.
Qed.

Theorem top_structs : forall sl g f tail c,
  exists s', top_loop (need sl + g) f [] 0%N false false (mk (res (all_toks sl) (NF [] :: tail)) c false) = POk (add_all f sl) s'.
Proof.
  induction sl as [|[[nm fl] k] sl IH]; intros g f tail c.
  - cbn [need fold_right all_toks flat_map res map app add_all fold_left plus]. rewrite top_eof. eexists. reflexivity.
  - cbn [all_toks flat_map]. fold (all_toks sl). unfold def_toks at 1. cbn [fst snd].
    rewrite <- (app_assoc (struct_toks nm fl)), (res_app (struct_toks nm fl)).
    unfold need at 1. cbn [fold_right fst snd]. fold (need sl).
    replace (2 * length fl + 3 + k + need sl + g) with (S (2 * length fl + S (S (k + (need sl + g))))) by lia.
    rewrite top_struct, res_app.
    replace (2 * length fl + S (k + (need sl + g))) with (k + (need sl + (2 * length fl + S g))) by lia.
    rewrite top_newlines. cbn [add_all fold_left fst snd]. apply IH.
Qed.

(* ---------- from the text: tokenizer inversion (front/LexInv.v) + the lemmas above ---------- *)
Require Import Bebop.front.TokInv Bebop.front.LexInv.

(* an identifier that is not a keyword *)
Record ident := { ic : byte; itl : bytes }.
Definition ibytes (i : ident) : bytes := ic i :: itl i.
Definition ident_ok (i : ident) : Prop :=
  is_letter (ic i) = true /\ Forall (fun x => is_idc x = true) (itl i) /\ keyword (ibytes i) = kIdent.
Definition Wi (i : ident) : lexeme := W (ic i) (itl i).

Definition sdef := (ident * list (ident * ident) * nat)%type.        (* struct name, fields (type, name), blank lines after it *)
Definition field_lex (f : ident * ident) : list lexeme := [Wi (fst f); Wi (snd f); T1 59%N kSemi; T1 10%N kNewline].
Definition struct_lex (s : sdef) : list lexeme :=
  [W 115%N [116; 114; 117; 99; 116]%N; Wi (fst (fst s)); T1 123%N kOpenCu; T1 10%N kNewline] ++ flat_map field_lex (snd (fst s)) ++ [T1 125%N kCloseCu; T1 10%N kNewline]
  ++ repeat (T1 10%N kNewline) (snd s).
Definition schema_lex (sl : list sdef) : list lexeme := flat_map struct_lex sl.

Definition bdef (s : sdef) : bsdef := (ibytes (fst (fst s)), map (fun f => (ibytes (fst f), ibytes (snd f))) (snd (fst s)), snd s).
Definition sdef_ok (s : sdef) : Prop := ident_ok (fst (fst s)) /\ Forall (fun f => ident_ok (fst f) /\ ident_ok (snd f)) (snd (fst s)).

Definition file0 : file := {| structs := []; messages := []; enums := []; unions := []; consts := []; imports := []; gopackage := [] |}.
(* the File the text states *)
Definition file_of (sl : list sdef) : file := add_all file0 (map bdef sl).

Lemma tok_of_Wi i : ident_ok i -> tok_of (Wi i) = idT (ibytes i).
Proof. intros (_ & _ & K). unfold Wi, tok_of, idT, ibytes in *. now rewrite K. Qed.
Lemma lex_ok_Wi i : ident_ok i -> lex_ok (Wi i).
Proof. intros (A & B & _). split; assumption. Qed.

Lemma schema_toks sl : Forall sdef_ok sl -> map tok_of (schema_lex sl) = all_toks (map bdef sl).
Proof.
  induction 1 as [|[[nm fl] k] sl [Hn Hf] _ IH]; [reflexivity|].
  cbn [schema_lex flat_map map all_toks]. fold (schema_lex sl). fold (all_toks (map bdef sl)). rewrite map_app, IH. f_equal.
  cbn [fst snd] in *. unfold struct_lex, def_toks, struct_toks, bdef. cbn [fst snd map app]. rewrite (tok_of_Wi nm Hn).
  change (tok_of (W 115%N [116; 114; 117; 99; 116]%N)) with structT.
  change (tok_of (T1 123%N kOpenCu)) with openT. change (tok_of (T1 10%N kNewline)) with nlT.
  do 4 f_equal. rewrite !map_app, <- app_assoc. f_equal.
  - induction Hf as [|[t n] fl [Ht Hnm] _ IHf]; [reflexivity|].
    cbn [flat_map map fields_toks]. fold (fields_toks (map (fun f => (ibytes (fst f), ibytes (snd f))) fl)). rewrite map_app, IHf. f_equal.
    cbn [field_lex field_toks fst snd map]. rewrite (tok_of_Wi t Ht), (tok_of_Wi n Hnm). reflexivity.
  - cbn [map app]. do 2 f_equal. clear. induction k as [|k IHk]; [reflexivity|]. cbn [repeat map]. now rewrite IHk.
Qed.

Lemma kw_struct_ok : lex_ok (W 115%N [116; 114; 117; 99; 116]%N).
Proof. cbn [lex_ok]. split; [reflexivity|repeat constructor]. Qed.
Lemma schema_lex_ok sl : Forall sdef_ok sl -> Forall lex_ok (schema_lex sl).
Proof.
  induction 1 as [|[[nm fl] k] sl [Hn Hf] _ IH]; [constructor|].
  cbn [schema_lex flat_map]. apply Forall_app. split; [|exact IH]. cbn [fst snd] in *.
  unfold struct_lex. cbn [fst snd app].
  constructor; [exact kw_struct_ok|]. constructor; [now apply lex_ok_Wi|]. constructor; [reflexivity|]. constructor; [reflexivity|].
  apply Forall_app. split.
  - induction Hf as [|[t n] fl [Ht Hnm] _ IHf]; [constructor|]. cbn [flat_map]. apply Forall_app. split; [|exact IHf].
    cbn [field_lex fst snd]. constructor; [now apply lex_ok_Wi|]. constructor; [now apply lex_ok_Wi|]. constructor; [reflexivity|].
    constructor; [reflexivity|constructor].
  - constructor; [reflexivity|]. constructor; [reflexivity|]. clear. induction k as [|k IHk]; [constructor|]. cbn [repeat]. constructor; [reflexivity|exact IHk].
Qed.

(* C11 on the core sub-language, end to end: for EVERY list of structs whose names, field types and field names are
   identifiers that are not keywords, and EVERY way of putting horizontal whitespace (spaces, tabs, CRs - so CRLF too) in
   front of the tokens of its canonical one-field-per-line text, ReadFile returns exactly the File the text states. *)
Theorem read_structs : forall sl l tail,
  Forall sdef_ok sl -> map snd l = schema_lex sl ->
  Forall (fun p => hws (fst p)) l -> sep_ok l -> hws tail ->
  exists s', read_file (render l tail) false = POk (file_of sl) s'.
Proof.
  intros sl l tail Hok Hl Hws Hsep Ht.
  assert (Hlex : Forall (fun p => hws (fst p) /\ lex_ok (snd p)) l).
  { pose proof (schema_lex_ok sl Hok) as H. rewrite <- Hl in H. clear -Hws H.
    induction l as [|p l IH]; [constructor|]. inversion Hws; subst. cbn [map] in H. inversion H; subst. constructor; [split; assumption|auto]. }
  destruct (run_inversion l tail Hlex Hsep Ht) as (m & Hm & Hrun). unfold run in Hrun.
  unfold read_file. rewrite Hrun.
  assert (Htoks : map (fun p => NT (tok_of (snd p)) []) l = map (fun t => NT t []) (all_toks (map bdef sl))).
  { rewrite <- (schema_toks sl Hok), <- Hl, !map_map. reflexivity. }
  assert (Hcount : length l = length (all_toks (map bdef sl))).
  { apply (f_equal (@length nres)) in Htoks. now rewrite !map_length in Htoks. }
  rewrite Htoks.
  assert (Hlen : length l <= length (render l tail)).
  { clear -Hlex. induction Hlex as [|[ws x] r _ _ IH]; cbn [length render]; [lia|]. rewrite !app_length. destruct x; cbn [text_of length]; lia. }
  destruct m as [|m]; [pose proof margin_ge; lia|]. cbn [repeat].
  pose proof (need_le (map bdef sl)) as Hneed.
  set (n := length (render l tail) + margin) in *.
  replace (2 * n + 8) with (need (map bdef sl) + (2 * n + 8 - need (map bdef sl))) by lia.
  apply (top_structs (map bdef sl) _ file0 (repeat (NF []) m) tok0).
Qed.

