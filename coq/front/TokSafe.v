(* The tokenizer model never reaches its panic (tokenize.go's unreadByte panics when bufio refuses UnreadByte): every
   UnreadByte follows a successful ReadByte, for EVERY input and every failing-reader position. *)
From Coq Require Import List NArith Bool Arith Lia.
Require Import Bebop.front.Tok.
Import ListNotations.

(* bufio can unread *)
Definition lb (s : tstate) : Prop := lastByte (buf s) <> None.

Lemma read_ok_lb s b s1 : tr_read_byte s = (inl b, s1) -> lb s1 /\ errs s1 = errs s /\ length (rest (buf s1)) < length (rest (buf s)).
Proof.
  unfold tr_read_byte, read_byte, lb. destruct (rest (buf s)) as [|c r] eqn:E; [discriminate|].
  intros [= <- <-]. cbn. repeat split; [discriminate|lia].
Qed.
Lemma read_err_lb s e s1 : tr_read_byte s = (inr e, s1) -> (lb s -> lb s1) /\ errs s1 = errs s.
Proof.
  unfold tr_read_byte, read_byte, lb. destruct (rest (buf s)) as [|c r] eqn:E; [|discriminate].
  intros [= <- <-]. cbn. auto.
Qed.
Lemma unread_lb s : lb s -> exists s2, tr_unread_byte s = Some s2 /\ errs s2 = errs s.
Proof.
  unfold lb, tr_unread_byte, unread_byte. destruct (lastByte (buf s)); [|congruence]. intros _. eexists. split; reflexivity.
Qed.
Lemma add_err_len s e : length (errs (add_err s e)) = S (length (errs s)).
Proof. unfold add_err. cbn. rewrite app_length. cbn. lia. Qed.

Definition ok {A} (r : res A) : Prop := r <> RPanic.
(* the errors only grow *)
Definition grows {A} (s : tstate) (r : res A) : Prop := match r with R _ s1 => length (errs s) <= length (errs s1) | RPanic => True end.

Lemma number_loop_ok : forall g s conc k a b c d, ok (number_loop g s conc k a b c d) /\ grows s (number_loop g s conc k a b c d).
Proof.
  induction g as [|g IH]; intros s conc k a b c d; [split; [unfold ok; discriminate|cbn; lia]|]. cbn [number_loop].
  destruct (tr_read_byte s) as [[x|[|]] s1] eqn:E.
  - destruct (read_ok_lb s x s1 E) as (L & Ee & _).
    assert (G : forall r : res token, grows s1 r -> grows s r) by (intros [? ?|]; cbn; [rewrite Ee; auto|auto]).
    repeat match goal with |- context [if ?x then _ else _] => destruct x end;
      try (match goal with |- ok (number_loop _ ?s0 ?c1 ?k1 ?a1 ?b1 ?c2 ?d1) /\ _ =>
             destruct (IH s0 c1 k1 a1 b1 c2 d1) as [? ?]; split; [assumption|apply G; assumption] end);
      try (split; [unfold ok; discriminate|cbn [grows]; rewrite ?add_err_len, ?Ee; lia]).
    destruct (unread_lb s1 L) as (s2 & -> & E2); split; [unfold ok; discriminate|cbn [grows]; rewrite E2, Ee; lia].
  - destruct (read_err_lb s _ s1 E) as (_ & Ee). destruct d; (split; [unfold ok; discriminate|cbn [grows]; rewrite ?add_err_len, ?Ee; lia]).
  - destruct (read_err_lb s _ s1 E) as (_ & Ee). split; [unfold ok; discriminate|cbn [grows]; rewrite add_err_len, Ee; lia].
Qed.

Ltac fin E := split; [unfold ok; discriminate|cbn [grows]; rewrite ?add_err_len, ?E; lia].

Lemma skip_ws_ok : forall g s, lb s -> ok (skip_ws g s) /\ grows s (skip_ws g s).
Proof.
  induction g as [|g IH]; intros s L; [split; [unfold ok; discriminate|cbn; lia]|]. cbn [skip_ws].
  destruct (tr_read_byte s) as [[x|e] s1] eqn:E.
  - destruct (read_ok_lb s x s1 E) as (L1 & Ee & _).
    destruct (N.eqb x 10 || N.eqb x 32 || N.eqb x 13).
    + destruct (IH s1 L1) as [H1 H2]. split; [exact H1|]. destruct (skip_ws g s1); cbn [grows] in *; [rewrite <- Ee; exact H2|exact I].
    + destruct (unread_lb s1 L1) as (s2 & -> & E2). split; [unfold ok; discriminate|cbn [grows]; rewrite E2, Ee; lia].
  - destruct (read_err_lb s e s1 E) as (L1 & Ee). destruct (unread_lb s1 (L1 L)) as (s2 & -> & E2).
    split; [unfold ok; discriminate|cbn [grows]; rewrite E2, Ee; lia].
Qed.

Lemma block_comment_ok : forall g s conc l, ok (block_comment g s conc l) /\ grows s (block_comment g s conc l).
Proof.
  induction g as [|g IH]; intros s conc l; [split; [unfold ok; discriminate|cbn; lia]|]. cbn [block_comment].
  destruct (tr_read_byte s) as [[x|[|]] s1] eqn:E.
  - destruct (read_ok_lb s x s1 E) as (L1 & Ee & _).
    destruct (N.eqb l 42 && N.eqb x 47).
    + destruct (skip_ws_ok (S (length (rest (buf s1)))) s1 L1) as [H1 H2].
      destruct (skip_ws _ s1) as [u s2|]; [|exfalso; apply H1; reflexivity].
      split; [unfold ok; discriminate|cbn [grows] in *; rewrite <- Ee; exact H2].
    + destruct (IH s1 (conc ++ [x]) x) as [H1 H2]. split; [exact H1|].
      destruct (block_comment g s1 _ x); cbn [grows] in *; [rewrite <- Ee; exact H2|exact I].
  - destruct (read_err_lb s _ s1 E) as (_ & Ee). fin Ee.
  - destruct (read_err_lb s _ s1 E) as (_ & Ee). fin Ee.
Qed.

Lemma string_lit_ok : forall g s conc e, ok (string_lit g s conc e) /\ grows s (string_lit g s conc e).
Proof.
  induction g as [|g IH]; intros s conc e; [split; [unfold ok; discriminate|cbn; lia]|]. cbn [string_lit].
  destruct (tr_read_byte s) as [[x|[|]] s1] eqn:E.
  - destruct (read_ok_lb s x s1 E) as (L1 & Ee & _).
    destruct (N.eqb x 34 && negb e); [fin Ee|].
    destruct (IH s1 (conc ++ [x]) (N.eqb x 92 && negb e)) as [H1 H2]. split; [exact H1|].
    destruct (string_lit g s1 _ _); cbn [grows] in *; [rewrite <- Ee; exact H2|exact I].
  - destruct (read_err_lb s _ s1 E) as (_ & Ee). fin Ee.
  - destruct (read_err_lb s _ s1 E) as (_ & Ee). fin Ee.
Qed.

Lemma line_comment_ok s conc : ok (line_comment s conc) /\ grows s (line_comment s conc).
Proof.
  unfold line_comment. destruct (read_bytes_nl (buf s)) as [[line e] b]. destruct e as [[|]|];
    (split; [unfold ok; discriminate|cbn [grows with_buf errs]; rewrite ?add_err_len; cbn [with_buf errs]; lia]).
Qed.

(* find: never panics; the errors only grow; and when it gives up WITHOUT a new error a byte has just been read *)
Definition find_post (s : tstate) (r : res (option token)) : Prop :=
  match r with
  | RPanic => False
  | R o s1 => length (errs s) <= length (errs s1) /\
              (o = None -> length (errs s1) = length (errs s) -> lb s1 /\ length (rest (buf s1)) < length (rest (buf s)))
  end.

Lemma find_ok : forall g n s conc, length (rest (buf s)) < g -> find_post s (find g n s conc).
Proof.
  induction g as [|g IH]; intros n s conc Hg; [lia|]. cbn [find].
  destruct (tr_read_byte s) as [[x|[|]] s1] eqn:E.
  - destruct (read_ok_lb s x s1 E) as (L1 & Ee & Hr).
    assert (Hg1 : length (rest (buf s1)) < g) by lia.
    destruct (skips n x).
    { specialize (IH n s1 conc Hg1). destruct (find g n s1 conc) as [o s2|]; [|exact IH]. cbn [find_post] in *. rewrite <- Ee.
      destruct IH as [I1 I2]. split; [exact I1|]. intros Ho Hl. destruct (I2 Ho Hl) as [I3 I4]. split; [exact I3|lia]. }
    (* the dispatch on a byte b from a state s' whose errors are at least those of s and whose buffer is that of s1 *)
    assert (D : forall b s', buf s' = buf s1 -> length (errs s) <= length (errs s') ->
                  (length (errs s') = length (errs s) -> succ n b <> NoSucc) ->
                  find_post s (let conc' := conc ++ [b] in
                               let fuel := S (length (rest (buf s'))) in
                               match succ n b with
                               | Term k => R (Some {| kind := k; concrete := conc' |}) s'
                               | Num => match number_loop fuel s' conc' kInt true false false false with R t s2 => R (Some t) s2 | RPanic => RPanic end
                               | Str => match string_lit fuel s' conc' false with R t s2 => R (Some t) s2 | RPanic => RPanic end
                               | LineC => match line_comment s' conc' with R t s2 => R (Some t) s2 | RPanic => RPanic end
                               | BlockC => match block_comment fuel s' conc' 0%N with R t s2 => R (Some t) s2 | RPanic => RPanic end
                               | Go n' => find g n' s' conc'
                               | NoSucc => R None s'
                               end)).
    { intros b s' Hb He Hns. cbv zeta. destruct (succ n b) eqn:Es.
      - cbn [find_post]. split; [exact He|discriminate].
      - destruct (number_loop_ok (S (length (rest (buf s')))) s' (conc ++ [b]) kInt true false false false) as [H1 H2].
        destruct (number_loop _ s' _ _ _ _ _ _); [|exfalso; apply H1; reflexivity]. cbn [find_post grows] in *. split; [lia|discriminate].
      - destruct (string_lit_ok (S (length (rest (buf s')))) s' (conc ++ [b]) false) as [H1 H2].
        destruct (string_lit _ s' _ _); [|exfalso; apply H1; reflexivity]. cbn [find_post grows] in *. split; [lia|discriminate].
      - destruct (line_comment_ok s' (conc ++ [b])) as [H1 H2].
        destruct (line_comment s' _); [|exfalso; apply H1; reflexivity]. cbn [find_post grows] in *. split; [lia|discriminate].
      - destruct (block_comment_ok (S (length (rest (buf s')))) s' (conc ++ [b]) 0%N) as [H1 H2].
        destruct (block_comment _ s' _ _); [|exfalso; apply H1; reflexivity]. cbn [find_post grows] in *. split; [lia|discriminate].
      - assert (Hg' : length (rest (buf s')) < g) by (rewrite Hb; exact Hg1).
        specialize (IH n0 s' (conc ++ [b]) Hg'). destruct (find g n0 s' _) as [o s2|]; [|exact IH]. cbn [find_post] in *.
        destruct IH as [I1 I2]. split; [lia|]. intros Ho Hl. destruct (I2 Ho ltac:(lia)) as [I3 I4]. split; [exact I3|]. rewrite Hb in I4. lia.
      - cbn [find_post]. split; [exact He|]. intros _ Hl. exfalso. apply (Hns Hl). reflexivity. }
    destruct (succ n x) eqn:Es.
    all: try (specialize (D x s1 eq_refl ltac:(rewrite Ee; lia) ltac:(intros _; rewrite Es; discriminate)); cbv zeta in D; rewrite Es in D; exact D).
    (* NoSucc *)
    destruct conc as [|c0 conc0].
    + cbn [find_post]. split; [rewrite Ee; lia|]. intros _ _. split; [exact L1|exact Hr].
    + specialize (D (first_valid n) (add_err s1 KOther) eq_refl ltac:(rewrite add_err_len, Ee; lia)
                    ltac:(rewrite add_err_len, Ee; lia)).
      exact D.
  - destruct (read_err_lb s _ s1 E) as (_ & Ee). cbn [find_post]. split; [rewrite add_err_len, Ee; lia|]. intros _ Hl. rewrite add_err_len, Ee in Hl. lia.
  - destruct (read_err_lb s _ s1 E) as (_ & Ee). cbn [find_post]. split; [rewrite add_err_len, Ee; lia|]. intros _ Hl. rewrite add_err_len, Ee in Hl. lia.
Qed.

Lemma next_ident_ok : forall g s conc, ok (next_ident g s conc).
Proof.
  induction g as [|g IH]; intros s conc; [unfold ok; discriminate|]. cbn [next_ident].
  destruct (read_rune (buf s)) as [[c|[|]] b1]; try (unfold ok; discriminate).
  destruct (is_letter c || is_digit c || N.eqb c 95); [apply IH|unfold ok; discriminate].
Qed.

(* one Next() call never panics, whatever state the previous calls left *)
Theorem next_never_panics s : next s <> RPanic.
Proof.
  unfold next. pose proof (find_ok (S (S (length (rest (buf s))))) NRoot s [] ltac:(lia)) as H.
  destruct (find _ NRoot s []) as [ot s1|]; [|contradiction]. cbn [find_post] in H. destruct H as [H1 H2].
  destruct (last_err (errs s1)) as [[| | |]|]; try discriminate;
    (destruct ot as [t|]; [discriminate|]);
    (destruct (Nat.ltb_spec (length (errs s)) (length (errs s1))) as [Hlt|Hge]; [discriminate|]);
    (destruct (unread_lb s1 (proj1 (H2 eq_refl ltac:(lia)))) as (s2 & -> & _));
    (destruct (read_rune (buf s2)) as [[c|[|]] b3]; try discriminate);
    (destruct (is_letter c); [apply next_ident_ok|discriminate]).
Qed.

Definition no_np (l : list nres) : Prop := ~ In NP l.
Lemma next_results_no_np : forall n s, no_np (next_results n s).
Proof.
  induction n as [|n IH]; intros s; [intros []|]. cbn [next_results].
  pose proof (next_never_panics s) as H. destruct (next s) as [[t|] s1|]; [| |contradiction];
    (intros [E|E]; [discriminate|exact (IH s1 E)]).
Qed.
