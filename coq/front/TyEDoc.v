(* Doc comments and deprecations on ENUM MEMBERS in the inversion theorems: a member of a typed enum preceded by `//` comment
   lines (its comment: the lines joined by newlines) and then, optionally, by a [deprecated("reason")] line.  Format writes
   all of it back unchanged, indented like the member. *)
From Coq Require Import List NArith ZArith Bool Arith Lia.
Require Import Bebop.front.Tok Bebop.front.Parse Bebop.front.Fmt Bebop.front.TokInv Bebop.front.LexInv Bebop.front.ParseInv Bebop.front.FmtInv Bebop.front.MsgInv.
Require Import Bebop.front.GenInv Bebop.front.Items Bebop.front.TyInv Bebop.front.TyMsg Bebop.front.TyItems Bebop.front.TyUnion Bebop.front.TyUnionItem Bebop.front.TyOpcode Bebop.front.TyEnum Bebop.front.TyDep Bebop.front.TyDoc Bebop.front.TyFDoc.
Import ListNotations.

Arguments parse_uint : simpl never.
Arguments parse_int : simpl never.

(* comment lines, the deprecation reason if any, the member (name, value digits, value; component types written out) *)
Definition cmember := (list bytes * (option bytes * (bytes * (bytes * N))))%type.
Definition cm_m (m : cmember) : emember := snd (snd m).
Definition cmember_toks (m : cmember) : list token := doc_toks (fst m) ++ cdep_toks (fst (snd m)) ++ em_toks (snd (snd m)).
Definition cmembers_toks (ml : list cmember) : list token := flat_map cmember_toks ml.
Definition cmember_opt (uns : bool) (m : cmember) : enumopt :=
  let d := match fst (snd m) with Some b => b | None => [] end in
  let p := match fst (snd m) with Some _ => true | None => false end in
  if uns then {| o_name := fst (snd (snd m)); o_comment := join_nl (fst m); o_depmsg := d; o_value := 0%Z; o_uvalue := snd (snd (snd (snd m))); o_dep := p |}
  else {| o_name := fst (snd (snd m)); o_comment := join_nl (fst m); o_depmsg := d; o_value := Z.of_N (snd (snd (snd (snd m)))); o_uvalue := 0%N; o_dep := p |}.

Ltac estep1 :=
  cbv beta iota zeta delta [bind p_next p_haserr p_kind p_tok p_unnext ret fail expect_any_of_next expect_next skip_eol_comments opt_newline read_deprecated read_enum_value conc next_cat deprecated_line member_loop
                            mk kept keep rs cur perrs kin existsb];
  cbn [N.eqb Pos.eqb orb andb negb kind concrete kIdent kOpenSq kCloseSq kComma kSemi kNewline kCloseCu kOpenCu kLineC kBlockC kInt kArrow kString kOpenPar kClosePar kEquals
       arrayT mapT osqT csqT commaT idT semiT nlT closeT lcT oparT cparT depT strT eqT numT fst snd].
Ltac estep := repeat progress estep1.

Lemma el_doc body g uns bits opts cm dm dep tail c : cbody_ok body -> N.eqb (kind c) kCloseCu = false ->
  read_enum_loop (S g) false uns bits opts cm dm dep (mk (res [lcT body] tail) c false)
  = read_enum_loop g false uns bits opts (cm ++ [body]) dm dep (mk tail (lcT body) false).
Proof.
  intros H Hc. unfold res. cbn [map app read_enum_loop]. estep. rewrite Hc. estep.
  change {| kind := 32; concrete := 47%N :: 47%N :: body ++ [10%N] |} with (lcT body). rewrite (sanitize_lc body H). reflexivity.
Qed.
Lemma el_docs uns bits : forall cs g opts cm tail c, Forall cbody_ok cs -> N.eqb (kind c) kCloseCu = false ->
  exists c', N.eqb (kind c') kCloseCu = false /\
    read_enum_loop (length cs + g) false uns bits opts cm [] false (mk (res (doc_toks cs) tail) c false)
    = read_enum_loop g false uns bits opts (cm ++ cs) [] false (mk tail c' false).
Proof.
  induction cs as [|b cs IH]; intros g opts cm tail c H Hc.
  - exists c. split; [exact Hc|]. cbn [length plus doc_toks map res app]. now rewrite app_nil_r.
  - inversion H as [|? ? Hb Hr]; subst. cbn [length plus doc_toks map]. change (lcT b :: map lcT cs) with ([lcT b] ++ doc_toks cs).
    rewrite res_app, (el_doc b _ uns bits opts cm [] false _ c Hb Hc). destruct (IH g opts (cm ++ [b]) tail (lcT b) Hr eq_refl) as (c' & Hc' & E).
    exists c'. split; [exact Hc'|]. rewrite E, <- app_assoc. reflexivity.
Qed.
Lemma el_dep body G uns bits opts cm tail c : Forall (fun x => dplain x = true) body -> N.eqb (kind c) kCloseCu = false ->
  read_enum_loop (S G) false uns bits opts cm [] false (mk (res (dep_toks body) tail) c false)
  = read_enum_loop G false uns bits opts cm body true (mk tail nlT false).
Proof.
  intros Hb Hc. unfold dep_toks, res. cbn [map app read_enum_loop]. estep. rewrite Hc. estep.
  change (34%N :: body ++ [34%N]) with (concrete (strT body)). rewrite (unquote_str body Hb). reflexivity.
Qed.
Lemma el_member_gen uns bits m g opts cm dm dep tail c : tem_ok uns bits m -> N.eqb (kind c) kCloseCu = false ->
  read_enum_loop (S (S g)) false uns bits opts cm dm dep (mk (res (em_toks m) tail) c false)
  = read_enum_loop g false uns bits
      (opts ++ [if uns then {| o_name := fst m; o_comment := join_nl cm; o_depmsg := dm; o_value := 0%Z; o_uvalue := snd (snd m); o_dep := dep |}
                else {| o_name := fst m; o_comment := join_nl cm; o_depmsg := dm; o_value := Z.of_N (snd (snd m)); o_uvalue := 0%N; o_dep := dep |}])
      [] [] false (mk tail nlT false).
Proof.
  destruct m as [nm [ds v]]. unfold em_toks, tem_ok, res. cbn [map app fst snd]. intros Hp Hc.
  cbn [read_enum_loop]. estep. rewrite Hc. estep. destruct uns; estep; rewrite Hp; estep; cbn [read_enum_loop]; estep; reflexivity.
Qed.

Definition cmember_ok (uns : bool) (bits : N) (m : cmember) : Prop :=
  Forall cbody_ok (fst m) /\ tem_ok uns bits (snd (snd m)) /\ match fst (snd m) with Some b => Forall (fun x => dplain x = true) b | None => True end.
Definition cefuel (m : cmember) : nat := length (fst m) + (2 + (match fst (snd m) with Some _ => 1 | None => 0 end)).
Lemma el_cmember uns bits m g opts tail c : cmember_ok uns bits m -> N.eqb (kind c) kCloseCu = false ->
  read_enum_loop (cefuel m + g) false uns bits opts [] [] false (mk (res (cmember_toks m) tail) c false)
  = read_enum_loop g false uns bits (opts ++ [cmember_opt uns m]) [] [] false (mk tail nlT false).
Proof.
  destruct m as [cs [d m0]]. unfold cmember_ok, cefuel, cmember_toks, cmember_opt. cbn [fst snd]. intros (Hcs & Hm & Hd) Hc.
  rewrite res_app, <- Nat.add_assoc.
  destruct (el_docs uns bits cs (2 + match d with Some _ => 1 | None => 0 end + g) opts [] (res (cdep_toks d ++ em_toks m0) tail) c Hcs Hc) as (c' & Hc' & E).
  rewrite E. cbn [app]. clear E.
  destruct d as [b|]; cbn [cdep_toks].
  - rewrite res_app. replace (2 + 1 + g) with (S (S (S g))) by lia.
    rewrite (el_dep b _ uns bits opts cs _ c' Hd Hc'). rewrite (el_member_gen uns bits m0 g opts cs b true tail nlT Hm eq_refl). destruct uns; reflexivity.
  - cbn [app]. replace (2 + 0 + g) with (S (S g)) by lia. rewrite (el_member_gen uns bits m0 g opts cs [] false tail c' Hm Hc'). destruct uns; reflexivity.
Qed.
Definition cesum (ml : list cmember) : nat := fold_right (fun m acc => cefuel m + acc) 0 ml.
Lemma el_cmembers uns bits : forall ml g opts tail, Forall (cmember_ok uns bits) ml ->
  read_enum_loop (cesum ml + g) false uns bits opts [] [] false (mk (res (cmembers_toks ml) tail) nlT false)
  = read_enum_loop g false uns bits (opts ++ map (cmember_opt uns) ml) [] [] false (mk tail nlT false).
Proof.
  induction ml as [|m ml IH]; intros g opts tail Hok.
  - cbn [cesum fold_right plus cmembers_toks flat_map map res app]. now rewrite app_nil_r.
  - inversion Hok as [|? ? Hm Hr]; subst. cbn [cmembers_toks flat_map cesum fold_right]. fold (cmembers_toks ml). fold (cesum ml).
    rewrite res_app, <- Nat.add_assoc, (el_cmember uns bits m _ opts _ nlT Hm eq_refl), (IH _ _ _ Hr). cbn [map]. rewrite <- app_assoc. reflexivity.
Qed.

Definition cenum_toks (nm tname : bytes) (ml : list cmember) : list token :=
  [enumT; idT nm; colonT; idT tname; openT; nlT] ++ cmembers_toks ml ++ [closeT; nlT].
Definition cenum_of (nm tname : bytes) (uns : bool) (ml : list cmember) : enum_ :=
  {| e_name := nm; e_comment := []; e_opts := map (cmember_opt uns) ml; e_simple := tname; e_unsigned := uns |}.
Lemma read_cenum_ok nm tname uns bits ml g tail c : base_ok tname uns bits -> Forall (cmember_ok uns bits) ml ->
  read_enum (cesum ml + S (S g)) false (mk (res ([idT nm; colonT; idT tname; openT; nlT] ++ cmembers_toks ml ++ [closeT]) tail) c false)
  = POk (cenum_of nm tname uns ml) (mk tail closeT false).
Proof.
  intros Hb Hok. rewrite res_app, (read_tenum_head _ nm tname uns bits _ _ Hb). unfold bind. rewrite res_app.
  rewrite (el_cmembers uns bits ml (S (S g)) [] _ Hok), tenum_loop_close. reflexivity.
Qed.
Lemma top_cenum nm tname uns bits ml g f tail c : base_ok tname uns bits -> Forall (cmember_ok uns bits) ml ->
  top_loop (S (cesum ml + S (S g))) f [] 0%N false false (mk (res (cenum_toks nm tname ml) tail) c false)
  = top_loop (cesum ml + S g) (add_enum f (cenum_of nm tname uns ml)) [] 0%N false false (mk tail nlT false).
Proof.
  intros Hb Hok. unfold cenum_toks.
  change ([enumT; idT nm; colonT; idT tname; openT; nlT] ++ cmembers_toks ml ++ [closeT; nlT])
    with ([enumT] ++ ([idT nm; colonT; idT tname; openT; nlT] ++ cmembers_toks ml ++ [closeT] ++ [nlT])).
  rewrite res_app, top_enum_head. unfold bind.
  replace ([idT nm; colonT; idT tname; openT; nlT] ++ cmembers_toks ml ++ [closeT] ++ [nlT])
    with (([idT nm; colonT; idT tname; openT; nlT] ++ cmembers_toks ml ++ [closeT]) ++ [nlT]) by (rewrite <- !app_assoc; reflexivity).
  rewrite res_app, (read_cenum_ok nm tname uns bits ml g _ _ Hb Hok). cbn [e_name e_opts e_simple e_unsigned cenum_of].
  replace (cesum ml + S (S g)) with (S (cesum ml + S g)) by lia.
  rewrite top_newline. reflexivity.
Qed.

(* ---------- the formatter ---------- *)
Definition cmember_text (m : cmember) : bytes := fdocs_text (fst m) ++ cdep_text (fst (snd m)) ++ em_text (snd (snd m)).
Definition cmembers_text (ml : list cmember) : bytes := flat_map cmember_text ml.
Lemma fe_doc body g acc tail c :
  format_enum_loop (S g) acc (mk (res [lcT body] tail) c false)
  = format_enum_loop g (acc ++ tab ++ 47%N :: 47%N :: body ++ [10%N]) (mk tail (lcT body) false).
Proof. unfold res. cbn [map app format_enum_loop]. estep. reflexivity. Qed.
Lemma fe_docs : forall cs g acc tail c,
  exists c', format_enum_loop (length cs + g) acc (mk (res (doc_toks cs) tail) c false)
           = format_enum_loop g (acc ++ fdocs_text cs) (mk tail c' false).
Proof.
  induction cs as [|b cs IH]; intros g acc tail c.
  - exists c. cbn [length plus doc_toks map res app fdocs_text flat_map]. now rewrite app_nil_r.
  - cbn [length plus doc_toks map fdocs_text flat_map]. change (lcT b :: map lcT cs) with ([lcT b] ++ doc_toks cs). rewrite res_app, fe_doc.
    destruct (IH g (acc ++ tab ++ 47%N :: 47%N :: b ++ [10%N]) tail (lcT b)) as [c' E]. exists c'. rewrite E. fold (fdocs_text cs).
    rewrite <- !app_assoc. reflexivity.
Qed.
Lemma fe_dep_line body G acc tail c :
  format_enum_loop (S (S G)) acc (mk (res (dep_toks body) tail) c false)
  = format_enum_loop G (acc ++ dep_text body) (mk tail nlT false).
Proof.
  unfold dep_toks, res. cbn [map app format_enum_loop]. estep. cbn [format_enum_loop]. estep. f_equal. unfold dep_text. repeat (rewrite <- app_assoc || rewrite <- app_comm_cons). reflexivity.
Qed.
Lemma fe_member m g acc tail c :
  format_enum_loop (S (S (S (S g)))) acc (mk (res (em_toks m) tail) c false)
  = format_enum_loop (S (S g)) (acc ++ em_text m) (mk tail nlT false).
Proof.
  destruct m as [nm [ds v]]. unfold em_toks, em_text, res, mk. cbn [map app fst snd]. cbn [format_enum_loop]. estep. cbn [format_enum_loop]. estep.
  f_equal. repeat (rewrite <- app_assoc || rewrite <- app_comm_cons). reflexivity.
Qed.
Definition ceffuel (m : cmember) : nat := length (fst m) + (2 + (match fst (snd m) with Some _ => 2 | None => 0 end)).
Lemma fmt_cmember m g acc tail c :
  format_enum_loop (ceffuel m + S (S g)) acc (mk (res (cmember_toks m) tail) c false)
  = format_enum_loop (S (S g)) (acc ++ cmember_text m) (mk tail nlT false).
Proof.
  destruct m as [cs [d m0]]. unfold ceffuel, cmember_toks, cmember_text. cbn [fst snd]. rewrite res_app, <- Nat.add_assoc.
  destruct (fe_docs cs (2 + match d with Some _ => 2 | None => 0 end + S (S g)) acc (res (cdep_toks d ++ em_toks m0) tail) c) as [c' E]. rewrite E. clear E.
  destruct d as [b|]; cbn [cdep_toks cdep_text].
  - rewrite res_app. replace (2 + 2 + S (S g)) with (S (S (S (S (S (S g)))))) by lia.
    rewrite fe_dep_line, fe_member, <- !app_assoc. reflexivity.
  - cbn [app]. replace (2 + 0 + S (S g)) with (S (S (S (S g)))) by lia. rewrite fe_member, <- !app_assoc. reflexivity.
Qed.
Definition cefsum (ml : list cmember) : nat := fold_right (fun m acc => ceffuel m + acc) 0 ml.
Lemma fmt_cmembers : forall ml g acc tail,
  format_enum_loop (cefsum ml + S (S g)) acc (mk (res (cmembers_toks ml) tail) nlT false)
  = format_enum_loop (S (S g)) (acc ++ cmembers_text ml) (mk tail nlT false).
Proof.
  induction ml as [|m ml IH]; intros g acc tail.
  - cbn [cefsum fold_right plus cmembers_toks cmembers_text flat_map map res app]. now rewrite app_nil_r.
  - cbn [cmembers_toks cmembers_text flat_map cefsum fold_right]. fold (cmembers_toks ml). fold (cmembers_text ml). fold (cefsum ml).
    rewrite res_app, <- Nat.add_assoc.
    replace (cefsum ml + S (S g)) with (S (S (cefsum ml + g))) by lia. rewrite fmt_cmember.
    replace (S (S (cefsum ml + g))) with (cefsum ml + S (S g)) by lia. rewrite IH, <- app_assoc. reflexivity.
Qed.
Definition cenum_text (nm tname : bytes) (ml : list cmember) : bytes :=
  [101; 110; 117; 109]%N ++ sp ++ nm ++ sp ++ [58%N] ++ sp ++ tname ++ sp ++ [123%N] ++ nlb ++ cmembers_text ml ++ [125%N] ++ nlb.
Lemma fmt_cenum_ok nm tname ml g tail :
  format_enum (S (cefsum ml + S (S g))) (mk (res ([idT nm; colonT; idT tname; openT; nlT] ++ cmembers_toks ml ++ [closeT]) tail) enumT false)
  = POk (cenum_text nm tname ml) (mk tail closeT false).
Proof.
  rewrite res_app, fmt_tenum_head, fmt_enum_nl, res_app, fmt_cmembers, fmt_eclose. unfold cenum_text. rewrite <- !app_assoc. reflexivity.
Qed.
Lemma fmt_top_cenum nm tname ml g out nl tail c :
  format_loop (S (S (cefsum ml + S (S g)))) out false nl (mk (res (cenum_toks nm tname ml) tail) c false)
  = format_loop (cefsum ml + S (S g)) ((if nl then out ++ nlb else out) ++ cenum_text nm tname ml) false true (mk tail nlT false).
Proof.
  unfold cenum_toks.
  change ([enumT; idT nm; colonT; idT tname; openT; nlT] ++ cmembers_toks ml ++ [closeT; nlT])
    with ([enumT] ++ ([idT nm; colonT; idT tname; openT; nlT] ++ cmembers_toks ml ++ [closeT] ++ [nlT])).
  rewrite res_app, fmt_top_enum_head. unfold bind.
  replace ([idT nm; colonT; idT tname; openT; nlT] ++ cmembers_toks ml ++ [closeT] ++ [nlT])
    with (([idT nm; colonT; idT tname; openT; nlT] ++ cmembers_toks ml ++ [closeT]) ++ [nlT]) by (rewrite <- !app_assoc; reflexivity).
  rewrite res_app, fmt_cenum_ok, fmt_top_newline. reflexivity.
Qed.

(* ---------- the item ---------- *)
Definition cedef := (list bytes * (option bytes * edef))%type.
Definition bce (m : cedef) : cmember := (fst m, (fst (snd m), bem (snd (snd m)))).
Definition cedef_ok (m : cedef) : Prop :=
  Forall cbody_ok (fst m) /\ (ident_ok (fst (snd (snd m))) /\ idx_ok (snd (snd (snd m)))) /\
  match fst (snd m) with Some b => Forall (fun x => dplain x = true) b | None => True end.
Definition cmember_lex (m : cedef) : list lexeme := docs_lex (fst m) ++ cdep_lex (fst (snd m)) ++ em_lex (snd (snd m)).
Definition cmember_layout (m : cedef) : list (bytes * lexeme) := fdocs_layout (fst m) ++ cdep_layout (fst (snd m)) ++ em_layout (snd (snd m)).

Lemma ce_toks m : cedef_ok m -> map tok_of (cmember_lex m) = cmember_toks (bce m).
Proof. intros (_ & H & _). unfold cmember_lex, cmember_toks, bce. cbn [fst snd]. rewrite !map_app, docs_toks_tie, cdep_toks_tie, (em_toks_tie _ H). reflexivity. Qed.
Lemma ce_lex m : cedef_ok m -> Forall lex_ok (cmember_lex m).
Proof. intros (Hc & H & Hd). unfold cmember_lex. apply Forall_app. split; [exact (docs_lex_ok _ Hc)|]. apply Forall_app. split; [exact (cdep_lex_ok _ Hd)|exact (em_lex_ok _ H)]. Qed.
Lemma ce_lay m : map snd (cmember_layout m) = cmember_lex m.
Proof. unfold cmember_layout, cmember_lex, fdocs_layout, docs_lex. rewrite !map_app, map_map, cdep_lay, em_lay. reflexivity. Qed.
Lemma ce_hws m : Forall (fun p => hws (fst p)) (cmember_layout m).
Proof.
  unfold cmember_layout. apply Forall_app. split; [|apply Forall_app; split; [apply cdep_hws|exact (em_hws (snd (snd m)))]].
  unfold fdocs_layout. induction (fst m) as [|b cs IH]; cbn [map]; constructor; [exact hws_tab|exact IH].
Qed.
Lemma ce_sep m rest : sep_ok rest -> sep_ok (cmember_layout m ++ rest).
Proof.
  intros Hr. unfold cmember_layout. rewrite <- !app_assoc. unfold fdocs_layout.
  induction (fst m) as [|b cs IH]; [apply cdep_sep; exact (em_sep (snd (snd m)) rest Hr)|]. cbn [map app sep_ok needs_end]. split; [exact I|exact IH].
Qed.
Lemma ce_ren m t : render (cmember_layout m) t = cmember_text (bce m) ++ t.
Proof.
  unfold cmember_layout, cmember_text, bce. cbn [fst snd]. rewrite !render_app, em_ren, cdep_ren. unfold fdocs_layout, fdocs_text.
  induction (fst m) as [|b cs IH]; [cbn [map render flat_map app]; now rewrite <- !app_assoc|]. cbn [map render text_of flat_map app]. rewrite IH.
  repeat (rewrite <- app_assoc || rewrite <- app_comm_cons). reflexivity.
Qed.
Lemma cesum_le ml : cesum ml <= length (cmembers_toks ml) /\ cefsum ml <= length (cmembers_toks ml).
Proof.
  induction ml as [|m ml [IH1 IH2]]; [cbn; lia|]. cbn [cesum cefsum fold_right cmembers_toks flat_map]. fold (cesum ml). fold (cefsum ml). fold (cmembers_toks ml).
  rewrite app_length. destruct m as [cs [d m0]]. unfold cefuel, ceffuel, cmember_toks, em_toks, doc_toks. cbn [fst snd]. rewrite !app_length, map_length. cbn [length].
  destruct d; cbn [cdep_toks dep_toks length]; lia.
Qed.

Definition ce_item (nm tname : ident) (uns : bool) (ml : list cedef) : item :=
  let bml := map bce ml in
  {| it_toks := cenum_toks (ibytes nm) (ibytes tname) bml; it_need := cesum bml + 3; it_fneed := cefsum bml + 4;
     it_upd := fun f => add_enum f (cenum_of (ibytes nm) (ibytes tname) uns bml); it_text := cenum_text (ibytes nm) (ibytes tname) bml; it_blank := true |}.
Definition ce_x (nm tname : ident) (ml : list cedef) : xitem :=
  {| x_lex := [kwE; Wi nm; colonL; Wi tname; ocuL; NLx] ++ flat_map cmember_lex ml ++ [ccuL; NLx];
     x_lay := [([], kwE); (sp, Wi nm); (sp, colonL); (sp, Wi tname); (sp, ocuL); ([], NLx)] ++ flat_map cmember_layout ml ++ [([], ccuL); ([], NLx)] |}.

Lemma ce_item_ok nm tname uns bits ml :
  ident_ok nm -> ident_ok tname -> base_ok (ibytes tname) uns bits ->
  Forall cedef_ok ml -> Forall (cmember_ok uns bits) (map bce ml) ->
  item_ok (ce_item nm tname uns ml) (ce_x nm tname ml).
Proof.
  intros Hn Ht Hb Hm He. constructor.
  - intros g f tail c. cbn [ce_item it_need it_toks it_upd]. exists (cesum (map bce ml) + S g). split; [lia|].
    replace (cesum (map bce ml) + 3 + g) with (S (cesum (map bce ml) + S (S g))) by lia. apply (top_cenum _ _ _ _ _ _ _ _ _ Hb He).
  - intros g out nl tail c. cbn [ce_item it_fneed it_toks it_text it_blank]. rewrite andb_true_r. exists (cefsum (map bce ml) + S (S g)). split; [lia|].
    replace (cefsum (map bce ml) + 4 + g) with (S (S (cefsum (map bce ml) + S (S g)))) by lia. apply fmt_top_cenum.
  - cbn [ce_x x_lex ce_item it_toks]. unfold cenum_toks. rewrite !map_app. cbn [map]. rewrite (tok_of_Wi nm Hn), (tok_of_Wi tname Ht).
    rewrite (pf_toks cmember_lex bce cmember_toks _ ce_toks ml Hm). reflexivity.
  - cbn [ce_x x_lex]. cbn [app]. constructor; [cbn [lex_ok kwE]; split; [reflexivity|repeat constructor]|]. constructor; [now apply lex_ok_Wi|].
    constructor; [reflexivity|]. constructor; [now apply lex_ok_Wi|]. constructor; [reflexivity|]. constructor; [reflexivity|].
    apply Forall_app. split; [exact (pf_lex cmember_lex _ ce_lex ml Hm)|]. constructor; [reflexivity|]. constructor; [reflexivity|constructor].
  - cbn [ce_item it_need it_fneed it_toks]. unfold cenum_toks. rewrite !app_length. cbn [length]. fold (cmembers_toks (map bce ml)).
    destruct (cesum_le (map bce ml)). lia.
  - cbn [ce_x x_lay x_lex]. rewrite !map_app, (pf_lay cmember_lex cmember_layout ce_lay). reflexivity.
  - cbn [ce_x x_lay]. cbn [app]. constructor; [exact hws_nil|]. do 4 (constructor; [exact hws_sp|]). constructor; [exact hws_nil|].
    apply Forall_app. split; [exact (pf_hws cmember_layout ce_hws ml)|]. constructor; [exact hws_nil|]. constructor; [exact hws_nil|constructor].
  - intros rest Hr. cbn [ce_x x_lay]. rewrite <- !app_assoc. cbn [app sep_ok needs_end Wi kwE colonL ocuL NLx].
    split; [left; discriminate|]. split; [left; discriminate|]. split; [exact I|]. split; [left; discriminate|]. split; [exact I|]. split; [exact I|].
    apply (pf_sep cmember_layout ce_sep). cbn [app sep_ok needs_end ccuL NLx]. split; [exact I|]. split; [exact I|exact Hr].
  - intros t. cbn [ce_x x_lay ce_item it_text]. rewrite !render_app, (pf_ren cmember_layout bce cmember_text ce_ren).
    cbn [render text_of Wi app NLx kwE colonL ocuL ccuL]. unfold cenum_text, cmembers_text, ibytes, sp, nlb.
    repeat (rewrite <- app_assoc || rewrite <- app_comm_cons). reflexivity.
Qed.
Print Assumptions ce_item_ok.
