(* Message fields of any type (front/TyInv.v) in the inversion theorems. *)
From Coq Require Import List NArith ZArith Bool Arith Lia.
Require Import Bebop.front.Tok Bebop.front.Parse Bebop.front.Fmt Bebop.front.ParseInv Bebop.front.FmtInv Bebop.front.MsgInv Bebop.front.TyInv.
Import ListNotations.

(* index digits, the index they denote, type, name *)
Definition tmfield := (bytes * N * (tyx * bytes))%type.
Definition tm_ds (f : tmfield) := fst (fst f). Definition tm_i (f : tmfield) := snd (fst f).
Definition tm_t (f : tmfield) := fst (snd f). Definition tm_n (f : tmfield) := snd (snd f).
Definition tmfield_toks (f : tmfield) : list token := [numT (tm_ds f); arrowT] ++ ty_toks (tm_t f) ++ [idT (tm_n f); semiT; nlT].
Definition tmfields_toks (fl : list tmfield) : list token := flat_map tmfield_toks fl.
Definition tmfield_of (f : tmfield) : N * field := (tm_i f, tfield_of (tm_t f, tm_n f)).

Fixpoint tmfs_ok (seen : list N) (fl : list tmfield) : Prop :=
  match fl with
  | [] => True
  | f :: r => parse_uint false 8 (tm_ds f) = Some (tm_i f) /\ tm_i f <> 0%N /\ ~ In (tm_i f) seen /\ ty_keys_ok (tm_t f) /\ tmfs_ok (tm_i f :: seen) r
  end.
Lemma tmfs_ok_incl : forall fl s1 s2, (forall x, In x s2 -> In x s1) -> tmfs_ok s1 fl -> tmfs_ok s2 fl.
Proof.
  induction fl as [|f fl IH]; intros s1 s2 Hs H; [exact I|]. cbn [tmfs_ok] in *. destruct H as (A & B & C & D & E).
  repeat split; auto. apply (IH (tm_i f :: s1)); [|exact E]. intros x [<-|Hx]; [now left|right; auto].
Qed.

Arguments parse_uint : simpl never.
Arguments has_idx : simpl never.

Ltac mstep1 :=
  cbv beta iota zeta delta [bind p_next p_haserr p_kind p_tok p_unnext ret fail kin existsb expect_any_of_next expect_next skip_eol_comments conc next_cat
                            mk kept keep rs cur perrs];
  cbn [N.eqb Pos.eqb orb andb negb kind concrete kIdent kOpenSq kCloseSq kComma kSemi kNewline kCloseCu kOpenCu kLineC kBlockC kInt kArrow
       arrayT mapT osqT csqT commaT idT semiT nlT closeT numT arrowT].
Ltac mstep := repeat progress mstep1.

Lemma msg_loop_tfield f g fs tail :
  parse_uint false 8 (tm_ds f) = Some (tm_i f) -> tm_i f <> 0%N -> has_idx (tm_i f) fs = false -> ty_keys_ok (tm_t f) ->
  read_message_loop (S (tfuel (tm_t f) + S g)) fs [] [] [] false (mk (res (tmfield_toks f) tail) nlT false)
  = read_message_loop (tfuel (tm_t f) + g) (fs ++ [tmfield_of f]) [] [] [] false (mk tail nlT false).
Proof.
  destruct f as [[ds i] [t nm]]. unfold tmfield_of, tmfield_toks, tfield_of; unfold tm_ds, tm_i, tm_t, tm_n. cbn [fst snd].
  intros Hp Hz Hi Hok. apply N.eqb_neq in Hz.
  replace (ty_toks t ++ [idT nm; semiT; nlT]) with ((ty_toks t ++ [idT nm]) ++ [semiT; nlT]) by (rewrite <- app_assoc; reflexivity).
  rewrite res_app, res_app.
  match goal with |- context [res (ty_toks t ++ ?y) ?x] => set (R := res (ty_toks t ++ y) x) end.
  unfold res at 1. cbn [map app read_message_loop]. mstep. rewrite Hp. cbv beta iota. rewrite Hz, Hi. mstep.
  subst R.
  pose proof (read_type_ok t Hok (S g) (idT nm) (res [semiT; nlT] tail) arrowT (semi_not_open nm)) as Et. unfold mk in Et. rewrite Et. clear Et.
  unfold res. cbn [map app]. mstep.
  replace (tfuel t + S g) with (S (tfuel t + g)) by lia. cbn [read_message_loop]. mstep. reflexivity.
Qed.

Lemma msg_loop_tfields : forall fl g fs tail, tmfs_ok (map fst fs) fl ->
  read_message_loop (fsum (map snd fl) + g) fs [] [] [] false (mk (res (tmfields_toks fl) tail) nlT false)
  = read_message_loop (tsum (map snd fl) + g) (fs ++ map tmfield_of fl) [] [] [] false (mk tail nlT false).
Proof.
  induction fl as [|f fl IH]; intros g fs tail Hok.
  - cbn [map fsum tsum fold_right plus tmfields_toks flat_map res app]. now rewrite app_nil_r.
  - cbn [tmfs_ok] in Hok. destruct Hok as (Hp & Hz & Hn & Hk & Hr).
    cbn [tmfields_toks flat_map map fsum tsum fold_right]. fold (tmfields_toks fl). fold (fsum (map snd fl)). fold (tsum (map snd fl)).
    rewrite res_app. change (fst (snd f)) with (tm_t f).
    replace (tfuel (tm_t f) + 2 + fsum (map snd fl) + g) with (S (tfuel (tm_t f) + S (fsum (map snd fl) + g))) by lia.
    rewrite (msg_loop_tfield f _ fs _ Hp Hz (has_idx_false _ _ Hn) Hk).
    replace (tfuel (tm_t f) + (fsum (map snd fl) + g)) with (fsum (map snd fl) + (tfuel (tm_t f) + g)) by lia.
    rewrite IH.
    + rewrite <- app_assoc. f_equal. lia.
    + rewrite map_app. cbn [map tmfield_of fst].
      apply (tmfs_ok_incl fl (tm_i f :: map fst fs)); [|exact Hr]. intros x Hx. apply in_app_or in Hx. destruct Hx as [Hx|[<-|[]]]; [now right|now left].
Qed.

Definition tmessage_toks (nm : bytes) (fl : list tmfield) : list token := [messageT; idT nm; openT; nlT] ++ tmfields_toks fl ++ [closeT; nlT].
Definition tmessage_of (nm : bytes) (fl : list tmfield) : message :=
  {| m_name := nm; m_comment := []; m_fields := map tmfield_of fl; m_opcode := 0 |}.

Lemma read_tmessage_ok nm fl g tail c : tmfs_ok [] fl ->
  read_message (fsum (map snd fl) + S (S g)) (mk (res ([idT nm; openT; nlT] ++ tmfields_toks fl ++ [closeT]) tail) c false)
  = POk (tmessage_of nm fl) (mk tail closeT false).
Proof.
  intros Hok. rewrite res_app, read_message_head. unfold bind. rewrite res_app.
  rewrite (msg_loop_tfields fl (S (S g)) [] _ Hok).
  replace (tsum (map snd fl) + S (S g)) with (S (S (tsum (map snd fl) + g))) by lia. rewrite msg_loop_close. reflexivity.
Qed.

Lemma top_tmessage nm fl g f tail c : tmfs_ok [] fl ->
  top_loop (S (fsum (map snd fl) + S (S g))) f [] 0%N false false (mk (res (tmessage_toks nm fl) tail) c false)
  = top_loop (fsum (map snd fl) + S g) (add_message f (tmessage_of nm fl)) [] 0%N false false (mk tail nlT false).
Proof.
  intros Hok. unfold tmessage_toks.
  change ([messageT; idT nm; openT; nlT] ++ tmfields_toks fl ++ [closeT; nlT])
    with ([messageT] ++ ([idT nm; openT; nlT] ++ tmfields_toks fl ++ [closeT] ++ [nlT])).
  rewrite res_app, top_message_head. unfold bind.
  replace ([idT nm; openT; nlT] ++ tmfields_toks fl ++ [closeT] ++ [nlT])
    with (([idT nm; openT; nlT] ++ tmfields_toks fl ++ [closeT]) ++ [nlT]) by (rewrite <- !app_assoc; reflexivity).
  rewrite res_app, (read_tmessage_ok nm fl g _ _ Hok). cbn [m_name m_fields tmessage_of].
  replace (fsum (map snd fl) + S (S g)) with (S (fsum (map snd fl) + S g)) by lia.
  rewrite top_newline. reflexivity.
Qed.

(* ---------- the formatter ---------- *)
Definition tmfield_text (f : tmfield) : bytes :=
  tab ++ tm_ds f ++ sp ++ [45%N; 62%N] ++ sp ++ ty_text (tm_t f) ++ sp ++ tm_n f ++ [59%N; 10%N].
Definition tmfields_text (fl : list tmfield) : bytes := flat_map tmfield_text fl.

Lemma fmt_tmfield f g acc tail :
  format_message_loop (S (tfuel (tm_t f) + S g)) tab acc (mk (res (tmfield_toks f) tail) nlT false)
  = format_message_loop (tfuel (tm_t f) + g) tab (acc ++ tmfield_text f) (mk tail nlT false).
Proof.
  destruct f as [[ds i] [t nm]]. unfold tmfield_toks, tmfield_text; unfold tm_ds, tm_i, tm_t, tm_n. cbn [fst snd].
  destruct (ty_toks_ne t) as (c0 & r0 & E0). rewrite E0.
  assert (Et : [numT ds; arrowT] ++ (c0 :: r0) ++ [idT nm; semiT; nlT] = [numT ds; arrowT; c0] ++ (r0 ++ [idT nm]) ++ [semiT; nlT])
    by (cbn [app]; rewrite <- app_assoc; reflexivity).
  rewrite Et; clear Et. rewrite res_app, res_app.
  match goal with |- context [res (r0 ++ ?y) ?x] => set (R := res (r0 ++ y) x) end.
  unfold res at 1. cbn [map app format_message_loop]. mstep.
  subst R.
  pose proof (fmt_type_ok t (S g) (idT nm) (res [semiT; nlT] tail) (semi_not_open nm) c0 r0 E0) as Et. unfold mk in Et. rewrite Et. clear Et.
  unfold res. cbn [map app]. mstep.
  replace (tfuel t + S g) with (S (tfuel t + g)) by lia. cbn [format_message_loop]. mstep.
  f_equal. 
Qed.

Lemma fmt_tmfields : forall fl g acc tail,
  format_message_loop (fsum (map snd fl) + g) tab acc (mk (res (tmfields_toks fl) tail) nlT false)
  = format_message_loop (tsum (map snd fl) + g) tab (acc ++ tmfields_text fl) (mk tail nlT false).
Proof.
  induction fl as [|f fl IH]; intros g acc tail.
  - cbn [map fsum tsum fold_right plus tmfields_toks tmfields_text flat_map res app]. now rewrite app_nil_r.
  - cbn [tmfields_toks tmfields_text flat_map map fsum tsum fold_right]. fold (tmfields_toks fl). fold (tmfields_text fl).
    fold (fsum (map snd fl)). fold (tsum (map snd fl)). rewrite res_app. change (fst (snd f)) with (tm_t f).
    replace (tfuel (tm_t f) + 2 + fsum (map snd fl) + g) with (S (tfuel (tm_t f) + S (fsum (map snd fl) + g))) by lia.
    rewrite fmt_tmfield.
    replace (tfuel (tm_t f) + (fsum (map snd fl) + g)) with (fsum (map snd fl) + (tfuel (tm_t f) + g)) by lia.
    rewrite IH, <- app_assoc. f_equal. lia.
Qed.

Definition tmessage_text (nm : bytes) (fl : list tmfield) : bytes :=
  [109; 101; 115; 115; 97; 103; 101]%N ++ sp ++ nm ++ sp ++ [123%N] ++ nlb ++ tmfields_text fl ++ [125%N] ++ nlb.

Lemma fmt_tmessage_ok nm fl g tail :
  format_message (S (fsum (map snd fl) + S (S g))) tab (mk (res ([idT nm; openT; nlT] ++ tmfields_toks fl ++ [closeT]) tail) messageT false)
  = POk (tmessage_text nm fl) (mk tail closeT false).
Proof.
  rewrite res_app, fmt_message_head, res_app, fmt_tmfields.
  replace (tsum (map snd fl) + S (S g)) with (S (S (tsum (map snd fl) + g))) by lia. rewrite fmt_mclose.
  unfold tmessage_text. rewrite <- !app_assoc. reflexivity.
Qed.

Lemma fmt_top_tmessage nm fl g out nl tail c :
  format_loop (S (S (fsum (map snd fl) + S (S g)))) out false nl (mk (res (tmessage_toks nm fl) tail) c false)
  = format_loop (fsum (map snd fl) + S (S g)) ((if nl then out ++ nlb else out) ++ tmessage_text nm fl) false true (mk tail nlT false).
Proof.
  unfold tmessage_toks.
  change ([messageT; idT nm; openT; nlT] ++ tmfields_toks fl ++ [closeT; nlT])
    with ([messageT] ++ ([idT nm; openT; nlT] ++ tmfields_toks fl ++ [closeT] ++ [nlT])).
  rewrite res_app, fmt_top_message_head. unfold bind.
  replace ([idT nm; openT; nlT] ++ tmfields_toks fl ++ [closeT] ++ [nlT])
    with (([idT nm; openT; nlT] ++ tmfields_toks fl ++ [closeT]) ++ [nlT]) by (rewrite <- !app_assoc; reflexivity).
  rewrite res_app, fmt_tmessage_ok, fmt_top_newline. reflexivity.
Qed.
