(* The parser never asks for more Next() results than a list that ends in enough `false` answers holds.
   Two regimes of a parser state: (N) some token is still to come - every real Next() finds a result; (E) only `false`
   answers are left - each real Next() uses one up.  The measure
      slack s = (N) the number of trailing `false` answers          (E) results left - KK * (1 if a token is kept)
   is constant in (N); in (E) a delivery can only be the kept token (+KK), a `false` costs 1, p_unnext costs KK.  As in
   ParseFuel.v every way around every loop has more deliveries than p_unnexts, so in (E) no loop loses slack by going around,
   and what a function can lose before it returns or fails is bounded by a constant. *)
From Coq Require Import List NArith ZArith Bool Arith Lia.
Require Import Bebop.front.Tok Bebop.front.Parse.
Import ListNotations.
Local Open Scope Z_scope.

Definition is_nfb (r : nres) : bool := match r with NF _ => true | _ => false end.
Definition eofm (s : pst) : bool := forallb is_nfb (rs s).
Fixpoint tailnf (l : list nres) : nat :=
  match l with [] => 0%nat | x :: r => if forallb is_nfb (x :: r) then S (length r) else tailnf r end.
Notation KK := 8.
Definition slack (s : pst) : Z :=
  if eofm s then Z.of_nat (length (rs s)) - (if keep s then KK else 0) else Z.of_nat (tailnf (rs s)).

Definition wpd {A} (m : M A) (Q : A -> pst -> Prop) (s : pst) : Prop :=
  match m s with POk a s' => Q a s' | PEnd => False | _ => True end.

Lemma wpd_ret {A} (a : A) (Q : A -> pst -> Prop) s : Q a s -> wpd (ret a) Q s.
Proof. intros H. exact H. Qed.
Lemma wpd_bind {A B} (m : M A) (f : A -> M B) (Q : B -> pst -> Prop) s : wpd m (fun a s' => wpd (f a) Q s') s -> wpd (bind m f) Q s.
Proof. unfold wpd, bind. destruct (m s) as [a s'| | | |]; auto. Qed.

Lemma tailnf_all l : forallb is_nfb l = true -> tailnf l = length l.
Proof. destruct l as [|x r]; [reflexivity|]. intros H. cbn [tailnf]. rewrite H. reflexivity. Qed.

Lemma wpd_next (Q : bool -> pst -> Prop) s :
  1 <= slack s ->
  (forall s', (eofm s = true -> eofm s' = true /\ slack s + KK <= slack s') -> (eofm s = false -> slack s <= slack s') -> Q true s') ->
  (forall s', (eofm s = true -> eofm s' = true /\ slack s - 1 <= slack s') -> (eofm s = false -> eofm s' = false /\ slack s <= slack s') -> Q false s') ->
  wpd p_next Q s.
Proof.
  intros H1 Ht Hf. unfold wpd, p_next. destruct (keep s) eqn:K.
  - apply Ht; unfold slack, eofm in *; cbn [rs keep]; intros E; rewrite E, ?K in *; [split; [reflexivity|]|]; lia.
  - destruct (rs s) as [|[t e|e|] r] eqn:E.
    + unfold slack, eofm in H1. rewrite E, K in H1. cbn in H1. lia.
    + apply Ht; unfold slack, eofm; cbn [rs keep]; rewrite E; cbn [forallb is_nfb andb]; [discriminate|]. intros _.
      cbn [tailnf forallb is_nfb andb]. destruct (forallb is_nfb r) eqn:A; [rewrite (tailnf_all r A)|]; lia.
    + apply Hf; unfold slack, eofm; cbn [rs keep]; rewrite E, ?K; cbn [forallb is_nfb andb]; intros A.
      * split; [exact A|]. rewrite A. cbn [length]. lia.
      * split; [exact A|]. rewrite A. cbn [tailnf forallb is_nfb andb]. rewrite A. lia.
    + exact I.
Qed.
Lemma wpd_unnext (Q : unit -> pst -> Prop) s :
  (forall s', eofm s' = eofm s -> (eofm s = true -> slack s - KK <= slack s') -> (eofm s = false -> slack s <= slack s') -> Q tt s') ->
  wpd p_unnext Q s.
Proof.
  intros H. unfold wpd, p_unnext. apply H; unfold slack, eofm; cbn [rs keep]; [reflexivity| |]; intros E; rewrite E; destruct (keep s); lia.
Qed.
Lemma wpd_tok (Q : token -> pst -> Prop) s : (forall t, Q t s) -> wpd p_tok Q s.
Proof. intros H. apply H. Qed.
Lemma wpd_kind (Q : N -> pst -> Prop) s : (forall k, Q k s) -> wpd p_kind Q s.
Proof. intros H. apply H. Qed.
Lemma wpd_haserr (Q : bool -> pst -> Prop) s : (forall b, Q b s) -> wpd p_haserr Q s.
Proof. intros H. apply H. Qed.

(* a specification: with at least d of slack the function does not run out of results; when it returns, a state with only
   `false` answers left stays one, having gained g (lost, when negative); a state with a token still to come loses nothing
   while one remains and at most l once none does *)
Definition spec {A} (m : M A) (dE dN g l : Z) : Prop :=
  forall s (Q : A -> pst -> Prop), (eofm s = true -> dE <= slack s) -> (eofm s = false -> dN <= slack s) ->
    (forall a s', (eofm s = true -> eofm s' = true /\ slack s + g <= slack s') ->
                  (eofm s = false -> eofm s' = true -> slack s - l <= slack s') ->
                  (eofm s = false -> eofm s' = false -> slack s <= slack s') -> Q a s') ->
    wpd m Q s.

(* ---- the walk ---- *)
Ltac modes :=
  repeat match goal with
  | H : eofm ?s = true -> _, M : eofm ?s = true |- _ => specialize (H M)
  | H : eofm ?s = false -> _, M : eofm ?s = false |- _ => specialize (H M)
  | H : eofm ?s = true -> _, M : eofm ?s = false |- _ => clear H
  | H : eofm ?s = false -> _, M : eofm ?s = true |- _ => clear H
  | H : _ /\ _ |- _ => destruct H
  | H : eofm ?s' = eofm ?s, M : eofm ?s = _ |- _ => rewrite M in H
  end.
Lemma mode_cases s : {eofm s = true} + {eofm s = false}.
Proof. destruct (eofm s); [left|right]; reflexivity. Qed.
Ltac know s :=
  lazymatch goal with
  | _ : eofm s = true |- _ => idtac
  | _ : eofm s = false |- _ => idtac
  | _ => destruct (mode_cases s)
  end.
Ltac know_cur :=
  modes;
  lazymatch goal with
  | |- wpd _ _ ?s => know s
  | |- ?Q _ ?s => tryif is_var Q then know s else idtac
  | _ => idtac
  end; modes.
Ltac side := first [ lia | congruence | assumption ].
Ltac pre := intros; modes; side.
Ltac dleaf :=
  first [ exact I
        | match goal with HQ : forall a s', _ -> _ -> _ -> ?Q a s' |- ?Q _ _ =>
            apply HQ; intros; modes; repeat split; side end ].
Ltac dcallee := fail.
Ltac dstep :=
  cbv beta zeta; cbn [negb]; know_cur;
  lazymatch goal with
  | |- wpd (bind _ _) _ _ => apply wpd_bind
  | |- wpd (ret _) _ _ => apply wpd_ret
  | |- wpd fail _ _ => exact I
  | |- wpd (fun _ => PPanic) _ _ => exact I
  | |- wpd nofuel _ _ => exact I
  | |- wpd p_next _ _ => apply wpd_next; [ modes; lia | intros ? ? ? | intros ? ? ? ]
  | |- wpd p_unnext _ _ => apply wpd_unnext; intros ? ? ? ?
  | |- wpd p_tok _ _ => apply wpd_tok; intros ?
  | |- wpd p_kind _ _ => apply wpd_kind; intros ?
  | |- wpd p_haserr _ _ => apply wpd_haserr; intros ?
  | |- wpd (if ?c then _ else _) _ _ => destruct c
  | |- wpd (let '(_, _) := ?x in _) _ _ => destruct x
  | |- wpd (match ?x with _ => _ end) _ _ => destruct x
  | |- wpd _ _ _ =>
      first [ match goal with IH : spec _ _ _ _ _ |- _ => apply IH; [ pre | pre | intros ? ? ? ? ? ] end
            | match goal with IH : forall _, spec _ _ _ _ _ |- _ => apply IH; [ pre | pre | intros ? ? ? ? ? ] end
            | match goal with IH : forall _ _, spec _ _ _ _ _ |- _ => apply IH; [ pre | pre | intros ? ? ? ? ? ] end
            | match goal with IH : forall _ _ _ _ _, spec _ _ _ _ _ |- _ => apply IH; [ pre | pre | intros ? ? ? ? ? ] end
            | match goal with IH : forall _ _ _ _ _ _ _, spec _ _ _ _ _ |- _ => apply IH; [ pre | pre | intros ? ? ? ? ? ] end
            | dcallee; [ pre | pre | intros ? ? ? ? ?; cbn [length] in * ] ]
  | |- _ => dleaf
  end.
Ltac du := repeat dstep.

Lemma en_expect_any ks : spec (expect_any_of_next ks) 1 1 KK 0.
Proof. intros s Q HdE HdN HQ. unfold expect_any_of_next. du. Qed.
Lemma expect_next_cons k ks : expect_next (k :: ks) =
  (b <- p_next ;; e <- p_haserr ;; if e then fail else if negb b then fail else
   t <- p_tok ;; if N.eqb (kind t) k then (r <- expect_next ks ;; ret (t :: r)) else fail).
Proof. reflexivity. Qed.
Lemma en_expect_next : forall ks k, spec (expect_next (k :: ks)) 1 1 KK 0.
Proof.
  induction ks as [|k' ks IH]; intros k s Q HdE HdN HQ; rewrite expect_next_cons.
  - cbn [expect_next]. du.
  - du.
Qed.
Ltac dcallee ::= first [ apply en_expect_any | apply en_expect_next ].
Lemma en_opt_newline : spec opt_newline 1 1 (-9) KK.
Proof. intros s Q HdE HdN HQ. unfold opt_newline. du. Qed.
Ltac dcallee ::= first [ apply en_expect_any | apply en_expect_next | apply en_opt_newline ].
Lemma en_read_until_semi g : forall acc, spec (read_until_semi g acc) 1 1 KK 0.
Proof. induction g as [|g IHg]; intros acc s Q HdE HdN HQ; [exact I|]. cbn [read_until_semi]. du. Qed.
Ltac dcallee ::= first [ apply en_expect_any | apply en_expect_next | apply en_opt_newline | apply en_read_until_semi ].
Lemma en_read_enum_value g prev bf uns bits : spec (read_enum_value g prev bf uns bits) 1 1 KK 0.
Proof. intros s Q HdE HdN HQ. unfold read_enum_value. du. Qed.
Lemma en_read_deprecated : spec read_deprecated 1 10 (-1) 9.
Proof. intros s Q HdE HdN HQ. unfold read_deprecated. du. Qed.
Lemma en_skip_eol g : spec (skip_eol_comments g) 1 9 (-1) KK.
Proof. induction g as [|g IHg]; intros s Q HdE HdN HQ; [exact I|]. cbn [skip_eol_comments]. du. Qed.
Ltac dcallee ::= first [ apply en_expect_any | apply en_expect_next | apply en_opt_newline | apply en_read_until_semi
                       | apply en_read_enum_value | apply en_read_deprecated | apply en_skip_eol ].
Lemma en_read_enum_loop g : forall bf uns bits opts cm dm dep, spec (read_enum_loop g bf uns bits opts cm dm dep) 2 20 0 20.
Proof. induction g as [|g IHg]; intros bf uns bits opts cm dm dep s Q HdE HdN HQ; [exact I|]. cbn [read_enum_loop]. du. Qed.
Ltac dcallee ::= first [ apply en_expect_any | apply en_expect_next | apply en_opt_newline | apply en_read_until_semi
                       | apply en_read_enum_value | apply en_read_deprecated | apply en_skip_eol | apply en_read_enum_loop ].
Lemma en_read_enum g bf : spec (read_enum g bf) 12 30 0 30.
Proof. intros s Q HdE HdN HQ. unfold read_enum. du. Qed.
Lemma en_array_suffix g : forall ft, spec (array_suffix g ft) 9 9 (-8) 9.
Proof. induction g as [|g IHg]; intros ft s Q HdE HdN HQ; [exact I|]. cbn [array_suffix]. du. Qed.
Ltac dcallee ::= first [ apply en_expect_any | apply en_expect_next | apply en_opt_newline | apply en_read_until_semi
                       | apply en_read_enum_value | apply en_read_deprecated | apply en_skip_eol | apply en_read_enum_loop
                       | apply en_read_enum | apply en_array_suffix ].
Lemma en_read_field_type g : spec (read_field_type g) 1 10 7 9.
Proof. induction g as [|g IHg]; intros s Q HdE HdN HQ; [exact I|]. cbn [read_field_type]. du. Qed.
Ltac dcallee ::= first [ apply en_expect_any | apply en_expect_next | apply en_opt_newline | apply en_read_until_semi
                       | apply en_read_enum_value | apply en_read_deprecated | apply en_skip_eol | apply en_read_enum_loop
                       | apply en_read_enum | apply en_array_suffix | apply en_read_field_type ].
Lemma en_read_struct_loop g : forall fs cm tags dm dep, spec (read_struct_loop g fs cm tags dm dep) 10 30 0 20.
Proof. induction g as [|g IHg]; intros fs cm tags dm dep s Q HdE HdN HQ; [exact I|]. cbn [read_struct_loop]. du. Qed.
Lemma en_read_message_loop g : forall fs cm tags dm dep, spec (read_message_loop g fs cm tags dm dep) 10 30 0 20.
Proof. induction g as [|g IHg]; intros fs cm tags dm dep s Q HdE HdN HQ; [exact I|]. cbn [read_message_loop]. du. Qed.
Ltac dcallee ::= first [ apply en_expect_any | apply en_expect_next | apply en_opt_newline | apply en_read_until_semi
                       | apply en_read_enum_value | apply en_read_deprecated | apply en_skip_eol | apply en_read_enum_loop
                       | apply en_read_enum | apply en_array_suffix | apply en_read_field_type
                       | apply en_read_struct_loop | apply en_read_message_loop ].
Lemma en_read_struct g : spec (read_struct g) 12 40 (-1) 30.
Proof. intros s Q HdE HdN HQ. unfold read_struct. du. Qed.
Lemma en_read_message g : spec (read_message g) 12 40 (-1) 30.
Proof. intros s Q HdE HdN HQ. unfold read_message. du. Qed.
Ltac dcallee ::= first [ apply en_expect_any | apply en_expect_next | apply en_opt_newline | apply en_read_until_semi
                       | apply en_read_enum_value | apply en_read_deprecated | apply en_skip_eol | apply en_read_enum_loop
                       | apply en_read_enum | apply en_array_suffix | apply en_read_field_type
                       | apply en_read_struct_loop | apply en_read_message_loop | apply en_read_struct | apply en_read_message ].
Lemma en_read_union_loop g : forall fs cm tags dm dep, spec (read_union_loop g fs cm tags dm dep) 20 80 0 60.
Proof. induction g as [|g IHg]; intros fs cm tags dm dep s Q HdE HdN HQ; [exact I|]. cbn [read_union_loop]. du. Qed.
Ltac dcallee ::= first [ apply en_expect_any | apply en_expect_next | apply en_opt_newline | apply en_read_until_semi
                       | apply en_read_enum_value | apply en_read_deprecated | apply en_skip_eol | apply en_read_enum_loop
                       | apply en_read_enum | apply en_array_suffix | apply en_read_field_type
                       | apply en_read_struct_loop | apply en_read_message_loop | apply en_read_struct | apply en_read_message
                       | apply en_read_union_loop ].
Lemma en_read_union g : spec (read_union g) 30 90 (-1) 70.
Proof. intros s Q HdE HdN HQ. unfold read_union. du. Qed.
Lemma en_read_const g : spec (read_const g) 12 30 (-2) 20.
Proof. intros s Q HdE HdN HQ. unfold read_const. du. Qed.
Lemma en_read_opcode : spec read_opcode 1 10 (-1) 9.
Proof. intros s Q HdE HdN HQ. unfold read_opcode. du. Qed.
Ltac dcallee ::= first [ apply en_expect_any | apply en_expect_next | apply en_opt_newline | apply en_read_until_semi
                       | apply en_read_enum_value | apply en_read_deprecated | apply en_skip_eol | apply en_read_enum_loop
                       | apply en_read_enum | apply en_array_suffix | apply en_read_field_type
                       | apply en_read_struct_loop | apply en_read_message_loop | apply en_read_struct | apply en_read_message
                       | apply en_read_union_loop | apply en_read_union | apply en_read_const | apply en_read_opcode ].
Lemma en_top_loop g : forall f cm opc ro bf, spec (top_loop g f cm opc ro bf) 40 120 (-1) 100.
Proof. induction g as [|g IHg]; intros f cm opc ro bf s Q HdE HdN HQ; [exact I|]. cbn [top_loop]. du. Qed.

(* ---- the result list read_file precomputes ends in `margin` answers `false` (front/TokProgress.v): enough ---- *)
Require Import Bebop.front.TokSafe Bebop.front.TokFuel Bebop.front.TokProgress.
Lemma forallb_nf l : Forall is_nf l -> forallb is_nfb l = true.
Proof. induction 1 as [|x r H _ IH]; [reflexivity|]. cbn [forallb]. rewrite IH. destruct x; try contradiction. reflexivity. Qed.
Lemma tailnf_skipn : forall l k, Forall is_nf (skipn k l) -> (length l - k <= tailnf l)%nat.
Proof.
  induction l as [|x r IH]; intros k H; [cbn; lia|]. cbn [tailnf].
  destruct (forallb is_nfb (x :: r)) eqn:A; [cbn [length]; lia|].
  destruct k as [|k]; [cbn [skipn] in H; apply forallb_nf in H; congruence|]. cbn [skipn] in H. specialize (IH k H). cbn [length]. lia.
Qed.

Theorem read_file_never_short input fails : read_file input fails <> PEnd.
Proof.
  unfold read_file. intros E.
  set (s0 := {| buf := {| rest := input; lastByte := None; lastRune := None; failing := fails |}; errs := [] |}) in *.
  set (l := next_results (length input + margin) s0) in *.
  pose proof (en_top_loop (2 * (length input + margin) + 8)
    {| structs := []; messages := []; enums := []; unions := []; consts := []; imports := []; gopackage := [] |} [] 0%N false false
    {| rs := l; cur := tok0; keep := false; perrs := [] |} (fun _ _ => True)) as H.
  unfold wpd in H. rewrite E in H. apply H; [| |auto].
  - intros A. unfold slack. rewrite A. cbn [rs keep]. unfold l. rewrite next_results_length. unfold margin. lia.
  - intros A. unfold slack. rewrite A. cbn [rs].
    pose proof (tailnf_skipn l (length input) (results_after_input (length input + margin) s0 (length input) (Nat.le_refl _))) as T.
    unfold l in T at 1. rewrite next_results_length in T. unfold margin in T. lia.
Qed.
Print Assumptions read_file_never_short.
