(* A reader that fails never yields a File: for EVERY input, ReadFile on the model with a failing reader returns an error
   (or runs out of fuel / precomputed results - never observed) - never success.  C10's second clause, for all inputs.
   Parser part: every result the tokenizer delivers after the failure carries an error (dead), the parser only ever moves
   forward through the results (strict_m: same compositional proof as ParseSafe.v), and the top-level loop can only return a
   File at an end-of-input result, which then has an error: it fails. *)
From Coq Require Import List NArith ZArith Bool Arith Lia.
Require Import Bebop.front.Tok Bebop.front.Parse Bebop.front.TokSafe Bebop.front.TokStrict.
Import ListNotations.

Definition dead (l : list nres) : Prop := Forall deadr l.
Definition strict_m {A} (m : M A) : Prop :=
  forall s, dead (rs s) -> match m s with POk _ s' => dead (rs s') | _ => True end.

Lemma strict_ret {A} (a : A) : strict_m (ret a).
Proof. intros s H. exact H. Qed.
Lemma strict_fail {A} : strict_m (@fail A).
Proof. intros s H. exact I. Qed.
Lemma strict_nofuel {A} : strict_m (@nofuel A).
Proof. intros s H. exact I. Qed.
Lemma strict_bind {A B} (m : M A) (f : A -> M B) : strict_m m -> (forall a, strict_m (f a)) -> strict_m (bind m f).
Proof.
  intros Hm Hf s H. unfold bind. specialize (Hm s H). destruct (m s) as [a s'| | | |]; auto. apply (Hf a s' Hm).
Qed.
Lemma strict_p_next : strict_m p_next.
Proof.
  intros s H. unfold p_next. destruct (keep s); [exact H|]. destruct (rs s) as [|[t e|e|] r] eqn:E; cbn [rs]; try exact I.
  - inversion H; assumption.
  - inversion H; assumption.
Qed.
Lemma strict_panic {A} : strict_m (fun _ : pst => @PPanic A).
Proof. intros s H. exact I. Qed.
Lemma strict_p_unnext : strict_m p_unnext. Proof. intros s H. exact H. Qed.
Lemma strict_p_tok : strict_m p_tok. Proof. intros s H. exact H. Qed.
Lemma strict_p_kind : strict_m p_kind. Proof. intros s H. exact H. Qed.
Lemma strict_p_haserr : strict_m p_haserr. Proof. intros s H. exact H. Qed.

Create HintDb strict.
#[export] Hint Resolve strict_ret strict_fail strict_nofuel strict_panic strict_p_next strict_p_unnext strict_p_tok strict_p_kind strict_p_haserr  : strict.

Ltac stm :=
  repeat first
    [ solve [auto with strict]
    | apply strict_bind; [|intro]
    | match goal with |- strict_m (if ?c then _ else _) => destruct c end
    | match goal with |- strict_m (let '(_, _) := ?x in _) => destruct x end
    | match goal with |- strict_m (match ?x with _ => _ end) => destruct x end
    | progress cbv zeta ].

Lemma strict_expect_any_of_next ks : strict_m (expect_any_of_next ks).
Proof. unfold expect_any_of_next. stm. Qed.
#[export] Hint Resolve strict_expect_any_of_next  : strict.
Lemma strict_expect_next ks : strict_m (expect_next ks).
Proof. induction ks as [|k ks IH]; cbn [expect_next]; stm. Qed.
#[export] Hint Resolve strict_expect_next  : strict.
Lemma strict_opt_newline : strict_m opt_newline.
Proof. unfold opt_newline. stm. Qed.
#[export] Hint Resolve strict_opt_newline  : strict.
Lemma strict_read_until_semi g acc : strict_m (read_until_semi g acc).
Proof. revert acc. induction g as [|g IH]; intros acc; cbn [read_until_semi]; stm. Qed.
#[export] Hint Resolve strict_read_until_semi  : strict.

Lemma strict_read_enum_value g prev bf uns bits : strict_m (read_enum_value g prev bf uns bits).
Proof. unfold read_enum_value. stm. Qed.
#[export] Hint Resolve strict_read_enum_value  : strict.
Lemma strict_read_deprecated : strict_m read_deprecated.
Proof. unfold read_deprecated. stm. Qed.
#[export] Hint Resolve strict_read_deprecated  : strict.
Lemma strict_skip_eol g : strict_m (skip_eol_comments g).
Proof. induction g as [|g IH]; cbn [skip_eol_comments]; stm. Qed.
#[export] Hint Resolve strict_skip_eol  : strict.
Lemma strict_read_enum_loop g : forall bf uns bits opts cm dm dep, strict_m (read_enum_loop g bf uns bits opts cm dm dep).
Proof. induction g as [|g IH]; intros; cbn [read_enum_loop]; stm. Qed.
#[export] Hint Resolve strict_read_enum_loop  : strict.
Lemma strict_read_enum g bf : strict_m (read_enum g bf).
Proof. unfold read_enum. stm. Qed.
#[export] Hint Resolve strict_read_enum  : strict.
Lemma strict_array_suffix g : forall ft, strict_m (array_suffix g ft).
Proof. induction g as [|g IH]; intros; cbn [array_suffix]; stm. Qed.
#[export] Hint Resolve strict_array_suffix  : strict.
Lemma strict_read_field_type g : strict_m (read_field_type g).
Proof. induction g as [|g IH]; cbn [read_field_type]; stm. Qed.
#[export] Hint Resolve strict_read_field_type  : strict.
Lemma strict_read_struct_loop g : forall fs cm tags dm dep, strict_m (read_struct_loop g fs cm tags dm dep).
Proof. induction g as [|g IH]; intros; cbn [read_struct_loop]; stm. Qed.
#[export] Hint Resolve strict_read_struct_loop  : strict.
Lemma strict_read_struct g : strict_m (read_struct g).
Proof. unfold read_struct. stm. Qed.
#[export] Hint Resolve strict_read_struct  : strict.
Lemma strict_read_message_loop g : forall fs cm tags dm dep, strict_m (read_message_loop g fs cm tags dm dep).
Proof. induction g as [|g IH]; intros; cbn [read_message_loop]; stm. Qed.
#[export] Hint Resolve strict_read_message_loop  : strict.
Lemma strict_read_message g : strict_m (read_message g).
Proof. unfold read_message. stm. Qed.
#[export] Hint Resolve strict_read_message  : strict.
Lemma strict_read_union_loop g : forall fs cm tags dm dep, strict_m (read_union_loop g fs cm tags dm dep).
Proof. induction g as [|g IH]; intros; cbn [read_union_loop]; stm. Qed.
#[export] Hint Resolve strict_read_union_loop  : strict.
Lemma strict_read_union g : strict_m (read_union g).
Proof. unfold read_union. stm. Qed.
#[export] Hint Resolve strict_read_union  : strict.
Lemma strict_read_const g : strict_m (read_const g).
Proof. unfold read_const. stm. Qed.
#[export] Hint Resolve strict_read_const  : strict.
Lemma strict_read_opcode : strict_m read_opcode.
Proof. unfold read_opcode. stm. Qed.
#[export] Hint Resolve strict_read_opcode  : strict.
Lemma strict_top_loop g : forall f cm opc ro bf, strict_m (top_loop g f cm opc ro bf).
Proof. induction g as [|g IH]; intros; cbn [top_loop]; stm. Qed.


(* ---------- computations that cannot return a value over dead results ---------- *)
Definition nook {A} (m : M A) : Prop := forall s, dead (rs s) -> match m s with POk _ _ => False | _ => True end.
Lemma nook_fail {A} : nook (@fail A). Proof. intros s H. exact I. Qed.
Lemma nook_nofuel {A} : nook (@nofuel A). Proof. intros s H. exact I. Qed.
Lemma nook_bind_r {A B} (m : M A) (f : A -> M B) : strict_m m -> (forall a, nook (f a)) -> nook (bind m f).
Proof. intros Hm Hf s H. unfold bind. specialize (Hm s H). destruct (m s) as [a s'| | | |]; auto. exact (Hf a s' Hm). Qed.

Ltac nk IH :=
  repeat first
    [ apply nook_fail | apply nook_nofuel | apply IH
    | apply nook_bind_r; [solve [auto with strict]|intro]
    | match goal with |- nook (if ?c then _ else _) => destruct c end
    | match goal with |- nook (match ?x with _ => _ end) => destruct x end
    | progress cbv zeta | progress cbv beta ].

Lemma top_nook g : forall f cm opc ro bf, nook (top_loop g f cm opc ro bf).
Proof.
  induction g as [|g IH]; intros f cm opc ro bf; [apply nook_nofuel|]. cbn [top_loop]. intros s Hd.
  unfold bind at 1. unfold p_next at 1. destruct (keep s) eqn:Ek.
  - cbn [negb].
    match goal with |- match ?m ?st with _ => _ end => cut (nook m); [intros G; exact (G st Hd)|] end. nk IH.
  - destruct (rs s) as [|[t e|e|] r] eqn:Er; try exact I.
    + cbn [negb]. assert (Hr : dead r) by (inversion Hd; assumption).
      match goal with |- match ?m ?st with _ => _ end => cut (nook m); [intros G; exact (G st Hr)|] end. nk IH.
    + cbn [negb]. assert (He : e <> []) by (inversion Hd as [|? ? H1 _]; exact H1).
      unfold bind, p_haserr. cbn [perrs]. destruct e; [congruence|exact I].
Qed.

(* C10, second clause, on the model and for EVERY input: when the reader fails (a non-EOF error once its data is used up -
   i.e. at any offset of any file), ReadFile does not report success *)
Theorem read_file_failing_reader input : forall f s', read_file input true <> POk f s'.
Proof.
  intros f s' E. unfold read_file in E.
  pose proof (top_nook (2 * (length input + margin) + 8)
    {| structs := []; messages := []; enums := []; unions := []; consts := []; imports := []; gopackage := [] |} [] 0%N false false) as H.
  specialize (H {| rs := next_results (length input + margin)
                      {| buf := {| rest := input; lastByte := None; lastRune := None; failing := true |}; errs := [] |};
                   cur := tok0; keep := false; perrs := [] |}).
  cbn [rs] in H. rewrite E in H. apply H. apply next_results_dead. split; [reflexivity|intros []].
Qed.
Print Assumptions read_file_failing_reader.
