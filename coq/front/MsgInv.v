(* Messages added to the core sub-language of ParseInv.v / FmtInv.v: a schema is a list of struct and message definitions in
   any order, fields of identifier type, message indices any decimal literal that denotes 1 .. 255, distinct within a message.
   Parser inversion and the formatter laws (C11 / C16 / C17 themselves) for EVERY such schema and EVERY layout. *)
From Coq Require Import List NArith ZArith Bool Arith Lia.
Require Import Bebop.front.Tok Bebop.front.Parse Bebop.front.Fmt Bebop.front.ParseInv Bebop.front.FmtInv.
Import ListNotations.

Definition numT (ds : bytes) : token := {| kind := kInt; concrete := ds |}.
Definition arrowT : token := {| kind := kArrow; concrete := [45%N; 62%N] |}.
Definition messageT : token := {| kind := 7%N; concrete := [109; 101; 115; 115; 97; 103; 101]%N |}.

(* a message field on the token level: index digits, the index they denote, type, name *)
Definition mfield := (bytes * N * (bytes * bytes))%type.
Definition mf_ds (f : mfield) := fst (fst f). Definition mf_i (f : mfield) := snd (fst f). Definition mf_tn (f : mfield) := snd f.
Definition mfield_toks (f : mfield) : list token := [numT (mf_ds f); arrowT; idT (fst (mf_tn f)); idT (snd (mf_tn f)); semiT; nlT].
Definition mfields_toks (fl : list mfield) : list token := flat_map mfield_toks fl.
Definition mfield_of (f : mfield) : N * field := (mf_i f, field_of (mf_tn f)).

(* the digits denote the index, which is not 0 and not used before *)
Fixpoint mfs_ok (seen : list N) (fl : list mfield) : Prop :=
  match fl with
  | [] => True
  | f :: r => parse_uint false 8 (mf_ds f) = Some (mf_i f) /\ mf_i f <> 0%N /\ ~ In (mf_i f) seen /\ mfs_ok (mf_i f :: seen) r
  end.

Lemma has_idx_false {A} i (fs : list (N * A)) : ~ In i (map fst fs) -> has_idx i fs = false.
Proof.
  unfold has_idx. intros H. destruct (existsb _ fs) eqn:E; [|reflexivity]. exfalso. apply existsb_exists in E.
  destruct E as (p & Hp & Hi). apply N.eqb_eq in Hi. apply H. rewrite <- Hi. now apply in_map.
Qed.

Arguments parse_uint : simpl never.
Arguments has_idx : simpl never.

Lemma msg_loop_field f g fs tail :
  parse_uint false 8 (mf_ds f) = Some (mf_i f) -> mf_i f <> 0%N -> has_idx (mf_i f) fs = false ->
  read_message_loop (S (S (S g))) fs [] [] [] false (mk (res (mfield_toks f) tail) nlT false)
  = read_message_loop (S g) (fs ++ [mfield_of f]) [] [] [] false (mk tail nlT false).
Proof.
  destruct f as [[ds i] [ty nm]]. unfold mf_ds, mf_i, mf_tn, mfield_of, mfield_toks, res, mk, field_of. cbn [map app fst snd].
  intros Hp Hz Hi. apply N.eqb_neq in Hz.
  cbn. rewrite Hp. cbv beta iota. rewrite Hz, Hi. vm_compute. reflexivity.
Qed.

(* mfs_ok only looks at membership in the seen list *)
Lemma mfs_ok_incl : forall fl s1 s2, (forall x, In x s2 -> In x s1) -> mfs_ok s1 fl -> mfs_ok s2 fl.
Proof.
  induction fl as [|f fl IH]; intros s1 s2 Hs H; [exact I|]. cbn [mfs_ok] in *. destruct H as (A & B & C & D).
  repeat split; auto. apply (IH (mf_i f :: s1)); [|exact D]. intros x [<-|Hx]; [now left|right; auto].
Qed.

Lemma msg_loop_fields : forall fl g fs tail, mfs_ok (map fst fs) fl ->
  read_message_loop (2 * length fl + S g) fs [] [] [] false (mk (res (mfields_toks fl) tail) nlT false)
  = read_message_loop (S g) (fs ++ map mfield_of fl) [] [] [] false (mk tail nlT false).
Proof.
  induction fl as [|f fl IH]; intros g fs tail Hok.
  - cbn [length Nat.mul plus mfields_toks flat_map map res app]. now rewrite app_nil_r.
  - cbn [mfs_ok] in Hok. destruct Hok as (Hp & Hz & Hn & Hr).
    cbn [mfields_toks flat_map]. fold (mfields_toks fl). rewrite res_app.
    replace (2 * length (f :: fl) + S g) with (S (S (S (2 * length fl + g)))) by (cbn [length]; lia).
    rewrite (msg_loop_field f _ fs _ Hp Hz (has_idx_false _ _ Hn)).
    replace (S (2 * length fl + g)) with (2 * length fl + S g) by lia.
    rewrite IH; [cbn [map]; rewrite <- app_assoc; reflexivity|].
    rewrite map_app. cbn [map mfield_of fst].
    apply (mfs_ok_incl fl (mf_i f :: map fst fs)); [|exact Hr]. intros x Hx. apply in_app_or in Hx. destruct Hx as [Hx|[<-|[]]]; [now right|now left].
Qed.

Lemma msg_loop_close g fs tail :
  read_message_loop (S (S g)) fs [] [] [] false (mk (res [closeT] tail) nlT false) = POk fs (mk tail closeT false).
Proof. vm_compute. reflexivity. Qed.

Definition message_toks (nm : bytes) (fl : list mfield) : list token :=
  [messageT; idT nm; openT; nlT] ++ mfields_toks fl ++ [closeT; nlT].
Definition message_of (nm : bytes) (fl : list mfield) : message :=
  {| m_name := nm; m_comment := []; m_fields := map mfield_of fl; m_opcode := 0 |}.

Lemma read_message_head g nm tail c :
  read_message g (mk (res [idT nm; openT; nlT] tail) c false)
  = bind (read_message_loop g [] [] [] [] false)
         (fun fs => ret {| m_name := nm; m_comment := []; m_fields := fs; m_opcode := 0 |}) (mk tail nlT false).
Proof. vm_compute; reflexivity. Qed.

Lemma read_message_ok nm fl g tail c : mfs_ok [] fl ->
  read_message (2 * length fl + S (S g)) (mk (res ([idT nm; openT; nlT] ++ mfields_toks fl ++ [closeT]) tail) c false)
  = POk (message_of nm fl) (mk tail closeT false).
Proof.
  intros Hok. rewrite res_app, read_message_head. unfold bind. rewrite res_app.
  rewrite (msg_loop_fields fl (S g) [] _ Hok). rewrite msg_loop_close. reflexivity.
Qed.

(* ---------- the formatter on a message ---------- *)
Definition mfield_text (f : mfield) : bytes :=
  tab ++ mf_ds f ++ sp ++ [45%N; 62%N] ++ sp ++ fst (mf_tn f) ++ sp ++ snd (mf_tn f) ++ [59%N; 10%N].
Definition mfields_text (fl : list mfield) : bytes := flat_map mfield_text fl.

Lemma fmt_mfield f g acc tail :
  format_message_loop (S (S (S g))) tab acc (mk (res (mfield_toks f) tail) nlT false)
  = format_message_loop (S g) tab (acc ++ tab ++ mf_ds f ++ sp ++ [45%N; 62%N] ++ sp ++ fst (mf_tn f) ++ sp ++ snd (mf_tn f) ++ [59%N; 10%N]) (mk tail nlT false).
Proof.
  destruct f as [[ds i] [ty nm]]. unfold mf_ds, mf_tn, mfield_toks, res, mk. cbn [map app fst snd].
  vm_compute. reflexivity.
Qed.

Lemma fmt_mfields : forall fl g acc tail,
  format_message_loop (2 * length fl + S g) tab acc (mk (res (mfields_toks fl) tail) nlT false)
  = format_message_loop (S g) tab (acc ++ mfields_text fl) (mk tail nlT false).
Proof.
  induction fl as [|f fl IH]; intros g acc tail.
  - cbn [length Nat.mul plus mfields_toks mfields_text flat_map map res app]. now rewrite app_nil_r.
  - cbn [mfields_toks mfields_text flat_map]. fold (mfields_toks fl). fold (mfields_text fl). rewrite res_app.
    replace (2 * length (f :: fl) + S g) with (S (S (S (2 * length fl + g)))) by (cbn [length]; lia).
    rewrite fmt_mfield.
    replace (S (2 * length fl + g)) with (2 * length fl + S g) by lia.
    rewrite IH. unfold mfield_text. rewrite <- !app_assoc. reflexivity.
Qed.

Lemma fmt_mclose g acc tail :
  format_message_loop (S (S g)) tab acc (mk (res [closeT] tail) nlT false) = POk (acc ++ [125%N] ++ nlb) (mk tail closeT false).
Proof. vm_compute. reflexivity. Qed.

Definition message_text (nm : bytes) (fl : list mfield) : bytes :=
  [109; 101; 115; 115; 97; 103; 101]%N ++ sp ++ nm ++ sp ++ [123%N] ++ nlb ++ mfields_text fl ++ [125%N] ++ nlb.

Lemma fmt_message_head g nm tail :
  format_message (S g) tab (mk (res [idT nm; openT; nlT] tail) messageT false)
  = format_message_loop g tab ((([109; 101; 115; 115; 97; 103; 101]%N ++ sp ++ nm) ++ sp ++ [123%N]) ++ nlb) (mk tail nlT false).
Proof. vm_compute. reflexivity. Qed.

Lemma fmt_message_ok nm fl g tail :
  format_message (S (2 * length fl + S (S g))) tab (mk (res ([idT nm; openT; nlT] ++ mfields_toks fl ++ [closeT]) tail) messageT false)
  = POk (message_text nm fl) (mk tail closeT false).
Proof.
  rewrite res_app, fmt_message_head, res_app.
  replace (2 * length fl + S (S g)) with (2 * length fl + S (S g)) by reflexivity.
  rewrite (fmt_mfields fl (S g)), fmt_mclose. unfold message_text. rewrite <- !app_assoc. reflexivity.
Qed.

(* ---------- the top-level loops on a message ---------- *)
Definition add_message (f : file) (m : message) : file :=
  {| structs := structs f; messages := messages f ++ [m]; enums := enums f; unions := unions f; consts := consts f;
     imports := imports f; gopackage := gopackage f |}.

Ltac top_step_m :=
  cbn [top_loop]; unfold res, mk; cbn [map app];
  unfold bind at 1; unfold p_next at 1; cbn [keep rs cur perrs negb];
  unfold bind at 1; unfold p_tok at 1; cbn [cur kind messageT];
  cbn [N.eqb Pos.eqb kNewline kBlockC kLineC kOpenSq andb orb negb].

Lemma top_message_head F f tail c :
  top_loop (S F) f [] 0%N false false (mk (res [messageT] tail) c false)
  = bind (read_message F)
         (fun m => top_loop F (add_message f {| m_name := m_name m; m_comment := []; m_fields := m_fields m; m_opcode := 0 |})
                            [] 0%N false false) (mk tail messageT false).
Proof. top_step_m. reflexivity. Qed.

Lemma top_message nm fl g f tail c : mfs_ok [] fl ->
  top_loop (S (2 * length fl + S (S g))) f [] 0%N false false (mk (res (message_toks nm fl) tail) c false)
  = top_loop (2 * length fl + S g) (add_message f (message_of nm fl)) [] 0%N false false (mk tail nlT false).
Proof.
  intros Hok. unfold message_toks.
  change ([messageT; idT nm; openT; nlT] ++ mfields_toks fl ++ [closeT; nlT])
    with ([messageT] ++ ([idT nm; openT; nlT] ++ mfields_toks fl ++ [closeT] ++ [nlT])).
  rewrite res_app, top_message_head. unfold bind.
  replace ([idT nm; openT; nlT] ++ mfields_toks fl ++ [closeT] ++ [nlT])
    with (([idT nm; openT; nlT] ++ mfields_toks fl ++ [closeT]) ++ [nlT]) by (rewrite <- !app_assoc; reflexivity).
  rewrite res_app, (read_message_ok nm fl g _ _ Hok). cbn [m_name m_fields message_of].
  replace (2 * length fl + S (S g)) with (S (2 * length fl + S g)) by lia.
  rewrite top_newline. reflexivity.
Qed.

Ltac fmt_step_m :=
  cbn [format_loop]; unfold res, mk; cbn [map app];
  unfold bind at 1; unfold p_next at 1; cbn [keep rs cur perrs negb];
  unfold bind at 1; unfold p_tok at 1; cbn [cur kind messageT];
  cbn [N.eqb Pos.eqb kOpenSq kLineC kBlockC andb orb negb].

Lemma fmt_top_message_head F out nl tail c :
  format_loop (S F) out false nl (mk (res [messageT] tail) c false)
  = bind (format_message F tab) (fun s => format_loop F ((if nl then out ++ nlb else out) ++ s) false true) (mk tail messageT false).
Proof. fmt_step_m. reflexivity. Qed.

Lemma fmt_top_message nm fl g out nl tail c :
  format_loop (S (S (2 * length fl + S (S g)))) out false nl (mk (res (message_toks nm fl) tail) c false)
  = format_loop (2 * length fl + S (S g)) ((if nl then out ++ nlb else out) ++ message_text nm fl) false true (mk tail nlT false).
Proof.
  unfold message_toks.
  change ([messageT; idT nm; openT; nlT] ++ mfields_toks fl ++ [closeT; nlT])
    with ([messageT] ++ ([idT nm; openT; nlT] ++ mfields_toks fl ++ [closeT] ++ [nlT])).
  rewrite res_app, fmt_top_message_head. unfold bind.
  replace ([idT nm; openT; nlT] ++ mfields_toks fl ++ [closeT] ++ [nlT])
    with (([idT nm; openT; nlT] ++ mfields_toks fl ++ [closeT]) ++ [nlT]) by (rewrite <- !app_assoc; reflexivity).
  rewrite res_app, fmt_message_ok, fmt_top_newline. reflexivity.
Qed.

(* ================= schemas of structs and messages, in any order ================= *)
Inductive bdefn := BS (nm : bytes) (fl : list (bytes * bytes)) (k : nat) | BM (nm : bytes) (fl : list mfield) (k : nat).
Definition bd_toks (d : bdefn) : list token :=
  match d with BS nm fl k => struct_toks nm fl ++ repeat nlT k | BM nm fl k => message_toks nm fl ++ repeat nlT k end.
Definition bd_ok (d : bdefn) : Prop := match d with BS _ _ _ => True | BM _ fl _ => mfs_ok [] fl end.
Definition bd_add (f : file) (d : bdefn) : file :=
  match d with BS nm fl _ => add_struct f (struct_of nm fl) | BM nm fl _ => add_message f (message_of nm fl) end.
Definition bd_len (d : bdefn) : nat := match d with BS _ fl _ => length fl | BM _ fl _ => length fl end.
Definition bd_k (d : bdefn) : nat := match d with BS _ _ k => k | BM _ _ k => k end.
Definition bd_text (d : bdefn) : bytes := match d with BS nm fl _ => struct_text nm fl | BM nm fl _ => message_text nm fl end.
Definition dneed (dl : list bdefn) : nat := fold_right (fun d acc => 2 * bd_len d + 3 + bd_k d + acc) 1 dl.
Definition dfneed (dl : list bdefn) : nat := fold_right (fun d acc => 2 * bd_len d + 4 + bd_k d + acc) 1 dl.
Definition dall (dl : list bdefn) : list token := flat_map bd_toks dl.

Theorem top_defs : forall dl g f tail c, Forall bd_ok dl ->
  exists s', top_loop (dneed dl + g) f [] 0%N false false (mk (res (dall dl) (NF [] :: tail)) c false) = POk (fold_left bd_add dl f) s'.
Proof.
  induction dl as [|d dl IH]; intros g f tail c Hok.
  - cbn [dneed fold_right dall flat_map res map app fold_left plus]. rewrite top_eof. eexists. reflexivity.
  - inversion Hok as [|? ? Hd Hr]; subst. cbn [dall flat_map fold_left]. fold (dall dl).
    unfold dneed at 1. cbn [fold_right]. fold (dneed dl).
    destruct d as [nm fl k|nm fl k]; cbn [bd_toks bd_len bd_k bd_add bd_ok] in *.
    + rewrite <- (app_assoc (struct_toks nm fl)), (res_app (struct_toks nm fl)).
      replace (2 * length fl + 3 + k + dneed dl + g) with (S (2 * length fl + S (S (k + (dneed dl + g))))) by lia.
      rewrite top_struct, res_app.
      replace (2 * length fl + S (k + (dneed dl + g))) with (k + (dneed dl + (2 * length fl + S g))) by lia.
      rewrite top_newlines. apply IH. exact Hr.
    + rewrite <- (app_assoc (message_toks nm fl)), (res_app (message_toks nm fl)).
      replace (2 * length fl + 3 + k + dneed dl + g) with (S (2 * length fl + S (S (k + (dneed dl + g))))) by lia.
      rewrite (top_message nm fl _ f _ c Hd), res_app.
      replace (2 * length fl + S (k + (dneed dl + g))) with (k + (dneed dl + (2 * length fl + S g))) by lia.
      rewrite top_newlines. apply IH. exact Hr.
Qed.

Fixpoint dcanon_acc (out : bytes) (nl : bool) (dl : list bdefn) : bytes :=
  match dl with
  | [] => out
  | d :: r => dcanon_acc ((if nl then out ++ nlb else out) ++ bd_text d) true r
  end.

Theorem fmt_defs : forall dl g out nl tail c,
  exists s', format_loop (dfneed dl + g) out false nl (mk (res (dall dl) (NF [] :: tail)) c false) = POk (dcanon_acc out nl dl) s'.
Proof.
  induction dl as [|d dl IH]; intros g out nl tail c.
  - cbn [dfneed fold_right dall flat_map res map app dcanon_acc plus]. rewrite fmt_top_eof. eexists. reflexivity.
  - cbn [dall flat_map dcanon_acc]. fold (dall dl). unfold dfneed at 1. cbn [fold_right]. fold (dfneed dl).
    destruct d as [nm fl k|nm fl k]; cbn [bd_toks bd_len bd_k bd_text].
    + rewrite <- (app_assoc (struct_toks nm fl)), (res_app (struct_toks nm fl)).
      replace (2 * length fl + 4 + k + dfneed dl + g) with (S (S (2 * length fl + S (S (k + (dfneed dl + g)))))) by lia.
      rewrite fmt_top_struct, res_app.
      replace (2 * length fl + S (S (k + (dfneed dl + g)))) with (k + (dfneed dl + (2 * length fl + S (S g)))) by lia.
      rewrite fmt_top_newlines. apply IH.
    + rewrite <- (app_assoc (message_toks nm fl)), (res_app (message_toks nm fl)).
      replace (2 * length fl + 4 + k + dfneed dl + g) with (S (S (2 * length fl + S (S (k + (dfneed dl + g)))))) by lia.
      rewrite fmt_top_message, res_app.
      replace (2 * length fl + S (S (k + (dfneed dl + g)))) with (k + (dfneed dl + (2 * length fl + S (S g)))) by lia.
      rewrite fmt_top_newlines. apply IH.
Qed.

Lemma mfields_toks_len fl : length (mfields_toks fl) = 6 * length fl.
Proof. induction fl as [|f fl IH]; [reflexivity|]. cbn [mfields_toks flat_map]. fold (mfields_toks fl). rewrite app_length, IH. cbn [mfield_toks length]. lia. Qed.
Lemma fields_toks_len fl : length (fields_toks fl) = 4 * length fl.
Proof. induction fl as [|f fl IH]; [reflexivity|]. cbn [fields_toks flat_map]. fold (fields_toks fl). rewrite app_length, IH. cbn [field_toks length]. lia. Qed.
Lemma dneed_le dl : dfneed dl <= length (dall dl) + 1 /\ dneed dl <= length (dall dl) + 1.
Proof.
  induction dl as [|d dl [IH1 IH2]]; [cbn; lia|]. cbn [dneed dfneed fold_right dall flat_map]. fold (dneed dl). fold (dfneed dl). fold (dall dl).
  rewrite app_length. destruct d as [nm fl k|nm fl k]; cbn [bd_toks bd_len bd_k]; unfold struct_toks, message_toks;
    rewrite !app_length, repeat_length, ?fields_toks_len, ?mfields_toks_len; cbn [length]; lia.
Qed.

(* ================= from the text ================= *)
Require Import Bebop.front.TokInv Bebop.front.LexInv.

(* a decimal literal and the index it denotes *)
Record idx := { xc : byte; xds : bytes; xv : N }.
Definition xbytes (x : idx) : bytes := xc x :: xds x.
Definition idx_ok (x : idx) : Prop := num_ok (xc x) (xds x).   (* decimal, or 0x... *)
Definition mfdef := (idx * (ident * ident))%type.
Inductive defn := DS (nm : ident) (fl : list (ident * ident)) (k : nat) | DM (nm : ident) (fl : list mfdef) (k : nat).

Definition bmf (f : mfdef) : mfield := (xbytes (fst f), xv (fst f), (ibytes (fst (snd f)), ibytes (snd (snd f)))).
Definition bdn (d : defn) : bdefn :=
  match d with
  | DS nm fl k => BS (ibytes nm) (map (fun f => (ibytes (fst f), ibytes (snd f))) fl) k
  | DM nm fl k => BM (ibytes nm) (map bmf fl) k
  end.
Definition defn_ok (d : defn) : Prop :=
  match d with
  | DS nm fl _ => ident_ok nm /\ Forall (fun f => ident_ok (fst f) /\ ident_ok (snd f)) fl
  | DM nm fl _ => ident_ok nm /\ Forall (fun f => idx_ok (fst f) /\ ident_ok (fst (snd f)) /\ ident_ok (snd (snd f))) fl /\ mfs_ok [] (map bmf fl)
  end.

Definition mfield_lex (f : mfdef) : list lexeme :=
  [Num (xc (fst f)) (xds (fst f)); Arrow; Wi (fst (snd f)); Wi (snd (snd f)); T1 59%N kSemi; T1 10%N kNewline].
Definition kwS : lexeme := W 115%N [116; 114; 117; 99; 116]%N.
Definition kwM : lexeme := W 109%N [101; 115; 115; 97; 103; 101]%N.
Definition defn_lex (d : defn) : list lexeme :=
  match d with
  | DS nm fl k => [kwS; Wi nm; T1 123%N kOpenCu; NLx] ++ flat_map field_lex fl ++ [T1 125%N kCloseCu; NLx] ++ repeat NLx k
  | DM nm fl k => [kwM; Wi nm; T1 123%N kOpenCu; NLx] ++ flat_map mfield_lex fl ++ [T1 125%N kCloseCu; NLx] ++ repeat NLx k
  end.
Definition defs_lex (dl : list defn) : list lexeme := flat_map defn_lex dl.
Definition dfile_of (dl : list defn) : file := fold_left bd_add (map bdn dl) file0.

Lemma map_repeat {A B} (f : A -> B) x k : map f (repeat x k) = repeat (f x) k.
Proof. induction k as [|k IH]; [reflexivity|]. cbn [repeat map]. now rewrite IH. Qed.

Lemma defs_toks dl : Forall defn_ok dl -> map tok_of (defs_lex dl) = dall (map bdn dl).
Proof.
  induction 1 as [|d dl Hd _ IH]; [reflexivity|].
  cbn [defs_lex flat_map map dall]. fold (defs_lex dl). fold (dall (map bdn dl)). rewrite map_app, IH. f_equal.
  destruct d as [nm fl k|nm fl k]; cbn [defn_ok defn_lex bdn bd_toks] in *.
  - destruct Hd as [Hn Hf]. unfold struct_toks. cbn [map app]. rewrite (tok_of_Wi nm Hn).
    change (tok_of kwS) with structT. change (tok_of (T1 123%N kOpenCu)) with openT. change (tok_of NLx) with nlT.
    do 4 f_equal. rewrite !map_app, <- app_assoc. f_equal.
    + induction Hf as [|[t n] fl [Ht Hnm] _ IHf]; [reflexivity|].
      cbn [flat_map map fields_toks]. fold (fields_toks (map (fun f => (ibytes (fst f), ibytes (snd f))) fl)). rewrite map_app, IHf. f_equal.
      cbn [field_lex field_toks fst snd map]. rewrite (tok_of_Wi t Ht), (tok_of_Wi n Hnm). reflexivity.
    + cbn [map app]. do 2 f_equal. apply map_repeat.
  - destruct Hd as (Hn & Hf & _). unfold message_toks. cbn [map app]. rewrite (tok_of_Wi nm Hn).
    change (tok_of kwM) with messageT. change (tok_of (T1 123%N kOpenCu)) with openT. change (tok_of NLx) with nlT.
    do 4 f_equal. rewrite !map_app, <- app_assoc. f_equal.
    + induction Hf as [|[x [t n]] fl (Hx & Ht & Hnm) _ IHf]; [reflexivity|].
      cbn [flat_map map mfields_toks]. fold (mfields_toks (map bmf fl)). rewrite map_app, IHf. f_equal.
      cbn [mfield_lex mfield_toks bmf mf_ds mf_tn fst snd map] in *. rewrite (tok_of_Wi t Ht), (tok_of_Wi n Hnm). reflexivity.
    + cbn [map app]. do 2 f_equal. apply map_repeat.
Qed.

Lemma kwM_ok : lex_ok kwM.
Proof. cbn [lex_ok kwM]. split; [reflexivity|repeat constructor]. Qed.
Lemma Forall_repeat {A} (P : A -> Prop) x k : P x -> Forall P (repeat x k).
Proof. intros H. induction k; cbn [repeat]; constructor; auto. Qed.

Lemma defs_lex_ok dl : Forall defn_ok dl -> Forall lex_ok (defs_lex dl).
Proof.
  induction 1 as [|d dl Hd _ IH]; [constructor|].
  cbn [defs_lex flat_map]. apply Forall_app. split; [|exact IH].
  destruct d as [nm fl k|nm fl k]; cbn [defn_ok defn_lex app] in *.
  - destruct Hd as [Hn Hf].
    constructor; [exact kw_struct_ok|]. constructor; [now apply lex_ok_Wi|]. constructor; [reflexivity|]. constructor; [reflexivity|].
    apply Forall_app. split.
    + induction Hf as [|[t n] fl [Ht Hnm] _ IHf]; [constructor|]. cbn [flat_map]. apply Forall_app. split; [|exact IHf].
      cbn [field_lex fst snd]. constructor; [now apply lex_ok_Wi|]. constructor; [now apply lex_ok_Wi|]. constructor; [reflexivity|].
      constructor; [reflexivity|constructor].
    + constructor; [reflexivity|]. constructor; [reflexivity|]. apply Forall_repeat. reflexivity.
  - destruct Hd as (Hn & Hf & _).
    constructor; [exact kwM_ok|]. constructor; [now apply lex_ok_Wi|]. constructor; [reflexivity|]. constructor; [reflexivity|].
    apply Forall_app. split.
    + induction Hf as [|[x [t n]] fl (Hx & Ht & Hnm) _ IHf]; [constructor|]. cbn [flat_map]. apply Forall_app. split; [|exact IHf].
      cbn [mfield_lex fst snd] in *. constructor; [exact Hx|]. constructor; [exact I|]. constructor; [now apply lex_ok_Wi|].
      constructor; [now apply lex_ok_Wi|]. constructor; [reflexivity|]. constructor; [reflexivity|constructor].
    + constructor; [reflexivity|]. constructor; [reflexivity|]. apply Forall_repeat. reflexivity.
Qed.

Lemma bdn_ok dl : Forall defn_ok dl -> Forall bd_ok (map bdn dl).
Proof.
  induction 1 as [|d dl Hd _ IH]; [constructor|]. cbn [map]. constructor; [|exact IH].
  destruct d; cbn [bdn bd_ok defn_ok] in *; [exact I|apply Hd].
Qed.

(* the common front part of the two text-level theorems: the tokens the models are given *)
Lemma defs_run dl l tail :
  Forall defn_ok dl -> map snd l = defs_lex dl -> Forall (fun p => hws (fst p)) l -> sep_ok l -> hws tail ->
  exists m, next_results (length (render l tail) + margin)
              {| buf := {| rest := render l tail; lastByte := None; lastRune := None; failing := false |}; errs := [] |}
            = res (dall (map bdn dl)) (NF [] :: repeat (NF []) m) /\ length (dall (map bdn dl)) <= length (render l tail).
Proof.
  intros Hok Hl Hws Hsep Ht.
  assert (Hlex : Forall (fun p => hws (fst p) /\ lex_ok (snd p)) l).
  { pose proof (defs_lex_ok dl Hok) as H. rewrite <- Hl in H. clear -Hws H.
    induction l as [|p l IH]; [constructor|]. inversion Hws; subst. cbn [map] in H. inversion H; subst. constructor; [split; assumption|auto]. }
  destruct (run_inversion l tail Hlex Hsep Ht) as (m & Hm & Hrun). unfold run in Hrun.
  assert (Htoks : map (fun p => NT (tok_of (snd p)) []) l = map (fun t => NT t []) (dall (map bdn dl))).
  { rewrite <- (defs_toks dl Hok), <- Hl, !map_map. reflexivity. }
  assert (Hcount : length l = length (dall (map bdn dl))).
  { apply (f_equal (@length nres)) in Htoks. now rewrite !map_length in Htoks. }
  assert (Hlen : length l <= length (render l tail)).
  { clear -Hlex. induction Hlex as [|[ws x] r _ _ IH]; cbn [length render]; [lia|]. rewrite !app_length. destruct x; cbn [text_of length]; lia. }
  destruct m as [|m]; [pose proof margin_ge; lia|]. exists m. rewrite Hrun, Htoks. split; [reflexivity|lia].
Qed.

(* C11 on structs and messages, end to end *)
Theorem read_defs : forall dl l tail,
  Forall defn_ok dl -> map snd l = defs_lex dl -> Forall (fun p => hws (fst p)) l -> sep_ok l -> hws tail ->
  exists s', read_file (render l tail) false = POk (dfile_of dl) s'.
Proof.
  intros dl l tail Hok Hl Hws Hsep Ht. destruct (defs_run dl l tail Hok Hl Hws Hsep Ht) as (m & Hrun & Hlen).
  unfold read_file. rewrite Hrun. pose proof (proj2 (dneed_le (map bdn dl))) as Hneed.
  set (n := length (render l tail) + margin) in *.
  replace (2 * n + 8) with (dneed (map bdn dl) + (2 * n + 8 - dneed (map bdn dl))) by lia.
  apply (top_defs (map bdn dl) _ file0 (repeat (NF []) m) tok0 (bdn_ok dl Hok)).
Qed.

Definition dcanon (dl : list bdefn) : bytes := dcanon_acc [] false dl.
Theorem format_defs : forall dl l tail,
  Forall defn_ok dl -> map snd l = defs_lex dl -> Forall (fun p => hws (fst p)) l -> sep_ok l -> hws tail ->
  exists s', format (render l tail) = POk (dcanon (map bdn dl)) s'.
Proof.
  intros dl l tail Hok Hl Hws Hsep Ht. destruct (defs_run dl l tail Hok Hl Hws Hsep Ht) as (m & Hrun & Hlen).
  unfold format. rewrite Hrun. pose proof (proj1 (dneed_le (map bdn dl))) as Hneed.
  set (n := length (render l tail) + margin) in *.
  replace (2 * n + 8) with (dfneed (map bdn dl) + (2 * n + 8 - dfneed (map bdn dl))) by lia.
  apply (fmt_defs (map bdn dl) _ [] false (repeat (NF []) m) tok0).
Qed.

(* ================= the canonical text as a layout ================= *)
Definition set_k (d : defn) (k : nat) : defn := match d with DS nm fl _ => DS nm fl k | DM nm fl _ => DM nm fl k end.
Fixpoint dreblank (dl : list defn) : list defn :=
  match dl with
  | [] => []
  | d :: r => match r with [] => [set_k d 0] | _ => set_k d 1 :: dreblank r end
  end.

Definition mfield_layout (f : mfdef) : list (bytes * lexeme) :=
  [(tab, Num (xc (fst f)) (xds (fst f))); (sp, Arrow); (sp, Wi (fst (snd f))); (sp, Wi (snd (snd f))); ([], T1 59%N kSemi); ([], NLx)].
Definition defn_layout (d : defn) : list (bytes * lexeme) :=
  match d with
  | DS nm fl k => [([], kwS); (sp, Wi nm); (sp, T1 123%N kOpenCu); ([], NLx)] ++ flat_map field_layout fl ++ [([], T1 125%N kCloseCu); ([], NLx)] ++ repeat ([], NLx) k
  | DM nm fl k => [([], kwM); (sp, Wi nm); (sp, T1 123%N kOpenCu); ([], NLx)] ++ flat_map mfield_layout fl ++ [([], T1 125%N kCloseCu); ([], NLx)] ++ repeat ([], NLx) k
  end.
Definition dlayout (dl : list defn) : list (bytes * lexeme) := flat_map defn_layout dl.

Lemma dlayout_lex dl : map snd (dlayout dl) = defs_lex dl.
Proof.
  induction dl as [|d dl IH]; [reflexivity|]. cbn [dlayout flat_map defs_lex]. fold (dlayout dl). fold (defs_lex dl).
  rewrite map_app, IH. f_equal. destruct d as [nm fl k|nm fl k]; cbn [defn_layout defn_lex map app]; do 4 f_equal; rewrite !map_app; f_equal.
  - induction fl as [|f fl IHf]; [reflexivity|]. cbn [flat_map]. rewrite map_app, IHf. reflexivity.
  - cbn [map app]. do 2 f_equal. apply map_repeat.
  - induction fl as [|f fl IHf]; [reflexivity|]. cbn [flat_map]. rewrite map_app, IHf. reflexivity.
  - cbn [map app]. do 2 f_equal. apply map_repeat.
Qed.

Lemma dlayout_hws dl : Forall (fun p => hws (fst p)) (dlayout dl).
Proof.
  assert (Hsp : hws sp) by (repeat constructor). assert (Htab : hws tab) by (repeat constructor). assert (Hnil : hws []) by constructor.
  induction dl as [|d dl IH]; [constructor|]. cbn [dlayout flat_map]. apply Forall_app. split; [|exact IH].
  destruct d as [nm fl k|nm fl k]; cbn [defn_layout app]; repeat (constructor; [assumption|]); apply Forall_app; split.
  - induction fl as [|f fl IHf]; [constructor|]. cbn [flat_map]. apply Forall_app. split; [|exact IHf]. repeat (constructor; [assumption|]). constructor.
  - repeat (constructor; [assumption|]). apply Forall_repeat. exact Hnil.
  - induction fl as [|f fl IHf]; [constructor|]. cbn [flat_map]. apply Forall_app. split; [|exact IHf]. repeat (constructor; [assumption|]). constructor.
  - repeat (constructor; [assumption|]). apply Forall_repeat. exact Hnil.
Qed.

Lemma sep_ok_mfields fl rest : sep_ok rest -> sep_ok (flat_map mfield_layout fl ++ rest).
Proof.
  intros Hr. induction fl as [|f fl IH]; [exact Hr|]. cbn [flat_map mfield_layout app sep_ok needs_end Wi].
  repeat split; auto; try (left; discriminate); try (right; eauto).
Qed.
Lemma dlayout_sep dl : sep_ok (dlayout dl).
Proof.
  induction dl as [|d dl IH]; [exact I|]. cbn [dlayout flat_map]. fold (dlayout dl).
  destruct d as [nm fl k|nm fl k]; cbn [defn_layout]; rewrite <- !app_assoc; cbn [app sep_ok needs_end Wi kwS kwM];
    (split; [left; discriminate|]); (split; [left; discriminate|]); (split; [exact I|]); (split; [exact I|]).
  - apply sep_ok_fields. cbn [app sep_ok needs_end]. split; [exact I|]. split; [exact I|]. apply sep_ok_nls. exact IH.
  - apply sep_ok_mfields. cbn [app sep_ok needs_end]. split; [exact I|]. split; [exact I|]. apply sep_ok_nls. exact IH.
Qed.

Fixpoint dctext (dl : list bdefn) : bytes :=
  match dl with
  | [] => []
  | d :: r => bd_text d ++ match r with [] => [] | _ => nlb ++ dctext r end
  end.
Lemma dcanon_acc_ctext : forall dl out nl, dcanon_acc out nl dl = out ++ match dl with [] => [] | _ => (if nl then nlb else []) ++ dctext dl end.
Proof.
  induction dl as [|d r IH]; intros out nl; [cbn; now rewrite app_nil_r|].
  cbn [dcanon_acc dctext]. rewrite IH. destruct nl, r; cbn [app]; rewrite <- ?app_assoc, ?app_nil_r; reflexivity.
Qed.
Lemma dcanon_ctext dl : dcanon dl = dctext dl.
Proof. unfold dcanon. rewrite dcanon_acc_ctext. destruct dl; reflexivity. Qed.

Lemma render_mfields fl t : render (flat_map mfield_layout fl) t = mfields_text (map bmf fl) ++ t.
Proof.
  induction fl as [|f fl IH]; [reflexivity|]. cbn [flat_map map mfields_text]. rewrite render_app, IH.
  cbn [mfield_layout render text_of Wi app fst snd]. unfold mfield_text, bmf, mf_ds, mf_tn, xbytes, ibytes. cbn [fst snd].
  rewrite <- !app_assoc. reflexivity.
Qed.
Lemma render_defn d t : render (defn_layout d) t = bd_text (bdn d) ++ repeat 10%N (bd_k (bdn d)) ++ t.
Proof.
  destruct d as [nm fl k|nm fl k]; cbn [defn_layout bdn bd_text bd_k]; rewrite !render_app, ?render_fields, ?render_mfields, render_nls;
    cbn [render text_of Wi app NLx kwS kwM]; unfold struct_text, message_text, ibytes, sp, nlb; rewrite <- !app_assoc; reflexivity.
Qed.

Lemma dreblank_ne d dl : map bdn (dreblank (d :: dl)) <> [].
Proof. cbn [dreblank]. destruct dl; discriminate. Qed.
Lemma bdn_set_k d k : bd_text (bdn (set_k d k)) = bd_text (bdn d) /\ bd_k (bdn (set_k d k)) = k.
Proof. destruct d; split; reflexivity. Qed.

Lemma render_dcanon : forall dl, render (dlayout (dreblank dl)) [] = dctext (map bdn (dreblank dl)).
Proof.
  induction dl as [|d dl IH]; [reflexivity|]. cbn [dreblank].
  destruct dl as [|d2 dl2].
  - cbn [dlayout flat_map app map dctext]. rewrite app_nil_r, render_defn. destruct (bdn_set_k d 0) as [_ ->]. cbn [repeat app]. now rewrite app_nil_r.
  - set (r := dreblank (d2 :: dl2)) in *. cbn [dlayout flat_map]. fold (dlayout r). rewrite render_app, render_defn, IH.
    destruct (bdn_set_k d 1) as [_ ->]. cbn [repeat app map dctext].
    pose proof (dreblank_ne d2 dl2) as Hr. fold r in Hr. destruct (map bdn r) eqn:E; [congruence|]. reflexivity.
Qed.
Lemma dctext_reblank dl : dctext (map bdn (dreblank dl)) = dctext (map bdn dl).
Proof.
  induction dl as [|d dl IH]; [reflexivity|]. cbn [dreblank]. destruct dl as [|d2 dl2].
  - cbn [map dctext]. now destruct (bdn_set_k d 0) as [-> _].
  - set (r := dreblank (d2 :: dl2)) in *. cbn [map dctext]. rewrite IH. destruct (bdn_set_k d 1) as [-> _].
    pose proof (dreblank_ne d2 dl2) as Hr. fold r in Hr. destruct (map bdn r) eqn:E; [congruence|]. reflexivity.
Qed.
Lemma bd_add_set_k f d k : bd_add f (bdn (set_k d k)) = bd_add f (bdn d).
Proof. destruct d; reflexivity. Qed.
Lemma fold_reblank : forall dl f, fold_left bd_add (map bdn (dreblank dl)) f = fold_left bd_add (map bdn dl) f.
Proof.
  induction dl as [|d dl IH]; intros f; [reflexivity|]. cbn [dreblank]. destruct dl as [|d2 dl2].
  - cbn [map fold_left]. now rewrite bd_add_set_k.
  - cbn [map fold_left]. rewrite bd_add_set_k. apply IH.
Qed.
Lemma defn_ok_set_k d k : defn_ok d -> defn_ok (set_k d k).
Proof. destruct d; exact (fun H => H). Qed.
Lemma dreblank_ok dl : Forall defn_ok dl -> Forall defn_ok (dreblank dl).
Proof.
  induction 1 as [|d dl H _ IH]; [constructor|]. cbn [dreblank].
  destruct dl; [constructor; [now apply defn_ok_set_k|constructor]|constructor; [now apply defn_ok_set_k|exact IH]].
Qed.

(* C11, C16 and C17 themselves on schemas of structs and messages: for EVERY such schema and EVERY layout of its text *)
Theorem defs_format_laws : forall dl l tail,
  Forall defn_ok dl -> map snd l = defs_lex dl -> Forall (fun p => hws (fst p)) l -> sep_ok l -> hws tail ->
  exists y, (exists s, format (render l tail) = POk y s) /\ y = dctext (map bdn dl) /\
            (exists s, format y = POk y s) /\
            (exists s, read_file y false = POk (dfile_of dl) s) /\ (exists s, read_file (render l tail) false = POk (dfile_of dl) s).
Proof.
  intros dl l tail Hok Hl Hws Hsep Ht.
  exists (dctext (map bdn dl)). split; [|split; [reflexivity|]].
  - destruct (format_defs dl l tail Hok Hl Hws Hsep Ht) as [s Hs]. rewrite dcanon_ctext in Hs. eauto.
  - pose proof (dreblank_ok dl Hok) as Hok'. set (lc := dlayout (dreblank dl)).
    assert (Hy : render lc [] = dctext (map bdn dl)) by (unfold lc; rewrite render_dcanon; apply dctext_reblank).
    split; [|split].
    + destruct (format_defs (dreblank dl) lc [] Hok' (dlayout_lex _) (dlayout_hws _) (dlayout_sep _) ltac:(constructor)) as [s Hs].
      rewrite dcanon_ctext, dctext_reblank, Hy in Hs. eauto.
    + destruct (read_defs (dreblank dl) lc [] Hok' (dlayout_lex _) (dlayout_hws _) (dlayout_sep _) ltac:(constructor)) as [s Hs].
      rewrite Hy in Hs. unfold dfile_of in *. rewrite fold_reblank in Hs. eauto.
    + exact (read_defs dl l tail Hok Hl Hws Hsep Ht).
Qed.

