(* Doc comments and deprecations on struct FIELDS in the inversion theorems: a field preceded by `//` comment lines - its comment
   in the File (joined by newlines) and, where a line has the shape [tag(key:"value")] / [tag(key)], its tags, exactly what
   parse_tag makes of each line, in order - and then, optionally, by a [deprecated("reason")] line.  Format writes all of it
   back unchanged, indented like the field. *)
From Coq Require Import List NArith ZArith Bool Arith Lia.
Require Import Bebop.front.Tok Bebop.front.Parse Bebop.front.Fmt Bebop.front.TokInv Bebop.front.LexInv Bebop.front.ParseInv Bebop.front.FmtInv Bebop.front.MsgInv.
Require Import Bebop.front.GenInv Bebop.front.Items Bebop.front.TyInv Bebop.front.TyMsg Bebop.front.TyItems Bebop.front.TyUnion Bebop.front.TyUnionItem Bebop.front.TyOpcode Bebop.front.TyEnum Bebop.front.TyDep Bebop.front.TyDoc.
Import ListNotations.

(* comment lines, the deprecation reason if any, the field (a tfield; component types written out: aliases get in the way of lia) *)
Definition cfield := (list bytes * (option bytes * (tyx * bytes)))%type.
Definition cf_f (f : cfield) : tfield := snd (snd f).
Definition cdep (f : cfield) : bool := match fst (snd f) with Some _ => true | None => false end.
Definition cdmsg (f : cfield) : bytes := match fst (snd f) with Some b => b | None => [] end.
Definition cdep_toks (d : option bytes) : list token := match d with Some b => dep_toks b | None => [] end.
Definition cfield_toks (f : cfield) : list token := doc_toks (fst f) ++ cdep_toks (fst (snd f)) ++ tfield_toks (snd (snd f)).
Definition cfields_toks (fl : list cfield) : list token := flat_map cfield_toks fl.
Definition tags_of (cs : list bytes) : list tag := fold_left add_tag cs [].
Definition cfield_of (f : cfield) : field :=
  {| f_type := ft_of (fst (snd (snd f))); f_name := snd (snd (snd f)); f_comment := join_nl (fst f); f_tags := tags_of (fst f);
     f_depmsg := cdmsg f; f_dep := cdep f |}.

Ltac fstep1 :=
  cbv beta iota zeta delta [bind p_next p_haserr p_kind p_tok p_unnext ret fail expect_any_of_next expect_next skip_eol_comments opt_newline read_deprecated conc next_cat deprecated_line
                            mk kept keep rs cur perrs kin existsb];
  cbn [N.eqb Pos.eqb orb andb negb kind concrete kIdent kOpenSq kCloseSq kComma kSemi kNewline kCloseCu kOpenCu kLineC kBlockC kInt kArrow kString kOpenPar kClosePar
       arrayT mapT osqT csqT commaT idT semiT nlT closeT lcT oparT cparT depT strT].
Ltac fdstep := repeat progress fstep1.

(* a comment line inside a struct body: appended to the pending comment, its tag (if it is one) to the pending tags *)
Lemma sl_doc body g fs cm tags dm dep tail c : cbody_ok body -> N.eqb (kind c) kCloseCu = false ->
  read_struct_loop (S g) fs cm tags dm dep (mk (res [lcT body] tail) c false)
  = read_struct_loop g fs (cm ++ [body]) (add_tag tags body) dm dep (mk tail (lcT body) false).
Proof.
  intros H Hc. unfold res. cbn [map app read_struct_loop]. fdstep. rewrite Hc. fdstep.
  change {| kind := 32; concrete := 47%N :: 47%N :: body ++ [10%N] |} with (lcT body). rewrite (sanitize_lc body H). reflexivity.
Qed.
Lemma sl_docs : forall cs g fs cm tags tail c, Forall cbody_ok cs -> N.eqb (kind c) kCloseCu = false ->
  exists c', N.eqb (kind c') kCloseCu = false /\
    read_struct_loop (length cs + g) fs cm tags [] false (mk (res (doc_toks cs) tail) c false)
    = read_struct_loop g fs (cm ++ cs) (fold_left add_tag cs tags) [] false (mk tail c' false).
Proof.
  induction cs as [|b cs IH]; intros g fs cm tags tail c H Hc.
  - exists c. split; [exact Hc|]. cbn [length plus doc_toks map res app fold_left]. now rewrite app_nil_r.
  - inversion H as [|? ? Hb Hr]; subst. cbn [length plus doc_toks map fold_left]. change (lcT b :: map lcT cs) with ([lcT b] ++ doc_toks cs).
    rewrite res_app, (sl_doc b _ fs cm tags [] false _ c Hb Hc). destruct (IH g fs (cm ++ [b]) (add_tag tags b) tail (lcT b) Hr eq_refl) as (c' & Hc' & E).
    exists c'. split; [exact Hc'|]. rewrite E, <- app_assoc. reflexivity.
Qed.
(* the attribute line, with comment lines pending: the reason becomes the pending deprecation *)
Lemma sl_dep body G fs cm tags tail c : Forall (fun x => dplain x = true) body -> N.eqb (kind c) kCloseCu = false ->
  read_struct_loop (S G) fs cm tags [] false (mk (res (dep_toks body) tail) c false)
  = read_struct_loop G fs cm tags body true (mk tail nlT false).
Proof.
  intros Hb Hc. unfold dep_toks, res. cbn [map app read_struct_loop]. fdstep. rewrite Hc. fdstep.
  change (34%N :: body ++ [34%N]) with (concrete (strT body)). rewrite (unquote_str body Hb). reflexivity.
Qed.
(* the field itself, with whatever is pending and whatever token was read last *)
Lemma sl_tfield_gen f g fs cm tags dm dep tail c : ty_keys_ok (fst f) -> N.eqb (kind c) kCloseCu = false ->
  read_struct_loop (S (tfuel (fst f) + S g)) fs cm tags dm dep (mk (res (tfield_toks f) tail) c false)
  = read_struct_loop (tfuel (fst f) + g)
      (fs ++ [{| f_type := ft_of (fst f); f_name := snd f; f_comment := join_nl cm; f_tags := tags; f_depmsg := dm; f_dep := dep |}])
      [] [] [] false (mk tail nlT false).
Proof.
  destruct f as [t nm]. unfold tfield_toks. cbn [fst snd]. intros Hok Hc.
  destruct (ty_toks_ne t) as (c0 & r0 & E0).
  assert (Hk0 : kin (kind c0) [kIdent; 12%N; 11%N] = true /\ N.eqb (kind c0) kNewline = false).
  { destruct t; cbn [ty_toks app] in E0; inversion E0; subst; split; reflexivity. }
  destruct Hk0 as [Hk1 Hk2].
  rewrite E0. change ((c0 :: r0) ++ [idT nm; semiT; nlT]) with ([c0] ++ (r0 ++ [idT nm; semiT; nlT])). rewrite res_app.
  match goal with |- context [res (r0 ++ ?y) ?x] => set (R := res (r0 ++ y) x) end.
  unfold res at 1. cbn [map app read_struct_loop]. sstep. rewrite Hc. sstep. rewrite Hk2, Hk1. sstep.
  subst R. pose proof (read_type_kept (tfuel t + S g) c0 (res (r0 ++ [idT nm; semiT; nlT]) tail) c0) as Ek. unfold kept in Ek. rewrite Ek. clear Ek.
  change (NT c0 [] :: res (r0 ++ [idT nm; semiT; nlT]) tail) with (res ((c0 :: r0) ++ [idT nm] ++ [semiT; nlT]) tail).
  rewrite <- E0, app_assoc, res_app.
  rewrite (read_type_ok t Hok (S g) (idT nm) (res [semiT; nlT] tail) c0 (semi_not_open nm)).
  unfold res. cbn [map app]. sstep.
  replace (tfuel t + S g) with (S (tfuel t + g)) by lia. cbn [read_struct_loop]. sstep. reflexivity.
Qed.

Definition cfield_ok (f : cfield) : Prop :=
  Forall cbody_ok (fst f) /\ ty_keys_ok (fst (snd (snd f))) /\ match fst (snd f) with Some b => Forall (fun x => dplain x = true) b | None => True end.
Definition cfuel (f : cfield) : nat := length (fst f) + (tfuel (fst (snd (snd f))) + 2 + (if cdep f then 1 else 0)).
Definition csum (fl : list cfield) : nat := fold_right (fun f acc => cfuel f + acc) 0 fl.
Definition ctsum (fl : list cfield) : nat := fold_right (fun f acc => tfuel (fst (snd (snd f))) + acc) 0 fl.

Lemma sl_cfield f g fs tail c : cfield_ok f -> N.eqb (kind c) kCloseCu = false ->
  read_struct_loop (cfuel f + g) fs [] [] [] false (mk (res (cfield_toks f) tail) c false)
  = read_struct_loop (tfuel (fst (snd (snd f))) + g) (fs ++ [cfield_of f]) [] [] [] false (mk tail nlT false).
Proof.
  destruct f as [cs [d f0]]. unfold cfield_ok, cfuel, cfield_toks, cfield_of, cdep, cdmsg, tags_of. cbn [fst snd]. intros (Hcs & Hk & Hd) Hc.
  rewrite res_app, <- Nat.add_assoc.
  destruct (sl_docs cs (tfuel (fst f0) + 2 + (if match d with Some _ => true | None => false end then 1 else 0) + g) fs [] []
              (res (cdep_toks d ++ tfield_toks f0) tail) c Hcs Hc) as (c' & Hc' & E). rewrite E. cbn [app]. clear E.
  destruct d as [b|]; cbn [cdep_toks].
  - rewrite res_app. replace (tfuel (fst f0) + 2 + 1 + g) with (S (S (tfuel (fst f0) + S g))) by lia.
    rewrite (sl_dep b _ fs cs _ _ c' Hd Hc'). apply sl_tfield_gen; [exact Hk|reflexivity].
  - cbn [app]. replace (tfuel (fst f0) + 2 + 0 + g) with (S (tfuel (fst f0) + S g)) by lia. apply sl_tfield_gen; assumption.
Qed.
Lemma sl_cfields : forall fl g fs tail, Forall cfield_ok fl ->
  read_struct_loop (csum fl + g) fs [] [] [] false (mk (res (cfields_toks fl) tail) nlT false)
  = read_struct_loop (ctsum fl + g) (fs ++ map cfield_of fl) [] [] [] false (mk tail nlT false).
Proof.
  induction fl as [|f fl IH]; intros g fs tail Hok.
  - cbn [csum ctsum fold_right plus cfields_toks flat_map map res app]. now rewrite app_nil_r.
  - inversion Hok as [|? ? Hf Hr]; subst. cbn [cfields_toks flat_map csum ctsum fold_right]. fold (cfields_toks fl). fold (csum fl). fold (ctsum fl).
    rewrite res_app, <- Nat.add_assoc, (sl_cfield f _ fs _ nlT Hf eq_refl).
    rewrite (Nat.add_comm (tfuel _)), <- Nat.add_assoc, (Nat.add_comm g).
    rewrite (IH _ _ _ Hr). cbn [map]. rewrite <- app_assoc. f_equal. rewrite Nat.add_assoc, (Nat.add_comm (ctsum fl)). reflexivity.
Qed.

Definition cstruct_toks (nm : bytes) (fl : list cfield) : list token := [structT; idT nm; openT; nlT] ++ cfields_toks fl ++ [closeT; nlT].
Definition cstruct_of (nm : bytes) (fl : list cfield) : struct_ :=
  {| s_name := nm; s_comment := []; s_fields := map cfield_of fl; s_opcode := 0; s_readonly := false |}.

Lemma read_cstruct_ok nm fl g tail c : Forall cfield_ok fl ->
  read_struct (csum fl + S (S g)) (mk (res ([idT nm; openT; nlT] ++ cfields_toks fl ++ [closeT]) tail) c false)
  = POk (cstruct_of nm fl) (mk tail closeT false).
Proof.
  intros Hok. rewrite res_app, read_struct_head. unfold bind. rewrite res_app, (sl_cfields fl _ [] _ Hok).
  replace (ctsum fl + S (S g)) with (S (S (ctsum fl + g))) by lia. rewrite struct_loop_close. reflexivity.
Qed.
Lemma top_cfstruct nm fl g f tail c : Forall cfield_ok fl ->
  top_loop (S (csum fl + S (S g))) f [] 0%N false false (mk (res (cstruct_toks nm fl) tail) c false)
  = top_loop (csum fl + S g) (add_struct f (cstruct_of nm fl)) [] 0%N false false (mk tail nlT false).
Proof.
  intros Hok. unfold cstruct_toks.
  change ([structT; idT nm; openT; nlT] ++ cfields_toks fl ++ [closeT; nlT])
    with ([structT] ++ ([idT nm; openT; nlT] ++ cfields_toks fl ++ [closeT] ++ [nlT])).
  rewrite res_app, top_struct_head. unfold bind.
  replace ([idT nm; openT; nlT] ++ cfields_toks fl ++ [closeT] ++ [nlT])
    with (([idT nm; openT; nlT] ++ cfields_toks fl ++ [closeT]) ++ [nlT]) by (rewrite <- !app_assoc; reflexivity).
  rewrite res_app, (read_cstruct_ok nm fl g _ _ Hok). cbn [s_name s_fields cstruct_of].
  replace (csum fl + S (S g)) with (S (csum fl + S g)) by lia.
  rewrite top_newline. reflexivity.
Qed.

(* ---------- the formatter: comment lines and the attribute line are written back as they are, behind the field's indentation ---------- *)
Definition fdocs_text (cs : list bytes) : bytes := flat_map (fun b => tab ++ 47%N :: 47%N :: b ++ [10%N]) cs.
Definition cdep_text (d : option bytes) : bytes := match d with Some b => dep_text b | None => [] end.
Definition cfield_text (f : cfield) : bytes := fdocs_text (fst f) ++ cdep_text (fst (snd f)) ++ tfield_text (snd (snd f)).
Definition cfields_text (fl : list cfield) : bytes := flat_map cfield_text fl.

Lemma fl_doc body g acc tail c :
  format_struct_loop (S g) tab acc (mk (res [lcT body] tail) c false)
  = format_struct_loop g tab (acc ++ tab ++ 47%N :: 47%N :: body ++ [10%N]) (mk tail (lcT body) false).
Proof. unfold res. cbn [map app format_struct_loop]. gstep. cbn [lcT kind concrete N.eqb Pos.eqb]. reflexivity. Qed.
Lemma fl_docs : forall cs g acc tail c,
  exists c', format_struct_loop (length cs + g) tab acc (mk (res (doc_toks cs) tail) c false)
           = format_struct_loop g tab (acc ++ fdocs_text cs) (mk tail c' false).
Proof.
  induction cs as [|b cs IH]; intros g acc tail c.
  - exists c. cbn [length plus doc_toks map res app fdocs_text flat_map]. now rewrite app_nil_r.
  - cbn [length plus doc_toks map fdocs_text flat_map]. change (lcT b :: map lcT cs) with ([lcT b] ++ doc_toks cs). rewrite res_app, fl_doc.
    destruct (IH g (acc ++ tab ++ 47%N :: 47%N :: b ++ [10%N]) tail (lcT b)) as [c' E]. exists c'. rewrite E. fold (fdocs_text cs).
    rewrite <- !app_assoc. reflexivity.
Qed.
Lemma fl_dep_line body G acc tail c :
  format_struct_loop (S (S G)) tab acc (mk (res (dep_toks body) tail) c false)
  = format_struct_loop G tab (acc ++ dep_text body) (mk tail nlT false).
Proof.
  unfold dep_toks, res. cbn [map app format_struct_loop]. fdstep. f_equal. unfold dep_text. repeat (rewrite <- app_assoc || rewrite <- app_comm_cons). reflexivity.
Qed.
Lemma fmt_tfield_gen f g acc tail c :
  format_struct_loop (S (tfuel (fst f) + S g)) tab acc (mk (res (tfield_toks f) tail) c false)
  = format_struct_loop (tfuel (fst f) + g) tab (acc ++ tfield_text f) (mk tail nlT false).
Proof.
  destruct f as [t nm]. unfold tfield_toks, tfield_text. cbn [fst snd].
  destruct (ty_toks_ne t) as (c0 & r0 & E0).
  assert (Hk0 : kin (kind c0) [kIdent; 11%N; 12%N] = true /\ N.eqb (kind c0) kLineC = false /\ N.eqb (kind c0) kBlockC = false /\ N.eqb (kind c0) kOpenSq = false).
  { destruct t; cbn [ty_toks app] in E0; inversion E0; subst; repeat split; reflexivity. }
  destruct Hk0 as (Hk1 & Hk2 & Hk3 & Hk4).
  rewrite E0. change ((c0 :: r0) ++ [idT nm; semiT; nlT]) with ([c0] ++ (r0 ++ [idT nm] ++ [semiT; nlT])). rewrite res_app, app_assoc, res_app.
  match goal with |- context [res (r0 ++ ?y) ?x] => set (R := res (r0 ++ y) x) end.
  unfold res at 1. cbn [map app format_struct_loop]. gstep. rewrite Hk2, Hk3, Hk4, Hk1. gstep.
  subst R.
  pose proof (fmt_type_ok t (S g) (idT nm) (res [semiT; nlT] tail) (semi_not_open nm) c0 r0 E0) as Et. unfold mk in Et. rewrite Et. clear Et.
  unfold res. cbn [map app]. gstep.
  replace (tfuel t + S g) with (S (tfuel t + g)) by lia. cbn [format_struct_loop]. gstep.
  f_equal. rewrite <- !app_assoc. reflexivity.
Qed.
Definition cffuel (f : cfield) : nat := length (fst f) + (tfuel (fst (snd (snd f))) + 2 + (if cdep f then 2 else 0)).
Lemma fmt_cfield f g acc tail c :
  format_struct_loop (cffuel f + g) tab acc (mk (res (cfield_toks f) tail) c false)
  = format_struct_loop (tfuel (fst (snd (snd f))) + g) tab (acc ++ cfield_text f) (mk tail nlT false).
Proof.
  destruct f as [cs [d f0]]. unfold cffuel, cfield_toks, cfield_text, cdep. cbn [fst snd]. rewrite res_app, <- Nat.add_assoc.
  destruct (fl_docs cs (tfuel (fst f0) + 2 + (if match d with Some _ => true | None => false end then 2 else 0) + g) acc
              (res (cdep_toks d ++ tfield_toks f0) tail) c) as [c' E]. rewrite E. clear E.
  destruct d as [b|]; cbn [cdep_toks cdep_text].
  - rewrite res_app. replace (tfuel (fst f0) + 2 + 2 + g) with (S (S (S (tfuel (fst f0) + S g)))) by lia.
    rewrite fl_dep_line, fmt_tfield_gen, <- !app_assoc. reflexivity.
  - cbn [app]. replace (tfuel (fst f0) + 2 + 0 + g) with (S (tfuel (fst f0) + S g)) by lia. rewrite fmt_tfield_gen, <- !app_assoc. reflexivity.
Qed.
Definition cfsum (fl : list cfield) : nat := fold_right (fun f acc => cffuel f + acc) 0 fl.
Lemma fmt_cfields : forall fl g acc tail,
  format_struct_loop (cfsum fl + g) tab acc (mk (res (cfields_toks fl) tail) nlT false)
  = format_struct_loop (ctsum fl + g) tab (acc ++ cfields_text fl) (mk tail nlT false).
Proof.
  induction fl as [|f fl IH]; intros g acc tail.
  - cbn [cfsum ctsum fold_right plus cfields_toks cfields_text flat_map map res app]. now rewrite app_nil_r.
  - cbn [cfields_toks cfields_text flat_map cfsum ctsum fold_right]. fold (cfields_toks fl). fold (cfields_text fl). fold (cfsum fl). fold (ctsum fl).
    rewrite res_app, <- Nat.add_assoc, fmt_cfield.
    rewrite (Nat.add_comm (tfuel _)), <- Nat.add_assoc, (Nat.add_comm g).
    rewrite IH, <- app_assoc. f_equal. rewrite Nat.add_assoc, (Nat.add_comm (ctsum fl)). reflexivity.
Qed.

Definition cstruct_text (nm : bytes) (fl : list cfield) : bytes :=
  [115; 116; 114; 117; 99; 116]%N ++ sp ++ nm ++ sp ++ [123%N] ++ nlb ++ cfields_text fl ++ [125%N] ++ nlb.
Lemma fmt_cstruct_ok nm fl g tail :
  format_struct (S (cfsum fl + S (S g))) false tab (mk (res ([idT nm; openT; nlT] ++ cfields_toks fl ++ [closeT]) tail) structT false)
  = POk (cstruct_text nm fl) (mk tail closeT false).
Proof.
  rewrite res_app, fmt_struct_head, res_app, fmt_cfields.
  replace (ctsum fl + S (S g)) with (S (S (ctsum fl + g))) by lia. rewrite fmt_close.
  unfold cstruct_text. rewrite <- !app_assoc. reflexivity.
Qed.
Lemma fmt_top_cstruct nm fl g out nl tail c :
  format_loop (S (S (cfsum fl + S (S g)))) out false nl (mk (res (cstruct_toks nm fl) tail) c false)
  = format_loop (cfsum fl + S (S g)) ((if nl then out ++ nlb else out) ++ cstruct_text nm fl) false true (mk tail nlT false).
Proof.
  unfold cstruct_toks.
  change ([structT; idT nm; openT; nlT] ++ cfields_toks fl ++ [closeT; nlT])
    with ([structT] ++ ([idT nm; openT; nlT] ++ cfields_toks fl ++ [closeT] ++ [nlT])).
  rewrite res_app, fmt_top_struct_head. unfold bind.
  replace ([idT nm; openT; nlT] ++ cfields_toks fl ++ [closeT] ++ [nlT])
    with (([idT nm; openT; nlT] ++ cfields_toks fl ++ [closeT]) ++ [nlT]) by (rewrite <- !app_assoc; reflexivity).
  rewrite res_app, fmt_cstruct_ok. rewrite fmt_top_newline. reflexivity.
Qed.

(* ---------- the item ---------- *)
Definition cfdef := (list bytes * (option bytes * tfdef))%type.
Definition bcf (f : cfdef) : cfield := (fst f, (fst (snd f), btf (snd (snd f)))).
Definition cfdef_ok (f : cfdef) : Prop :=
  Forall cbody_ok (fst f) /\ tfdef_ok (snd (snd f)) /\ match fst (snd f) with Some b => Forall (fun x => dplain x = true) b | None => True end.
Definition cdep_lex (d : option bytes) : list lexeme := match d with Some b => dep_lex b | None => [] end.
Definition cdep_layout (d : option bytes) : list (bytes * lexeme) := match d with Some b => dep_layout b | None => [] end.
Definition cfield_lex (f : cfdef) : list lexeme := docs_lex (fst f) ++ cdep_lex (fst (snd f)) ++ tfield_lex (snd (snd f)).
Definition fdocs_layout (cs : list bytes) : list (bytes * lexeme) := map (fun b => (tab, LC b)) cs.
Definition cfield_layout (f : cfdef) : list (bytes * lexeme) := fdocs_layout (fst f) ++ cdep_layout (fst (snd f)) ++ tfield_layout (snd (snd f)).

(* the attribute line alone, as a one-line layout: facts borrowed from TyDep.v's (None-typed) deprecated message field *)
Lemma cdep_toks_tie d : map tok_of (cdep_lex d) = cdep_toks d.
Proof. destruct d; reflexivity. Qed.
Lemma cdep_lex_ok d : match d with Some b => Forall (fun x => dplain x = true) b | None => True end -> Forall lex_ok (cdep_lex d).
Proof.
  destruct d as [b|]; [|constructor]. intros Hb. unfold cdep_lex, dep_lex.
  constructor; [reflexivity|]. constructor; [split; [reflexivity|repeat constructor]|]. constructor; [reflexivity|].
  constructor; [cbn [lex_ok]; eapply Forall_impl; [|exact Hb]; intros x Hx; now apply dplain_plain|].
  constructor; [reflexivity|]. constructor; [reflexivity|]. constructor; [reflexivity|constructor].
Qed.
Lemma cdep_lay d : map snd (cdep_layout d) = cdep_lex d.
Proof. destruct d; reflexivity. Qed.
Lemma cdep_hws d : Forall (fun p => hws (fst p)) (cdep_layout d).
Proof. destruct d as [b|]; [|constructor]. unfold cdep_layout, dep_layout. constructor; [exact hws_tab|apply nows_hws]. Qed.
Lemma cdep_sep d rest : sep_ok rest -> sep_ok (cdep_layout d ++ rest).
Proof.
  intros Hr. destruct d as [b|]; [|exact Hr]. unfold cdep_layout, dep_layout, nows. cbn [map app sep_ok needs_end osqL kwDep csqL NLx].
  split; [exact I|]. split; [right; exists 40%N, kOpenPar; reflexivity|]. split; [exact I|]. split; [exact I|]. split; [exact I|]. split; [exact I|].
  split; [exact I|]. exact Hr.
Qed.
Lemma cdep_ren d t : render (cdep_layout d) t = cdep_text d ++ t.
Proof.
  destruct d as [b|]; [|reflexivity]. unfold cdep_layout, cdep_text, dep_layout, nows, dep_text. cbn [map render text_of osqL kwDep csqL NLx app]. unfold nlb, tab.
  repeat (rewrite <- app_assoc || rewrite <- app_comm_cons). reflexivity.
Qed.

Lemma cf_toks f : cfdef_ok f -> map tok_of (cfield_lex f) = cfield_toks (bcf f).
Proof. intros (_ & H & _). unfold cfield_lex, cfield_toks, bcf. cbn [fst snd]. rewrite !map_app, docs_toks_tie, cdep_toks_tie, (tf_toks _ H). reflexivity. Qed.
Lemma cf_lex f : cfdef_ok f -> Forall lex_ok (cfield_lex f).
Proof. intros (Hc & H & Hd). unfold cfield_lex. apply Forall_app. split; [exact (docs_lex_ok _ Hc)|]. apply Forall_app. split; [exact (cdep_lex_ok _ Hd)|exact (tf_lex _ H)]. Qed.
Lemma cf_lay f : map snd (cfield_layout f) = cfield_lex f.
Proof. unfold cfield_layout, cfield_lex, fdocs_layout, docs_lex. rewrite !map_app, map_map, cdep_lay, tf_lay. reflexivity. Qed.
Lemma cf_hws f : Forall (fun p => hws (fst p)) (cfield_layout f).
Proof.
  unfold cfield_layout. apply Forall_app. split; [|apply Forall_app; split; [apply cdep_hws|exact (tf_hws (snd (snd f)))]].
  unfold fdocs_layout. induction (fst f) as [|b cs IH]; cbn [map]; constructor; [exact hws_tab|exact IH].
Qed.
Lemma cf_sep f rest : sep_ok rest -> sep_ok (cfield_layout f ++ rest).
Proof.
  intros Hr. unfold cfield_layout. rewrite <- !app_assoc. unfold fdocs_layout.
  induction (fst f) as [|b cs IH]; [apply cdep_sep; exact (tf_sep (snd (snd f)) rest Hr)|]. cbn [map app sep_ok needs_end]. split; [exact I|exact IH].
Qed.
Lemma cf_ren f t : render (cfield_layout f) t = cfield_text (bcf f) ++ t.
Proof.
  unfold cfield_layout, cfield_text, bcf. cbn [fst snd]. rewrite !render_app, tf_ren, cdep_ren. unfold fdocs_layout, fdocs_text.
  induction (fst f) as [|b cs IH]; [cbn [map render flat_map app]; now rewrite <- !app_assoc|]. cbn [map render text_of flat_map app]. rewrite IH.
  repeat (rewrite <- app_assoc || rewrite <- app_comm_cons). reflexivity.
Qed.

Lemma csum_le fl : csum fl <= length (cfields_toks fl) /\ cfsum fl <= length (cfields_toks fl).
Proof.
  induction fl as [|f fl [IH1 IH2]]; [cbn; lia|]. cbn [csum cfsum fold_right cfields_toks flat_map]. fold (csum fl). fold (cfsum fl). fold (cfields_toks fl).
  rewrite app_length. destruct f as [cs [d f0]]. unfold cfuel, cffuel, cfield_toks, cdep, tfield_toks, doc_toks. cbn [fst snd]. rewrite !app_length, map_length. cbn [length].
  pose proof (tfuel_le (fst f0)). destruct d; cbn [cdep_toks dep_toks length]; lia.
Qed.
Lemma ckeys_of fl : Forall cfdef_ok fl -> Forall cfield_ok (map bcf fl).
Proof. induction 1 as [|f fl (Hc & [Ht _] & Hd) _ IH]; cbn [map]; constructor; [split; [exact Hc|split; [exact (lty_keys _ Ht)|exact Hd]]|exact IH]. Qed.

Definition cf_item (nm : ident) (fl : list cfdef) : item :=
  let bfl := map bcf fl in
  {| it_toks := cstruct_toks (ibytes nm) bfl; it_need := csum bfl + 3; it_fneed := cfsum bfl + 4;
     it_upd := fun f => add_struct f (cstruct_of (ibytes nm) bfl); it_text := cstruct_text (ibytes nm) bfl; it_blank := true |}.
Definition cf_x (nm : ident) (fl : list cfdef) : xitem :=
  {| x_lex := [kwS; Wi nm; ocuL; NLx] ++ flat_map cfield_lex fl ++ [ccuL; NLx];
     x_lay := [([], kwS); (sp, Wi nm); (sp, ocuL); ([], NLx)] ++ flat_map cfield_layout fl ++ [([], ccuL); ([], NLx)] |}.

Lemma cf_item_ok nm fl : ident_ok nm -> Forall cfdef_ok fl -> item_ok (cf_item nm fl) (cf_x nm fl).
Proof.
  intros Hn Hf. pose proof (ckeys_of fl Hf) as Hk. constructor.
  - intros g f tail c. cbn [cf_item it_need it_toks it_upd]. exists (csum (map bcf fl) + S g). split; [lia|].
    replace (csum (map bcf fl) + 3 + g) with (S (csum (map bcf fl) + S (S g))) by lia. apply (top_cfstruct _ _ _ _ _ _ Hk).
  - intros g out nl tail c. cbn [cf_item it_fneed it_toks it_text it_blank]. rewrite andb_true_r. exists (cfsum (map bcf fl) + S (S g)). split; [lia|].
    replace (cfsum (map bcf fl) + 4 + g) with (S (S (cfsum (map bcf fl) + S (S g)))) by lia. apply fmt_top_cstruct.
  - cbn [cf_x x_lex cf_item it_toks]. unfold cstruct_toks. rewrite !map_app. cbn [map]. rewrite (tok_of_Wi nm Hn).
    rewrite (pf_toks cfield_lex bcf cfield_toks cfdef_ok cf_toks fl Hf). reflexivity.
  - cbn [cf_x x_lex]. cbn [app]. constructor; [exact kw_struct_ok|]. constructor; [now apply lex_ok_Wi|]. constructor; [reflexivity|]. constructor; [reflexivity|].
    apply Forall_app. split; [exact (pf_lex cfield_lex cfdef_ok cf_lex fl Hf)|]. constructor; [reflexivity|]. constructor; [reflexivity|constructor].
  - cbn [cf_item it_need it_fneed it_toks]. unfold cstruct_toks. rewrite !app_length. cbn [length]. fold (cfields_toks (map bcf fl)).
    destruct (csum_le (map bcf fl)). lia.
  - cbn [cf_x x_lay x_lex]. rewrite !map_app, (pf_lay cfield_lex cfield_layout cf_lay). reflexivity.
  - cbn [cf_x x_lay]. cbn [app]. constructor; [exact hws_nil|]. constructor; [exact hws_sp|]. constructor; [exact hws_sp|]. constructor; [exact hws_nil|].
    apply Forall_app. split; [exact (pf_hws cfield_layout cf_hws fl)|]. constructor; [exact hws_nil|]. constructor; [exact hws_nil|constructor].
  - intros rest Hr. cbn [cf_x x_lay]. rewrite <- !app_assoc. cbn [app sep_ok needs_end Wi kwS ocuL NLx].
    split; [left; discriminate|]. split; [left; discriminate|]. split; [exact I|]. split; [exact I|].
    apply (pf_sep cfield_layout cf_sep). cbn [app sep_ok needs_end ccuL NLx]. split; [exact I|]. split; [exact I|exact Hr].
  - intros t. cbn [cf_x x_lay cf_item it_text]. rewrite !render_app, (pf_ren cfield_layout bcf cfield_text cf_ren).
    cbn [render text_of Wi app NLx kwS ocuL ccuL]. unfold cstruct_text, cfields_text, ibytes, sp, nlb.
    repeat (rewrite <- app_assoc || rewrite <- app_comm_cons). reflexivity.
Qed.
Print Assumptions cf_item_ok.
