(* Unions in the inversion theorems: a union definition with struct and message branches (fields of any type), as one more
   item of the framework of GenInv.v.  The nested bodies are indented one level deeper, so the formatter lemmas of TyInv.v /
   TyMsg.v are first restated for an arbitrary prefix. *)
From Coq Require Import List NArith ZArith Bool Arith Lia.
Require Import Bebop.front.Tok Bebop.front.Parse Bebop.front.Fmt Bebop.front.ParseInv Bebop.front.FmtInv Bebop.front.MsgInv Bebop.front.TyInv Bebop.front.TyMsg.
Import ListNotations.

(* ---------- struct and message bodies under any prefix ---------- *)
Definition tfield_text_px (px : bytes) (f : tfield) : bytes := px ++ ty_text (fst f) ++ sp ++ snd f ++ [59%N] ++ nlb.
Definition tfields_text_px (px : bytes) (fl : list tfield) : bytes := flat_map (tfield_text_px px) fl.

Lemma fmt_tfield_px px f g acc tail :
  format_struct_loop (S (tfuel (fst f) + S g)) px acc (mk (res (tfield_toks f) tail) nlT false)
  = format_struct_loop (tfuel (fst f) + g) px (acc ++ tfield_text_px px f) (mk tail nlT false).
Proof.
  destruct f as [t nm]. unfold tfield_toks, tfield_text_px. cbn [fst snd].
  destruct (ty_toks_ne t) as (c0 & r0 & E0).
  assert (Hk0 : kin (kind c0) [kIdent; 11%N; 12%N] = true /\ N.eqb (kind c0) kLineC = false /\ N.eqb (kind c0) kBlockC = false /\ N.eqb (kind c0) kOpenSq = false).
  { destruct t; cbn [ty_toks app] in E0; inversion E0; subst; repeat split; reflexivity. }
  destruct Hk0 as (Hk1 & Hk2 & Hk3 & Hk4).
  rewrite E0. change ((c0 :: r0) ++ [idT nm; semiT; nlT]) with ([c0] ++ (r0 ++ [idT nm] ++ [semiT; nlT])). rewrite res_app, app_assoc, res_app.
  match goal with |- context [res (r0 ++ ?y) ?x] => set (R := res (r0 ++ y) x) end.
  unfold res at 1. cbn [map app format_struct_loop]. gstep. rewrite Hk2, Hk3, Hk4, Hk1. gstep.
  subst R.
  pose proof (fmt_type_ok t (S g) (idT nm) (res [semiT; nlT] tail) (semi_not_open nm) c0 r0 E0) as Et. unfold mk in Et. rewrite Et. clear Et.
  unfold res. cbn [map app]. gstep.
  replace (tfuel t + S g) with (S (tfuel t + g)) by lia. cbn [format_struct_loop]. gstep.
  f_equal. rewrite <- !app_assoc. reflexivity.
Qed.

Lemma fmt_tfields_px px : forall fl g acc tail,
  format_struct_loop (fsum fl + g) px acc (mk (res (tfields_toks fl) tail) nlT false)
  = format_struct_loop (tsum fl + g) px (acc ++ tfields_text_px px fl) (mk tail nlT false).
Proof.
  induction fl as [|f fl IH]; intros g acc tail.
  - cbn [fsum tsum fold_right plus tfields_toks tfields_text_px flat_map map res app]. now rewrite app_nil_r.
  - cbn [tfields_toks tfields_text_px flat_map fsum tsum fold_right]. fold (tfields_toks fl). fold (tfields_text_px px fl). fold (fsum fl). fold (tsum fl).
    rewrite res_app.
    replace (tfuel (fst f) + 2 + fsum fl + g) with (S (tfuel (fst f) + S (fsum fl + g))) by lia.
    rewrite fmt_tfield_px.
    replace (tfuel (fst f) + (fsum fl + g)) with (fsum fl + (tfuel (fst f) + g)) by lia.
    rewrite IH, <- app_assoc. f_equal. lia.
Qed.

Lemma fmt_close_px px g acc tail :
  format_struct_loop (S (S g)) px acc (mk (res [closeT] tail) nlT false) = POk (acc ++ removelast px ++ [125%N] ++ nlb) (mk tail closeT false).
Proof. unfold res. cbn [map app format_struct_loop]. gstep. reflexivity. Qed.

Lemma fmt_struct_head_px px g nm tail :
  format_struct (S g) false px (mk (res [idT nm; openT; nlT] tail) structT false)
  = format_struct_loop g px ((([115; 116; 114; 117; 99; 116]%N ++ sp ++ nm) ++ sp ++ [123%N]) ++ nlb) (mk tail nlT false).
Proof. unfold format_struct, res. cbn [map app]. gstep. cbn [format_struct_loop]. reflexivity. Qed.

Definition tstruct_text_px (px : bytes) (nm : bytes) (fl : list tfield) : bytes :=
  [115; 116; 114; 117; 99; 116]%N ++ sp ++ nm ++ sp ++ [123%N] ++ nlb ++ tfields_text_px px fl ++ removelast px ++ [125%N] ++ nlb.

Lemma fmt_tstruct_ok_px px nm fl g tail :
  format_struct (S (fsum fl + S (S g))) false px (mk (res ([idT nm; openT; nlT] ++ tfields_toks fl ++ [closeT]) tail) structT false)
  = POk (tstruct_text_px px nm fl) (mk tail closeT false).
Proof.
  rewrite res_app, fmt_struct_head_px, res_app, fmt_tfields_px.
  replace (tsum fl + S (S g)) with (S (S (tsum fl + g))) by lia. rewrite fmt_close_px.
  unfold tstruct_text_px. rewrite <- !app_assoc. reflexivity.
Qed.

Definition tmfield_text_px (px : bytes) (f : tmfield) : bytes :=
  px ++ tm_ds f ++ sp ++ [45%N; 62%N] ++ sp ++ ty_text (tm_t f) ++ sp ++ tm_n f ++ [59%N; 10%N].
Definition tmfields_text_px (px : bytes) (fl : list tmfield) : bytes := flat_map (tmfield_text_px px) fl.

Lemma fmt_tmfield_px px f g acc tail :
  format_message_loop (S (tfuel (tm_t f) + S g)) px acc (mk (res (tmfield_toks f) tail) nlT false)
  = format_message_loop (tfuel (tm_t f) + g) px (acc ++ tmfield_text_px px f) (mk tail nlT false).
Proof.
  destruct f as [[ds i] [t nm]]. unfold tmfield_toks, tmfield_text_px; unfold tm_ds, tm_i, tm_t, tm_n. cbn [fst snd].
  destruct (ty_toks_ne t) as (c0 & r0 & E0). rewrite E0.
  assert (Et : [numT ds; arrowT] ++ (c0 :: r0) ++ [idT nm; semiT; nlT] = [numT ds; arrowT; c0] ++ (r0 ++ [idT nm]) ++ [semiT; nlT])
    by (cbn [app]; rewrite <- app_assoc; reflexivity).
  rewrite Et; clear Et. rewrite res_app, res_app.
  match goal with |- context [res (r0 ++ ?y) ?x] => set (R := res (r0 ++ y) x) end.
  unfold res at 1. cbn [map app format_message_loop]. mstep.
  subst R.
  pose proof (fmt_type_ok t (S g) (idT nm) (res [semiT; nlT] tail) (semi_not_open nm) c0 r0 E0) as Et. unfold mk in Et. rewrite Et. clear Et.
  unfold res. cbn [map app]. mstep.
  replace (tfuel t + S g) with (S (tfuel t + g)) by lia. cbn [format_message_loop]. mstep.
  f_equal.
Qed.

Lemma fmt_tmfields_px px : forall fl g acc tail,
  format_message_loop (fsum (map snd fl) + g) px acc (mk (res (tmfields_toks fl) tail) nlT false)
  = format_message_loop (tsum (map snd fl) + g) px (acc ++ tmfields_text_px px fl) (mk tail nlT false).
Proof.
  induction fl as [|f fl IH]; intros g acc tail.
  - cbn [map fsum tsum fold_right plus tmfields_toks tmfields_text_px flat_map res app]. now rewrite app_nil_r.
  - cbn [tmfields_toks tmfields_text_px flat_map map fsum tsum fold_right]. fold (tmfields_toks fl). fold (tmfields_text_px px fl).
    fold (fsum (map snd fl)). fold (tsum (map snd fl)). rewrite res_app. change (fst (snd f)) with (tm_t f).
    replace (tfuel (tm_t f) + 2 + fsum (map snd fl) + g) with (S (tfuel (tm_t f) + S (fsum (map snd fl) + g))) by lia.
    rewrite fmt_tmfield_px.
    replace (tfuel (tm_t f) + (fsum (map snd fl) + g)) with (fsum (map snd fl) + (tfuel (tm_t f) + g)) by lia.
    rewrite IH, <- app_assoc. f_equal. lia.
Qed.

Lemma fmt_mclose_px px g acc tail :
  format_message_loop (S (S g)) px acc (mk (res [closeT] tail) nlT false) = POk (acc ++ removelast px ++ [125%N] ++ nlb) (mk tail closeT false).
Proof. unfold res. cbn [map app format_message_loop]. mstep. reflexivity. Qed.

Lemma fmt_message_head_px px g nm tail :
  format_message (S g) px (mk (res [idT nm; openT; nlT] tail) messageT false)
  = format_message_loop g px ((([109; 101; 115; 115; 97; 103; 101]%N ++ sp ++ nm) ++ sp ++ [123%N]) ++ nlb) (mk tail nlT false).
Proof. unfold format_message, res. cbn [map app]. mstep. cbn [format_message_loop]. reflexivity. Qed.

Definition tmessage_text_px (px : bytes) (nm : bytes) (fl : list tmfield) : bytes :=
  [109; 101; 115; 115; 97; 103; 101]%N ++ sp ++ nm ++ sp ++ [123%N] ++ nlb ++ tmfields_text_px px fl ++ removelast px ++ [125%N] ++ nlb.

Lemma fmt_tmessage_ok_px px nm fl g tail :
  format_message (S (fsum (map snd fl) + S (S g))) px (mk (res ([idT nm; openT; nlT] ++ tmfields_toks fl ++ [closeT]) tail) messageT false)
  = POk (tmessage_text_px px nm fl) (mk tail closeT false).
Proof.
  rewrite res_app, fmt_message_head_px, res_app, fmt_tmfields_px.
  replace (tsum (map snd fl) + S (S g)) with (S (S (tsum (map snd fl) + g))) by lia. rewrite fmt_mclose_px.
  unfold tmessage_text_px. rewrite <- !app_assoc. reflexivity.
Qed.

(* ================= the parser on a union ================= *)
Definition unionT : token := {| kind := 13%N; concrete := [117; 110; 105; 111; 110]%N |}.
Inductive ubranch :=
| UBs (ds : bytes) (i : N) (nm : bytes) (fl : list tfield)
| UBm (ds : bytes) (i : N) (nm : bytes) (fl : list tmfield).
Definition ub_i (b : ubranch) : N := match b with UBs _ i _ _ | UBm _ i _ _ => i end.
Definition ub_ds (b : ubranch) : bytes := match b with UBs ds _ _ _ | UBm ds _ _ _ => ds end.
Definition ub_toks (b : ubranch) : list token :=
  match b with
  | UBs ds i nm fl => [numT ds; arrowT; structT] ++ ([idT nm; openT; nlT] ++ tfields_toks fl ++ [closeT]) ++ [nlT]
  | UBm ds i nm fl => [numT ds; arrowT; messageT] ++ ([idT nm; openT; nlT] ++ tmfields_toks fl ++ [closeT]) ++ [nlT]
  end.
Definition ub_fuel (b : ubranch) : nat := match b with UBs _ _ _ fl => fsum fl | UBm _ _ _ fl => fsum (map snd fl) end.
Definition ub_field (b : ubranch) : N * ufield :=
  match b with
  | UBs ds i nm fl => (i, {| u_msg := None; u_struct := Some (tstruct_of nm fl); u_tags := []; u_depmsg := []; u_dep := false |})
  | UBm ds i nm fl => (i, {| u_msg := Some (tmessage_of nm fl); u_struct := None; u_tags := []; u_depmsg := []; u_dep := false |})
  end.
Definition ub_ok1 (b : ubranch) : Prop :=
  parse_uint false 8 (ub_ds b) = Some (ub_i b) /\
  match b with UBs _ _ _ fl => Forall (fun f => ty_keys_ok (fst f)) fl | UBm _ _ _ fl => tmfs_ok [] fl end.
Fixpoint ubs_ok (seen : list N) (bl : list ubranch) : Prop :=
  match bl with
  | [] => True
  | b :: r => ub_ok1 b /\ ~ In (ub_i b) seen /\ ubs_ok (ub_i b :: seen) r
  end.
Lemma ubs_ok_incl : forall bl s1 s2, (forall x, In x s2 -> In x s1) -> ubs_ok s1 bl -> ubs_ok s2 bl.
Proof.
  induction bl as [|b bl IH]; intros s1 s2 Hs H; [exact I|]. cbn [ubs_ok] in *. destruct H as (A & B & C).
  split; [exact A|]. split; [auto|]. apply (IH (ub_i b :: s1)); [|exact C]. intros x [<-|Hx]; [now left|right; auto].
Qed.

(* what may follow a branch: the next index or the closing brace - not a newline, not a comment *)
Definition after_ok (nx : token) : Prop :=
  N.eqb (kind nx) kNewline = false /\ N.eqb (kind nx) kLineC = false /\ N.eqb (kind nx) kBlockC = false.

Ltac ustep1 :=
  cbv beta iota zeta delta [bind p_next p_haserr p_kind p_tok p_unnext ret fail kin existsb expect_any_of_next expect_next opt_newline conc next_cat
                            mk kept keep rs cur perrs];
  cbn [N.eqb Pos.eqb orb andb negb kind concrete kIdent kOpenSq kCloseSq kComma kSemi kNewline kCloseCu kOpenCu kLineC kBlockC kInt kArrow
       arrayT mapT osqT csqT commaT idT semiT nlT closeT numT arrowT structT messageT unionT openT].
Ltac ustep := repeat progress ustep1.

Lemma skip_eol_peek G nx rs c : G <> 0 -> N.eqb (kind nx) kLineC = false -> N.eqb (kind nx) kBlockC = false ->
  skip_eol_comments G (mk (NT nx [] :: rs) c false) = POk tt (kept nx rs).
Proof. intros HG H1 H2. destruct G as [|G]; [congruence|]. cbn [skip_eol_comments]. ustep. rewrite H1, H2. reflexivity. Qed.

Lemma read_tstruct_ok' G nm fl g tail c : G = fsum fl + S (S g) -> Forall (fun f => ty_keys_ok (fst f)) fl ->
  read_struct G (mk (res ([idT nm; openT; nlT] ++ tfields_toks fl ++ [closeT]) tail) c false) = POk (tstruct_of nm fl) (mk tail closeT false).
Proof. intros ->. apply read_tstruct_ok. Qed.
Lemma read_tmessage_ok' G nm fl g tail c : G = fsum (map snd fl) + S (S g) -> tmfs_ok [] fl ->
  read_message G (mk (res ([idT nm; openT; nlT] ++ tmfields_toks fl ++ [closeT]) tail) c false) = POk (tmessage_of nm fl) (mk tail closeT false).
Proof. intros ->. apply read_tmessage_ok. Qed.

Arguments parse_uint : simpl never.
Arguments has_idx : simpl never.

(* one member: its tokens end with the newline after its close curly, which the advance "past the curly" reads - the line is
   over, nothing is skipped, and what follows is read as the next line *)
Lemma union_loop_branch b G g fs tail :
  G = ub_fuel b + S (S g) -> ub_ok1 b -> has_idx (ub_i b) fs = false ->
  read_union_loop (S G) fs [] [] [] false (mk (res (ub_toks b) tail) nlT false)
  = read_union_loop G (fs ++ [ub_field b]) [] [] [] false (mk tail nlT false).
Proof.
  intros HG [Hp Hf] Hi.
  destruct b as [ds i nm fl|ds i nm fl]; cbn [ub_toks ub_fuel ub_field ub_i ub_ds] in *.
  - rewrite res_app, (res_app ([idT nm; openT; nlT] ++ tfields_toks fl ++ [closeT])).
    match goal with |- context [res ([idT nm; openT; nlT] ++ ?y) ?x] => set (R := res ([idT nm; openT; nlT] ++ y) x) end.
    unfold res at 1. cbn [map app read_union_loop]. ustep. rewrite Hp. cbv beta iota. rewrite Hi. ustep.
    subst R. pose proof (read_tstruct_ok' G nm fl g (res [nlT] tail) structT HG Hf) as Er. unfold mk in Er. rewrite Er. clear Er. unfold res. cbn [map app]. ustep.
    reflexivity.
  - rewrite res_app, (res_app ([idT nm; openT; nlT] ++ tmfields_toks fl ++ [closeT])).
    match goal with |- context [res ([idT nm; openT; nlT] ++ ?y) ?x] => set (R := res ([idT nm; openT; nlT] ++ y) x) end.
    unfold res at 1. cbn [map app read_union_loop]. ustep. rewrite Hp. cbv beta iota. rewrite Hi. ustep.
    subst R. pose proof (read_tmessage_ok' G nm fl g (res [nlT] tail) messageT HG Hf) as Er. unfold mk in Er. rewrite Er. clear Er. unfold res. cbn [map app]. ustep.
    reflexivity.
Qed.

(* the closing brace of the union, on its own line *)
Lemma union_loop_close G fs tail : read_union_loop (S (S G)) fs [] [] [] false (mk (res [closeT] tail) nlT false) = POk fs (mk tail closeT false).
Proof. unfold res. cbn [map app read_union_loop]. ustep. cbn [read_union_loop]. ustep. reflexivity. Qed.

Definition ubs_toks (bl : list ubranch) : list token := flat_map ub_toks bl.
Definition usum (bl : list ubranch) : nat := fold_right (fun b acc => ub_fuel b + 3 + acc) 0 bl.

(* all the members, from "at a newline" to the closing brace *)
Lemma union_loop_branches : forall bl g fs tail, ubs_ok (map fst fs) bl ->
  read_union_loop (usum bl + S (S g)) fs [] [] [] false (mk (res (ubs_toks bl ++ [closeT]) tail) nlT false)
  = POk (fs ++ map ub_field bl) (mk tail closeT false).
Proof.
  induction bl as [|b bl IH]; intros g fs tail Hok.
  - cbn [ubs_toks flat_map usum fold_right map app plus]. rewrite app_nil_r. apply union_loop_close.
  - cbn [ubs_ok] in Hok. destruct Hok as (H1 & Hn & Hr).
    cbn [ubs_toks flat_map usum fold_right map]. fold (ubs_toks bl). fold (usum bl).
    assert (Hr' : ubs_ok (map fst (fs ++ [ub_field b])) bl).
    { rewrite map_app. cbn [map]. replace (fst (ub_field b)) with (ub_i b) by (destruct b; reflexivity).
      apply (ubs_ok_incl bl (ub_i b :: map fst fs)); [|exact Hr]. intros x Hx. apply in_app_or in Hx. destruct Hx as [Hx|[<-|[]]]; [now right|now left]. }
    replace (ub_fuel b + 3 + usum bl + S (S g)) with (S (ub_fuel b + S (S (usum bl + S (S g))))) by lia.
    rewrite <- app_assoc, res_app.
    rewrite (union_loop_branch b _ (usum bl + S (S g)) fs _ eq_refl H1 (has_idx_false _ _ Hn)).
    replace (ub_fuel b + S (S (usum bl + S (S g)))) with (usum bl + S (S (ub_fuel b + S (S g)))) by lia.
    rewrite (IH _ _ _ Hr'). cbn [map]. rewrite <- app_assoc. reflexivity.
Qed.

Definition union_toks (nm : bytes) (bl : list ubranch) : list token := [unionT; idT nm; openT; nlT] ++ ubs_toks bl ++ [closeT; nlT].
Definition union_of (nm : bytes) (bl : list ubranch) : union_ := {| un_name := nm; un_comment := []; un_fields := map ub_field bl; un_opcode := 0 |}.

Lemma read_union_head g nm tail c :
  read_union g (mk (res [idT nm; openT; nlT] tail) c false)
  = bind (read_union_loop g [] [] [] [] false)
         (fun fs => ret {| un_name := nm; un_comment := []; un_fields := fs; un_opcode := 0 |}) (mk tail nlT false).
Proof. unfold read_union, res. cbn [map app]. ustep. reflexivity. Qed.

Lemma read_union_ok nm bl g tail c : ubs_ok [] bl -> bl <> [] ->
  read_union (usum bl + S (S g)) (mk (res ([idT nm; openT; nlT] ++ ubs_toks bl ++ [closeT]) tail) c false)
  = POk (union_of nm bl) (mk tail closeT false).
Proof.
  intros Hok _. rewrite res_app, read_union_head. unfold bind. rewrite (union_loop_branches bl g [] tail Hok). reflexivity.
Qed.

Definition add_union (f : file) (u : union_) : file :=
  {| structs := structs f; messages := messages f; enums := enums f; unions := unions f ++ [u]; consts := consts f;
     imports := imports f; gopackage := gopackage f |}.

Lemma top_union_head F f tail c :
  top_loop (S F) f [] 0%N false false (mk (res [unionT] tail) c false)
  = bind (read_union F)
         (fun u => top_loop F (add_union f {| un_name := un_name u; un_comment := []; un_fields := un_fields u; un_opcode := 0 |}) [] 0%N false false)
         (mk tail unionT false).
Proof.
  cbn [top_loop]. unfold res, mk. cbn [map app].
  unfold bind at 1. unfold p_next at 1. cbn [keep rs cur perrs negb].
  unfold bind at 1. unfold p_tok at 1. cbn [cur kind unionT].
  cbn [N.eqb Pos.eqb kNewline kBlockC kLineC kOpenSq andb orb negb]. reflexivity.
Qed.

Lemma top_union nm bl g f tail c : ubs_ok [] bl -> bl <> [] ->
  top_loop (S (usum bl + S (S (S g)))) f [] 0%N false false (mk (res (union_toks nm bl) tail) c false)
  = top_loop (usum bl + S (S g)) (add_union f (union_of nm bl)) [] 0%N false false (mk tail nlT false).
Proof.
  intros Hok Hne. unfold union_toks.
  change ([unionT; idT nm; openT; nlT] ++ ubs_toks bl ++ [closeT; nlT])
    with ([unionT] ++ ([idT nm; openT; nlT] ++ ubs_toks bl ++ [closeT] ++ [nlT])).
  rewrite res_app, top_union_head. unfold bind.
  replace ([idT nm; openT; nlT] ++ ubs_toks bl ++ [closeT] ++ [nlT])
    with (([idT nm; openT; nlT] ++ ubs_toks bl ++ [closeT]) ++ [nlT]) by (rewrite <- !app_assoc; reflexivity).
  rewrite res_app.
  rewrite (read_union_ok nm bl (S g) _ _ Hok Hne). cbn [un_name un_fields union_of].
  replace (usum bl + S (S (S g))) with (S (usum bl + S (S g))) by lia. rewrite top_newline. reflexivity.
Qed.

(* ================= the formatter on a union ================= *)
Definition ub_text (b : ubranch) : bytes :=
  match b with
  | UBs ds i nm fl => tab ++ ds ++ sp ++ [45%N; 62%N] ++ sp ++ tstruct_text_px (tab ++ tab) nm fl
  | UBm ds i nm fl => tab ++ ds ++ sp ++ [45%N; 62%N] ++ sp ++ tmessage_text_px (tab ++ tab) nm fl
  end.
Definition ubs_text (bl : list ubranch) : bytes := flat_map ub_text bl.

Lemma fmt_ubranch b G g acc tail c :
  G = S (ub_fuel b + S (S g)) ->
  format_union_loop (S G) tab acc (mk (res (ub_toks b) tail) c false)
  = format_union_loop (ub_fuel b + S (S g)) tab (acc ++ ub_text b) (mk tail nlT false).
Proof.
  intros HG. destruct b as [ds i nm fl|ds i nm fl]; cbn [ub_toks ub_fuel ub_text] in *.
  - rewrite res_app, (res_app ([idT nm; openT; nlT] ++ tfields_toks fl ++ [closeT])).
    match goal with |- context [res ([idT nm; openT; nlT] ++ ?y) ?x] => set (R := res ([idT nm; openT; nlT] ++ y) x) end.
    unfold res at 1. cbn [map app format_union_loop]. ustep. subst R. subst G.
    pose proof (fmt_tstruct_ok_px (tab ++ tab) nm fl g (res [nlT] tail)) as Ef. unfold mk in Ef. rewrite Ef. clear Ef.
    unfold res. cbn [map app format_union_loop]. ustep. f_equal. rewrite <- !app_assoc. reflexivity.
  - rewrite res_app, (res_app ([idT nm; openT; nlT] ++ tmfields_toks fl ++ [closeT])).
    match goal with |- context [res ([idT nm; openT; nlT] ++ ?y) ?x] => set (R := res ([idT nm; openT; nlT] ++ y) x) end.
    unfold res at 1. cbn [map app format_union_loop]. ustep. subst R. subst G.
    pose proof (fmt_tmessage_ok_px (tab ++ tab) nm fl g (res [nlT] tail)) as Ef. unfold mk in Ef.
    match goal with |- match ?X with _ => _ end = _ =>
      replace X with (POk (tmessage_text_px (tab ++ tab) nm fl) {| rs := res [nlT] tail; cur := closeT; keep := false; perrs := [] |}) by (symmetry; exact Ef) end.
    clear Ef.
    unfold res. cbn [map app format_union_loop]. ustep. f_equal. rewrite <- !app_assoc. reflexivity.
Qed.

Definition ufsum (bl : list ubranch) : nat := fold_right (fun b acc => ub_fuel b + 4 + acc) 0 bl.

Definition ursum (bl : list ubranch) : nat := fold_right (fun b acc => ub_fuel b + 2 + acc) 0 bl.
Lemma fmt_ubranches : forall bl g acc tail c,
  format_union_loop (ufsum bl + g) tab acc (mk (res (ubs_toks bl) tail) c false)
  = format_union_loop (ursum bl + g) tab (acc ++ ubs_text bl) (mk tail (match bl with [] => c | _ => nlT end) false).
Proof.
  induction bl as [|b bl IH]; intros g acc tail c.
  - cbn [ufsum ursum fold_right plus ubs_toks ubs_text flat_map res map app]. now rewrite app_nil_r.
  - cbn [ubs_toks ubs_text flat_map ufsum ursum fold_right]. fold (ubs_toks bl). fold (ubs_text bl). fold (ufsum bl). fold (ursum bl). rewrite res_app.
    replace (ub_fuel b + 4 + ufsum bl + g) with (S (S (ub_fuel b + S (S (ufsum bl + g))))) by lia.
    rewrite (fmt_ubranch b _ (ufsum bl + g) acc _ c eq_refl).
    replace (ub_fuel b + S (S (ufsum bl + g))) with (ufsum bl + (ub_fuel b + S (S g))) by lia.
    rewrite IH, <- app_assoc. replace (ursum bl + (ub_fuel b + S (S g))) with (ub_fuel b + 2 + ursum bl + g) by lia. destruct bl; reflexivity.
Qed.

Lemma fmt_uclose g acc tail :
  format_union_loop (S g) tab acc (mk (res [closeT] tail) nlT false) = POk (acc ++ [125%N] ++ nlb) (mk tail closeT false).
Proof. unfold res. cbn [map app format_union_loop]. ustep. reflexivity. Qed.

Definition union_text (nm : bytes) (bl : list ubranch) : bytes :=
  [117; 110; 105; 111; 110]%N ++ sp ++ nm ++ sp ++ [123%N] ++ nlb ++ ubs_text bl ++ [125%N] ++ nlb.

Lemma fmt_union_head g nm tail :
  format_union (S g) tab (mk (res [idT nm; openT; nlT] tail) unionT false)
  = format_union_loop g tab ((([117; 110; 105; 111; 110]%N ++ sp ++ nm) ++ sp ++ [123%N]) ++ nlb) (mk tail nlT false).
Proof. unfold format_union, res. cbn [map app]. ustep. cbn [format_union_loop]. ustep. reflexivity. Qed.

Lemma fmt_union_ok nm bl g tail : bl <> [] ->
  format_union (S (ufsum bl + S g)) tab (mk (res ([idT nm; openT; nlT] ++ ubs_toks bl ++ [closeT]) tail) unionT false)
  = POk (union_text nm bl) (mk tail closeT false).
Proof.
  intros Hne. rewrite res_app, fmt_union_head, res_app, fmt_ubranches. destruct bl as [|b bl]; [congruence|].
  replace (ursum (b :: bl) + S g) with (S (ursum (b :: bl) + g)) by lia. rewrite fmt_uclose. unfold union_text. rewrite <- !app_assoc. reflexivity.
Qed.

Lemma fmt_top_union_head F out nl tail c :
  format_loop (S F) out false nl (mk (res [unionT] tail) c false)
  = bind (format_union F tab) (fun s => format_loop F ((if nl then out ++ nlb else out) ++ s) false true) (mk tail unionT false).
Proof.
  cbn [format_loop]. unfold res, mk. cbn [map app].
  unfold bind at 1. unfold p_next at 1. cbn [keep rs cur perrs negb].
  unfold bind at 1. unfold p_tok at 1. cbn [cur kind unionT].
  cbn [N.eqb Pos.eqb kOpenSq kLineC kBlockC andb orb negb]. reflexivity.
Qed.

Lemma fmt_top_union nm bl g out nl tail c : bl <> [] ->
  format_loop (S (S (ufsum bl + S (S g)))) out false nl (mk (res (union_toks nm bl) tail) c false)
  = format_loop (ufsum bl + S (S g)) ((if nl then out ++ nlb else out) ++ union_text nm bl) false true (mk tail nlT false).
Proof.
  intros Hne. unfold union_toks.
  change ([unionT; idT nm; openT; nlT] ++ ubs_toks bl ++ [closeT; nlT])
    with ([unionT] ++ ([idT nm; openT; nlT] ++ ubs_toks bl ++ [closeT] ++ [nlT])).
  rewrite res_app, fmt_top_union_head. unfold bind.
  replace ([idT nm; openT; nlT] ++ ubs_toks bl ++ [closeT] ++ [nlT])
    with (([idT nm; openT; nlT] ++ ubs_toks bl ++ [closeT]) ++ [nlT]) by (rewrite <- !app_assoc; reflexivity).
  rewrite res_app, (fmt_union_ok nm bl (S g) _ Hne).
  rewrite fmt_top_newline. reflexivity.
Qed.
