(* Doc comments on MESSAGE fields in the inversion theorems: a field preceded by `//` comment lines (its comment, and its tags
   where a line is a tag) and then, optionally, by a [deprecated("reason")] line.  Format writes all of it back unchanged. *)
From Coq Require Import List NArith ZArith Bool Arith Lia.
Require Import Bebop.front.Tok Bebop.front.Parse Bebop.front.Fmt Bebop.front.TokInv Bebop.front.LexInv Bebop.front.ParseInv Bebop.front.FmtInv Bebop.front.MsgInv.
Require Import Bebop.front.GenInv Bebop.front.Items Bebop.front.TyInv Bebop.front.TyMsg Bebop.front.TyItems Bebop.front.TyUnion Bebop.front.TyUnionItem Bebop.front.TyOpcode Bebop.front.TyEnum Bebop.front.TyDep Bebop.front.TyDoc Bebop.front.TyFDoc.
Import ListNotations.

Arguments parse_uint : simpl never.
Arguments has_idx : simpl never.

(* comment lines, then the (possibly deprecated) field; component types written out (aliases get in the way of lia) *)
Definition cmfield := (list bytes * (option bytes * (bytes * N * (tyx * bytes))))%type.
Definition cm_d (f : cmfield) : dfield := snd f.
Definition cmfield_toks (f : cmfield) : list token := doc_toks (fst f) ++ dfield_toks (snd f).
Definition cmfields_toks (fl : list cmfield) : list token := flat_map cmfield_toks fl.
Definition cmfield_of (f : cmfield) : N * field :=
  (tm_i (snd (snd f)),
   {| f_type := ft_of (tm_t (snd (snd f))); f_name := tm_n (snd (snd f)); f_comment := join_nl (fst f); f_tags := tags_of (fst f);
      f_depmsg := dmsg (snd f); f_dep := ddep (snd f) |}).

Ltac xstep1 :=
  cbv beta iota zeta delta [bind p_next p_haserr p_kind p_tok p_unnext ret fail kin existsb expect_any_of_next expect_next skip_eol_comments opt_newline read_deprecated conc next_cat deprecated_line
                            mk kept keep rs cur perrs];
  cbn [N.eqb Pos.eqb orb andb negb kind concrete kIdent kOpenSq kCloseSq kComma kSemi kNewline kCloseCu kOpenCu kLineC kBlockC kInt kArrow kString kOpenPar kClosePar
       arrayT mapT osqT csqT commaT idT semiT nlT closeT numT arrowT oparT cparT depT strT lcT].
Ltac xstep := repeat progress xstep1.

Lemma ml_doc body g fs cm tags dm dep tail c : cbody_ok body -> N.eqb (kind c) kCloseCu = false ->
  read_message_loop (S g) fs cm tags dm dep (mk (res [lcT body] tail) c false)
  = read_message_loop g fs (cm ++ [body]) (add_tag tags body) dm dep (mk tail (lcT body) false).
Proof.
  intros H Hc. unfold res. cbn [map app read_message_loop]. xstep. rewrite Hc. xstep.
  change {| kind := 32; concrete := 47%N :: 47%N :: body ++ [10%N] |} with (lcT body). rewrite (sanitize_lc body H). reflexivity.
Qed.
Lemma ml_docs : forall cs g fs cm tags tail c, Forall cbody_ok cs -> N.eqb (kind c) kCloseCu = false ->
  exists c', N.eqb (kind c') kCloseCu = false /\
    read_message_loop (length cs + g) fs cm tags [] false (mk (res (doc_toks cs) tail) c false)
    = read_message_loop g fs (cm ++ cs) (fold_left add_tag cs tags) [] false (mk tail c' false).
Proof.
  induction cs as [|b cs IH]; intros g fs cm tags tail c H Hc.
  - exists c. split; [exact Hc|]. cbn [length plus doc_toks map res app fold_left]. now rewrite app_nil_r.
  - inversion H as [|? ? Hb Hr]; subst. cbn [length plus doc_toks map fold_left]. change (lcT b :: map lcT cs) with ([lcT b] ++ doc_toks cs).
    rewrite res_app, (ml_doc b _ fs cm tags [] false _ c Hb Hc). destruct (IH g fs (cm ++ [b]) (add_tag tags b) tail (lcT b) Hr eq_refl) as (c' & Hc' & E).
    exists c'. split; [exact Hc'|]. rewrite E, <- app_assoc. reflexivity.
Qed.
(* the attribute line, with comment lines pending *)
Lemma ml_dep body G fs cm tags tail c : Forall (fun x => dplain x = true) body -> N.eqb (kind c) kCloseCu = false ->
  read_message_loop (S G) fs cm tags [] false (mk (res (dep_toks body) tail) c false)
  = read_message_loop G fs cm tags body true (mk tail nlT false).
Proof.
  intros Hb Hc. unfold dep_toks, res. cbn [map app read_message_loop]. xstep. rewrite Hc. xstep.
  change (34%N :: body ++ [34%N]) with (concrete (strT body)). rewrite (unquote_str body Hb). reflexivity.
Qed.
(* the field itself, under whatever is pending *)
Lemma ml_tfield_gen f g fs cm tags dm dep tail c :
  parse_uint false 8 (tm_ds f) = Some (tm_i f) -> tm_i f <> 0%N -> has_idx (tm_i f) fs = false -> ty_keys_ok (tm_t f) -> N.eqb (kind c) kCloseCu = false ->
  read_message_loop (S (tfuel (tm_t f) + S g)) fs cm tags dm dep (mk (res (tmfield_toks f) tail) c false)
  = read_message_loop (tfuel (tm_t f) + g)
      (fs ++ [(tm_i f, {| f_type := ft_of (tm_t f); f_name := tm_n f; f_comment := join_nl cm; f_tags := tags; f_depmsg := dm; f_dep := dep |})]) [] [] [] false (mk tail nlT false).
Proof.
  destruct f as [[ds i] [t nm]]. unfold tmfield_toks; unfold tm_ds, tm_i, tm_t, tm_n. cbn [fst snd].
  intros Hp Hz Hi Hok Hc. apply N.eqb_neq in Hz.
  replace (ty_toks t ++ [idT nm; semiT; nlT]) with ((ty_toks t ++ [idT nm]) ++ [semiT; nlT]) by (rewrite <- app_assoc; reflexivity).
  rewrite res_app, res_app.
  match goal with |- context [res (ty_toks t ++ ?y) ?x] => set (R := res (ty_toks t ++ y) x) end.
  unfold res at 1. cbn [map app read_message_loop]. mstep. rewrite Hc. mstep. rewrite Hp. cbv beta iota. rewrite Hz, Hi. mstep.
  subst R.
  pose proof (read_type_ok t Hok (S g) (idT nm) (res [semiT; nlT] tail) arrowT (semi_not_open nm)) as Et. unfold mk in Et. rewrite Et. clear Et.
  unfold res. cbn [map app]. mstep.
  replace (tfuel t + S g) with (S (tfuel t + g)) by lia. cbn [read_message_loop]. mstep. reflexivity.
Qed.

Definition cmfuel (f : cmfield) : nat := length (fst f) + dfuel (snd f).
Lemma ml_cmfield f g fs tail c :
  parse_uint false 8 (tm_ds (snd (snd f))) = Some (tm_i (snd (snd f))) -> tm_i (snd (snd f)) <> 0%N -> has_idx (tm_i (snd (snd f))) fs = false ->
  ty_keys_ok (tm_t (snd (snd f))) -> dfield_ok (snd f) -> Forall cbody_ok (fst f) -> N.eqb (kind c) kCloseCu = false ->
  read_message_loop (cmfuel f + g) fs [] [] [] false (mk (res (cmfield_toks f) tail) c false)
  = read_message_loop (tfuel (tm_t (snd (snd f))) + g) (fs ++ [cmfield_of f]) [] [] [] false (mk tail nlT false).
Proof.
  destruct f as [cs d]. unfold cmfuel, cmfield_toks, cmfield_of. cbn [fst snd]. intros Hp Hz Hi Hk Hd Hcs Hc. rewrite res_app, <- Nat.add_assoc.
  destruct (ml_docs cs (dfuel d + g) fs [] [] (res (dfield_toks d) tail) c Hcs Hc) as (c' & Hc' & E). rewrite E. cbn [app]. clear E.
  destruct d as [[b|] f0]; unfold dfuel, dfield_toks, dfield_ok, dmsg, ddep, tags_of in *; cbn [fst snd] in *.
  - rewrite res_app. replace (tfuel (tm_t f0) + 2 + 1 + g) with (S (S (tfuel (tm_t f0) + S g))) by lia.
    rewrite (ml_dep b _ fs cs _ _ c' Hd Hc'). apply ml_tfield_gen; try assumption. reflexivity.
  - cbn [app]. replace (tfuel (tm_t f0) + 2 + 0 + g) with (S (tfuel (tm_t f0) + S g)) by lia. apply ml_tfield_gen; assumption.
Qed.

Fixpoint cmfs_ok (seen : list N) (fl : list cmfield) : Prop :=
  match fl with
  | [] => True
  | f :: r => parse_uint false 8 (tm_ds (snd (snd f))) = Some (tm_i (snd (snd f))) /\ tm_i (snd (snd f)) <> 0%N /\ ~ In (tm_i (snd (snd f))) seen /\
              ty_keys_ok (tm_t (snd (snd f))) /\ dfield_ok (snd f) /\ Forall cbody_ok (fst f) /\ cmfs_ok (tm_i (snd (snd f)) :: seen) r
  end.
Lemma cmfs_ok_incl : forall fl s1 s2, (forall x, In x s2 -> In x s1) -> cmfs_ok s1 fl -> cmfs_ok s2 fl.
Proof.
  induction fl as [|f fl IH]; intros s1 s2 Hs H; [exact I|]. cbn [cmfs_ok] in *. destruct H as (A & B & C & D & E & F & G).
  split; [exact A|]. split; [exact B|]. split; [auto|]. split; [exact D|]. split; [exact E|]. split; [exact F|].
  apply (IH (tm_i (snd (snd f)) :: s1)); [|exact G]. intros x [<-|Hx]; [now left|right; auto].
Qed.
Definition cmsum (fl : list cmfield) : nat := fold_right (fun f acc => cmfuel f + acc) 0 fl.
Definition cmtsum (fl : list cmfield) : nat := fold_right (fun f acc => tfuel (tm_t (snd (snd f))) + acc) 0 fl.
Lemma ml_cmfields : forall fl g fs tail, cmfs_ok (map fst fs) fl ->
  read_message_loop (cmsum fl + g) fs [] [] [] false (mk (res (cmfields_toks fl) tail) nlT false)
  = read_message_loop (cmtsum fl + g) (fs ++ map cmfield_of fl) [] [] [] false (mk tail nlT false).
Proof.
  induction fl as [|f fl IH]; intros g fs tail Hok.
  - cbn [map cmsum cmtsum fold_right plus cmfields_toks flat_map res app]. now rewrite app_nil_r.
  - cbn [cmfs_ok] in Hok. destruct Hok as (Hp & Hz & Hn & Hk & Hd & Hcs & Hr).
    cbn [cmfields_toks flat_map map cmsum cmtsum fold_right]. fold (cmfields_toks fl). fold (cmsum fl). fold (cmtsum fl). rewrite res_app.
    rewrite <- Nat.add_assoc.
    rewrite (ml_cmfield f _ fs _ nlT Hp Hz (has_idx_false _ _ Hn) Hk Hd Hcs eq_refl).
    rewrite (Nat.add_comm (tfuel _)), <- Nat.add_assoc, (Nat.add_comm g).
    rewrite IH.
    + rewrite <- app_assoc. f_equal. lia.
    + rewrite map_app. cbn [map cmfield_of fst].
      apply (cmfs_ok_incl fl (tm_i (snd (snd f)) :: map fst fs)); [|exact Hr]. intros x Hx. apply in_app_or in Hx. destruct Hx as [Hx|[<-|[]]]; [now right|now left].
Qed.

Definition cmessage_toks (nm : bytes) (fl : list cmfield) : list token := [messageT; idT nm; openT; nlT] ++ cmfields_toks fl ++ [closeT; nlT].
Definition cmessage_of (nm : bytes) (fl : list cmfield) : message := {| m_name := nm; m_comment := []; m_fields := map cmfield_of fl; m_opcode := 0 |}.
Lemma read_cmessage_ok nm fl g tail c : cmfs_ok [] fl ->
  read_message (cmsum fl + S (S g)) (mk (res ([idT nm; openT; nlT] ++ cmfields_toks fl ++ [closeT]) tail) c false)
  = POk (cmessage_of nm fl) (mk tail closeT false).
Proof.
  intros Hok. rewrite res_app, read_message_head. unfold bind. rewrite res_app, (ml_cmfields fl _ [] _ Hok).
  replace (cmtsum fl + S (S g)) with (S (S (cmtsum fl + g))) by lia. rewrite msg_loop_close. reflexivity.
Qed.
Lemma top_cmmessage nm fl g f tail c : cmfs_ok [] fl ->
  top_loop (S (cmsum fl + S (S g))) f [] 0%N false false (mk (res (cmessage_toks nm fl) tail) c false)
  = top_loop (cmsum fl + S g) (add_message f (cmessage_of nm fl)) [] 0%N false false (mk tail nlT false).
Proof.
  intros Hok. unfold cmessage_toks.
  change ([messageT; idT nm; openT; nlT] ++ cmfields_toks fl ++ [closeT; nlT])
    with ([messageT] ++ ([idT nm; openT; nlT] ++ cmfields_toks fl ++ [closeT] ++ [nlT])).
  rewrite res_app, top_message_head. unfold bind.
  replace ([idT nm; openT; nlT] ++ cmfields_toks fl ++ [closeT] ++ [nlT])
    with (([idT nm; openT; nlT] ++ cmfields_toks fl ++ [closeT]) ++ [nlT]) by (rewrite <- !app_assoc; reflexivity).
  rewrite res_app, (read_cmessage_ok nm fl g _ _ Hok). cbn [m_name m_fields cmessage_of].
  replace (cmsum fl + S (S g)) with (S (cmsum fl + S g)) by lia.
  rewrite top_newline. reflexivity.
Qed.

(* ---------- the formatter ---------- *)
Definition cmfield_text (f : cmfield) : bytes := fdocs_text (fst f) ++ dfield_text (snd f).
Definition cmfields_text (fl : list cmfield) : bytes := flat_map cmfield_text fl.

Lemma fml_doc body g acc tail c :
  format_message_loop (S g) tab acc (mk (res [lcT body] tail) c false)
  = format_message_loop g tab (acc ++ tab ++ 47%N :: 47%N :: body ++ [10%N]) (mk tail (lcT body) false).
Proof. unfold res. cbn [map app format_message_loop]. mstep. cbn [lcT kind concrete N.eqb Pos.eqb]. reflexivity. Qed.
Lemma fml_docs : forall cs g acc tail c,
  exists c', format_message_loop (length cs + g) tab acc (mk (res (doc_toks cs) tail) c false)
           = format_message_loop g tab (acc ++ fdocs_text cs) (mk tail c' false).
Proof.
  induction cs as [|b cs IH]; intros g acc tail c.
  - exists c. cbn [length plus doc_toks map res app fdocs_text flat_map]. now rewrite app_nil_r.
  - cbn [length plus doc_toks map fdocs_text flat_map]. change (lcT b :: map lcT cs) with ([lcT b] ++ doc_toks cs). rewrite res_app, fml_doc.
    destruct (IH g (acc ++ tab ++ 47%N :: 47%N :: b ++ [10%N]) tail (lcT b)) as [c' E]. exists c'. rewrite E. fold (fdocs_text cs).
    rewrite <- !app_assoc. reflexivity.
Qed.
Lemma fml_dep_line body G acc tail c :
  format_message_loop (S (S G)) tab acc (mk (res (dep_toks body) tail) c false)
  = format_message_loop G tab (acc ++ dep_text body) (mk tail nlT false).
Proof.
  unfold dep_toks, res. cbn [map app format_message_loop]. xstep. f_equal. unfold dep_text. repeat (rewrite <- app_assoc || rewrite <- app_comm_cons). reflexivity.
Qed.
Lemma fml_tmfield f g acc tail c :
  format_message_loop (S (tfuel (tm_t f) + S g)) tab acc (mk (res (tmfield_toks f) tail) c false)
  = format_message_loop (tfuel (tm_t f) + g) tab (acc ++ tmfield_text f) (mk tail nlT false).
Proof.
  destruct f as [[ds i] [t nm]]. unfold tmfield_toks, tmfield_text; unfold tm_ds, tm_i, tm_t, tm_n. cbn [fst snd].
  destruct (ty_toks_ne t) as (c0 & r0 & E0). rewrite E0.
  assert (Et : [numT ds; arrowT] ++ (c0 :: r0) ++ [idT nm; semiT; nlT] = [numT ds; arrowT; c0] ++ (r0 ++ [idT nm]) ++ [semiT; nlT])
    by (cbn [app]; rewrite <- app_assoc; reflexivity).
  rewrite Et; clear Et. rewrite res_app, res_app.
  match goal with |- context [res (r0 ++ ?y) ?x] => set (R := res (r0 ++ y) x) end.
  unfold res at 1. cbn [map app format_message_loop]. mstep.
  subst R.
  pose proof (fmt_type_ok t (S g) (idT nm) (res [semiT; nlT] tail) (semi_not_open nm) c0 r0 E0) as Et. unfold mk in Et. rewrite Et. clear Et.
  unfold res. cbn [map app]. mstep.
  replace (tfuel t + S g) with (S (tfuel t + g)) by lia. cbn [format_message_loop]. mstep.
  f_equal.
Qed.
Definition cmffuel (f : cmfield) : nat := length (fst f) + dffuel (snd f).
Lemma fmt_cmfield f g acc tail c :
  format_message_loop (cmffuel f + g) tab acc (mk (res (cmfield_toks f) tail) c false)
  = format_message_loop (tfuel (tm_t (snd (snd f))) + g) tab (acc ++ cmfield_text f) (mk tail nlT false).
Proof.
  destruct f as [cs d]. unfold cmffuel, cmfield_toks, cmfield_text. cbn [fst snd]. rewrite res_app, <- Nat.add_assoc.
  destruct (fml_docs cs (dffuel d + g) acc (res (dfield_toks d) tail) c) as [c' E]. rewrite E. clear E.
  destruct d as [[b|] f0]; unfold dffuel, dfield_toks, dfield_text, ddep; cbn [fst snd].
  - rewrite res_app. replace (tfuel (tm_t f0) + 2 + 2 + g) with (S (S (S (tfuel (tm_t f0) + S g)))) by lia.
    rewrite fml_dep_line, fml_tmfield, <- !app_assoc. reflexivity.
  - cbn [app]. replace (tfuel (tm_t f0) + 2 + 0 + g) with (S (tfuel (tm_t f0) + S g)) by lia. rewrite fml_tmfield, <- !app_assoc. reflexivity.
Qed.
Definition cmfsum (fl : list cmfield) : nat := fold_right (fun f acc => cmffuel f + acc) 0 fl.
Lemma fmt_cmfields : forall fl g acc tail,
  format_message_loop (cmfsum fl + g) tab acc (mk (res (cmfields_toks fl) tail) nlT false)
  = format_message_loop (cmtsum fl + g) tab (acc ++ cmfields_text fl) (mk tail nlT false).
Proof.
  induction fl as [|f fl IH]; intros g acc tail.
  - cbn [cmfsum cmtsum fold_right plus cmfields_toks cmfields_text flat_map res map app]. now rewrite app_nil_r.
  - cbn [cmfields_toks cmfields_text flat_map cmfsum cmtsum fold_right]. fold (cmfields_toks fl). fold (cmfields_text fl). fold (cmfsum fl). fold (cmtsum fl).
    rewrite res_app, <- Nat.add_assoc, fmt_cmfield.
    rewrite (Nat.add_comm (tfuel _)), <- Nat.add_assoc, (Nat.add_comm g).
    rewrite IH, <- app_assoc. f_equal. rewrite Nat.add_assoc, (Nat.add_comm (cmtsum fl)). reflexivity.
Qed.
Definition cmessage_text (nm : bytes) (fl : list cmfield) : bytes :=
  [109; 101; 115; 115; 97; 103; 101]%N ++ sp ++ nm ++ sp ++ [123%N] ++ nlb ++ cmfields_text fl ++ [125%N] ++ nlb.
Lemma fmt_cmessage_ok nm fl g tail :
  format_message (S (cmfsum fl + S (S g))) tab (mk (res ([idT nm; openT; nlT] ++ cmfields_toks fl ++ [closeT]) tail) messageT false)
  = POk (cmessage_text nm fl) (mk tail closeT false).
Proof.
  rewrite res_app, fmt_message_head, res_app, fmt_cmfields.
  replace (cmtsum fl + S (S g)) with (S (S (cmtsum fl + g))) by lia. rewrite fmt_mclose.
  unfold cmessage_text. rewrite <- !app_assoc. reflexivity.
Qed.
Lemma fmt_top_cmessage nm fl g out nl tail c :
  format_loop (S (S (cmfsum fl + S (S g)))) out false nl (mk (res (cmessage_toks nm fl) tail) c false)
  = format_loop (cmfsum fl + S (S g)) ((if nl then out ++ nlb else out) ++ cmessage_text nm fl) false true (mk tail nlT false).
Proof.
  unfold cmessage_toks.
  change ([messageT; idT nm; openT; nlT] ++ cmfields_toks fl ++ [closeT; nlT])
    with ([messageT] ++ ([idT nm; openT; nlT] ++ cmfields_toks fl ++ [closeT] ++ [nlT])).
  rewrite res_app, fmt_top_message_head. unfold bind.
  replace ([idT nm; openT; nlT] ++ cmfields_toks fl ++ [closeT] ++ [nlT])
    with (([idT nm; openT; nlT] ++ cmfields_toks fl ++ [closeT]) ++ [nlT]) by (rewrite <- !app_assoc; reflexivity).
  rewrite res_app, fmt_cmessage_ok, fmt_top_newline. reflexivity.
Qed.

(* ---------- the item ---------- *)
Definition cmfdef := (list bytes * ldfield)%type.
Definition bcm (f : cmfdef) : cmfield := (fst f, bdf (snd f)).
Definition cmfdef_ok (f : cmfdef) : Prop := Forall cbody_ok (fst f) /\ ldfield_ok (snd f).
Definition cmfield_lex (f : cmfdef) : list lexeme := docs_lex (fst f) ++ dfield_lex (snd f).
Definition cmfield_layout (f : cmfdef) : list (bytes * lexeme) := fdocs_layout (fst f) ++ dfield_layout (snd f).

Lemma cmf_toks f : cmfdef_ok f -> map tok_of (cmfield_lex f) = cmfield_toks (bcm f).
Proof. intros [_ H]. unfold cmfield_lex, cmfield_toks, bcm. cbn [fst snd]. rewrite map_app, docs_toks_tie, (df_toks _ H). reflexivity. Qed.
Lemma cmf_lex f : cmfdef_ok f -> Forall lex_ok (cmfield_lex f).
Proof. intros [Hc H]. unfold cmfield_lex. apply Forall_app. split; [exact (docs_lex_ok _ Hc)|exact (df_lex _ H)]. Qed.
Lemma cmf_lay f : map snd (cmfield_layout f) = cmfield_lex f.
Proof. unfold cmfield_layout, cmfield_lex, fdocs_layout, docs_lex. rewrite map_app, map_map, df_lay. reflexivity. Qed.
Lemma cmf_hws f : Forall (fun p => hws (fst p)) (cmfield_layout f).
Proof.
  unfold cmfield_layout. apply Forall_app. split; [|exact (df_hws (snd f))].
  unfold fdocs_layout. induction (fst f) as [|b cs IH]; cbn [map]; constructor; [exact hws_tab|exact IH].
Qed.
Lemma cmf_sep f rest : sep_ok rest -> sep_ok (cmfield_layout f ++ rest).
Proof.
  intros Hr. unfold cmfield_layout. rewrite <- app_assoc. unfold fdocs_layout.
  induction (fst f) as [|b cs IH]; [exact (df_sep (snd f) rest Hr)|]. cbn [map app sep_ok needs_end]. split; [exact I|exact IH].
Qed.
Lemma cmf_ren f t : render (cmfield_layout f) t = cmfield_text (bcm f) ++ t.
Proof.
  unfold cmfield_layout, cmfield_text, bcm. cbn [fst snd]. rewrite render_app, df_ren. unfold fdocs_layout, fdocs_text.
  induction (fst f) as [|b cs IH]; [reflexivity|]. cbn [map render text_of flat_map app]. rewrite IH.
  repeat (rewrite <- app_assoc || rewrite <- app_comm_cons). reflexivity.
Qed.

Lemma cmsum_le fl : cmsum fl <= length (cmfields_toks fl) /\ cmfsum fl <= length (cmfields_toks fl).
Proof.
  induction fl as [|f fl [IH1 IH2]]; [cbn; lia|]. cbn [cmsum cmfsum fold_right cmfields_toks flat_map]. fold (cmsum fl). fold (cmfsum fl). fold (cmfields_toks fl).
  rewrite app_length. destruct f as [cs d]. unfold cmfuel, cmffuel, cmfield_toks. cbn [fst snd]. rewrite app_length. unfold doc_toks. rewrite map_length.
  destruct (dsum_le [d]) as [D1 D2]. cbn [dsum dfsum fold_right dfields_toks flat_map] in D1, D2. rewrite app_nil_r in D1, D2. lia.
Qed.

Definition cmf_item (nm : ident) (fl : list cmfdef) : item :=
  let bfl := map bcm fl in
  {| it_toks := cmessage_toks (ibytes nm) bfl; it_need := cmsum bfl + 3; it_fneed := cmfsum bfl + 4;
     it_upd := fun f => add_message f (cmessage_of (ibytes nm) bfl); it_text := cmessage_text (ibytes nm) bfl; it_blank := true |}.
Definition cmf_x (nm : ident) (fl : list cmfdef) : xitem :=
  {| x_lex := [kwM; Wi nm; ocuL; NLx] ++ flat_map cmfield_lex fl ++ [ccuL; NLx];
     x_lay := [([], kwM); (sp, Wi nm); (sp, ocuL); ([], NLx)] ++ flat_map cmfield_layout fl ++ [([], ccuL); ([], NLx)] |}.

Lemma cmf_item_ok nm fl : ident_ok nm -> Forall cmfdef_ok fl -> cmfs_ok [] (map bcm fl) -> item_ok (cmf_item nm fl) (cmf_x nm fl).
Proof.
  intros Hn Hf Hm. constructor.
  - intros g f tail c. cbn [cmf_item it_need it_toks it_upd]. exists (cmsum (map bcm fl) + S g). split; [lia|].
    replace (cmsum (map bcm fl) + 3 + g) with (S (cmsum (map bcm fl) + S (S g))) by lia. apply (top_cmmessage _ _ _ _ _ _ Hm).
  - intros g out nl tail c. cbn [cmf_item it_fneed it_toks it_text it_blank]. rewrite andb_true_r. exists (cmfsum (map bcm fl) + S (S g)). split; [lia|].
    replace (cmfsum (map bcm fl) + 4 + g) with (S (S (cmfsum (map bcm fl) + S (S g)))) by lia. apply fmt_top_cmessage.
  - cbn [cmf_x x_lex cmf_item it_toks]. unfold cmessage_toks. rewrite !map_app. cbn [map]. rewrite (tok_of_Wi nm Hn).
    rewrite (pf_toks cmfield_lex bcm cmfield_toks cmfdef_ok cmf_toks fl Hf). reflexivity.
  - cbn [cmf_x x_lex]. cbn [app]. constructor; [exact kwM_ok|]. constructor; [now apply lex_ok_Wi|]. constructor; [reflexivity|]. constructor; [reflexivity|].
    apply Forall_app. split; [exact (pf_lex cmfield_lex cmfdef_ok cmf_lex fl Hf)|]. constructor; [reflexivity|]. constructor; [reflexivity|constructor].
  - cbn [cmf_item it_need it_fneed it_toks]. unfold cmessage_toks. rewrite !app_length. cbn [length]. fold (cmfields_toks (map bcm fl)).
    destruct (cmsum_le (map bcm fl)). lia.
  - cbn [cmf_x x_lay x_lex]. rewrite !map_app, (pf_lay cmfield_lex cmfield_layout cmf_lay). reflexivity.
  - cbn [cmf_x x_lay]. cbn [app]. constructor; [exact hws_nil|]. constructor; [exact hws_sp|]. constructor; [exact hws_sp|]. constructor; [exact hws_nil|].
    apply Forall_app. split; [exact (pf_hws cmfield_layout cmf_hws fl)|]. constructor; [exact hws_nil|]. constructor; [exact hws_nil|constructor].
  - intros rest Hr. cbn [cmf_x x_lay]. rewrite <- !app_assoc. cbn [app sep_ok needs_end Wi kwM ocuL NLx].
    split; [left; discriminate|]. split; [left; discriminate|]. split; [exact I|]. split; [exact I|].
    apply (pf_sep cmfield_layout cmf_sep). cbn [app sep_ok needs_end ccuL NLx]. split; [exact I|]. split; [exact I|exact Hr].
  - intros t. cbn [cmf_x x_lay cmf_item it_text]. rewrite !render_app, (pf_ren cmfield_layout bcm cmfield_text cmf_ren).
    cbn [render text_of Wi app NLx kwM ocuL ccuL]. unfold cmessage_text, cmfields_text, ibytes, sp, nlb.
    repeat (rewrite <- app_assoc || rewrite <- app_comm_cons). reflexivity.
Qed.
Print Assumptions cmf_item_ok.
