(* The generated stream decoders (DecodeBebop) over an oracle for the underlying io.Reader: data that can still be delivered
   before the reader fails (EOF or any error), handed out in chunks given by a schedule; io.ReadFull; the sticky, zeroing
   ErrorReader (gen/IohelpGen.v: er_read_full_sticky_zeroing); a stack of io.LimitedReader counts.  No proofs here. *)
Require Export Bebop.wire.Wire.

Record base := { data : bytes; sched : list nat }.
Definition chunk (b : base) (want : nat) : nat :=
  match sched b with [] => want | c :: _ => Nat.min want (Nat.max 1 c) end.
(* one Read(p), len p = want > 0: bytes, failed?, new state *)
Definition base_read (b : base) (want : nat) : bytes * bool * base :=
  match data b with
  | [] => ([], true, b)
  | _ => let c := chunk b want in (firstn c (data b), false, {| data := skipn c (data b); sched := tl (sched b) |})
  end.

(* r.Reader = stack of io.LimitedReader over the base; innermost first *)
Fixpoint stack_read (ls : list nat) (b : base) (want : nat) : bytes * bool * list nat * base :=
  match ls with
  | [] => let '(got, eof, b') := base_read b want in (got, eof, [], b')
  | n :: rest =>
      if n =? 0 then ([], true, ls, b)
      else let '(got, eof, rest', b') := stack_read rest b (Nat.min want n) in (got, eof, (n - length got) :: rest', b')
  end.

(* io.ReadFull through the stack: bytes obtained, short?, state *)
Fixpoint read_full (g : nat) (ls : list nat) (b : base) (want : nat) (acc : bytes) : bytes * bool * list nat * base :=
  match want with
  | O => (acc, false, ls, b)
  | _ =>
    match g with
    | O => (acc, true, ls, b)
    | S g' =>
        let '(got, eof, ls', b') := stack_read ls b want in
        if eof then (acc ++ got, true, ls', b') else read_full g' ls' b' (want - length got) (acc ++ got)
    end
  end.

Record er := { bs : base; limits : list nat; err : bool }.

(* er.Read(p) with len p = n: sticky once failed; a failed read hands back zeros *)
Definition er_read (r : er) (n : nat) : bytes * er :=
  if err r then (repeat 0%N n, r) else
  let '(got, short, ls, b) := read_full n (limits r) (bs r) n [] in
  if short then (repeat 0%N n, {| bs := b; limits := ls; err := true |})
  else (got, {| bs := b; limits := ls; err := false |}).

Definition read_u32 (r : er) : N * er := let '(b, r') := er_read r 4 in (le_dec b, r').
Definition read_byte0 (r : er) : N * er :=
  let '(b, r') := er_read r 1 in (match b with x :: _ => x | [] => 0%N end, r').

Definition push (r : er) (n : nat) : er := {| bs := bs r; limits := n :: limits r; err := err r |}.
Definition pop (r : er) : er := {| bs := bs r; limits := tl (limits r); err := err r |}.
(* Drain = io.ReadAll(r.Reader), errors ignored, not through the latch: consumes what the innermost limits still allow *)
Definition drain_amount (r : er) : nat := fold_right Nat.min (length (data (bs r))) (limits r).
Definition drain (r : er) : er :=
  let k := drain_amount r in
  {| bs := {| data := skipn k (data (bs r)); sched := [] |}; limits := map (fun l => l - k) (limits r); err := err r |}.

Definition avail (r : er) : nat := length (data (bs r)).
(* an io.LimitedReader whose N exceeds what the reader can still deliver behaves like N = avail + 1: the clamp keeps the
   model executable on hostile 32-bit lengths and changes nothing otherwise (wire/StreamFacts.v: clamp_id) *)
Definition clamp (len : N) (r : er) : nat := N.to_nat (N.min len (N.of_nat (S (avail r)))).

Definition SR := outcome (value * er).
Definition SD := er -> SR.

Definition sdec_prim (lim : option N) (p : prim) (r : er) : SR :=
  match int_spec p with
  | Some (w, sg) => let '(b, r') := er_read r w in
                    let n := le_dec b in Ok (VZ (if sg then to_signed w n else Z.of_N n), r')
  | None =>
      match p with
      | PBool => let '(b, r') := er_read r 1 in Ok (VB (match b with x :: _ => N.eqb x 1 | [] => false end), r')
      | PGuid => let '(b, r') := er_read r 16 in Ok (VS (permute b), r')
      | PString => let '(n, r1) := read_u32 r in
                   if negb (count_within lim n (avail r1)) then Excess SMakeStr else
                   let '(s, r2) := er_read r1 (N.to_nat n) in Ok (VS s, r2)
      | _ => Panic SNoDef
      end
  end.

Fixpoint sdec_elems (d : SD) (k : nat) (r : er) : outcome (list value * er) :=
  match k with
  | O => Ok ([], r)
  | S k' => x <~ d r ;; let '(v, r1) := x in
            (* an element of record type that comes back with the latch set makes the enclosing method return *)
            y <~ sdec_elems d k' r1 ;; let '(vs, r2) := y in Ok (v :: vs, r2)
  end.
Fixpoint sdec_entries (dk d : SD) (k : nat) (r : er) : outcome (list (value * value) * er) :=
  match k with
  | O => Ok ([], r)
  | S k' => x <~ dk r ;; let '(kv, r1) := x in
            y <~ d r1 ;; let '(v, r2) := y in
            z <~ sdec_entries dk d k' r2 ;; let '(vs, r3) := z in Ok ((kv, v) :: vs, r3)
  end.
(* struct fields; a nested record that comes back with the latch set makes the caller return at once *)
Fixpoint sdec_fields (d : ty -> SD) (fs : list ty) (r : er) : outcome (list value * er) :=
  match fs with
  | [] => Ok ([], r)
  | f :: fs' => x <~ d f r ;; let '(v, r1) := x in
                if is_ref f && err r1 then Ok ([v], r1) else
                y <~ sdec_fields d fs' r1 ;; let '(vs, r2) := y in Ok (v :: vs, r2)
  end.
Fixpoint smsg_loop (d : ty -> SD) (fs : list (N * ty)) (g : nat) (r : er) (acc : list (option value)) : outcome (list (option value) * er) :=
  match g with
  | O => OutOfFuel
  | S g' =>
      let '(i, r1) := read_byte0 r in
      match index_of i fs with
      | None => Ok (acc, pop (drain r1))
      | Some (k, f) =>
          x <~ d f r1 ;; let '(v, r2) := x in
          if is_ref f && err r2 then Ok (set_nth acc k v, r2) else smsg_loop d fs g' r2 (set_nth acc k v)
      end
  end.

Section SDec.
  Variable s : schema.
  Variable lim : option N.
  Fixpoint sdec (fuel : nat) (t : ty) (r : er) {struct fuel} : SR :=
    match fuel with
    | O => OutOfFuel
    | S fuel' =>
      match t with
      | TPrim p => sdec_prim lim p r
      | TArr t' => let '(n, r1) := read_u32 r in
                   if negb (count_within lim n (avail r1)) then Excess SMakeArr else
                   x <~ sdec_elems (sdec fuel' t') (N.to_nat n) r1 ;; let '(vs, r2) := x in Ok (VArr vs, r2)
      | TMap kp t' => let '(n, r1) := read_u32 r in
                      if negb (count_within lim n (avail r1)) then Excess SMakeMap else
                      x <~ sdec_entries (sdec_prim lim kp) (sdec fuel' t') (N.to_nat n) r1 ;; let '(vs, r2) := x in Ok (VMap vs, r2)
      | TRef n =>
          match s n with
          | Some (DStruct fs) => x <~ sdec_fields (sdec fuel') fs r ;; let '(vs, r1) := x in Ok (VStruct vs, r1)
          | Some (DMsg fs _) =>
              let '(len, r1) := read_u32 r in
              x <~ smsg_loop (sdec fuel') fs fuel' (push r1 (clamp len r1)) (map (fun _ => None) fs) ;;
              let '(l, r2) := x in Ok (VMsg l, r2)
          | Some (DUnion brs) =>
              let '(len, r1) := read_u32 r in
              let '(i, r2) := read_byte0 (push r1 (clamp (len + 1) r1)) in
              match find (fun b => N.eqb (fst b) i) brs with
              | Some (_, m) => x <~ sdec fuel' (TRef m) r2 ;; let '(v, r3) := x in
                               if err r3 then Ok (VUnion i v, r3) else Ok (VUnion i v, pop (drain r3))
              | None => Ok (VUnion i (VStruct []), pop (drain r2))
              end
          | None => Panic SNoDef
          end
      end
    end.
End SDec.
