(* Facts about the reference encoding: induction principle for values, Size() exactness (L1). *)
Require Import Bebop.wire.Wire.
Global Opaque le_enc le_dec.

(* ---------- induction principle with Forall hypotheses for the nested lists ---------- *)
Section value_ind'.
  Variable P : value -> Prop.
  Hypothesis HB : forall b, P (VB b).
  Hypothesis HZ : forall z, P (VZ z).
  Hypothesis HS : forall s, P (VS s).
  Hypothesis HArr : forall l, Forall P l -> P (VArr l).
  Hypothesis HMap : forall l, Forall (fun kv => P (fst kv) /\ P (snd kv)) l -> P (VMap l).
  Hypothesis HStruct : forall l, Forall P l -> P (VStruct l).
  Hypothesis HMsg : forall l, Forall (fun o => match o with Some v => P v | None => True end) l -> P (VMsg l).
  Hypothesis HUnion : forall i v, P v -> P (VUnion i v).
  Fixpoint value_ind' (v : value) : P v :=
    match v with
    | VB b => HB b | VZ z => HZ z | VS s => HS s
    | VArr l => HArr l ((fix go l : Forall P l := match l with [] => Forall_nil _ | x :: xs => Forall_cons _ (value_ind' x) (go xs) end) l)
    | VMap l => HMap l ((fix go l : Forall (fun kv => P (fst kv) /\ P (snd kv)) l :=
                           match l with [] => Forall_nil _ | (k, x) :: xs => Forall_cons (k, x) (conj (value_ind' k) (value_ind' x)) (go xs) end) l)
    | VStruct l => HStruct l ((fix go l : Forall P l := match l with [] => Forall_nil _ | x :: xs => Forall_cons _ (value_ind' x) (go xs) end) l)
    | VMsg l => HMsg l ((fix go l : Forall (fun o => match o with Some v => P v | None => True end) l :=
                           match l with
                           | [] => Forall_nil _
                           | Some x :: xs => Forall_cons (Some x) (value_ind' x) (go xs)
                           | None :: xs => Forall_cons None I (go xs)
                           end) l)
    | VUnion i v => HUnion i v (value_ind' v)
    end.
End value_ind'.

(* ---------- primitives ---------- *)
Lemma permute_length g : length (permute g) = 16.
Proof. reflexivity. Qed.

Lemma fixed_size_int p w sg : int_spec p = Some (w, sg) -> fixed_size p = Some w.
Proof. unfold fixed_size. now intros ->. Qed.

Lemma enc_prim_size p v bs : enc_prim p v = Some bs -> size_prim p v = length bs.
Proof.
  unfold enc_prim, size_prim, fixed_size.
  destruct (int_spec p) as [[w sg]|] eqn:E.
  - destruct v; try discriminate. destruct (in_range w sg z); [|discriminate].
    intros [= <-]. now rewrite le_enc_length.
  - destruct p; try discriminate E; destruct v; try discriminate.
    + intros [= <-]. reflexivity.
    + destruct (count_ok _); [|discriminate]. intros [= <-]. rewrite app_length, le_enc_length. reflexivity.
    + destruct (length s =? 16); [|discriminate]. intros [= <-]. reflexivity.
Qed.

(* ---------- L1: Size() is the exact encoded length (for the strict reference and for the generated encoders) ---------- *)
Lemma L1_with s strict : forall v t bs, enc_with s strict t v = Some bs -> size s t v = length bs.
Proof.
  induction v using value_ind'; intros t bs; destruct t; cbn [enc_with size];
    try discriminate; try (now apply enc_prim_size).
  - (* array *)
    destruct (count_ok _); [|discriminate].
    destruct (cat_opt (enc_with s strict t) l) as [body|] eqn:E; cbn; [|discriminate].
    intros [= <-]. rewrite app_length, le_enc_length.
    enough (sum_of (size s t) l = length body) by lia.
    revert body E. induction H as [|x xs Hx _ IH]; cbn; intros body E.
    + now inversion E.
    + destruct (enc_with s strict t x) eqn:Ex; cbn in E; [|discriminate].
      destruct (cat_opt (enc_with s strict t) xs) eqn:Exs; cbn in E; [|discriminate].
      inversion E; subst. rewrite app_length. erewrite Hx, IH; eauto.
  - (* map *)
    destruct (count_ok _); [|discriminate].
    destruct (cat_opt _ l) as [body|] eqn:E; cbn [obind]; [|discriminate].
    intros [= <-]. rewrite app_length, le_enc_length.
    match goal with |- 4 + ?a = _ => enough (a = length body) by lia end.
    revert body E. induction H as [|[kx vx] xs [_ Hx] _ IH]; cbn; intros body E.
    + now inversion E.
    + destruct (enc_prim k kx) eqn:Ek; cbn in E; [|discriminate].
      destruct (enc_with s strict t vx) eqn:Ex; cbn in E; [|discriminate].
      destruct (cat_opt _ xs) eqn:Exs; cbn in E; [|discriminate].
      inversion E; subst. rewrite !app_length.
      erewrite enc_prim_size, Hx, IH; eauto; try lia.
  - (* struct *)
    destruct (s n) as [[fs| |]|]; try discriminate.
    revert fs bs. induction H as [|x xs Hx _ IH]; intros [|f fs] bs; cbn; try discriminate.
    + now intros [= <-].
    + destruct (enc_with s strict f x) eqn:Ex; cbn; [|discriminate].
      destruct (zip_opt (enc_with s strict) fs xs) eqn:Exs; cbn; [|discriminate].
      intros [= <-]. rewrite app_length. erewrite Hx, IH; eauto.
  - (* message *)
    destruct (s n) as [[|fs deps|]|]; try discriminate.
    destruct (zip_opt (msg_field strict deps (enc_with s strict)) fs l) as [body|] eqn:E; cbn; [|discriminate].
    destruct (count_ok _); [|discriminate].
    intros [= <-]. rewrite !app_length, le_enc_length. cbn.
    enough (zip_sum (msg_field_size deps (size s)) fs l = length body) by lia.
    revert fs body E. induction H as [|o xs Ho _ IH]; intros [|f fs] body; cbn; try discriminate.
    + now intros [= <-].
    + destruct o as [x|]; cbn.
      * destruct (mem (fst f) deps).
        -- destruct strict; [discriminate|]. cbn.
           destruct (zip_opt _ fs xs) eqn:Exs; cbn; [|discriminate].
           intros [= <-]. cbn. erewrite IH; eauto.
        -- destruct (enc_with s strict (snd f) x) eqn:Ex; cbn; [|discriminate].
           destruct (zip_opt _ fs xs) eqn:Exs; cbn; [|discriminate].
           intros [= <-]. cbn. rewrite app_length. erewrite Ho, IH; eauto.
      * destruct (zip_opt _ fs xs) eqn:Exs; cbn; [|discriminate].
        intros [= <-]. erewrite IH; eauto.
  - (* union *)
    destruct (s n) as [[| |brs]|]; try discriminate.
    destruct (find _ brs) as [[j m]|]; [|discriminate].
    destruct (enc_with s strict (TRef m) v) eqn:Ex; cbn; [|discriminate].
    destruct (count_ok _); [|discriminate].
    intros [= <-]. rewrite app_length, le_enc_length. cbn. erewrite IHv; eauto.
Qed.

Lemma L1 s v t bs : enc s t v = Some bs -> size s t v = length bs.
Proof. apply L1_with. Qed.
Lemma L1_gen s v t bs : genc s t v = Some bs -> size s t v = length bs.
Proof. apply L1_with. Qed.

(* the strict reference and the generated encoders agree wherever the reference is defined *)
Lemma enc_genc s : forall v t bs, enc s t v = Some bs -> genc s t v = Some bs.
Proof.
  unfold enc, genc.
  induction v using value_ind'; intros t bs; destruct t; cbn [enc_with]; try discriminate; auto.
  - destruct (count_ok _); [|discriminate].
    destruct (cat_opt (enc_with s true t) l) as [body|] eqn:E; cbn [obind]; [|discriminate]. intros [= <-].
    enough (cat_opt (enc_with s false t) l = Some body) as -> by reflexivity.
    revert body E. induction H as [|x xs Hx _ IH]; cbn; intros body E; [exact E|].
    destruct (enc_with s true t x) eqn:Ex; cbn in E; [|discriminate].
    destruct (cat_opt (enc_with s true t) xs) eqn:Exs; cbn in E; [|discriminate].
    rewrite (Hx _ _ Ex), (IH _ eq_refl). exact E.
  - destruct (count_ok _); [|discriminate].
    destruct (cat_opt _ l) as [body|] eqn:E; cbn [obind]; [|discriminate]. intros [= <-].
    match goal with |- context [cat_opt ?f l] => enough (cat_opt f l = Some body) as -> by reflexivity end.
    revert body E. induction H as [|[kx vx] xs [_ Hx] _ IH]; cbn [cat_opt fst snd]; intros body E; [exact E|].
    destruct (enc_prim k kx) eqn:Ek; cbn [obind] in E |- *; [|discriminate].
    destruct (enc_with s true t vx) eqn:Ex; cbn [obind] in E; [|discriminate].
    destruct (cat_opt _ xs) eqn:Exs; cbn [obind] in E; [|discriminate].
    cbn [fst snd] in Hx. rewrite (Hx _ _ Ex). cbn [obind]. rewrite (IH _ eq_refl). exact E.
  - destruct (s n) as [[fs| |]|]; try discriminate.
    revert fs bs. induction H as [|x xs Hx _ IH]; intros [|f fs] bs; cbn; try discriminate; auto.
    destruct (enc_with s true f x) eqn:Ex; cbn; [|discriminate].
    destruct (zip_opt (enc_with s true) fs xs) eqn:Exs; cbn; [|discriminate].
    intros [= <-]. rewrite (Hx _ _ Ex), (IH _ _ Exs). reflexivity.
  - destruct (s n) as [[|fs deps|]|]; try discriminate.
    destruct (zip_opt (msg_field true deps (enc_with s true)) fs l) as [body|] eqn:E; cbn [obind]; [|discriminate].
    enough (zip_opt (msg_field false deps (enc_with s false)) fs l = Some body) as -> by (cbn [obind]; auto).
    revert fs body E. induction H as [|o xs Ho _ IH]; intros [|f fs] body; cbn; try discriminate; auto.
    destruct o as [x|]; cbn.
    + destruct (mem (fst f) deps); [discriminate|].
      destruct (enc_with s true (snd f) x) eqn:Ex; cbn; [|discriminate].
      destruct (zip_opt _ fs xs) eqn:Exs; cbn; [|discriminate].
      intros [= <-]. rewrite (Ho _ _ Ex). cbn. rewrite (IH _ _ Exs). reflexivity.
    + destruct (zip_opt _ fs xs) eqn:Exs; cbn; [|discriminate].
      intros [= <-]. rewrite (IH _ _ Exs). reflexivity.
  - destruct (s n) as [[| |brs]|]; try discriminate.
    destruct (find _ brs) as [[j m]|]; [|discriminate].
    destruct (enc_with s true (TRef m) v) eqn:Ex; cbn [obind]; [|discriminate].
    rewrite (IHv _ _ Ex). cbn [obind]. auto.
Qed.
