(* The primitive layer of the wire model IS what iohelp implements: [enc_prim] / the primitive decoders are tied, type by
   type, to the definitions translator T1 regenerates from iohelp/iohelp.go (gen/IohelpGen.v) - through the C20 theorems.
   A change of a scalar layout, of the GUID permutation or of the date tick scale in iohelp.go therefore breaks this file,
   and with it every wire property that names it in its closure (C01, C03). The pairing prim -> iohelp function is the
   generator's naming rule "iohelp.Write" + Title(type) + "Bytes" (gen_templates.go, fixedTitleString). *)
Require Import Bebop.wire.IoLib Bebop.wire.IoLibFacts Bebop.gen.IohelpGen Bebop.props.C20.
Require Import Bebop.wire.Wire.

Definition slice_writer (p : prim) : option slice_fn :=
  match p with
  | PBool => Some WriteBoolBytes | PByte => Some WriteByteBytes | PUint8 => Some WriteUint8Bytes
  | PUint16 => Some WriteUint16Bytes | PInt16 => Some WriteInt16Bytes | PUint32 => Some WriteUint32Bytes | PInt32 => Some WriteInt32Bytes
  | PUint64 => Some WriteUint64Bytes | PInt64 => Some WriteInt64Bytes | PFloat32 => Some WriteFloat32Bytes | PFloat64 => Some WriteFloat64Bytes
  | PGuid => Some WriteGUIDBytes | PDate => Some WriteInt64Bytes        (* dates are written as WriteInt64Bytes(ticks) by the templates *)
  | PString => None                                                    (* WriteUint32Bytes(len) + copy *)
  end.
Definition slice_reader (p : prim) : option slice_fn :=
  match p with
  | PBool => Some ReadBoolBytes | PByte => Some ReadByteBytes | PUint8 => Some ReadUint8Bytes
  | PUint16 => Some ReadUint16Bytes | PInt16 => Some ReadInt16Bytes | PUint32 => Some ReadUint32Bytes | PInt32 => Some ReadInt32Bytes
  | PUint64 => Some ReadUint64Bytes | PInt64 => Some ReadInt64Bytes | PFloat32 => Some ReadFloat32Bytes | PFloat64 => Some ReadFloat64Bytes
  | PGuid => Some ReadGUIDBytes | PDate => Some ReadInt64Bytes | PString => Some ReadStringBytes
  end.

Definition entry_of (p : prim) : option entry :=
  match p with
  | PByte => nth_error int_table 0 | PUint8 => nth_error int_table 1 | PUint16 => nth_error int_table 2 | PInt16 => nth_error int_table 3
  | PUint32 => nth_error int_table 4 | PInt32 => nth_error int_table 5 | PUint64 => nth_error int_table 6 | PInt64 => nth_error int_table 7
  | PFloat32 => nth_error int_table 8 | PFloat64 => nth_error int_table 9 | PDate => nth_error int_table 7
  | _ => None
  end.

Lemma entry_of_ok p w sg : int_spec p = Some (w, sg) ->
  exists e, entry_of p = Some e /\ In e int_table /\ e_width e = w /\ e_signed e = sg /\ slice_writer p = Some (e_wr e) /\
            (p <> PDate -> slice_reader p = Some (e_rd e)).
Proof.
  destruct p; cbn [int_spec]; intros [= <- <-]; (eexists; split; [reflexivity|]);
    (split; [cbn; auto 12|]); repeat split; try reflexivity; intros X; try reflexivity; now elim X.
Qed.

Lemma in_range_value e z : in_range (e_width e) (e_signed e) z = true -> value_in_range e z.
Proof.
  unfold in_range, value_in_range, signed_range. destruct (e_signed e); intros H; apply andb_true_iff in H; destruct H as [H0 H1];
    apply Z.leb_le in H0; apply Z.ltb_lt in H1; lia.
Qed.

(* fixed-width numeric primitives: the iohelp writer stores exactly the model's encoding and touches nothing else; the
   iohelp reader returns the value from it *)
Theorem int_prims_are_iohelp : forall p w sg z a buf wr,
  int_spec p = Some (w, sg) -> enc_prim p (VZ z) = Some a -> slice_writer p = Some wr -> w <= length buf ->
  sl_write wr buf (RZ z) = IoLib.Ok (a ++ skipn w buf) /\
  (p <> PDate -> forall rd, slice_reader p = Some rd -> sl_read rd (a ++ skipn w buf) = IoLib.Ok (RZ z)).
Proof.
  intros p w sg z a buf wr Hs He Hw Hl. destruct (entry_of_ok p w sg Hs) as (e & _ & Hin & Ew & Esg & Hwr & Hrd).
  unfold enc_prim in He. rewrite Hs in He. destruct (in_range w sg z) eqn:R; [|discriminate]. injection He as <-.
  rewrite Hwr in Hw. injection Hw as <-.
  destruct (C20_inverse e Hin buf z) as (buf' & W & Rd & Eq).
  - rewrite Ew. exact Hl.
  - apply in_range_value. now rewrite Ew, Esg.
  - rewrite Ew in Eq. rewrite <- Eq. split; [exact W|]. intros Hd rd Hr. rewrite (Hrd Hd) in Hr. injection Hr as <-. exact Rd.
Qed.

Theorem guid_is_iohelp : forall g buf, length g = 16 -> 16 <= length buf ->
  enc_prim PGuid (VS g) = Some (permute g) /\
  sl_write WriteGUIDBytes buf (RBytes g) = IoLib.Ok (permute g ++ skipn 16 buf) /\
  sl_read ReadGUIDBytes (permute g ++ skipn 16 buf) = IoLib.Ok (RBytes g).
Proof.
  intros g buf Hg Hb. split.
  - unfold enc_prim. cbn [int_spec]. now rewrite Hg.
  - destruct (C20_guid buf g Hg Hb) as (buf' & W & R & Eq). change (map (fun i => nth i g 0%N) dotnet_guid) with (permute g) in Eq.
    rewrite <- Eq. split; assumption.
Qed.

Theorem bool_is_iohelp : forall b x buf,
  enc_prim PBool (VB b) = Some [if b then 1%N else 0%N] /\
  sl_write WriteBoolBytes (x :: buf) (RB b) = IoLib.Ok ((if b then 1%N else 0%N) :: buf) /\
  sl_read ReadBoolBytes ((if b then 1%N else 0%N) :: buf) = IoLib.Ok (RB b).
Proof. intros b x buf. split; [reflexivity|]. exact (C20_bool b x buf). Qed.

(* dates: the model's value is the tick count; iohelp turns tick 0 into the zero time and tick t into Unix nanosecond 100 t *)
Theorem date_is_iohelp : forall ticks a junk, enc_prim PDate (VZ ticks) = Some a -> signed_range 8 (ticks * 100) ->
  sl_read ReadDateBytes (a ++ junk) = IoLib.Ok (RDate (if (ticks =? 0)%Z then DZero else DUnix (ticks * 100))).
Proof.
  intros ticks a junk He Hr. unfold enc_prim in He. cbn [int_spec] in He. destruct (in_range 8 true ticks); [|discriminate].
  injection He as <-. exact (C20_date ticks junk Hr).
Qed.
