(* Generic facts about the IoLib combinators, each under DECIDABLE side conditions on the descriptor's parameters.
   The property files instantiate them on the descriptors generated from iohelp.go; the side conditions are then
   discharged by computation on the generated definitions, so a changed probe, width, permutation or error mode in the
   source makes a named obligation fail on the next build. *)
Require Import Bebop.wire.IoLib.
From Coq Require Import ZifyBool ZifyNat ZifyN.
Opaque le_enc le_dec.

(* ---------- well-formedness of descriptors (decidable) ---------- *)
Definition load_wf (f : slice_fn) : bool :=
  match f with sl_load p w _ => (0 <? w) && (p =? w - 1) | sl_index0 => true | _ => false end.
Definition store_wf (f : slice_fn) : bool :=
  match f with sl_store p w => (0 <? w) && (p =? w - 1) | sl_put0 => true | _ => false end.
Definition is_signed (f : slice_fn) : bool := match f with sl_load _ _ s => s | _ => false end.

Definition in_range (f : slice_fn) (z : Z) : Prop :=
  if is_signed f then signed_range (width_of f) z else (0 <= z < 2 ^ (8 * Z.of_nat (width_of f)))%Z.

(* ---------- raw loads and stores ---------- *)
Lemma raw_load_app p w a junk : p = w - 1 -> 0 < w -> length a = w -> raw_load p w (a ++ junk) = Ok (le_dec a).
Proof.
  intros -> Hw Ha. unfold raw_load. rewrite app_length.
  destruct (Nat.ltb_spec (w - 1) (length a + length junk)); [|lia].
  destruct (Nat.leb_spec w (length a + length junk)); [|lia].
  rewrite <- Ha, firstn_app_len. reflexivity.
Qed.

Lemma raw_load_safe p w buf : p = w - 1 -> 0 < w -> raw_load p w buf <> Unsafe.
Proof.
  intros -> Hw. unfold raw_load.
  destruct (Nat.ltb_spec (w - 1) (length buf)); [|discriminate].
  destruct (Nat.leb_spec w (length buf)); [discriminate|lia].
Qed.

Lemma raw_load_short p w buf : p = w - 1 -> 0 < w -> length buf < w -> raw_load p w buf = Panic.
Proof.
  intros -> Hw Hl. unfold raw_load. destruct (Nat.ltb_spec (w - 1) (length buf)); [lia|reflexivity].
Qed.

Lemma raw_store_ok p w buf n : p = w - 1 -> 0 < w -> w <= length buf ->
  raw_store p w buf n = Ok (le_enc w n ++ skipn w buf).
Proof.
  intros -> Hw Hl. unfold raw_store.
  destruct (Nat.ltb_spec (w - 1) (length buf)); [|lia].
  destruct (Nat.leb_spec w (length buf)); [reflexivity|lia].
Qed.

Lemma raw_store_safe p w buf n : p = w - 1 -> 0 < w -> raw_store p w buf n <> Unsafe.
Proof.
  intros -> Hw. unfold raw_store.
  destruct (Nat.ltb_spec (w - 1) (length buf)); [|discriminate].
  destruct (Nat.leb_spec w (length buf)); [discriminate|lia].
Qed.

Lemma of_signed_nonneg w z : (0 <= z < 2 ^ (8 * Z.of_nat w))%Z -> of_signed w z = Z.to_N z.
Proof. intros H. unfold of_signed. now rewrite Z.mod_small. Qed.

(* ---------- integer functions: store then load is the identity, for EVERY value of the width ---------- *)
Lemma int_inverse f g buf z :
  load_wf f = true -> store_wf g = true -> width_of f = width_of g -> width_of f <= length buf -> in_range f z ->
  exists buf', sl_write g buf (RZ z) = Ok buf' /\ sl_read f buf' = Ok (RZ z)
            /\ buf' = le_enc (width_of f) (of_signed (width_of f) z) ++ skipn (width_of f) buf.
Proof.
  intros Hf Hg Hw Hl Hr.
  assert (Hwpos : 0 < width_of f) by (destruct f; cbn [load_wf width_of] in *; try discriminate; lia).
  (* normal form of the store *)
  assert (Hst : sl_write g buf (RZ z) = Ok (le_enc (width_of f) (of_signed (width_of f) z) ++ skipn (width_of f) buf)).
  { destruct g; cbn [store_wf] in Hg; try discriminate; cbn [width_of] in Hw.
    - cbn [sl_write]. rewrite Hw. apply raw_store_ok; lia.
    - cbn [sl_write]. rewrite Hw. destruct buf as [|b r]; [cbn in Hl; lia|].
      rewrite le_enc_1. cbn [skipn app].
      f_equal. f_equal. symmetry. apply N.mod_small. pose proof (of_signed_lt 1 z) as B. cbn in B. lia. }
  eexists. split; [exact Hst|]. split; [|reflexivity].
  set (n := of_signed (width_of f) z).
  assert (Hn : (n < 256 ^ N.of_nat (width_of f))%N) by apply of_signed_lt.
  destruct f; cbn [load_wf] in Hf; try discriminate; cbn [width_of] in *.
  - cbn [sl_read load_n]. rewrite raw_load_app by (try apply le_enc_length; lia).
    cbn [obind_out]. rewrite le_dec_enc by exact Hn. f_equal. f_equal.
    unfold in_range in Hr. cbn [is_signed width_of] in Hr. cbn [interp]. destruct signed.
    + apply to_of_signed; assumption.
    + subst n. rewrite of_signed_nonneg by exact Hr. apply Z2N.id. lia.
  - cbn [sl_read load_n]. rewrite le_enc_1. cbn [app obind_out interp].
    unfold in_range in Hr. cbn [is_signed width_of] in Hr.
    f_equal. f_equal. subst n. rewrite of_signed_nonneg by exact Hr.
    rewrite N.mod_small; [apply Z2N.id; lia|]. change (8 * Z.of_nat 1)%Z with 8%Z in Hr. lia.
Qed.

Lemma read_never_unsafe f buf : load_wf f = true -> sl_read f buf <> Unsafe.
Proof.
  destruct f; cbn [load_wf]; try discriminate; intros H; cbn [sl_read load_n].
  - pose proof (raw_load_safe probe width buf ltac:(lia) ltac:(lia)) as S.
    destruct (raw_load probe width buf); cbn; congruence.
  - destruct buf; cbn; discriminate.
Qed.

Lemma write_never_unsafe g buf v : store_wf g = true -> sl_write g buf v <> Unsafe.
Proof.
  destruct g; cbn [store_wf]; try discriminate; intros H; destruct v; cbn [sl_write]; try discriminate.
  - apply raw_store_safe; lia.
  - destruct buf; discriminate.
Qed.

(* a fixed-width reader only looks at its first [width] bytes *)
Lemma load_n_prefix f a junk : load_wf f = true -> length a = width_of f -> load_n f (a ++ junk) = load_n f (a).
Proof.
  destruct f; cbn [load_wf]; try discriminate; intros H Ha; cbn [width_of] in Ha; cbn [load_n].
  - rewrite raw_load_app by lia. rewrite <- (app_nil_r a) at 2. rewrite raw_load_app by lia. reflexivity.
  - destruct a as [|x [|? ?]]; cbn in Ha; try lia. reflexivity.
Qed.

(* ---------- GUID ---------- *)
Lemma guid_inverse buf g : length g = 16 -> 16 <= length buf ->
  exists buf', sl_write (sl_perm_write 15 dotnet_guid) buf (RBytes g) = Ok buf'
            /\ sl_read (sl_perm_read dotnet_guid) buf' = Ok (RBytes g)
            /\ buf' = map (fun i => nth i g 0%N) dotnet_guid ++ skipn 16 buf.
Proof.
  intros Hg Hb. cbn [sl_write].
  destruct (Nat.ltb_spec 15 (length buf)); [|lia].
  change (length dotnet_guid) with 16. destruct (Nat.leb_spec 16 (length buf)); [|lia].
  eexists. split; [reflexivity|]. split; [|reflexivity].
  do 16 (destruct g as [|? g]; [discriminate Hg|]). destruct g; [|discriminate Hg].
  reflexivity.
Qed.

(* ---------- checked string read ---------- *)
Definition string_wf (f : slice_fn) : bool :=
  match f with
  | sl_string_checked c1 c2 lo hi (sl_load p w false) =>
      (0 <? w) && (p =? w - 1) && (w <=? c1) && (lo =? w) && (hi =? lo) && (hi <=? c2)
  | _ => false
  end.

Definition str_lo (f : slice_fn) : nat := match f with sl_string_checked _ _ lo _ _ => lo | _ => 0 end.

(* for EVERY buffer: an error, or exactly the [sz] bytes after the count, all inside the buffer -- never Panic, never Unsafe *)
Lemma string_checked_total f buf : string_wf f = true ->
  sl_read f buf = Err \/
  exists sz, sl_read f buf = Ok (RBytes (firstn sz (skipn (str_lo f) buf)))
          /\ str_lo f + sz <= length buf
          /\ load_n (sl_load (str_lo f - 1) (str_lo f) false) buf = Ok (N.of_nat sz).
Proof.
  destruct f; cbn [string_wf]; try discriminate. destruct f; try discriminate. destruct signed; try discriminate.
  intros H. cbn [sl_read str_lo].
  destruct (Nat.ltb_spec (length buf) c1) as [|Hc1]; [now left|].
  cbn [load_n]. unfold raw_load.
  destruct (Nat.ltb_spec probe (length buf)); [|lia].
  destruct (Nat.leb_spec width (length buf)); [|lia].
  cbn [obind_out].
  set (szn := le_dec (firstn width buf)).
  destruct (N.ltb_spec (N.of_nat (length buf)) (szn + N.of_nat c2)) as [|Hc2]; [now left|].
  destruct (N.ltb_spec (N.of_nat (length buf)) (szn + N.of_nat hi)) as [|Hc3]; [lia|].
  set (sz := N.to_nat szn).
  right. exists sz.
  destruct (Nat.leb_spec lo (hi + sz)); [|lia]. destruct (Nat.leb_spec (hi + sz) (length buf)); [|lia].
  cbn [andb]. replace (hi + sz - lo) with sz by lia. replace lo with width by lia.
  split; [reflexivity|]. split; [lia|].
  replace (width - 1) with probe by lia.
  destruct (Nat.ltb_spec probe (length buf)); [|lia].
  destruct (Nat.leb_spec width (length buf)); [|lia].
  subst sz szn. now rewrite N2Nat.id.
Qed.

(* ---------- dates ---------- *)
Definition date_wf (f : slice_fn) : bool :=
  match f with sl_date m (sl_load p 8 true) => (m =? 100) && (p =? 7) | _ => false end.

Lemma date_read f ticks junk : date_wf f = true -> signed_range 8 ticks ->
  sl_read f (le_enc 8 (of_signed 8 ticks) ++ junk)
  = Ok (RDate (if (wrap64 (ticks * 100) =? 0)%Z then DZero else DUnix (wrap64 (ticks * 100)))).
Proof.
  destruct f; cbn [date_wf]; try discriminate. destruct f; try discriminate.
  destruct width as [|[|[|[|[|[|[|[|[|?]]]]]]]]]; try discriminate. destruct signed; try discriminate.
  intros H Hr. cbn [sl_read load_n].
  rewrite raw_load_app by (try apply le_enc_length; lia). cbn [obind_out interp].
  rewrite le_dec_enc by apply of_signed_lt. rewrite to_of_signed by (try assumption; lia).
  replace (Z.of_nat mult) with 100%Z by lia. reflexivity.
Qed.

Lemma wrap64_id z : signed_range 8 z -> wrap64 z = z.
Proof. intros H. unfold wrap64. apply to_of_signed; [lia|exact H]. Qed.

(* ---------- fixed-width readers in general ---------- *)
Fixpoint fixed_reader (g : slice_fn) : bool :=
  match g with
  | sl_load _ _ _ | sl_index0 => load_wf g
  | sl_bool0 => true
  | sl_perm_read idx => forallb (fun i => i <? length idx) idx
  | sl_date _ rd => load_wf rd
  | sl_float h => fixed_reader h
  | _ => false
  end.

Lemma forallb_ltb_weaken idx n m : n <= m -> forallb (fun i => i <? n) idx = true -> forallb (fun i => i <? m) idx = true.
Proof.
  intros Hnm H. apply forallb_forall. intros x Hx. apply (proj1 (forallb_forall _ _) H) in Hx. lia.
Qed.

Lemma fixed_reader_prefix g a junk : fixed_reader g = true -> length a = width_of g -> sl_read g (a ++ junk) = sl_read g a.
Proof.
  induction g; cbn [fixed_reader]; try discriminate; intros H Ha; cbn [width_of] in Ha.
  - cbn [sl_read]. now rewrite load_n_prefix.
  - cbn [sl_read]. now rewrite (load_n_prefix sl_index0).
  - destruct a as [|x [|? ?]]; cbn in Ha; try lia. reflexivity.
  - cbn [sl_read]. rewrite app_length.
    rewrite (forallb_ltb_weaken idx (length idx) (length a + length junk)) by (try assumption; lia).
    rewrite (forallb_ltb_weaken idx (length idx) (length a)) by (try assumption; lia).
    f_equal. f_equal. apply map_ext_in. intros i Hi. apply (proj1 (forallb_forall _ _) H) in Hi.
    apply app_nth1. lia.
  - cbn [sl_read]. now rewrite load_n_prefix.
  - cbn [sl_read]. now apply IHg.
Qed.

(* ---------- stream reads under the sticky, zeroing ErrorReader.Read ---------- *)
Notation sticky := er_read_full_sticky_zeroing.

(* what a [w]-byte read obtains: the bytes handed to the decoding function, and the reader's rest / latch afterwards *)
Definition fetch_bytes (r : rdr) (w : nat) : bytes :=
  if rerr r then zeros w else if w <=? length (rest r) then firstn w (rest r) else zeros w.
Definition fetch_rest (r : rdr) (w : nat) : bytes :=
  if rerr r then rest r else if w <=? length (rest r) then skipn w (rest r) else [].
Definition fetch_err (r : rdr) (w : nat) : bool :=
  if rerr r then true else if w <=? length (rest r) then false else true.

Lemma zeros_length n : length (zeros n) = n.
Proof. apply repeat_length. Qed.

Lemma er_read_sticky r old :
  let '(b, failed, r') := er_read sticky r old in
  b = fetch_bytes r (length old) /\ failed = fetch_err r (length old) /\
  rest r' = fetch_rest r (length old) /\ rerr r' = fetch_err r (length old) /\ scratch r' = scratch r.
Proof.
  unfold er_read, fetch_bytes, fetch_rest, fetch_err. destruct (rerr r) eqn:E.
  - repeat split; auto.
  - destruct (length old <=? length (rest r)); repeat split; auto.
Qed.

Lemma fetch_bytes_length r w : length (fetch_bytes r w) = w.
Proof.
  unfold fetch_bytes. destruct (rerr r); [apply zeros_length|].
  destruct (Nat.leb_spec w (length (rest r))); [|apply zeros_length]. rewrite firstn_length. lia.
Qed.

Lemma scratch_fill_sticky r n : n <= length (scratch r) ->
  let '(failed, r') := scratch_fill sticky r n in
  failed = fetch_err r n /\ rest r' = fetch_rest r n /\ rerr r' = fetch_err r n /\
  scratch r' = fetch_bytes r n ++ skipn n (scratch r) /\ length (scratch r') = length (scratch r).
Proof.
  intros Hn. unfold scratch_fill.
  pose proof (er_read_sticky r (firstn n (scratch r))) as H.
  destruct (er_read sticky r (firstn n (scratch r))) as [[b failed] r'].
  rewrite firstn_length, Nat.min_l in H by exact Hn. destruct H as (-> & -> & Hr & He & Hs).
  cbn [rest rerr scratch]. repeat split; auto.
  rewrite app_length, fetch_bytes_length, skipn_length. lia.
Qed.

Definition slice_of (f : stream_fn) : slice_fn :=
  match f with
  | st_read _ g | st_read_fresh _ g => g
  | st_read_byte _ => sl_index0
  | st_read_bool => sl_bool0
  | st_float (st_read _ g) => g
  | _ => sl_index0
  end.
Definition swidth (f : stream_fn) : nat := width_of (slice_of f).

Definition sread_wf (f : stream_fn) : bool :=
  match f with
  | st_read n g | st_float (st_read n g) => (0 <? n) && (n <=? 8) && (n =? width_of g) && fixed_reader g
  | st_read_fresh n g => (n =? width_of g) && fixed_reader g
  | st_read_byte _ | st_read_bool => true
  | _ => false
  end.

Lemma sl_read_index0_zeros : sl_read sl_index0 (zeros 1) = Ok (RZ 0).
Proof. reflexivity. Qed.

(* THE characterisation: a fixed-width stream read returns the slice function applied to exactly the bytes fetched
   (the data, or zeros after any failure), whatever the scratch held before. *)
Lemma st_read_char f r : sread_wf f = true -> length (scratch r) = 8 ->
  fst (st_read_sem sticky f r) = sl_read (slice_of f) (fetch_bytes r (swidth f)) /\
  rest (snd (st_read_sem sticky f r)) = fetch_rest r (swidth f) /\
  rerr (snd (st_read_sem sticky f r)) = fetch_err r (swidth f) /\
  length (scratch (snd (st_read_sem sticky f r))) = 8.
Proof.
  intros Hwf Hsc.
  assert (Hfix : forall n g, (0 <? n) && (n <=? 8) && (n =? width_of g) && fixed_reader g = true ->
     fst (st_read_sem sticky (st_read n g) r) = sl_read g (fetch_bytes r (width_of g)) /\
     rest (snd (st_read_sem sticky (st_read n g) r)) = fetch_rest r (width_of g) /\
     rerr (snd (st_read_sem sticky (st_read n g) r)) = fetch_err r (width_of g) /\
     length (scratch (snd (st_read_sem sticky (st_read n g) r))) = 8).
  { intros n g H. cbn [st_read_sem].
    pose proof (scratch_fill_sticky r n ltac:(lia)) as S. destruct (scratch_fill sticky r n) as [failed r'].
    destruct S as (_ & Hr & He & Hs & Hl). cbn [fst snd].
    assert (Hn : n = width_of g) by lia. subst n.
    repeat split; try assumption; [|lia].
    rewrite Hs. apply fixed_reader_prefix; [lia|]. apply fetch_bytes_length. }
  destruct f; cbn [sread_wf] in Hwf; try discriminate.
  - apply Hfix. exact Hwf.
  - (* fresh buffer *)
    cbn [st_read_sem slice_of]. unfold swidth. cbn [slice_of].
    pose proof (er_read_sticky r (zeros n)) as S. destruct (er_read sticky r (zeros n)) as [[b failed] r'].
    rewrite zeros_length in S. destruct S as (-> & _ & Hr & He & Hs). cbn [fst snd].
    assert (Hn : n = width_of f) by lia. subst n. repeat split; try assumption. congruence.
  - (* byte *)
    cbn [st_read_sem]. unfold swidth. cbn [slice_of width_of].
    pose proof (scratch_fill_sticky r 1 ltac:(lia)) as S. destruct (scratch_fill sticky r 1) as [failed r'].
    destruct S as (Hf & Hr & He & Hs & Hl).
    assert (Hv : sl_read sl_index0 (scratch r') = sl_read sl_index0 (fetch_bytes r 1)).
    { rewrite Hs. apply (fixed_reader_prefix sl_index0); [reflexivity|apply fetch_bytes_length]. }
    destruct m.
    + destruct failed; cbn [fst snd]; (split; [|repeat split; try assumption; lia]).
      * symmetry in Hf. unfold fetch_err in Hf. unfold fetch_bytes.
        destruct (rerr r); [reflexivity|]. destruct (1 <=? length (rest r)); [discriminate|reflexivity].
      * exact Hv.
    + cbn [fst snd]. split; [exact Hv|]. repeat split; try assumption; lia.
  - (* bool *)
    cbn [st_read_sem]. unfold swidth. cbn [slice_of width_of].
    pose proof (scratch_fill_sticky r 1 ltac:(lia)) as S. destruct (scratch_fill sticky r 1) as [failed r'].
    destruct S as (Hf & Hr & He & Hs & Hl). cbn [fst snd].
    split; [|repeat split; try assumption; lia].
    rewrite Hs. apply (fixed_reader_prefix sl_bool0); [reflexivity|apply fetch_bytes_length].
  - (* float *)
    destruct f; try discriminate. cbn [st_read_sem]. unfold swidth. cbn [slice_of]. apply Hfix. exact Hwf.
Qed.

(* strings: a checked count read followed by a fresh read of that many bytes *)
Lemma st_read_string_char rd r : sread_wf rd = true -> length (scratch r) = 8 ->
  forall z, sl_read (slice_of rd) (fetch_bytes r (swidth rd)) = Ok (RZ z) ->
  let r1 := snd (st_read_sem sticky rd r) in
  fst (st_read_sem sticky (st_read_string rd) r) = Ok (RBytes (fetch_bytes r1 (Z.to_nat z))) /\
  rest (snd (st_read_sem sticky (st_read_string rd) r)) = fetch_rest r1 (Z.to_nat z) /\
  rerr (snd (st_read_sem sticky (st_read_string rd) r)) = fetch_err r1 (Z.to_nat z).
Proof.
  intros Hwf Hsc z Hz. cbn [st_read_sem].
  destruct (st_read_char rd r Hwf Hsc) as (Hv & _).
  destruct (st_read_sem sticky rd r) as [n r1] eqn:E. cbn [fst snd] in *. rewrite Hv, Hz.
  pose proof (er_read_sticky r1 (zeros (Z.to_nat z))) as S.
  destruct (er_read sticky r1 (zeros (Z.to_nat z))) as [[b failed] r2].
  rewrite zeros_length in S. destruct S as (-> & _ & Hr & He & _). cbn [fst snd]. auto.
Qed.

(* ---------- stream writes ---------- *)
Definition swrite_wf (f : stream_fn) : bool :=
  match f with
  | st_write n g | st_float (st_write n g) => (0 <? n) && (n <=? 8) && (n =? width_of g) && store_wf g
  | _ => false
  end.
Definition wslice_of (f : stream_fn) : slice_fn :=
  match f with st_write _ g | st_float (st_write _ g) => g | _ => sl_put0 end.

Lemma st_write_char f w z : swrite_wf f = true -> length (wscratch w) = 8 ->
  exists w', st_write_sem f w (RZ z) = Ok w' /\
    calls w' = calls w ++ [le_enc (width_of (wslice_of f)) (of_signed (width_of (wslice_of f)) z)] /\
    werr w' = werr w || wfail w (length (calls w)) /\ wfail w' = wfail w /\ length (wscratch w') = 8.
Proof.
  intros Hwf Hsc.
  assert (Hfix : forall n g, (0 <? n) && (n <=? 8) && (n =? width_of g) && store_wf g = true ->
    exists w', st_write_sem (st_write n g) w (RZ z) = Ok w' /\
      calls w' = calls w ++ [le_enc (width_of g) (of_signed (width_of g) z)] /\
      werr w' = werr w || wfail w (length (calls w)) /\ wfail w' = wfail w /\ length (wscratch w') = 8).
  { intros n g H. cbn [st_write_sem].
    assert (Hst : sl_write g (wscratch w) (RZ z) = Ok (le_enc (width_of g) (of_signed (width_of g) z) ++ skipn (width_of g) (wscratch w))).
    { destruct g; cbn [store_wf] in H; try (exfalso; lia); cbn [width_of sl_write] in *.
      - apply raw_store_ok; lia.
      - destruct (wscratch w) as [|b0 sc]; [cbn in Hsc; lia|]. rewrite le_enc_1. cbn [skipn app].
        f_equal. f_equal. symmetry. apply N.mod_small. pose proof (of_signed_lt 1 z) as B. cbn in B. lia. }
    rewrite Hst. cbn [obind_out]. eexists. split; [reflexivity|].
    unfold ew_write. cbn [calls werr wfail wscratch].
    assert (Hn : n = width_of g) by lia. rewrite <- Hn.
    rewrite firstn_le.
    repeat split. rewrite app_length, le_enc_length, skipn_length. lia. }
  destruct f; cbn [swrite_wf] in Hwf; try discriminate.
  - apply Hfix. exact Hwf.
  - destruct f; try discriminate. cbn [st_write_sem wslice_of]. apply Hfix. exact Hwf.
Qed.
