(* Truncated and failing readers (the stream half of C06, the decode half of C08).
   The reader delivers only the first k bytes of a valid encoding and then fails (EOF or any error): DecodeBebop ends with
   the ErrorReader's latch set - it returns an error - whatever the cut point, the read schedule and the enclosing limits;
   and it never panics, asks for memory out of proportion, or runs out of fuel on the way.
   Technique: a "simulation up to the first short read" is false at Drain (io.ReadAll swallows a short read), so the proof is a
   direct induction on the value: the parts before the cut decode by the stream round trip, the part holding the cut latches by
   the induction hypothesis, the parts after it run on a latched reader. *)
Require Import Bebop.wire.Wire Bebop.wire.WireFacts Bebop.wire.ByteDec Bebop.wire.ByteDecFacts Bebop.wire.StreamDec Bebop.wire.StreamFacts.

(* ---------- what io.ReadFull can obtain through the limit stack, whatever the schedule ---------- *)
Definition avail_ls (ls : list nat) (b : base) : nat := fold_right Nat.min (length (data b)) ls.
Definition amount (ls : list nat) (b : base) (want : nat) : nat := Nat.min want (avail_ls ls b).

Lemma avail_cons n ls b : avail_ls (n :: ls) b = Nat.min n (avail_ls ls b).
Proof. reflexivity. Qed.

Lemma avail_le_all ls b : Forall (fun l => avail_ls ls b <= l) ls /\ avail_ls ls b <= length (data b).
Proof.
  induction ls as [|n ls [IH1 IH2]]; cbn [avail_ls fold_right]; [split; [constructor|lia]|].
  fold (avail_ls ls b). split; [|lia]. constructor; [lia|]. eapply Forall_impl; [|exact IH1]. cbn beta; intros; lia.
Qed.

Lemma firstn_min {A} n (l : list A) : firstn n l = firstn (Nat.min n (length l)) l.
Proof. destruct (Nat.le_ge_cases n (length l)); [now rewrite Nat.min_l|rewrite Nat.min_r by lia; now rewrite !firstn_all2 by lia]. Qed.
Lemma skipn_min {A} n (l : list A) : skipn n l = skipn (Nat.min n (length l)) l.
Proof. destruct (Nat.le_ge_cases n (length l)); [now rewrite Nat.min_l|rewrite Nat.min_r by lia; now rewrite !skipn_all2 by lia]. Qed.

(* one Read through the stack: progress c with 0 < c <= min want avail, or end-of-data with nothing available *)
Lemma stack_read_char : forall ls b want, 0 < want ->
  (avail_ls ls b = 0 /\ stack_read ls b want = ([], true, ls, b)) \/
  (exists c sch, 0 < c <= amount ls b want /\
     stack_read ls b want = (firstn c (data b), false, map (fun l => l - c) ls, {| data := skipn c (data b); sched := sch |})).
Proof.
  induction ls as [|n rest IH]; intros b want Hw.
  - cbn [stack_read avail_ls fold_right amount]. unfold base_read. destruct (data b) as [|x xs] eqn:E.
    + left. split; reflexivity.
    + right. exists (Nat.min (chunk b want) (length (data b))), (tl (sched b)).
      split; [|rewrite <- E, <- firstn_min, <- skipn_min; reflexivity].
      unfold amount, avail_ls, chunk. cbn [fold_right]. rewrite E. cbn [length].
      destruct (sched b) as [|c0 ?]; [lia|].
      pose proof (Nat.le_max_l 1 c0). destruct (Nat.min_spec want (Nat.max 1 c0)) as [[? ->]|[? ->]]; lia.
  - cbn [stack_read]. rewrite avail_cons. destruct (Nat.eqb_spec n 0) as [->|Hn].
    + left. split; reflexivity.
    + destruct (IH b (Nat.min want n) ltac:(lia)) as [(A0 & ->)|(c & sch & Hc & ->)].
      * left. split; [lia|]. cbn [length]. now rewrite Nat.sub_0_r.
      * right. exists c, sch. unfold amount in *. rewrite avail_cons. split; [lia|].
        cbn [map]. rewrite firstn_length. pose proof (proj2 (avail_le_all rest b)).
        rewrite Nat.min_l by lia. reflexivity.
Qed.

Lemma avail_step ls b c sch : c <= avail_ls ls b ->
  avail_ls (map (fun l => l - c) ls) {| data := skipn c (data b); sched := sch |} = avail_ls ls b - c.
Proof.
  unfold avail_ls. cbn [data]. induction ls as [|n ls IH]; cbn [fold_right map]; intros H.
  - now rewrite skipn_length.
  - rewrite IH by lia. lia.
Qed.

Lemma map_sub0 ls : map (fun l => l - 0) ls = ls.
Proof. rewrite map_ext with (g := fun l => l) by (intros; lia). apply map_id. Qed.

(* io.ReadFull through the stack obtains exactly [amount] bytes, for ANY schedule; it is short iff that is < want *)
Lemma read_full_char : forall g ls b want acc, want <= g ->
  exists sch, read_full g ls b want acc
    = (acc ++ firstn (amount ls b want) (data b), amount ls b want <? want,
       map (fun l => l - amount ls b want) ls, {| data := skipn (amount ls b want) (data b); sched := sch |}).
Proof.
  induction g as [|g IH]; intros ls b want acc Hg.
  - assert (want = 0) by lia; subst. unfold amount. cbn [Nat.min read_full firstn skipn Nat.ltb Nat.leb].
    exists (sched b). rewrite app_nil_r, map_sub0. now destruct b.
  - destruct want as [|w].
    + unfold amount. cbn [Nat.min read_full firstn skipn Nat.ltb Nat.leb].
      exists (sched b). rewrite app_nil_r, map_sub0. now destruct b.
    + cbn [read_full].
      destruct (stack_read_char ls b (S w) ltac:(lia)) as [(A0 & ->)|(c & sch & Hc & ->)].
      * unfold amount. rewrite A0, Nat.min_0_r. cbn [firstn skipn].
        exists (sched b). rewrite !app_nil_r, map_sub0.
        replace (0 <? S w) with true by reflexivity. now destruct b.
      * set (b' := {| data := skipn c (data b); sched := sch |}).
        pose proof (proj2 (avail_le_all ls b)) as Hav.
        assert (Hc' : c <= avail_ls ls b) by (unfold amount in Hc; lia).
        assert (Hcl : c <= length (data b)) by lia.
        destruct (IH (map (fun l => l - c) ls) b' (S w - length (firstn c (data b))) (acc ++ firstn c (data b))) as [sch' H'].
        { rewrite firstn_length, Nat.min_l by lia. lia. }
        rewrite H'. exists sch'. rewrite firstn_length, Nat.min_l by lia.
        unfold amount in *. subst b'. rewrite avail_step by lia. cbn [data].
        set (av := avail_ls ls b) in *.
        assert (Ea : Nat.min (S w) av = c + Nat.min (S w - c) (av - c)) by lia.
        rewrite Ea. f_equal; [f_equal; [f_equal|]|].
        -- rewrite <- app_assoc. f_equal.
           rewrite <- (firstn_skipn c (firstn (c + Nat.min (S w - c) (av - c)) (data b))).
           rewrite firstn_firstn, (Nat.min_l c) by lia. f_equal.
           rewrite skipn_firstn_comm. f_equal. lia.
        -- destruct (Nat.ltb_spec (Nat.min (S w - c) (av - c)) (S w - c)); destruct (Nat.ltb_spec (c + Nat.min (S w - c) (av - c)) (S w)); auto; lia.
        -- rewrite map_map. apply map_ext. intros; lia.
        -- f_equal. rewrite skipn_skipn'. reflexivity.
Qed.

(* ---------- the truncated reader: exactly k bytes are left and every enclosing limit lies beyond them ---------- *)
Definition cut (r : er) (k : nat) : Prop := length (data (bs r)) = k /\ Forall (fun l => k < l) (limits r) /\ err r = false.

Lemma cut_avail r k : cut r k -> avail_ls (limits r) (bs r) = k.
Proof.
  intros (D & L & _). unfold avail_ls. rewrite D. induction L as [|l ls Hl _ IH]; cbn [fold_right]; [reflexivity|]. rewrite IH. lia.
Qed.

(* a read that wants more than is left sets the latch (and hands back zeros) *)
Lemma er_read_short r k n : cut r k -> k < n -> exists r', er_read r n = (repeat 0%N n, r') /\ err r' = true.
Proof.
  intros C Hk. pose proof (cut_avail r k C) as A. destruct C as (_ & _ & E). unfold er_read. rewrite E.
  destruct (read_full_char n (limits r) (bs r) n [] (le_n _)) as [sch ->].
  unfold amount. rewrite A. rewrite Nat.min_r by lia. replace (k <? n) with true by (symmetry; apply Nat.ltb_lt; lia).
  eexists. split; reflexivity.
Qed.

(* once the latch is set nothing is read any more *)
Lemma er_read_latched r n : err r = true -> er_read r n = (repeat 0%N n, r).
Proof. intros E. unfold er_read. now rewrite E. Qed.

Local Transparent le_dec.
Lemma le_dec_zeros n : le_dec (repeat 0%N n) = 0%N.
Proof. induction n as [|n IH]; [reflexivity|]. cbn [repeat]. unfold le_dec in *. cbn [fold_right]. rewrite IH. reflexivity. Qed.
Local Opaque le_dec.

Lemma read_u32_latched r : err r = true -> read_u32 r = (0%N, r).
Proof. intros E. unfold read_u32. rewrite er_read_latched by exact E. now rewrite le_dec_zeros. Qed.
Lemma read_byte0_latched r : err r = true -> read_byte0 r = (0%N, r).
Proof. intros E. unfold read_byte0. rewrite er_read_latched by exact E. reflexivity. Qed.
Lemma read_u32_short r k : cut r k -> k < 4 -> exists r', read_u32 r = (0%N, r') /\ err r' = true.
Proof. intros C Hk. unfold read_u32. destruct (er_read_short r k 4 C Hk) as (r' & -> & E). exists r'. now rewrite le_dec_zeros. Qed.
Lemma read_byte0_short r : cut r 0 -> exists r', read_byte0 r = (0%N, r') /\ err r' = true.
Proof. intros C. unfold read_byte0. destruct (er_read_short r 0 1 C ltac:(lia)) as (r' & -> & E). exists r'. split; [reflexivity|exact E]. Qed.

(* the result of a decoder run that ends with the latch set *)
Definition latched {A} (o : outcome (A * er)) : Prop := exists v r', o = Ok (v, r') /\ err r' = true.

Lemma sdec_prim_latched p r : err r = true -> latched (sdec_prim None p r).
Proof.
  intros E. unfold sdec_prim. destruct (int_spec p) as [[w sg]|] eqn:Ei.
  - rewrite er_read_latched by exact E. eexists _, r. split; [reflexivity|exact E].
  - destruct p; try discriminate Ei; try (rewrite er_read_latched by exact E; eexists _, r; split; [reflexivity|exact E]).
    rewrite read_u32_latched by exact E. cbn [count_within negb]. rewrite er_read_latched by exact E.
    eexists _, r. split; [reflexivity|exact E].
Qed.

(* moving from a state with k bytes left over a part of length n <= k *)
Lemma cut_adv r k n r' : cut r k -> adv r n r' -> n <= k -> cut r' (k - n).
Proof.
  intros (D & L & E) (D' & L' & E') H. repeat split.
  - rewrite D', skipn_length, D. reflexivity.
  - rewrite L'. apply Forall_map. eapply Forall_impl; [|exact L]. cbn beta. intros; lia.
  - congruence.
Qed.
Lemma cut_limits r k n : cut r k -> n <= k -> Forall (fun l => n <= l) (limits r).
Proof. intros (_ & L & _) H. eapply Forall_impl; [|exact L]. cbn beta. intros; lia. Qed.

(* a primitive cut short *)
Lemma sdec_prim_cut p v a r k :
  enc_prim p v = Some a -> k < length a -> data (bs r) = firstn k a -> cut r k -> latched (sdec_prim None p r).
Proof.
  unfold enc_prim, sdec_prim. destruct (int_spec p) as [[w sg]|] eqn:E.
  - destruct v; try discriminate. destruct (in_range w sg z); [|discriminate]. intros [= <-] Hk D C.
    rewrite le_enc_length in Hk. destruct (er_read_short r k w C Hk) as (r' & -> & E'). eexists _, r'. split; [reflexivity|exact E'].
  - destruct p; try discriminate E; destruct v; try discriminate.
    + intros [= <-] Hk D C. cbn [length] in Hk. destruct (er_read_short r k 1 C Hk) as (r' & -> & E'). eexists _, r'. split; [reflexivity|exact E'].
    + destruct (count_ok _) eqn:Ec; [|discriminate]. intros [= <-] Hk D C.
      rewrite app_length, le_enc_length in Hk.
      destruct (Nat.lt_ge_cases k 4) as [H4|H4].
      * destruct (read_u32_short r k C H4) as (r1 & -> & E1). cbn [count_within negb].
        rewrite er_read_latched by exact E1. eexists _, r1. split; [reflexivity|exact E1].
      * assert (D' : data (bs r) = le_enc 4 (N.of_nat (length s)) ++ firstn (k - 4) s).
        { rewrite D, firstn_app, le_enc_length, firstn_all2 by (rewrite le_enc_length; lia). reflexivity. }
        destruct (read_u32_ok r (N.of_nat (length s)) (firstn (k - 4) s)) as (r1 & -> & A1); auto.
        { unfold count_ok in Ec. now apply N.ltb_lt. }
        { split; [destruct C as (-> & _); lia|apply (cut_limits r k 4 C H4)]. }
        { apply C. }
        cbn [count_within negb]. rewrite Nat2N.id.
        destruct (er_read_short r1 (k - 4) (length s) (cut_adv r k 4 r1 C A1 H4) ltac:(lia)) as (r2 & -> & E2).
        eexists _, r2. split; [reflexivity|exact E2].
    + destruct (Nat.eqb_spec (length s) 16) as [Lg|]; [|discriminate]. intros [= <-] Hk D C.
      rewrite permute_length in Hk. destruct (er_read_short r k 16 C Hk) as (r' & -> & E'). eexists _, r'. split; [reflexivity|exact E'].
Qed.

Section Fault.
  Variable s : schema.
  Hypothesis Hwf : schema_wf s.

  (* ---------- a latched reader: the decoder still walks the records it is asked for, reading zeros ---------- *)
  (* L t: on a latched reader DecodeBebop of t returns (with the latch still set), given enough fuel *)
  Definition L (t : ty) : Prop := exists f0, forall fuel, f0 <= fuel -> forall r, err r = true -> latched (sdec s None fuel t r).

  Lemma L_prim p : L (TPrim p).
  Proof. exists 1. intros [|fuel] Hf r E; [lia|]. cbn [sdec]. now apply sdec_prim_latched. Qed.
  Lemma L_arr t : L (TArr t).
  Proof.
    exists 1. intros [|fuel] Hf r E; [lia|]. cbn [sdec]. rewrite read_u32_latched by exact E.
    cbn [count_within negb N.to_nat sdec_elems obindO]. eexists _, r. split; [reflexivity|exact E].
  Qed.
  Lemma L_map k t : L (TMap k t).
  Proof.
    exists 1. intros [|fuel] Hf r E; [lia|]. cbn [sdec]. rewrite read_u32_latched by exact E.
    cbn [count_within negb N.to_nat sdec_entries obindO]. eexists _, r. split; [reflexivity|exact E].
  Qed.

  Lemma fields_latched fs : Forall L fs ->
    exists f0, forall fuel, f0 <= fuel -> forall r, err r = true -> latched (sdec_fields (sdec s None fuel) fs r).
  Proof.
    induction 1 as [|f fs [f1 H1] _ [f2 H2]].
    - exists 0. intros fuel _ r E. cbn [sdec_fields]. eexists _, r. split; [reflexivity|exact E].
    - exists (max f1 f2). intros fuel Hf r E. cbn [sdec_fields].
      destruct (H1 fuel ltac:(lia) r E) as (v & r1 & -> & E1). cbn [obindO]. rewrite E1.
      destruct (is_ref f); cbn [andb].
      + eexists _, r1. split; [reflexivity|exact E1].
      + destruct (H2 fuel ltac:(lia) r1 E1) as (vs & r2 & -> & E2). cbn [obindO]. eexists _, r2. split; [reflexivity|exact E2].
  Qed.
  Lemma L_struct n fs : s n = Some (DStruct fs) -> Forall L fs -> L (TRef n).
  Proof.
    intros Es H. destruct (fields_latched fs H) as [f0 H0]. exists (S f0). intros [|fuel] Hf r E; [lia|]. cbn [sdec]. rewrite Es.
    destruct (H0 fuel ltac:(lia) r E) as (vs & r1 & -> & E1). cbn [obindO]. eexists _, r1. split; [reflexivity|exact E1].
  Qed.

  (* the message loop on a latched reader: the index byte reads as 0, which is no field, and the loop ends *)
  Lemma smsg_latched d fs g r acc : msg_wf fs -> err r = true -> latched (smsg_loop d fs (S g) r acc).
  Proof.
    intros [_ Hnz] E. cbn [smsg_loop]. rewrite read_byte0_latched by exact E. rewrite index_of_none by exact Hnz.
    eexists _, _. split; [reflexivity|]. cbn [pop drain err]. exact E.
  Qed.
  Lemma L_msg n fs deps : s n = Some (DMsg fs deps) -> L (TRef n).
  Proof.
    intros Es. exists 2. intros [|fuel] Hf r E; [lia|]. cbn [sdec]. rewrite Es, read_u32_latched by exact E. cbv beta iota.
    destruct fuel as [|g]; [lia|].
    destruct (smsg_latched (sdec s None (S g)) fs g (push r (clamp 0 r)) (map (fun _ => None) fs) (Hwf _ _ _ Es) E) as (l & r2 & -> & E2).
    cbn [obindO]. eexists _, r2. split; [reflexivity|exact E2].
  Qed.
  Lemma L_union n brs : s n = Some (DUnion brs) ->
    (forall j m, find (fun b : N * ident => N.eqb (fst b) 0) brs = Some (j, m) -> L (TRef m)) -> L (TRef n).
  Proof.
    intros Es H. destruct (find (fun b : N * ident => N.eqb (fst b) 0) brs) as [[j m]|] eqn:Ef.
    - destruct (H j m eq_refl) as [f0 H0]. exists (S f0). intros [|fuel] Hf r E; [lia|]. cbn [sdec]. rewrite Es, read_u32_latched by exact E.
      cbv beta iota. rewrite read_byte0_latched by exact E. cbv beta iota. rewrite Ef.
      destruct (H0 fuel ltac:(lia) (push r (clamp (0 + 1) r)) E) as (v & r3 & -> & E3). cbn [obindO]. rewrite E3.
      eexists _, r3. split; [reflexivity|exact E3].
    - exists 1. intros [|fuel] Hf r E; [lia|]. cbn [sdec]. rewrite Es, read_u32_latched by exact E.
      cbv beta iota. rewrite read_byte0_latched by exact E. cbv beta iota. rewrite Ef. eexists _, _. split; [reflexivity|]. cbn [pop drain err push]. exact E.
  Qed.

  (* which record types a latched run can still reach through a union's branch 0 must nest finitely: a derivation of lt_ok *)
  Inductive lt_ok : ty -> Prop :=
  | LPrim p : lt_ok (TPrim p)
  | LArr t : lt_ok (TArr t)
  | LMap k t : lt_ok (TMap k t)
  | LStruct n fs : s n = Some (DStruct fs) -> (forall f, In f fs -> lt_ok f) -> lt_ok (TRef n)
  | LMsg n fs deps : s n = Some (DMsg fs deps) -> lt_ok (TRef n)
  | LUnion n brs : s n = Some (DUnion brs) ->
      (forall j m, find (fun b : N * ident => N.eqb (fst b) 0) brs = Some (j, m) -> lt_ok (TRef m)) -> lt_ok (TRef n).

  Lemma lt_ok_L t : lt_ok t -> L t.
  Proof.
    induction 1 as [p|t|k t|n fs Es _ IH|n fs deps Es|n brs Es _ IH].
    - apply L_prim. - apply L_arr. - apply L_map.
    - apply (L_struct n fs Es). apply Forall_forall. exact IH.
    - apply (L_msg n fs deps Es).
    - apply (L_union n brs Es IH).
  Qed.

  (* a union that declares a branch 0 (the discriminator a latched reader sees): its type must be latched-decodable *)
  Hypothesis H0' : forall n brs j m, s n = Some (DUnion brs) ->
    find (fun b : N * ident => N.eqb (fst b) 0) brs = Some (j, m) -> lt_ok (TRef m).

  (* every type that HAS an encodable value is latched-decodable: the value bounds the nesting of structs *)
  Lemma L_val : forall v t a, enc s t v = Some a -> L t.
  Proof.
    unfold enc.
    induction v using value_ind'; intros t a; destruct t; cbn [enc_with]; try discriminate;
      try (intros _; first [apply L_prim|apply L_arr|apply L_map]).
    - (* struct *)
      destruct (s n) as [[fs| |]|] eqn:Es; try discriminate. intros E. apply (L_struct n fs Es).
      clear Es. revert fs a E. induction H as [|x xs Hx _ IH]; intros [|f fs] a; cbn [zip_opt]; try discriminate.
      + constructor.
      + destruct (enc_with s true f x) as [a1|] eqn:Ex; cbn [obind]; [|discriminate].
        destruct (zip_opt (enc_with s true) fs xs) as [b|] eqn:Exs; cbn [obind]; [|discriminate].
        intros _. constructor; [exact (Hx f a1 Ex)|exact (IH fs b Exs)].
    - (* message *)
      destruct (s n) as [[|fs deps|]|] eqn:Es; try discriminate. intros _. apply (L_msg n fs deps Es).
    - (* union *)
      destruct (s n) as [[| |brs]|] eqn:Es; try discriminate. intros _. apply (L_union n brs Es).
      intros j m Ef. apply lt_ok_L. exact (H0' n brs j m Es Ef).
  Qed.

  (* ---------- the cut: k bytes of the encoding are left, then the reader fails ---------- *)
  Definition TR (v : value) := forall t a, enc s t v = Some a ->
    exists f0, forall fuel, f0 <= fuel -> forall k r, k < length a -> data (bs r) = firstn k a -> cut r k ->
      latched (sdec s None fuel t r).

  Lemma firstn_app_ge {A} (a b : list A) k : length a <= k -> firstn k (a ++ b) = a ++ firstn (k - length a) b.
  Proof. intros H. rewrite firstn_app, firstn_all2 by lia. reflexivity. Qed.
  Lemma firstn_app_lt {A} (a b : list A) k : k <= length a -> firstn k (a ++ b) = firstn k a.
  Proof. intros H. rewrite firstn_app. replace (k - length a) with 0 by lia. cbn [firstn]. apply app_nil_r. Qed.

  (* a part that lies wholly before the cut decodes as in the round trip *)
  Lemma srt_step v t a1 : enc s t v = Some a1 -> exists f0, forall fuel, f0 <= fuel -> forall k r b,
    length a1 <= k -> data (bs r) = firstn k (a1 ++ b) -> cut r k ->
    exists r1, sdec s None fuel t r = Ok (v, r1) /\ data (bs r1) = firstn (k - length a1) b /\ cut r1 (k - length a1).
  Proof.
    intros E. destruct (stream_roundtrip s Hwf v t a1 E) as [f0 H]. exists f0. intros fuel Hf k r b Hk D C.
    rewrite firstn_app_ge in D by exact Hk.
    destruct (H fuel Hf r _ D (cut_limits r k _ C Hk) (proj2 (proj2 C))) as (r1 & -> & A).
    exists r1. split; [reflexivity|]. split; [|exact (cut_adv r k _ r1 C A Hk)].
    destruct A as (-> & _). rewrite D. apply skipn_app_len.
  Qed.
  Lemma prim_step p v a1 : enc_prim p v = Some a1 -> forall k r b,
    length a1 <= k -> data (bs r) = firstn k (a1 ++ b) -> cut r k ->
    exists r1, sdec_prim None p r = Ok (v, r1) /\ data (bs r1) = firstn (k - length a1) b /\ cut r1 (k - length a1).
  Proof.
    intros E k r b Hk D C. rewrite firstn_app_ge in D by exact Hk.
    destruct (sdec_prim_ok p v a1 _ r E D (cut_limits r k _ C Hk) (proj2 (proj2 C))) as (r1 & -> & A).
    exists r1. split; [reflexivity|]. split; [|exact (cut_adv r k _ r1 C A Hk)].
    destruct A as (-> & _). rewrite D. apply skipn_app_len.
  Qed.

  Lemma elems_latched d c : (forall r, err r = true -> latched (d r)) -> forall r, err r = true -> latched (sdec_elems d c r).
  Proof.
    intros Hd. induction c as [|c IH]; intros r E; cbn [sdec_elems].
    - eexists _, r. split; [reflexivity|exact E].
    - destruct (Hd r E) as (v & r1 & -> & E1). cbn [obindO]. destruct (IH r1 E1) as (vs & r2 & -> & E2). cbn [obindO].
      eexists _, r2. split; [reflexivity|exact E2].
  Qed.
  Lemma entries_latched dk d c : (forall r, err r = true -> latched (dk r)) -> (forall r, err r = true -> latched (d r)) ->
    forall r, err r = true -> latched (sdec_entries dk d c r).
  Proof.
    intros Hk Hd. induction c as [|c IH]; intros r E; cbn [sdec_entries].
    - eexists _, r. split; [reflexivity|exact E].
    - destruct (Hk r E) as (kv & r1 & -> & E1). cbn [obindO]. destruct (Hd r1 E1) as (v & r2 & -> & E2). cbn [obindO].
      destruct (IH r2 E2) as (vs & r3 & -> & E3). cbn [obindO]. eexists _, r3. split; [reflexivity|exact E3].
  Qed.

  Lemma elems_cut t l : Forall TR l -> forall body, cat_opt (enc s t) l = Some body ->
    exists f0, forall fuel, f0 <= fuel -> forall k r, k < length body -> data (bs r) = firstn k body -> cut r k ->
      latched (sdec_elems (sdec s None fuel t) (length l) r).
  Proof.
    intros H. induction H as [|x xs Hx _ IH]; cbn [cat_opt]; intros body E.
    - injection E as <-. exists 0. intros fuel _ k r Hk. cbn in Hk. lia.
    - destruct (enc s t x) as [a1|] eqn:Ex; cbn [obind] in E; [|discriminate].
      destruct (cat_opt (enc s t) xs) as [b|] eqn:Exs; cbn [obind] in E; [|discriminate].
      destruct (L_val x t a1 Ex) as [fl Hl].
      injection E as <-. destruct (Hx t a1 Ex) as [f1 H1]. destruct (IH b eq_refl) as [f2 H2]. destruct (srt_step x t a1 Ex) as [f3 H3].
      exists (max fl (max f1 (max f2 f3))). intros fuel Hf k r Hk D C. cbn [length sdec_elems]. rewrite app_length in Hk.
      destruct (Nat.lt_ge_cases k (length a1)) as [Hlt|Hge].
      + rewrite firstn_app_lt in D by lia.
        destruct (H1 fuel ltac:(lia) k r Hlt D C) as (v & r1 & -> & E1). cbn [obindO].
        destruct (elems_latched (sdec s None fuel t) (length xs) (Hl fuel ltac:(lia)) r1 E1) as (vs & r2 & -> & E2). cbn [obindO].
        eexists _, r2. split; [reflexivity|exact E2].
      + destruct (H3 fuel ltac:(lia) k r b Hge D C) as (r1 & -> & D1 & C1). cbn [obindO].
        destruct (H2 fuel ltac:(lia) (k - length a1) r1 ltac:(lia) D1 C1) as (vs & r2 & -> & E2). cbn [obindO].
        eexists _, r2. split; [reflexivity|exact E2].
  Qed.

  Lemma entries_cut kp t l : Forall (fun kv => TR (snd kv)) l -> forall body,
    cat_opt (fun kv : value * value => a <- enc_prim kp (fst kv) ;; b <- enc s t (snd kv) ;; Some (a ++ b)) l = Some body ->
    exists f0, forall fuel, f0 <= fuel -> forall k r, k < length body -> data (bs r) = firstn k body -> cut r k ->
      latched (sdec_entries (sdec_prim None kp) (sdec s None fuel t) (length l) r).
  Proof.
    intros H. induction H as [|[kx vx] xs Hx _ IH]; cbn [cat_opt]; intros body E.
    - injection E as <-. exists 0. intros fuel _ k r Hk. cbn in Hk. lia.
    - cbn [fst snd] in *.
      destruct (enc_prim kp kx) as [ak|] eqn:Ek; cbn [obind] in E; [|discriminate].
      destruct (enc s t vx) as [av|] eqn:Ex; cbn [obind] in E; [|discriminate].
      destruct (cat_opt _ xs) as [b|] eqn:Exs; cbn [obind] in E; [|discriminate].
      destruct (L_val vx t av Ex) as [fl Hl].
      injection E as <-. destruct (Hx t av Ex) as [f1 H1]. destruct (IH b eq_refl) as [f2 H2]. destruct (srt_step vx t av Ex) as [f3 H3].
      exists (max fl (max f1 (max f2 f3))). intros fuel Hf k r Hk D C. cbn [length sdec_entries]. rewrite !app_length in Hk.
      rewrite <- app_assoc in D.
      assert (Hlat : forall r0, err r0 = true -> latched (sdec_entries (sdec_prim None kp) (sdec s None fuel t) (length xs) r0)).
      { apply entries_latched; [apply sdec_prim_latched|apply Hl; lia]. }
      destruct (Nat.lt_ge_cases k (length ak)) as [Hlt|Hge].
      + (* cut inside the key *)
        rewrite firstn_app_lt in D by lia.
        destruct (sdec_prim_cut kp kx ak r k Ek Hlt D C) as (kv & r1 & -> & E1). cbn [obindO].
        destruct (Hl fuel ltac:(lia) r1 E1) as (v & r2 & -> & E2). cbn [obindO].
        destruct (Hlat r2 E2) as (vs & r3 & -> & E3). cbn [obindO]. eexists _, r3. split; [reflexivity|exact E3].
      + destruct (prim_step kp kx ak Ek k r (av ++ b) Hge D C) as (r1 & -> & D1 & C1). cbn [obindO].
        destruct (Nat.lt_ge_cases (k - length ak) (length av)) as [Hlt2|Hge2].
        * (* cut inside the value *)
          rewrite firstn_app_lt in D1 by lia.
          destruct (H1 fuel ltac:(lia) _ r1 Hlt2 D1 C1) as (v & r2 & -> & E2). cbn [obindO].
          destruct (Hlat r2 E2) as (vs & r3 & -> & E3). cbn [obindO]. eexists _, r3. split; [reflexivity|exact E3].
        * destruct (H3 fuel ltac:(lia) _ r1 b Hge2 D1 C1) as (r2 & -> & D2 & C2). cbn [obindO].
          destruct (H2 fuel ltac:(lia) (k - length ak - length av) r2 ltac:(lia) D2 C2) as (vs & r3 & -> & E3). cbn [obindO].
          eexists _, r3. split; [reflexivity|exact E3].
  Qed.

  Lemma zip_L l : forall fs a, zip_opt (enc s) fs l = Some a -> Forall L fs.
  Proof.
    induction l as [|x xs IH]; intros [|f fs] a; cbn [zip_opt]; try discriminate; [constructor|].
    destruct (enc s f x) as [a1|] eqn:Ex; cbn [obind]; [|discriminate].
    destruct (zip_opt (enc s) fs xs) as [b|] eqn:Exs; cbn [obind]; [|discriminate].
    intros _. constructor; [exact (L_val x f a1 Ex)|exact (IH fs b Exs)].
  Qed.

  Lemma fields_cut l : Forall TR l -> forall fs a, zip_opt (enc s) fs l = Some a ->
    exists f0, forall fuel, f0 <= fuel -> forall k r, k < length a -> data (bs r) = firstn k a -> cut r k ->
      latched (sdec_fields (sdec s None fuel) fs r).
  Proof.
    induction 1 as [|x xs Hx _ IH]; intros [|f fs] a; cbn [zip_opt]; try discriminate.
    - intros [= <-]. exists 0. intros fuel _ k r Hk. cbn in Hk. lia.
    - destruct (enc s f x) as [a1|] eqn:Ex; cbn [obind]; [|discriminate].
      destruct (zip_opt (enc s) fs xs) as [b|] eqn:Exs; cbn [obind]; [|discriminate].
      intros [= <-]. destruct (Hx f a1 Ex) as [f1 H1]. destruct (IH fs b Exs) as [f2 H2]. destruct (srt_step x f a1 Ex) as [f3 H3].
      destruct (fields_latched fs (zip_L xs fs b Exs)) as [f4 H4].
      exists (max f1 (max f2 (max f3 f4))). intros fuel Hf k r Hk D C. cbn [sdec_fields]. rewrite app_length in Hk.
      destruct (Nat.lt_ge_cases k (length a1)) as [Hlt|Hge].
      + rewrite firstn_app_lt in D by lia.
        destruct (H1 fuel ltac:(lia) k r Hlt D C) as (v & r1 & -> & E1). cbn [obindO]. rewrite E1.
        destruct (is_ref f); cbn [andb].
        * eexists _, r1. split; [reflexivity|exact E1].
        * destruct (H4 fuel ltac:(lia) r1 E1) as (vs & r2 & -> & E2). cbn [obindO]. eexists _, r2. split; [reflexivity|exact E2].
      + destruct (H3 fuel ltac:(lia) k r b Hge D C) as (r1 & -> & D1 & C1). cbn [obindO].
        rewrite (proj2 (proj2 C1)), andb_false_r.
        destruct (H2 fuel ltac:(lia) (k - length a1) r1 ltac:(lia) D1 C1) as (vs & r2 & -> & E2). cbn [obindO].
        eexists _, r2. split; [reflexivity|exact E2].
  Qed.

  Lemma byte_step k r x b : 1 <= k -> data (bs r) = firstn k (x :: b) -> cut r k ->
    exists r1, read_byte0 r = (x, r1) /\ data (bs r1) = firstn (k - 1) b /\ cut r1 (k - 1).
  Proof.
    intros Hk D C. destruct k as [|k]; [lia|]. cbn [firstn] in D.
    destruct (read_byte0_ok r x _ D) as (r1 & -> & A).
    { split; [destruct C as (-> & _); lia|apply (cut_limits r (S k) 1 C); lia]. } { apply C. }
    exists r1. split; [reflexivity|]. split; [|exact (cut_adv r (S k) 1 r1 C A ltac:(lia))].
    destruct A as (-> & _). rewrite D. cbn [skipn Nat.sub]. now rewrite ?Nat.sub_0_r.
  Qed.
  Lemma u32_step k r n b : (n < 2 ^ 32)%N -> 4 <= k -> data (bs r) = firstn k (le_enc 4 n ++ b) -> cut r k ->
    exists r1, read_u32 r = (n, r1) /\ data (bs r1) = firstn (k - 4) b /\ cut r1 (k - 4).
  Proof.
    intros Hn Hk D C. rewrite firstn_app_ge, le_enc_length in D by (rewrite le_enc_length; exact Hk).
    destruct (read_u32_ok r n _ Hn D) as (r1 & -> & A).
    { split; [destruct C as (-> & _); lia|apply (cut_limits r k 4 C Hk)]. } { apply C. }
    exists r1. split; [reflexivity|]. split; [|exact (cut_adv r k 4 r1 C A Hk)].
    destruct A as (-> & _). rewrite D. apply skipn_le4.
  Qed.
  Lemma clamp_cut len r k : cut r k -> k < N.to_nat len -> clamp len r = S k.
  Proof. intros (D & _) H. unfold clamp, avail. rewrite D. lia. Qed.
  Lemma cut_push r k : cut r k -> cut (push r (S k)) k.
  Proof. intros (D & Lm & E). repeat split; cbn [push bs limits err]; auto. Qed.

  (* the message loop with the cut somewhere in the remaining fields or at the terminator *)
  Lemma smsg_cut fs_all deps : msg_wf fs_all -> forall l_suf,
    Forall (fun o => match o with Some v => TR v | None => True end) l_suf ->
    forall fs_pre fs_suf body,
      fs_all = fs_pre ++ fs_suf ->
      zip_opt (msg_field true deps (enc s)) fs_suf l_suf = Some body ->
      exists f0, forall fuel g acc, f0 <= fuel -> length body < g -> forall k r,
        k < length body + 1 -> data (bs r) = firstn k (body ++ [0%N]) -> cut r k ->
        latched (smsg_loop (sdec s None fuel) fs_all g r acc).
  Proof.
    intros Hwfm. pose proof Hwfm as [Hnd Hnz].
    assert (Hend : forall d g acc r, cut r 0 -> latched (smsg_loop d fs_all (S g) r acc)).
    { intros d g acc r C. cbn [smsg_loop]. destruct (read_byte0_short r C) as (r1 & -> & E1).
      rewrite index_of_none by exact Hnz. eexists _, _. split; [reflexivity|]. cbn [pop drain err]. exact E1. }
    induction 1 as [|o xs Ho _ IH]; intros fs_pre [|[i f] fs'] body Hall; cbn [zip_opt]; try discriminate.
    - intros [= <-]. exists 0. intros fuel [|g] acc _ Hg k r Hk D C; [cbn in Hg; lia|].
      cbn [length plus] in Hk. assert (k = 0) by lia. subst k. apply Hend. exact C.
    - destruct o as [x|]; cbn [msg_field obind fst snd].
      + destruct (mem i deps); [discriminate|].
        destruct (enc s f x) as [a|] eqn:Ex; cbn [obind]; [|discriminate].
        destruct (zip_opt _ fs' xs) as [b|] eqn:Exs; cbn [obind]; [|discriminate].
        intros [= <-]. destruct (Ho f a Ex) as [f1 H1]. destruct (srt_step x f a Ex) as [f3 H3].
        destruct (IH (fs_pre ++ [(i, f)]) fs' b) as [f2 H2]. { now rewrite <- app_assoc. } { exact Exs. }
        exists (max f1 (max f2 f3)). intros fuel [|g] acc Hf Hg k r Hk D C; [cbn in Hg; lia|].
        cbn [length app] in Hk, Hg, D. rewrite app_length in Hk, Hg.
        destruct k as [|k]; [apply Hend; exact C|].
        cbn [smsg_loop].
        destruct (byte_step (S k) r i ((a ++ b) ++ [0%N]) ltac:(lia) D C) as (r1 & -> & D1 & C1).
        cbn [Nat.sub] in D1, C1. rewrite Nat.sub_0_r in D1, C1.
        assert (Hi : ~ In i (map fst fs_pre)).
        { subst fs_all. rewrite map_app in Hnd. cbn in Hnd. apply NoDup_remove_2 in Hnd.
          intros Hin. apply Hnd. apply in_or_app. now left. }
        subst fs_all. rewrite index_of_app by assumption. rewrite <- app_assoc in D1.
        destruct (Nat.lt_ge_cases k (length a)) as [Hlt|Hge].
        * rewrite firstn_app_lt in D1 by lia.
          destruct (H1 fuel ltac:(lia) k r1 Hlt D1 C1) as (v & r2 & -> & E2). cbn [obindO]. rewrite E2.
          destruct (is_ref f); cbn [andb].
          -- eexists _, r2. split; [reflexivity|exact E2].
          -- destruct g as [|g]; [lia|]. apply smsg_latched; [exact Hwfm|exact E2].
        * destruct (H3 fuel ltac:(lia) k r1 (b ++ [0%N]) Hge D1 C1) as (r2 & -> & D2 & C2). cbn [obindO].
          rewrite (proj2 (proj2 C2)), andb_false_r.
          apply (H2 fuel g _ ltac:(lia) ltac:(lia) (k - length a) r2 ltac:(lia) D2 C2).
      + destruct (zip_opt _ fs' xs) as [b|] eqn:Exs; cbn [obind]; [|discriminate].
        intros [= <-]. cbn [app].
        destruct (IH (fs_pre ++ [(i, f)]) fs' b) as [f2 H2]. { now rewrite <- app_assoc. } { exact Exs. }
        exists f2. intros fuel g acc Hf Hg k r Hk D C. exact (H2 fuel g acc Hf Hg k r Hk D C).
  Qed.

  (* the header of a length-prefixed record cut short: from then on the run is the run on a latched reader *)
  Theorem truncation_latches : forall v, TR v.
  Proof.
    unfold TR, enc.
    induction v using value_ind'; intros t a; destruct t; cbn [enc_with]; try discriminate;
      try (intros E; exists 1; intros [|fuel] Hf k r Hk D C; [lia|]; cbn [sdec]; now eapply sdec_prim_cut; eauto).
    - (* array *)
      destruct (count_ok _) eqn:Ec; [|discriminate].
      destruct (cat_opt (enc_with s true t) l) as [body|] eqn:E; cbn [obind]; [|discriminate].
      intros [= <-]. destruct (elems_cut t l H body E) as [f0 H0].
      exists (S f0). intros [|fuel] Hf k r Hk D C; [lia|]. cbn [sdec]. rewrite app_length, le_enc_length in Hk.
      destruct (Nat.lt_ge_cases k 4) as [H4|H4].
      + destruct (read_u32_short r k C H4) as (r1 & -> & E1).
        cbn [count_within negb N.to_nat sdec_elems obindO]. eexists _, r1. split; [reflexivity|exact E1].
      + destruct (u32_step k r (N.of_nat (length l)) body) as (r1 & -> & D1 & C1); auto.
        { unfold count_ok in Ec. now apply N.ltb_lt. }
        cbn [count_within negb]. rewrite Nat2N.id.
        destruct (H0 fuel ltac:(lia) (k - 4) r1 ltac:(lia) D1 C1) as (vs & r2 & -> & E2). cbn [obindO].
        eexists _, r2. split; [reflexivity|exact E2].
    - (* map *)
      destruct (count_ok _) eqn:Ec; [|discriminate].
      destruct (cat_opt _ l) as [body|] eqn:E; cbn [obind]; [|discriminate].
      intros [= <-].
      assert (H' : Forall (fun kv : value * value => TR (snd kv)) l).
      { eapply Forall_impl; [|exact H]. cbn beta. intros kv [_ Hv]. exact Hv. }
      destruct (entries_cut k t l H' body E) as [f0 H0].
      exists (S f0). intros [|fuel] Hf k0 r Hk D C; [lia|]. cbn [sdec]. rewrite app_length, le_enc_length in Hk.
      destruct (Nat.lt_ge_cases k0 4) as [H4|H4].
      + destruct (read_u32_short r k0 C H4) as (r1 & -> & E1).
        cbn [count_within negb N.to_nat sdec_entries obindO]. eexists _, r1. split; [reflexivity|exact E1].
      + destruct (u32_step k0 r (N.of_nat (length l)) body) as (r1 & -> & D1 & C1); auto.
        { unfold count_ok in Ec. now apply N.ltb_lt. }
        cbn [count_within negb]. rewrite Nat2N.id.
        destruct (H0 fuel ltac:(lia) (k0 - 4) r1 ltac:(lia) D1 C1) as (vs & r2 & -> & E2). cbn [obindO].
        eexists _, r2. split; [reflexivity|exact E2].
    - (* struct *)
      destruct (s n) as [[fs| |]|] eqn:Es; try discriminate.
      intros E. destruct (fields_cut l H fs a E) as [f0 H0].
      exists (S f0). intros [|fuel] Hf k r Hk D C; [lia|]. cbn [sdec]. rewrite Es.
      destruct (H0 fuel ltac:(lia) k r Hk D C) as (vs & r1 & -> & E1). cbn [obindO]. eexists _, r1. split; [reflexivity|exact E1].
    - (* message *)
      destruct (s n) as [[|fs deps|]|] eqn:Es; try discriminate.
      destruct (zip_opt _ fs l) as [body|] eqn:E; cbn [obind]; [|discriminate].
      destruct (count_ok _) eqn:Ec; [|discriminate].
      intros [= <-].
      destruct (smsg_cut fs deps (Hwf _ _ _ Es) l H [] fs body eq_refl E) as [f0 H0].
      destruct (L_msg n fs deps Es) as [fl Hl].
      exists (S (max fl f0 + length body + 1)). intros [|fuel] Hf k r Hk D C; [lia|].
      rewrite !app_length, le_enc_length in Hk. cbn [length] in Hk.
      destruct (Nat.lt_ge_cases k 4) as [H4|H4].
      + (* the header itself is cut: the run is the run on the latched reader *)
        destruct (read_u32_short r k C H4) as (r1 & Hr & E1).
        pose proof (Hl (S fuel) ltac:(lia) r1 E1) as HL. cbn [sdec] in HL |- *. rewrite Es in HL |- *.
        rewrite read_u32_latched in HL by exact E1. rewrite Hr. exact HL.
      + cbn [sdec]. rewrite Es.
        destruct (u32_step k r (N.of_nat (length body + 1)) (body ++ [0%N])) as (r1 & -> & D1 & C1); auto.
        { unfold count_ok in Ec. now apply N.ltb_lt. }
        rewrite (clamp_cut _ r1 (k - 4) C1) by lia.
        destruct (H0 fuel fuel (map (fun _ => None) fs) ltac:(lia) ltac:(lia) (k - 4) (push r1 (S (k - 4))) ltac:(lia) D1 (cut_push r1 _ C1)) as (lv & r2 & -> & E2).
        cbn [obindO]. eexists _, r2. split; [reflexivity|exact E2].
    - (* union *)
      destruct (s n) as [[| |brs]|] eqn:Es; try discriminate.
      destruct (find _ brs) as [[j m]|] eqn:Ef; [|discriminate].
      destruct (enc_with s true (TRef m) v) as [a1|] eqn:Ex; cbn [obind]; [|discriminate].
      destruct (count_ok _) eqn:Ec; [|discriminate].
      intros [= <-]. destruct (IHv (TRef m) a1 Ex) as [f0 H0].
      assert (HLu : L (TRef n)).
      { apply (L_union n brs Es). intros j0 m0 Ef0. apply lt_ok_L. exact (H0' n brs j0 m0 Es Ef0). }
      destruct HLu as [fl Hl].
      (* the branch a latched reader is sent to (discriminator 0), if the union declares one *)
      assert (Hm0 : exists fm, forall j0 m0, find (fun b : N * ident => N.eqb (fst b) 0) brs = Some (j0, m0) ->
                      forall fuel, fm <= fuel -> forall r0, err r0 = true -> latched (sdec s None fuel (TRef m0) r0)).
      { destruct (find (fun b : N * ident => N.eqb (fst b) 0) brs) as [[j0 m0]|] eqn:Ef0.
        - destruct (lt_ok_L _ (H0' n brs j0 m0 Es Ef0)) as [fm Hm]. exists fm. intros j1 m1 [= <- <-]. exact Hm.
        - exists 0. intros j1 m1 [=]. }
      destruct Hm0 as [fm Hm0].
      exists (S (max fl (max f0 fm))). intros [|fuel] Hf k r Hk D C; [lia|].
      rewrite app_length, le_enc_length in Hk. cbn [length] in Hk.
      destruct (Nat.lt_ge_cases k 4) as [H4|H4].
      + destruct (read_u32_short r k C H4) as (r1 & Hr & E1).
        pose proof (Hl (S fuel) ltac:(lia) r1 E1) as HL. cbn [sdec] in HL |- *. rewrite Es in HL |- *.
        rewrite read_u32_latched in HL by exact E1. rewrite Hr. exact HL.
      + cbn [sdec]. rewrite Es.
        destruct (u32_step k r (N.of_nat (length a1)) (i :: a1)) as (r1 & -> & D1 & C1); auto.
        { unfold count_ok in Ec. now apply N.ltb_lt. }
        rewrite (clamp_cut _ r1 (k - 4) C1) by lia.
        pose proof (cut_push r1 _ C1) as Cp.
        destruct (Nat.eq_dec (k - 4) 0) as [Hz|Hnz].
        * (* the discriminator is missing: it reads as 0 on a reader that is latched from here on *)
          rewrite Hz in *. destruct (read_byte0_short _ Cp) as (r2 & -> & E2).
          destruct (find (fun b : N * N => (fst b =? 0)%N) brs) as [[j0 m0]|] eqn:Ef0.
          -- destruct (Hm0 j0 m0 eq_refl fuel ltac:(lia) r2 E2) as (v0 & r3 & -> & E3). cbn [obindO]. rewrite E3.
             eexists _, r3. split; [reflexivity|exact E3].
          -- eexists _, _. split; [reflexivity|]. cbn [pop drain err]. exact E2.
        * destruct (byte_step (k - 4) (push r1 (S (k - 4))) i a1 ltac:(lia) D1 Cp) as (r2 & -> & D2 & C2).
          rewrite Ef.
          destruct (H0 fuel ltac:(lia) (k - 4 - 1) r2 ltac:(lia) D2 C2) as (v0 & r3 & -> & E3). cbn [obindO]. rewrite E3.
          eexists _, r3. split; [reflexivity|exact E3].
  Qed.
End Fault.

(* ---------- the statement the property files quote ---------- *)
(* a union that declares a branch 0 - the discriminator a latched reader sees - must lead to records that nest finitely *)
Definition union0_ok (s : schema) : Prop := forall n brs j m, s n = Some (DUnion brs) ->
  find (fun b : N * ident => N.eqb (fst b) 0) brs = Some (j, m) -> lt_ok s (TRef m).

(* the reader that delivers exactly the first k bytes of a, in chunks of any sizes, under any enclosing limits beyond them,
   and then fails (end of file or any other error: the model does not distinguish them, nor does ErrorReader) *)
Definition truncated (a : bytes) (k : nat) (sch lims : list nat) : er :=
  {| bs := {| data := firstn k a; sched := sch |}; limits := lims; err := false |}.

Definition truncation_statement : Prop :=
  forall s, schema_wf s -> union0_ok s -> forall t v a, enc s t v = Some a ->
    exists f0, forall fuel, f0 <= fuel -> forall k sch lims, k < length a -> Forall (fun l => k < l) lims ->
      exists v' r', sdec s None fuel t (truncated a k sch lims) = Ok (v', r') /\ err r' = true.

Lemma truncation_holds : truncation_statement.
Proof.
  intros s Hwf H0 t v a E. destruct (truncation_latches s Hwf H0 v t a E) as [f0 H]. exists f0.
  intros fuel Hf k sch lims Hk Hl. apply (H fuel Hf k (truncated a k sch lims) Hk eq_refl).
  repeat split; cbn [truncated bs data limits err]; [rewrite firstn_length; lia|exact Hl].
Qed.

(* ---------- for EVERY stream whatsoever: the stream decoder's only possible panic is an undefined type ---------- *)
Lemma sdec_prim_no_panic lim p r : no_panic (sdec_prim lim p r).
Proof.
  unfold sdec_prim. destruct (int_spec p) as [[w sg]|] eqn:E.
  - destruct (er_read r w). exact I.
  - destruct p; try discriminate E.
    + destruct (er_read r 1). exact I.
    + destruct (read_u32 r) as [n r1]. destruct (negb _); [exact I|]. destruct (er_read r1 (N.to_nat n)). exact I.
    + destruct (er_read r 16). exact I.
Qed.
Lemma selems_no_panic d : (forall r, no_panic (d r)) -> forall k r, no_panic (sdec_elems d k r).
Proof.
  intros Hd. induction k as [|k IH]; intros r; [exact I|]. cbn [sdec_elems].
  apply no_panic_bind; [apply Hd|]. intros [v r1] _. apply no_panic_bind; [apply IH|]. intros [vs r2] _. exact I.
Qed.
Lemma sentries_no_panic dk d : (forall r, no_panic (dk r)) -> (forall r, no_panic (d r)) -> forall k r, no_panic (sdec_entries dk d k r).
Proof.
  intros Hk Hd. induction k as [|k IH]; intros r; [exact I|]. cbn [sdec_entries].
  apply no_panic_bind; [apply Hk|]. intros [kv r1] _. apply no_panic_bind; [apply Hd|]. intros [v r2] _.
  apply no_panic_bind; [apply IH|]. intros [vs r3] _. exact I.
Qed.
Lemma sfields_no_panic (d : ty -> SD) : (forall t r, no_panic (d t r)) -> forall fs r, no_panic (sdec_fields d fs r).
Proof.
  intros Hd. induction fs as [|f fs IH]; intros r; [exact I|]. cbn [sdec_fields].
  apply no_panic_bind; [apply Hd|]. intros [v r1] _. destruct (is_ref f && err r1); [exact I|].
  apply no_panic_bind; [apply IH|]. intros [vs r2] _. exact I.
Qed.
Lemma smsg_no_panic (d : ty -> SD) fs : (forall t r, no_panic (d t r)) -> forall g r acc, no_panic (smsg_loop d fs g r acc).
Proof.
  intros Hd. induction g as [|g IH]; intros r acc; [exact I|]. cbn [smsg_loop].
  destruct (read_byte0 r) as [i r1]. destruct (index_of i fs) as [[k f]|]; [|exact I].
  apply no_panic_bind; [apply Hd|]. intros [v r2] _. destruct (is_ref f && err r2); [exact I|apply IH].
Qed.
Theorem stream_decoder_never_panics s lim : forall fuel t r, no_panic (sdec s lim fuel t r).
Proof.
  induction fuel as [|fuel IH]; intros t r; [exact I|]. destruct t; cbn [sdec].
  - apply sdec_prim_no_panic.
  - destruct (s n) as [[fs|fs deps|brs]|]; [| | |reflexivity].
    + apply no_panic_bind; [apply sfields_no_panic; apply IH|]. intros [vs r1] _. exact I.
    + destruct (read_u32 r) as [len r1]. apply no_panic_bind; [apply smsg_no_panic; apply IH|]. intros [l r2] _. exact I.
    + destruct (read_u32 r) as [len r1]. destruct (read_byte0 _) as [i r2]. destruct (find _ brs) as [[j m]|]; [|exact I].
      apply no_panic_bind; [apply IH|]. intros [v r3] _. destruct (err r3); exact I.
  - destruct (read_u32 r) as [n r1]. destruct (negb _); [exact I|].
    apply no_panic_bind; [apply selems_no_panic; apply IH|]. intros [vs r2] _. exact I.
  - destruct (read_u32 r) as [n r1]. destruct (negb _); [exact I|].
    apply no_panic_bind; [apply sentries_no_panic; [apply sdec_prim_no_panic|apply IH]|]. intros [vs r2] _. exact I.
Qed.

(* ---------- the proportionality guard on the stream path only ever exits early ---------- *)
(* what a stream decode WITH the limit returns, unless it is Excess, is what the run WITHOUT the limit returns: the
   harness runs the model with a limit (to stay executable on hostile counts), the theorems above are about lim = None *)
Lemma sdec_prim_guard k p r : not_excess (sdec_prim (Some k) p r) = true -> sdec_prim None p r = sdec_prim (Some k) p r.
Proof.
  unfold sdec_prim. destruct (int_spec p) as [[w sg]|]; [reflexivity|]. destruct p; try reflexivity.
  destruct (read_u32 r) as [n r1]. cbn [count_within negb]. destruct (_ <=? _)%N; cbn [negb]; [reflexivity|discriminate].
Qed.
Lemma selems_guard (d d' : SD) : (forall r, not_excess (d r) = true -> d' r = d r) -> forall c r,
  not_excess (sdec_elems d c r) = true -> sdec_elems d' c r = sdec_elems d c r.
Proof.
  intros HR. induction c as [|c IH]; intros r G; cbn [sdec_elems] in *; [reflexivity|].
  apply (bind_refines (@not_excess) not_excess_bind); [exact G|apply HR|]. intros [v r1] _ G1.
  apply (bind_refines (@not_excess) not_excess_bind); [exact G1|apply IH|]. intros [vs r2] _ _. reflexivity.
Qed.
Lemma sentries_guard (dk dk' d d' : SD) : (forall r, not_excess (dk r) = true -> dk' r = dk r) ->
  (forall r, not_excess (d r) = true -> d' r = d r) -> forall c r,
  not_excess (sdec_entries dk d c r) = true -> sdec_entries dk' d' c r = sdec_entries dk d c r.
Proof.
  intros HK HR. induction c as [|c IH]; intros r G; cbn [sdec_entries] in *; [reflexivity|].
  apply (bind_refines (@not_excess) not_excess_bind); [exact G|apply HK|]. intros [kv r1] _ G1.
  apply (bind_refines (@not_excess) not_excess_bind); [exact G1|apply HR|]. intros [v r2] _ G2.
  apply (bind_refines (@not_excess) not_excess_bind); [exact G2|apply IH|]. intros [vs r3] _ _. reflexivity.
Qed.
Lemma sfields_guard (d d' : ty -> SD) : (forall t r, not_excess (d t r) = true -> d' t r = d t r) -> forall fs r,
  not_excess (sdec_fields d fs r) = true -> sdec_fields d' fs r = sdec_fields d fs r.
Proof.
  intros HR. induction fs as [|f fs IH]; intros r G; cbn [sdec_fields] in *; [reflexivity|].
  apply (bind_refines (@not_excess) not_excess_bind); [exact G|apply HR|]. intros [v r1] _ G1.
  destruct (is_ref f && err r1); [reflexivity|].
  apply (bind_refines (@not_excess) not_excess_bind); [exact G1|apply IH|]. intros [vs r2] _ _. reflexivity.
Qed.
Lemma smsg_guard (d d' : ty -> SD) fs : (forall t r, not_excess (d t r) = true -> d' t r = d t r) -> forall g r acc,
  not_excess (smsg_loop d fs g r acc) = true -> smsg_loop d' fs g r acc = smsg_loop d fs g r acc.
Proof.
  intros HR. induction g as [|g IH]; intros r acc G; cbn [smsg_loop] in *; [reflexivity|].
  destruct (read_byte0 r) as [i r1]. destruct (index_of i fs) as [[k f]|]; [|reflexivity].
  apply (bind_refines (@not_excess) not_excess_bind); [exact G|apply HR|]. intros [v r2] _ G1.
  destruct (is_ref f && err r2); [reflexivity|]. apply IH. exact G1.
Qed.
Theorem stream_guard_only_exits_early s k : forall fuel t r,
  not_excess (sdec s (Some k) fuel t r) = true -> sdec s None fuel t r = sdec s (Some k) fuel t r.
Proof.
  induction fuel as [|fuel IH]; intros t r G; [reflexivity|]. destruct t; cbn [sdec] in *.
  - now apply sdec_prim_guard.
  - destruct (s n) as [[fs|fs deps|brs]|]; try reflexivity.
    + apply (bind_refines (@not_excess) not_excess_bind); [exact G| |intros [vs r1] _ _; reflexivity].
      apply sfields_guard. intros t r0. apply IH.
    + destruct (read_u32 r) as [len r1].
      apply (bind_refines (@not_excess) not_excess_bind); [exact G| |intros [l r2] _ _; reflexivity].
      apply smsg_guard. intros t r0. apply IH.
    + destruct (read_u32 r) as [len r1]. destruct (read_byte0 _) as [i r2]. destruct (find _ brs) as [[j m]|]; [|reflexivity].
      apply (bind_refines (@not_excess) not_excess_bind); [exact G|apply IH|intros [v r3] _ _; reflexivity].
  - destruct (read_u32 r) as [n r1]. cbn [count_within negb] in *. destruct (_ <=? _)%N; cbn [negb] in *; [|discriminate].
    apply (bind_refines (@not_excess) not_excess_bind); [exact G| |intros [vs r2] _ _; reflexivity].
    apply selems_guard. intros r0. apply IH.
  - destruct (read_u32 r) as [n r1]. cbn [count_within negb] in *. destruct (_ <=? _)%N; cbn [negb] in *; [|discriminate].
    apply (bind_refines (@not_excess) not_excess_bind); [exact G| |intros [vs r2] _ _; reflexivity].
    apply sentries_guard; [intros r0; apply sdec_prim_guard|intros r0; apply IH].
Qed.
