(* C04 on the stream path: a value encoded under the newer schema s2 is decoded under the older schema s1, in EVERY reader
   state (every chunk schedule, every stack of enclosing limits) to the value restricted to what s1 knows, and the reader
   is left exactly after the encoding - so whatever follows the evolved message in its container is decoded intact. *)
Require Import Bebop.wire.Wire Bebop.wire.WireFacts Bebop.wire.ByteDec Bebop.wire.ByteDecFacts Bebop.wire.StreamDec Bebop.wire.StreamFacts Bebop.wire.Evolve.
Global Opaque le_enc le_dec.

(* Drain when the innermost limit is exactly what is left of the message *)
Lemma drain_top r m others : limits r = m :: others -> Forall (fun l => m <= l) others -> m <= length (data (bs r)) ->
  data (bs (pop (drain r))) = skipn m (data (bs r)) /\ limits (pop (drain r)) = map (fun l => l - m) others /\ err (pop (drain r)) = err r.
Proof.
  intros L Lo Hd. unfold drain, pop, drain_amount. rewrite L. cbn [fold_right bs data limits err map tl].
  assert (E : Nat.min m (fold_right Nat.min (length (data (bs r))) others) = m).
  { apply Nat.min_l. clear L. induction Lo as [|x xs Hx _ IH]; cbn [fold_right]; [exact Hd|]. apply Nat.min_glb; [exact Hx|exact IH]. }
  rewrite E. repeat split.
Qed.

(* the loop stops at a byte the old version does not know (the terminator or a newer index): the rest of the body is drained *)
Lemma smsg_stop (d : ty -> SD) fs g r acc x tail rest others :
  index_of x fs = None ->
  data (bs r) = x :: tail ++ rest -> limits r = (1 + length tail) :: others ->
  Forall (fun l => 1 + length tail <= l) others -> err r = false ->
  exists r', smsg_loop d fs (S g) r acc = Ok (acc, r') /\ data (bs r') = rest /\
             limits r' = map (fun l => l - (1 + length tail)) others /\ err r' = false.
Proof.
  intros Hx D L Lo Er. cbn [smsg_loop].
  destruct (read_byte0_ok r x (tail ++ rest) D) as (r1 & -> & A1); auto.
  { split; [rewrite D; cbn; lia|]. rewrite L. constructor; [lia|]. eapply Forall_impl; [|exact Lo]. cbn beta; intros; lia. }
  rewrite Hx. destruct A1 as (D1 & L1 & E1). rewrite L in L1. cbn [map] in L1.
  replace (1 + length tail - 1) with (length tail) in L1 by lia.
  destruct (drain_top r1 (length tail) (map (fun l => l - 1) others) L1) as (Dd & Ld & Ed).
  { apply Forall_map. eapply Forall_impl; [|exact Lo]. cbn beta; intros; lia. }
  { rewrite D1, D. cbn. rewrite app_length. lia. }
  eexists. split; [reflexivity|]. rewrite Dd, Ld, Ed, D1, D, E1. cbn [skipn]. repeat split.
  - apply skipn_app_len.
  - rewrite map_map. apply map_ext; intros; lia.
  - exact Er.
Qed.

Lemma zip_opt_app {A B} (f : A -> B -> option bytes) : forall a b l body,
  zip_opt f (a ++ b) l = Some body ->
  exists l1 l2 b1 b2, l = l1 ++ l2 /\ length l1 = length a /\ zip_opt f a l1 = Some b1 /\ zip_opt f b l2 = Some b2 /\ body = b1 ++ b2.
Proof.
  induction a as [|x a IH]; intros b l body H.
  - exists [], l, [], body. cbn. repeat split; auto.
  - destruct l as [|y l]; [discriminate|]. cbn [app zip_opt] in H.
    destruct (f x y) as [c|] eqn:Ef; cbn [obind] in H; [|discriminate].
    destruct (zip_opt f (a ++ b) l) as [d|] eqn:Ez; cbn [obind] in H; [|discriminate]. injection H as <-.
    destruct (IH b l d Ez) as (l1 & l2 & b1 & b2 & -> & Hl & Z1 & Z2 & ->).
    exists (y :: l1), l2, (c ++ b1), b2. cbn [app length zip_opt]. rewrite Ef, Z1. cbn [obind].
    repeat split; auto. now rewrite app_assoc.
Qed.

(* what the first byte after the known fields can be *)
Lemma extra_head s2 deps : forall extra le bodye, zip_opt (msg_field true deps (enc s2)) extra le = Some bodye ->
  bodye = [] \/ exists i tl, bodye = i :: tl /\ In i (map fst extra).
Proof.
  induction extra as [|[i f] extra IH]; intros [|o le] bodye H; cbn [zip_opt] in H; try discriminate.
  - injection H as <-. now left.
  - destruct o as [x|]; cbn [msg_field obind fst snd] in H.
    + destruct (mem i deps); [discriminate|].
      destruct (enc s2 f x) as [a|]; cbn [obind] in H; [|discriminate].
      destruct (zip_opt _ extra le) as [b|]; cbn [obind] in H; [|discriminate]. injection H as <-.
      right. exists i, (a ++ b). split; [reflexivity|now left].
    + destruct (zip_opt _ extra le) as [b|] eqn:E; cbn [obind] in H; [|discriminate]. injection H as <-.
      destruct (IH le b E) as [->|(j & tl & -> & Hj)]; [now left|right; exists j, tl; split; [reflexivity|now right]].
Qed.

Lemma nodup_app_l {A} (a b : list A) : NoDup (a ++ b) -> NoDup a.
Proof.
  induction a as [|x a IH]; intros H; [constructor|]. cbn in H. inversion H as [|? ? Hx Hr]; subst.
  constructor; [intros Hin; apply Hx; apply in_or_app; now left|now apply IH].
Qed.

Lemma zip_map_opt_app {A} (f : A -> value -> value) (fs : list A) : forall l1 le, length l1 = length fs ->
  zip_map_opt f fs (l1 ++ le) = zip_map_opt f fs l1.
Proof.
  induction fs as [|f0 fs IH]; intros [|o l1] le Hl; cbn in Hl; try discriminate.
  - cbn. now destruct le as [|[?|] ?].
  - cbn [app zip_map_opt]. destruct o; f_equal; apply IH; lia.
Qed.

Section C04.
  Variables s1 s2 : schema.
  Hypothesis Hext : extends s1 s2.

  Definition ER (v : value) := forall t a, enc s2 t v = Some a ->
    exists f0, forall fuel, f0 <= fuel -> forall r rest,
      data (bs r) = a ++ rest -> Forall (fun l => length a <= l) (limits r) -> err r = false ->
      exists r', sdec s1 None fuel t r = Ok (restrict s1 t v, r') /\ adv r (length a) r'.

  Lemma eelems t l : Forall ER l -> forall body, cat_opt (enc s2 t) l = Some body ->
    exists f0, forall fuel, f0 <= fuel -> forall r rest,
      data (bs r) = body ++ rest -> Forall (fun l => length body <= l) (limits r) -> err r = false ->
      exists r', sdec_elems (sdec s1 None fuel t) (length l) r = Ok (map (restrict s1 t) l, r') /\ adv r (length body) r'.
  Proof.
    induction 1 as [|x xs Hx _ IH]; cbn [cat_opt]; intros body E.
    - inversion E; subst. exists 0. intros fuel _ r rest D L Er. exists r. split; [reflexivity|apply adv_refl].
    - destruct (enc s2 t x) as [a|] eqn:Ex; cbn [obind] in E; [|discriminate].
      destruct (cat_opt (enc s2 t) xs) as [b|] eqn:Exs; cbn [obind] in E; [|discriminate].
      inversion E; subst. destruct (Hx t a Ex) as [f1 H1]. destruct (IH b eq_refl) as [f2 H2].
      exists (max f1 f2). intros fuel Hf r rest D L Er. cbn [length sdec_elems map].
      rewrite <- app_assoc in D. apply lim_app in L.
      destruct (H1 fuel ltac:(lia) r (b ++ rest) D (lim_weaken r (length a + length b) (length a) ltac:(lia) L) Er) as (r1 & -> & A1).
      cbn [obindO].
      destruct (H2 fuel ltac:(lia) r1 rest) as (r2 & -> & A2).
      + destruct A1 as (-> & _). rewrite D. apply skipn_app_len.
      + eapply adv_limits; [exact A1|exact L].
      + eapply adv_err; eauto.
      + cbn [obindO]. exists r2. split; [reflexivity|]. rewrite app_length. eapply adv_trans; eauto.
  Qed.

  Lemma eentries k t l : Forall (fun kv => ER (fst kv) /\ ER (snd kv)) l -> forall body,
    cat_opt (fun kv : value * value => a <- enc_prim k (fst kv) ;; b <- enc s2 t (snd kv) ;; Some (a ++ b)) l = Some body ->
    exists f0, forall fuel, f0 <= fuel -> forall r rest,
      data (bs r) = body ++ rest -> Forall (fun l => length body <= l) (limits r) -> err r = false ->
      exists r', sdec_entries (sdec_prim None k) (sdec s1 None fuel t) (length l) r
                 = Ok (map (fun kv : value * value => (fst kv, restrict s1 t (snd kv))) l, r') /\ adv r (length body) r'.
  Proof.
    induction 1 as [|[kx vx] xs [_ Hx] _ IH]; cbn [cat_opt]; intros body E.
    - inversion E; subst. exists 0. intros fuel _ r rest D L Er. exists r. split; [reflexivity|]. apply adv_refl.
    - cbn [fst snd] in *.
      destruct (enc_prim k kx) as [a|] eqn:Ek; cbn [obind] in E; [|discriminate].
      destruct (enc s2 t vx) as [a'|] eqn:Ex; cbn [obind] in E; [|discriminate].
      destruct (cat_opt _ xs) as [b|] eqn:Exs; cbn [obind] in E; [|discriminate].
      inversion E; subst. destruct (Hx t a' Ex) as [f1 H1]. destruct (IH b eq_refl) as [f2 H2].
      exists (max f1 f2). intros fuel Hf r rest D L Er. cbn [length sdec_entries map fst snd].
      rewrite <- !app_assoc in D.
      assert (L' : Forall (fun l => length a + (length a' + length b) <= l) (limits r)).
      { eapply Forall_impl; [|exact L]. cbn beta. intros x0 Hx0. rewrite !app_length in Hx0. lia. }
      destruct (sdec_prim_ok k kx a (a' ++ b ++ rest) r Ek D (lim_weaken r (length a + (length a' + length b)) (length a) ltac:(lia) L') Er) as (r1 & -> & A1).
      cbn [obindO].
      assert (E1 : err r1 = false) by (eapply adv_err; eauto).
      destruct (H1 fuel ltac:(lia) r1 (b ++ rest)) as (r2 & -> & A2); auto.
      { destruct A1 as (-> & _). rewrite D. apply skipn_app_len. }
      { eapply lim_weaken; [|eapply adv_limits; [exact A1|exact L']]. lia. }
      cbn [obindO].
      assert (E2 : err r2 = false) by (eapply adv_err; eauto).
      destruct (H2 fuel ltac:(lia) r2 rest) as (r3 & -> & A3); auto.
      { destruct A2 as (-> & _). destruct A1 as (-> & _). rewrite D, skipn_app_len. apply skipn_app_len. }
      { eapply adv_limits; [exact A2|]. eapply adv_limits; [exact A1|].
        eapply Forall_impl; [|exact L']. cbn beta; intros; lia. }
      cbn [obindO]. exists r3. split; [reflexivity|]. rewrite !app_length.
      replace (length a + length a' + length b) with (length a + (length a' + length b)) by lia.
      eapply adv_trans; [exact A1|]. eapply adv_trans; eauto.
  Qed.

  Lemma efields l : Forall ER l -> forall fs a, zip_opt (enc s2) fs l = Some a ->
    exists f0, forall fuel, f0 <= fuel -> forall r rest,
      data (bs r) = a ++ rest -> Forall (fun l => length a <= l) (limits r) -> err r = false ->
      exists r', sdec_fields (sdec s1 None fuel) fs r = Ok (zip_map (restrict s1) fs l, r') /\ adv r (length a) r'.
  Proof.
    induction 1 as [|x xs Hx _ IH]; intros [|f fs] a; cbn [zip_opt]; try discriminate.
    - intros [= <-]. exists 0. intros fuel _ r rest D L Er. exists r. split; [reflexivity|apply adv_refl].
    - destruct (enc s2 f x) as [a1|] eqn:Ex; cbn [obind]; [|discriminate].
      destruct (zip_opt (enc s2) fs xs) as [b|] eqn:Exs; cbn [obind]; [|discriminate].
      intros [= <-]. destruct (Hx f a1 Ex) as [f1 H1]. destruct (IH fs b Exs) as [f2 H2].
      exists (max f1 f2). intros fuel Hf r rest D L Er. cbn [sdec_fields zip_map].
      rewrite <- app_assoc in D. apply lim_app in L.
      destruct (H1 fuel ltac:(lia) r (b ++ rest) D (lim_weaken r (length a1 + length b) (length a1) ltac:(lia) L) Er) as (r1 & -> & A1).
      cbn [obindO].
      assert (E1 : err r1 = false) by (eapply adv_err; eauto).
      rewrite E1, andb_false_r.
      destruct (H2 fuel ltac:(lia) r1 rest) as (r2 & -> & A2).
      + destruct A1 as (-> & _). rewrite D. apply skipn_app_len.
      + eapply adv_limits; [exact A1|exact L].
      + exact E1.
      + cbn [obindO]. exists r2. split; [reflexivity|]. rewrite app_length; eapply adv_trans; eauto.
  Qed.

  (* known part of a message, then a byte the old version does not know *)
  Lemma emsg fs1 deps2 : NoDup (map fst fs1) -> forall l_suf,
    Forall (fun o => match o with Some v => ER v | None => True end) l_suf ->
    forall fs_pre fs_suf l_pre body,
      fs1 = fs_pre ++ fs_suf -> length l_pre = length fs_pre ->
      zip_opt (msg_field true deps2 (enc s2)) fs_suf l_suf = Some body ->
      exists f0, forall fuel g, f0 <= fuel -> length body < g -> forall r rest others x tail,
        index_of x fs1 = None ->
        data (bs r) = body ++ (x :: tail) ++ rest -> limits r = (length body + (1 + length tail)) :: others ->
        Forall (fun l => length body + (1 + length tail) <= l) others -> err r = false ->
        exists r', smsg_loop (sdec s1 None fuel) fs1 g r (l_pre ++ map (fun _ => None) fs_suf)
                   = Ok (l_pre ++ zip_map_opt (fun f : N * ty => restrict s1 (snd f)) fs_suf l_suf, r')
                   /\ data (bs r') = rest /\ limits r' = map (fun l => l - (length body + (1 + length tail))) others /\ err r' = false.
  Proof.
    intros Hnd. induction 1 as [|o xs Ho _ IH]; intros fs_pre [|[i f] fs'] l_pre body Hall Hlen; cbn [zip_opt]; try discriminate.
    - intros [= <-]. exists 0. intros fuel [|g] _ Hg r rest others x tail Hx D L Lo Er; [cbn in Hg; lia|].
      cbn [app length plus map zip_map_opt] in *. rewrite app_nil_r.
      destruct (smsg_stop (sdec s1 None fuel) fs1 g r l_pre x tail rest others Hx D L Lo Er) as (r' & H' & R').
      exists r'. split; [exact H'|exact R'].
    - destruct o as [x0|]; cbn [msg_field obind fst snd].
      + destruct (mem i deps2); [discriminate|].
        destruct (enc s2 f x0) as [a|] eqn:Ex; cbn [obind]; [|discriminate].
        destruct (zip_opt _ fs' xs) as [b|] eqn:Exs; cbn [obind]; [|discriminate].
        intros [= <-]. destruct (Ho f a Ex) as [f1 H1].
        destruct (IH (fs_pre ++ [(i, f)]) fs' (l_pre ++ [Some (restrict s1 f x0)]) b) as [f2 H2].
        { now rewrite <- app_assoc. } { rewrite !app_length; cbn; lia. } { exact Exs. }
        exists (max f1 f2). intros fuel [|g] Hf Hg r rest others x tail Hx D L Lo Er; [cbn in Hg; lia|].
        cbn [smsg_loop app map length zip_map_opt fst snd] in *. rewrite app_length in *.
        assert (Hi : ~ In i (map fst fs_pre)).
        { subst fs1. rewrite map_app in Hnd. cbn in Hnd. apply NoDup_remove_2 in Hnd.
          intros Hin. apply Hnd. apply in_or_app. now left. }
        destruct (read_byte0_ok r i ((a ++ b) ++ x :: tail ++ rest) D) as (r1 & -> & A1); auto.
        { split; [rewrite D; cbn; lia|]. rewrite L. constructor; [lia|]. eapply Forall_impl; [|exact Lo]. cbn beta; intros; lia. }
        subst fs1. rewrite index_of_app by assumption.
        assert (D1 : data (bs r1) = a ++ b ++ x :: tail ++ rest).
        { destruct A1 as (-> & _). rewrite D. cbn. now rewrite <- app_assoc. }
        assert (L1 : limits r1 = (length a + (length b + (1 + length tail))) :: map (fun l => l - 1) others).
        { destruct A1 as (_ & -> & _). rewrite L. cbn [map]. f_equal. lia. }
        assert (E1 : err r1 = false) by (eapply adv_err; eauto).
        destruct (H1 fuel ltac:(lia) r1 (b ++ x :: tail ++ rest) D1) as (r2 & H2' & A2); auto.
        { rewrite L1. constructor; [lia|]. apply Forall_map. eapply Forall_impl; [|exact Lo]. cbn beta; intros; lia. }
        assert (E2 : err r2 = false) by (eapply adv_err; eauto).
        rewrite H2'. cbn [obindO]. rewrite E2, andb_false_r. rewrite <- Hlen, set_nth_app.
        destruct (H2 fuel g ltac:(lia) ltac:(lia) r2 rest (map (fun l => l - (1 + length a)) others) x tail) as (r3 & H3 & D3 & L3 & E3); auto.
        { destruct A2 as (-> & _). rewrite D1. apply skipn_app_len. }
        { destruct A2 as (_ & -> & _). rewrite L1. cbn [map]. f_equal; [lia|]. rewrite map_map. apply map_ext; intros; lia. }
        { apply Forall_map. eapply Forall_impl; [|exact Lo]. cbn beta; intros; lia. }
        rewrite <- !app_assoc in H3. cbn [app] in H3.
        exists r3. split; [exact H3|].
        split; [exact D3|]. split; [|exact E3]. rewrite L3, map_map. apply map_ext; intros; lia.
      + destruct (zip_opt _ fs' xs) as [b|] eqn:Exs; cbn [obind]; [|discriminate].
        intros [= <-]. cbn [app].
        destruct (IH (fs_pre ++ [(i, f)]) fs' (l_pre ++ [None]) b) as [f2 H2].
        { now rewrite <- app_assoc. } { rewrite !app_length; cbn; lia. } { exact Exs. }
        exists f2. intros fuel g Hf Hg r rest others x tail Hx D L Lo Er.
        destruct (H2 fuel g Hf Hg r rest others x tail Hx D L Lo Er) as (r3 & H3 & R3).
        rewrite <- !app_assoc in H3. cbn [app map zip_map_opt] in *. exists r3. split; [exact H3|exact R3].
  Qed.

  Theorem C04_stream : forall v, ER v.
  Proof.
    unfold ER, enc.
    induction v using value_ind'; intros t a; destruct t; cbn [enc_with]; try discriminate;
      try (intros E; exists 1; intros [|fuel] Hf r rest D L Er; [lia|]; cbn [sdec restrict]; now eapply sdec_prim_ok; eauto).
    - (* array *)
      destruct (count_ok _) eqn:Ec; [|discriminate].
      destruct (cat_opt (enc_with s2 true t) l) as [body|] eqn:E; cbn [obind]; [|discriminate].
      intros [= <-]. destruct (eelems t l H body E) as [f0 H0].
      exists (S f0). intros [|fuel] Hf r rest D L Er; [lia|]. cbn [sdec restrict].
      rewrite <- app_assoc in D. apply lim_app in L. rewrite le_enc_length in L.
      destruct (read_u32_ok r (N.of_nat (length l)) (body ++ rest)) as (r1 & -> & A1); auto.
      { unfold count_ok in Ec. now apply N.ltb_lt. } { split; [rewrite D, app_length, le_enc_length; lia|]. eapply lim_weaken; [|exact L]. lia. }
      cbn [count_within negb]. rewrite Nat2N.id.
      destruct (H0 fuel ltac:(lia) r1 rest) as (r2 & -> & A2).
      { destruct A1 as (-> & _). rewrite D. apply skipn_le4. }
      { eapply adv_limits; [exact A1|exact L]. }
      { eapply adv_err; eauto. }
      cbn [obindO]. exists r2. split; [reflexivity|]. rewrite app_length, le_enc_length. eapply adv_trans; eauto.
    - (* map *)
      destruct (count_ok _) eqn:Ec; [|discriminate].
      destruct (cat_opt _ l) as [body|] eqn:E; cbn [obind]; [|discriminate].
      intros [= <-]. destruct (eentries k t l H body E) as [f0 H0].
      exists (S f0). intros [|fuel] Hf r rest D L Er; [lia|]. cbn [sdec restrict].
      rewrite <- app_assoc in D. apply lim_app in L. rewrite le_enc_length in L.
      destruct (read_u32_ok r (N.of_nat (length l)) (body ++ rest)) as (r1 & -> & A1); auto.
      { unfold count_ok in Ec. now apply N.ltb_lt. } { split; [rewrite D, app_length, le_enc_length; lia|]. eapply lim_weaken; [|exact L]. lia. }
      cbn [count_within negb]. rewrite Nat2N.id.
      destruct (H0 fuel ltac:(lia) r1 rest) as (r2 & -> & A2).
      { destruct A1 as (-> & _). rewrite D. apply skipn_le4. }
      { eapply adv_limits; [exact A1|exact L]. }
      { eapply adv_err; eauto. }
      cbn [obindO]. exists r2. split; [reflexivity|]. rewrite app_length, le_enc_length. eapply adv_trans; eauto.
    - (* struct *)
      pose proof (Hext n) as Hn. destruct (s2 n) as [[fs| |]|] eqn:Es2; try discriminate.
      destruct (s1 n) as [[fs'| |]|] eqn:Es1; try contradiction. subst fs'. intros E.
      destruct (efields l H fs a E) as [f0 H0].
      exists (S f0). intros [|fuel] Hf r rest D L Er; [lia|]. cbn [sdec restrict]. rewrite Es1.
      destruct (H0 fuel ltac:(lia) r rest D L Er) as (r1 & -> & A1). cbn [obindO]. exists r1. split; [reflexivity|exact A1].
    - (* message: the old reader knows a prefix of the fields *)
      pose proof (Hext n) as Hn. destruct (s2 n) as [[|fs2 deps2|]|] eqn:Es2; try discriminate.
      destruct (s1 n) as [[|fs1 deps1|]|] eqn:Es1; try contradiction.
      destruct Hn as (extra & -> & [Hnd Hnz]).
      destruct (zip_opt _ (fs1 ++ extra) l) as [body|] eqn:E; cbn [obind]; [|discriminate].
      destruct (count_ok _) eqn:Ec; [|discriminate].
      intros [= <-].
      destruct (zip_opt_app _ _ _ _ _ E) as (l1 & le & body1 & bodye & -> & Hl1 & Z1 & Ze & ->).
      assert (HT : Forall (fun o => match o with Some v => ER v | None => True end) l1).
      { apply Forall_app in H. destruct H as [H1 _]. exact H1. }
      rewrite map_app in Hnd. assert (Hnd1 : NoDup (map fst fs1)) by (eapply nodup_app_l; exact Hnd).
      destruct (emsg fs1 deps2 Hnd1 l1 HT [] fs1 [] body1 eq_refl eq_refl Z1) as [f0 H0].
      (* the byte after the known fields *)
      assert (Hx : exists x tail, bodye ++ [0%N] = x :: tail /\ index_of x fs1 = None).
      { destruct (extra_head s2 deps2 extra le bodye Ze) as [->|(i & tl & -> & Hi)].
        - exists 0%N, []. split; [reflexivity|]. apply index_of_none. intros Hin. apply Hnz. rewrite map_app. apply in_or_app. now left.
        - exists i, (tl ++ [0%N]). split; [reflexivity|]. apply index_of_none. intros Hin.
          clear -Hnd Hin Hi. induction (map fst fs1) as [|y ys IH]; [contradiction|]. cbn in Hnd. inversion Hnd as [|? ? Hy Hys]; subst.
          destruct Hin as [->|Hin]; [apply Hy; apply in_or_app; now right|now apply IH]. }
      destruct Hx as (x & tail & Hxt & Hxi).
      exists (S (f0 + length body1 + length tail + 2)). intros [|fuel] Hf r rest D L Er; [lia|]. cbn [sdec restrict]. rewrite Es1.
      assert (Hbt : length bodye + 1 = 1 + length tail).
      { pose proof (f_equal (@length _) Hxt) as Q. rewrite app_length in Q. cbn [length] in Q. lia. }
      assert (Hlen : length (le_enc 4 (N.of_nat (length (body1 ++ bodye) + 1)) ++ (body1 ++ bodye) ++ [0%N]) = 4 + (length body1 + (1 + length tail))).
      { rewrite !app_length, le_enc_length. cbn [length]. lia. }
      assert (L4 : Forall (fun l => 4 + (length body1 + (1 + length tail)) <= l) (limits r)).
      { eapply Forall_impl; [|exact L]. cbn beta. intros y. rewrite Hlen. auto. }
      assert (Hn : length (body1 ++ bodye) + 1 = length body1 + (1 + length tail)).
      { rewrite app_length. lia. }
      assert (D' : data (bs r) = le_enc 4 (N.of_nat (length (body1 ++ bodye) + 1)) ++ (body1 ++ (x :: tail) ++ rest)).
      { rewrite D, <- Hxt. rewrite <- !app_assoc. reflexivity. }
      destruct (read_u32_ok r (N.of_nat (length (body1 ++ bodye) + 1)) (body1 ++ (x :: tail) ++ rest)) as (r1 & -> & A1); auto.
      { unfold count_ok in Ec. now apply N.ltb_lt. } { split; [rewrite D', app_length, le_enc_length; lia|]. eapply lim_weaken; [|exact L4]. lia. }
      assert (D1 : data (bs r1) = body1 ++ (x :: tail) ++ rest) by (destruct A1 as (-> & _); rewrite D'; apply skipn_le4).
      rewrite clamp_id by (rewrite Nat2N.id, Hn; unfold avail; rewrite D1, !app_length; cbn [length]; lia).
      rewrite Nat2N.id, Hn.
      destruct (H0 fuel fuel ltac:(lia) ltac:(lia) (push r1 (length body1 + (1 + length tail))) rest (limits r1) x tail Hxi)
        as (r2 & Hm & D2 & L2 & E2).
      { cbn [push bs data]. exact D1. }
      { reflexivity. }
      { eapply adv_limits; [exact A1|exact L4]. }
      { cbn [push err]. eapply adv_err; eauto. }
      cbn [app] in Hm. rewrite Hm. cbn [obindO]. exists r2. split.
      + f_equal. f_equal. f_equal. symmetry. apply zip_map_opt_app. exact Hl1.
      + match goal with |- adv _ ?n _ => replace n with (4 + (length body1 + (1 + length tail))) by (rewrite !app_length, le_enc_length; cbn [length]; lia) end.
        repeat split.
        * rewrite D2, D'. symmetry.
          rewrite <- (le_enc_length 4 (N.of_nat (length (body1 ++ bodye) + 1))) at 1. rewrite skipn_app_len'.
          rewrite skipn_app_len'. change (1 + length tail) with (length (x :: tail)). apply skipn_app_len.
        * rewrite L2. destruct A1 as (_ & -> & _). rewrite map_map. apply map_ext. intros y. symmetry. apply Nat.sub_add_distr.
        * rewrite E2. symmetry. exact Er.
    - (* union *)
      pose proof (Hext n) as Hn. destruct (s2 n) as [[| |brs]|] eqn:Es2; try discriminate.
      destruct (s1 n) as [[| |brs']|] eqn:Es1; try contradiction. subst brs'.
      destruct (find _ brs) as [[j m]|] eqn:Ef; [|discriminate].
      destruct (enc_with s2 true (TRef m) v) as [a1|] eqn:Ex; cbn [obind]; [|discriminate].
      destruct (count_ok _) eqn:Ec; [|discriminate].
      intros [= <-]. destruct (IHv (TRef m) a1 Ex) as [f0 H0].
      exists (S f0). intros [|fuel] Hf r rest D L Er; [lia|]. cbn [sdec restrict]. rewrite Es1, Ef.
      rewrite <- !app_assoc in D. cbn [app] in D.
      assert (Hlen : length (le_enc 4 (N.of_nat (length a1)) ++ i :: a1) = 4 + (1 + length a1))
        by (rewrite !app_length, le_enc_length; reflexivity).
      assert (L4 : Forall (fun l => 4 + (1 + length a1) <= l) (limits r)).
      { eapply Forall_impl; [|exact L]. cbn beta. intros y. rewrite Hlen. auto. }
      destruct (read_u32_ok r (N.of_nat (length a1)) (i :: a1 ++ rest)) as (r1 & -> & A1); auto.
      { unfold count_ok in Ec. now apply N.ltb_lt. } { split; [rewrite D, app_length, le_enc_length; cbn; lia|]. eapply lim_weaken; [|exact L4]. lia. }
      assert (D1 : data (bs r1) = i :: a1 ++ rest) by (destruct A1 as (-> & _); rewrite D; apply skipn_le4).
      assert (E1 : err r1 = false) by (eapply adv_err; eauto).
      assert (Lo : Forall (fun l => 1 + length a1 <= l) (limits r1)) by (eapply adv_limits; [exact A1|exact L4]).
      rewrite clamp_id by (unfold avail; rewrite D1; cbn [length]; rewrite app_length; lia).
      replace (N.to_nat (N.of_nat (length a1) + 1)) with (length a1 + 1) by lia.
      destruct (read_byte0_ok (push r1 (length a1 + 1)) i (a1 ++ rest)) as (r2 & -> & A2); auto.
      { split; [cbn [push bs]; rewrite D1; cbn; lia|]. cbn [push limits]. constructor; [lia|]. eapply lim_weaken; [|exact Lo]. lia. }
      rewrite Ef.
      assert (D2 : data (bs r2) = a1 ++ rest) by (destruct A2 as (-> & _); cbn [push bs]; rewrite D1; reflexivity).
      assert (L2 : limits r2 = length a1 :: map (fun l => l - 1) (limits r1)).
      { destruct A2 as (_ & -> & _). cbn [push limits map]. f_equal. lia. }
      assert (E2 : err r2 = false) by (destruct A2 as (_ & _ & ->); exact E1).
      destruct (H0 fuel ltac:(lia) r2 rest D2) as (r3 & -> & A3); auto.
      { rewrite L2. constructor; [lia|]. apply Forall_map. eapply Forall_impl; [|exact Lo]. cbn beta; intros; lia. }
      cbn [obindO].
      assert (E3 : err r3 = false) by (eapply adv_err; eauto). rewrite E3.
      assert (L3 : limits r3 = 0 :: map (fun l => l - (1 + length a1)) (limits r1)).
      { destruct A3 as (_ & -> & _). rewrite L2. cbn [map]. f_equal; [lia|]. rewrite map_map. apply map_ext; intros; lia. }
      destruct (drain_top0 r3 _ L3) as (Dd & Ld & Ed).
      eexists. split; [reflexivity|]. rewrite Hlen. repeat split.
      + rewrite Dd. destruct A3 as (-> & _). rewrite D2, skipn_app_len, D.
        rewrite <- (le_enc_length 4 (N.of_nat (length a1))) at 1. rewrite skipn_app_len'.
        cbn [plus skipn]. now rewrite skipn_app_len.
      + rewrite Ld. destruct A1 as (_ & -> & _). rewrite map_map. apply map_ext; intros; lia.
      + rewrite Ed, E3. symmetry. exact Er.
  Qed.
End C04.
