(* The wire model: schemas, values, the reference encoding [enc] (the Bebop wire format) and [size] (the generated Size()).
   Executable; no proofs here.  Conventions (DESIGN.md section 4.1 and Appendix A):
   - all fixed-width numeric primitives (integers, floats as IEEE bit patterns, dates as signed 100ns tick counts) are [VZ];
     the time.Time <-> tick map of dates is the business of C20 (wire/IoLib.v, sl_date) and of the harness;
   - an enum is on the wire exactly its base integer: the harness maps an enum-typed field to [TPrim base];
   - a message carries the list of its deprecated indices; [enc] is the STRICT reference encoder: it is defined on
     normalised values only (None in deprecated fields, one union member), [genc] is what the generated encoders do
     (they skip deprecated fields), and wire/Norm.v relates the two;
   - maps are association lists in iteration order. *)
Require Export Bebop.common.LE.

Inductive prim := PBool | PByte | PUint8 | PUint16 | PInt16 | PUint32 | PInt32 | PUint64 | PInt64
                | PFloat32 | PFloat64 | PString | PGuid | PDate.
Notation ident := N (only parsing).
Inductive ty := TPrim (p : prim) | TRef (n : ident) | TArr (t : ty) | TMap (k : prim) (t : ty).
Inductive def :=
| DStruct (fs : list ty)
| DMsg (fs : list (N * ty)) (deprecated : list N)     (* ascending index; indices the reader/writer marks deprecated *)
| DUnion (bs : list (N * ident)).                     (* ascending discriminator; members are record definitions *)
Definition schema := ident -> option def.

Inductive value :=
| VB (b : bool)
| VZ (z : Z)
| VS (s : bytes)                                      (* strings; GUIDs as their 16 bytes in textual order *)
| VArr (l : list value)
| VMap (l : list (value * value))
| VStruct (l : list value)
| VMsg (l : list (option value))                      (* aligned with the field list *)
| VUnion (i : N) (v : value).                         (* discriminator and member; unknown discriminator = empty union *)

Definition obind {A B} (o : option A) (f : A -> option B) := match o with Some a => f a | None => None end.
Notation "x <- o ;; k" := (obind o (fun x => k)) (at level 60, o at level 50, right associativity).

(* list combinators, function parameter outside the fix (so that [enc] may recurse through them) *)
Definition cat_opt {A} (f : A -> option bytes) :=
  fix go (l : list A) : option bytes :=
    match l with [] => Some [] | x :: xs => a <- f x ;; b <- go xs ;; Some (a ++ b) end.
Definition zip_opt {A B} (f : A -> B -> option bytes) :=
  fix go (fs : list A) (l : list B) {struct l} : option bytes :=
    match fs, l with
    | [], [] => Some []
    | t :: fs', x :: xs => a <- f t x ;; b <- go fs' xs ;; Some (a ++ b)
    | _, _ => None
    end.
Definition sum_of {A} (f : A -> nat) := fix go (l : list A) : nat := match l with [] => 0 | x :: xs => f x + go xs end.
Definition zip_sum {A B} (f : A -> B -> nat) :=
  fix go (fs : list A) (l : list B) {struct l} : nat :=
    match fs, l with t :: fs', x :: xs => f t x + go fs' xs | _, _ => 0 end.

(* ---------- primitives ---------- *)
(* width and signedness of the fixed-width numeric primitives *)
Definition int_spec (p : prim) : option (nat * bool) :=
  match p with
  | PByte | PUint8 => Some (1, false)
  | PUint16 => Some (2, false) | PInt16 => Some (2, true)
  | PUint32 => Some (4, false) | PInt32 => Some (4, true)
  | PUint64 => Some (8, false) | PInt64 => Some (8, true)
  | PFloat32 => Some (4, false) | PFloat64 => Some (8, false)
  | PDate => Some (8, true)
  | PBool | PString | PGuid => None
  end.

Definition in_range (w : nat) (sg : bool) (z : Z) : bool :=
  if sg then ((- 2 ^ (8 * Z.of_nat w - 1) <=? z) && (z <? 2 ^ (8 * Z.of_nat w - 1)))%Z
  else ((0 <=? z) && (z <? 2 ^ (8 * Z.of_nat w)))%Z.

(* the .NET Guid field order on the wire; the same permutation both ways (it is an involution) *)
Definition guid_perm : list nat := [3; 2; 1; 0; 5; 4; 7; 6; 8; 9; 10; 11; 12; 13; 14; 15].
Definition permute (g : bytes) : bytes := map (fun i => nth i g 0%N) guid_perm.

Definition count_ok (n : nat) := (N.of_nat n <? 2^32)%N.

Definition enc_prim (p : prim) (v : value) : option bytes :=
  match int_spec p, v with
  | Some (w, sg), VZ z => if in_range w sg z then Some (le_enc w (of_signed w z)) else None
  | Some _, _ => None
  | None, _ =>
      match p, v with
      | PBool, VB b => Some [if b then 1%N else 0%N]
      | PString, VS s => if count_ok (length s) then Some (le_enc 4 (N.of_nat (length s)) ++ s) else None
      | PGuid, VS g => if length g =? 16 then Some (permute g) else None
      | _, _ => None
      end
  end.

(* every value of a fixed-size type has this size (the generator's fixedSizeTypes table; gen/Tables.v ties it) *)
Definition fixed_size (p : prim) : option nat :=
  match int_spec p with
  | Some (w, _) => Some w
  | None => match p with PBool => Some 1 | PGuid => Some 16 | _ => None end
  end.

Definition size_prim (p : prim) (v : value) : nat :=
  match fixed_size p with
  | Some w => w
  | None => match v with VS s => 4 + length s | _ => 4 end
  end.

Definition mem (i : N) (l : list N) : bool := existsb (N.eqb i) l.

Section Codec.
  Variable s : schema.

  (* strict = true: a value in a deprecated field is not encodable (it is not a normalised value);
     strict = false: the generated encoders skip deprecated fields *)
  Definition msg_field (strict : bool) (deps : list N) (f : ty -> value -> option bytes) (it : N * ty) (o : option value) : option bytes :=
    match o with
    | None => Some []
    | Some x => if mem (fst it) deps then (if strict then None else Some []) else a <- f (snd it) x ;; Some (fst it :: a)
    end.
  (* generated Size(): deprecated fields are not counted *)
  Definition msg_field_size (deps : list N) (f : ty -> value -> nat) (it : N * ty) (o : option value) : nat :=
    match o with None => 0 | Some x => if mem (fst it) deps then 0 else 1 + f (snd it) x end.

  Section Enc.
    Variable strict : bool.
    Fixpoint enc_with (t : ty) (v : value) {struct v} : option bytes :=
      match t, v with
      | TPrim p, _ => enc_prim p v
      | TArr t', VArr l =>
          if count_ok (length l) then
            body <- cat_opt (enc_with t') l ;; Some (le_enc 4 (N.of_nat (length l)) ++ body)
          else None
      | TMap k t', VMap l =>
          if count_ok (length l) then
            body <- cat_opt (fun kv : value * value => a <- enc_prim k (fst kv) ;; b <- enc_with t' (snd kv) ;; Some (a ++ b)) l ;;
            Some (le_enc 4 (N.of_nat (length l)) ++ body)
          else None
      | TRef n, VStruct l =>
          match s n with Some (DStruct fs) => zip_opt enc_with fs l | _ => None end
      | TRef n, VMsg l =>
          match s n with
          | Some (DMsg fs deps) =>
              body <- zip_opt (msg_field strict deps enc_with) fs l ;;
              if count_ok (length body + 1) then Some (le_enc 4 (N.of_nat (length body + 1)) ++ body ++ [0%N]) else None
          | _ => None
          end
      | TRef n, VUnion i x =>
          match s n with
          | Some (DUnion bs) =>
              match find (fun b => N.eqb (fst b) i) bs with
              | Some (_, m) => a <- enc_with (TRef m) x ;;
                               if count_ok (length a) then Some (le_enc 4 (N.of_nat (length a)) ++ i :: a) else None
              | None => None
              end
          | _ => None
          end
      | _, _ => None
      end.
  End Enc.

  Definition enc := enc_with true.         (* the reference encoding, on normalised values *)
  Definition genc := enc_with false.       (* what the generated encoders emit, on any typed value *)

  Fixpoint size (t : ty) (v : value) {struct v} : nat :=
    match t, v with
    | TPrim p, _ => size_prim p v
    | TArr t', VArr l => 4 + sum_of (size t') l
    | TMap k t', VMap l => 4 + sum_of (fun kv : value * value => size_prim k (fst kv) + size t' (snd kv)) l
    | TRef n, VStruct l => match s n with Some (DStruct fs) => zip_sum size fs l | _ => 0 end
    | TRef n, VMsg l => match s n with Some (DMsg fs deps) => 5 + zip_sum (msg_field_size deps size) fs l | _ => 0 end
    | TRef n, VUnion i x =>
        match s n with
        | Some (DUnion bs) =>
            match find (fun b => N.eqb (fst b) i) bs with
            | Some (_, m) => 5 + size (TRef m) x
            | None => 4
            end
        | _ => 0
        end
    | _, _ => 0
    end.
End Codec.

(* ---------- outcomes of the generated decoders ---------- *)
(* [Panic]: a Go run-time panic at the named generated statement.  [Excess]: the statement asks for memory, or for loop
   iterations, out of proportion to the input (the property's "allocate / run away"); only produced when a limit is given. *)
Inductive site := SPrimRead | SStrRead | SCount | SCopy | SHeader | SIndex | SMakeArr | SMakeMap | SMakeStr | SNoDef.
Inductive outcome (A : Type) := Ok (a : A) | Err | Panic (x : site) | Excess (x : site) | OutOfFuel.
Arguments Ok {A}. Arguments Err {A}. Arguments Panic {A}. Arguments Excess {A}. Arguments OutOfFuel {A}.
Definition obindO {A B} (o : outcome A) (f : A -> outcome B) : outcome B :=
  match o with Ok a => f a | Err => Err | Panic x => Panic x | Excess x => Excess x | OutOfFuel => OutOfFuel end.
Notation "x <~ o ;; k" := (obindO o (fun x => k)) (at level 60, o at level 50, right associativity).

(* a count [n] read from the wire is in proportion to the [avail] bytes at hand: n <= c * avail + 4096 *)
Definition count_within (lim : option N) (n : N) (avail : nat) : bool :=
  match lim with None => true | Some c => (n <=? c * N.of_nat avail + 4096)%N end.

Fixpoint set_nth {A} (l : list (option A)) (k : nat) (a : A) : list (option A) :=
  match l, k with
  | [], _ => []
  | _ :: xs, O => Some a :: xs
  | x :: xs, S k' => x :: set_nth xs k' a
  end.

Fixpoint index_of (i : N) (fs : list (N * ty)) : option (nat * ty) :=
  match fs with
  | [] => None
  | (j, t) :: fs' => if N.eqb j i then Some (O, t) else
                       match index_of i fs' with Some (k, t') => Some (S k, t') | None => None end
  end.

Definition is_ref (t : ty) : bool := match t with TRef _ => true | _ => false end.
