(* Facts about the generated encoders: MarshalBebopTo into ANY prior buffer is one write of the encoding (the buffer half
   of C02), EncodeBebop without faults writes the encoding, with faults it reports them (C08, encode half). *)
Require Import Bebop.wire.Wire Bebop.wire.WireFacts Bebop.wire.Encoders.
Global Opaque le_enc le_dec.

Lemma write_at_length buf at_ b buf' : write_at buf at_ b = Some buf' -> length buf' = length buf.
Proof.
  unfold write_at. destruct (Nat.leb_spec (at_ + length b) (length buf)); [|discriminate]. intros [= <-].
  rewrite !app_length, firstn_length, skipn_length. lia.
Qed.

Lemma write_at_app buf at_ a b :
  write_at buf at_ (a ++ b) = (b1 <- write_at buf at_ a ;; write_at b1 (at_ + length a) b).
Proof.
  unfold write_at at 1 2. rewrite app_length.
  destruct (Nat.leb_spec (at_ + (length a + length b)) (length buf)) as [H|H].
  - destruct (Nat.leb_spec (at_ + length a) (length buf)) as [H1|H1]; [|lia]. cbn [obind]. unfold write_at.
    rewrite !app_length, firstn_length, skipn_length.
    destruct (Nat.leb_spec (at_ + length a + length b) (Nat.min at_ (length buf) + (length a + (length buf - (at_ + length a))))) as [H2|H2]; [|lia].
    f_equal.
    rewrite firstn_app, firstn_length. rewrite Nat.min_l by lia.
    rewrite (firstn_all2 (n := at_ + length a) (firstn at_ buf)) by (rewrite firstn_length; lia).
    replace (at_ + length a - at_) with (length a) by lia.
    rewrite firstn_app, firstn_all, Nat.sub_diag, firstn_O, app_nil_r.
    rewrite <- !app_assoc. f_equal. f_equal. f_equal.
    rewrite skipn_app, firstn_length, Nat.min_l by lia.
    rewrite (skipn_all2 (n := at_ + length a + length b) (firstn at_ buf)) by (rewrite firstn_length; lia).
    cbn [app]. replace (at_ + length a + length b - at_) with (length a + length b) by lia.
    rewrite skipn_app. rewrite (skipn_all2 (n := length a + length b) a) by lia. cbn [app].
    replace (length a + length b - length a) with (length b) by lia.
    rewrite skipn_skipn'. f_equal. lia.
  - destruct (Nat.leb_spec (at_ + length a) (length buf)) as [H1|H1]; [|reflexivity]. cbn [obind]. unfold write_at.
    rewrite !app_length, firstn_length, skipn_length.
    destruct (Nat.leb_spec (at_ + length a + length b) (Nat.min at_ (length buf) + (length a + (length buf - (at_ + length a))))) as [H2|H2]; [lia|reflexivity].
Qed.

(* ---------- algebra of writers ---------- *)
Definition weq (w1 w2 : W) := forall buf at_, w1 buf at_ = w2 buf at_.
Lemma wr_app a b : weq (seqW (wr a) (wr b)) (wr (a ++ b)).
Proof.
  intros buf at_. unfold seqW, wr. rewrite write_at_app. destruct (write_at buf at_ a) as [b1|]; cbn [obind fst snd]; [|reflexivity].
  destruct (write_at b1 (at_ + length a) b) as [b2|]; cbn [obind]; [|reflexivity]. rewrite app_length. f_equal. f_equal. lia.
Qed.
(* equality of writers on in-range cursors; an empty write is only a no-op while at <= len(buf) *)
Definition weq_in (w1 w2 : W) := forall buf at_, at_ <= length buf -> w1 buf at_ = w2 buf at_.

Lemma wr_inrange b buf at_ buf' at' : wr b buf at_ = Some (buf', at') -> length buf' = length buf /\ at' = at_ + length b /\ at' <= length buf'.
Proof.
  unfold wr. destruct (write_at buf at_ b) as [b1|] eqn:E; cbn [obind]; [|discriminate]. intros [= <- <-].
  pose proof (write_at_length _ _ _ _ E) as Hl. unfold write_at in E. destruct (Nat.leb_spec (at_ + length b) (length buf)); [|discriminate]. lia.
Qed.

Lemma ret_wr : weq_in retW (wr []).
Proof.
  intros buf at_ H. unfold wr, retW, write_at. cbn [length]. rewrite Nat.add_0_r.
  destruct (Nat.leb_spec at_ (length buf)); [|lia]. cbn [obind app]. now rewrite firstn_skipn.
Qed.

Lemma seq_wr w1 w2 a b : weq_in w1 (wr a) -> weq_in w2 (wr b) -> weq_in (seqW w1 w2) (wr (a ++ b)).
Proof.
  intros H1 H2 buf at_ Hin. rewrite <- (wr_app a b buf at_). unfold seqW. rewrite (H1 buf at_ Hin).
  destruct (wr a buf at_) as [[b1 a1]|] eqn:E; cbn [obind fst snd]; [|reflexivity].
  apply H2. destruct (wr_inrange _ _ _ _ _ E) as (_ & _ & Hr). exact Hr.
Qed.

Lemma nested_wr w a sz : weq_in w (wr a) -> sz = length a -> weq_in (nested w sz) (wr a).
Proof.
  intros H -> buf at_ Hin. unfold nested. rewrite (H buf at_ Hin).
  destruct (wr a buf at_) as [[b1 a1]|] eqn:E; cbn [obind fst]; [|reflexivity].
  destruct (wr_inrange _ _ _ _ _ E) as (_ & -> & _). reflexivity.
Qed.

Section Frame.
  Variable s : schema.
  Notation mto := (mto s true).

  (* stated for the generated encoding genc (deprecated fields skipped), which is the reference encoding on normalised values *)
  Definition FR (v : value) := forall t a, genc s t v = Some a -> weq_in (mto t v) (wr a).

  Lemma thread_fr t l : Forall FR l -> forall body, cat_opt (genc s t) l = Some body -> weq_in (thread (mto t) l) (wr body).
  Proof.
    induction 1 as [|x xs Hx _ IH]; cbn [cat_opt thread]; intros body E.
    - injection E as <-. apply ret_wr.
    - destruct (genc s t x) as [a|] eqn:Ex; cbn [obind] in E; [|discriminate].
      destruct (cat_opt (genc s t) xs) as [b|] eqn:Exs; cbn [obind] in E; [|discriminate]. injection E as <-.
      apply seq_wr; [now apply Hx|now apply IH].
  Qed.

  Lemma zip_fr l : Forall FR l -> forall fs a, zip_opt (genc s) fs l = Some a -> weq_in (zipthread mto fs l) (wr a).
  Proof.
    induction 1 as [|x xs Hx _ IH]; intros [|f fs] a; cbn [zip_opt zipthread]; try discriminate.
    - intros [= <-]. apply ret_wr.
    - destruct (genc s f x) as [a1|] eqn:Ex; cbn [obind]; [|discriminate].
      destruct (zip_opt (genc s) fs xs) as [b|] eqn:Exs; cbn [obind]; [|discriminate]. intros [= <-].
      apply seq_wr; [now apply Hx|now apply IH].
  Qed.

  Lemma mzip_fr deps l : Forall (fun o => match o with Some v => FR v | None => True end) l ->
    forall fs body, zip_opt (msg_field false deps (genc s)) fs l = Some body -> weq_in (zipthread (mfield deps mto) fs l) (wr body).
  Proof.
    induction 1 as [|o xs Ho _ IH]; intros [|[i f] fs] body; cbn [zip_opt zipthread]; try discriminate.
    - intros [= <-]. apply ret_wr.
    - destruct o as [x|]; cbn [msg_field mfield obind fst snd].
      + destruct (mem i deps).
        * cbn [obind]. destruct (zip_opt _ fs xs) as [b|] eqn:Exs; cbn [obind]; [|discriminate]. intros [= <-].
          change b with ([] ++ b). apply seq_wr; [apply ret_wr|now apply IH].
        * destruct (genc s f x) as [a|] eqn:Ex; cbn [obind]; [|discriminate].
          destruct (zip_opt _ fs xs) as [b|] eqn:Exs; cbn [obind]; [|discriminate]. intros [= <-].
          change (i :: a ++ b) with (([i] ++ a) ++ b).
          apply seq_wr; [|now apply IH]. apply seq_wr; [intros ? ? ?; reflexivity|now apply Ho].
      + destruct (zip_opt _ fs xs) as [b|] eqn:Exs; cbn [obind]; [|discriminate]. intros [= <-].
        change b with ([] ++ b). apply seq_wr; [apply ret_wr|now apply IH].
  Qed.

  (* C02, buffer half: with the terminator written, MarshalBebopTo at any in-range cursor of ANY buffer is one write of the encoding *)
  Theorem marshal_to_frame : forall v, FR v.
  Proof.
    unfold FR, genc.
    induction v using value_ind'; intros t a; destruct t; cbn [enc_with Encoders.mto]; try discriminate;
      try (intros E; rewrite E; intros ? ? ?; reflexivity).
    - (* array *)
      destruct (count_ok _) eqn:Ec; [|discriminate].
      destruct (cat_opt (enc_with s false t) l) as [body|] eqn:E; cbn [obind]; [|discriminate]. intros [= <-].
      apply seq_wr; [intros ? ? ?; reflexivity|]. eapply thread_fr; eauto.
    - (* map *)
      destruct (count_ok _) eqn:Ec; [|discriminate].
      destruct (cat_opt _ l) as [body|] eqn:E; cbn [obind]; [|discriminate]. intros [= <-].
      apply seq_wr; [intros ? ? ?; reflexivity|].
      clear Ec. revert body E. induction H as [|[kx vx] xs [_ Hx] _ IH]; cbn [cat_opt thread]; intros body E.
      + injection E as <-. apply ret_wr.
      + cbn [fst snd] in *. destruct (enc_prim k kx) as [a|] eqn:Ek; cbn [obind] in E; [|discriminate].
        destruct (enc_with s false t vx) as [a'|] eqn:Ex; cbn [obind] in E; [|discriminate].
        destruct (cat_opt _ xs) as [b|] eqn:Exs; cbn [obind] in E; [|discriminate]. injection E as <-.
        apply seq_wr; [|now apply IH]. apply seq_wr; [intros ? ? ?; reflexivity|now apply Hx].
    - (* struct *)
      destruct (s n) as [[fs| |]|] eqn:Es; try discriminate. intros E.
      apply nested_wr; [eapply zip_fr; eauto|]. apply L1_gen. unfold genc. cbn [enc_with]. now rewrite Es.
    - (* message *)
      destruct (s n) as [[|fs deps|]|] eqn:Es; try discriminate.
      destruct (zip_opt _ fs l) as [body|] eqn:E; cbn [obind]; [|discriminate].
      destruct (count_ok (length body + 1)) eqn:Ec; [|discriminate]. intros [= <-].
      assert (Hs : size s (TRef n) (VMsg l) = length (le_enc 4 (N.of_nat (length body + 1)) ++ body ++ [0%N])).
      { apply L1_gen. unfold genc. cbn [enc_with]. rewrite Es, E. cbn [obind]. now rewrite Ec. }
      assert (Hs4 : size s (TRef n) (VMsg l) - 4 = length body + 1).
      { rewrite Hs, !app_length, le_enc_length. cbn [length]. lia. }
      rewrite Hs4, Ec. apply nested_wr; [|exact Hs].
      apply seq_wr; [intros ? ? ?; reflexivity|]. apply seq_wr; [eapply mzip_fr; eauto|intros ? ? ?; reflexivity].
    - (* union *)
      destruct (s n) as [[| |brs]|] eqn:Es; try discriminate.
      destruct (find _ brs) as [[j m]|] eqn:Ef; [|discriminate].
      destruct (enc_with s false (TRef m) v) as [a1|] eqn:Ex; cbn [obind]; [|discriminate].
      destruct (count_ok (length a1)) eqn:Ec; [|discriminate]. intros [= <-].
      assert (Hs : size s (TRef n) (VUnion i v) = length (le_enc 4 (N.of_nat (length a1)) ++ i :: a1)).
      { apply L1_gen. unfold genc. cbn [enc_with]. rewrite Es, Ef, Ex. cbn [obind]. now rewrite Ec. }
      assert (Hs5 : size s (TRef n) (VUnion i v) - 5 = length a1).
      { rewrite Hs, !app_length, le_enc_length. cbn [length]. lia. }
      rewrite Hs5, Ec. apply nested_wr; [|exact Hs].
      apply seq_wr; [intros ? ? ?; reflexivity|]. change (i :: a1) with ([i] ++ a1).
      apply seq_wr; [intros ? ? ?; reflexivity|now apply IHv].
  Qed.

  (* what C02 says about the buffer, spelled out: any prior contents, nothing beyond Size() touched, Size() returned *)
  Corollary C02_buffer v t a buf : genc s t v = Some a -> length a <= length buf ->
    mto t v buf 0 = Some (a ++ skipn (length a) buf, length a).
  Proof.
    intros E H. rewrite (marshal_to_frame v t a E buf 0 ltac:(lia)). unfold wr, write_at. cbn [plus].
    destruct (Nat.leb_spec (length a) (length buf)); [|lia]. reflexivity.
  Qed.
End Frame.

(* ================= EncodeBebop through the latching ErrorWriter ================= *)
(* [e] runs under [fault], [e0] is the same code under no fault *)
Definition good (fault : nat -> bool) (e e0 : E) : Prop := forall w,
  (werr w = true -> werr (fst (e w)) = true) /\ calls w <= calls (fst (e w)) /\
  (snd (e w) = true -> werr (fst (e w)) = true) /\
  (werr (fst (e w)) = false -> e w = e0 w /\ forall j, calls w <= j < calls (fst (e0 w)) -> fault j = false).

Lemma good_ewr fault b : good fault (ewr fault b) (ewr nofault b).
Proof.
  intros w. unfold ewr, ew_write, nofault. destruct (fault (calls w)) eqn:F; cbn [fst snd werr calls]; repeat split; auto; try discriminate.
  intros j Hj. assert (j = calls w) by lia. now subst.
Qed.

Lemma good_eid fault : good fault eid eid.
Proof. intros w. unfold eid. cbn. repeat split; auto; try discriminate. intros j Hj. lia. Qed.

Lemma good_eseq fault e1 e10 e2 e20 : good fault e1 e10 -> good fault e2 e20 -> good fault (eseq e1 e2) (eseq e10 e20).
Proof.
  intros G1 G2 w. destruct (G1 w) as (M1 & C1 & S1 & K1). unfold eseq.
  destruct (e1 w) as [w1 st1] eqn:E1. cbn [fst snd] in *.
  destruct st1.
  - cbn [fst snd]. pose proof (S1 eq_refl) as Herr.
    split; [exact M1|]. split; [exact C1|]. split; [intros _; exact Herr|]. intros Hc. congruence.
  - destruct (G2 w1) as (M2 & C2 & S2 & K2). destruct (e2 w1) as [w2 st2] eqn:E2. cbn [fst snd] in *.
    split; [auto|]. split; [lia|]. split; [exact S2|].
    intros Hc. assert (Hc1 : werr w1 = false) by (destruct (werr w1) eqn:X; [rewrite M2 in Hc; [discriminate|reflexivity]|reflexivity]).
    destruct (K1 Hc1) as [Q1 R1]. destruct (K2 Hc) as [Q2 R2]. rewrite <- Q1. rewrite <- Q2. split; [reflexivity|].
    cbn [fst]. intros j Hj. rewrite <- Q1 in R1. cbn [fst] in R1. rewrite <- Q2 in R2. cbn [fst] in R2.
    destruct (Nat.lt_ge_cases j (calls w1)); [apply R1; lia|apply R2; lia].
Qed.

Lemma good_ethread {A} fault (f f0 : A -> E) l : Forall (fun x => good fault (f x) (f0 x)) l -> good fault (ethread f l) (ethread f0 l).
Proof.
  induction 1 as [|x xs Hx _ IH]; cbn [ethread]; [apply good_eid|]. now apply good_eseq.
Qed.

Lemma good_ezip {A B} fault (f f0 : A -> B -> E) : forall l fs, (forall t, Forall (fun x => good fault (f t x) (f0 t x)) l) -> good fault (ezip f fs l) (ezip f0 fs l).
Proof.
  induction l as [|x xs IH]; intros [|t fs] H; cbn [ezip]; try apply good_eid.
  apply good_eseq.
  - specialize (H t). now inversion H.
  - apply IH. intros t'. specialize (H t'). now inversion H.
Qed.

Lemma good_erecord fault e e0 : good fault e e0 -> good fault (erecord e) (erecord e0).
Proof.
  intros G w. destruct (G w) as (M & C & S & K). unfold erecord.
  destruct (e w) as [w1 st] eqn:E1. cbn [fst snd] in *.
  split; [exact M|]. split; [exact C|]. split; [intros Hs; exact Hs|].
  intros Hc. destruct (K Hc) as [Q R]. rewrite <- Q. cbn [fst] in *. split; [reflexivity|].
  intros j Hj. apply R. rewrite <- Q. cbn [fst]. exact Hj.
Qed.

Section SencGood.
  Variable fault : nat -> bool.
  Variable s : schema.

  Lemma eprim_good p v : good fault (eprim fault p v) (eprim nofault p v).
  Proof.
    unfold eprim. destruct p; try (destruct (enc_prim _ v); [apply good_ewr|apply good_eid]).
    destruct v; try (cbn; apply good_eid); try (destruct (enc_prim _ _); [apply good_ewr|apply good_eid]).
    apply good_eseq; apply good_ewr.
  Qed.

  Theorem senc_good : forall v t, good fault (senc fault s t v) (senc nofault s t v).
  Proof.
    induction v using value_ind'; intros t; destruct t; cbn [senc]; try apply good_eid; try apply eprim_good.
    - (* array *)
      destruct t as [[]| | |]; try (apply good_eseq; [apply good_ewr|apply good_ethread; eapply Forall_impl; [|exact H]; intros a Ha; apply Ha]).
      apply good_eseq; apply good_ewr.
    - (* map *)
      apply good_eseq; [apply good_ewr|]. apply good_ethread. eapply Forall_impl; [|exact H].
      intros [kx vx] [_ Hx]. cbn [fst snd] in *. apply good_eseq; [apply eprim_good|apply Hx].
    - (* struct *)
      destruct (s n) as [[[|f fs]| |]|]; try apply good_eid.
      apply good_erecord. apply good_ezip. intros t'. eapply Forall_impl; [|exact H]. intros a Ha. apply Ha.
    - (* message *)
      destruct (s n) as [[|fs deps|]|]; try apply good_eid.
      apply good_erecord. apply good_eseq; [apply good_ewr|]. apply good_eseq; [|apply good_ewr].
      apply good_ezip. intros [i f]. eapply Forall_impl; [|exact H].
      intros [x|] Hx; unfold emfield; cbn [fst snd]; [|apply good_eid].
      destruct (mem i deps); [apply good_eid|]. apply good_eseq; [apply good_ewr|apply Hx].
    - (* union *)
      destruct (s n) as [[| |brs]|]; try apply good_eid.
      destruct (find _ brs) as [[j m]|]; apply good_erecord.
      + apply good_eseq; [apply good_ewr|]. apply good_eseq; [apply good_ewr|apply IHv].
      + apply good_ewr.
  Qed.
End SencGood.

(* ---------- L3: without faults and with a clear latch, EncodeBebop appends exactly the encoding ---------- *)
Definition nf (e : E) (b : bytes) : Prop := forall w, werr w = false ->
  exists k, e w = ({| out := out w ++ b; calls := calls w + k; werr := false |}, false).

Lemma nf_ewr b : nf (ewr nofault b) b.
Proof. intros w Hw. exists 1. unfold ewr, ew_write, nofault. rewrite Hw. f_equal. f_equal. lia. Qed.
Lemma nf_eid : nf eid [].
Proof. intros w Hw. exists 0. unfold eid. rewrite app_nil_r, Nat.add_0_r. destruct w; cbn in *. now subst. Qed.
Lemma nf_eseq e1 e2 a b : nf e1 a -> nf e2 b -> nf (eseq e1 e2) (a ++ b).
Proof.
  intros H1 H2 w Hw. destruct (H1 w Hw) as [k1 E1]. unfold eseq. rewrite E1.
  destruct (H2 {| out := out w ++ a; calls := calls w + k1; werr := false |} eq_refl) as [k2 E2]. rewrite E2. cbn [out calls].
  exists (k1 + k2). rewrite app_assoc, Nat.add_assoc. reflexivity.
Qed.
Lemma nf_erecord e b : nf e b -> nf (erecord e) b.
Proof. intros H w Hw. destruct (H w Hw) as [k E1]. exists k. unfold erecord. rewrite E1. reflexivity. Qed.

Section L3.
  Variable s : schema.
  Definition WR (v : value) := forall t a, genc s t v = Some a -> nf (senc nofault s t v) a.

  Lemma eprim_nf p v a : enc_prim p v = Some a -> nf (eprim nofault p v) a.
  Proof.
    intros E. unfold eprim. destruct p; try (rewrite E; apply nf_ewr).
    destruct v; try (rewrite E; apply nf_ewr).
    unfold enc_prim in E. cbn in E. destruct (count_ok _); [|discriminate]. injection E as <-. apply nf_eseq; apply nf_ewr.
  Qed.

  Lemma thread_nf {A} (f : A -> E) (g : A -> option bytes) l : Forall (fun x => forall a, g x = Some a -> nf (f x) a) l ->
    forall body, cat_opt g l = Some body -> nf (ethread f l) body.
  Proof.
    induction 1 as [|x xs Hx _ IH]; cbn [cat_opt ethread]; intros body E.
    - injection E as <-. apply nf_eid.
    - destruct (g x) as [a|] eqn:Ex; cbn [obind] in E; [|discriminate].
      destruct (cat_opt g xs) as [b|] eqn:Exs; cbn [obind] in E; [|discriminate]. injection E as <-.
      apply nf_eseq; [now apply Hx|now apply IH].
  Qed.

  Lemma byte_array_body l body : cat_opt (enc_with s false (TPrim PByte)) l = Some body -> map byte_of l = body.
  Proof.
    revert body. induction l as [|x xs IH]; cbn [cat_opt map]; intros body E; [now injection E|].
    destruct (enc_with s false (TPrim PByte) x) as [a|] eqn:Ex; cbn [obind] in E; [|discriminate].
    destruct (cat_opt _ xs) as [b|] eqn:Exs; cbn [obind] in E; [|discriminate]. injection E as <-.
    rewrite (IH b eq_refl).
    assert (Ha : a = [byte_of x]).
    { destruct x; cbn [enc_with] in Ex; unfold enc_prim in Ex; cbn [int_spec] in Ex; try discriminate.
      destruct (in_range 1 false z) eqn:R; [|discriminate]. injection Ex as <-.
      rewrite le_enc_1. cbn [byte_of]. f_equal.
      unfold in_range in R. apply andb_true_iff in R. destruct R as [R0 R1]. apply Z.leb_le in R0. apply Z.ltb_lt in R1.
      change (2 ^ (8 * Z.of_nat 1))%Z with 256%Z in R1.
      unfold of_signed. change (2 ^ (8 * Z.of_nat 1))%Z with 256%Z. rewrite Z.mod_small by lia.
      apply N.mod_small. change 256%N with (Z.to_N 256). apply Z2N.inj_lt; lia. }
    rewrite Ha. reflexivity.
  Qed.

  Theorem L3 : forall v, WR v.
  Proof.
    unfold WR, genc.
    induction v using value_ind'; intros t a; destruct t; cbn [enc_with senc]; try discriminate;
      try (intros E; now apply eprim_nf).
    - (* array *)
      destruct (count_ok _) eqn:Ec; [|discriminate].
      destruct (cat_opt (enc_with s false t) l) as [body|] eqn:E; cbn [obind]; [|discriminate]. intros [= <-].
      assert (G : nf (ethread (senc nofault s t) l) body).
      { eapply thread_nf; [|exact E]. eapply Forall_impl; [|exact H]. intros x Hx a0 Ea. now apply Hx. }
      destruct t as [[]| | |]; try (apply nf_eseq; [apply nf_ewr|exact G]).
      apply nf_eseq; [apply nf_ewr|]. rewrite (byte_array_body _ _ E). apply nf_ewr.
    - (* map *)
      destruct (count_ok _) eqn:Ec; [|discriminate].
      destruct (cat_opt _ l) as [body|] eqn:E; cbn [obind]; [|discriminate]. intros [= <-].
      apply nf_eseq; [apply nf_ewr|]. eapply thread_nf; [|exact E].
      eapply Forall_impl; [|exact H]. intros [kx vx] [_ Hx] a0. cbn [fst snd].
      destruct (enc_prim k kx) as [ak|] eqn:Ek; cbn [obind]; [|discriminate].
      destruct (enc_with s false t vx) as [av|] eqn:Ev; cbn [obind]; [|discriminate]. intros [= <-].
      apply nf_eseq; [now apply eprim_nf|now apply Hx].
    - (* struct *)
      destruct (s n) as [[fs| |]|] eqn:Es; try discriminate. intros E.
      assert (G : nf (ezip (senc nofault s) fs l) a).
      { clear Es. revert fs a E. induction H as [|x xs Hx _ IH]; intros [|f fs] a; cbn [zip_opt ezip]; try discriminate.
        - intros [= <-]. apply nf_eid.
        - destruct (enc_with s false f x) as [a1|] eqn:Ex; cbn [obind]; [|discriminate].
          destruct (zip_opt _ fs xs) as [b|] eqn:Exs; cbn [obind]; [|discriminate]. intros [= <-].
          apply nf_eseq; [now apply Hx|now apply IH]. }
      destruct fs as [|f fs]; [|now apply nf_erecord].
      destruct l; cbn in E; [|discriminate]. injection E as <-. apply nf_eid.
    - (* message *)
      destruct (s n) as [[|fs deps|]|] eqn:Es; try discriminate.
      destruct (zip_opt _ fs l) as [body|] eqn:E; cbn [obind]; [|discriminate].
      destruct (count_ok (length body + 1)) eqn:Ec; [|discriminate]. intros [= <-].
      assert (Hs : size s (TRef n) (VMsg l) = length (le_enc 4 (N.of_nat (length body + 1)) ++ body ++ [0%N])).
      { apply L1_gen. unfold genc. cbn [enc_with]. rewrite Es, E. cbn [obind]. now rewrite Ec. }
      assert (Hs4 : size s (TRef n) (VMsg l) - 4 = length body + 1).
      { rewrite Hs, !app_length, le_enc_length. cbn [length]. lia. }
      rewrite Hs4. apply nf_erecord. apply nf_eseq; [apply nf_ewr|]. apply nf_eseq; [|apply nf_ewr].
      clear Es Ec Hs Hs4. revert fs body E. induction H as [|o xs Ho _ IH]; intros [|[i f] fs] body; cbn [zip_opt ezip]; try discriminate.
      + intros [= <-]. apply nf_eid.
      + destruct o as [x|]; cbn [msg_field emfield obind fst snd].
        * destruct (mem i deps).
          -- cbn [obind]. destruct (zip_opt _ fs xs) as [b|] eqn:Exs; cbn [obind]; [|discriminate]. intros [= <-].
             change b with ([] ++ b). apply nf_eseq; [apply nf_eid|now apply IH].
          -- destruct (enc_with s false f x) as [a1|] eqn:Ex; cbn [obind]; [|discriminate].
             destruct (zip_opt _ fs xs) as [b|] eqn:Exs; cbn [obind]; [|discriminate]. intros [= <-].
             change (i :: a1 ++ b) with (([i] ++ a1) ++ b).
             apply nf_eseq; [|now apply IH]. apply nf_eseq; [apply nf_ewr|now apply Ho].
        * destruct (zip_opt _ fs xs) as [b|] eqn:Exs; cbn [obind]; [|discriminate]. intros [= <-].
          change b with ([] ++ b). apply nf_eseq; [apply nf_eid|now apply IH].
    - (* union *)
      destruct (s n) as [[| |brs]|] eqn:Es; try discriminate.
      destruct (find _ brs) as [[j m]|] eqn:Ef; [|discriminate].
      destruct (enc_with s false (TRef m) v) as [a1|] eqn:Ex; cbn [obind]; [|discriminate].
      destruct (count_ok (length a1)) eqn:Ec; [|discriminate]. intros [= <-].
      assert (Hs : size s (TRef n) (VUnion i v) = length (le_enc 4 (N.of_nat (length a1)) ++ i :: a1)).
      { apply L1_gen. unfold genc. cbn [enc_with]. rewrite Es, Ef, Ex. cbn [obind]. now rewrite Ec. }
      assert (Hs5 : size s (TRef n) (VUnion i v) - 5 = length a1).
      { rewrite Hs, !app_length, le_enc_length. cbn [length]. lia. }
      rewrite Hs5. apply nf_erecord. apply nf_eseq; [apply nf_ewr|]. change (i :: a1) with ([i] ++ a1).
      apply nf_eseq; [apply nf_ewr|now apply IHv].
  Qed.

  (* ---------- C08, encode half ---------- *)
  (* if the underlying writer fails at ANY call the fault-free run would make, EncodeBebop returns an error *)
  Corollary C08_enc fault v t a j : genc s t v = Some a ->
    j < calls (fst (senc nofault s t v ew0)) -> fault j = true -> werr (fst (senc fault s t v ew0)) = true.
  Proof.
    intros E Hj Hf. destruct (senc_good fault s v t ew0) as (_ & _ & _ & K).
    destruct (werr (fst (senc fault s t v ew0))) eqn:X; [reflexivity|].
    destruct (K eq_refl) as [_ R]. rewrite (R j) in Hf; [discriminate|]. cbn [calls ew0]. lia.
  Qed.

  (* an EncodeBebop that returns nil has written exactly the bytes of MarshalBebop *)
  Corollary C08_enc_ok fault v t a : genc s t v = Some a ->
    werr (fst (senc fault s t v ew0)) = false -> out (fst (senc fault s t v ew0)) = a.
  Proof.
    intros E Hc. destruct (senc_good fault s v t ew0) as (_ & _ & _ & K). destruct (K Hc) as [Q _]. rewrite Q.
    destruct (L3 v t a E ew0 eq_refl) as [k ->]. reflexivity.
  Qed.
End L3.
