(* Facts about the byte-path decoder model: prefix stability (L7), round trip on own encodings with
   advance = examined = length (L4/L5), no strict prefix of an own encoding decodes (byte half of C06),
   the checked and unchecked decoders agree on success (C09_must), the proportionality guard only adds an early exit. *)
Require Import Bebop.wire.Wire Bebop.wire.WireFacts Bebop.wire.ByteDec.
Global Opaque le_enc le_dec.

Definition agree (e : nat) (a b : bytes) := firstn e a = firstn e b.

Lemma agree_len e a b : agree e a b -> e <= length a -> e <= length b.
Proof. unfold agree. intros H L. pose proof (f_equal (@length _) H) as Q. rewrite !firstn_length in Q. lia. Qed.
Lemma agree_le e e' a b : agree e a b -> e' <= e -> agree e' a b.
Proof. unfold agree. intros H L. rewrite <- (Nat.min_l e' e L), <- !firstn_firstn. now rewrite H. Qed.
Lemma agree_skip e off a b : agree (off + e) a b -> agree e (skipn off a) (skipn off b).
Proof.
  unfold agree. revert a b. induction off as [|off IH]; intros a b H; [exact H|].
  destruct a as [|x a], b as [|y b]; cbn [plus firstn skipn] in *; try discriminate; [reflexivity|].
  injection H as -> H. now apply IH.
Qed.
Lemma agree_nth e a b i : agree e a b -> i < e -> nth_error a i = nth_error b i.
Proof.
  unfold agree. revert a b i. induction e as [|e IH]; intros a b i H L; [lia|].
  destruct a as [|x a], b as [|y b]; cbn [firstn] in H; try discriminate; auto.
  injection H as -> H. destruct i; [reflexivity|]. cbn. apply IH; [exact H|lia].
Qed.
Lemma agree_firstn e k a b : agree e a b -> k <= e -> firstn k a = firstn k b.
Proof. intros H L. exact (agree_le _ _ _ _ H L). Qed.

Definition stable (d : D3) := forall bs v a e, d bs = Ok (v, a, e) ->
  e <= length bs /\ forall bs', agree e bs bs' -> d bs' = Ok (v, a, e).

Lemma short_not_ok {A} c x (r : A) : @short A c x <> Ok r.
Proof. unfold short. destruct (safe c); discriminate. Qed.

Lemma dec_prim_stable c p : stable (dec_prim c p).
Proof.
  intros bs v a e. unfold dec_prim. destruct (int_spec p) as [[w sg]|] eqn:E.
  - destruct (Nat.ltb_spec (length bs) w) as [L0|L0]; [intros X; now apply short_not_ok in X|].
    remember (firstn w bs) as fw eqn:Ef. intros [= <- <- <-]. split; [lia|].
    intros bs' Hg. pose proof (agree_len _ _ _ Hg L0). destruct (Nat.ltb_spec (length bs') w); [lia|].
    unfold agree in Hg. now rewrite <- Hg, <- Ef.
  - destruct p; try discriminate E.
    + destruct bs as [|b bs]; [intros X; now apply short_not_ok in X|]. intros [= <- <- <-]. split; [cbn; lia|].
      intros [|b' bs'] Hg; cbn in Hg; [discriminate|]. injection Hg as <-. reflexivity.
    + destruct (Nat.ltb_spec (length bs) 4) as [L0|L0]; [intros X; now apply short_not_ok in X|].
      remember (le_dec (firstn 4 bs)) as n eqn:En.
      destruct (N.ltb_spec (N.of_nat (length bs)) (n + 4)) as [L1|L1]; [intros X; now apply short_not_ok in X|].
      remember (firstn (N.to_nat n) (skipn 4 bs)) as body eqn:Eb. intros [= <- <- <-]. split; [lia|].
      intros bs' Hg. pose proof (agree_len _ _ _ Hg ltac:(lia)) as L'.
      assert (H4 : firstn 4 bs' = firstn 4 bs) by (symmetry; eapply agree_firstn; [exact Hg|lia]).
      destruct (Nat.ltb_spec (length bs') 4); [lia|]. rewrite H4, <- En.
      destruct (N.ltb_spec (N.of_nat (length bs')) (n + 4)); [lia|].
      pose proof (agree_skip (N.to_nat n) 4 bs bs' Hg) as Hs. unfold agree in Hs. now rewrite <- Hs, <- Eb.
    + destruct (Nat.ltb_spec (length bs) 16) as [L0|L0]; [intros X; now apply short_not_ok in X|].
      remember (firstn 16 bs) as f16 eqn:Ef. intros [= <- <- <-]. split; [lia|].
      intros bs' Hg. pose proof (agree_len _ _ _ Hg L0). destruct (Nat.ltb_spec (length bs') 16); [lia|].
      unfold agree in Hg. now rewrite <- Hg, <- Ef.
Qed.

Global Opaque Nat.max.

Lemma sub_stable (d : D3) bs off v a e : stable d -> d (skipn off bs) = Ok (v, a, e) ->
  ex_at off e <= length bs /\ forall bs', agree (ex_at off e) bs bs' -> d (skipn off bs') = Ok (v, a, e).
Proof.
  intros HS H. destruct (HS _ _ _ _ H) as [L St]. rewrite skipn_length in L. split.
  - unfold ex_at. destruct e; lia.
  - intros bs' Hg. apply St. unfold ex_at in Hg. destruct e; [reflexivity|]. now apply agree_skip.
Qed.

Lemma agree_max_l a b x y : agree (Nat.max a b) x y -> agree a x y.
Proof. intros H. eapply agree_le; [exact H|lia]. Qed.
Lemma agree_max_r a b x y : agree (Nat.max a b) x y -> agree b x y.
Proof. intros H. eapply agree_le; [exact H|lia]. Qed.

Lemma elems3_stable d : stable d -> forall k bs off vs off' e, elems3 d k bs off = Ok (vs, off', e) ->
  e <= length bs /\ forall bs', agree e bs bs' -> elems3 d k bs' off = Ok (vs, off', e).
Proof.
  intros HS. induction k as [|k IH]; intros bs off vs off' e H; cbn [elems3] in H.
  - injection H as <- <- <-. split; [lia|]. intros; reflexivity.
  - destruct (d (skipn off bs)) as [[[v a] ei]| | | |] eqn:D; cbn [obindO] in H; try discriminate.
    destruct (elems3 d k bs (off + a)) as [[[vs1 o1] e1]| | | |] eqn:E; cbn [obindO] in H; try discriminate.
    injection H as <- <- <-. destruct (sub_stable d bs off v a ei HS D) as [L1 S1]. destruct (IH _ _ _ _ _ E) as [L2 S2].
    split; [apply Nat.max_lub; lia|]. intros bs' Hg. cbn [elems3]. rewrite (S1 bs' (agree_max_l _ _ _ _ Hg)). cbn [obindO].
    rewrite (S2 bs' (agree_max_r _ _ _ _ Hg)). reflexivity.
Qed.

Lemma entries3_stable dk d : stable dk -> stable d -> forall k bs off vs off' e, entries3 dk d k bs off = Ok (vs, off', e) ->
  e <= length bs /\ forall bs', agree e bs bs' -> entries3 dk d k bs' off = Ok (vs, off', e).
Proof.
  intros HK HS. induction k as [|k IH]; intros bs off vs off' e H; cbn [entries3] in H.
  - injection H as <- <- <-. split; [lia|]. intros; reflexivity.
  - destruct (dk (skipn off bs)) as [[[kv ka] ke]| | | |] eqn:DK; cbn [obindO] in H; try discriminate.
    destruct (d (skipn (off + ka) bs)) as [[[v a] ei]| | | |] eqn:D; cbn [obindO] in H; try discriminate.
    destruct (entries3 dk d k bs (off + ka + a)) as [[[vs1 o1] e1]| | | |] eqn:E; cbn [obindO] in H; try discriminate.
    injection H as <- <- <-.
    destruct (sub_stable dk bs off kv ka ke HK DK) as [L0 S0].
    destruct (sub_stable d bs (off + ka) v a ei HS D) as [L1 S1]. destruct (IH _ _ _ _ _ E) as [L2 S2].
    split; [repeat apply Nat.max_lub; lia|]. intros bs' Hg. cbn [entries3].
    rewrite (S0 bs' (agree_max_l _ _ _ _ Hg)). cbn [obindO].
    rewrite (S1 bs' (agree_max_l _ _ _ _ (agree_max_r _ _ _ _ Hg))). cbn [obindO].
    rewrite (S2 bs' (agree_max_r _ _ _ _ (agree_max_r _ _ _ _ Hg))). reflexivity.
Qed.

Lemma fields3_stable (d : ty -> D3) : (forall t, stable (d t)) -> forall fs bs off vs off' e, fields3 d fs bs off = Ok (vs, off', e) ->
  e <= length bs /\ forall bs', agree e bs bs' -> fields3 d fs bs' off = Ok (vs, off', e).
Proof.
  intros HS. induction fs as [|f fs IH]; intros bs off vs off' e H; cbn [fields3] in H.
  - injection H as <- <- <-. split; [lia|]. intros; reflexivity.
  - destruct (d f (skipn off bs)) as [[[v a] ei]| | | |] eqn:D; cbn [obindO] in H; try discriminate.
    destruct (fields3 d fs bs (off + a)) as [[[vs1 o1] e1]| | | |] eqn:E; cbn [obindO] in H; try discriminate.
    injection H as <- <- <-. destruct (sub_stable (d f) bs off v a ei (HS f) D) as [L1 S1]. destruct (IH _ _ _ _ _ E) as [L2 S2].
    split; [apply Nat.max_lub; lia|]. intros bs' Hg. cbn [fields3]. rewrite (S1 bs' (agree_max_l _ _ _ _ Hg)). cbn [obindO].
    rewrite (S2 bs' (agree_max_r _ _ _ _ Hg)). reflexivity.
Qed.

Lemma mloop3_stable c (d : ty -> D3) fs : (forall t, stable (d t)) -> forall g bs off acc l e, mloop3 c d fs g bs off acc = Ok (l, e) ->
  e <= length bs /\ forall bs', agree e bs bs' -> mloop3 c d fs g bs' off acc = Ok (l, e).
Proof.
  intros HS. induction g as [|g IH]; intros bs off acc l e H; cbn [mloop3] in H; [discriminate|].
  destruct (nth_error bs off) as [i|] eqn:N; [|now apply short_not_ok in H].
  assert (Lo : off < length bs) by (apply nth_error_Some; congruence).
  destruct (index_of i fs) as [[k f]|] eqn:I.
  - destruct (d f (skipn (S off) bs)) as [[[v a] ei]| | | |] eqn:D; cbn [obindO] in H; try discriminate.
    destruct (mloop3 c d fs g bs (S off + a) (set_nth acc k v)) as [[l1 e1]| | | |] eqn:E; cbn [obindO] in H; try discriminate.
    assert (Hl : l = l1) by congruence. assert (He : e = Nat.max (S off) (Nat.max (ex_at (S off) ei) e1)) by congruence. subst l e. clear H.
    destruct (sub_stable (d f) bs (S off) v a ei (HS f) D) as [L1 S1]. destruct (IH _ _ _ _ _ E) as [L2 S2].
    split; [repeat apply Nat.max_lub; lia|]. intros bs' Hg. cbn [mloop3].
    rewrite <- (agree_nth _ _ _ off (agree_max_l _ _ _ _ Hg) ltac:(lia)), N, I.
    rewrite (S1 bs' (agree_max_l _ _ _ _ (agree_max_r _ _ _ _ Hg))). cbn [obindO].
    rewrite (S2 bs' (agree_max_r _ _ _ _ (agree_max_r _ _ _ _ Hg))). reflexivity.
  - injection H as <- <-. split; [lia|]. intros bs' Hg. cbn [mloop3]. rewrite <- (agree_nth _ _ _ off Hg ltac:(lia)), N, I. reflexivity.
Qed.

(* L7: a successful decode that examined e bytes gives the same result on any buffer agreeing on those e bytes.
   Stated for the decoder without the proportionality guard (the guard looks at the total length). *)
Theorem dec3_stable s c : lim c = None -> forall fuel t, stable (dec3 s c fuel t).
Proof.
  intros Hlim. induction fuel as [|fuel IH]; intros t bs v a e H; [discriminate|]. destruct t; cbn [dec3] in H |- *.
  - now apply dec_prim_stable.
  - destruct (s n) as [[fs|fs deps|brs]|] eqn:Es; try discriminate.
    + destruct (fields3 (dec3 s c fuel) fs bs 0) as [[[vs o1] e1]| | | |] eqn:F; cbn [obindO] in H; try discriminate.
      injection H as <- <- <-. destruct (fields3_stable _ IH _ _ _ _ _ _ F) as [L St]. split; [exact L|].
      intros bs' Hg. rewrite (St bs' Hg). reflexivity.
    + destruct (Nat.ltb_spec (length bs) 4) as [L0|L0]; [now apply short_not_ok in H|].
      destruct (mloop3 c (dec3 s c fuel) fs fuel bs 4 (map (fun _ => None) fs)) as [[l e1]| | | |] eqn:M; cbn [obindO] in H; try discriminate.
      injection H as <- <- <-. destruct (mloop3_stable c _ fs IH _ _ _ _ _ _ M) as [L St]. split; [apply Nat.max_lub; lia|].
      intros bs' Hg. pose proof (agree_len _ _ _ (agree_max_l _ _ _ _ Hg) L0) as L4.
      destruct (Nat.ltb_spec (length bs') 4); [lia|]. rewrite (St bs' (agree_max_r _ _ _ _ Hg)). reflexivity.
    + destruct (Nat.ltb_spec (length bs) 4) as [L0|L0]; [now apply short_not_ok in H|].
      destruct (nth_error bs 4) as [i|] eqn:N4; [|now apply short_not_ok in H].
      assert (L5 : 4 < length bs) by (apply nth_error_Some; congruence).
      destruct (find _ brs) as [[j m]|] eqn:Ef.
      * destruct (dec3 s c fuel (TRef m) (skipn 5 bs)) as [[[x a1] e1]| | | |] eqn:D; cbn [obindO] in H; try discriminate.
        injection H as <- <- <-. destruct (sub_stable _ bs 5 x a1 e1 (IH (TRef m)) D) as [L1 S1].
        split; [apply Nat.max_lub; lia|]. intros bs' Hg.
        pose proof (agree_len _ _ _ (agree_max_l _ _ _ _ Hg) ltac:(lia)) as L5'.
        destruct (Nat.ltb_spec (length bs') 4); [lia|].
        rewrite <- (agree_nth _ _ _ 4 (agree_max_l _ _ _ _ Hg) ltac:(lia)), N4, Ef.
        rewrite (S1 bs' (agree_max_r _ _ _ _ Hg)). reflexivity.
      * injection H as <- <- <-. split; [lia|]. intros bs' Hg.
        pose proof (agree_len _ _ _ Hg ltac:(lia)) as L5'.
        destruct (Nat.ltb_spec (length bs') 4); [lia|].
        rewrite <- (agree_nth _ _ _ 4 Hg ltac:(lia)), N4, Ef. reflexivity.
  - destruct (Nat.ltb_spec (length bs) 4) as [L0|L0]; [now apply short_not_ok in H|].
    rewrite Hlim in *. cbn [count_within negb] in *.
    remember (N.to_nat (le_dec (firstn 4 bs))) as cnt eqn:Ec.
    destruct (elems3 (dec3 s c fuel t) cnt bs 4) as [[[vs o1] e1]| | | |] eqn:El; cbn [obindO] in H; try discriminate.
    injection H as <- <- <-. destruct (elems3_stable _ (IH t) _ _ _ _ _ _ El) as [L St]. split; [apply Nat.max_lub; lia|].
    intros bs' Hg. pose proof (agree_len _ _ _ (agree_max_l _ _ _ _ Hg) L0) as L4.
    destruct (Nat.ltb_spec (length bs') 4); [lia|].
    assert (H4 : firstn 4 bs' = firstn 4 bs) by (symmetry; exact (agree_max_l _ _ _ _ Hg)).
    rewrite H4, <- Ec, (St bs' (agree_max_r _ _ _ _ Hg)). reflexivity.
  - destruct (Nat.ltb_spec (length bs) 4) as [L0|L0]; [now apply short_not_ok in H|].
    rewrite Hlim in *. cbn [count_within negb] in *.
    remember (N.to_nat (le_dec (firstn 4 bs))) as cnt eqn:Ec.
    destruct (entries3 (dec_prim c k) (dec3 s c fuel t) cnt bs 4) as [[[vs o1] e1]| | | |] eqn:El; cbn [obindO] in H; try discriminate.
    injection H as <- <- <-. destruct (entries3_stable _ _ (dec_prim_stable c k) (IH t) _ _ _ _ _ _ El) as [L St]. split; [apply Nat.max_lub; lia|].
    intros bs' Hg. pose proof (agree_len _ _ _ (agree_max_l _ _ _ _ Hg) L0) as L4.
    destruct (Nat.ltb_spec (length bs') 4); [lia|].
    assert (H4 : firstn 4 bs' = firstn 4 bs) by (symmetry; exact (agree_max_l _ _ _ _ Hg)).
    rewrite H4, <- Ec, (St bs' (agree_max_r _ _ _ _ Hg)). reflexivity.
Qed.

(* byte half of C06: if the full input decodes having examined all of it, no strict prefix decodes to Ok *)
Corollary no_prefix_ok s c fuel t a v adv : lim c = None -> dec3 s c fuel t a = Ok (v, adv, length a) ->
  forall k, k < length a -> forall r, dec3 s c fuel t (firstn k a) <> Ok r.
Proof.
  intros Hlim Full k Hk [[v' adv'] e'] Hp.
  destruct (dec3_stable s c Hlim fuel t _ _ _ _ Hp) as [L St]. rewrite firstn_length in L.
  assert (Hg : agree e' (firstn k a) a).
  { unfold agree. rewrite firstn_firstn. f_equal. lia. }
  rewrite (St a Hg) in Full. injection Full as _ _ He. lia.
Qed.

(* ---------- own encodings are decoded to the value, advancing and examining exactly their length ---------- *)
Global Transparent Nat.max.
Lemma ex_at_add off a b : Nat.max (ex_at off a) (ex_at (off + a) b) = ex_at off (a + b).
Proof. unfold ex_at. destruct a, b; cbn [plus]; rewrite ?Nat.add_0_r; try lia. Qed.
Lemma ex_at_0 n : ex_at 0 n = n.
Proof. destruct n; reflexivity. Qed.
Lemma max_ex4 n : Nat.max 4 (ex_at 4 n) = 4 + n.
Proof. unfold ex_at. destruct n; lia. Qed.
Lemma nth_error_skipn {A} : forall off (l : list A) x r, skipn off l = x :: r -> nth_error l off = Some x.
Proof. induction off as [|off IH]; intros [|y l] x r H; cbn in *; try discriminate; [congruence|eauto]. Qed.
Lemma skipn_step {A} off (l : list A) a r : skipn off l = a ++ r -> skipn (off + length a) l = r.
Proof. intros H. rewrite <- (skipn_skipn' (length a) off l), H. apply skipn_app_len. Qed.
Lemma firstn_le4 n rest : firstn 4 (le_enc 4 n ++ rest) = le_enc 4 n.
Proof. apply firstn_le. Qed.
Lemma skipn_le4 n rest : skipn 4 (le_enc 4 n ++ rest) = rest.
Proof. apply skipn_le. Qed.
Lemma count_ok_dec n : count_ok n = true -> le_dec (le_enc 4 (N.of_nat n)) = N.of_nat n.
Proof.
  unfold count_ok. intros H. apply N.ltb_lt in H.
  rewrite le_dec_enc; [reflexivity|]. change (256 ^ N.of_nat 4)%N with (2 ^ 32)%N. exact H.
Qed.

Lemma in_range_unsigned w z : 0 < w -> in_range w false z = true -> Z.of_N (of_signed w z) = z /\ (of_signed w z < 256 ^ N.of_nat w)%N.
Proof.
  intros Hw H. unfold in_range in H. apply andb_true_iff in H. destruct H as [H0 H1].
  apply Z.leb_le in H0. apply Z.ltb_lt in H1. split; [|apply of_signed_lt].
  unfold of_signed. rewrite Z.mod_small by lia. apply Z2N.id. lia.
Qed.
Lemma in_range_signed w z : in_range w true z = true -> signed_range w z.
Proof.
  unfold in_range, signed_range. intros H. apply andb_true_iff in H. destruct H as [H0 H1].
  apply Z.leb_le in H0. apply Z.ltb_lt in H1. lia.
Qed.

Lemma int_spec_pos p w sg : int_spec p = Some (w, sg) -> 0 < w.
Proof. destruct p; cbn; intros [= <- <-]; lia. Qed.

Lemma nth_map_permute (g : bytes) : length g = 16 -> permute (permute g) = g.
Proof.
  intros H. do 16 (destruct g as [|? g]; [discriminate H|]). destruct g; [|discriminate H]. reflexivity.
Qed.

Lemma dec_prim_rt c p v a rest : enc_prim p v = Some a -> dec_prim c p (a ++ rest) = Ok (v, length a, length a).
Proof.
  unfold enc_prim, dec_prim. destruct (int_spec p) as [[w sg]|] eqn:E.
  - destruct v; try discriminate. destruct (in_range w sg z) eqn:R; [|discriminate]. intros [= <-].
    rewrite app_length, le_enc_length. destruct (Nat.ltb_spec (w + length rest) w); [lia|].
    rewrite firstn_le, le_dec_enc by apply of_signed_lt.
    pose proof (int_spec_pos _ _ _ E) as Hw.
    destruct sg.
    + rewrite to_of_signed by (auto using in_range_signed). reflexivity.
    + destruct (in_range_unsigned w z Hw R) as [-> _]. reflexivity.
  - destruct p; try discriminate E; destruct v; try discriminate.
    + intros [= <-]. destruct b; reflexivity.
    + destruct (count_ok _) eqn:Ec; [|discriminate]. intros [= <-].
      rewrite <- app_assoc, firstn_le4, (count_ok_dec _ Ec).
      rewrite !app_length, le_enc_length.
      destruct (Nat.ltb_spec (4 + (length s + length rest)) 4); [lia|].
      destruct (N.ltb_spec (N.of_nat (4 + (length s + length rest))) (N.of_nat (length s) + 4)); [lia|].
      rewrite Nat2N.id, skipn_le4, firstn_app_len. reflexivity.
    + destruct (Nat.eqb_spec (length s) 16) as [L|]; [|discriminate]. intros [= <-].
      rewrite app_length, permute_length. destruct (Nat.ltb_spec (16 + length rest) 16); [lia|].
      rewrite <- (permute_length s) at 1. rewrite firstn_app_len, nth_map_permute by exact L. reflexivity.
Qed.

Lemma index_of_none i fs : ~ In i (map fst fs) -> index_of i fs = None.
Proof.
  induction fs as [|[j t] fs IH]; cbn; intros H; [reflexivity|].
  destruct (N.eqb_spec j i); [exfalso; auto|]. rewrite IH; auto.
Qed.
Lemma index_of_app i f pre suf : ~ In i (map fst pre) ->
  index_of i (pre ++ (i, f) :: suf) = Some (length pre, f).
Proof.
  induction pre as [|[j t] pre IH]; cbn; intros H.
  - now rewrite N.eqb_refl.
  - destruct (N.eqb_spec j i); [exfalso; auto|]. rewrite IH; auto.
Qed.
Lemma set_nth_app {A} (pre : list (option A)) o suf a :
  set_nth (pre ++ o :: suf) (length pre) a = pre ++ Some a :: suf.
Proof. induction pre; cbn; congruence. Qed.

Definition msg_wf (fs : list (N * ty)) := NoDup (map fst fs) /\ ~ In 0%N (map fst fs).
(* what Validate / the parser guarantee about an accepted schema, as far as the wire theorems need it *)
Definition schema_wf (s : schema) := forall n fs deps, s n = Some (DMsg fs deps) -> msg_wf fs.

Section RT3.
  Variable s : schema.
  Variable c : cfg.
  Hypothesis Hwf : schema_wf s.
  Hypothesis Hlim : lim c = None.

  Definition RT3 (v : value) := forall t a, enc s t v = Some a ->
    exists f0, forall fuel, f0 <= fuel -> forall rest, dec3 s c fuel t (a ++ rest) = Ok (v, length a, length a).

  Lemma elems3_rt t l : Forall RT3 l -> forall body, cat_opt (enc s t) l = Some body ->
    exists f0, forall fuel, f0 <= fuel -> forall bs off rest, skipn off bs = body ++ rest ->
      elems3 (dec3 s c fuel t) (length l) bs off = Ok (l, off + length body, ex_at off (length body)).
  Proof.
    induction 1 as [|x xs Hx _ IH]; cbn [cat_opt]; intros body E.
    - injection E as <-. exists 0. intros fuel _ bs off rest _. cbn [elems3 length]. now rewrite Nat.add_0_r.
    - destruct (enc s t x) as [a|] eqn:Ex; cbn [obind] in E; [|discriminate].
      destruct (cat_opt (enc s t) xs) as [b|] eqn:Exs; cbn [obind] in E; [|discriminate]. injection E as <-.
      destruct (Hx t a Ex) as [f1 H1]. destruct (IH b eq_refl) as [f2 H2].
      exists (max f1 f2). intros fuel Hf bs off rest D. cbn [length elems3].
      rewrite <- app_assoc in D. rewrite D, (H1 fuel ltac:(lia) (b ++ rest)). cbn [obindO].
      rewrite (H2 fuel ltac:(lia) bs (off + length a) rest (skipn_step _ _ _ _ D)). cbn [obindO].
      rewrite app_length, ex_at_add. f_equal. f_equal. f_equal. lia.
  Qed.

  Lemma entries3_rt k t l : Forall (fun kv => RT3 (fst kv) /\ RT3 (snd kv)) l -> forall body,
    cat_opt (fun kv : value * value => a <- enc_prim k (fst kv) ;; b <- enc s t (snd kv) ;; Some (a ++ b)) l = Some body ->
    exists f0, forall fuel, f0 <= fuel -> forall bs off rest, skipn off bs = body ++ rest ->
      entries3 (dec_prim c k) (dec3 s c fuel t) (length l) bs off = Ok (l, off + length body, ex_at off (length body)).
  Proof.
    induction 1 as [|[kx vx] xs [_ Hx] _ IH]; cbn [cat_opt]; intros body E.
    - injection E as <-. exists 0. intros fuel _ bs off rest _. cbn [entries3 length]. now rewrite Nat.add_0_r.
    - cbn [fst snd] in *.
      destruct (enc_prim k kx) as [ak|] eqn:Ek; cbn [obind] in E; [|discriminate].
      destruct (enc s t vx) as [a|] eqn:Ex; cbn [obind] in E; [|discriminate].
      destruct (cat_opt _ xs) as [b|] eqn:Exs; cbn [obind] in E; [|discriminate]. injection E as <-.
      destruct (Hx t a Ex) as [f1 H1]. destruct (IH b eq_refl) as [f2 H2].
      exists (max f1 f2). intros fuel Hf bs off rest D. cbn [length entries3].
      rewrite <- !app_assoc in D. rewrite D, (dec_prim_rt c k kx ak _ Ek). cbn [obindO].
      pose proof (skipn_step _ _ _ _ D) as D1.
      rewrite D1, (H1 fuel ltac:(lia) (b ++ rest)). cbn [obindO].
      rewrite (H2 fuel ltac:(lia) bs (off + length ak + length a) rest (skipn_step _ _ _ _ D1)). cbn [obindO].
      rewrite !app_length.
      replace (Nat.max (ex_at off (length ak)) (Nat.max (ex_at (off + length ak) (length a)) (ex_at (off + length ak + length a) (length b))))
        with (ex_at off (length ak + length a + length b)).
      + f_equal. f_equal. f_equal. lia.
      + rewrite (ex_at_add (off + length ak)), ex_at_add. f_equal. lia.
  Qed.

  Lemma fields3_rt l : Forall RT3 l -> forall fs a, zip_opt (enc s) fs l = Some a ->
    exists f0, forall fuel, f0 <= fuel -> forall bs off rest, skipn off bs = a ++ rest ->
      fields3 (dec3 s c fuel) fs bs off = Ok (l, off + length a, ex_at off (length a)).
  Proof.
    induction 1 as [|x xs Hx _ IH]; intros [|f fs] a; cbn [zip_opt]; try discriminate.
    - intros [= <-]. exists 0. intros fuel _ bs off rest _. cbn [fields3 length]. now rewrite Nat.add_0_r.
    - destruct (enc s f x) as [a1|] eqn:Ex; cbn [obind]; [|discriminate].
      destruct (zip_opt (enc s) fs xs) as [b|] eqn:Exs; cbn [obind]; [|discriminate]. intros [= <-].
      destruct (Hx f a1 Ex) as [f1 H1]. destruct (IH fs b Exs) as [f2 H2].
      exists (max f1 f2). intros fuel Hf bs off rest D. cbn [fields3].
      rewrite <- app_assoc in D. rewrite D, (H1 fuel ltac:(lia) (b ++ rest)). cbn [obindO].
      rewrite (H2 fuel ltac:(lia) bs (off + length a1) rest (skipn_step _ _ _ _ D)). cbn [obindO].
      rewrite app_length, ex_at_add. f_equal. f_equal. f_equal. lia.
  Qed.

  Lemma mloop3_rt fs_all deps : msg_wf fs_all -> forall l_suf,
    Forall (fun o => match o with Some v => RT3 v | None => True end) l_suf ->
    forall fs_pre fs_suf l_pre body,
      fs_all = fs_pre ++ fs_suf -> length l_pre = length fs_pre ->
      zip_opt (msg_field true deps (enc s)) fs_suf l_suf = Some body ->
      exists f0, forall fuel g, f0 <= fuel -> length body < g -> forall bs off rest,
        skipn off bs = body ++ 0%N :: rest ->
        mloop3 c (dec3 s c fuel) fs_all g bs off (l_pre ++ map (fun _ => None) fs_suf) = Ok (l_pre ++ l_suf, off + length body + 1).
  Proof.
    intros [Hnd Hnz]. induction 1 as [|o xs Ho _ IH]; intros fs_pre [|[i f] fs'] l_pre body Hall Hlen; cbn [zip_opt]; try discriminate.
    - intros [= <-]. exists 0. intros fuel [|g] _ Hg bs off rest D; [cbn in Hg; lia|].
      cbn [mloop3 app length]. rewrite (nth_error_skipn _ _ _ _ D), index_of_none by assumption. f_equal. f_equal. lia.
    - destruct o as [x|]; cbn [msg_field obind fst snd].
      + destruct (mem i deps); [discriminate|].
        destruct (enc s f x) as [a|] eqn:Ex; cbn [obind]; [|discriminate].
        destruct (zip_opt _ fs' xs) as [b|] eqn:Exs; cbn [obind]; [|discriminate]. intros [= <-].
        destruct (Ho f a Ex) as [f1 H1].
        destruct (IH (fs_pre ++ [(i, f)]) fs' (l_pre ++ [Some x]) b) as [f2 H2].
        { now rewrite <- app_assoc. } { rewrite !app_length; cbn; lia. } { exact Exs. }
        exists (max f1 f2). intros fuel [|g] Hf Hg bs off rest D; [cbn in Hg; lia|].
        cbn [mloop3 app map length] in *. rewrite app_length in *.
        assert (Hi : ~ In i (map fst fs_pre)).
        { subst fs_all. rewrite map_app in Hnd. cbn in Hnd. apply NoDup_remove_2 in Hnd.
          intros Hin. apply Hnd. apply in_or_app. now left. }
        rewrite (nth_error_skipn _ _ _ _ D). subst fs_all. rewrite index_of_app by assumption.
        assert (D1 : skipn (S off) bs = a ++ b ++ 0%N :: rest).
        { replace (S off) with (off + length [i]) by (cbn; lia). apply (skipn_step off bs [i]). rewrite D. cbn. now rewrite <- app_assoc. }
        rewrite D1, (H1 fuel ltac:(lia) (b ++ 0%N :: rest)). cbn [obindO].
        rewrite <- Hlen, set_nth_app.
        specialize (H2 fuel g ltac:(lia) ltac:(lia) bs (S off + length a) rest (skipn_step _ _ _ _ D1)).
        rewrite <- !app_assoc in H2. cbn [app] in H2. rewrite H2. cbn [obindO].
        f_equal. f_equal. unfold ex_at. destruct (length a); lia.
      + destruct (zip_opt _ fs' xs) as [b|] eqn:Exs; cbn [obind]; [|discriminate].
        intros [= <-]. cbn [app].
        destruct (IH (fs_pre ++ [(i, f)]) fs' (l_pre ++ [None]) b) as [f2 H2].
        { now rewrite <- app_assoc. } { rewrite !app_length; cbn; lia. } { exact Exs. }
        exists f2. intros fuel g Hf Hg bs off rest D. specialize (H2 fuel g Hf Hg bs off rest D).
        rewrite <- !app_assoc in H2. cbn [app map] in *. exact H2.
  Qed.

  Lemma find_disc (brs : list (N * ident)) i j m : find (fun b => N.eqb (fst b) i) brs = Some (j, m) -> j = i.
  Proof. intros H. apply find_some in H. destruct H as [_ H]. cbn in H. now apply N.eqb_eq in H. Qed.

  (* L4 (checked decoder) and L5 (unchecked decoder), in one statement: for every cfg without the guard *)
  Theorem roundtrip3 : forall v, RT3 v.
  Proof.
    unfold RT3, enc.
    induction v using value_ind'; intros t a; destruct t; cbn [enc_with]; try discriminate;
      try (intros E; exists 1; intros [|fuel] Hf rest; [lia|]; cbn [dec3]; now rewrite (dec_prim_rt c _ _ _ rest E)).
    - (* array *)
      destruct (count_ok _) eqn:Ec; [|discriminate].
      destruct (cat_opt (enc_with s true t) l) as [body|] eqn:E; cbn [obind]; [|discriminate]. intros [= <-].
      destruct (elems3_rt t l H body E) as [f0 H0].
      exists (S f0). intros [|fuel] Hf rest; [lia|]. cbn [dec3]. rewrite Hlim. cbn [count_within negb].
      rewrite <- app_assoc, firstn_le4, (count_ok_dec _ Ec), Nat2N.id.
      rewrite !app_length, le_enc_length. destruct (Nat.ltb_spec (4 + (length body + length rest)) 4); [lia|].
      rewrite (H0 fuel ltac:(lia) _ 4 rest (skipn_le4 _ _)). cbn [obindO]. now rewrite max_ex4.
    - (* map *)
      destruct (count_ok _) eqn:Ec; [|discriminate].
      destruct (cat_opt _ l) as [body|] eqn:E; cbn [obind]; [|discriminate]. intros [= <-].
      destruct (entries3_rt k t l H body E) as [f0 H0].
      exists (S f0). intros [|fuel] Hf rest; [lia|]. cbn [dec3]. rewrite Hlim. cbn [count_within negb].
      rewrite <- app_assoc, firstn_le4, (count_ok_dec _ Ec), Nat2N.id.
      rewrite !app_length, le_enc_length. destruct (Nat.ltb_spec (4 + (length body + length rest)) 4); [lia|].
      rewrite (H0 fuel ltac:(lia) _ 4 rest (skipn_le4 _ _)). cbn [obindO]. now rewrite max_ex4.
    - (* struct *)
      destruct (s n) as [[fs| |]|] eqn:Es; try discriminate. intros E.
      destruct (fields3_rt l H fs a E) as [f0 H0].
      exists (S f0). intros [|fuel] Hf rest; [lia|]. cbn [dec3]. rewrite Es.
      rewrite (H0 fuel ltac:(lia) (a ++ rest) 0 rest eq_refl). cbn [obindO]. rewrite ex_at_0.
      f_equal. f_equal. f_equal. apply L1. unfold enc. cbn [enc_with]. now rewrite Es.
    - (* message *)
      destruct (s n) as [[|fs deps|]|] eqn:Es; try discriminate.
      destruct (zip_opt _ fs l) as [body|] eqn:E; cbn [obind]; [|discriminate].
      destruct (count_ok _) eqn:Ec; [|discriminate]. intros [= <-].
      destruct (mloop3_rt fs deps (Hwf _ _ _ Es) l H [] fs [] body eq_refl eq_refl E) as [f0 H0].
      exists (S (f0 + length body + 1)). intros [|fuel] Hf rest; [lia|]. cbn [dec3]. rewrite Es.
      rewrite !app_length, le_enc_length. cbn [length].
      destruct (Nat.ltb_spec (4 + (length body + 1 + length rest)) 4); [lia|].
      cbn [app] in H0. rewrite <- !app_assoc. cbn [app].
      rewrite (H0 fuel fuel ltac:(lia) ltac:(lia) _ 4 rest (skipn_le4 _ _)). cbn [obindO].
      assert (Hs : size s (TRef n) (VMsg l) = 4 + (length body + 1)).
      { rewrite (L1 s (VMsg l) (TRef n) (le_enc 4 (N.of_nat (length body + 1)) ++ body ++ [0%N])).
        - rewrite !app_length, le_enc_length. reflexivity.
        - unfold enc. cbn [enc_with]. rewrite Es, E. cbn [obind]. now rewrite Ec. }
      rewrite Hs. replace (Nat.max 4 (4 + length body + 1)) with (4 + (length body + 1)) by lia. reflexivity.
    - (* union *)
      destruct (s n) as [[| |brs]|] eqn:Es; try discriminate.
      destruct (find _ brs) as [[j m]|] eqn:Ef; [|discriminate].
      destruct (enc_with s true (TRef m) v) as [a1|] eqn:Ex; cbn [obind]; [|discriminate].
      destruct (count_ok _) eqn:Ec; [|discriminate]. intros [= <-].
      destruct (IHv (TRef m) a1 Ex) as [f0 H0].
      exists (S f0). intros [|fuel] Hf rest; [lia|]. cbn [dec3]. rewrite Es.
      rewrite !app_length, le_enc_length. cbn [length].
      destruct (Nat.ltb_spec (4 + (S (length a1) + length rest)) 4); [lia|].
      assert (D : skipn 4 ((le_enc 4 (N.of_nat (length a1)) ++ i :: a1) ++ rest) = i :: a1 ++ rest).
      { rewrite <- app_assoc. apply skipn_le4. }
      rewrite (nth_error_skipn _ _ _ _ D), Ef.
      assert (D5 : skipn 5 ((le_enc 4 (N.of_nat (length a1)) ++ i :: a1) ++ rest) = a1 ++ rest).
      { change 5 with (4 + length [i]). apply (skipn_step 4 _ [i]). exact D. }
      rewrite D5, (H0 fuel ltac:(lia) rest). cbn [obindO].
      assert (Hs : size s (TRef n) (VUnion i v) = 5 + length a1).
      { rewrite (L1 s (VUnion i v) (TRef n) (le_enc 4 (N.of_nat (length a1)) ++ i :: a1)).
        - rewrite !app_length, le_enc_length. cbn [length]. lia.
        - unfold enc. cbn [enc_with]. rewrite Es, Ef, Ex. cbn [obind]. now rewrite Ec. }
      rewrite Hs. replace (Nat.max 5 (ex_at 5 (length a1))) with (5 + length a1) by (unfold ex_at; destruct (length a1); lia).
      replace (4 + S (length a1)) with (5 + length a1) by lia. reflexivity.
  Qed.

  (* byte half of C06 on the model: a strict prefix of an own encoding never decodes to Ok *)
  Corollary C06_byte v t a : enc s t v = Some a -> exists f0, forall fuel, f0 <= fuel ->
    forall k, k < length a -> forall r, dec3 s c fuel t (firstn k a) <> Ok r.
  Proof.
    intros E. destruct (roundtrip3 v t a E) as [f0 H0]. exists f0. intros fuel Hf.
    apply no_prefix_ok with (v := v) (adv := length a); [exact Hlim|]. specialize (H0 fuel Hf []). now rewrite app_nil_r in H0.
  Qed.
End RT3.

(* ---------- two decoders that differ only on "bad" outcomes agree on the good ones ---------- *)
(* Used twice: (a) the proportionality guard only adds early exits (good = not Excess): what the harness runs with a limit
   is what the theorems say about the unguarded decoder unless it reports Excess; (b) the unchecked decoder agrees with the
   checked one whenever the checked one succeeds (good = Ok): MustUnmarshalBebop = UnmarshalBebop on valid input (C09). *)
Section Refine.
  Variable good : forall A, outcome A -> bool.
  Arguments good {A}.
  Hypothesis good_bind : forall A B (o : outcome A) (f : A -> outcome B), good (obindO o f) = true ->
    good o = true /\ forall a, o = Ok a -> good (f a) = true.
  Hypothesis good_ok_or : forall A (o : outcome A), good o = true -> (exists a, o = Ok a) \/ forall B (f : A -> outcome B) (g : A -> outcome B), obindO o f = obindO o g.

  Definition refines (d d' : D3) := forall bs, good (d bs) = true -> d' bs = d bs.

  Lemma bind_refines {A B} (o o' : outcome A) (f f' : A -> outcome B) :
    good (obindO o f) = true -> (good o = true -> o' = o) -> (forall a, o = Ok a -> good (f a) = true -> f' a = f a) ->
    obindO o' f' = obindO o f.
  Proof.
    intros G Ho Hf. destruct (good_bind _ _ _ _ G) as [G1 G2]. rewrite (Ho G1).
    destruct o as [a| | | |]; cbn [obindO] in *; try reflexivity. apply Hf; [reflexivity|]. now apply G2.
  Qed.

  Lemma elems3_refines d d' : refines d d' -> forall k bs off, good (elems3 d k bs off) = true -> elems3 d' k bs off = elems3 d k bs off.
  Proof.
    intros HR. induction k as [|k IH]; intros bs off G; cbn [elems3] in *; [reflexivity|].
    apply bind_refines; [exact G|apply HR|]. intros [[v a] e] E G1.
    apply bind_refines; [exact G1|apply IH|]. intros [[vs o1] e1] _ _. reflexivity.
  Qed.

  Lemma entries3_refines dk dk' d d' : refines dk dk' -> refines d d' -> forall k bs off,
    good (entries3 dk d k bs off) = true -> entries3 dk' d' k bs off = entries3 dk d k bs off.
  Proof.
    intros HK HR. induction k as [|k IH]; intros bs off G; cbn [entries3] in *; [reflexivity|].
    apply bind_refines; [exact G|apply HK|]. intros [[kv ka] ke] E G1.
    apply bind_refines; [exact G1|apply HR|]. intros [[v a] e] E2 G2.
    apply bind_refines; [exact G2|apply IH|]. intros [[vs o1] e1] _ _. reflexivity.
  Qed.

  Lemma fields3_refines (d d' : ty -> D3) : (forall t, refines (d t) (d' t)) -> forall fs bs off,
    good (fields3 d fs bs off) = true -> fields3 d' fs bs off = fields3 d fs bs off.
  Proof.
    intros HR. induction fs as [|f fs IH]; intros bs off G; cbn [fields3] in *; [reflexivity|].
    apply bind_refines; [exact G|apply HR|]. intros [[v a] e] E G1.
    apply bind_refines; [exact G1|apply IH|]. intros [[vs o1] e1] _ _. reflexivity.
  Qed.
End Refine.

(* (a) the guard *)
Definition not_excess {A} (o : outcome A) : bool := match o with Excess _ => false | _ => true end.
Lemma not_excess_bind A B (o : outcome A) (f : A -> outcome B) : not_excess (obindO o f) = true ->
  not_excess o = true /\ forall a, o = Ok a -> not_excess (f a) = true.
Proof. destruct o; cbn; intros H; try discriminate; split; auto; try discriminate. now intros a0 [= <-]. Qed.

Lemma short_cfg {A} c c' x : safe c' = safe c -> @short A c' x = short c x.
Proof. unfold short. now intros ->. Qed.

Lemma dec_prim_cfg c c' p bs : safe c' = safe c -> dec_prim c' p bs = dec_prim c p bs.
Proof. intros H. unfold dec_prim. now rewrite !(short_cfg c c' _ H). Qed.

Lemma mloop3_guard c c' (d d' : ty -> D3) fs : safe c' = safe c ->
  (forall t bs, not_excess (d t bs) = true -> d' t bs = d t bs) -> forall g bs off acc,
  not_excess (mloop3 c d fs g bs off acc) = true -> mloop3 c' d' fs g bs off acc = mloop3 c d fs g bs off acc.
Proof.
  intros Hs HR. induction g as [|g IH]; intros bs off acc G; cbn [mloop3] in *; [reflexivity|].
  destruct (nth_error bs off) as [i|]; [|apply short_cfg; exact Hs].
  destruct (index_of i fs) as [[k f]|]; [|reflexivity].
  apply (bind_refines (@not_excess) not_excess_bind); [exact G|apply HR|]. intros [[v a] e] E G1.
  apply (bind_refines (@not_excess) not_excess_bind); [exact G1|apply IH|]. intros [l e1] _ _. reflexivity.
Qed.

(* what a run WITH the limit returns, unless it is Excess, is what the run WITHOUT the limit returns *)
Theorem guard_only_exits_early s sf k : forall fuel t bs,
  not_excess (dec3 s {| safe := sf; lim := Some k |} fuel t bs) = true ->
  dec3 s {| safe := sf; lim := None |} fuel t bs = dec3 s {| safe := sf; lim := Some k |} fuel t bs.
Proof.
  set (c := {| safe := sf; lim := Some k |}). set (c' := {| safe := sf; lim := None |}).
  assert (Hs : safe c' = safe c) by reflexivity.
  induction fuel as [|fuel IH]; intros t bs G; [reflexivity|]. destruct t; cbn [dec3] in *.
  - now apply dec_prim_cfg.
  - destruct (s n) as [[fs|fs deps|brs]|]; try reflexivity.
    + apply (bind_refines (@not_excess) not_excess_bind); [exact G| |intros [[vs o1] e1] _ _; reflexivity].
      apply (fields3_refines (@not_excess) not_excess_bind). intros t bs0. apply IH.
    + rewrite (short_cfg c c' _ Hs). destruct (length bs <? 4); [reflexivity|].
      apply (bind_refines (@not_excess) not_excess_bind); [exact G| |intros [l e1] _ _; reflexivity].
      apply mloop3_guard; [exact Hs|]. intros t bs0. apply IH.
    + rewrite !(short_cfg c c' _ Hs). destruct (length bs <? 4); [reflexivity|].
      destruct (nth_error bs 4) as [i|]; [|reflexivity]. destruct (find _ brs) as [[j m]|]; [|reflexivity].
      apply (bind_refines (@not_excess) not_excess_bind); [exact G|apply IH|intros [[x a1] e1] _ _; reflexivity].
  - rewrite (short_cfg c c' _ Hs). destruct (length bs <? 4); [reflexivity|].
    cbn [lim c c' count_within negb] in *. destruct (_ <=? _)%N; cbn [negb] in *; [|discriminate].
    apply (bind_refines (@not_excess) not_excess_bind); [exact G| |intros [[vs o1] e1] _ _; reflexivity].
    apply (elems3_refines (@not_excess) not_excess_bind). intros bs0. apply IH.
  - rewrite (short_cfg c c' _ Hs). destruct (length bs <? 4); [reflexivity|].
    cbn [lim c c' count_within negb] in *. destruct (_ <=? _)%N; cbn [negb] in *; [|discriminate].
    apply (bind_refines (@not_excess) not_excess_bind); [exact G| |intros [[vs o1] e1] _ _; reflexivity].
    apply (entries3_refines (@not_excess) not_excess_bind).
    + intros bs0 _. now apply dec_prim_cfg.
    + intros bs0. apply IH.
Qed.

(* (b) MustUnmarshalBebop agrees with UnmarshalBebop wherever UnmarshalBebop succeeds *)
Definition is_ok {A} (o : outcome A) : bool := match o with Ok _ => true | _ => false end.
Lemma is_ok_bind A B (o : outcome A) (f : A -> outcome B) : is_ok (obindO o f) = true ->
  is_ok o = true /\ forall a, o = Ok a -> is_ok (f a) = true.
Proof. destruct o; cbn; intros H; try discriminate; split; auto. now intros a0 [= <-]. Qed.

Lemma short_not_is_ok {A} c x : is_ok (@short A c x) = true -> False.
Proof. unfold short. destruct (safe c); discriminate. Qed.

Lemma dec_prim_must l p bs : is_ok (dec_prim {| safe := true; lim := l |} p bs) = true ->
  dec_prim {| safe := false; lim := l |} p bs = dec_prim {| safe := true; lim := l |} p bs.
Proof.
  unfold dec_prim. destruct (int_spec p) as [[w sg]|].
  - destruct (length bs <? w); [intros X; now apply short_not_is_ok in X|reflexivity].
  - destruct p; try reflexivity.
    + destruct bs; [intros X; now apply short_not_is_ok in X|reflexivity].
    + destruct (length bs <? 4); [intros X; now apply short_not_is_ok in X|].
      destruct (_ <? _)%N; [intros X; now apply short_not_is_ok in X|reflexivity].
    + destruct (length bs <? 16); [intros X; now apply short_not_is_ok in X|reflexivity].
Qed.

Lemma mloop3_must l (d d' : ty -> D3) fs :
  (forall t bs, is_ok (d t bs) = true -> d' t bs = d t bs) -> forall g bs off acc,
  is_ok (mloop3 {| safe := true; lim := l |} d fs g bs off acc) = true ->
  mloop3 {| safe := false; lim := l |} d' fs g bs off acc = mloop3 {| safe := true; lim := l |} d fs g bs off acc.
Proof.
  intros HR. induction g as [|g IH]; intros bs off acc G; cbn [mloop3] in *; [reflexivity|].
  destruct (nth_error bs off) as [i|]; [|now apply short_not_is_ok in G].
  destruct (index_of i fs) as [[k f]|]; [|reflexivity].
  apply (bind_refines (@is_ok) is_ok_bind); [exact G|apply HR|]. intros [[v a] e] E G1.
  apply (bind_refines (@is_ok) is_ok_bind); [exact G1|apply IH|]. intros [l0 e1] _ _. reflexivity.
Qed.

Theorem must_agrees_with_checked s l : forall fuel t bs,
  is_ok (dec3 s {| safe := true; lim := l |} fuel t bs) = true ->
  dec3 s {| safe := false; lim := l |} fuel t bs = dec3 s {| safe := true; lim := l |} fuel t bs.
Proof.
  induction fuel as [|fuel IH]; intros t bs G; [reflexivity|]. destruct t; cbn [dec3] in *.
  - now apply dec_prim_must.
  - destruct (s n) as [[fs|fs deps|brs]|]; try reflexivity.
    + apply (bind_refines (@is_ok) is_ok_bind); [exact G| |intros [[vs o1] e1] _ _; reflexivity].
      apply (fields3_refines (@is_ok) is_ok_bind). intros t bs0. apply IH.
    + destruct (length bs <? 4); [now apply short_not_is_ok in G|].
      apply (bind_refines (@is_ok) is_ok_bind); [exact G| |intros [l0 e1] _ _; reflexivity].
      apply mloop3_must. intros t bs0. apply IH.
    + destruct (length bs <? 4); [now apply short_not_is_ok in G|].
      destruct (nth_error bs 4) as [i|]; [|now apply short_not_is_ok in G]. destruct (find _ brs) as [[j m]|]; [|reflexivity].
      apply (bind_refines (@is_ok) is_ok_bind); [exact G|apply IH|intros [[x a1] e1] _ _; reflexivity].
  - destruct (length bs <? 4); [now apply short_not_is_ok in G|].
    cbn [lim] in *. destruct (negb _); [discriminate|].
    apply (bind_refines (@is_ok) is_ok_bind); [exact G| |intros [[vs o1] e1] _ _; reflexivity].
    apply (elems3_refines (@is_ok) is_ok_bind). intros bs0. apply IH.
  - destruct (length bs <? 4); [now apply short_not_is_ok in G|].
    cbn [lim] in *. destruct (negb _); [discriminate|].
    apply (bind_refines (@is_ok) is_ok_bind); [exact G| |intros [[vs o1] e1] _ _; reflexivity].
    apply (entries3_refines (@is_ok) is_ok_bind).
    + intros bs0. apply dec_prim_must.
    + intros bs0. apply IH.
Qed.

(* ---------- panic freedom of the checked decoder (the byte half of C07's "never panics") ---------- *)
Definition no_panic {A} (o : outcome A) : Prop := match o with Panic x => x = SNoDef | _ => True end.
Lemma no_panic_bind {A B} (o : outcome A) (f : A -> outcome B) : no_panic o -> (forall a, o = Ok a -> no_panic (f a)) -> no_panic (obindO o f).
Proof. destruct o; cbn; auto. Qed.
Lemma short_safe_no_panic {A} c x : safe c = true -> no_panic (@short A c x).
Proof. unfold short. now intros ->. Qed.

Lemma dec_prim_no_panic c p bs : safe c = true -> no_panic (dec_prim c p bs).
Proof.
  intros Hs. unfold dec_prim. destruct (int_spec p) as [[w sg]|].
  - destruct (length bs <? w); [now apply short_safe_no_panic|exact I].
  - destruct p; try exact I; try reflexivity.
    + destruct bs; [now apply short_safe_no_panic|exact I].
    + destruct (length bs <? 4); [now apply short_safe_no_panic|]. destruct (_ <? _)%N; [now apply short_safe_no_panic|exact I].
    + destruct (length bs <? 16); [now apply short_safe_no_panic|exact I].
Qed.

Lemma elems3_no_panic d : (forall bs, no_panic (d bs)) -> forall k bs off, no_panic (elems3 d k bs off).
Proof.
  intros HD. induction k as [|k IH]; intros bs off; cbn [elems3]; [exact I|].
  apply no_panic_bind; [apply HD|]. intros [[v a] e] _. apply no_panic_bind; [apply IH|]. intros [[vs o1] e1] _. exact I.
Qed.
Lemma entries3_no_panic dk d : (forall bs, no_panic (dk bs)) -> (forall bs, no_panic (d bs)) -> forall k bs off, no_panic (entries3 dk d k bs off).
Proof.
  intros HK HD. induction k as [|k IH]; intros bs off; cbn [entries3]; [exact I|].
  apply no_panic_bind; [apply HK|]. intros [[kv ka] ke] _. apply no_panic_bind; [apply HD|]. intros [[v a] e] _.
  apply no_panic_bind; [apply IH|]. intros [[vs o1] e1] _. exact I.
Qed.
Lemma fields3_no_panic (d : ty -> D3) : (forall t bs, no_panic (d t bs)) -> forall fs bs off, no_panic (fields3 d fs bs off).
Proof.
  intros HD. induction fs as [|f fs IH]; intros bs off; cbn [fields3]; [exact I|].
  apply no_panic_bind; [apply HD|]. intros [[v a] e] _. apply no_panic_bind; [apply IH|]. intros [[vs o1] e1] _. exact I.
Qed.
Lemma mloop3_no_panic c (d : ty -> D3) fs : safe c = true -> (forall t bs, no_panic (d t bs)) -> forall g bs off acc, no_panic (mloop3 c d fs g bs off acc).
Proof.
  intros Hs HD. induction g as [|g IH]; intros bs off acc; cbn [mloop3]; [exact I|].
  destruct (nth_error bs off); [|now apply short_safe_no_panic]. destruct (index_of _ fs) as [[k f]|]; [|exact I].
  apply no_panic_bind; [apply HD|]. intros [[v a] e] _. apply no_panic_bind; [apply IH|]. intros [l e1] _. exact I.
Qed.

(* for EVERY byte string, every schema, every type: the checked decoder's only possible panic is a reference to a type the
   schema does not define (which Validate excludes); with a limit, out-of-proportion counts surface as Excess *)
Theorem checked_decoder_never_panics s c : safe c = true -> forall fuel t bs, no_panic (dec3 s c fuel t bs).
Proof.
  intros Hs. induction fuel as [|fuel IH]; intros t bs; [exact I|]. destruct t; cbn [dec3].
  - now apply dec_prim_no_panic.
  - destruct (s n) as [[fs|fs deps|brs]|]; [| | |reflexivity].
    + apply no_panic_bind; [apply fields3_no_panic; apply IH|]. intros [[vs o1] e1] _. exact I.
    + destruct (length bs <? 4); [now apply short_safe_no_panic|].
      apply no_panic_bind; [apply mloop3_no_panic; [exact Hs|apply IH]|]. intros [l e1] _. exact I.
    + destruct (length bs <? 4); [now apply short_safe_no_panic|].
      destruct (nth_error bs 4); [|now apply short_safe_no_panic]. destruct (find _ brs) as [[j m]|]; [|exact I].
      apply no_panic_bind; [apply IH|]. intros [[x a1] e1] _. exact I.
  - destruct (length bs <? 4); [now apply short_safe_no_panic|]. destruct (negb _); [exact I|].
    apply no_panic_bind; [apply elems3_no_panic; apply IH|]. intros [[vs o1] e1] _. exact I.
  - destruct (length bs <? 4); [now apply short_safe_no_panic|]. destruct (negb _); [exact I|].
    apply no_panic_bind; [apply entries3_no_panic; [intros; now apply dec_prim_no_panic|apply IH]|]. intros [[vs o1] e1] _. exact I.
Qed.
